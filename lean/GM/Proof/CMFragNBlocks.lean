/-
  GM.Proof.CMFragNBlocks — stage 14: `RepDT` for the blocks of stage 6 (plain text lines) and of the union fragment.
-/
import GM.Proof.CMFragNIter

namespace GM.Proof.CMFrag
open GM GM.Text GM.Blocks GM.Spec

/-- plain good lines, position-list form -/
theorem paraDTG_plain (env : GM.Inl.Env) (henv : env.escapedSpace = false) (ls : List Bytes) (hne : ls ≠ [])
    (hg : ∀ l ∈ ls, GoodLine l) : ParaDTG env ls (textNodes ls) :=
  ⟨fun ps => paraKidsG ps ls, fun src ps h => parseBlock_linesG env henv src ps ls hne hg h,
    fun _ ps h => inlineTrees_linesG ps ls h⟩

theorem repDT_good (env : GM.Inl.Env) (henv : env.escapedSpace = false) (b : Raw5) (hg : Good5' b) :
    RepDT env b (rawNode5 b) := by
  cases b with
  | old b' =>
    cases b' with
    | para ls =>
      exact repDT_para env ls hg.1 (fun l hl => (hg.2 l hl).blk (quiet_no_nl l 0 false (hg.2 l hl).quiet)) _
        (paraDTG_plain env henv ls hg.1 hg.2)
    | atx level l =>
      have hgl := hg.2.2.1
      have := repDT_atx env level l (hgl.blk (quiet_no_nl l 0 false hgl.quiet)) _
        (paraDTG_plain env henv [l] (by simp) (by simpa using hgl))
      simpa [rawNode5, rawNode, textNodes] using this
    | hr x => exact repDT_hr env x
  | fence fc n info ls => exact repDT_fence env fc n info ls
  | icode ls => exact fun _ _ h _ => h.elim

theorem repL_good (env : GM.Inl.Env) (henv : env.escapedSpace = false) : ∀ (blks : List Raw5), (∀ b ∈ blks, Good5' b) →
    RelL (RepDT env) blks (blks.map rawNode5)
  | [], _ => trivial
  | b :: rest, h => ⟨repDT_good env henv b (h b (by simp)), repL_good env henv rest (fun x hx => h x (by simp [hx]))⟩

theorem repDT_u (H : U13InlG) (env : GM.Inl.Env) (henv : env.escapedSpace = false) (b : UBlock) (h : UGood b) :
    RepDT env (uraw b) (uNode b) := by
  cases b with
  | para ls =>
    exact repDT_para env (ls.map ulineSrc) (by simpa using h.1) (ulines_blk ls h.2) (uNodes ls) (H env henv ls h.1 h.2)
  | atx level l =>
    have hok : ULinesOK [⟨l, false⟩] := ⟨by simpa using h.2.2.1, by simp⟩
    have hin := H env henv [⟨l, false⟩] (by simp) hok
    have e1 : [(⟨l, false⟩ : ULine)].map ulineSrc = [elineSrc l] := by simp [ulineSrc]
    rw [e1] at hin
    exact repDT_atx env level (elineSrc l) (erichLine_blk h.2.2.1) _ hin
  | hr x => exact repDT_hr env x
  | fence fc n info ls => exact repDT_fence env fc n info ls
  | icode ls => exact fun _ _ h _ => h.elim

theorem repL_u (H : U13InlG) (env : GM.Inl.Env) (henv : env.escapedSpace = false) :
    ∀ (bs : List UBlock), (∀ b ∈ bs, UGood b) → RelL (RepDT env) (bs.map uraw) (bs.map uNode)
  | [], _ => trivial
  | b :: rest, h => ⟨repDT_u H env henv b (h b (by simp)), repL_u H env henv rest (fun x hx => h x (by simp [hx]))⟩

end GM.Proof.CMFrag
