/-
  GM.Proof.FilterInv — the global invariant of the BytesFilter heap model over all programs, and what
  follows from it: Contains decides membership in the plain key set of the spec (GM.Spec.FilterSet).
-/
import GM.Proof.Filter
import GM.Spec.FilterSet
namespace GM.Proof.Filter
open GM GM.Filter GM.Spec GM.Spec.FilterSet

/-! ### bit masks -/

theorem and_or_ne_zero {x m : Nat} (y : Nat) (h : x &&& m ≠ 0) : (x ||| y) &&& m ≠ 0 := by
  intro h0
  apply h
  apply Nat.eq_of_testBit_eq
  intro i
  have := congrArg (fun n => Nat.testBit n i) h0
  simp only [Nat.testBit_and, Nat.testBit_or, Nat.zero_testBit] at this ⊢
  cases hx : x.testBit i <;> cases hm : m.testBit i <;> simp_all

theorem or_bit_and_bit (x i : Nat) : (x ||| (1 <<< i)) &&& (1 <<< i) ≠ 0 := by
  intro h0
  have := congrArg (fun n => Nat.testBit n i) h0
  simp [Nat.testBit_and, Nat.testBit_or, Nat.testBit_shiftLeft] at this

/-- bit `j` of the mask of byte `c` is set -/
def bitOn (chars : List Nat) (c : UInt8) (j : Nat) : Prop := chars.getD c.toNat 0 &&& (1 <<< j) ≠ 0

theorem orBit_length (cs : List Nat) (c : UInt8) (i : Nat) : (orBit cs c i).length = cs.length := by
  simp [orBit]

theorem orBit_mono {cs : List Nat} {c : UInt8} {j : Nat} (c' : UInt8) (i : Nat) (h : bitOn cs c j) :
    bitOn (orBit cs c' i) c j := by
  unfold bitOn orBit at *
  by_cases hc : c'.toNat = c.toNat
  · by_cases hl : c'.toNat < cs.length
    · rw [← hc, getD_set_eq _ _ _ _ hl]; rw [← hc] at h; exact and_or_ne_zero _ h
    · rw [List.set_eq_of_length_le (by omega)]; exact h
  · rw [getD_set_ne _ _ _ _ _ hc]; exact h

theorem orBit_self (cs : List Nat) (c : UInt8) (i : Nat) (hl : cs.length = 256) : bitOn (orBit cs c i) c i := by
  unfold bitOn orBit
  rw [getD_set_eq _ _ _ _ (by rw [hl]; exact c.toNat_lt)]
  exact or_bit_and_bit _ _

/-- the mask update of `Add` -/
def addBits (b : Bytes) (m : Nat) (cs : List Nat) : List Nat :=
  (List.range m).foldl (fun cs i => orBit cs (b.getD i 0) i) cs

theorem addBits_spec (b : Bytes) (cs : List Nat) (m : Nat) :
    (addBits b m cs).length = cs.length ∧
    (∀ c j, bitOn cs c j → bitOn (addBits b m cs) c j) ∧
    (cs.length = 256 → ∀ j, j < m → bitOn (addBits b m cs) (b.getD j 0) j) := by
  induction m with
  | zero => exact ⟨rfl, fun _ _ h => h, fun _ j hj => by omega⟩
  | succ m ih =>
    obtain ⟨i1, i2, i3⟩ := ih
    have e : addBits b (m + 1) cs = orBit (addBits b m cs) (b.getD m 0) m := by
      simp [addBits, List.range_succ, List.foldl_append]
    rw [e]
    refine ⟨by rw [orBit_length, i1], fun c j h => orBit_mono _ _ (i2 c j h), fun hl j hj => ?_⟩
    by_cases hjm : j = m
    · subst hjm; exact orBit_self _ _ _ (by rw [i1, hl])
    · exact orBit_mono _ _ (i3 hl j (by omega))

/-! ### the invariant -/

/-- slot `k` of filter `i` (nil when there is no such filter) -/
def slotAt (h : Heap) (i k : Nat) : Slice :=
  match h.filts[i]? with
  | some flt => flt.slots.getD k none
  | none => none

structure Inv (h : Heap) (S : List (List Bytes)) : Prop where
  len : h.filts.length = S.length
  shape : ∀ (i : Nat) (flt : Filt), h.filts[i]? = some flt → flt.chars.length = 256 ∧ flt.slots.length = 64
  wf : ∀ i k, k < 64 → slotWF h (slotAt h i k)
  view : ∀ i k b, k < 64 → (b ∈ sliceElems h (slotAt h i k) ↔ b ∈ S.getD i [] ∧ bytesHash b % 64 = k)
  bits : ∀ (i : Nat) (flt : Filt) (b : Bytes) (j : Nat), h.filts[i]? = some flt → b ∈ S.getD i [] → j < min b.length flt.threshold →
    bitOn flt.chars (b.getD j 0) j
  own : ∀ i i' k k' a, k < 64 → k' < 64 → arrOf (slotAt h i k) = some a → arrOf (slotAt h i' k') = some a →
    i = i' ∧ k = k'

theorem inv_empty : Inv empty [] := by
  refine ⟨rfl, ?_, ?_, ?_, ?_, ?_⟩
  · intro i flt h; simp [empty] at h
  · intro i k _; simp [slotAt, empty, slotWF]
  · intro i k b _; simp [slotAt, empty, sliceElems]
  · intro i flt b j h; simp [empty] at h
  · intro i i' k k' a _ _ h; simp [slotAt, empty, arrOf] at h

/-- Contains decides membership in the spec set -/
theorem contains_iff {h : Heap} {S : List (List Bytes)} (inv : Inv h S) (f : Nat) (b : Bytes) :
    contains h f b = true ↔ b ∈ S.getD f [] := by
  unfold contains
  cases hf : h.filts[f]? with
  | none =>
    have : S.getD f [] = [] := by
      have : S.length ≤ f := by
        rw [← inv.len]; exact List.getElem?_eq_none_iff.mp hf
      simp [List.getD_eq_getElem?_getD, List.getElem?_eq_none this]
    rw [this]; simp
  | some flt =>
    simp only
    split
    · rename_i hany
      simp only [Bool.false_eq_true, false_iff]
      intro hb
      rw [List.any_eq_true] at hany
      obtain ⟨j, hj, hz⟩ := hany
      have := inv.bits f flt b j hf hb (by simpa using hj)
      exact this (by simpa using hz)
    · have hk : bytesHash b % 64 < 64 := Nat.mod_lt _ (by decide)
      have hv := inv.view f (bytesHash b % 64) b hk
      simp only [slotAt, hf] at hv
      rw [List.any_eq_true]
      constructor
      · rintro ⟨x, hx, hxb⟩
        have : x = b := by simpa using hxb
        subst this
        exact (hv.mp hx).1
      · intro hb
        exact ⟨b, hv.mpr ⟨hb, trivial⟩, by simp⟩

theorem appendSlice_filts (h : Heap) (s : Slice) (b : Bytes) : (appendSlice h s b).1.filts = h.filts := by
  cases s with
  | none => simp [appendSlice]
  | some p => obtain ⟨a, n⟩ := p; simp only [appendSlice]; split <;> rfl

theorem add_eq {h : Heap} {f : Nat} {flt : Filt} (hf : h.filts[f]? = some flt) (b : Bytes) :
    add h f b =
      ⟨(appendSlice h (flt.slots.getD (bytesHash b % 64) none) b).1.arrs,
       h.filts.set f ⟨addBits b (min b.length flt.threshold) flt.chars, flt.threshold,
         flt.slots.set (bytesHash b % 64) (appendSlice h (flt.slots.getD (bytesHash b % 64) none) b).2⟩⟩ := by
  unfold add
  rw [hf]
  simp only [appendSlice_filts, addBits]

theorem getElem?_set_self' {α} {l : List α} {f : Nat} {x : α} (y : α) (h : l[f]? = some x) :
    (l.set f y)[f]? = some y := by
  have : f < l.length := by
    rcases Nat.lt_or_ge f l.length with h1 | h1
    · exact h1
    · rw [List.getElem?_eq_none h1] at h; cases h
  simp [List.getElem?_set, this]

theorem getElem?_set_ne' {α} (l : List α) {f i : Nat} (y : α) (h : f ≠ i) : (l.set f y)[i]? = l[i]? := by
  simp [List.getElem?_set, h]

theorem slotWF_arrs {h h' : Heap} (e : h'.arrs = h.arrs) (t : Slice) : slotWF h' t ↔ slotWF h t := by
  cases t with
  | none => exact Iff.rfl
  | some p => obtain ⟨a, n⟩ := p; simp only [slotWF, e]

theorem sliceElems_arrs {h h' : Heap} (e : h'.arrs = h.arrs) (t : Slice) : sliceElems h' t = sliceElems h t := by
  cases t with
  | none => rfl
  | some p => obtain ⟨a, n⟩ := p; simp only [sliceElems, e]

theorem getD_set_self_list {S : List (List Bytes)} {f : Nat} (X : List Bytes) (hf : f < S.length) :
    (S.set f X).getD f [] = X := getD_set_eq _ _ _ _ hf

/-- `Add` keeps the invariant, with the key appended to that filter's spec set -/
theorem add_inv {h : Heap} {S : List (List Bytes)} (inv : Inv h S) {f : Nat} {flt : Filt}
    (hf : h.filts[f]? = some flt) (b : Bytes) :
    Inv (add h f b) (S.set f (S.getD f [] ++ [b])) := by
  have hfl : f < S.length := by
    rw [← inv.len]
    rcases Nat.lt_or_ge f h.filts.length with h1 | h1
    · exact h1
    · rw [List.getElem?_eq_none h1] at hf; cases hf
  have hk0 : bytesHash b % 64 < 64 := Nat.mod_lt _ (by decide)
  obtain ⟨hcl, hsl⟩ := inv.shape f flt hf
  have hs_eq : slotAt h f (bytesHash b % 64) = flt.slots.getD (bytesHash b % 64) none := by simp [slotAt, hf]
  have swf : slotWF h (flt.slots.getD (bytesHash b % 64) none) := by rw [← hs_eq]; exact inv.wf f _ hk0
  obtain ⟨_, alen, awf, aview, aarr, aframe⟩ := appendSlice_spec h _ b swf
  obtain ⟨bl, bmono, bself⟩ := addBits_spec b flt.chars (min b.length flt.threshold)
  rw [add_eq hf b]
  generalize hA : appendSlice h (flt.slots.getD (bytesHash b % 64) none) b = A at *
  generalize hk : bytesHash b % 64 = k0 at *
  generalize hs : flt.slots.getD k0 none = s at *
  -- the new heap
  generalize hH : (⟨A.1.arrs, h.filts.set f ⟨addBits b (min b.length flt.threshold) flt.chars, flt.threshold,
      flt.slots.set k0 A.2⟩⟩ : Heap) = H
  have Harrs : H.arrs = A.1.arrs := by rw [← hH]
  have Hf : H.filts[f]? = some ⟨addBits b (min b.length flt.threshold) flt.chars, flt.threshold,
      flt.slots.set k0 A.2⟩ := by rw [← hH]; exact getElem?_set_self' _ hf
  have Hne : ∀ i, f ≠ i → H.filts[i]? = h.filts[i]? := by
    intro i hi; rw [← hH]; exact getElem?_set_ne' _ _ hi
  -- slots of the new heap
  have slot_new : slotAt H f k0 = A.2 := by
    simp only [slotAt, Hf]; exact getD_set_eq _ _ _ _ (by rw [hsl]; exact hk0)
  have slot_old : ∀ i k, ¬(i = f ∧ k = k0) → slotAt H i k = slotAt h i k := by
    intro i k hik
    by_cases hi : i = f
    · subst hi
      have hkk : k0 ≠ k := fun e => hik ⟨rfl, e.symm⟩
      simp only [slotAt, Hf, hf]; exact getD_set_ne _ _ _ _ _ hkk
    · simp only [slotAt, Hne i (fun e => hi e.symm)]
  -- an old slot other than (f, k0) is on another array than s
  have other : ∀ i k, k < 64 → ¬(i = f ∧ k = k0) →
      arrOf (slotAt h i k) ≠ arrOf s ∨ slotAt h i k = none := by
    intro i k hk64 hik
    cases ht : slotAt h i k with
    | none => exact Or.inr rfl
    | some p =>
      left
      intro e
      have h1 : arrOf (slotAt h i k) = some p.1 := by rw [ht]; rfl
      have h2 : arrOf (slotAt h f k0) = some p.1 := by rw [hs_eq, ← e, ← ht]; exact h1
      exact hik (inv.own i f k k0 p.1 hk64 hk0 h1 h2)
  have frame : ∀ i k, k < 64 → ¬(i = f ∧ k = k0) →
      slotWF H (slotAt h i k) ∧ sliceElems H (slotAt h i k) = sliceElems h (slotAt h i k) := by
    intro i k hk64 hik
    obtain ⟨w, v⟩ := aframe _ (inv.wf i k hk64) (other i k hk64 hik)
    exact ⟨(slotWF_arrs Harrs _).mpr w, by rw [sliceElems_arrs Harrs]; exact v⟩
  have Sget_f : (S.set f (S.getD f [] ++ [b])).getD f [] = S.getD f [] ++ [b] := getD_set_eq _ _ _ _ hfl
  have Sget_ne : ∀ i, i ≠ f → (S.set f (S.getD f [] ++ [b])).getD i [] = S.getD i [] :=
    fun i hi => getD_set_ne _ _ _ _ _ (fun e => hi e.symm)
  refine ⟨?_, ?_, ?_, ?_, ?_, ?_⟩
  · rw [← hH]; simp [inv.len]
  · intro i flt' hi
    by_cases hif : i = f
    · subst hif; rw [Hf] at hi; cases hi
      exact ⟨by rw [bl, hcl], by rw [List.length_set, hsl]⟩
    · rw [Hne i (fun e => hif e.symm)] at hi; exact inv.shape i flt' hi
  · intro i k hk64
    by_cases hik : i = f ∧ k = k0
    · obtain ⟨rfl, rfl⟩ := hik
      rw [slot_new]; exact (slotWF_arrs Harrs _).mpr awf
    · rw [slot_old i k hik]; exact (frame i k hk64 hik).1
  · intro i k b' hk64
    by_cases hik : i = f ∧ k = k0
    · obtain ⟨rfl, rfl⟩ := hik
      rw [slot_new, sliceElems_arrs Harrs, aview, Sget_f]
      have hv := inv.view i k b' hk64
      rw [hs_eq] at hv
      simp only [List.mem_append, List.mem_singleton, hv]
      constructor
      · rintro (⟨h1, h2⟩ | rfl)
        · exact ⟨Or.inl h1, h2⟩
        · exact ⟨Or.inr rfl, hk⟩
      · rintro ⟨h1 | h1, h2⟩
        · exact Or.inl ⟨h1, h2⟩
        · exact Or.inr h1
    · rw [slot_old i k hik, (frame i k hk64 hik).2, inv.view i k b' hk64]
      by_cases hif : i = f
      · subst hif
        rw [Sget_f]
        have hkk : k ≠ k0 := fun e => hik ⟨rfl, e⟩
        simp only [List.mem_append, List.mem_singleton]
        constructor
        · rintro ⟨h1, h2⟩; exact ⟨Or.inl h1, h2⟩
        · rintro ⟨h1 | h1, h2⟩
          · exact ⟨h1, h2⟩
          · rw [h1] at h2; exact absurd (h2.symm.trans hk) hkk
      · rw [Sget_ne i hif]
  · intro i flt' b' j hi hb' hj
    by_cases hif : i = f
    · subst hif; rw [Hf] at hi; cases hi
      rw [Sget_f] at hb'
      simp only at hj ⊢
      rcases List.mem_append.mp hb' with hb' | hb'
      · exact bmono _ _ (inv.bits i flt b' j hf hb' hj)
      · have : b' = b := by simpa using hb'
        subst this
        exact bself hcl j hj
    · rw [Hne i (fun e => hif e.symm)] at hi
      rw [Sget_ne i hif] at hb'
      exact inv.bits i flt' b' j hi hb' hj
  · intro i i' k k' a hk64 hk64' h1 h2
    -- arrays of old slots are old
    have oldlt : ∀ i k a, k < 64 → arrOf (slotAt h i k) = some a → a < h.arrs.length := by
      intro i k a hk64 ha
      have w := inv.wf i k hk64
      cases ht : slotAt h i k with
      | none => rw [ht] at ha; cases ha
      | some p =>
        obtain ⟨a', n'⟩ := p
        rw [ht] at ha w
        simp only [arrOf, Option.some.injEq] at ha
        subst ha; exact w.1
    -- the new slot's array is s's (then s is the old slot (f,k0)) or fresh
    have newcase : ∀ i k a, k < 64 → ¬(i = f ∧ k = k0) → arrOf A.2 = some a → arrOf (slotAt h i k) = some a → False := by
      intro i k a hk64 hik hA2 hold
      rcases aarr with ⟨e, _⟩ | e
      · have : arrOf (slotAt h f k0) = some a := by rw [hs_eq, ← e]; exact hA2
        exact hik (inv.own i f k k0 a hk64 hk0 hold this)
      · rw [e] at hA2
        have := oldlt i k a hk64 hold
        simp only [Option.some.injEq] at hA2
        omega
    by_cases hik : i = f ∧ k = k0
    · by_cases hik' : i' = f ∧ k' = k0
      · exact ⟨hik.1.trans hik'.1.symm, hik.2.trans hik'.2.symm⟩
      · obtain ⟨rfl, rfl⟩ := hik
        rw [slot_new] at h1; rw [slot_old i' k' hik'] at h2
        exact (newcase i' k' a hk64' hik' h1 h2).elim
    · by_cases hik' : i' = f ∧ k' = k0
      · obtain ⟨rfl, rfl⟩ := hik'
        rw [slot_new] at h2; rw [slot_old i k hik] at h1
        exact (newcase i k a hk64 hik h2 h1).elim
      · rw [slot_old i k hik] at h1; rw [slot_old i' k' hik'] at h2
        exact inv.own i i' k k' a hk64 hk64' h1 h2

theorem getElem?_of_lt_filts {h : Heap} {f : Nat} (hf : f < h.filts.length) : ∃ flt, h.filts[f]? = some flt :=
  ⟨h.filts[f], List.getElem?_eq_getElem hf⟩

theorem set_getD_self (S : List (List Bytes)) (f : Nat) : S.set f (S.getD f []) = S := by
  induction S generalizing f with
  | nil => rfl
  | cons x S ih =>
    cases f with
    | zero => rfl
    | succ f => simp only [List.set_cons_succ, List.getD_cons_succ, ih]

theorem foldl_add_inv (es : List Bytes) : ∀ {h : Heap} {S : List (List Bytes)}, Inv h S → ∀ {f : Nat}, f < S.length →
    Inv (es.foldl (fun h e => add h f e) h) (S.set f (S.getD f [] ++ es)) := by
  induction es with
  | nil => intro h S inv f hf; rw [List.foldl_nil, List.append_nil, set_getD_self]; exact inv
  | cons e es ih =>
    intro h S inv f hf
    obtain ⟨flt, hflt⟩ := getElem?_of_lt_filts (h := h) (by rw [inv.len]; exact hf)
    have i1 := add_inv inv hflt e
    have i2 := ih i1 (f := f) (by simpa using hf)
    rw [getD_set_eq _ _ _ _ hf, List.set_set, List.append_assoc] at i2
    exact i2

theorem getD_append_left' {α} (S : List α) (x d : α) (i : Nat) (h : i ≠ S.length) :
    (S ++ [x]).getD i d = S.getD i d := by
  rcases Nat.lt_or_ge i S.length with h1 | h1
  · exact getD_append_lt _ _ _ _ h1
  · have h2 : S.length < i := by omega
    simp [List.getD_eq_getElem?_getD, List.getElem?_eq_none h1,
      List.getElem?_eq_none (show (S ++ [x]).length ≤ i by simp; omega)]

theorem getElem?_append_ne {α} (S : List α) (x : α) (i : Nat) (h : i ≠ S.length) : (S ++ [x])[i]? = S[i]? := by
  rcases Nat.lt_or_ge i S.length with h1 | h1
  · exact List.getElem?_append_left h1
  · rw [List.getElem?_eq_none h1, List.getElem?_eq_none (by simp; omega)]

theorem getElem?_append_self {α} (S : List α) (x : α) : (S ++ [x])[S.length]? = some x := by simp

theorem set_append_last (S : List (List Bytes)) (x y : List Bytes) : (S ++ [x]).set S.length y = S ++ [y] := by
  induction S with
  | nil => rfl
  | cons a S ih => simp only [List.cons_append, List.length_cons, List.set_cons_succ, ih]

theorem getD_replicate_none (n k : Nat) : (List.replicate n (none : Slice)).getD k none = none := by
  induction n generalizing k with
  | zero => rfl
  | succ n ih =>
    cases k with
    | zero => rfl
    | succ k => simp only [List.replicate_succ, List.getD_cons_succ]; exact ih k

theorem slotAt_none_of_ge {h : Heap} {i : Nat} (hi : h.filts.length ≤ i) (k : Nat) : slotAt h i k = none := by
  simp [slotAt, List.getElem?_eq_none hi]

theorem oldlt {h : Heap} {S : List (List Bytes)} (inv : Inv h S) (i k a : Nat) (hk : k < 64)
    (ha : arrOf (slotAt h i k) = some a) : a < h.arrs.length := by
  have w := inv.wf i k hk
  cases ht : slotAt h i k with
  | none => rw [ht] at ha; cases ha
  | some p =>
    obtain ⟨a', n'⟩ := p
    rw [ht] at ha w
    simp only [arrOf, Option.some.injEq] at ha
    subst ha; exact w.1

/-- adding a filter whose slots are `news` (on fresh arrays `h.arrs.length + k`, seeing what `src`'s slots
    see) and whose masks are `src`'s keeps the invariant, with `src`'s key list as the new filter's set;
    `src = none` is NewBytesFilter (all slots nil, empty set) -/
theorem new_empty_inv {h : Heap} {S : List (List Bytes)} (inv : Inv h S) :
    Inv { h with filts := h.filts ++ [newFilt] } (S ++ [[]]) := by
  have sl : ∀ i k, slotAt { h with filts := h.filts ++ [newFilt] } i k = slotAt h i k := by
    intro i k
    by_cases hi : i = h.filts.length
    · subst hi
      rw [slotAt_none_of_ge (Nat.le_refl _)]
      simp only [slotAt, getElem?_append_self]
      exact getD_replicate_none 64 k
    · simp only [slotAt, getElem?_append_ne _ _ _ hi]
  have sg : ∀ i, (S ++ [[]]).getD i [] = S.getD i [] := by
    intro i
    by_cases hi : i = S.length
    · subst hi; simp [List.getD_eq_getElem?_getD]
    · exact getD_append_left' _ _ _ _ hi
  refine ⟨by simp [inv.len], ?_, ?_, ?_, ?_, ?_⟩
  · intro i flt hi
    by_cases hil : i = h.filts.length
    · subst hil
      simp only [getElem?_append_self, Option.some.injEq] at hi
      subst hi; exact ⟨List.length_replicate, List.length_replicate⟩
    · rw [getElem?_append_ne _ _ _ hil] at hi; exact inv.shape i flt hi
  · intro i k hk; rw [sl]; exact inv.wf i k hk
  · intro i k b hk; rw [sl, sg]; exact inv.view i k b hk
  · intro i flt b j hi hb hj
    rw [sg] at hb
    by_cases hil : i = h.filts.length
    · subst hil
      rw [inv.len] at hb
      simp [List.getD_eq_getElem?_getD] at hb
    · rw [getElem?_append_ne _ _ _ hil] at hi; exact inv.bits i flt b j hi hb hj
  · intro i i' k k' a hk hk' h1 h2
    rw [sl] at h1 h2; exact inv.own i i' k k' a hk hk' h1 h2

theorem new_inv {h : Heap} {S : List (List Bytes)} (inv : Inv h S) (es : List Bytes) :
    Inv (new h es) (S ++ [es]) := by
  have i1 := foldl_add_inv es (new_empty_inv inv) (f := S.length) (by simp)
  have e : (S ++ [[]]).getD S.length [] = [] := by simp [List.getD_eq_getElem?_getD]
  rw [e, List.nil_append, set_append_last] at i1
  unfold new
  rw [inv.len]; exact i1

theorem extend_base_inv {h : Heap} {S : List (List Bytes)} (inv : Inv h S) {f : Nat} {flt : Filt}
    (hf : h.filts[f]? = some flt) :
    Inv ⟨(copySlots h flt.slots).1.arrs,
        (copySlots h flt.slots).1.filts ++ [⟨flt.chars, flt.threshold, (copySlots h flt.slots).2⟩]⟩
      (S ++ [S.getD f []]) := by
  obtain ⟨hcl, hsl⟩ := inv.shape f flt hf
  have hwf : ∀ s ∈ flt.slots, slotWF h s := by
    intro s hs
    obtain ⟨k, hk, rfl⟩ := List.getElem_of_mem hs
    have := inv.wf f k (by rw [← hsl]; exact hk)
    simpa [slotAt, hf, List.getD_eq_getElem?_getD, List.getElem?_eq_getElem hk] using this
  obtain ⟨X, news, e1, e2, e3, e4, e5, e6⟩ := copyGo_spec flt.slots h [] hwf
  rw [← copySlots_eq] at e1 e2 e3 e6
  rw [List.nil_append] at e3
  rw [e2, e3]
  generalize hC : copySlots h flt.slots = C at *
  rw [hsl] at e4 e5 e6
  generalize hH : (⟨C.1.arrs, h.filts ++ [⟨flt.chars, flt.threshold, news⟩]⟩ : Heap) = H
  have Harrs : H.arrs = h.arrs ++ X := by rw [← hH]; exact e1
  have HarrsC : H.arrs = C.1.arrs := by rw [← hH]
  have sl_new : ∀ k, slotAt H h.filts.length k = news.getD k none := by
    intro k; rw [← hH]; simp [slotAt]
  have sl_old : ∀ i k, i ≠ h.filts.length → slotAt H i k = slotAt h i k := by
    intro i k hi; rw [← hH]; simp only [slotAt, getElem?_append_ne _ _ _ hi]
  have sg_new : (S ++ [S.getD f []]).getD h.filts.length [] = S.getD f [] := by
    rw [inv.len]; simp [List.getD_eq_getElem?_getD]
  have sg_old : ∀ i, i ≠ h.filts.length → (S ++ [S.getD f []]).getD i [] = S.getD i [] := by
    intro i hi; exact getD_append_left' _ _ _ _ (by rw [← inv.len]; exact hi)
  have hfs : ∀ k, slotAt h f k = flt.slots.getD k none := by intro k; simp [slotAt, hf]
  refine ⟨by rw [← hH]; simp [inv.len], ?_, ?_, ?_, ?_, ?_⟩
  · intro i flt' hi
    rw [← hH] at hi
    by_cases hil : i = h.filts.length
    · subst hil
      simp only [getElem?_append_self, Option.some.injEq] at hi
      subst hi; exact ⟨hcl, e4⟩
    · simp only [getElem?_append_ne _ _ _ hil] at hi; exact inv.shape i flt' hi
  · intro i k hk
    by_cases hil : i = h.filts.length
    · subst hil; rw [sl_new]; exact (slotWF_arrs HarrsC _).mpr (e6 k hk).2.1
    · rw [sl_old i k hil]; exact (sliceElems_ext h H _ (inv.wf i k hk) X Harrs).2
  · intro i k b hk
    by_cases hil : i = h.filts.length
    · subst hil
      rw [sl_new, sg_new, sliceElems_arrs HarrsC, (e6 k hk).2.2, ← hfs]
      exact inv.view f k b hk
    · rw [sl_old i k hil, sg_old i hil, (sliceElems_ext h H _ (inv.wf i k hk) X Harrs).1]
      exact inv.view i k b hk
  · intro i flt' b j hi hb hj
    rw [← hH] at hi
    by_cases hil : i = h.filts.length
    · subst hil
      simp only [getElem?_append_self, Option.some.injEq] at hi
      subst hi
      rw [sg_new] at hb
      exact inv.bits f flt b j hf hb hj
    · simp only [getElem?_append_ne _ _ _ hil] at hi
      rw [sg_old i hil] at hb
      exact inv.bits i flt' b j hi hb hj
  · intro i i' k k' a hk hk' h1 h2
    by_cases hil : i = h.filts.length
    · by_cases hil' : i' = h.filts.length
      · subst hil; subst hil'
        rw [sl_new, (e6 k hk).1] at h1; rw [sl_new, (e6 k' hk').1] at h2
        simp only [Option.some.injEq] at h1 h2
        exact ⟨rfl, by omega⟩
      · subst hil
        rw [sl_new, (e6 k hk).1] at h1; rw [sl_old i' k' hil'] at h2
        have := oldlt inv i' k' a hk' h2
        simp only [Option.some.injEq] at h1; omega
    · by_cases hil' : i' = h.filts.length
      · subst hil'
        rw [sl_new, (e6 k' hk').1] at h2; rw [sl_old i k hil] at h1
        have := oldlt inv i k a hk h1
        simp only [Option.some.injEq] at h2; omega
      · rw [sl_old i k hil] at h1; rw [sl_old i' k' hil'] at h2
        exact inv.own i i' k k' a hk hk' h1 h2

theorem extend_inv {h : Heap} {S : List (List Bytes)} (inv : Inv h S) {f : Nat} {flt : Filt}
    (hf : h.filts[f]? = some flt) (bs : List Bytes) :
    Inv (extend h f bs) (S ++ [S.getD f [] ++ bs]) := by
  have i0 := extend_base_inv inv hf
  have i1 := foldl_add_inv bs i0 (f := S.length) (by simp)
  have e : (S ++ [S.getD f []]).getD S.length [] = S.getD f [] := by simp [List.getD_eq_getElem?_getD]
  rw [e, set_append_last] at i1
  have hlen : (copySlots h flt.slots).1.filts.length = S.length := by
    obtain ⟨X, news, e1, e2, _⟩ := copyGo_spec flt.slots h [] (by
      intro s hs
      obtain ⟨k, hk, rfl⟩ := List.getElem_of_mem hs
      have := inv.wf f k (by rw [← (inv.shape f flt hf).2]; exact hk)
      simpa [slotAt, hf, List.getD_eq_getElem?_getD, List.getElem?_eq_getElem hk] using this)
    rw [copySlots_eq, e2, inv.len]
  unfold extend
  rw [hf]
  simp only [hlen]
  exact i1

theorem step_inv {h : Heap} {S : List (List Bytes)} (inv : Inv h S) (op : Op) : Inv (step h op) (specStep S op) := by
  have noF : ∀ f, ¬ f < S.length → h.filts[f]? = none := by
    intro f hf; exact List.getElem?_eq_none (by rw [inv.len]; omega)
  cases op with
  | new es => exact new_inv inv es
  | newString s => exact new_inv inv _
  | add f b =>
    simp only [step, specStep]
    split
    · rename_i hf
      obtain ⟨flt, hflt⟩ := getElem?_of_lt_filts (h := h) (by rw [inv.len]; exact hf)
      exact add_inv inv hflt b
    · rename_i hf; simp only [add, noF f hf]; exact inv
  | extend f bs =>
    simp only [step, specStep]
    split
    · rename_i hf
      obtain ⟨flt, hflt⟩ := getElem?_of_lt_filts (h := h) (by rw [inv.len]; exact hf)
      exact extend_inv inv hflt bs
    · rename_i hf; simp only [extend, noF f hf]; exact inv
  | extendString f s =>
    simp only [step, specStep]
    split
    · rename_i hf
      obtain ⟨flt, hflt⟩ := getElem?_of_lt_filts (h := h) (by rw [inv.len]; exact hf)
      exact extend_inv inv hflt _
    · rename_i hf; simp only [extend, noF f hf]; exact inv

theorem foldl_inv (ops : List Op) : ∀ {h : Heap} {S : List (List Bytes)}, Inv h S →
    Inv (ops.foldl step h) (ops.foldl specStep S) := by
  induction ops with
  | nil => intro h S inv; exact inv
  | cons op ops ih => intro h S inv; exact ih (step_inv inv op)

theorem run_inv (ops : List Op) : Inv (run ops) (specRun ops) := foldl_inv ops inv_empty

/-- **filter_is_set**: after any program, Contains answers membership in the plain key list of the spec -/
theorem filter_is_set (ops : List Op) (f : Nat) (b : Bytes) :
    contains (run ops) f b = true ↔ b ∈ (specRun ops).getD f [] := contains_iff (run_inv ops) f b

/-! ### isolation -/

theorem specStep_other (S : List (List Bytes)) (op : Op) (g : Nat) (hg : g < S.length)
    (hop : ∀ b, op ≠ .add g b) :
    (specStep S op).getD g [] = S.getD g [] ∧ g < (specStep S op).length := by
  cases op with
  | new es => exact ⟨getD_append_lt _ _ _ _ hg, by simp [specStep]; omega⟩
  | newString s => exact ⟨getD_append_lt _ _ _ _ hg, by simp [specStep]; omega⟩
  | add f b =>
    simp only [specStep]
    split
    · have : f ≠ g := by intro e; subst e; exact hop b rfl
      exact ⟨getD_set_ne _ _ _ _ _ this, by simpa using hg⟩
    · exact ⟨rfl, hg⟩
  | extend f bs =>
    simp only [specStep]
    split
    · exact ⟨getD_append_lt _ _ _ _ hg, by simp; omega⟩
    · exact ⟨rfl, hg⟩
  | extendString f s =>
    simp only [specStep]
    split
    · exact ⟨getD_append_lt _ _ _ _ hg, by simp; omega⟩
    · exact ⟨rfl, hg⟩

theorem specFold_other (more : List Op) : ∀ (S : List (List Bytes)) (g : Nat), g < S.length →
    (∀ op ∈ more, ∀ b, op ≠ .add g b) → (more.foldl specStep S).getD g [] = S.getD g [] := by
  induction more with
  | nil => intro S g _ _; rfl
  | cons op more ih =>
    intro S g hg hop
    obtain ⟨e1, e2⟩ := specStep_other S op g hg (hop op List.mem_cons_self)
    rw [List.foldl_cons, ih _ g e2 (fun o ho => hop o (List.mem_cons_of_mem _ ho)), e1]

/-- **extend_isolated** (in its general form): what filter `g` contains is changed only by `Add`s to `g`
    itself — not by anything done later to its parent, its children or its siblings -/
theorem filter_isolated (ops more : List Op) (g : Nat) (hg : g < (specRun ops).length)
    (hop : ∀ op ∈ more, ∀ b, op ≠ .add g b) (b : Bytes) :
    contains (run (ops ++ more)) g b = contains (run ops) g b := by
  rw [Bool.eq_iff_iff, filter_is_set, filter_is_set]
  have : specRun (ops ++ more) = more.foldl specStep (specRun ops) := by simp [specRun, List.foldl_append]
  rw [this, specFold_other more _ g hg hop]


/-- a filter made by `Extend f bs` contains exactly the parent's keys at that moment plus `bs`, whatever is
    done afterwards to any other filter (including the parent) -/
theorem extend_snapshot (ops more : List Op) (f : Nat) (bs : List Bytes) (hf : f < (specRun ops).length)
    (hop : ∀ op ∈ more, ∀ b, op ≠ .add (specRun ops).length b) (b : Bytes) :
    contains (run (ops ++ [.extend f bs] ++ more)) (specRun ops).length b = true ↔
      b ∈ (specRun ops).getD f [] ++ bs := by
  have e : specRun (ops ++ [.extend f bs]) = specRun ops ++ [(specRun ops).getD f [] ++ bs] := by
    have hf' : f < (List.foldl specStep [] ops).length := hf
    simp [specRun, List.foldl_append, specStep, hf']
  have hg : (specRun ops).length < (specRun (ops ++ [.extend f bs])).length := by rw [e]; simp
  have hi := filter_isolated (ops ++ [.extend f bs]) more _ hg hop b
  rw [hi, filter_is_set, e]
  simp [List.getD_eq_getElem?_getD]

end GM.Proof.Filter
