/-
  GM.Proof.E2EUrlTokKinds — copy of GM.Proof.RenderWF.Kinds for the grammar `WFHtmlU` (harmless `href` / `src` values as a side
  condition of every start tag); see GM.Proof.E2EUrlTokGrammar. Only `wf_el` / `wf_void` differ (they ask for `UrlAttrs`).
-/
import GM.Proof.RenderWF.Write
import GM.Proof.RenderWF.Tags
import GM.Proof.RenderWF.Consts
import GM.Proof.RenderWF.Kinds
import GM.Proof.E2EUrlTokGrammar

namespace GM.Proof.RenderWFU
open GM GM.Spec GM.Proof.RenderWF

theorem WFHtmlU.txt {x : Bool} {b : Bytes} (h : inertBytes b = true) : WFHtmlU x b := .text b h

/-- `<n as>pre body</n>post` -/
theorem wf_el {x : Bool} {n : Bytes} {names : List Bytes} (tf : TagFacts n names false)
    {as : List (Bytes × Bytes)} (sok : StartOK n as) {pre post body opn cls : Bytes}
    (hopn : opn = [60] ++ n ++ serAttrs as ++ [62] ++ pre) (hcls : cls = [60, 47] ++ n ++ [62] ++ post)
    (hpre : inertBytes pre = true) (hpost : inertBytes post = true) (hbody : WFHtmlU x body)
    (hu : UrlAttrs as := by urlattrs) :
    WFHtmlU x (opn ++ body ++ cls) := by
  have := WFHtmlU.append _ _ (WFHtmlU.elem n as (pre ++ body) tf.void sok hu (.append _ _ (.txt hpre) hbody))
    (WFHtmlU.txt (x := x) hpost)
  refine this.of_eq ?_
  subst hopn hcls
  simp only [List.append_assoc]

/-- `<n as>` or `<n as />` followed by `post` -/
theorem wf_void {x : Bool} {n : Bytes} {names : List Bytes} (tf : TagFacts n names true)
    {as : List (Bytes × Bytes)} (sok : StartOK n as) {post opn : Bytes}
    (hopn : opn = [60] ++ n ++ serAttrs as ++ (if x then [32, 47, 62] else [62]) ++ post)
    (hpost : inertBytes post = true) (hu : UrlAttrs as := by urlattrs) : WFHtmlU x opn := by
  have := WFHtmlU.append _ _ (WFHtmlU.void (x := x) n as tf.void sok hu) (WFHtmlU.txt (x := x) hpost)
  exact this.of_eq hopn

variable {x : Bool} {rc : RCfg}

theorem wf_document (pih next attrs cs) {body : Bytes} (hb : WFHtmlU x body) :
    WFHtmlU x (enter rc pih next .document attrs cs ++ body ++ leave rc pih next .document cs) := by
  unfold_el
  exact hb.of_eq (by simp)

theorem wf_paragraph (pih next attrs cs) {body : Bytes} (hb : WFHtmlU x body) (hinv : attrsInv attrs = true) :
    WFHtmlU x (enter rc pih next .paragraph attrs cs ++ body ++ leave rc pih next .paragraph cs) := by
  unfold_el
  exact wf_el tag_p (sok_user tag_p (sub_self _) hinv) (pre := []) (post := [10])
    (by rw [openTag_eq]; cases attrs <;> bnorm) (by bnorm) rfl (by decide) hb

theorem wf_heading (pih next attrs cs) (level : Nat) (h1 : 1 ≤ level) (h6 : level ≤ 6) {body : Bytes}
    (hb : WFHtmlU x body) (hinv : attrsInv attrs = true) :
    WFHtmlU x (enter rc pih next (.heading level) attrs cs ++ body ++ leave rc pih next (.heading level) cs) := by
  unfold_el
  exact wf_el (tag_h level h1 h6) (sok_user (tag_h level h1 h6) (sub_self _) hinv) (pre := []) (post := [10])
    (by rw [renderAttrs_eq]; bnorm) (by bnorm) rfl (by decide) hb

theorem wf_blockquote (pih next attrs cs) {body : Bytes} (hb : WFHtmlU x body) (hinv : attrsInv attrs = true) :
    WFHtmlU x (enter rc pih next .blockquote attrs cs ++ body ++ leave rc pih next .blockquote cs) := by
  unfold_el
  exact wf_el tag_blockquote (sok_user tag_blockquote (sub_self _) hinv)
    (pre := match attrs with | some _ => [] | none => [10]) (post := [10])
    (by rw [openTag_eq]; cases attrs <;> bnorm) (by bnorm) (by cases attrs <;> rfl) (by decide) hb

theorem wf_codeBlock (pih next attrs cs) (lines : List Bytes) {body : Bytes} (hb : WFHtmlU x body) :
    WFHtmlU x (enter rc pih next (.codeBlock lines) attrs cs ++ body ++ leave rc pih next (.codeBlock lines) cs) := by
  unfold_el
  have inner := wf_el (x := x) tag_code (sok_fixed tag_code (fixed := []) rfl (by simp))
    (pre := lines.flatMap rawWrite) (post := []) (opn := [60, 99, 111, 100, 101, 62] ++ lines.flatMap rawWrite)
    (cls := [60, 47, 99, 111, 100, 101, 62])
    (by bnorm) (by bnorm) (inertBytes_flatMap _ _ fun l _ => rawWrite_inert l) rfl hb
  have outer := wf_el (x := x) tag_pre (sok_fixed tag_pre (fixed := []) rfl (by simp))
    (pre := []) (post := [10]) (opn := [60, 112, 114, 101, 62]) (cls := [60, 47, 112, 114, 101, 62, 10])
    (by bnorm) (by bnorm) rfl (by decide) inner
  exact outer.of_eq (by bnorm)

theorem wf_fencedCodeBlock (pih next attrs cs) (info : Option Bytes) (lines : List Bytes) {body : Bytes}
    (hb : WFHtmlU x body) :
    WFHtmlU x (enter rc pih next (.fencedCodeBlock info lines) attrs cs ++ body ++
      leave rc pih next (.fencedCodeBlock info lines) cs) := by
  unfold_el
  cases info with
  | none =>
    have inner := wf_el (x := x) tag_code (sok_fixed tag_code (fixed := []) rfl (by simp))
      (pre := lines.flatMap rawWrite) (post := []) (opn := [60, 99, 111, 100, 101, 62] ++ lines.flatMap rawWrite)
      (cls := [60, 47, 99, 111, 100, 101, 62])
      (by bnorm) (by bnorm) (inertBytes_flatMap _ _ fun l _ => rawWrite_inert l) rfl hb
    have outer := wf_el (x := x) tag_pre (sok_fixed tag_pre (fixed := []) rfl (by simp))
      (pre := []) (post := [10]) (opn := [60, 112, 114, 101, 62]) (cls := [60, 47, 112, 114, 101, 62, 10])
      (by bnorm) (by bnorm) rfl (by decide) inner
    exact outer.of_eq (by bnorm)
  | some i =>
    have hv : inertBytes ([108, 97, 110, 103, 117, 97, 103, 101, 45] ++
        write rc.core.escSpace (i.takeWhile (· != 32))) = true :=
      inertBytes_append _ _ (by decide) (write_inert _ _)
    have inner := wf_el (x := x) tag_code
      (sok_fixed tag_code (fixed := [([99, 108, 97, 115, 115], _)])
        (hfix_cons (by decide +kernel) (by decide +kernel) hv hfix_nil) (by simp))
      (pre := lines.flatMap rawWrite) (post := [])
      (opn := [60, 99, 111, 100, 101] ++ strBytes " class=\"language-" ++
        write rc.core.escSpace (i.takeWhile (· != 32)) ++ [34, 62] ++ lines.flatMap rawWrite)
      (cls := [60, 47, 99, 111, 100, 101, 62])
      (by bnorm) (by bnorm) (inertBytes_flatMap _ _ fun l _ => rawWrite_inert l) rfl hb
    have outer := wf_el (x := x) tag_pre (sok_fixed tag_pre (fixed := []) rfl (by simp))
      (pre := []) (post := [10]) (opn := [60, 112, 114, 101, 62]) (cls := [60, 47, 112, 114, 101, 62, 10])
      (by bnorm) (by bnorm) rfl (by decide) inner
    exact outer.of_eq (by bnorm)

theorem wf_comment_nl : WFHtmlU x (omitted ++ [10]) :=
  .append _ _ (WFHtmlU.comment.of_eq omitted_eq) (.txt (by decide))

theorem wf_htmlBlock (hc : CfgOK x rc) (pih next attrs cs) (lines : List Bytes) (closure : Option Bytes)
    {body : Bytes} (hb : WFHtmlU x body) :
    WFHtmlU x (enter rc pih next (.htmlBlock lines closure) attrs cs ++ body ++
      leave rc pih next (.htmlBlock lines closure) cs) := by
  unfold_el
  simp only [hc.safe, Bool.false_eq_true, ↓reduceIte]
  refine .append3 wf_comment_nl hb ?_
  cases closure with
  | none => exact .nil
  | some c => exact wf_comment_nl

theorem wf_list (pih next attrs cs) (ordered : Bool) (start : Nat) {body : Bytes} (hb : WFHtmlU x body)
    (hinv : attrsInv attrs = true) (hcl : noClash (.list ordered start) attrs = true) :
    WFHtmlU x (enter rc pih next (.list ordered start) attrs cs ++ body ++
      leave rc pih next (.list ordered start) cs) := by
  unfold_el
  cases ordered with
  | false =>
    exact wf_el tag_ul (sok_user tag_ul (sub_self _) hinv) (pre := [10]) (post := [10])
      (by rw [renderAttrs_eq]; simp only [Bool.false_eq_true, Bool.false_and, ↓reduceIte]; bnorm)
      (by simp only [Bool.false_eq_true, ↓reduceIte]; bnorm) (by decide) (by decide) hb
  | true =>
    by_cases hs : start = 1
    · subst hs
      exact wf_el tag_ol (sok_user tag_ol (sub_append _ _) hinv) (pre := [10]) (post := [10])
        (by rw [renderAttrs_eq]; simp only [bne_self_eq_false, Bool.and_false, Bool.false_eq_true, ↓reduceIte]; bnorm)
        (by simp only [↓reduceIte]; bnorm) (by decide) (by decide) hb
    · have hs' : (start != 1) = true := by simpa using hs
      have hcl' := absent_of (n := [115, 116, 97, 114, 116]) hcl
        (by simp only [fixedAttrNames, hs', Bool.and_self, ↓reduceIte]; bnorm; simp)
      have sok : StartOK [111, 108] ([([115, 116, 97, 114, 116], decBytes start)] ++
          userAttrsO Gen.ListAttributeFilter attrs) :=
        startOK_intro tag_ol.name tag_ol.allowed (sub_append _ _)
          (hfix_cons (by decide +kernel) (by decide +kernel) (decBytes_inert _) hfix_nil) (by simp) hinv
          (hc_absent hcl' hc_nil)
      exact wf_el tag_ol sok (pre := [10]) (post := [10])
        (by rw [renderAttrs_eq]; simp only [hs', Bool.and_self, ↓reduceIte]; bnorm)
        (by simp only [↓reduceIte]; bnorm) (by decide) (by decide) hb

theorem wf_listItem (pih next attrs cs) {body : Bytes} (hb : WFHtmlU x body) (hinv : attrsInv attrs = true) :
    WFHtmlU x (enter rc pih next .listItem attrs cs ++ body ++ leave rc pih next .listItem cs) := by
  unfold_el
  exact wf_el tag_li (sok_user tag_li (sub_append _ _) hinv)
    (pre := match cs with | c :: _ => if c.kind.isTextBlock then [] else [10] | [] => []) (post := [10])
    (by rw [openTag_eq]; cases attrs <;> cases cs <;> bnorm) (by bnorm)
    (by cases cs with
        | nil => rfl
        | cons c _ => simp only; split <;> decide) (by decide) hb

theorem wf_textBlock (pih next attrs cs) {body : Bytes} (hb : WFHtmlU x body) :
    WFHtmlU x (enter rc pih next .textBlock attrs cs ++ body ++ leave rc pih next .textBlock cs) := by
  unfold_el
  refine .append3 .nil hb (.txt ?_)
  split <;> decide

theorem wf_thematicBreak (hc : CfgOK x rc) (pih next attrs cs) {body : Bytes} (hb : WFHtmlU x body)
    (hinv : attrsInv attrs = true) :
    WFHtmlU x (enter rc pih next .thematicBreak attrs cs ++ body ++ leave rc pih next .thematicBreak cs) := by
  unfold_el
  rw [hc.core]
  have v := wf_void (x := x) tag_hr (sok_user tag_hr (sub_self _) hinv) (post := [10])
    (opn := strBytes "<hr" ++ renderAttrs Gen.ThematicAttributeFilter attrs ++
      (if x then strBytes " />\n" else strBytes ">\n"))
    (by rw [renderAttrs_eq]; cases x <;> bnorm) (by decide)
  exact (WFHtmlU.append _ _ v hb).of_eq (by simp)

theorem wf_autoLink (hc : CfgOK x rc) (pih next attrs cs) (email : Bool) (url label : Bytes) {body : Bytes}
    (hb : WFHtmlU x body) (hinv : attrsInv attrs = true) :
    WFHtmlU x (enter rc pih next (.autoLink email url label) attrs cs ++ body ++
      leave rc pih next (.autoLink email url label) cs) := by
  unfold_el
  rw [hc.safe]
  have hv : inertBytes ((if (email && !mailtoPrefixed url (strBytes "mailto:")) = true then strBytes "mailto:" else []) ++
      urlOut false (urlEscape url false)) = true := by
    apply inertBytes_append _ _ _ (urlOut_inert _)
    split
    · decide +kernel
    · rfl
  have sok : StartOK [97] ([([104, 114, 101, 102], _)] ++ userAttrsO Gen.LinkAttributeFilter attrs) :=
    startOK_intro tag_a.name tag_a.allowed (sub_append _ _)
      (hfix_cons (by decide +kernel) (by decide +kernel) hv hfix_nil) (by simp) hinv
      (hc_blocked (by decide +kernel) hc_nil)
  have key : ∀ tail, tail = [34] ++ serAttrs (userAttrsO Gen.LinkAttributeFilter attrs) ++ [62] →
      WFHtmlU x (strBytes "<a href=\"" ++
        (if (email && !mailtoPrefixed url (strBytes "mailto:")) = true then strBytes "mailto:" else []) ++
        urlOut false (urlEscape url false) ++ tail ++ escapeHTML label ++ strBytes "</a>" ++ body ++ []) := by
    intro tail ht
    have e := wf_el (x := x) tag_a sok (pre := escapeHTML label) (post := []) (body := [])
      (opn := strBytes "<a href=\"" ++
        (if (email && !mailtoPrefixed url (strBytes "mailto:")) = true then strBytes "mailto:" else []) ++
        urlOut false (urlEscape url false) ++ tail ++ escapeHTML label) (cls := strBytes "</a>")
      (by subst ht; bnorm) (by bnorm) (escapeHTML_inert _) rfl .nil
    exact (WFHtmlU.append _ _ e hb).of_eq (by simp)
  cases attrs <;> exact key _ (by simp only [userAttrsO, renderAttrList_eq] <;> bnorm)

theorem wf_codeSpan (pih next attrs cs) {body : Bytes} (hb : WFHtmlU x body) (hinv : attrsInv attrs = true) :
    WFHtmlU x (enter rc pih next .codeSpan attrs cs ++ body ++ leave rc pih next .codeSpan cs) := by
  unfold_el
  exact wf_el tag_code (sok_user tag_code (sub_append _ _) hinv) (pre := codeSpanBody cs) (post := [])
    (by rw [openTag_eq]; cases attrs <;> bnorm) (by bnorm) (codeSpanBody_inert cs) rfl hb

theorem wf_emphasis (pih next attrs cs) (level : Nat) {body : Bytes} (hb : WFHtmlU x body)
    (hinv : attrsInv attrs = true) :
    WFHtmlU x (enter rc pih next (.emphasis level) attrs cs ++ body ++ leave rc pih next (.emphasis level) cs) := by
  unfold_el
  by_cases hl : (level == 2) = true
  · simp only [hl, ↓reduceIte]
    exact wf_el tag_strong (sok_user tag_strong (sub_self _) hinv) (pre := []) (post := [])
      (by rw [renderAttrs_eq]; bnorm) (by bnorm) rfl rfl hb
  · simp only [hl, Bool.false_eq_true, ↓reduceIte]
    exact wf_el tag_em (sok_user tag_em (sub_self _) hinv) (pre := []) (post := [])
      (by rw [renderAttrs_eq]; bnorm) (by bnorm) rfl rfl hb

end GM.Proof.RenderWFU

