import GM.Proof.ShiftSimXRel
namespace GM.Blocks.Xs
open GM GM.Text GM.Blocks

/-- a statistics entry of run A as run B records it: line number shifted -/
def shS (F : Frame) (e : LineStat) : LineStat := { e with lineNum := e.lineNum + F.dl }

/-- B's statistics are stale entries (all from lines before `F.dl`) followed by A's, shifted -/
def StatsRel (F : Frame) (sa sb : List LineStat) : Prop :=
  ∃ stale, sb = stale ++ sa.map (shS F) ∧ ∀ e ∈ stale, e.lineNum < F.dl

theorem StatsRel.map (F : Frame) (sa : List LineStat) : StatsRel F sa (sa.map (shS F)) :=
  ⟨[], by simp, by simp⟩

theorem StatsRel.append {F : Frame} {sa sb : List LineStat} (h : StatsRel F sa sb) (e : LineStat) :
    StatsRel F (sa ++ [e]) (sb ++ [shS F e]) := by
  obtain ⟨stale, h1, h2⟩ := h
  exact ⟨stale, by simp [h1], h2⟩

theorem blankStats_shift (F : Frame) (ln lines : Int) (k : Nat) :
    blankStats (ln + F.dl) lines k = (blankStats ln lines k).map (shS F) := by
  induction k with
  | zero => simp [blankStats]
  | succ k ih =>
    simp only [blankStats, ih, List.map_append, List.map_cons, List.map_nil, shS]
    congr 3
    omega

theorem int_beq_add (a b d : Int) : (a + d == b + d) = (a == b) := by
  rw [Bool.eq_iff_iff]; simp only [beq_iff_eq]; omega

theorem int_lt_add (a b d : Int) : (a + d < b + d) = (a < b) := by
  apply propext; omega

theorem isBlankLoop_shift (F : Frame) (ln level : Int) (ys : List LineStat)
    (hy : ∀ e ∈ ys, e.lineNum < ln + F.dl) :
    ∀ xs : List LineStat,
      isBlankLoop (ln + F.dl) level (xs.map (shS F) ++ ys) = isBlankLoop ln level xs := by
  intro xs
  induction xs with
  | nil =>
    cases ys with
    | nil => simp [isBlankLoop]
    | cons e rest =>
      have h := hy e (by simp)
      have hne : (e.lineNum == ln + F.dl) = false := by
        rw [beq_eq_false_iff_ne]; omega
      simp [isBlankLoop, hne, h]
  | cons x xs ih =>
    simp only [List.map_cons, List.cons_append, isBlankLoop, ih, shS, int_beq_add, int_lt_add]

theorem isBlankLine_shift {F : Frame} {sa sb : List LineStat} (h : StatsRel F sa sb) (ln level : Int)
    (h0 : 0 ≤ ln) (hl : level < sa.length) :
    isBlankLine (ln + F.dl) level sb = isBlankLine ln level sa := by
  obtain ⟨stale, h1, h2⟩ := h
  subst h1
  unfold isBlankLine
  have hA : ¬ ((sa.length : Int) - 1 - level < 0) := by omega
  have hB : ¬ (((stale ++ sa.map (shS F)).length : Int) - 1 - level < 0) := by
    simp only [List.length_append, List.length_map]; omega
  simp only [hA, hB, if_false]
  have hn : (((stale ++ sa.map (shS F)).length : Int) - 1 - level + 1).toNat
      = stale.length + ((sa.length : Int) - 1 - level + 1).toNat := by
    simp only [List.length_append, List.length_map]; omega
  rw [hn, List.take_length_add_append, List.reverse_append, ← List.map_take, ← List.map_reverse]
  apply isBlankLoop_shift
  intro e he
  have := h2 e (List.mem_reverse.mp he)
  omega

theorem isBlankLine_nil (ln level : Int) (h : 0 ≤ level) : isBlankLine ln level [] = true := by
  unfold isBlankLine
  have : ((([] : List LineStat).length : Int) - 1 - level < 0) := by simp; omega
  simp only [this, if_true]

end GM.Blocks.Xs
