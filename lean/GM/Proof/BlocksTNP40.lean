/-
  GM.Proof.BlocksTNP40 — the escaped-pipe positions of the final tree (`GM.TableX.escOfTree`, the last conjunct of
  `GM.Props.ConvertXE2E.BlockPhaseXGood`): the TREE-LEVEL half of "they ascend". `escOrd src t`: at every node the positions the
  node itself records ascend and lie before everything recorded below it, and among its children everything recorded in an
  earlier subtree lies before everything recorded in a later one. `escOfTree_pw`: then the pre-order concatenation ascends.
  `blockPhaseX_esc_ascending_of`: the statement of goal (2) from `escOrd` of the final tree (trivial with Table off).
  NOT proved here: that the block driver establishes `escOrd` (tables appear in source order — needs a sibling-order
  invariant of the walk: children are appended in temporal = source order, a Table is inserted directly behind ITS paragraph).
-/
import GM.Model.ExtTableX
import GM.Model.ConvertL

namespace GM.Blocks.TP4
open GM GM.Text GM.Blocks GM.TableX

/-- every position of `a` lies before every position of `b` -/
def Before (a b : List Int) : Prop := ∀ x ∈ a, ∀ y ∈ b, x < y

theorem before_of_bound {a b : List Int} (m : Int) (ha : ∀ x ∈ a, x < m) (hb : ∀ y ∈ b, m ≤ y) : Before a b :=
  fun x hx y hy => Int.lt_of_lt_of_le (ha x hx) (hb y hy)

theorem before_nil_left (b : List Int) : Before [] b := fun _ h => by cases h
theorem before_nil_right (a : List Int) : Before a [] := fun _ _ _ h => by cases h

theorem before_append_right {a b c : List Int} (h1 : Before a b) (h2 : Before a c) : Before a (b ++ c) :=
  fun x hx y hy => by
    rcases List.mem_append.1 hy with h | h
    · exact h1 x hx y h
    · exact h2 x hx y h

/-- what a node itself records -/
def ownEsc (src : Bytes) (n : Node) : List Int := if isRowNode src n then n.lines.map (·.start) else []

mutual
/-- the recorded positions are ordered along the pre-order walk -/
def escOrd (src : Bytes) : Tree → Prop
  | .node n cs => (ownEsc src n).Pairwise (· < ·) ∧ Before (ownEsc src n) (escOfTrees src cs) ∧ escOrdL src cs
def escOrdL (src : Bytes) : List Tree → Prop
  | [] => True
  | t :: rest => escOrd src t ∧ escOrdL src rest ∧ Before (escOfTree src t) (escOfTrees src rest)
end

mutual
theorem escOfTree_pw (src : Bytes) : ∀ t, escOrd src t → (escOfTree src t).Pairwise (· < ·)
  | .node n cs, h => by
    unfold escOrd at h
    unfold escOfTree
    exact List.pairwise_append.2 ⟨h.1, escOfTrees_pw src cs h.2.2, h.2.1⟩
theorem escOfTrees_pw (src : Bytes) : ∀ ts, escOrdL src ts → (escOfTrees src ts).Pairwise (· < ·)
  | [], _ => by unfold escOfTrees; exact List.Pairwise.nil
  | t :: rest, h => by
    unfold escOrdL at h
    unfold escOfTrees
    exact List.pairwise_append.2 ⟨escOfTree_pw src t h.1, escOfTrees_pw src rest h.2.1, h.2.2⟩
end

/-- a list of subtrees whose own children record nothing (the rows of ONE Table: the cells below a row record nothing) is
    ordered as soon as its concatenated positions ascend — the form gfmx's per-table lemma
    (GM.Proof.ConvertXE2EEsc: header, then the body rows) delivers -/
theorem escOrdL_of_flat (src : Bytes) : ∀ ts : List Tree,
    (∀ t ∈ ts, ∃ n cs, t = .node n cs ∧ escOfTrees src cs = [] ∧ escOrdL src cs) →
    (escOfTrees src ts).Pairwise (· < ·) → escOrdL src ts
  | [], _, _ => by unfold escOrdL; trivial
  | t :: rest, hk, hp => by
    unfold escOfTrees at hp
    obtain ⟨h1, h2, h3⟩ := List.pairwise_append.1 hp
    obtain ⟨n, cs, e, hcs, hol⟩ := hk t (by simp)
    unfold escOrdL
    refine ⟨?_, escOrdL_of_flat src rest (fun t' ht' => hk t' (by simp [ht'])) h2, h3⟩
    subst e
    unfold escOfTree at h1
    rw [hcs, List.append_nil] at h1
    unfold escOrd
    exact ⟨h1, by rw [hcs]; exact before_nil_right _, hol⟩

/-- the subtree of ONE Table: the Table node records nothing itself; its rows as above -/
theorem escOrd_table (src : Bytes) (tn : Node) (rows : List Tree) (htn : isRowNode src tn = false)
    (hk : ∀ t ∈ rows, ∃ n cs, t = .node n cs ∧ escOfTrees src cs = [] ∧ escOrdL src cs)
    (hp : (escOfTrees src rows).Pairwise (· < ·)) : escOrd src (.node tn rows) := by
  unfold escOrd
  have : ownEsc src tn = [] := by unfold ownEsc; rw [htn]; rfl
  rw [this]
  exact ⟨List.Pairwise.nil, before_nil_left _, escOrdL_of_flat src rows hk hp⟩

/-- **goal (2) from the order of the final tree**: the escaped-pipe positions `tableASTTransformer` is handed ascend -/
theorem blockPhaseX_esc_ascending_of (c : GM.ConvertX.GCfg) (src : Bytes) (st : St)
    (hO : c.base.table = true → escOrd src (treeOf st.nodes st.nodes.length 0)) :
    (if c.base.table then escOfTree src (treeOf st.nodes st.nodes.length 0) else []).Pairwise (· < ·) := by
  cases hc : c.base.table with
  | false => simp
  | true => simp only [if_true]; exact escOfTree_pw src _ (hO hc)

end GM.Blocks.TP4
