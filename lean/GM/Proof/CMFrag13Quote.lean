/-
  GM.Proof.CMFrag13Quote — the union fragment inside a block quote, and the inline facts in their position-list form
  (`U13InlG`: line `j` of the paragraph lies at byte `ps[j]`), from which the contiguous form `U13Inl` follows.
-/
import GM.Proof.CMFrag13Main
import GM.Proof.CMFragQGen

namespace GM.Proof.CMFrag
open GM GM.Text GM.Blocks GM.Spec

/-- what the inline phase and `inlineTrees` make of the lines `ls`, line `j` lying at byte `ps[j]` of whatever source -/
def ParaDTG (env : GM.Inl.Env) (ls : List Bytes) (ns : List GM.Node) : Prop :=
  ∃ kidsAt : List Nat → List GM.Inl.Node,
    (∀ src ps, LinesAtG src ps ls → GM.Inl.parseBlock env src (paraSegsG ps ls) = .ok (kidsAt ps)) ∧
    (∀ src ps, LinesAtG src ps ls → GM.Convert.inlineTrees src (kidsAt ps) = .ok ns)

theorem paraDT_of_G {env : GM.Inl.Env} {ls : List Bytes} {ns : List GM.Node} (h : ParaDTG env ls ns) :
    ParaDT env ls ns := by
  obtain ⟨kidsAt, h1, h2⟩ := h
  refine ⟨fun p => kidsAt (contigG p ls), ?_, ?_⟩
  · intro src p hl
    have := h1 src (contigG p ls) (linesAtG_contigG ls p hl)
    rw [paraSegsG_contigG] at this
    exact this
  · intro src p hl
    exact h2 src (contigG p ls) (linesAtG_contigG ls p hl)

/-- the inline facts of the union fragment, position-list form (proved in CMFrag13Inl) -/
def U13InlG : Prop :=
  ∀ (env : GM.Inl.Env), env.escapedSpace = false → ∀ (ls : List ULine), ls ≠ [] → ULinesOK ls →
    ParaDTG env (ls.map ulineSrc) (uNodes ls)

theorem u13Inl_of_G (H : U13InlG) : U13Inl := fun env henv ls hne hok => paraDT_of_G (H env henv ls hne hok)

/-! ### per block, inside the quote -/

theorem docTree_linesQ {src : Bytes} (env : GM.Inl.Env) (ls : List Bytes) (ps : List Nat) (m' : Blocks.Node) (K : GM.Kind)
    (hlines : m'.lines = paraSegsG ps ls) (hraw : GM.Convert.isRawKind m'.kind = false)
    (hK : GM.Convert.blockKind src m' = .ok K)
    (hne : ls ≠ []) (hnel : ∀ l ∈ ls, l ≠ []) (h : LinesAtG src ps ls) (kids : List GM.Inl.Node) (ns : List GM.Node)
    (hpb : GM.Inl.parseBlock env src (paraSegsG ps ls) = .ok kids)
    (hit : GM.Convert.inlineTrees src kids = .ok ns) :
    GM.Convert.docTree true env src (.node m' []) = .ok (.mk K none ns) := by
  have hw := wf0B_linesG ps ls hne h hnel
  have hle : (paraSegsG ps ls).isEmpty = false := by
    cases hs : paraSegsG ps ls with
    | nil => rw [hs] at hw; simp [GM.LinkRef.wf0B, GM.LinkRef.wfSegsB] at hw
    | cons _ _ => rfl
  simp only [GM.Convert.docTree, GM.Convert.docTrees, GM.Convert.inlinePhase, hraw, hlines, hle, hw,
    hpb, GM.Convert.liftErr, hK, bind, Except.bind, pure, Except.pure]
  simp [hit]

theorem blockDTQ_para (env : GM.Inl.Env) (ls : List Bytes) (hne : ls ≠ []) (hb : ∀ l ∈ ls, BlkLine l)
    (ns : List GM.Node) (hin : ParaDTG env ls ns) :
    BlockDTQ env (.old (.para ls)) (.mk .paragraph none ns) := by
  obtain ⟨kidsAt, hpb, hit⟩ := hin
  intro S p bk m' h hp hr
  have hk := hr.kind
  have hli := hr.lines
  simp only [Bool.false_eq_true, if_false] at hk
  simp only [node5, node4, paraN] at hk hli
  have hpa : ParaAt S p ls := by simpa [lines5, lines4] using h
  have hnel : ∀ l ∈ ls, l ≠ [] := fun l hl => blkLine_ne (hb l hl)
  obtain ⟨ps, hL, hG⟩ := segsRel_paraQ ls p m'.lines (linesAtE_of_paraAtLfE ls p hpa) hnel hli
  exact docTree_linesQ env ls ps m' .paragraph hL (by rw [hk]; rfl)
    (by simp [GM.Convert.blockKind, hk, pure, Except.pure]) hne hnel hG _ ns (hpb _ ps hG) (hit _ ps hG)

theorem blockDTQ_atx (env : GM.Inl.Env) (level : Nat) (l : Bytes) (hb : BlkLine l) (ns : List GM.Node)
    (hin : ParaDTG env [l] ns) :
    BlockDTQ env (.old (.atx level l)) (.mk (.heading level) none ns) := by
  obtain ⟨kidsAt, hpb, hit⟩ := hin
  have hlne : l ≠ [] := blkLine_ne hb
  intro S p bk m' h hp hr
  have hk := hr.kind
  have hli := hr.lines
  have hlv := hr.level
  simp only [Bool.false_eq_true, if_false] at hk
  simp only [node5, node4, headN] at hk hli hlv
  obtain ⟨pre0, post, hsrc, hpre0⟩ := paraAt_decomp _ p h hp
  have hno := hb.noNl
  have hsrc' : S = (pre0 ++ List.replicate level 35 ++ [32]) ++ (l ++ 10 :: post) := by
    rw [hsrc]; simp [lines5, lines4, paraBytes]
  have hlen : (pre0 ++ List.replicate level 35 ++ [32]).length = p + level + 1 := by simp [hpre0]; omega
  have hln := Ln.of_append (pre0 ++ List.replicate level 35 ++ [32]) l post hno
  rw [← hsrc', hlen] at hln
  have hle := hln.le
  have hsub : sub S (p + level + 1) (p + level + 1 + l.length) = l :=
    sub_prefix S (p + level + 1) l.length l 10 rfl hln.sub
  obtain ⟨A, hL, hG⟩ := segsRel_oneQ (p + level + 1) l m'.lines hlne hsub (by omega) hli
  exact docTree_linesQ env [l] [A] m' (.heading level) hL (by rw [hk]; rfl)
    (by simp [GM.Convert.blockKind, hk, hlv, pure, Except.pure]) (by simp) (by simpa using hlne) hG _ ns
    (hpb _ [A] hG) (hit _ [A] hG)

theorem blockDTQ_u (H : U13InlG) (env : GM.Inl.Env) (henv : env.escapedSpace = false) (b : UBlock) (h : UGood b)
    (hn : b.isIc = false) : BlockDTQ env (uraw b) (uNode b) := by
  cases b with
  | para ls =>
    exact blockDTQ_para env (ls.map ulineSrc) (by simpa using h.1) (ulines_blk ls h.2) (uNodes ls) (H env henv ls h.1 h.2)
  | atx level l =>
    have hok : ULinesOK [⟨l, false⟩] := ⟨by simpa using h.2.2.1, by simp⟩
    have hin := H env henv [⟨l, false⟩] (by simp) hok
    have e1 : [(⟨l, false⟩ : ULine)].map ulineSrc = [elineSrc l] := by simp [ulineSrc]
    rw [e1] at hin
    exact blockDTQ_atx env level (elineSrc l) (erichLine_blk h.2.2.1) _ hin
  | hr x => exact blockDTQ_good env henv _ h rfl
  | fence fc n info ls => exact blockDTQ_good env henv _ h rfl
  | icode ls => exact Bool.noConfusion hn

theorem allBlkQ_u (H : U13InlG) (env : GM.Inl.Env) (henv : env.escapedSpace = false) :
    ∀ (items : List (Nat × UBlock)), (∀ it ∈ items, UGood it.2) → (∀ it ∈ items, it.2.isIc = false) →
    AllBlk (BlockDTQ env) (items.map fun it => (it.1, uraw it.2)) (items.map fun it => uNode it.2)
  | [], _, _ => trivial
  | it :: rest, h, hn => ⟨blockDTQ_u H env henv it.2 (h it (by simp)) (hn it (by simp)),
      allBlkQ_u H env henv rest (fun x hx => h x (by simp [hx])) (fun x hx => hn x (by simp [hx]))⟩

/-- the model of `goldmark.Convert` on a document of the union fragment WITHOUT indented code blocks put into a block
    quote -/
theorem convert_quote13 (HB : BPFree) (H : U13InlG) (uc : List (Nat × (Bool × Bool))) (items : List (Nat × UBlock))
    (trail : Nat) (hgood : ∀ it ∈ items, UGood it.2) (hnoic : ∀ it ∈ items, it.2.isIc = false)
    (hseps : SepsOK6 none (items.map fun it => (it.1, uraw it.2)))
    (hclass : C08ClassL (rawDoc6 (items.map fun it => (it.1, uraw it.2)) trail))
    (hnb : ∀ b ∈ rawDoc6 (items.map fun it => (it.1, uraw it.2)) trail, b ≠ 91) (html : Bytes)
    (hr : GM.Convert.renderDoc cmOpts (.mk .document none [.mk .blockquote none (items.map fun it => uNode it.2)]) =
      .ok html) :
    GM.Convert.convertCore uc cmOpts (quotePrefix (rawDoc6 (items.map fun it => (it.1, uraw it.2)) trail)) = .ok html := by
  refine convert_quote_gen6 HB uc _ trail ?_ hseps (uitems_noic items hnoic) ?_ hclass hnb _ html
    (fun env henv => allBlkQ_u H env henv items hgood hnoic) hr
  · intro x hx
    obtain ⟨it, hit, rfl⟩ := List.mem_map.mp hx
    exact good5_uraw it.2 (hgood it hit)
  · intro x hx
    obtain ⟨it, hit, rfl⟩ := List.mem_map.mp hx
    exact uraw_noNl it.2 (hgood it hit)

end GM.Proof.CMFrag
