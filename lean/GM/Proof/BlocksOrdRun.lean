/-
  GM.Proof.BlocksOrdRun — the ORDER clause for whole runs of the block phase.

  `lineLoop_ord` walks one pass of the `for i` loop of parseBlocks (parser.go:1081-1123) exactly as
  GM.Blocks.L.lineLoopL does — with the same existing invariants (`StableL`, the list hints), which are what excludes
  `reader.AdvanceAndSetPadding(-1,-1)` in listItemParser.Continue (the only way the reader could step back inside a
  line) — and carries `Inv` along: while only container blocks have continued nothing was appended (`Clean`), the one leaf
  `Continue` / the one `openBlocks` of the line appends at most one segment per block, behind the line start.
  `linesLoop_ord`, `blocksLoop_ord`: at every line boundary all lines end at or before the new line start.
  `run_ordered`: in the final store every non-raw block's lines increase.
-/
import GM.Proof.BlocksOrdLine
import GM.Proof.BlocksOrdCont

namespace GM.Blocks
open GM GM.Text GM.Spec GM.Proof.Reader
open GM.Proof.BlocksWF0 (isRaw)

theorem Inv.of_same {src : Bytes} {B : Int} {s s' : St} (hi : Inv src B s) (hn : s'.nodes = s.nodes)
    (ho : s'.pc.opened = s.pc.opened) (ht : s'.pc.tmpPara = s.pc.tmpPara) : Inv src B s' :=
  ⟨fun i => by simp only [nd, hn]; exact hi.nrb i, fun i => by simp only [nd, hn]; exact hi.pne i,
    fun i => by simp only [nd, hn]; exact hi.pnb i,
    fun t h => by rw [ht] at h; simp only [nd, hn]; exact hi.tmpk t h,
    fun b hb => by rw [ho] at hb; simp only [nd, hn]; exact hi.kinds b hb,
    fun m hm => hi.nodes m (by rw [← hn]; exact hm)⟩

/-- `Continue` of the eight list-free parsers, on a block that is not a Paragraph and whose node has the kind its
    parser builds: the invariant is kept for every bound (a container and the one-line leaves write no node; the raw
    leaves write their own, raw node) -/
theorem bpContinue_inv {src : Bytes} {B : Int} {s s' : St} {st : PState} (bp : BP) (node : Nat) (hi : Inv src B s)
    (c : RCur) (hri : RI src s.r c)
    (hnl : bp ≠ .list ∧ bp ≠ .listItem) (hnp : bp ≠ .paragraph) (hk : (nd s node).kind = bp.kind)
    (hpc : s'.pc = s.pc) (hn : NodesOK src s') (e : bpContinue bp node s = .ok (st, s'))
    (hx : isRaw bp.kind = true → OrdFrom 0 (nd s' node).lines ∧ Below B (nd s' node).lines) : Inv src B s' := by
  have same : s' = s → Inv src B s' := fun h => by rw [h]; exact hi
  have raw : isRaw bp.kind = true → FrN node (bpContinue bp node) → Inv src B s' := fun hr hf =>
    hi.onlyN (hf.h s st s' e) (by rw [hk]; exact hr) hpc hn (hx hr)
  cases bp
  case setext => exact same (by have e' : (pure stClose : M PState) s = .ok (st, s') := e; exact (opure_ok e').2)
  case thematic => exact same (by have e' : (pure stClose : M PState) s = .ok (st, s') := e; exact (opure_ok e').2)
  case list => exact absurd rfl hnl.1
  case listItem => exact absurd rfl hnl.2
  case code => exact raw rfl codeContinue_frn
  case atx => exact same (by have e' : (pure stClose : M PState) s = .ok (st, s') := e; exact (opure_ok e').2)
  case fenced => exact raw rfl fencedContinue_frn
  case blockquote =>
    have e' : blockquoteContinue node s = .ok (st, s') := e
    unfold blockquoteContinue at e'
    obtain ⟨b, s1, h1, k1⟩ := obind_ok e'
    obtain ⟨r1, c1, hs1, _⟩ := (blockquoteProcess_okl hri).of_ok h1
    have hs' : s' = s1 := by
      split at k1
      · exact (opure_ok k1).2
      · exact (opure_ok k1).2
    rw [hs', hs1]
    exact hi.congr_r r1
  case html => exact raw rfl htmlContinue_frn
  case paragraph => exact absurd rfl hnp

/-- `Continue` of the eight list-free parsers from a clean state, on an open block that is not a Paragraph: the
    invariant up to the line end; and, when the walk over the line goes on (children, or `Close`), the invariant up to
    the line start and `PadL` for the cursor -/
theorem bpContinue_clean {src : Bytes} {Lb : Int} {s s' : St} {c c2 : RCur} {st : PState} (be : Block)
    (hc1 : Clean src Lb s c) (hp : c.p < src.length) (hkeys : KeysOK s) (hkind : (nd s be.node).kind = be.bp.kind)
    (hnl : be.bp ≠ .list ∧ be.bp ≠ .listItem) (hnp : be.bp ≠ .paragraph)
    (h2c : ContPost src be.bp s c st s') (h4 : bpContinue be.bp be.node s = .ok (st, s')) :
    Inv src (lineEnd src c.p : Int) s' ∧
      ((st.hasChildren = true ∨ st.cont = false) → Inv src Lb s' ∧ (RI src s'.r c2 → PadL Lb c2)) := by
  have hr1 := hc1.ri
  have hle := hc1.le
  have hpl := hc1.padl
  have hrc : isRaw be.bp.kind = true → RawC src Lb (lineEnd src c.p : Int) be.node s s' st :=
    fun hr => bpContinue_rawC be.bp be.node hr hr1 hp hle hpl (fun f hf => (hkeys.fence f hf).2.1) h4
  have hge := lineEnd_ge src hr1.inRange
  have h04 : ∀ t ∈ (nd s' be.node).lines, 0 ≤ t.start := fun t ht =>
    ((nodeOK_nd h2c.nodes be.node).lines t ht).1
  have hinvE : Inv src (lineEnd src c.p : Int) s' :=
    bpContinue_inv be.bp be.node hc1.invE c hr1 hnl hnp hkind h2c.pc h2c.nodes h4 (fun hr =>
      (hrc hr).1.nodeR ((hc1.inv.nrb be.node).2.1 (by rw [hkind]; exact hr)) (by omega) h04)
  have hleafraw : isRaw be.bp.kind = true → st.hasChildren = false := fun hr => h2c.leaf (by
    cases hbp : be.bp <;> rw [hbp] at hr <;> first | rfl | exact absurd hr (by decide))
  refine ⟨hinvE, fun hor => ⟨?_, fun hri4 => ?_⟩⟩
  · exact bpContinue_inv be.bp be.node hc1.inv c hr1 hnl hnp hkind h2c.pc h2c.nodes h4 (fun hr => by
      have hcf : st.cont = false := by
        rcases hor with h' | h'
        · rw [hleafraw hr] at h'; cases h'
        · exact h'
      rw [((hrc hr).2 hcf).1]
      exact (hc1.inv.nrb be.node).2.1 (by rw [hkind]; exact hr))
  · by_cases hr : isRaw be.bp.kind = true
    · have hcf : st.cont = false := by
        rcases hor with h' | h'
        · rw [hleafraw hr] at h'; cases h'
        · exact h'
      exact ((hrc hr).2 hcf).2 c2 hri4
    · have pureC : (pure stClose : M PState) s = .ok (st, s') → PadL Lb c2 := fun e' => by
        obtain ⟨_, hs4⟩ := opure_ok e'
        rw [hs4] at hri4
        exact padl_of_ri_ri hr1 hri4 hpl
      cases hbp : be.bp <;> rw [hbp] at h4 hr hnl hnp
      case setext => exact pureC h4
      case thematic => exact pureC h4
      case list => exact absurd rfl hnl.1
      case listItem => exact absurd rfl hnl.2
      case code => exact absurd rfl hr
      case atx => exact pureC h4
      case fenced => exact absurd rfl hr
      case blockquote =>
        have e' : blockquoteContinue be.node s = .ok (st, s') := h4
        unfold blockquoteContinue at e'
        obtain ⟨b, s5, h5, k5⟩ := obind_ok e'
        obtain ⟨r5, c5, hs5, hri5, hle5, hb1, hb2⟩ := (blockquoteProcess_okl hr1).of_ok h5
        have hs45 : s' = s5 := by
          split at k5
          · exact (opure_ok k5).2
          · exact (opure_ok k5).2
        rw [hs45, hs5] at hri4
        refine padl_of_ri_ri hri5 hri4 ?_
        cases b with
        | true => intro _; have := hb1 rfl; omega
        | false => rw [hb2 rfl]; exact hpl
      case html => exact absurd rfl hr
      case paragraph => exact absurd rfl hnp

namespace L

section run
variable {src : Bytes} (lsp : LSp src)
include lsp

/-- one pass of the `for i` loop (parser.go:1081-1123) keeps the order invariant; hypotheses as `lineLoopL` -/
theorem lineLoop_ord {root : Nat} (parent : Nat) (hroot : parent = root) (ob : List Block) (li : Int)
    (hli : li = (ob.length : Int) - 1) (Lb : Int) :
    ∀ (rest pre : List Block) (i : Int) (bl : List LineStat) (s : St) (c : RCur)
      (x : LineOutcome × List LineStat) (s' : St), ob = pre ++ rest → i = (pre.length : Int) →
      s.pc.opened = ob → RI src s.r c → PadOK c → StableL src root s →
      (∀ Lk, pre.getLast? = some Lk → Lk.bp = .list → ListHint src s c Lk.node) →
      Inv src Lb s → Lb ≤ c.p → PadL Lb c →
      lineLoop parent ob li rest i bl s = .ok (x, s') → Dirty src s' := by
  intro rest
  induction rest with
  | nil =>
    intro pre i bl s c x s' _ _ _ hri hpad _ _ hinv hle hpl h
    unfold lineLoop at h
    obtain ⟨_, hs⟩ := opure_ok h
    subst s'
    exact (Clean.mk hinv hri hpad hle hpl).dirty
  | cons be rest ih =>
    intro pre i bl s c x s' hob hi hop hri hpad hst hhint hinv hle hpl h
    unfold lineLoop at h
    obtain ⟨y, s1, h1, k1⟩ := obind_ok h
    obtain ⟨rfl, r1, hs1, hr1⟩ := peekLine_inv hri h1
    subst s1
    dsimp only at k1
    have hst1 : StableL src root { s with r := r1 } := hst.congr rfl rfl rfl rfl
    have hhint1 : ∀ Lk, pre.getLast? = some Lk → Lk.bp = .list → ListHint src { s with r := r1 } c Lk.node := hhint
    have hc1 : Clean src Lb { s with r := r1 } c := ⟨hinv.congr_r r1, hr1, hpad, hle, hpl⟩
    cases hv : RCur.view src c with
    | none =>
      rw [hv] at k1
      dsimp only at k1
      obtain ⟨_, s2, h2, k2⟩ := obind_ok k1
      obtain ⟨a1, a2, _, _⟩ := closeBlocks_inv _ _ hc1.invE hr1.source h2
      obtain ⟨_, s3, h3, k3⟩ := obind_ok k2
      have e3 : s3 = { s2 with r := s2.r.advanceLine } := by cases h3; rfl
      obtain ⟨_, hs⟩ := opure_ok k3
      subst s'
      subst s3
      have hstop2 : Stop src (lineEnd src c.p : Int) s2 := (RI.stop (s := { s with r := r1 }) hr1).congr a2
      exact ⟨_, a1.congr_r _, hstop2.toR.advanceLine.toS⟩
    | some line =>
      rw [hv] at k1
      dsimp only at k1
      have hp : c.p < src.length := view_some_lt src c hv
      have hlineOf : lineOf src c = line := by unfold lineOf; rw [hv]; rfl
      obtain ⟨pos, s2, h2, k2⟩ := obind_ok k1
      have e2 : s2 = { s with r := r1 } := by cases h2; rfl
      subst s2
      obtain ⟨n, s3, h3, k3⟩ := obind_ok k2
      obtain ⟨hn, e3⟩ := ogetNode_ok h3
      subst s3
      subst n
      have hbemem : be ∈ s.pc.opened := by rw [hop, hob]; simp
      have hbeok := hst1.blocks be hbemem
      obtain ⟨hchpre, hlink, hchrest⟩ := chainedO_split (hob ▸ hop ▸ hst1.chain)
      -- common treatment of the answer `st` of `Continue`, in state `s2`
      have after : ∀ (K : M (LineOutcome × List LineStat)) (st : PState) (s2 : St) (c2 : RCur) (blankv : Bool)
          (bl' : List LineStat), StableL src root s2 → s2.pc.opened = ob → PadOK c2 →
          ((st.cont = true ∧ st.hasChildren = false) ∨ RI src s2.r c2) →
          (be.bp.isContainer = true → st.cont = true → st.hasChildren = true) →
          (be.bp.isContainer = false → st.hasChildren = false) →
          (st.cont = true → ∀ Lk, (pre ++ [be]).getLast? = some Lk → Lk.bp = .list → ListHint src s2 c2 Lk.node) →
          Dirty src s2 →
          ((st.hasChildren = true ∨ st.cont = false) → RI src s2.r c2 → Inv src Lb s2 ∧ Lb ≤ c2.p ∧ PadL Lb c2) →
          (st.cont = false → RI src s2.r c2 → K s2 = .ok (x, s') → Dirty src s') →
          (if st.cont = true then
              if (st.hasChildren && i == li) = true then
                openBlocks be.node blankv >>= fun _ => pure (LineOutcome.next, bl')
              else
                if (!false) = true then lineLoop parent ob li rest (i + 1) bl' else K
            else
              if (!true) = true then lineLoop parent ob li rest (i + 1) bl' else K) s2 = .ok (x, s') →
          Dirty src s' := by
        intro K st s2 c2 blankv bl' hst2 hop2 hpad2 hcase2 hcontc hleafc hhint2 hd2 hmine hK e
        by_cases hcont : st.cont = true
        · rw [if_pos hcont] at e
          by_cases hch : (st.hasChildren && i == li) = true
          · rw [if_pos hch] at e
            simp only [Bool.and_eq_true] at hch
            have hri2 : RI src s2.r c2 := by
              rcases hcase2 with ⟨_, h⟩ | h
              · rw [hch.1] at h; cases h
              · exact h
            obtain ⟨m1, m2, m3⟩ := hmine (.inl hch.1) hri2
            obtain ⟨res, s3, h3', k3'⟩ := obind_ok e
            have hd3 := openBlocks_ord (src := src) Lb be.node blankv s2 c2 res s3 ⟨m1, hri2, hpad2, m2, m3⟩ h3'
            obtain ⟨_, hs⟩ := opure_ok k3'
            subst s'
            exact hd3
          · rw [if_neg hch, if_pos (by rfl)] at e
            by_cases hhc : st.hasChildren = true
            · have hri2 : RI src s2.r c2 := by
                rcases hcase2 with ⟨_, h⟩ | h
                · rw [hhc] at h; cases h
                · exact h
              obtain ⟨m1, m2, m3⟩ := hmine (.inl hhc) hri2
              exact ih (pre ++ [be]) (i + 1) _ s2 c2 x s' (by rw [hob]; simp) (by simp; omega) hop2 hri2 hpad2 hst2
                (hhint2 hcont) m1 m2 m3 e
            · have hbec : be.bp.isContainer = false := by
                cases hc : be.bp.isContainer with
                | false => rfl
                | true => exact absurd (hcontc hc hcont) hhc
              have hrest : rest = [] := by
                obtain ⟨_, hbe, _, _⟩ := leafy_split (hob ▸ hop ▸ hst.leafy)
                cases rest with
                | nil => rfl
                | cons r rs => have := hbe (by simp); rw [hbec] at this; cases this
              subst hrest
              unfold lineLoop at e
              obtain ⟨_, hs⟩ := opure_ok e
              subst s'
              exact hd2
        · rw [if_neg hcont, if_neg (by decide)] at e
          have hri2 : RI src s2.r c2 := by
            rcases hcase2 with ⟨h, _⟩ | h
            · exact absurd h hcont
            · exact h
          exact hK (by simpa using hcont) hri2 e
      -- the fall-through continuation from a clean state
      have useF : ∀ (s2 : St) (c2 : RCur) (blank : Bool) (bl' : List LineStat), Inv src Lb s2 → Lb ≤ c2.p → PadL Lb c2 →
          PadOK c2 → RI src s2.r c2 →
          (if (i != 0) = true then do
              let b ← liftE (blockAt ob (i - 1))
              let thisParent ← pure b.node
              let lastNode ← liftE (blockAt ob li)
              let result ← openBlocks thisParent blank
              if (result != OpenResult.paragraphContinuation) = true then do
                  let __do_lift ← getPc
                  closeBlocks
                      (if (Option.map (fun x => x.node) (slotAfter ob __do_lift.opened li.toNat) != some lastNode.node) = true then
                        li - 1
                      else li)
                      i
                  pure (LineOutcome.next, bl')
                else pure (LineOutcome.next, bl')
            else do
              let thisParent ← pure parent
              let lastNode ← liftE (blockAt ob li)
              let result ← openBlocks thisParent blank
              if (result != OpenResult.paragraphContinuation) = true then do
                  let __do_lift ← getPc
                  closeBlocks
                      (if (Option.map (fun x => x.node) (slotAfter ob __do_lift.opened li.toNat) != some lastNode.node) = true then
                        li - 1
                      else li)
                      i
                  pure (LineOutcome.next, bl')
                else pure (LineOutcome.next, bl') : M _) s2 = .ok (x, s') → Dirty src s' :=
        fun s2 c2 blank bl' m1 m2 m3 hp2 hri2 e =>
          lineF_ord Lb parent ob li i blank bl' s2 c2 x s' ⟨m1, hri2, hp2, m2, m3⟩ e
      split at k3
      · next hkind =>
        obtain ⟨st, s4, h4, k4⟩ := obind_ok k3
        by_cases hbl : be.bp = .list
        · -- listParser.Continue: the store and the cursor are what they were
          have hkl : (nd { s with r := r1 } be.node).kind = .list := by rw [hbeok.kind, hbl]; rfl
          have hitem : ListHasItem { s with r := r1 } be.node := by
            cases hr : rest with
            | nil =>
              exfalso
              have := hst1.endOK
              have hob1 : ({ s with r := r1 } : St).pc.opened = pre ++ [be] := by
                show s.pc.opened = _; rw [hop, hob, hr]
              rw [hob1, lastNode_concat] at this
              exact this hkl
            | cons b' rs =>
              rw [hr] at hchrest
              obtain ⟨h1', h2', h3'⟩ := hchrest.1.down hkl
              refine ⟨b'.node, h3', ?_⟩
              have hb'm : b' ∈ s.pc.opened := by rw [hop, hob, hr]; simp
              rw [(hst1.blocks b' hb'm).kind, h1']; rfl
          obtain ⟨lc, hlc, hlck⟩ := hitem
          have hitem : ListHasItem { s with r := r1 } be.node := ⟨lc, hlc, hlck⟩
          have h4' : listContinue be.node { s with r := r1 } = .ok (st, s4) := by
            have ebp : bpContinue be.bp be.node = listContinue be.node := by rw [hbl]; rfl
            rw [← ebp]; exact h4
          obtain ⟨r2, hr2, hri2, hn2, ho2, _, _, ht2, hf2, _, hcc2, hlc2⟩ :=
            (listContinue_okl2 src be.node { s with r := r1 } c hr1 hp hitem).of_ok h4'
          obtain ⟨hbl2, hnb2⟩ := hlc2 lc hlc
          have hst2 : StableL src root s4 := hst1.congr hn2 ho2 ht2 hf2
          have hri2' : RI src s4.r c := by rw [hr2]; exact hri2
          have hinv4 : Inv src Lb s4 := hc1.inv.of_same hn2 ho2 ht2
          refine after _ st s4 c _ _ hst2 (by rw [ho2]; exact hop) hpad (.inr hri2') (fun _ => hcc2)
            (fun hc => by rw [hbl] at hc; cases hc) ?_ (Clean.mk hinv4 hri2' hpad hle hpl).dirty
            (fun _ _ => ⟨hinv4, hle, hpl⟩)
            (fun _ hri2'' e => useF s4 c _ _ hinv4 hle hpl hpad hri2'' e) k4
          intro hcont Lk hLk hLkl
          rw [List.getLast?_concat] at hLk
          cases hLk
          refine ⟨lc, by rw [nd_eq_of_nodes_eq hn2]; exact hlc, fun hnb => ?_⟩
          obtain ⟨hpc, hg, hth⟩ := hnb2 hnb
          have hst' : st = stContinueHasChildren := by
            rcases hg.1 with h | h
            · rw [h] at hcont; cases hcont
            · exact h
          rw [nd_eq_of_nodes_eq hn2, nd_eq_of_nodes_eq hn2, hpc, ← hst']
          exact ⟨hg, fun a b c' => hth hcont a b c'⟩
        · by_cases hbi : be.bp = .listItem
          · -- listItemParser.Continue: `IndentPosition` is not −1 because the list went on
            have hkL : (nd { s with r := r1 } (lastNode root pre)).kind = .list := hlink.up hbi
            obtain ⟨_, hparL, hlastL⟩ := hlink.down hkL
            obtain ⟨Lk, hLk, hLn⟩ : ∃ Lk, pre.getLast? = some Lk ∧ Lk.node = lastNode root pre := by
              unfold lastNode
              cases hg : pre.getLast? with
              | none =>
                exfalso
                have : lastNode root pre = root := by unfold lastNode; rw [hg]; rfl
                rw [this, hst1.ls.rootKind] at hkL; cases hkL
              | some Lk => exact ⟨Lk, rfl, rfl⟩
            have hLkm : Lk ∈ s.pc.opened := by rw [hop, hob]; exact List.mem_append_left _ (List.mem_of_getLast? hLk)
            have hLkl : Lk.bp = .list := by
              have := (hst1.blocks Lk hLkm).kind
              rw [hLn, hkL] at this
              exact kind_list this.symm
            obtain ⟨lc, hlc, hg⟩ := hhint1 Lk hLk hLkl
            rw [hLn] at hlc hg
            have hlcbe : lc = be.node := by rw [hlastL] at hlc; cases hlc; rfl
            subst hlcbe
            have hkk := li_kidsOK_of hst1.ls.kids (lastNode root pre) hkL
            have hoffe : li_lastOff { s with r := r1 } (lastNode root pre) = (nd { s with r := r1 } be.node).offset := by
              unfold li_lastOff; rw [hlastL]
            have hoff : 0 ≤ li_lastOff { s with r := r1 } (lastNode root pre) := by
              rw [hoffe]; exact hst1.ls.kids.off be.node (by rw [hbeok.kind, hbi]; rfl)
            have hlist : li_ListContinued src { s with r := r1 } c be.node (lastNode root pre) := by
              unfold li_ListContinued
              simp only
              intro hnb
              rw [hoffe]
              obtain ⟨hgo, _⟩ := hg hnb
              have hns := hgo.not_short rfl
              refine ⟨hns.1, fun hh => ?_⟩
              refine hns.2.1 ⟨?_, hh.2.1, fun ⟨m, typ, hm, ht, _⟩ => ?_⟩
              · have := hh.1
                simp only [Bool.and_eq_true, beq_iff_eq] at this
                exact List.isEmpty_iff_length_eq_zero.2 this.1
              · have := hh.2.2.2
                rw [li_matchesListItem_strict] at this
                have hm' : matchesListItem (lineOf src c) false = (m, typ) := hm
                unfold lineOf at hm'
                rw [hm'] at this
                exact ht this
            have h4' : listItemContinue be.node { s with r := r1 } = .ok (st, s4) := by
              have ebp : bpContinue be.bp be.node = listItemContinue be.node := by rw [hbi]; rfl
              rw [← ebp]; exact h4
            obtain ⟨c2, hri2, hpad2, hle2, hn2, ho2, ht2, hf2, hcc2, _, _⟩ :=
              (listItemContinue_okl2 src be.node { s with r := r1 } c hr1 hpad hp (lastNode root pre) hparL hkk hoff
                hlist).of_ok h4'
            have hst2 : StableL src root s4 := hst1.congr hn2 ho2 ht2 hf2
            have hinv4 : Inv src Lb s4 := hc1.inv.of_same hn2 ho2 ht2
            have hle4 : Lb ≤ c2.p := by omega
            have hpl4 : PadL Lb c2 :=
              listItemContinue_padl hr1 hp hle hpl (lastNode root pre) hparL hkk hoff h4' c2 hri2
            refine after _ st s4 c2 _ _ hst2 (by rw [ho2]; exact hop) hpad2 (.inr hri2) (fun _ => hcc2)
              (fun hc => by rw [hbi] at hc; cases hc) ?_ (Clean.mk hinv4 hri2 hpad2 hle4 hpl4).dirty
              (fun _ _ => ⟨hinv4, hle4, hpl4⟩)
              (fun _ hri2'' e => useF s4 c2 _ _ hinv4 hle4 hpl4 hpad2 hri2'' e) k4
            intro _ Lk' hLk' hLkl'
            rw [List.getLast?_concat] at hLk'
            cases hLk'
            rw [hbi] at hLkl'; cases hLkl'
          · -- the other eight parsers: their contract `ContPost`, and `bpContinue_inv`
            have hnl : NotList be.bp := ⟨hbl, hbi⟩
            have hnp : be.bp ≠ .paragraph := by
              intro hbp
              have hkp : (nd { s with r := r1 } be.node).kind = .paragraph := by rw [hbeok.kind, hbp]; rfl
              have hkind' : (nd { s with r := r1 } be.node).kind ≠ .paragraph := by simpa [nd] using hkind
              exact hkind' hkp
            have h2c := ((specs_notList src).cont be.bp hnl be.node { s with r := r1 } c hr1 hpad hp hst1.nodes hst1.keys
              hbeok).of_ok h4
            have hts2 := lsp.contTS be.bp be.node _ st s4 h4
            obtain ⟨c2, hria2, hpad2, hle2, _, hcase2⟩ := h2c.ria
            have hst2 : StableL src root s4 :=
              hst1.same h2c.ext h2c.nodes hts2 (by rw [h2c.pc]) (by rw [h2c.pc]) (by rw [h2c.pc])
            -- what a raw leaf appends
            have hrc : isRaw be.bp.kind = true → RawC src Lb (lineEnd src c.p : Int) be.node { s with r := r1 } s4 st :=
              fun hr => bpContinue_rawC be.bp be.node hr hr1 hp hle hpl (fun f hf => (hst1.keys.fence f hf).2.1) h4
            have hge := lineEnd_ge src hri.inRange
            have h04 : ∀ t ∈ (nd s4 be.node).lines, 0 ≤ t.start := fun t ht =>
              ((nodeOK_nd h2c.nodes be.node).lines t ht).1
            have hinvE : Inv src (lineEnd src c.p : Int) s4 :=
              bpContinue_inv be.bp be.node hc1.invE c hr1 hnl hnp hbeok.kind h2c.pc h2c.nodes h4 (fun hr =>
                (hrc hr).1.nodeR ((hc1.inv.nrb be.node).2.1 (by rw [hbeok.kind]; exact hr)) (by omega) h04)
            have hleafraw : isRaw be.bp.kind = true → st.hasChildren = false := fun hr => h2c.leaf (by
              cases hbp : be.bp <;> rw [hbp] at hr <;> first | rfl | exact absurd hr (by decide))
            have hinv4 : (st.hasChildren = true ∨ st.cont = false) → Inv src Lb s4 := fun hor =>
              bpContinue_inv be.bp be.node hc1.inv c hr1 hnl hnp hbeok.kind h2c.pc h2c.nodes h4 (fun hr => by
                have hcf : st.cont = false := by
                  rcases hor with h' | h'
                  · rw [hleafraw hr] at h'; cases h'
                  · exact h'
                rw [((hrc hr).2 hcf).1]
                exact (hc1.inv.nrb be.node).2.1 (by rw [hbeok.kind]; exact hr))
            have hle4 : Lb ≤ c2.p := by omega
            -- the padding after `Continue`: only a block quote moves the reader and goes on
            have hpl4 : (st.hasChildren = true ∨ st.cont = false) → RI src s4.r c2 → PadL Lb c2 := by
              intro hor hri4
              by_cases hr : isRaw be.bp.kind = true
              · have hcf : st.cont = false := by
                  rcases hor with h' | h'
                  · rw [hleafraw hr] at h'; cases h'
                  · exact h'
                exact ((hrc hr).2 hcf).2 c2 hri4
              · have pureC : (pure stClose : M PState) { s with r := r1 } = .ok (st, s4) → PadL Lb c2 := fun e' => by
                  obtain ⟨_, hs4⟩ := opure_ok e'
                  rw [hs4] at hri4
                  exact padl_of_ri_ri hr1 hri4 hpl
                cases hbp : be.bp <;> rw [hbp] at h4 hr hnl hnp
                case setext => exact pureC h4
                case thematic => exact pureC h4
                case list => exact absurd rfl hnl.1
                case listItem => exact absurd rfl hnl.2
                case code => exact absurd rfl hr
                case atx => exact pureC h4
                case fenced => exact absurd rfl hr
                case blockquote =>
                  have e' : blockquoteContinue be.node { s with r := r1 } = .ok (st, s4) := h4
                  unfold blockquoteContinue at e'
                  obtain ⟨b, s5, h5, k5⟩ := obind_ok e'
                  obtain ⟨r5, c5, hs5, hri5, hle5, hb1, hb2⟩ := (blockquoteProcess_okl hr1).of_ok h5
                  have hs45 : s4 = s5 := by
                    split at k5
                    · exact (opure_ok k5).2
                    · exact (opure_ok k5).2
                  rw [hs45, hs5] at hri4
                  refine padl_of_ri_ri hri5 hri4 ?_
                  cases b with
                  | true => intro _; have := hb1 rfl; omega
                  | false => rw [hb2 rfl]; exact hpl
                case html => exact absurd rfl hr
                case paragraph => exact absurd rfl hnp
            have hstop4 : Stop src (lineEnd src c.p : Int) s4 := by
              have := (bpContinue_pres (stop_prims src (lineEnd src c.p : Int)) be.bp be.node).h _
                (RI.stop (s := { s with r := r1 }) hr1)
              rw [h4] at this; exact this
            refine after _ st s4 c2 _ _ hst2 (by rw [h2c.pc]; exact hop) hpad2 hcase2 h2c.cont h2c.leaf ?_
              ⟨_, hinvE, hstop4⟩ (fun hor hri4 => ⟨hinv4 hor, hle4, hpl4 hor hri4⟩)
              (fun hcf hri2'' e => useF s4 c2 _ _ (hinv4 (.inr hcf)) hle4 (hpl4 (.inr hcf) hri2'') hpad2 hri2'' e) k4
            intro _ Lk' hLk' hLkl'
            rw [List.getLast?_concat] at hLk'
            cases hLk'
            exact absurd hLkl' hbl
      · rw [if_neg (by decide)] at k3
        exact useF { s with r := r1 } c _ _ hc1.inv hle hpl hpad hr1 k3


omit lsp in
/-- `AdvanceLine` starts at the old line end -/
theorem advanceLine_start (r : Reader) : r.advanceLine.pos.start = r.pos.stop := by
  unfold Reader.advanceLine
  simp only
  split <;> rfl

omit lsp in
/-- at the end of a line (`RIa`: the reader agrees with an `RI` reader after the next `AdvanceLine`) the reader's line
    end is the line end of the cursor -/
theorem ria_stop {r : Reader} {c : RCur} (h : RIa src r c) : r.pos.stop = (lineEnd src c.p : Int) := by
  obtain ⟨r0, h0, e⟩ := h
  have h1 := advanceLine_start r
  have h2 := advanceLine_start r0
  rw [e, h2, h0.pos] at h1
  exact h1.symm

omit lsp in
/-- `Dirty` at the end of a line gives `Inv` up to the start of the next line -/
theorem dirty_next {s : St} {c : RCur} (hd : Dirty src s) (hria : RIa src s.r c) :
    Inv src ((RCur.advanceLine src c).p : Int) { s with r := s.r.advanceLine } := by
  obtain ⟨E, hE, hstop⟩ := hd
  have h1 := ria_stop hria
  have h2 := hstop.lb
  exact (hE.mono (by show E ≤ (lineEnd src c.p : Int); omega)).congr_r _

/-- the loop over lines (parser.go:1074-1126): it ends `Dirty` at the end of the source, or with an empty stack, a clean
    reader and all lines ending at or before the cursor -/
theorem linesLoop_ord {root : Nat} (parent : Nat) (hroot : parent = root) :
    ∀ (fuel : Nat) (bl : List LineStat) (s : St) (c : RCur) (x : Bool × List LineStat) (s' : St),
      RI src s.r c → PadOK c → StableL src root s → Inv src (c.p : Int) s → c.pad = 0 →
      linesLoop parent fuel bl s = .ok (x, s') →
      (x.1 = true → Dirty src s') ∧
      (x.1 = false → ∃ c', RI src s'.r c' ∧ PadOK c' ∧ StableL src root s' ∧ s'.pc.opened = [] ∧
        Inv src (c'.p : Int) s' ∧ c'.pad = 0) := by
  intro fuel
  induction fuel with
  | zero => intro bl s c x s' _ _ _ _ _ h; unfold linesLoop at h; cases h
  | succ fuel ih =>
    intro bl s c x s' hri hpad hst hinv hp0 h
    unfold linesLoop at h
    obtain ⟨pc, s0, h0, k0⟩ := obind_ok h
    obtain ⟨hpc, hs0⟩ := ogetPc_ok h0
    subst s0
    subst pc
    dsimp only at k0
    split at k0
    · next hl =>
      obtain ⟨hx, hs⟩ := opure_ok k0
      subst s'
      subst x
      refine ⟨(fun h => by cases h), fun _ => ⟨c, hri, hpad, hst, ?_, hinv, hp0⟩⟩
      exact List.length_eq_zero_iff.1 (by simpa using hl)
    · obtain ⟨y, s1, h1, k1⟩ := obind_ok k0
      have hll := (lineLoopL lsp parent hroot s.pc.opened ((s.pc.opened.length : Int) - 1) rfl s.pc.opened [] 0 bl s c
        (by simp) (by simp) rfl hri hpad hst (fun Lk h => by simp at h)).of_ok h1
      obtain ⟨c1, hria1, hst1⟩ := hll
      have hd1 := lineLoop_ord lsp parent hroot s.pc.opened ((s.pc.opened.length : Int) - 1) rfl (c.p : Int)
        s.pc.opened [] 0 bl s c y s1 (by simp) (by simp) rfl hri hpad hst (fun Lk h => by simp at h) hinv (Int.le_refl _)
        (fun hne => absurd hp0 hne) h1
      obtain ⟨outcome, bl1⟩ := y
      cases outcome with
      | eof =>
        dsimp only at k1
        obtain ⟨hx, hs⟩ := opure_ok k1
        subst s'
        subst x
        exact ⟨fun _ => hd1, (fun h => by cases h)⟩
      | next =>
        dsimp only at k1
        obtain ⟨_, s2, h2, k2⟩ := obind_ok k1
        have e2 : s2 = { s1 with r := s1.r.advanceLine } := by cases h2; rfl
        subst s2
        exact ih bl1 _ _ x s' (advanceLine_ria hria1) (padOK_advanceLine c1) (hst1.congr_r _) (dirty_next hd1 hria1) rfl k2

omit lsp in
/-- `SkipBlankLines` only moves the cursor forward -/
theorem skipBlankLines_mono : ∀ (fuel : Nat) (lines : Int) (r : Reader) (c : RCur) (x : Segment × Int × Bool) (r' : Reader),
    RI src r c → PadOK c → skipBlankLines readerOps fuel lines r = .ok (x, r') →
    ∃ c', RI src r' c' ∧ PadOK c' ∧ c.p ≤ c'.p ∧ (c.pad = 0 → c'.pad = 0) := by
  intro fuel
  induction fuel with
  | zero => intro _ _ _ _ _ _ _ h; cases h
  | succ fuel ih =>
    intro lines r c x r' hri hpad h
    obtain ⟨r1, e1, h1⟩ := ri_peekLine hri
    unfold skipBlankLines at h
    simp only [readerOps, e1, bind, Except.bind, pure, Except.pure] at h
    cases hv : RCur.view src c with
    | none =>
      rw [hv] at h
      simp only [] at h
      cases h
      exact ⟨c, h1, hpad, Nat.le_refl _, fun h => h⟩
    | some l =>
      rw [hv] at h
      simp only [] at h
      by_cases hb : isBlank l = true
      · rw [if_pos hb] at h
        obtain ⟨c', a1, a2, a3, a4⟩ := ih (lines + 1) r1.advanceLine _ x r' (ri_advanceLine h1) (padOK_advanceLine c) h
        refine ⟨c', a1, a2, ?_, fun _ => a4 rfl⟩
        have := lineEnd_ge src hri.inRange
        have e : (RCur.advanceLine src c).p = lineEnd src c.p := rfl
        omega
      · rw [if_neg hb] at h
        cases h
        exact ⟨c, h1, hpad, Nat.le_refl _, fun h => h⟩

/-- the outer loop of parseBlocks (parser.go:1055-1127) -/
theorem blocksLoop_ord {root : Nat} (parent : Nat) (hroot : parent = root) :
    ∀ (fuel : Nat) (bl : List LineStat) (s : St) (c : RCur) (s' : St), RI src s.r c → PadOK c → StableL src root s →
      s.pc.opened = [] → Inv src (c.p : Int) s → c.pad = 0 → blocksLoop parent fuel bl s = .ok ((), s') →
      ∃ E, Inv src E s' := by
  intro fuel
  induction fuel with
  | zero => intro _ _ _ _ _ _ _ _ _ _ h; unfold blocksLoop at h; cases h
  | succ fuel ih =>
    intro bl s c s' hri hpad hst hemp hinv hp0 h
    unfold blocksLoop at h
    obtain ⟨y, s1, h1, k1⟩ := obind_ok h
    -- SkipBlankLines
    have hskip : ∃ r1 c1, s1 = { s with r := r1 } ∧ RI src r1 c1 ∧ PadOK c1 ∧ c.p ≤ c1.p ∧ c1.pad = 0 := by
      unfold skipBlankLinesR at h1
      cases hsk : skipBlankLines readerOps (loopFuel s.r.source) 0 s.r with
      | error e => rw [hsk] at h1; simp [bind, Except.bind] at h1
      | ok p =>
        rw [hsk] at h1
        simp only [bind, Except.bind, pure, Except.pure] at h1
        cases h1
        obtain ⟨c1, a1, a2, a3, a4⟩ := skipBlankLines_mono (src := src) _ _ _ c p.1 p.2 hri hpad hsk
        exact ⟨p.2, c1, rfl, a1, a2, a3, a4 hp0⟩
    obtain ⟨r1, c1, hs1, hri1, hpad1, hle1, hp1⟩ := hskip
    subst s1
    obtain ⟨seg, lines, ok⟩ := y
    have hst1 := hst.congr_r r1
    have hinv1 : Inv src (c1.p : Int) { s with r := r1 } := (hinv.mono (by omega)).congr_r r1
    dsimp only at k1
    split at k1
    · obtain ⟨_, hs⟩ := opure_ok k1
      subst s'
      exact ⟨_, hinv1⟩
    · obtain ⟨pos, s2, h2, k2⟩ := obind_ok k1
      have e2 : s2 = { s with r := r1 } := by cases h2; rfl
      subst s2
      obtain ⟨pc, s3, h3, k3⟩ := obind_ok k2
      obtain ⟨hpc, e3⟩ := ogetPc_ok h3
      subst s3
      subst pc
      dsimp only at k3
      obtain ⟨res, s4, h4, k4⟩ := obind_ok k3
      have hcl : Call ({ s with r := r1 } : St).pc.opened [] := ⟨⟨s.pc.opened, by simp, fun h b hb => by
        rw [show ({ s with r := r1 } : St).pc.opened = s.pc.opened from rfl, hemp] at hb; cases hb⟩⟩
      have hkroot : (nd ({ s with r := r1 } : St) parent).kind ≠ .list := by
        rw [hroot, hst1.ls.rootKind]; decide
      have hob := (openBlocksL lsp [] parent _ { s with r := r1 } c1 hri1 hpad1 hst1 hcl (by rw [hroot]; rfl)
        (fun hk => absurd hk hkroot)).of_ok h4
      obtain ⟨c2, new2, hria2, _, hw2, hleafy2, _, _, hend2, _⟩ := hob
      have hop2 : s4.pc.opened = new2 := by
        rcases hw2.shape with e | ⟨h, _, _⟩
        · rw [e]; show s.pc.opened ++ new2 = new2; rw [hemp]; rfl
        · exact absurd hemp h
      have hst2 : StableL src root s4 :=
        ⟨hw2.nodes, hw2.keys, hw2.blocks, by rw [hop2]; exact hleafy2, hw2.ls, by rw [hop2]; simpa using hw2.chain,
          by rw [hop2]; simpa using hend2⟩
      have hd4 := openBlocks_ord (src := src) (c1.p : Int) parent _ { s with r := r1 } c1 res s4
        ⟨hinv1, hri1, hpad1, Int.le_refl _, fun hne => absurd hp1 hne⟩ h4
      split at k4
      · obtain ⟨_, hs⟩ := opure_ok k4
        subst s'
        obtain ⟨E, hE, _⟩ := hd4
        exact ⟨E, hE⟩
      · obtain ⟨_, s5, h5, k5⟩ := obind_ok k4
        have e5 : s5 = { s4 with r := s4.r.advanceLine } := by cases h5; rfl
        subst s5
        obtain ⟨z, s6, h6, k6⟩ := obind_ok k5
        have hri5 := advanceLine_ria hria2
        have hpad5 := padOK_advanceLine (src := src) c2
        have hst5 := hst2.congr_r s4.r.advanceLine
        have hinv5 := dirty_next hd4 hria2
        obtain ⟨q1, q2⟩ := linesLoop_ord lsp parent hroot fuel _ _ _ z s6 hri5 hpad5 hst5 hinv5 rfl h6
        obtain ⟨ret, bl3⟩ := z
        dsimp only at k6
        split at k6
        · next hret =>
          obtain ⟨_, hs⟩ := opure_ok k6
          subst s'
          obtain ⟨E, hE, _⟩ := q1 hret
          exact ⟨E, hE⟩
        · next hret =>
          obtain ⟨c3, hri3, hpad3, hst3, hemp3, hinv3, hp3⟩ := q2 (by simpa using hret)
          exact ih bl3 s6 c3 s' hri3 hpad3 hst3 hemp3 hinv3 hp3 k6

/-- **the order clause, for every source**: when the block phase ends normally, in the final store the lines of every
    block that is not raw increase -/
theorem run_ordered_aux (s : St) (h : run src = .ok s) : ∃ E, Inv src E s := by
  unfold run parseBlocks at h
  have hnd0 : ∀ i, nd ({ (initSt src) with pc := { (initSt src).pc with opened := [] } } : St) i =
      if i = 0 then { kind := .document } else default := by
    intro i
    cases i with
    | zero => rfl
    | succ n => rfl
  have hnodes0 : NodesOK src { (initSt src) with pc := { (initSt src).pc with opened := [] } } := by
    intro n hn
    simp only [initSt, List.mem_singleton] at hn
    subst hn
    exact ⟨by intro t ht; simp at ht, fun _ => rfl⟩
  have hinit : StableL src 0 { (initSt src) with pc := { (initSt src).pc with opened := [] } } := by
    refine ⟨hnodes0, ⟨?_, ?_⟩, ?_, ?_, ⟨⟨?_, ?_, ?_⟩, ?_, ?_, ?_, ?_, ?_⟩, ?_, ?_⟩
    · intro t h; simp [initSt] at h
    · intro f h; simp [initSt] at h
    · intro b hb; simp at hb
    · intro b hb; simp at hb
    · intro i lc hk; rw [hnd0] at hk; split at hk <;> cases hk
    · intro i hk; rw [hnd0] at hk; split at hk <;> cases hk
    · intro i p hp; rw [hnd0] at hp; split at hp <;> cases hp
    · intro i p hp; rw [hnd0] at hp; split at hp <;> cases hp
    · rw [hnd0]; rfl
    · simp [initSt]
    · intro b hb; simp at hb
    · simp
    · trivial
    · show (nd _ (lastNode 0 [])).kind ≠ .list
      rw [lastNode_nil, hnd0]; decide
  have hinv0 : Inv src ((RCur.init).p : Int) { (initSt src) with pc := { (initSt src).pc with opened := [] } } := by
    refine ⟨fun i => ?_, fun i hk => ?_, fun i hk => ?_, fun t ht => ?_, fun b hb => ?_, hnodes0⟩
    · rw [hnd0]; split
      · exact NodeB.nil _ rfl
      · exact NodeB.nil _ rfl
    · rw [hnd0] at hk; split at hk <;> cases hk
    · rw [hnd0] at hk; split at hk <;> cases hk
    · simp [initSt] at ht
    · simp at hb
  simp only [bind, StateT.bind, modPc, source, Except.bind, pure, StateT.pure, Except.pure] at h
  cases hb : blocksLoop 0 (linesFuel (initSt src).r.source) []
      { r := (initSt src).r, nodes := (initSt src).nodes, pc := { (initSt src).pc with opened := [] } } with
  | error e => rw [hb] at h; cases h
  | ok p =>
    rw [hb] at h
    obtain ⟨u, s1⟩ := p
    have hs : s1 = s := by simpa [Except.map] using h
    subst hs
    exact blocksLoop_ord lsp 0 rfl (linesFuel (initSt src).r.source) []
      { (initSt src) with pc := { (initSt src).pc with opened := [] } } RCur.init s1 (ri_init src)
      (fun h => absurd rfl h) hinit rfl hinv0 rfl hb

end run

end L

/-- **C05(c), order clause, for every byte string**: in the final store of the block phase the line segments of every
    block that is not raw (everything but CodeBlock, FencedCodeBlock, HTMLBlock — in particular every Paragraph, Heading
    and TextBlock, the blocks the inline phase reads) increase: the first starts at or behind 0 and each next one
    starts at or behind the previous stop. -/
theorem run_ordered (src : Bytes) (s : St) (h : run src = .ok s) :
    ∀ n ∈ s.nodes, isRaw n.kind = false → OrdFrom 0 n.lines := by
  obtain ⟨E, hE⟩ := L.run_ordered_aux (lsp_all src) s h
  intro n hn hr
  obtain ⟨i, _, rfl⟩ := mem_nodes_nd hn
  exact ((hE.nrb i).1 hr).1

/-- **C05(c), order clause for the three raw kinds, for every byte string**: in the final store the line segments of
    every CodeBlock, FencedCodeBlock and HTMLBlock increase as well. -/
theorem run_ordered_raw (src : Bytes) (s : St) (h : run src = .ok s) :
    ∀ n ∈ s.nodes, isRaw n.kind = true → OrdFrom 0 n.lines := by
  obtain ⟨E, hE⟩ := L.run_ordered_aux (lsp_all src) s h
  intro n hn hr
  obtain ⟨i, _, rfl⟩ := mem_nodes_nd hn
  exact ((hE.nrb i).2.1 hr).1

/-- **Document, Blockquote, List, ListItem and ThematicBreak nodes carry no lines**, for every byte string: in the final
    store of the block phase their line lists are empty (no parser ever appends to them). -/
theorem run_no_lines (src : Bytes) (s : St) (h : run src = .ok s) :
    ∀ n ∈ s.nodes, noLinesKind n.kind = true → n.lines = [] := by
  obtain ⟨E, hE⟩ := L.run_ordered_aux (lsp_all src) s h
  intro n hn hr
  obtain ⟨i, _, rfl⟩ := mem_nodes_nd hn
  exact (hE.nrb i).2.2 hr

/-- **every segment of a non-raw block is non-empty and has no ForceNewline, for every byte string** -/
theorem run_segs_nonempty (src : Bytes) (s : St) (h : run src = .ok s) :
    ∀ n ∈ s.nodes, isRaw n.kind = false → ∀ t ∈ n.lines, t.start < t.stop ∧ t.forceNewline = false := by
  obtain ⟨E, hE⟩ := L.run_ordered_aux (lsp_all src) s h
  intro n hn hr
  obtain ⟨i, _, rfl⟩ := mem_nodes_nd hn
  exact ((hE.nrb i).1 hr).2.2

/-- **the lines of every non-raw block that has lines are well formed** (`WFSegs`, GM.Spec.Cursor: a non-empty list of
    non-empty segments inside the source that increase, padding ≥ 0, no ForceNewline) — what
    `GM.LinkRef.guardedTransform` checks and, up to `padding = 0`, what the inline phase assumes. For every byte string. -/
theorem run_wfsegs (src : Bytes) (s : St) (h : run src = .ok s) :
    ∀ n ∈ s.nodes, isRaw n.kind = false → n.lines ≠ [] → WFSegs src n.lines := by
  intro n hn hr hne
  have hok := (nodesOK_of_run h n hn).lines
  have hseg := run_segs_nonempty src s h n hn hr
  exact ⟨hne, (wfSegsFrom_iff src n.lines 0).2 ⟨run_ordered src s h n hn hr, fun t ht =>
    ⟨(hseg t ht).1, (hok t ht).2.2.1, (hok t ht).2.2.2, (hseg t ht).2⟩⟩⟩

end GM.Blocks
