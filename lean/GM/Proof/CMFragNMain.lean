/-
  GM.Proof.CMFragNMain — stage 14: a stage-6 document (or a document of the union fragment) inside `k` NESTED block
  quotes, for every `k`: quotesim2's simulation `run_sim` iterated. `Rep X b m`: node `m` of the run on `X` represents
  the block `b` (its lines lie somewhere in `X`, in order); it holds for the closed nodes of the fragment's own run
  (`rep_base`) and is kept by every further quote level (`rep_step`); `docTree` reads a representing node as the block
  (`RepDT`).
-/
import GM.Proof.CMFragNSeg
import GM.Proof.CMFragNTree
import GM.Proof.CMFragNDefs
import GM.Proof.CMFrag13Quote

namespace GM.Proof.CMFrag
open GM GM.Text GM.Blocks GM.Spec

/-- node `m` of the run on `X` represents the block `b` -/
def Rep (X : Bytes) : Raw5 → Blocks.Node → Prop
  | .old (.para ls), m => m.kind = .paragraph ∧ ∃ ps, m.lines = paraSegsG ps ls ∧ LinesAtG X ps ls
  | .old (.atx level l), m =>
    m.kind = .heading ∧ m.level = (level : Int) ∧ ∃ A : Nat, m.lines = paraSegsG [A] [l] ∧ LinesAtG X [A] [l]
  | .old (.hr _), m => m.kind = .thematicBreak ∧ m.lines = []
  | .fence _ _ info ls, m =>
    m.kind = .fencedCodeBlock ∧ NatSegs X m.lines ∧ GM.Convert.segValues X m.lines = .ok (ls.map (· ++ [10])) ∧
      (if info.isEmpty then m.info = none
       else ∃ t, m.info = some t ∧ NatSegs X [t] ∧ t.value X = .ok info)
  | .icode _, _ => False          -- indented code blocks are not covered inside block quotes

/-- what the block phase needs beyond `Good5` for the transport: no line of a paragraph / heading is empty -/
def LinesNE : Raw5 → Prop
  | .old (.para ls) => ∀ l ∈ ls, l ≠ []
  | .old (.atx _ l) => l ≠ []
  | _ => True

theorem linesNE_of_good (b : Raw5) (h : Good5 b) : LinesNE b := by
  cases b with
  | old b' =>
    cases b' with
    | para ls => exact fun l hl => blkLine_ne (h.2 l hl)
    | atx level l => exact blkLine_ne h.2.2.1
    | hr x => trivial
  | fence fc n info ls => trivial
  | icode ls => trivial

/-- the closed node of a block of the fragment's own run represents the block -/
theorem rep_base {S : Bytes} (b : Raw5) (p : Nat) (bk : Bool) (hg : Good5 b) (hnic : isIcB b = false)
    (hno : ∀ l ∈ lines5 b, ∀ c ∈ l, c ≠ 10)
    (h : ParaAt S p (lines5 b)) (hp : p ≤ S.length) : Rep S b (node5 p b bk) := by
  cases b with
  | icode ls => exact absurd hnic (by simp [isIcB])
  | old b' =>
    cases b' with
    | hr x => exact ⟨rfl, rfl⟩
    | para ls =>
      have hpa : ParaAt S p ls := by simpa [lines5, lines4] using h
      have hl := linesAtE_of_paraAtLfE ls p hpa
      exact ⟨rfl, contigG p ls, by simp [node5, node4, paraN, paraSegsG_contigG], linesAtG_contigG ls p hl⟩
    | atx level l =>
      obtain ⟨h1, h6, hb, _⟩ := hg
      obtain ⟨pre0, post, hsrc, hpre0⟩ := paraAt_decomp _ p h hp
      have hnl := hb.noNl
      have hsrc' : S = (pre0 ++ List.replicate level 35 ++ [32]) ++ (l ++ 10 :: post) := by
        rw [hsrc]; simp [lines5, lines4, paraBytes]
      have hlen : (pre0 ++ List.replicate level 35 ++ [32]).length = p + level + 1 := by simp [hpre0]; omega
      have hln := Ln.of_append (pre0 ++ List.replicate level 35 ++ [32]) l post hnl
      rw [← hsrc', hlen] at hln
      have hle := hln.le
      have hsub : sub S (p + level + 1) (p + level + 1 + l.length) = l :=
        sub_prefix S (p + level + 1) l.length l 10 rfl hln.sub
      refine ⟨rfl, rfl, p + level + 1, ?_, hsub, by omega⟩
      simp [node5, node4, headN, paraSegsG, sg]
  | fence fc n info ls =>
    obtain ⟨hl0, hrest⟩ := h
    have elen : (List.replicate (n + 3) fc ++ info).length = n + 3 + info.length := by simp
    rw [elen] at hl0 hrest
    have e1 : p + n + 3 + info.length + 1 = p + (n + 3 + info.length) + 1 := by omega
    have hshape := csegs_shape ls [List.replicate (n + 3) fc] (p + (n + 3 + info.length) + 1) hrest
    have hsv := segValues_csegs ls [List.replicate (n + 3) fc] (p + (n + 3 + info.length) + 1) hrest
    rw [← e1] at hshape hsv
    have hle := hl0.le
    refine ⟨rfl, hshape, hsv, ?_⟩
    by_cases hi : info = []
    · subst hi; simp [node5, fenceN]
    · have hie : info.isEmpty = false := by cases info with
        | nil => exact absurd rfl hi
        | cons a t => rfl
      have hpos : 0 < info.length := by cases info with
        | nil => exact absurd rfl hi
        | cons a t => simp
      have hsub : sub S (p + n + 3) (p + (n + 3 + info.length) + 1) = info ++ [10] := by
        have := sub_drop_prefix S p (p + (n + 3 + info.length) + 1) (List.replicate (n + 3) fc) (info ++ [10])
          (by rw [hl0.sub]; simp) (by simp; omega)
        simpa [Nat.add_assoc] using this
      have hinfo : sub S (p + n + 3) (p + n + 3 + info.length) = info :=
        sub_prefix S (p + n + 3) info.length info 10 rfl (by
          have e2 : p + n + 3 + info.length + 1 = p + (n + 3 + info.length) + 1 := by omega
          rw [e2]; exact hsub)
      have hval : (sg (p + n + 3) (p + n + 3 + info.length)).value S = .ok info :=
        seg_value_nat S (p + n + 3) (p + n + 3 + info.length) false info hinfo (by omega) (by omega) (fun h => by cases h)
      simp only [hie, Bool.false_eq_true, if_false, node5, fenceN]
      refine ⟨_, rfl, ?_, hval⟩
      intro s hs
      simp only [List.mem_singleton] at hs
      subst hs
      exact ⟨p + n + 3, p + n + 3 + info.length, false, rfl, by omega, by omega⟩

/-- one more quote level keeps the representation -/
theorem rep_step {X : Bytes} (b : Raw5) (hne : LinesNE b) (m m' : Blocks.Node) (h : Rep X b m)
    (hr : NodeRel X false m m') : Rep (quotePrefix X) b m' := by
  have hk := hr.kind
  have hli := hr.lines
  simp only [Bool.false_eq_true, if_false] at hk
  cases b with
  | icode ls => exact h.elim
  | old b' =>
    cases b' with
    | hr x =>
      obtain ⟨h1, h2⟩ := h
      rw [h2] at hli
      exact ⟨by rw [hk, h1], segsRel_nil hli⟩
    | para ls =>
      obtain ⟨h1, ps, h2, h3⟩ := h
      rw [h2] at hli
      obtain ⟨ps', hL, hG⟩ := segsRel_paraG_N ls ps m'.lines h3 hne hli
      exact ⟨by rw [hk, h1], ps', hL, hG⟩
    | atx level l =>
      obtain ⟨h1, h2, A, h3, h4⟩ := h
      rw [h3] at hli
      have hne' : l ≠ [] := hne
      obtain ⟨ps', hL, hG⟩ := segsRel_paraG_N [l] [A] m'.lines h4 (by simpa using hne') hli
      have : ∃ A', ps' = [A'] := by
        cases ps' with
        | nil => simp [LinesAtG] at hG
        | cons a t =>
          cases t with
          | nil => exact ⟨a, rfl⟩
          | cons _ _ => simp [LinesAtG] at hG
      obtain ⟨A', rfl⟩ := this
      exact ⟨by rw [hk, h1], by rw [hr.level, h2], A', hL, hG⟩
  | fence fc n info ls =>
    obtain ⟨h1, h2, h3, h4⟩ := h
    have hin := hr.info
    refine ⟨by rw [hk, h1], natSegs_imageN _ _ hli h2, by rw [segsRel_valuesQ _ _ hli h2, h3], ?_⟩
    by_cases hi : info.isEmpty = true
    · simp only [hi, if_true] at h4 ⊢
      rw [h4] at hin
      cases hx : m'.info with
      | none => rfl
      | some s => rw [hx] at hin; exact hin.elim
    · simp only [hi, Bool.false_eq_true, if_false] at h4 ⊢
      obtain ⟨t, ht, hts, htv⟩ := h4
      rw [ht] at hin
      cases hx : m'.info with
      | none => rw [hx] at hin; exact hin.elim
      | some s =>
        rw [hx] at hin
        exact ⟨s, rfl, natSeg_imageN hin hts, by rw [segRel_valueN hin hts, htv]⟩

/-- `docTree` reads every node that represents block `b` as the node `n` -/
def RepDT (env : GM.Inl.Env) (b : Raw5) (n : GM.Node) : Prop :=
  ∀ (X : Bytes) (m : Blocks.Node), Rep X b m → m.children = [] →
    GM.Convert.docTree true env X (.node m []) = .ok n

theorem repDT_para (env : GM.Inl.Env) (ls : List Bytes) (hne : ls ≠ []) (hb : ∀ l ∈ ls, BlkLine l)
    (ns : List GM.Node) (hin : ParaDTG env ls ns) : RepDT env (.old (.para ls)) (.mk .paragraph none ns) := by
  obtain ⟨kidsAt, hpb, hit⟩ := hin
  intro X m h _
  obtain ⟨hk, ps, hL, hG⟩ := h
  exact docTree_linesQ env ls ps m .paragraph hL (by rw [hk]; rfl)
    (by simp [GM.Convert.blockKind, hk, pure, Except.pure]) hne (fun l hl => blkLine_ne (hb l hl)) hG _ ns
    (hpb _ ps hG) (hit _ ps hG)

theorem repDT_atx (env : GM.Inl.Env) (level : Nat) (l : Bytes) (hb : BlkLine l) (ns : List GM.Node)
    (hin : ParaDTG env [l] ns) : RepDT env (.old (.atx level l)) (.mk (.heading level) none ns) := by
  obtain ⟨kidsAt, hpb, hit⟩ := hin
  intro X m h _
  obtain ⟨hk, hlv, A, hL, hG⟩ := h
  exact docTree_linesQ env [l] [A] m (.heading level) hL (by rw [hk]; rfl)
    (by simp [GM.Convert.blockKind, hk, hlv, pure, Except.pure]) (by simp) (by simpa using blkLine_ne hb) hG _ ns
    (hpb _ [A] hG) (hit _ [A] hG)

theorem repDT_hr (env : GM.Inl.Env) (x : Bytes) : RepDT env (.old (.hr x)) (.mk .thematicBreak none []) := by
  intro X m h _
  obtain ⟨hk, hl⟩ := h
  simp only [GM.Convert.docTree, GM.Convert.docTrees, GM.Convert.inlinePhase, hk, hl, GM.Convert.isRawKind,
    GM.Convert.inlineTrees, GM.Convert.liftErr, GM.Convert.blockKind, List.isEmpty_nil, bind, Except.bind, pure,
    Except.pure]
  simp [GM.Convert.inlineTrees, pure, Except.pure]

theorem repDT_fence (env : GM.Inl.Env) (fc : UInt8) (n : Nat) (info : Bytes) (ls : List Bytes) :
    RepDT env (.fence fc n info ls) (rawNode5 (.fence fc n info ls)) := by
  intro X m h _
  obtain ⟨hk, _, hv, hi⟩ := h
  by_cases hie : info.isEmpty = true
  · simp only [hie, if_true] at hi
    simp only [GM.Convert.docTree, GM.Convert.docTrees, GM.Convert.inlinePhase, hk, GM.Convert.isRawKind,
      GM.Convert.inlineTrees, GM.Convert.liftErr, GM.Convert.blockKind, hi, hv, hie, if_true,
      bind, Except.bind, pure, Except.pure, rawNode5]
    simp [GM.Convert.inlineTrees, pure, Except.pure]
  · simp only [hie, Bool.false_eq_true, if_false] at hi
    obtain ⟨t, ht, _, htv⟩ := hi
    simp only [GM.Convert.docTree, GM.Convert.docTrees, GM.Convert.inlinePhase, hk, GM.Convert.isRawKind,
      GM.Convert.inlineTrees, GM.Convert.liftErr, GM.Convert.blockKind, ht, htv, hv, hie, Bool.false_eq_true, if_false,
      bind, Except.bind, pure, Except.pure, rawNode5]
    simp [GM.Convert.inlineTrees, pure, Except.pure]

end GM.Proof.CMFrag
