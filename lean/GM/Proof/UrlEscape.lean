/-
  GM.Proof.UrlEscape — laws of util.URLEscape (model: GM.urlEscapeLoop / urlCopies / urlEscapeRaw).
-/
import GM.Model.Util
import GM.Spec.UrlEsc
import GM.Proof.Utf8

namespace GM.Proof
open GM GM.Spec

/-! ### byte facts (all by exhaustive kernel evaluation over the 256 bytes) -/

theorem isHex_eq_spec : ∀ c : UInt8, isHex c = isHexDigit c := by
  apply forall_uint8; decide +kernel

theorem isHex_urlSafe : ∀ c : UInt8, isHex c = true → urlSafe c = true := by
  apply forall_uint8; decide +kernel

theorem qeByte_cases : ∀ c : UInt8,
    (qeByte c = [c] ∧ urlSafe c = true) ∨ (qeByte c = [43]) ∨
    (qeByte c = [37, upperHex (c >>> 4), upperHex (c &&& 15)] ∧
      isHex (upperHex (c >>> 4)) = true ∧ isHex (upperHex (c &&& 15)) = true) := by
  apply forall_uint8; decide +kernel

/-- the bytes the escaping loop may leave in its output, apart from `%` -/
def keptByte (c : UInt8) : Bool := urlSafe c || utf8len c == 99

theorem keptByte_clean : ∀ c : UInt8, (keptByte c || c ≥ 128 || c == 37) = true → urlCleanByte c = true := by
  apply forall_uint8; decide +kernel

theorem keptByte_ne_pct : ∀ c : UInt8, (keptByte c || c ≥ 128) = true → (c != 37) = true := by
  apply forall_uint8; decide +kernel

theorem urlSafe_ascii : ∀ c : UInt8, urlSafe c = true → c < 128 := by
  apply forall_uint8; decide +kernel

theorem hex_ascii : ∀ c : UInt8, isHex c = true → c < 128 := by
  apply forall_uint8; decide +kernel

/-! ### the shape of the loop's output -/

def hex2 : Bytes → Bool
  | a :: b :: _ => isHex a && isHex b
  | _ => false

theorem hex2_eq_spec (r : Bytes) : hex2 r = twoHex r := by
  unfold hex2 twoHex; split <;> simp [isHex_eq_spec]

/-- escaped form: every byte is URL-safe, or an invalid UTF-8 leading byte (copied as is), or a `%`
    followed by two hex digits -/
def escForm : Bytes → Bool
  | [] => true
  | c :: r => (keptByte c || (c == 37 && hex2 r)) && escForm r

/-- weak form: additionally allows any byte ≥ 0x80 (the input returned unchanged may contain a lone
    leading byte) -/
def weakForm : Bytes → Bool
  | [] => true
  | c :: r => (keptByte c || c ≥ 128 || (c == 37 && hex2 r)) && weakForm r

theorem escForm_weak (l : Bytes) (h : escForm l = true) : weakForm l = true := by
  induction l with
  | nil => rfl
  | cons c r ih =>
    simp only [escForm, Bool.and_eq_true, Bool.or_eq_true] at h
    simp only [weakForm, Bool.and_eq_true, Bool.or_eq_true]
    exact ⟨h.1.elim (fun h => Or.inl (Or.inl h)) Or.inr, ih h.2⟩

theorem weakForm_clean (l : Bytes) (h : weakForm l = true) : urlBytesClean l = true := by
  induction l with
  | nil => rfl
  | cons c r ih =>
    simp only [weakForm, Bool.and_eq_true, Bool.or_eq_true] at h
    simp only [urlBytesClean, List.all_cons, Bool.and_eq_true]
    refine ⟨keptByte_clean c ?_, ih h.2⟩
    simp only [Bool.or_eq_true]
    rcases h.1 with (h1 | h1) | h1
    · exact Or.inl (Or.inl h1)
    · exact Or.inl (Or.inr h1)
    · exact Or.inr h1.1

theorem weakForm_pct (l : Bytes) (h : weakForm l = true) : pctOK l = true := by
  induction l with
  | nil => rfl
  | cons c r ih =>
    simp only [weakForm, Bool.and_eq_true, Bool.or_eq_true] at h
    simp only [pctOK, Bool.and_eq_true, Bool.or_eq_true]
    refine ⟨?_, ih h.2⟩
    rcases h.1 with h1 | h1
    · left; apply keptByte_ne_pct; simpa using h1
    · right; rw [← hex2_eq_spec]; exact h1.2

theorem escForm_qe_append (x r : Bytes) (h : escForm r = true) : escForm (queryEscape x ++ r) = true := by
  induction x with
  | nil => simpa [queryEscape]
  | cons c x ih =>
    have : queryEscape (c :: x) ++ r = qeByte c ++ (queryEscape x ++ r) := by simp [queryEscape]
    rw [this]
    rcases qeByte_cases c with ⟨h1, h2⟩ | h1 | ⟨h1, h2, h3⟩ <;> rw [h1]
    · simp [escForm, keptByte, h2, ih]
    · simp [escForm, ih, keptByte, urlSafe]
    · simp [escForm, keptByte, hex2, h2, h3, ih, isHex_urlSafe _ h2, isHex_urlSafe _ h3]

theorem pctTriple_some {c : UInt8} {cs : Bytes} {a b : UInt8} {rest : Bytes}
    (h : pctTriple c cs = some (a, b, rest)) :
    c = 37 ∧ cs = a :: b :: rest ∧ isHex a = true ∧ isHex b = true := by
  unfold pctTriple at h
  split at h
  · rename_i hc
    split at h
    · split at h
      · rename_i hh
        cases h
        simp only [Bool.and_eq_true] at hh
        exact ⟨by simpa using hc, rfl, hh.1, hh.2⟩
      · cases h
    · cases h
  · cases h

theorem pctTriple_none {c : UInt8} {cs : Bytes} (h : pctTriple c cs = none) : (c == 37 && hex2 cs) = false := by
  unfold pctTriple at h
  split at h
  · rename_i hc
    split at h
    · split at h
      · cases h
      · rename_i hh; simp [hex2, hh]
    · rename_i hh
      have : hex2 cs = false := by
        unfold hex2; split
        · exact absurd rfl (hh _ _ _)
        · rfl
      simp [this]
  · rename_i hc; simp at hc; simp [hc]

/-- the loop's output is always in escaped form -/
theorem escForm_loop (total : Nat) (l : Bytes) : escForm (urlEscapeLoop total l) = true := by
  fun_induction urlEscapeLoop total l with
  | case1 => rfl
  | case2 c cs h ih => simp [escForm, keptByte, h, ih]
  | case3 c cs h a b rest ht ih =>
    obtain ⟨hc, _, ha, hb⟩ := pctTriple_some ht
    simp [escForm, keptByte, hex2, hc, ha, hb, ih, isHex_urlSafe _ ha, isHex_urlSafe _ hb]
  | case4 c cs h ht h99 ih => simp [escForm, keptByte, h99, ih]
  | case5 c cs h ht h99 hsp ih =>
    simp [escForm, ih, keptByte, urlSafe, hex2, isHex, isNumeric]
  | case6 c cs h ht h99 hsp h0 ih => exact ih
  | case7 c cs h ht h99 hsp h0 hlen ih => exact ih
  | case8 c cs h ht h99 hsp h0 hlen ih => exact escForm_qe_append _ _ ih

theorem escForm_head_absurd {c : UInt8} {cs : Bytes} (h : escForm (c :: cs) = true)
    (hs : ¬urlSafe c = true) (h99 : ¬(utf8len c == 99) = true) (ht : pctTriple c cs = none) : False := by
  simp only [escForm, Bool.and_eq_true, Bool.or_eq_true, keptByte] at h
  have := pctTriple_none ht
  rcases h.1 with (h1 | h1) | h1
  · exact hs h1
  · exact h99 h1
  · simp only [← Bool.and_eq_true] at h1; rw [this] at h1; cases h1

/-- text in escaped form is left alone: the loop never writes -/
theorem escForm_noCopy (total : Nat) (l : Bytes) (h : escForm l = true) : urlCopies total l = false := by
  fun_induction urlCopies total l with
  | case1 => rfl
  | case2 c cs hs ih =>
    simp only [escForm, Bool.and_eq_true] at h; exact ih h.2
  | case3 c cs hs a b rest ht ih =>
    obtain ⟨_, hcs, _, _⟩ := pctTriple_some ht
    subst hcs
    simp only [escForm, Bool.and_eq_true] at h
    exact ih h.2.2.2
  | case4 c cs hs ht h99 ih =>
    simp only [escForm, Bool.and_eq_true] at h; exact ih h.2
  | case5 c cs hs ht h99 hsp => exact (escForm_head_absurd h hs h99 ht).elim
  | case6 c cs hs ht h99 hsp h0 ih => exact (escForm_head_absurd h hs h99 ht).elim
  | case7 c cs hs ht h99 hsp h0 => exact (escForm_head_absurd h hs h99 ht).elim

theorem utf8len_ge_one : ∀ c : UInt8, 1 ≤ utf8len c := by
  apply forall_uint8; decide +kernel

theorem utf8len_gt1 : ∀ c : UInt8, 1 < utf8len c → c ≥ 128 := by
  apply forall_uint8; decide +kernel

/-- an input the loop never writes to is in weak form -/
theorem noCopy_weak (total : Nat) (htot : 1 ≤ total) (l : Bytes) (h : urlCopies total l = false) :
    weakForm l = true := by
  fun_induction urlCopies total l with
  | case1 => rfl
  | case2 c cs hs ih => simp [weakForm, keptByte, hs, ih h]
  | case3 c cs hs a b rest ht ih =>
    obtain ⟨hc, hcs, ha, hb⟩ := pctTriple_some ht
    subst hcs
    simp [weakForm, keptByte, hex2, hc, ha, hb, ih h, isHex_urlSafe _ ha, isHex_urlSafe _ hb]
  | case4 c cs hs ht h99 ih => simp [weakForm, keptByte, h99, ih h]
  | case5 => cases h
  | case6 c cs hs ht h99 hsp h0 ih =>
    have hc : c ≥ 128 := by
      apply utf8len_gt1
      have := utf8len_ge_one c
      split at h0 <;> simp at h0 <;> omega
    simp [weakForm, hc, ih h]
  | case7 => cases h

theorem urlEscapeRaw_weak (v : Bytes) : weakForm (urlEscapeRaw v) = true := by
  unfold urlEscapeRaw
  split
  · exact escForm_weak _ (escForm_loop _ _)
  · rename_i h
    cases v with
    | nil => rfl
    | cons c cs => exact noCopy_weak _ (Nat.succ_le_succ (Nat.zero_le _)) _ (by simpa using h)

theorem urlEscapeRaw_clean (v : Bytes) : urlBytesClean (urlEscapeRaw v) = true :=
  weakForm_clean _ (urlEscapeRaw_weak v)

theorem urlEscapeRaw_pct (v : Bytes) : pctOK (urlEscapeRaw v) = true :=
  weakForm_pct _ (urlEscapeRaw_weak v)

theorem urlEscapeRaw_idem (v : Bytes) : urlEscapeRaw (urlEscapeRaw v) = urlEscapeRaw v := by
  by_cases h : urlCopies v.length v = true
  · have h1 : urlEscapeRaw v = urlEscapeLoop v.length v := by simp [urlEscapeRaw, h]
    rw [h1]
    have := escForm_noCopy (urlEscapeLoop v.length v).length _ (escForm_loop v.length v)
    simp [urlEscapeRaw, this]
  · have h1 : urlEscapeRaw v = v := by simp [urlEscapeRaw, h]
    rw [h1, h1]


/-! ### valid UTF-8 in, pure ASCII out -/

theorem qeByte_ascii : ∀ c : UInt8, (qeByte c).all (· < 128) = true := by
  apply forall_uint8; decide +kernel

theorem queryEscape_ascii (x : Bytes) : isAscii (queryEscape x) = true := by
  induction x with
  | nil => rfl
  | cons c x ih =>
    have : queryEscape (c :: x) = qeByte c ++ queryEscape x := by simp [queryEscape]
    rw [this]; unfold isAscii at *; rw [List.all_append, qeByte_ascii, ih]; rfl

theorem u8run_ascii_cons {c : UInt8} (hc : c < 128) (cs : Bytes) :
    u8run .s0 (c :: cs) = u8run .s0 cs := by
  rw [u8run_cons, u8step_ascii _ _ hc]; rfl

theorem seq_len {cs conts rest : Bytes} {n : Nat} (hcs : cs = conts ++ rest) (hlen : conts.length = n - 1)
    (hall : conts.all isCont = true) :
    ((cs.take (n - 1)).takeWhile isCont).length = n - 1 ∧ cs.drop (n - 1) = rest := by
  subst hcs
  rw [← hlen, List.take_left, List.drop_left]
  refine ⟨?_, rfl⟩
  have : conts.takeWhile isCont = conts := by
    clear hlen
    induction conts with
    | nil => rfl
    | cons x xs ih =>
      simp only [List.all_cons, Bool.and_eq_true] at hall
      simp [List.takeWhile, hall.1, ih hall.2]
  rw [this]

theorem loop_ascii_of_valid (total : Nat) (l : Bytes) (hv : u8run .s0 l = .s0) (hlen : l.length ≤ total) :
    isAscii (urlEscapeLoop total l) = true := by
  fun_induction urlEscapeLoop total l with
  | case1 => rfl
  | case2 c cs h ih =>
    have hc := urlSafe_ascii c h
    rw [u8run_ascii_cons hc] at hv
    simp only [List.length_cons] at hlen
    simp only [isAscii, List.all_cons, hc, Bool.true_and]
    exact ih hv (by omega)
  | case3 c cs h a b rest ht ih =>
    obtain ⟨hc, hcs, ha, hb⟩ := pctTriple_some ht
    subst hc hcs
    have ha' := hex_ascii a ha
    have hb' := hex_ascii b hb
    rw [u8run_ascii_cons (by decide), u8run_ascii_cons ha', u8run_ascii_cons hb'] at hv
    simp only [List.length_cons] at hlen
    have := ih hv (by omega)
    simp only [isAscii, List.all_cons, ha', hb', Bool.true_and] at this ⊢
    simpa using this
  | case4 c cs h ht h99 ih => exact absurd (by simpa using h99) (valid_cons hv).1
  | case5 c cs h ht h99 hsp ih =>
    have hc : c = 32 := by simpa using hsp
    subst hc
    rw [u8run_ascii_cons (by decide)] at hv
    simp only [List.length_cons] at hlen
    have := ih hv (by omega)
    simp only [isAscii, List.all_cons] at this ⊢
    simpa using this
  | case6 c cs h ht h99 hsp h0 ih =>
    obtain ⟨_, conts, rest, hcs, hl, _, _⟩ := valid_cons hv
    have := utf8len_ge_one c
    simp only [List.length_cons, hcs, List.length_append] at hlen
    rw [dif_neg (by omega)] at h0
    simp at h0; omega
  | case7 c cs h ht h99 hsp h0 hgt ih =>
    obtain ⟨_, conts, rest, hcs, hl, _, _⟩ := valid_cons hv
    have := utf8len_ge_one c
    simp only [List.length_cons, hcs, List.length_append] at hlen
    rw [dif_neg (by omega)] at hgt
    simp only [hcs, List.length_append] at hgt; omega
  | case8 c cs h ht h99 hsp h0 hgt ih =>
    obtain ⟨_, conts, rest, hcs, hl, hall, hr⟩ := valid_cons hv
    have := utf8len_ge_one c
    have hle : ¬ utf8len c > total := by
      simp only [List.length_cons, hcs, List.length_append] at hlen; omega
    simp only [dif_neg hle, if_neg hle] at ih ⊢
    obtain ⟨hk, hd⟩ := seq_len hcs hl hall
    rw [hk, hd] at ih
    rw [hk, hd]
    have hr' : rest.length ≤ total := by
      simp only [List.length_cons, hcs, List.length_append] at hlen; omega
    have hq := queryEscape_ascii (c :: List.take (utf8len c - 1) cs)
    have hi := ih hr hr'
    unfold isAscii at *
    rw [List.all_append, hq, hi]; rfl

theorem noCopy_ascii_of_valid (total : Nat) (l : Bytes) (hv : u8run .s0 l = .s0) (hlen : l.length ≤ total)
    (h : urlCopies total l = false) : isAscii l = true := by
  fun_induction urlCopies total l with
  | case1 => rfl
  | case2 c cs hs ih =>
    have hc := urlSafe_ascii c hs
    rw [u8run_ascii_cons hc] at hv
    simp only [List.length_cons] at hlen
    simp only [isAscii, List.all_cons, hc, Bool.true_and]
    exact ih hv (by omega) h
  | case3 c cs hs a b rest ht ih =>
    obtain ⟨hc, hcs, ha, hb⟩ := pctTriple_some ht
    subst hc hcs
    have ha' := hex_ascii a ha
    have hb' := hex_ascii b hb
    rw [u8run_ascii_cons (by decide), u8run_ascii_cons ha', u8run_ascii_cons hb'] at hv
    simp only [List.length_cons] at hlen
    have := ih hv (by omega) h
    simp only [isAscii, List.all_cons, ha', hb', Bool.true_and] at this ⊢
    simpa using this
  | case4 c cs hs ht h99 ih => exact absurd (by simpa using h99) (valid_cons hv).1
  | case5 => cases h
  | case6 c cs hs ht h99 hsp h0 ih =>
    obtain ⟨_, conts, rest, hcs, hl, _, _⟩ := valid_cons hv
    have := utf8len_ge_one c
    simp only [List.length_cons, hcs, List.length_append] at hlen
    rw [dif_neg (by omega)] at h0
    simp at h0; omega
  | case7 => cases h

theorem urlEscapeRaw_ascii_of_valid (v : Bytes) (hv : validUtf8 v = true) : isAscii (urlEscapeRaw v) = true := by
  have hv' : u8run .s0 v = .s0 := by simpa [validUtf8] using hv
  unfold urlEscapeRaw
  split
  · exact loop_ascii_of_valid _ _ hv' (Nat.le_refl _)
  · rename_i h
    exact noCopy_ascii_of_valid _ _ hv' (Nat.le_refl _) (by simpa using h)


/-! ### existing %XX triples are kept -/

theorem takeWhile_take_le (p : UInt8 → Bool) (xs : Bytes) (y : UInt8) (ys : Bytes) (hy : p y = false) :
    ∀ m, ((List.take m (xs ++ y :: ys)).takeWhile p).length ≤ xs.length := by
  induction xs with
  | nil => intro m; cases m <;> simp [List.takeWhile, hy]
  | cons x xs ih =>
    intro m
    cases m with
    | zero => simp
    | succ m =>
      simp only [List.cons_append, List.take_succ_cons, List.takeWhile]
      split
      · simp only [List.length_cons]; have := ih m; omega
      · simp

theorem isCont_pct : isCont 37 = false := by decide
theorem isHex_pct : isHex 37 = false := by decide

/-- scanning `a ++ %xy ++ b`: the triple is copied, and what follows it is scanned on its own -/
theorem loop_keeps_triple (total : Nat) (x y : UInt8) (hx : isHex x = true) (hy : isHex y = true) (b : Bytes) :
    ∀ (n : Nat) (a : Bytes), a.length ≤ n →
      ∃ p, urlEscapeLoop total (a ++ 37 :: x :: y :: b) = p ++ 37 :: x :: y :: urlEscapeLoop total b := by
  intro n
  induction n with
  | zero =>
    intro a ha
    have : a = [] := List.length_eq_zero_iff.mp (by omega)
    subst this
    refine ⟨[], ?_⟩
    have ht : pctTriple 37 (x :: y :: b) = some (x, y, b) := by simp [pctTriple, hx, hy]
    rw [List.nil_append, urlEscapeLoop.eq_2]
    rw [if_neg (by decide)]
    split
    · rename_i a' b' rest heq
      rw [ht] at heq; cases heq; rfl
    · rename_i heq; rw [ht] at heq; cases heq
  | succ n ih =>
    intro a ha
    cases a with
    | nil => exact ih [] (by simp)
    | cons c a' =>
      simp only [List.length_cons] at ha
      have ha' : a'.length ≤ n := by omega
      rw [List.cons_append, urlEscapeLoop.eq_2]
      split
      · obtain ⟨p, hp⟩ := ih a' ha'
        exact ⟨c :: p, by rw [hp]; rfl⟩
      · split
        · rename_i a1 b1 rest heq
          obtain ⟨hc, hcs, h1, h2⟩ := pctTriple_some heq
          match a', ha', hcs with
          | [], _, hcs =>
            simp only [List.nil_append, List.cons.injEq] at hcs
            rw [← hcs.1, isHex_pct] at h1; cases h1
          | [z], _, hcs =>
            simp only [List.cons_append, List.nil_append, List.cons.injEq] at hcs
            rw [← hcs.2.1, isHex_pct] at h2; cases h2
          | z1 :: z2 :: a'', ha'', hcs =>
            simp only [List.cons_append, List.cons.injEq] at hcs
            obtain ⟨p, hp⟩ := ih a'' (by simp only [List.length_cons] at ha''; omega)
            rw [← hcs.2.2, hp]
            exact ⟨c :: a1 :: b1 :: p, rfl⟩
        · split
          · obtain ⟨p, hp⟩ := ih a' ha'
            exact ⟨c :: p, by rw [hp]; rfl⟩
          · split
            · obtain ⟨p, hp⟩ := ih a' ha'
              exact ⟨37 :: 50 :: 48 :: p, by rw [hp]; rfl⟩
            · generalize (if utf8len c > total then total - 1 else utf8len c) = w
              split
              · exact ih a' ha'
              · split
                · exact ih a' ha'
                · generalize hk : ((List.take _ (a' ++ 37 :: x :: y :: b)).takeWhile isCont).length = k
                  have hle : k ≤ a'.length := by
                    rw [← hk]; exact takeWhile_take_le isCont a' 37 _ isCont_pct _
                  rw [List.drop_append_of_le_length hle]
                  obtain ⟨p, hp⟩ := ih (a'.drop k) (by simp; omega)
                  rw [hp]
                  exact ⟨_ ++ p, by rw [List.append_assoc]⟩

theorem urlEscapeRaw_keeps_triple (a b : Bytes) (x y : UInt8) (hx : isHex x = true) (hy : isHex y = true) :
    ∃ p, urlEscapeRaw (a ++ 37 :: x :: y :: b) =
      p ++ 37 :: x :: y ::
        (if urlCopies (a ++ 37 :: x :: y :: b).length (a ++ 37 :: x :: y :: b)
         then urlEscapeLoop (a ++ 37 :: x :: y :: b).length b else b) := by
  unfold urlEscapeRaw
  split
  · exact loop_keeps_triple _ x y hx hy b a.length a (Nat.le_refl _)
  · exact ⟨a, rfl⟩

end GM.Proof
