/-
  GM.Proof.QuoteSimFE5 — helper lemmas for carrying `FE` through the block driver (QuoteSimDriver): the driver's
  `SetBlankPreviousLines` (`mf_modNode`) and `AppendChild` (`bps_appendChild`, `cha_appendChild`), `QE` across
  `Close` of every parser but setext, and "the id an `Open` returns is new" (`bpOpen_new_id`).
-/
import GM.Proof.QuoteSimFE1
import GM.Proof.QuoteSimFE2
import GM.Proof.QuoteSimFE3
import GM.Proof.QuoteSimFE4

namespace GM.Blocks
open GM GM.Text

theorem bps_of_bpn {n n' : List Node} (h : BPn n n') : BPs n n' := by
  intro i
  by_cases hi : i < n.length
  · exact h.2.1 i hi
  · rw [h.2.2 i (Nat.le_of_not_lt hi), node_getD_ge n i (Nat.le_of_not_lt hi)]; rfl

theorem bpn_appendChild (p c : Nat) {s s' : St} {a : Unit} (e : appendChild p c s = .ok (a, s')) :
    BPn s.nodes s'.nodes := bpn_of_keeps (fun n0 => bp_appendChild n0 p c) e

/-- an unreferenced node is in nobody's children list -/
theorem unref_not_child {id : Nat} {nodes : List Node} (h : Unref id nodes) (q : Nat) :
    id ∉ (nodes.getD q default).children := by
  by_cases hq : q < nodes.length
  · have hm : nodes.getD q default ∈ nodes := by
      rw [List.getD_eq_getElem?_getD, List.getElem?_eq_getElem hq]
      exact List.getElem_mem hq
    exact (h.2.2 _ hm).2
  · rw [node_getD_ge nodes q (Nat.le_of_not_lt hq)]
    intro hm
    cases hm

/-! ### the id an `Open` returns is new -/

def LG (L : Nat) : St → Prop := fun s => L ≤ s.nodes.length

theorem lg_benign (L : Nat) : Benign (LG L) where
  noR := ⟨fun _ _ hs => hs⟩
  pc := fun _ _ hs => hs
  mn := fun i f _ => by
    intro s a s' hs h
    cases h
    show L ≤ (s.nodes.set i (f (s.nodes.getD i default))).length
    rw [List.length_set]; exact hs
  nn := fun n _ _ => by
    intro s a s' hs h
    cases h
    show L ≤ (s.nodes ++ [n]).length
    rw [List.length_append]; exact Nat.le_trans hs (Nat.le_add_right _ _)

structure OPN (m : M (Option Nat × PState)) : Prop where
  h : ∀ s a s', m s = .ok (a, s') → ∀ id, a.1 = some id → s.nodes.length ≤ id

theorem OPN.pure_none (st : PState) : OPN (pure (none, st)) :=
  ⟨fun _ _ _ h id hid => by cases h; cases hid⟩

theorem OPN.bind {α} {m0 : M α} {f : α → M (Option Nat × PState)} (hm : ∀ L, Keeps (LG L) m0) (hf : ∀ x, OPN (f x)) :
    OPN (m0 >>= f) := by
  constructor
  intro s a s' h id hid
  obtain ⟨x, s1, e1, e⟩ := bind_inv_u h
  have h1 : s1.nodes.length ≤ id := (hf x).h s1 a s' e id hid
  have h2 : s.nodes.length ≤ s1.nodes.length := hm s.nodes.length s x s1 (Nat.le_refl _) e1
  exact Nat.le_trans h2 h1

theorem OPN.ite {c : Prop} [Decidable c] {a b : M (Option Nat × PState)} (ha : OPN a) (hb : OPN b) :
    OPN (if c then a else b) := by split <;> assumption

theorem OPN.throw (e : Panic) : OPN (throw e) := ⟨fun _ _ _ h => by cases h⟩

theorem OPN.newNode (lit : Node) (g : Nat → M (Option Nat × PState))
    (hg : ∀ id, Ret (g id) (fun a => a.1 = some id)) : OPN (newNode lit >>= g) := by
  constructor
  intro s a s' h id hid
  obtain ⟨n, s4, e4, e⟩ := bind_inv_u h
  cases e4
  have hr' := (hg s.nodes.length).h _ a s' e
  rw [hr'] at hid
  cases hid
  exact Nat.le_refl _

macro "opn_step" : tactic =>
  `(tactic| first
    | with_reducible apply OPN.pure_none
    | ((with_reducible apply OPN.newNode); (intro id; ret))
    | (with_reducible refine OPN.bind (fun L => by have hI := lg_benign L; bn) ?_)
    | with_reducible apply OPN.ite
    | with_reducible apply OPN.throw
    | intro_pi
    | split)

macro "opn" : tactic => `(tactic| repeat' opn_step)

theorem opn_paragraphOpen (p : Nat) : OPN (paragraphOpen p) := by unfold paragraphOpen; opn
theorem opn_thematicOpen (p : Nat) : OPN (thematicOpen p) := by unfold thematicOpen; opn
theorem opn_atxOpen (p : Nat) : OPN (atxOpen p) := by unfold atxOpen; opn
theorem opn_setextOpen (p : Nat) : OPN (setextOpen p) := by unfold setextOpen; opn
theorem opn_codeOpen (p : Nat) : OPN (codeOpen p) := by
  have := @bn_codeTakeLine; unfold codeOpen; opn
theorem opn_fencedOpen (p : Nat) : OPN (fencedOpen p) := by unfold fencedOpen; opn
theorem opn_blockquoteOpen (p : Nat) : OPN (blockquoteOpen p) := by
  have := @bn_blockquoteProcess; unfold blockquoteOpen; opn
theorem opn_htmlOpen (p : Nat) : OPN (htmlOpen p) := by unfold htmlOpen; opn
theorem opn_listOpen (p : Nat) : OPN (listOpen p) := by unfold listOpen; opn
theorem opn_listItemOpen (p : Nat) : OPN (listItemOpen p) := by
  have := @bn_lastOffset; unfold listItemOpen; opn

/-- the node an `Open` returns did not exist before -/
theorem bpOpen_new_id {bp : BP} {p : Nat} {s s' : St} {a : Option Nat × PState}
    (e : bpOpen bp p s = .ok (a, s')) {id : Nat} (hid : a.1 = some id) : s.nodes.length ≤ id := by
  cases bp <;> unfold bpOpen at e
  · exact (opn_setextOpen p).h s a s' e id hid
  · exact (opn_thematicOpen p).h s a s' e id hid
  · exact (opn_listOpen p).h s a s' e id hid
  · exact (opn_listItemOpen p).h s a s' e id hid
  · exact (opn_codeOpen p).h s a s' e id hid
  · exact (opn_atxOpen p).h s a s' e id hid
  · exact (opn_fencedOpen p).h s a s' e id hid
  · exact (opn_blockquoteOpen p).h s a s' e id hid
  · exact (opn_htmlOpen p).h s a s' e id hid
  · exact (opn_paragraphOpen p).h s a s' e id hid

end GM.Blocks
