/-
  GM.Proof.BlocksQuote — `blockquote.process` (parser/blockquote.go:20-40): no panic, and PROGRESS — when it
  answers true the cursor has passed at least one byte of the source (its `>`). This is the block quote's share
  of the contract that the model's retry monitor checks (`retryMeasure`), and of C08's "a container consumes
  exactly its marker".
-/
import GM.Proof.BlocksTotal
import GM.Proof.ReaderFuel

namespace GM.Blocks
open GM GM.Text GM.Spec GM.Proof.Reader

theorem indentWidthGo_bounds (cur : Int) : ∀ (bs : Bytes) (w p : Int),
    p ≤ (indentWidthGo cur bs w p).2 ∧ (indentWidthGo cur bs w p).2 ≤ p + bs.length := by
  intro bs
  induction bs with
  | nil => intro w p; simp [indentWidthGo]
  | cons b bs ih =>
    intro w p
    unfold indentWidthGo
    split
    · have := ih (w + 1) (p + 1); simp only [List.length_cons]; omega
    · split
      · have := ih (w + tabWidthI (cur + w)) (p + 1); simp only [List.length_cons]; omega
      · simp only [List.length_cons]; omega

theorem indentWidthI_bounds (bs : Bytes) (cur : Int) :
    0 ≤ (indentWidthI bs cur).2 ∧ (indentWidthI bs cur).2 ≤ bs.length := by
  have := indentWidthGo_bounds cur bs 0 0
  unfold indentWidthI; omega

theorem idx_ok (l : Bytes) (i : Int) (h0 : 0 ≤ i) (h1 : i < l.length) :
    ∃ b, idx l i = .ok b ∧ l[i.toNat]? = some b := by
  unfold idx getByte
  have hn : ¬ i < 0 := by omega
  rw [if_neg hn]
  have hlt : i.toNat < l.length := by omega
  rw [List.getElem?_eq_getElem hlt]
  exact ⟨_, rfl, rfl⟩

theorem spaces_getElem (k : Nat) (rest : Bytes) (i : Nat) (h : i < k) : (spaces k ++ rest)[i]? = some 32 := by
  unfold spaces
  rw [List.getElem?_append_left (by simpa using h)]
  simp [h]

/-- blockquoteParser.process: total on an `RI` reader; `true` means the cursor moved past a byte -/
theorem blockquoteProcess_okl {src} {s : St} {c : RCur} (h : RI src s.r c) :
    OKL (fun b s' => ∃ r' c', s' = { s with r := r' } ∧ RI src r' c' ∧ c.p ≤ c'.p ∧
        (b = true → c.p < c'.p) ∧ (b = false → c' = c)) (blockquoteProcess s) := by
  unfold blockquoteProcess
  refine OKL.bind (peekLine_okl h) (fun x s1 hx => ?_)
  obtain ⟨hx, r1, hs1, h1⟩ := hx
  subst hx hs1
  simp only
  refine OKL.bind (lineOffset_okl (s := { s with r := r1 }) h1) (fun lo s2 hlo => ?_)
  obtain ⟨_, r2, hs2, h2⟩ := hlo
  subst hs2
  simp only
  generalize hline : (RCur.view src c).getD [] = line
  have hb := indentWidthI_bounds line lo
  generalize hpos : (indentWidthI line lo).2 = pos at hb ⊢
  generalize hw : (indentWidthI line lo).1 = w
  by_cases hc1 : (decide (w > 3) || decide (pos ≥ (line.length : Int))) = true
  · rw [if_pos hc1]
    exact OKL.ok ⟨r2, c, rfl, h2, Nat.le_refl _, (fun hh => by cases hh), fun _ => rfl⟩
  · rw [if_neg hc1]
    have hposlt : pos < line.length := by
      rcases Int.lt_or_le pos line.length with hh | hh
      · exact hh
      · exfalso; apply hc1; simp [hh]
    obtain ⟨b0, hb0, hb0'⟩ := idx_ok line pos hb.1 hposlt
    refine OKL.bind (liftE_okl (P := fun a s' => a = b0 ∧ s' = { s with r := r2 }) hb0 ⟨rfl, rfl⟩) (fun a s3 ha => ?_)
    obtain ⟨ha, hs3⟩ := ha
    subst ha hs3
    by_cases hc2 : (a != 62) = true
    · rw [if_pos hc2]
      exact OKL.ok ⟨r2, c, rfl, h2, Nat.le_refl _, (fun hh => by cases hh), fun _ => rfl⟩
    · rw [if_neg hc2]
      have ha62 : a = 62 := by simpa using hc2
      -- the line is there, and the `>` is behind the padding
      have hp : c.p < src.length := by
        rcases Nat.lt_or_ge c.p src.length with hp | hp
        · exact hp
        · rw [view_none src c (by omega)] at hline
          simp at hline; subst hline; simp at hposlt; omega
      have hpad : (c.pad : Int) ≤ pos := by
        rcases Int.lt_or_le pos c.pad with hlt | hge
        · exfalso
          rw [view_eq src c hp] at hline
          simp only [Option.getD_some] at hline
          subst hline
          have := spaces_getElem c.pad (sub src c.p (lineEnd src c.p)) pos.toNat (by omega)
          rw [this] at hb0'
          cases hb0'
          cases ha62
        · exact hge
      have hadv : 0 ≤ pos + 1 := by omega
      have hprog : c.p < (RCur.advN src (pos + 1).toNat c).p :=
        GM.Proof.Reader.advN_progress src _ c hp (by omega)
      by_cases hc3 : (pos + 1 ≥ (line.length : Int))
      · rw [if_pos (by simpa using hc3)]
        refine OKL.bind (advance_okl (s := { s with r := r2 }) h2 hadv) (fun _ s4 h4 => ?_)
        obtain ⟨r4, hs4, h4⟩ := h4
        subst hs4
        exact OKL.ok ⟨r4, _, rfl, h4, Nat.le_of_lt hprog, fun _ => hprog, (fun hh => by cases hh)⟩
      · rw [if_neg (by simpa using hc3)]
        obtain ⟨b1, hb1, _⟩ := idx_ok line (pos + 1) (by omega) (by omega)
        refine OKL.bind (liftE_okl (P := fun a s' => a = b1 ∧ s' = { s with r := r2 }) hb1 ⟨rfl, rfl⟩) (fun a1 s5 ha1 => ?_)
        obtain ⟨ha1, hs5⟩ := ha1
        subst ha1 hs5
        by_cases hc4 : (a1 == 10) = true
        · rw [if_pos hc4]
          refine OKL.bind (advance_okl (s := { s with r := r2 }) h2 hadv) (fun _ s4 h4 => ?_)
          obtain ⟨r4, hs4, h4⟩ := h4
          subst hs4
          exact OKL.ok ⟨r4, _, rfl, h4, Nat.le_of_lt hprog, fun _ => hprog, (fun hh => by cases hh)⟩
        · rw [if_neg hc4]
          refine OKL.bind (advance_okl (s := { s with r := r2 }) h2 hadv) (fun _ s4 h4 => ?_)
          obtain ⟨r4, hs4, h4⟩ := h4
          subst hs4
          by_cases hc5 : (a1 == 32 || a1 == 9) = true
          · rw [if_pos hc5]
            have hmono : ∀ p : Int, (RCur.advN src (pos + 1).toNat c).p ≤ (advPadCur src 1 p (RCur.advN src (pos + 1).toNat c)).p := by
              intro p
              have := (GM.Proof.Reader.advN_mono src (1 : Int).toNat (RCur.advN src (pos + 1).toNat c) h4.inRange).1
              unfold advPadCur
              simp only
              split <;> simpa using this
            by_cases hc6 : (a1 == 9) = true
            · simp only [hc6, if_true]
              refine OKL.bind (lineOffset_okl (s := { s with r := r4 }) h4) (fun lo2 s6 h6 => ?_)
              obtain ⟨_, r6, hs6, h6⟩ := h6
              subst hs6
              refine OKL.bind (m := Pure.pure (tabWidthI lo2 - 1)) (P := fun a s' => s' = { s with r := r6 }) (OKL.ok rfl) (fun pd s7 h7 => ?_)
              subst h7
              refine OKL.bind (advanceAndSetPadding_okl (s := { s with r := r6 }) h6 (by decide) pd) (fun _ s8 h8 => ?_)
              obtain ⟨r8, hs8, h8⟩ := h8
              subst hs8
              have := hmono pd
              exact OKL.ok ⟨r8, _, rfl, h8, by omega, (fun _ => by omega), (fun hh => by cases hh)⟩
            · simp only [hc6, Bool.false_eq_true, if_false]
              refine OKL.bind (m := Pure.pure (0 : Int)) (P := fun a s' => s' = { s with r := r4 }) (OKL.ok rfl) (fun pd s7 h7 => ?_)
              subst h7
              refine OKL.bind (advanceAndSetPadding_okl (s := { s with r := r4 }) h4 (by decide) pd) (fun _ s8 h8 => ?_)
              obtain ⟨r8, hs8, h8⟩ := h8
              subst hs8
              have := hmono pd
              exact OKL.ok ⟨r8, _, rfl, h8, by omega, (fun _ => by omega), (fun hh => by cases hh)⟩
          · rw [if_neg hc5]
            exact OKL.ok ⟨r4, _, rfl, h4, Nat.le_of_lt hprog, fun _ => hprog, (fun hh => by cases hh)⟩

end GM.Blocks
