/-
  GM.Proof.ShiftSimXLine — the line counter `Reader.line` never decreases during `Open` / `Continue` of a block
  parser, nor during `SkipBlankLines` (which leaves it alone when it skips nothing).
  Calculus: `Keeps (LineGe k)` of GM.Proof.QuoteSimFrame (tactic `lg`, in the style of `kp`).
-/
import GM.Proof.QuoteSimNonePos
import GM.Proof.ShiftSimXCalc

namespace GM.Blocks.Xs
open GM GM.Text GM.Spec GM.Proof.Reader GM.Blocks

/-- the line counter of the reader is at least `k` -/
def LineGe (k : Int) : St → Prop := fun s => k ≤ s.r.line

/-! ### reader level -/

theorem rd_peekLine_line (r r' : Reader) (x : Option Bytes × Segment)
    (h : r.peekLine = .ok (x, r')) : r'.line = r.line := by
  unfold Reader.peekLine at h
  split at h
  · split at h
    · cases h; rfl
    · cases hv : r.pos.value r.source with
      | error e => rw [hv] at h; cases h
      | ok v => rw [hv] at h; cases h; rfl
  · cases h; rfl

theorem rd_lineOffsetOp_line (r r' : Reader) (x : Int)
    (h : r.lineOffsetOp = .ok (x, r')) : r'.line = r.line := by
  unfold Reader.lineOffsetOp at h
  split at h
  · cases hv : colLoop r.source r.head r.pos.start with
    | error e => rw [hv] at h; cases h
    | ok v => rw [hv] at h; cases h; rfl
  · cases h; rfl

theorem rd_advanceLine_line (r : Reader) :
    r.advanceLine.line = r.line ∨ r.advanceLine.line = r.line + 1 := by
  unfold Reader.advanceLine
  simp only
  split
  · exact Or.inl rfl
  · exact Or.inr rfl

theorem rd_advanceLine_le (r : Reader) : r.line ≤ r.advanceLine.line := by
  rcases rd_advanceLine_line r with h | h <;> omega

theorem rd_advanceLoop_line (n : Nat) : ∀ (r r' : Reader), r.advanceLoop n = .ok r' → r.line ≤ r'.line := by
  induction n with
  | zero => intro r r' h; unfold Reader.advanceLoop at h; cases h; exact Int.le_refl _
  | succ n ih =>
    intro r r' h
    unfold Reader.advanceLoop at h
    split at h
    · split at h
      · have := ih _ _ h; exact this
      · cases hv : getByte r.source r.pos.start with
        | error e => rw [hv] at h; cases h
        | ok c =>
          rw [hv] at h
          simp only [bind, Except.bind] at h
          split at h
          · have := ih _ _ h
            have := rd_advanceLine_le r
            omega
          · have := ih _ _ h; exact this
    · cases h; exact Int.le_refl _

theorem rd_advance_line (n : Int) (r r' : Reader) (h : r.advance n = .ok r') : r.line ≤ r'.line := by
  unfold Reader.advance at h
  simp only at h
  split at h <;> split at h <;>
    first
    | (cases h; exact Int.le_refl _)
    | (have := rd_advanceLoop_line _ _ _ h; exact this)

theorem rd_advanceAndSetPadding_line (n p : Int) (r r' : Reader) (h : r.advanceAndSetPadding n p = .ok r') :
    r.line ≤ r'.line := by
  unfold Reader.advanceAndSetPadding at h
  cases ha : r.advance n with
  | error e => rw [ha] at h; cases h
  | ok r1 =>
    rw [ha] at h
    simp only [bind, Except.bind] at h
    have := rd_advance_line n r r1 ha
    split at h
    · cases h; exact this
    · cases h; exact this

/-! ### `M` level -/

section prims
variable {k : Int}

theorem peekLine_lg : Keeps (LineGe k) peekLine := by
  intro s a s' hs h
  unfold peekLine at h
  cases hp : s.r.peekLine with
  | error e => rw [hp] at h; cases h
  | ok p =>
    rw [hp] at h; cases h
    show k ≤ p.2.line
    rw [rd_peekLine_line _ _ _ hp]; exact hs

theorem lineOffset_lg : Keeps (LineGe k) lineOffset := by
  intro s a s' hs h
  unfold lineOffset at h
  cases hp : s.r.lineOffsetOp with
  | error e => rw [hp] at h; cases h
  | ok p =>
    rw [hp] at h; cases h
    show k ≤ p.2.line
    rw [rd_lineOffsetOp_line _ _ _ hp]; exact hs

theorem advance_lg (n : Int) : Keeps (LineGe k) (advance n) := by
  intro s a s' hs h
  unfold advance at h
  cases hp : s.r.advance n with
  | error e => rw [hp] at h; cases h
  | ok p =>
    rw [hp] at h; cases h
    show k ≤ p.line
    have := rd_advance_line _ _ _ hp
    have : k ≤ s.r.line := hs
    omega

theorem advanceAndSetPadding_lg (n p : Int) : Keeps (LineGe k) (advanceAndSetPadding n p) := by
  intro s a s' hs h
  unfold advanceAndSetPadding at h
  cases hp : s.r.advanceAndSetPadding n p with
  | error e => rw [hp] at h; cases h
  | ok q =>
    rw [hp] at h; cases h
    show k ≤ q.line
    have := rd_advanceAndSetPadding_line _ _ _ _ hp
    have : k ≤ s.r.line := hs
    omega

theorem lineGe_noNodes : NoNodes (LineGe k) := ⟨fun _ _ hs => hs⟩

theorem modNode_lg (id : Nat) (f : Node → Node) : Keeps (LineGe k) (modNode id f) :=
  modNode_keeps lineGe_noNodes id f

theorem newNode_lg (n : Node) : Keeps (LineGe k) (newNode n) := newNode_keeps lineGe_noNodes n

theorem appendLine_lg (id : Nat) (seg : Segment) : Keeps (LineGe k) (appendLine id seg) :=
  appendLine_keeps lineGe_noNodes id seg

theorem modPc_lg (f : Ctx → Ctx) : Keeps (LineGe k) (modPc f) := modPc_keeps f fun _ hs => hs

/-- `preserveLeadingTabInCodeBlock` restores the position it read, line counter included -/
theorem preserveLeadingTab_lg (seg : Segment) (ind : Int) : Keeps (LineGe k) (preserveLeadingTab seg ind) := by
  intro s a s' hs h
  unfold preserveLeadingTab at h
  simp only [bind, StateT.bind, GM.Blocks.lineOffset, position, setPosition, Reader.position] at h
  cases hp : s.r.lineOffsetOp with
  | error e => rw [hp] at h; simp [Except.bind] at h
  | ok x =>
    rw [hp] at h
    simp only [Except.bind, Pure.pure, Except.pure, StateT.pure] at h
    have e1 := rd_lineOffsetOp_line _ _ _ hp
    cases hp2 : (x.2.setPosition x.2.line { start := x.2.pos.start - 1, stop := x.2.pos.stop }).lineOffsetOp with
    | error e => rw [hp2] at h; simp at h
    | ok y =>
      rw [hp2] at h
      simp only at h
      cases h
      show k ≤ x.2.line
      rw [e1]; exact hs

end prims

macro "lg_step" : tactic =>
  `(tactic| first
    | with_reducible apply Keeps.pure
    | with_reducible apply Keeps.bind
    | with_reducible apply Keeps.ite
    | with_reducible apply Keeps.throw
    | with_reducible apply getNode_keeps
    | with_reducible apply getPc_keeps
    | with_reducible apply source_keeps
    | with_reducible apply position_keeps
    | with_reducible apply get_keeps
    | with_reducible apply liftE_keeps
    | with_reducible apply lastOpenedBlock_keeps
    | with_reducible apply peekLine_lg
    | with_reducible apply lineOffset_lg
    | with_reducible apply advance_lg
    | with_reducible apply advanceAndSetPadding_lg
    | with_reducible apply preserveLeadingTab_lg
    | with_reducible apply modNode_lg
    | with_reducible apply newNode_lg
    | with_reducible apply appendLine_lg
    | with_reducible apply modPc_lg
    | apply_hyp
    | intro_pi
    | split)

/-- walk over an `M` do block that never lowers `r.line` -/
macro "lg" : tactic => `(tactic| repeat' lg_step)

/-! ### the parsers -/

section parsers
variable (k : Int)

theorem lastOffset_lg (n : Nat) : Keeps (LineGe k) (lastOffset n) := by
  unfold lastOffset; lg

theorem lastChildCount_lg (n : Nat) : Keeps (LineGe k) (lastChildCount n) := by
  unfold lastChildCount; lg

theorem paragraphOpen_lg (p : Nat) : Keeps (LineGe k) (paragraphOpen p) := by
  unfold paragraphOpen; lg

theorem paragraphContinue_lg (n : Nat) : Keeps (LineGe k) (paragraphContinue n) := by
  unfold paragraphContinue; lg

theorem thematicOpen_lg (p : Nat) : Keeps (LineGe k) (thematicOpen p) := by
  unfold thematicOpen; lg

theorem atxOpen_lg (p : Nat) : Keeps (LineGe k) (atxOpen p) := by
  unfold atxOpen; lg

theorem setextOpen_lg (p : Nat) : Keeps (LineGe k) (setextOpen p) := by
  unfold setextOpen; lg

theorem codeTakeLine_lg (n : Nat) (pos padding : Int) : Keeps (LineGe k) (codeTakeLine n pos padding) := by
  unfold codeTakeLine; lg

theorem codeOpen_lg (p : Nat) : Keeps (LineGe k) (codeOpen p) := by
  have := codeTakeLine_lg k
  unfold codeOpen; lg

theorem codeContinue_lg (n : Nat) : Keeps (LineGe k) (codeContinue n) := by
  have := codeTakeLine_lg k
  unfold codeContinue; lg

theorem fencedOpen_lg (p : Nat) : Keeps (LineGe k) (fencedOpen p) := by
  unfold fencedOpen; lg

theorem fencedContinue_lg (n : Nat) : Keeps (LineGe k) (fencedContinue n) := by
  unfold fencedContinue; lg

theorem blockquoteProcess_lg : Keeps (LineGe k) blockquoteProcess := by
  unfold blockquoteProcess; lg

theorem blockquoteOpen_lg (p : Nat) : Keeps (LineGe k) (blockquoteOpen p) := by
  have := blockquoteProcess_lg k
  unfold blockquoteOpen; lg

theorem blockquoteContinue_lg (n : Nat) : Keeps (LineGe k) (blockquoteContinue n) := by
  have := blockquoteProcess_lg k
  unfold blockquoteContinue; lg

theorem listOpen_lg (p : Nat) : Keeps (LineGe k) (listOpen p) := by
  unfold listOpen; lg

theorem listContinue_lg (n : Nat) : Keeps (LineGe k) (listContinue n) := by
  have := lastOffset_lg k
  have := lastChildCount_lg k
  unfold listContinue; lg

theorem listItemOpen_lg (p : Nat) : Keeps (LineGe k) (listItemOpen p) := by
  have := lastOffset_lg k
  unfold listItemOpen; lg

theorem listItemContinue_lg (n : Nat) : Keeps (LineGe k) (listItemContinue n) := by
  have := lastOffset_lg k
  unfold listItemContinue; lg

theorem htmlOpen_lg (p : Nat) : Keeps (LineGe k) (htmlOpen p) := by
  unfold htmlOpen; lg

theorem htmlContinue_lg (n : Nat) : Keeps (LineGe k) (htmlContinue n) := by
  unfold htmlContinue; lg

theorem bpOpen_lg (bp : BP) (p : Nat) : Keeps (LineGe k) (bpOpen bp p) := by
  cases bp <;> unfold bpOpen
  · exact setextOpen_lg k p
  · exact thematicOpen_lg k p
  · exact listOpen_lg k p
  · exact listItemOpen_lg k p
  · exact codeOpen_lg k p
  · exact atxOpen_lg k p
  · exact fencedOpen_lg k p
  · exact blockquoteOpen_lg k p
  · exact htmlOpen_lg k p
  · exact paragraphOpen_lg k p

theorem bpContinue_lg (bp : BP) (n : Nat) : Keeps (LineGe k) (bpContinue bp n) := by
  cases bp <;> unfold bpContinue
  · exact Keeps.pure _
  · exact Keeps.pure _
  · exact listContinue_lg k n
  · exact listItemContinue_lg k n
  · exact codeContinue_lg k n
  · exact Keeps.pure _
  · exact fencedContinue_lg k n
  · exact blockquoteContinue_lg k n
  · exact htmlContinue_lg k n
  · exact paragraphContinue_lg k n

end parsers

/-! ### interface -/

/-- the line counter never decreases during an `Open` -/
theorem bpOpen_line (bp : BP) (parent : Nat) (s s' : St) (a : Option Nat × PState)
    (h : bpOpen bp parent s = .ok (a, s')) : s.r.line ≤ s'.r.line :=
  bpOpen_lg s.r.line bp parent s a s' (Int.le_refl _) h

/-- the line counter never decreases during a `Continue` -/
theorem bpContinue_line (bp : BP) (node : Nat) (s s' : St) (a : PState)
    (h : bpContinue bp node s = .ok (a, s')) : s.r.line ≤ s'.r.line :=
  bpContinue_lg s.r.line bp node s a s' (Int.le_refl _) h

/-- the loop of `SkipBlankLines`: the count grows from `lines`, the line counter grows, and when the count is
    still `lines` no line was skipped -/
theorem skipBlankLines_line : ∀ (fuel : Nat) (lines : Int) (r r' : Reader) (x : Segment × Int × Bool),
    skipBlankLines readerOps fuel lines r = .ok (x, r') →
    r.line ≤ r'.line ∧ lines ≤ x.2.1 ∧ (x.2.1 = lines → r'.line = r.line) := by
  intro fuel
  induction fuel with
  | zero => intro lines r r' x h; unfold skipBlankLines at h; cases h
  | succ fuel ih =>
    intro lines r r' x h
    unfold skipBlankLines at h
    simp only [readerOps] at h
    cases hp : r.peekLine with
    | error e => rw [hp] at h; simp [bind, Except.bind] at h
    | ok p =>
      obtain ⟨⟨line, seg⟩, r1⟩ := p
      have e1 : r1.line = r.line := rd_peekLine_line _ _ _ hp
      rw [hp] at h
      simp only [bind, Except.bind] at h
      cases line with
      | none =>
        simp only [pure, Except.pure] at h
        cases h
        exact ⟨by rw [e1]; exact Int.le_refl _, Int.le_refl _, fun _ => e1⟩
      | some l =>
        simp only at h
        split at h
        · simp only [pure, Except.pure] at h
          obtain ⟨a1, a2, _⟩ := ih (lines + 1) r1.advanceLine r' x h
          have := rd_advanceLine_le r1
          exact ⟨by omega, by omega, fun hx => by omega⟩
        · simp only [pure, Except.pure] at h
          cases h
          exact ⟨by rw [e1]; exact Int.le_refl _, Int.le_refl _, fun _ => e1⟩

/-- SkipBlankLines: the counter grows, and stays when no line was skipped -/
theorem skipBlankLinesR_line (s s' : St) (x : Segment × Int × Bool) (h : skipBlankLinesR s = .ok (x, s')) :
    s.r.line ≤ s'.r.line ∧ (x.2.1 = 0 → s'.r.line = s.r.line) := by
  unfold skipBlankLinesR at h
  cases hp : skipBlankLines readerOps (loopFuel s.r.source) 0 s.r with
  | error e => rw [hp] at h; cases h
  | ok q =>
    rw [hp] at h
    cases h
    obtain ⟨a1, _, a3⟩ := skipBlankLines_line _ _ _ _ _ hp
    exact ⟨a1, a3⟩

end GM.Blocks.Xs
