/-
  GM.Proof.BlocksTNO22 — `TablePost`: what one successful call of the table paragraph transformer that makes a table does
  to the store (`transformPT_post`), for a paragraph `node` below `p` in a store with consistent tree links.
-/
import GM.Proof.BlocksTNO21

namespace GM.Blocks.TO
open GM GM.Text GM.Spec GM.Proof.Reader GM.TableX

/-- the records of the table `t` (without their links) -/
def RecD (src : Bytes) (t : GM.Table.Table) (n : Node) : Prop :=
  n = dataOf { kind := .thematicBreak, htmlType := tagTable, offset := dashAt src } ∨
  n = dataOf { kind := .thematicBreak, htmlType := tagHeader, offset := dashAt src, lines := (t.header.flatMap (·.esc)).map escSeg, linesNil := (t.header.flatMap (·.esc)).isEmpty } ∨
  (∃ r ∈ t.rows, n = dataOf { kind := .thematicBreak, htmlType := tagRow, offset := dashAt src, lines := (r.flatMap (·.esc)).map escSeg, linesNil := (r.flatMap (·.esc)).isEmpty }) ∨
  (∃ r ∈ t.header :: t.rows, ∃ c ∈ r, n = dataOf (cellNode src c))

/-- **the effect of a table-making call** on the paragraph `node` (child of `p`): `lines` = the paragraph's new lines,
    `P` = what holds of the fresh records (links removed) -/
structure TablePost (P : Node → Prop) (node p : Nat) (lines : List Segment) (s s' : St) : Prop where
  r : s'.r = s.r
  pc : s'.pc = s.pc
  len : s.nodes.length < s'.nodes.length
  /-- every other old node keeps everything but (for `p`) its child list -/
  old : ∀ i, i < s.nodes.length → i ≠ node → dataOf (nd s' i) = dataOf (nd s i) ∧ (nd s' i).parent = (nd s i).parent
  kids : ∀ i, i < s.nodes.length → i ≠ p → (nd s' i).children = (nd s i).children
  /-- the paragraph: new lines; detached when none are left -/
  self : nd s' node = { (nd s node) with lines := lines, parent := if lines.isEmpty then none else some p }
  /-- the parent's children: the Table record `s.nodes.length` directly behind the paragraph, the paragraph removed
      when it has no lines left -/
  pkids : ∃ kids, (kids = (nd s p).children ++ [s.nodes.length] ∨
      ∃ v, nextIn node (nd s p).children = some v ∧ kids = insertBeforeIn v s.nodes.length (nd s p).children) ∧
    (nd s' p).children = if lines.isEmpty then kids.erase node else kids
  /-- the fresh records -/
  fresh : ∀ i, s.nodes.length ≤ i → i < s'.nodes.length → P (dataOf (nd s' i))
  tpar : (nd s' s.nodes.length).parent = some p
  fpar : ∀ i q, s.nodes.length < i → (nd s' i).parent = some q → s.nodes.length ≤ q
  tree : TreeOK s'

theorem nd_upd_lt (s : St) {i : Nat} (f : Node → Node) (j : Nat) (h : i < s.nodes.length) :
    nd (upd s i f) j = if i = j then f (nd s i) else nd s j := by
  rw [nd_upd]
  by_cases h1 : i = j
  · rw [if_pos ⟨h1, h⟩, if_pos h1]
  · rw [if_neg (fun hh => h1 hh.1), if_neg h1]

theorem buildTable_post (src : Bytes) {node p : Nat} {para : List GM.Table.Seg} {t : GM.Table.Table} {s s' : St} {a : Unit}
    (htr : TreeOK s) (hp : (nd s node).parent = some p)
    (e : buildTable src node (some p) para t s = .ok (a, s')) :
    TablePost (RecD src t) node p (para.map ofSeg) s s' := by
  have hpn : p < node := htr.par_lt node p hp
  have hnl : node < s.nodes.length := by
    rcases Nat.lt_or_ge node s.nodes.length with h | h
    · exact h
    · rw [nd_default_of_ge s h] at hp; cases hp
  unfold buildTable at e
  obtain ⟨table, s1, h1, k1⟩ := obind_ok e
  obtain ⟨b1, rfl, l1, p1, o1⟩ := (Built.refl (RecD src t) s).newNode rfl rfl (.inl rfl) h1
  obtain ⟨_, s2, h2, k2⟩ := obind_ok k1
  obtain ⟨b2, l2, f2⟩ := b1.addRow src s.nodes.length tagHeader t.header (Nat.le_refl _) (by omega) (.inr (.inl rfl))
    (fun c hc => .inr (.inr (.inr ⟨t.header, List.mem_cons_self .., c, hc, rfl⟩))) h2
  obtain ⟨_, s3, h3, k3⟩ := obind_ok k2
  obtain ⟨b3, l3, f3⟩ := Built.addRows src s.nodes.length t.rows b2 (Nat.le_refl _) (by omega)
    (fun r hr => .inr (.inr (.inl ⟨r, hr, rfl⟩)))
    (fun r hr c hc => .inr (.inr (.inr ⟨r, List.mem_cons_of_mem _ hr, c, hc, rfl⟩))) h3
  have hlen3 : s.nodes.length < s3.nodes.length := by omega
  have htp3 : (nd s3 s.nodes.length).parent = none := by rw [f3 _ (by omega), f2 _ (by omega)]; exact p1
  have ht3 : TreeOK s3 := b3.tree htr
  obtain ⟨_, s4, h4, k4⟩ := obind_ok k3
  have ht4 : TreeOK s4 := ht3.modNode h4 (fun _ => ⟨rfl, rfl⟩)
  rw [modNode_eq] at h4
  cases h4
  dsimp only at k4
  obtain ⟨pn, s5, h5, k5⟩ := obind_ok k4
  obtain ⟨rfl, rfl⟩ := ogetNode_ok h5
  obtain ⟨_, s6, h6, k6⟩ := obind_ok k5
  -- the store before InsertAfter
  have hnd4 : ∀ i, nd (upd s3 node fun n => { n with lines := para.map ofSeg }) i =
      if node = i then { (nd s node) with lines := para.map ofSeg } else nd s3 i := by
    intro i
    rw [nd_upd_lt _ _ _ (by omega)]
    split
    · rw [b3.old node hnl]
    · rfl
  have hl4 : (upd s3 node fun n => { n with lines := para.map ofSeg }).nodes.length = s3.nodes.length := upd_len ..
  have hc4 : (nd (upd s3 node fun n => { n with lines := para.map ofSeg }) s.nodes.length).parent = none := by
    rw [hnd4, if_neg (by omega)]; exact htp3
  have hkids4 : (nd (upd s3 node fun n => { n with lines := para.map ofSeg }) p).children = (nd s p).children := by
    rw [hnd4, if_neg (by omega), b3.old p (by omega)]
  have hget : ((upd s3 node fun n => { n with lines := para.map ofSeg }).nodes.getD p default) =
      nd (upd s3 node fun n => { n with lines := para.map ofSeg }) p := rfl
  rw [hget, hkids4] at h6
  obtain ⟨t6, l6, _, _⟩ := insertBefore_tree ht4 (by omega) (by rw [hl4]; exact hlen3) h6
  obtain ⟨kids, hk, hs6⟩ := insertBefore_none hc4 h6
  rw [hkids4] at hk
  have hnd6 : ∀ i, nd s6 i = if s.nodes.length = i then { (nd s3 i) with parent := some p }
      else if p = i then { (nd s p) with children := kids }
      else if node = i then { (nd s node) with lines := para.map ofSeg } else nd s3 i := by
    intro i
    rw [hs6, nd_upd_lt _ _ i (by rw [upd_len, hl4]; exact hlen3)]
    by_cases h1 : s.nodes.length = i
    · rw [if_pos h1, if_pos h1, nd_upd_lt _ _ _ (by rw [hl4]; omega), if_neg (by omega), hnd4, if_neg (by omega), h1]
    · rw [if_neg h1, if_neg h1, nd_upd_lt _ _ i (by rw [hl4]; omega)]
      by_cases h2 : p = i
      · rw [if_pos h2, if_pos h2, hnd4, if_neg (by omega), b3.old p (by omega)]
      · rw [if_neg h2, if_neg h2, hnd4]
  have hl6 : s6.nodes.length = s3.nodes.length := by rw [hs6, upd_len, upd_len, hl4]
  have hpk : (kids = (nd s p).children ++ [s.nodes.length] ∨
      ∃ v, nextIn node (nd s p).children = some v ∧ kids = insertBeforeIn v s.nodes.length (nd s p).children) := by
    rcases hk with hk | ⟨v, hv, hk⟩
    · exact .inl hk
    · exact .inr ⟨v, hv, hk⟩
  have hfresh : ∀ (sx : St), (∀ i, s.nodes.length ≤ i → dataOf (nd sx i) = dataOf (nd s3 i)) → sx.nodes.length = s3.nodes.length →
      ∀ i, s.nodes.length ≤ i → i < sx.nodes.length → RecD src t (dataOf (nd sx i)) := fun sx hx hl i h1 h2 => by
    rw [hx i h1]; exact b3.fresh i h1 (by rw [← hl]; exact h2)
  by_cases hemp : (para.map ofSeg).isEmpty = true
  · -- RemoveChild
    have hpe : para.isEmpty = true := by simpa using hemp
    rw [if_pos hpe] at k6
    have hc6 : (nd s6 node).parent = some p := by
      rw [hnd6, if_neg (by omega), if_neg (by omega), if_pos rfl]; exact hp
    obtain ⟨t7, l7, _, _⟩ := removeChild_tree' t6 k6
    have hs7 := removeChild_some hc6 k6
    have hnd7 : ∀ i, nd s' i = if node = i then { (nd s node) with lines := para.map ofSeg, parent := none }
        else if p = i then { (nd s p) with children := kids.erase node }
        else if s.nodes.length = i then { (nd s3 i) with parent := some p } else nd s3 i := by
      intro i
      rw [hs7, nd_upd_lt _ _ i (by rw [upd_len, hl6]; omega)]
      by_cases h1 : node = i
      · rw [if_pos h1, if_pos h1, nd_upd_lt _ _ _ (by rw [hl6]; omega), if_neg (by omega), hnd6, if_neg (by omega),
          if_neg (by omega), if_pos rfl]
      · rw [if_neg h1, if_neg h1, nd_upd_lt _ _ i (by rw [hl6]; omega)]
        by_cases h2 : p = i
        · rw [if_pos h2, if_pos h2, hnd6, if_neg (by omega), if_pos rfl]
        · rw [if_neg h2, if_neg h2, hnd6]
          by_cases h3 : s.nodes.length = i
          · rw [if_pos h3, if_pos h3]
          · rw [if_neg h3, if_neg h3, if_neg h2, if_neg h1]
    have hl7 : s'.nodes.length = s3.nodes.length := by rw [hs7, upd_len, upd_len, hl6]
    refine ⟨by rw [hs7, upd_r, upd_r, hs6, upd_r, upd_r, upd_r]; exact b3.r,
      by rw [hs7, upd_pc, upd_pc, hs6, upd_pc, upd_pc, upd_pc]; exact b3.pc, by omega, fun i hi hne => ?_, fun i hi hne => ?_,
      ?_, ⟨kids, hpk, ?_⟩, ?_, ?_, fun i q hi hq => ?_, t7⟩
    · rw [hnd7, if_neg (Ne.symm hne)]
      split
      · next h2 => subst h2; exact ⟨rfl, rfl⟩
      · rw [if_neg (by omega), b3.old i hi]; exact ⟨rfl, rfl⟩
    · rw [hnd7]
      split
      · next h1 => subst h1; rfl
      · rw [if_neg (Ne.symm hne), if_neg (by omega), b3.old i hi]
    · rw [hnd7, if_pos rfl, hemp]; rfl
    · rw [hnd7, if_neg (by omega), if_pos rfl, hemp]; rfl
    · refine hfresh s' (fun i hi => ?_) hl7
      rw [hnd7, if_neg (by omega), if_neg (by omega)]
      split
      · rfl
      · rfl
    · rw [hnd7, if_neg (by omega), if_neg (by omega), if_pos rfl]
    · rw [hnd7, if_neg (by omega), if_neg (by omega), if_neg (by omega)] at hq
      exact b3.fpar i q (by omega) hq
  · have hpe : para.isEmpty = false := by
      cases hh : para.isEmpty
      · rfl
      · exfalso; apply hemp; simpa using hh
    rw [hpe] at k6
    simp only [Bool.false_eq_true, if_false] at k6
    obtain ⟨_, rfl⟩ := opure_ok k6
    have hemp' : (para.map ofSeg).isEmpty = false := by
      cases hh : (para.map ofSeg).isEmpty
      · rfl
      · exact absurd hh hemp
    refine ⟨by rw [hs6, upd_r, upd_r, upd_r]; exact b3.r, by rw [hs6, upd_pc, upd_pc, upd_pc]; exact b3.pc, by omega,
      fun i hi hne => ?_, fun i hi hne => ?_, ?_, ⟨kids, hpk, ?_⟩, ?_, ?_, fun i q hi hq => ?_, t6⟩
    · rw [hnd6, if_neg (by omega)]
      split
      · next h2 => subst h2; exact ⟨rfl, rfl⟩
      · rw [if_neg (Ne.symm hne), b3.old i hi]; exact ⟨rfl, rfl⟩
    · rw [hnd6, if_neg (by omega), if_neg (Ne.symm hne)]
      split
      · next h1 => subst h1; rfl
      · rw [b3.old i hi]
    · rw [hnd6, if_neg (by omega), if_neg (by omega), if_pos rfl, hemp']
      simp only [Bool.false_eq_true, if_false]
      rw [← hp]
    · rw [hnd6, if_neg (by omega), if_pos rfl, hemp']; rfl
    · refine hfresh s' (fun i hi => ?_) hl6
      rw [hnd6]
      split
      · rfl
      · rw [if_neg (by omega), if_neg (by omega)]
    · rw [hnd6, if_pos rfl]
    · rw [hnd6, if_neg (by omega), if_neg (by omega), if_neg (by omega)] at hq
      exact b3.fpar i q (by omega) hq

end GM.Blocks.TO
