/-
  GM.Proof.AstWalk — ast.Walk on the heap is the textbook depth-first traversal of the represented tree.
-/
import GM.Proof.AstRun

namespace GM.Proof.AstHeap
open GM.Spec GM.Spec.Forest GM.AstHeap GM.Proof.ForestLists

/-- the walker result that corresponds to a spec result for the child loop -/
def kidsRes (r : WalkOut) : WalkRes := ⟨if r.halted then .stop else .cont, r.err, r.events⟩

theorem size_pos (t : Tree) : 1 ≤ t.size := by
  cases t; simp [Tree.size]

mutual
theorem walkNode_dfs {h : Heap} {f : Forest} (A : Abs h f) (s : Script) :
    ∀ (t : Tree) (fuel : Nat), Tree.IsTree f t → 2 * t.size ≤ fuel →
      ∃ st, walkNode h s fuel t.id = .ok ⟨st, (dfs s t).err, (dfs s t).events⟩ ∧
        (dfs s t).halted = ((dfs s t).err || st == .stop)
  | .node a ks, fuel, ht, hf => by
    cases fuel with
    | zero => simp only [Tree.size] at hf; omega
    | succ k =>
      simp only [Tree.IsTree] at ht
      have hk : 2 * Tree.sizeL ks + 1 ≤ k := by simp only [Tree.size] at hf; omega
      have hkids := walkKids_dfs A s ks k ht.2 (ht.1 ▸ A.nodup a)
        (fun x hx => by rw [← ht.1] at hx ⊢; exact A.next x a hx) hk
      rw [← ht.1, ← A.first] at hkids
      simp only [Tree.id, walkNode, dfs]
      by_cases h1 : ((s a true).2 || (s a true).1 == Status.stop) = true
      · simp only [h1, ↓reduceIte]
        refine ⟨(s a true).1, rfl, ?_⟩
        simpa using h1
      · simp only [h1, Bool.false_eq_true, ↓reduceIte]
        by_cases hsk : (s a true).1 = Status.skip
        · simp only [hsk, bne_self_eq_false, Bool.false_eq_true, ↓reduceIte, beq_self_eq_true,
            show (Status.cont == Status.stop) = false from rfl]
          by_cases h2 : ((s a false).2 || (s a false).1 == Status.stop) = true
          · simp only [h2, ↓reduceIte, List.cons_append, List.nil_append]
            exact ⟨.stop, rfl, by simp⟩
          · simp only [h2, Bool.false_eq_true, ↓reduceIte, List.cons_append, List.nil_append]
            refine ⟨.cont, ?_, ?_⟩
            · have : (s a false).2 = false := by simp at h2; exact h2.1
              simp [this]
            · have : (s a false).2 = false := by simp at h2; exact h2.1
              simp [this]
        · have hne : ((s a true).1 != Status.skip) = true := by simpa using hsk
          have hbe : ((s a true).1 == Status.skip) = false := by simpa using hsk
          simp only [hne, ↓reduceIte, hkids, hbe, Bool.false_eq_true, kidsRes]
          by_cases hh : (dfsL s ks).halted = true
          · simp only [hh, ↓reduceIte, beq_self_eq_true]
            exact ⟨.stop, rfl, by simp⟩
          · simp only [hh, Bool.false_eq_true, ↓reduceIte, show (Status.cont == Status.stop) = false from rfl]
            by_cases h2 : ((s a false).2 || (s a false).1 == Status.stop) = true
            · simp only [h2, ↓reduceIte]
              exact ⟨.stop, rfl, by simp⟩
            · simp only [h2, Bool.false_eq_true, ↓reduceIte]
              have : (s a false).2 = false := by simp at h2; exact h2.1
              refine ⟨.cont, by simp [this], by simp [this]⟩
theorem walkKids_dfs {h : Heap} {f : Forest} (A : Abs h f) (s : Script) :
    ∀ (ks : List Tree) (fuel : Nat), Tree.IsTreeL f ks → (Tree.idsL ks).Nodup →
      (∀ x ∈ Tree.idsL ks, h.next x = nextIn (Tree.idsL ks) x) → 2 * Tree.sizeL ks + 1 ≤ fuel →
      walkKids h s fuel (Tree.idsL ks).head? = .ok (kidsRes (dfsL s ks))
  | [], fuel, _, _, _, _ => by
    cases fuel <;> simp [Tree.idsL, walkKids, dfsL, kidsRes]
  | t :: ts, fuel, ht, nd, hn, hf => by
    cases fuel with
    | zero => simp at hf
    | succ k =>
      simp only [Tree.IsTreeL] at ht
      have hid : Tree.idsL (t :: ts) = t.id :: Tree.idsL ts := by
        cases t; simp [Tree.idsL, Tree.id]
      rw [hid] at nd hn
      have nda := List.nodup_cons.1 nd
      have hp := size_pos t
      simp only [Tree.sizeL] at hf
      obtain ⟨st, e1, e2⟩ := walkNode_dfs A s t k ht.1 (by omega)
      have hnx : h.next t.id = (Tree.idsL ts).head? := by rw [hn t.id (by simp)]; simp [nextIn]
      have hts := walkKids_dfs A s ts k ht.2 nda.2
        (fun x hx => by
          have hax : t.id ≠ x := fun e => nda.1 (e ▸ hx)
          rw [hn x (by simp [hx])]; simp [nextIn, hax])
        (by omega)
      simp only [hid, List.head?_cons, walkKids, e1, dfsL, hnx, hts, kidsRes]
      by_cases hh : (dfs s t).halted = true
      · have : ((dfs s t).err || st == Status.stop) = true := by rw [← e2]; exact hh
        simp [hh, this]
      · have : ((dfs s t).err || st == Status.stop) = false := by rw [← e2]; simpa using hh
        simp [hh, this]
end

/-- Walk on a heap that represents `f`, started at the root of a tree `t` that unfolds `f`, with enough
    fuel for `t`, makes exactly the visitor calls of the textbook DFS and returns its error. -/
theorem walk_eq_dfs {h : Heap} {f : Forest} (A : Abs h f) (s : Script) (t : Tree) (ht : Tree.IsTree f t)
    {fuel : Nat} (hf : 2 * t.size ≤ fuel) : walk fuel h s t.id = .ok (dfs s t) := by
  obtain ⟨st, e1, e2⟩ := walkNode_dfs A s t fuel ht hf
  simp only [walk, e1]
  congr 1
  cases hd : dfs s t with
  | mk ev ha er =>
    rw [hd] at e2
    simp only at e2 ⊢
    rw [e2, Bool.or_comm]

/-! ### every node of an acyclic forest unfolds to a finite tree -/

theorem exists_treeL {f : Forest} : ∀ (l : List Nat), (∀ x ∈ l, ∃ t, Tree.IsTree f t ∧ t.id = x) →
    ∃ ks, Tree.IsTreeL f ks ∧ Tree.idsL ks = l
  | [], _ => ⟨[], by simp [Tree.IsTreeL], rfl⟩
  | a :: l, hl => by
    obtain ⟨t, ht, hid⟩ := hl a (by simp)
    obtain ⟨ks, hks, hids⟩ := exists_treeL l (fun x hx => hl x (by simp [hx]))
    refine ⟨t :: ks, ⟨ht, hks⟩, ?_⟩
    cases t; simp [Tree.idsL, Tree.id] at hid ⊢; exact ⟨hid, hids⟩

theorem exists_tree {f : Forest} (hA : Acyclic f) (a : Nat) : ∃ t, Tree.IsTree f t ∧ t.id = a := by
  obtain ⟨ht, hht⟩ := hA
  have aux : ∀ n a, ht a < n → ∃ t, Tree.IsTree f t ∧ t.id = a := by
    intro n
    induction n with
    | zero => intro a h; omega
    | succ n ih =>
      intro a _
      obtain ⟨ks, hks, hids⟩ := exists_treeL (f a) (fun x hx => ih x (by have := hht a x hx; omega))
      exact ⟨.node a ks, ⟨hids.symm, hks⟩, rfl⟩
  exact aux (ht a + 1) a (by omega)


/-! ### what the textbook traversal does (sanity theorems about the spec itself) -/

mutual
/-- the full enter/leave bracket sequence of a tree -/
def brackets : Tree → List Event
  | .node a ks => (a, true) :: bracketsL ks ++ [(a, false)]
def bracketsL : List Tree → List Event
  | [] => []
  | t :: ts => brackets t ++ bracketsL ts
end

/-- a visitor that never stops, never skips and never fails -/
def Plain (s : Script) : Prop := ∀ n e, (s n e).2 = false ∧ (s n e).1 ≠ .stop ∧ (s n e).1 ≠ .skip

mutual
theorem dfs_plain {s : Script} (hs : Plain s) : ∀ t : Tree, dfs s t = ⟨brackets t, false, false⟩
  | .node a ks => by
    have h1 := hs a true
    have h2 := hs a false
    have e1 : ((s a true).1 == Status.stop) = false := by simpa using h1.2.1
    have e2 : ((s a true).1 == Status.skip) = false := by simpa using h1.2.2
    have e3 : ((s a false).1 == Status.stop) = false := by simpa using h2.2.1
    simp [dfs, brackets, h1.1, h2.1, e1, e2, e3, dfsL_plain hs ks]
theorem dfsL_plain {s : Script} (hs : Plain s) : ∀ ts : List Tree, dfsL s ts = ⟨bracketsL ts, false, false⟩
  | [] => by simp [dfsL, bracketsL]
  | t :: ts => by simp [dfsL, bracketsL, dfs_plain hs t, dfsL_plain hs ts]
end

theorem dfs_stop_immediately (s : Script) (a : Nat) (ks : List Tree)
    (h : (s a true).2 = true ∨ (s a true).1 = .stop) :
    dfs s (.node a ks) = ⟨[(a, true)], true, (s a true).2⟩ := by
  have : ((s a true).2 || (s a true).1 == Status.stop) = true := by
    rcases h with h | h <;> simp [h]
  simp [dfs, this]

theorem dfs_skip (s : Script) (a : Nat) (ks : List Tree)
    (h : (s a true).2 = false ∧ (s a true).1 = .skip) :
    dfs s (.node a ks) = ⟨[(a, true), (a, false)], (s a false).2 || (s a false).1 == .stop, (s a false).2⟩ := by
  simp [dfs, h.1, h.2, show (Status.skip == Status.stop) = false from rfl]

/-- once a subtree halts the walk, no later sibling is visited -/
theorem dfsL_halt (s : Script) (t : Tree) (ts : List Tree) (h : (dfs s t).halted = true) :
    dfsL s (t :: ts) = dfs s t := by
  simp [dfsL, h]

/-- a halted child halts its parent without a leave call for the parent -/
theorem dfs_child_halt (s : Script) (a : Nat) (ks : List Tree)
    (h0 : (s a true).2 = false ∧ (s a true).1 ≠ .stop ∧ (s a true).1 ≠ .skip)
    (h : (dfsL s ks).halted = true) :
    dfs s (.node a ks) = ⟨(a, true) :: (dfsL s ks).events, true, (dfsL s ks).err⟩ := by
  have e1 : ((s a true).1 == Status.stop) = false := by simpa using h0.2.1
  have e2 : ((s a true).1 == Status.skip) = false := by simpa using h0.2.2
  simp [dfs, h0.1, e1, e2, h]


/-! ### helpers for the witnesses in Props/C13 -/

theorem desc_head {f : Forest} {a b : Nat} (h : Desc f a b) : a = b ∨ ∃ k, k ∈ f a ∧ Desc f k b := by
  induction h with
  | refl => exact Or.inl rfl
  | step hab hc ih =>
    rename_i b' c'
    rcases ih with e | ⟨k, hk, hd⟩
    · subst e; exact Or.inr ⟨c', hc, Desc.refl _⟩
    · exact Or.inr ⟨k, hk, Desc.step hd hc⟩

theorem desc_empty {a b : Nat} (h : Desc Forest.empty a b) : a = b := by
  rcases desc_head h with e | ⟨k, hk, _⟩
  · exact e
  · simp [Forest.empty] at hk

theorem appendChildN_error {h : Heap} {p c : Nat} {e : Fault} (he : appendChildN h p c = .error e) :
    e = .nilDeref := by
  unfold appendChildN at he
  simp only at he
  split at he
  · rename_i e' heq
    split at heq
    · cases heq
    · split at heq
      · cases heq; cases he; rfl
      · cases heq
  · cases he

/-- ReplaceChild(self, nil, x) always panics (after appending x): outside the documented contract -/
theorem replace_nil_panics (h : Heap) (p c : Nat) : replaceChild h p none (some c) = .error .nilDeref := by
  simp only [replaceChild, insertBefore, insertBeforeN]
  cases hh : appendChildN h p c with
  | error e => rw [appendChildN_error hh]
  | ok h' => rfl

/-- a nil child panics in every call that takes one -/
theorem nil_child_panics (h : Heap) (p : Nat) (v : Option Nat) :
    appendChild h p none = .error .nilDeref ∧ insertBefore h p v none = .error .nilDeref ∧
    insertAfter h p v none = .error .nilDeref ∧ replaceChild h p v none = .error .nilDeref ∧
    removeChild h p none = .error .nilDeref := by
  refine ⟨rfl, rfl, ?_, rfl, rfl⟩
  cases v with
  | none => rfl
  | some v => simp only [insertAfter]; split <;> rfl

end GM.Proof.AstHeap
