/-
  GM.Proof.ConvertFAbs — facts about GM.Model.Footnote's transformer that the composed model needs: when every reference
  event carries the label of a definition, every event creates a link (the slice under `footnoteLinkListKey` IS the event
  list); `allLinkFields` keeps the creation order, and its rendered entries are exactly the numbered links.
-/
import GM.Model.Footnote
import GM.Proof.Footnote

namespace GM.Proof.FootnoteAbs
open GM GM.Footnote GM.Spec.Footnote GM.Proof.Footnote

theorem lookup_ne_zero (v : Bytes) (c : Nat) : ∀ (D : List Def), (∀ i ∈ used D, i ≠ 0) → v ∈ D.map (·.label) →
    (lookup v c D).2.2 ≠ 0
  | [], _, hv => by simp at hv
  | d :: ds, hu, hv => by
    unfold lookup
    by_cases hl : d.label = v
    · by_cases hi : d.index < 0
      · simp only [hl, hi, if_true]; omega
      · simp only [hl, hi, if_true, if_false]
        apply hu
        rw [used_cons]
        have : 0 ≤ d.index := by omega
        simp [this]
    · simp only [hl, if_false]
      apply lookup_ne_zero v c ds
      · intro i hi
        apply hu
        rw [used_cons]
        split
        · exact List.mem_cons_of_mem _ hi
        · exact hi
      · simp only [List.map_cons, List.mem_cons] at hv
        rcases hv with hv | hv
        · exact absurd hv.symm hl
        · exact hv

theorem used_pos {labels : List Bytes} {done : List Event} {s : PState} (h : Inv labels done s) : ∀ i ∈ used s.defs, i ≠ 0 := by
  intro i hi
  have := (h.used_perm.mem_iff).1 hi
  obtain ⟨k, h1, _, rfl⟩ := mem_range_map.1 this
  omega

/-- every event whose label is a definition's creates a link: the created links, in order, are the events -/
theorem links_of_resolving {labels : List Bytes} : ∀ (rest : List Event) (done : List Event) (s : PState), Inv labels done s →
    (∀ e ∈ rest, e.label ∈ labels) → (rest.foldl parseRef s).links.map (·.1) = s.links.map (·.1) ++ rest
  | [], _, s, _, _ => by simp
  | e :: rest, done, s, hI, hr => by
    have hstep := inv_step hI e
    have ih := links_of_resolving rest (done ++ [e]) (parseRef s e) hstep (fun e' he' => hr e' (by simp [he']))
    simp only [List.foldl_cons]
    rw [ih]
    have hne : (lookup e.label s.count s.defs).2.2 ≠ 0 :=
      lookup_ne_zero e.label s.count s.defs (used_pos hI) (by rw [hI.labels_eq]; exact hr e (by simp))
    simp only [parseRef, hne, if_false, List.map_append, List.map_cons, List.map_nil, List.append_assoc, List.cons_append,
      List.nil_append]

theorem created_events (labels : List Bytes) (evs : List Event) (h : ∀ e ∈ evs, e.label ∈ labels) :
    (inlinePhase labels evs).links.map (·.1) = evs := by
  have := links_of_resolving evs [] _ (inv_init labels) h
  simpa [inlinePhase] using this

theorem numberLinks_fst (all : List Int) : ∀ (seen : List Int) (L : List (Event × Int)),
    (numberLinks all seen L).map (·.1) = L.map (·.1)
  | _, [] => rfl
  | seen, (e, i) :: rest => by simp [numberLinks, numberLinks_fst all (i :: seen) rest]

/-- `allLinkFields` over the numbered rendered links: creation order kept, the rendered entries are the numbered links -/
theorem allLinkFields_spec (defs : List Def) (all : List Int) : ∀ (C : List (Event × Int)) (seen : List Int),
    let N := numberLinks all seen (C.filter fun p => isRendered defs p.1)
    (allLinkFields defs C N).map (·.1) = C.map (·.1) ∧
    (allLinkFields defs C N).filter (fun p => isRendered defs p.1) = N
  | [], seen => by simp [allLinkFields, numberLinks]
  | (e, i) :: rest, seen => by
    intro N
    by_cases hr : isRendered defs e = true
    · have hN : N = (e, { index := i, refCount := counter all i, refIndex := seen.count i }) ::
          numberLinks all (i :: seen) (rest.filter fun p => isRendered defs p.1) := by
        simp only [N, List.filter_cons, hr, if_true, numberLinks]
      have ih := allLinkFields_spec defs all rest (i :: seen)
      simp only [] at ih
      rw [hN]
      simp only [allLinkFields, hr, if_true, List.map_cons, List.filter_cons, ih.1, ih.2, true_and]
    · have hr' : isRendered defs e = false := by simpa using hr
      have hN : N = numberLinks all seen (rest.filter fun p => isRendered defs p.1) := by
        simp only [N, List.filter_cons, hr', Bool.false_eq_true, if_false]
      have ih := allLinkFields_spec defs all rest seen
      simp only [] at ih
      rw [hN]
      simp only [allLinkFields, hr', Bool.false_eq_true, if_false, List.map_cons, List.filter_cons, ih.1, ih.2, true_and]

/-- the pairs `(event, fields)` of all FootnoteLinks in creation order -/
def pairs (labels : List Bytes) (evs : List Event) : List (Event × Link) :=
  let tr := transform labels evs
  allLinkFields tr.defs tr.created tr.links

theorem pairs_fst (labels : List Bytes) (evs : List Event) (h : ∀ e ∈ evs, e.label ∈ labels) :
    (pairs labels evs).map (·.1) = evs := by
  have := (allLinkFields_spec (inlinePhase labels evs).defs
    (((inlinePhase labels evs).links.filter fun p => isRendered (inlinePhase labels evs).defs p.1).map (·.2))
    (inlinePhase labels evs).links []).1
  simp only [pairs, transform]
  rw [this, created_events labels evs h]

theorem pairs_rendered (labels : List Bytes) (evs : List Event) :
    (pairs labels evs).filter (fun p => isRendered (transform labels evs).defs p.1) = (transform labels evs).links := by
  have := (allLinkFields_spec (inlinePhase labels evs).defs
    (((inlinePhase labels evs).links.filter fun p => isRendered (inlinePhase labels evs).defs p.1).map (·.2))
    (inlinePhase labels evs).links []).2
  simp only [pairs, transform]
  exact this

end GM.Proof.FootnoteAbs
