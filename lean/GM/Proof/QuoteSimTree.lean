/-
  GM.Proof.QuoteSimTree — the tree operations of ast.go (RemoveChild, AppendChild, …) under the simulation
  relation, and paragraphParser.Close.
-/
import GM.Proof.QuoteSimPara

namespace GM.Blocks
open GM GM.Text GM.Spec GM.Proof.Reader

theorem map_succ_erase (l : List Nat) (c : Nat) : (l.map (· + 1)).erase (c + 1) = (l.erase c).map (· + 1) := by
  induction l with
  | nil => rfl
  | cons a l ih =>
    simp only [List.map_cons, List.erase_cons]
    by_cases h : a = c
    · subst h; simp
    · have h' : ¬ (a + 1 = c + 1) := by omega
      simp [h, h', ih]

theorem opt_succ_bne (o : Option Nat) (p : Nat) : (o.map (· + 1) != some (p + 1)) = (o != some p) := by
  cases o with
  | none => rfl
  | some q =>
    simp only [Option.map_some, bne, Option.some_beq_some]
    congr 1
    exact decide_eq_decide.mpr (by constructor <;> intro _ <;> omega)

theorem removeChild_s2 {src k ls p} {sA sB : St} (h : SR src k ls p sA sB) (q c : Nat) :
    S2 (fun _ _ sA' sB' => SR src k ls p sA' sB') (removeChild q c sA) (removeChild (q + 1) (c + 1) sB) := by
  unfold removeChild
  refine S2.bind (getNode_s2 h c) (fun a b sA1 sB1 hq => ?_)
  obtain ⟨hab, h1⟩ := hq
  by_cases hc0 : c = 0
  · subst hc0
    have hp := hab.parent
    simp only [beq_self_eq_true, if_true] at hp
    have e1 : (a.parent != some q) = true := by rw [hp.2]; rfl
    have e2 : (b.parent != some (q + 1)) = true := by rw [hp.1]; simp
    rw [if_pos e1, if_pos e2]
    exact S2.pure h1
  · have hc : (c == 0) = false := beq_eq_false_iff_ne.mpr hc0
    rw [hc] at hab
    have hp := hab.parent
    simp only [Bool.false_eq_true, if_false] at hp
    rw [hp, opt_succ_bne]
    by_cases hcond : (a.parent != some q) = true
    · rw [if_pos hcond, if_pos hcond]; exact S2.pure h1
    · rw [if_neg hcond, if_neg hcond]
      refine S2.bind (modNode_s2 h1 q _ _ (fun a b hab => ?_)) (fun _ _ sA2 sB2 h2 => ?_)
      · exact { hab with children := by simp only [hab.children, map_succ_erase] }
      · refine modNode_s2 h2 c _ _ (fun a b hab => ?_)
        rw [hc] at hab ⊢
        exact { hab with parent := by simp }

theorem ensureIsolated_s2 {src k ls p} {sA sB : St} (h : SR src k ls p sA sB) (c : Nat) (hc0 : c ≠ 0) :
    S2 (fun _ _ sA' sB' => SR src k ls p sA' sB') (ensureIsolated c sA) (ensureIsolated (c + 1) sB) := by
  unfold ensureIsolated
  refine S2.bind (getNode_s2 h c) (fun a b sA1 sB1 hq => ?_)
  obtain ⟨hab, h1⟩ := hq
  have hc : (c == 0) = false := beq_eq_false_iff_ne.mpr hc0
  rw [hc] at hab
  have hp := hab.parent
  simp only [Bool.false_eq_true, if_false] at hp
  rw [hp]
  cases a.parent with
  | none => exact S2.pure h1
  | some q => exact removeChild_s2 h1 q c

theorem appendChild_s2 {src k ls p} {sA sB : St} (h : SR src k ls p sA sB) (q c : Nat) (hc0 : c ≠ 0) :
    S2 (fun _ _ sA' sB' => SR src k ls p sA' sB') (appendChild q c sA) (appendChild (q + 1) (c + 1) sB) := by
  unfold appendChild
  refine S2.bind (ensureIsolated_s2 h c hc0) (fun _ _ sA1 sB1 h1 => ?_)
  refine S2.bind (modNode_s2 h1 q _ _ (fun a b hab => ?_)) (fun _ _ sA2 sB2 h2 => ?_)
  · exact { hab with children := by simp [hab.children] }
  · refine modNode_s2 h2 c _ _ (fun a b hab => ?_)
    have hc : (c == 0) = false := beq_eq_false_iff_ne.mpr hc0
    rw [hc] at hab ⊢
    exact { hab with parent := by simp }

/-! ### paragraphParser.Close -/

theorem trimLeftAll_q {src} : ∀ {as bs : List Segment}, SegsRel src as bs → ∀ as', trimLeftAll src as = .ok as' →
    ∃ bs', trimLeftAll (quotePrefix src) bs = .ok bs' ∧ SegsRel src as' bs'
  | [], [], _, as', e => by
    simp only [trimLeftAll, pure, Except.pure] at e
    cases e
    exact ⟨[], rfl, trivial⟩
  | a :: as, b :: bs, ⟨h1, h2⟩, as', e => by
    obtain ⟨k, ls, hl, g1, g2, g3, hb⟩ := h1
    subst hb
    obtain ⟨t, e1, e2, t1, t2, t3, t4⟩ := trimLeftSpace_q (s := a) ⟨hl, g1, g2, g3⟩
    simp only [trimLeftAll, e1, bind, Except.bind] at e
    cases hrec : trimLeftAll src as with
    | error x => rw [hrec] at e; cases e
    | ok as1 =>
      rw [hrec] at e
      simp only [pure, Except.pure] at e
      cases e
      obtain ⟨bs1, e3, h3⟩ := trimLeftAll_q h2 as1 hrec
      refine ⟨shK k t :: bs1, ?_, ?_, h3⟩
      · simp only [trimLeftAll, e2, e3, bind, Except.bind, pure, Except.pure]
      · have hle : t.start ≤ t.stop := by
          have := trimLeftSpaceLength_le (sub src a.start.toNat a.stop.toNat)
          have hlen := length_sub src (a := a.start.toNat) (b := a.stop.toNat)
            (by have := lineEnd_le src ls; omega)
          omega
        exact ⟨k, ls, hl, by omega, hle, by omega, rfl⟩
  | [], _ :: _, h, _, _ => h.elim
  | _ :: _, [], h, _, _ => h.elim

theorem SegsRel.getElem {src} : ∀ {as bs : List Segment}, SegsRel src as bs → ∀ (i : Nat) a, as[i]? = some a →
    ∃ b, bs[i]? = some b ∧ SegRel src a b
  | [], [], _, i, a, e => by simp at e
  | a0 :: as, b0 :: bs, ⟨h1, h2⟩, i, a, e => by
    cases i with
    | zero => simp at e; subst e; exact ⟨b0, by simp, h1⟩
    | succ i => simp at e; simpa using SegsRel.getElem h2 i a e
  | [], _ :: _, h, _, _, _ => h.elim
  | _ :: _, [], h, _, _, _ => h.elim

theorem SegsRel.set {src} : ∀ {as bs : List Segment}, SegsRel src as bs → ∀ (i : Nat) {a b}, SegRel src a b →
    SegsRel src (as.set i a) (bs.set i b)
  | [], [], _, _, _, _, _ => trivial
  | a0 :: as, b0 :: bs, ⟨h1, h2⟩, i, a, b, hab => by
    cases i with
    | zero => exact ⟨hab, h2⟩
    | succ i => exact ⟨h1, SegsRel.set h2 i hab⟩
  | [], _ :: _, h, _, _, _, _ => h.elim
  | _ :: _, [], h, _, _, _, _ => h.elim

theorem lineAt_q {src} {as bs : List Segment} (h : SegsRel src as bs) (i : Int) (a : Segment)
    (e : lineAt as i = .ok a) : ∃ b, lineAt bs i = .ok b ∧ SegRel src a b := by
  unfold lineAt segAt at e ⊢
  by_cases hi : i < 0
  · rw [if_pos hi] at e; cases e
  · rw [if_neg hi] at e ⊢
    cases hg : as[i.toNat]? with
    | none => rw [hg] at e; cases e
    | some a0 =>
      rw [hg] at e; cases e
      obtain ⟨b, hb, hab⟩ := SegsRel.getElem h _ _ hg
      exact ⟨b, by rw [hb], hab⟩

theorem lineSet_q {src} {as bs : List Segment} (h : SegsRel src as bs) (i : Int) {a b : Segment} (hab : SegRel src a b)
    (as' : List Segment) (e : lineSet as i a = .ok as') :
    ∃ bs', lineSet bs i b = .ok bs' ∧ SegsRel src as' bs' := by
  unfold lineSet at e ⊢
  rw [SegsRel.length h]
  split at e
  · next hc => cases e; rw [if_pos hc]; exact ⟨_, rfl, SegsRel.set h _ hab⟩
  · cases e

theorem paragraphClose_tail {src k ls p} {sA sB : St} (h3 : SR src k ls p sA sB) (node : Nat) :
    S2 (fun _ _ sA' sB' => SR src k ls p sA' sB')
      ((do
        let n ← getNode node
        if (n.lines.length == 0) = true then
          match n.parent with
          | none => throw Panic.nil
          | some p => removeChild p node
        else pure () : M Unit) sA)
      ((do
        let n ← getNode (node + 1)
        if (n.lines.length == 0) = true then
          match n.parent with
          | none => throw Panic.nil
          | some p => removeChild p (node + 1)
        else pure () : M Unit) sB) := by
  refine S2.bind (getNode_s2 h3 node) (fun a' b' sA4 sB4 hq => ?_)
  obtain ⟨hab', h4⟩ := hq
  rw [SegsRel.length hab'.lines]
  by_cases hc : (a'.lines.length == 0) = true
  · rw [if_pos hc, if_pos hc]
    by_cases hn0 : node = 0
    · subst hn0
      have hp := hab'.parent
      simp only [beq_self_eq_true, if_true] at hp
      rw [hp.2]
      exact S2.throwL
    · have hcn : (node == 0) = false := beq_eq_false_iff_ne.mpr hn0
      rw [hcn] at hab'
      have hp := hab'.parent
      simp only [Bool.false_eq_true, if_false] at hp
      rw [hp]
      cases a'.parent with
      | none => exact S2.throwL
      | some q => exact removeChild_s2 h4 q node
  · rw [if_neg hc, if_neg hc]
    exact S2.pure h4

/-- `paragraphParser.Close` on a node that is not raw (the driver calls it on Paragraph nodes only: `AInv.pk`). On a raw
    node the trimming could empty a line, which the relation does not allow for raw nodes (`NodeRel.rawNE`). -/
theorem paragraphClose_sim' (src : Bytes) : ∀ k ls p node sA sB, SR src k ls p sA sB →
    rawK (sA.nodes.getD node default).kind = false →
    S2 (fun _ _ sA' sB' => SR src k ls p sA' sB') (bpClose .paragraph node sA) (bpClose .paragraph (node + 1) sB) := by
  intro k ls p node sA sB h hnr
  show S2 _ (paragraphClose node sA) (paragraphClose (node + 1) sB)
  unfold paragraphClose
  have eA : getNode node sA = .ok (sA.nodes.getD node default, sA) := rfl
  have eB : getNode (node + 1) sB = .ok (sB.nodes.getD (node + 1) default, sB) := rfl
  rw [bind_run eA, bind_run eB]
  have hab := h.n.node node
  have esA : source sA = .ok (sA.r.source, sA) := rfl
  have esB : source sB = .ok (sB.r.source, sB) := rfl
  rw [bind_run esA, bind_run esB, h.r.a.source, h.r.b.source]
  rw [SegsRel.length hab.lines]
  by_cases hc : ((sA.nodes.getD node default).lines.length != 0) = true
  · rw [if_pos hc, if_pos hc]
    refine S2.bind (P := fun x y sA' sB' => SegsRel src x y ∧ sA' = sA ∧ sB' = sB)
      (S2.liftE (fun x hx => ?_)) (fun x y sA4 sB4 hq => ?_)
    · obtain ⟨y, hy, hxy⟩ := trimLeftAll_q hab.lines x hx
      exact ⟨y, hy, hxy, rfl, rfl⟩
    · obtain ⟨hxy, e1, e2⟩ := hq
      subst e1 e2
      rw [SegsRel.length hxy]
      refine S2.bind (P := fun x' y' sA' sB' => SegRel src x' y' ∧ sA' = sA4 ∧ sB' = sB4)
        (S2.liftE (fun x' hx' => ?_)) (fun x' y' sA5 sB5 hq => ?_)
      · obtain ⟨y', hy', hxy'⟩ := lineAt_q hxy _ x' hx'
        exact ⟨y', hy', hxy', rfl, rfl⟩
      · obtain ⟨hxy', e1, e2⟩ := hq
        subst e1 e2
        obtain ⟨k1, ls1, hl, g1, g2, g3, hb1⟩ := hxy'
        subst hb1
        obtain ⟨t, e1, e2, t1, t2, t3⟩ := trimRightSpace_q (s := x') ⟨hl, g1, g2, g3⟩
        refine S2.bind (P := fun x'' y'' sA' sB' => SegRel src x'' y'' ∧ sA' = sA5 ∧ sB' = sB5)
          (S2.liftE (fun x'' hx'' => ?_)) (fun x'' y'' sA6 sB6 hq => ?_)
        · rw [e1] at hx''; cases hx''
          exact ⟨shK k1 t, e2, ⟨k1, ls1, hl, by omega, t3, by omega, rfl⟩, rfl, rfl⟩
        · obtain ⟨hxy'', e1, e2⟩ := hq
          subst e1 e2
          refine S2.bind (P := fun x3 y3 sA' sB' => SegsRel src x3 y3 ∧ sA' = sA6 ∧ sB' = sB6)
            (S2.liftE (fun x3 hx3 => ?_)) (fun x3 y3 sA7 sB7 hq => ?_)
          · obtain ⟨y3, hy3, hxy3⟩ := lineSet_q hxy _ hxy'' x3 hx3
            exact ⟨y3, hy3, hxy3, rfl, rfl⟩
          · obtain ⟨hxy3, e1, e2⟩ := hq
            subst e1 e2
            refine S2.bind (modNode_s2' h node _ _ (fun hab' => ?_)) (fun _ _ sA8 sB8 h8 => ?_)
            · exact { hab' with lines := hxy3, rawNE := fun hr => by rw [hnr] at hr; cases hr }
            · exact paragraphClose_tail h8 node
  · rw [if_neg hc, if_neg hc]
    exact paragraphClose_tail h node

end GM.Blocks
