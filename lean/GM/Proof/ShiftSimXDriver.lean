/-
  GM.Proof.ShiftSimXDriver — the driver of the block phase (`closeBlocks`, the candidate loop and `goto retry` of
  `openBlocks`) under the shift relation, for ANY set `Cov` of block parsers that meet the per-parser contracts
  (`PSim`). Run A's fuel and run B's fuel are unrelated (`P2` only speaks about runs that both end normally).
-/
import GM.Proof.ShiftSimXLeafA
import GM.Proof.QuoteSimNonePos
import GM.Proof.ShiftSimXLine
import GM.Proof.ShiftSimXStats
import GM.Proof.ShiftSimXKeys
import GM.Proof.ShiftSimXSafe

namespace GM.Blocks.Xs
open GM GM.Text GM.Spec GM.Proof.Reader GM.Blocks

/-- the four context keys are the same -/
def KeysEq (s s' : St) : Prop :=
  s'.pc.tmpPara = s.pc.tmpPara ∧ s'.pc.fence = s.pc.fence ∧ s'.pc.skipList = s.pc.skipList ∧
    s'.pc.emptyItemBlank = s.pc.emptyItemBlank

theorem KeysEq.off {s s' : St} (h : KeysEq s s') (hk : KeysOff s) : KeysOff s' :=
  hk.congr_pc h.1 h.2.1 h.2.2.1 h.2.2.2

theorem KeysEq.of_pc {s s' : St} (h : s'.pc = s.pc) : KeysEq s s' := by
  unfold KeysEq; rw [h]; exact ⟨rfl, rfl, rfl, rfl⟩

/-- the parsers in `Cov` meet the contracts; they never touch the four context keys; a container parser that goes on
    with children leaves the line feed of its line unread (run A still has a line) -/
structure PSim (F : Frame) (b : Bytes) (Cov : BP → Prop) : Prop where
  op : ∀ bp, Cov bp → OpenSim F b bp
  co : ∀ bp, Cov bp → ContinueSim F b bp
  cl : ∀ bp, Cov bp → CloseSim F b bp
  keysO : ∀ bp, Cov bp → ∀ parent s s' a, bpOpen bp parent s = .ok (a, s') → KeysEq s s'
  keysC : ∀ bp, Cov bp → ∀ node s s' a, bpContinue bp node s = .ok (a, s') → KeysEq s s'
  keysCl : ∀ bp, Cov bp → ∀ node s s' a, bpClose bp node s = .ok (a, s') → KeysEq s s'
  strictO : ∀ bp, Cov bp → ∀ parent s s' x, HL b s → bpOpen bp parent s = .ok (x, s') →
    x.2.hasChildren = true → HL b s'
  strictC : ∀ bp, Cov bp → ∀ node s s' st, HL b s → bpContinue bp node s = .ok (st, s') →
    st.cont = true → st.hasChildren = true → HL b s'

/-- every open block of run A belongs to a covered parser, and the four context keys are unset -/
def AI (Cov : BP → Prop) (s : St) : Prop := (∀ x ∈ s.pc.opened, Cov x.bp) ∧ KeysOff s

theorem KeysEq.refl (s : St) : KeysEq s s := ⟨rfl, rfl, rfl, rfl⟩

theorem KeysEq.trans {s s' s'' : St} (h : KeysEq s s') (h' : KeysEq s' s'') : KeysEq s s'' :=
  ⟨h'.1.trans h.1, h'.2.1.trans h.2.1, h'.2.2.1.trans h.2.2.1, h'.2.2.2.trans h.2.2.2⟩

theorem xd_appendChild_keeps {I : St → Prop} (hR : NoR I) (hN : NoNodes I) (p c : Nat) :
    Keeps I (appendChild p c) := by
  have := xk_removeChild_keeps hR hN
  have : ∀ c, Keeps I (ensureIsolated c) := by intro c; unfold ensureIsolated; keeps
  unfold appendChild; keeps

theorem appendChild_keysEq (p c : Nat) (s s' : St) (a : Unit) (h : appendChild p c s = .ok (a, s')) :
    KeysEq s s' :=
  xd_appendChild_keeps (xk_keysAre_noR _ _ _ _) (xk_keysAre_noNodes _ _ _ _) p c s a s'
    (⟨rfl, rfl, rfl, rfl⟩ : xk_KeysAre s.pc.tmpPara s.pc.fence s.pc.skipList s.pc.emptyItemBlank s) h

theorem AI.sub {Cov : BP → Prop} {s s' : St} (hc : AI Cov s) (ho : ∀ x ∈ s'.pc.opened, x ∈ s.pc.opened)
    (hk : KeysEq s s') : AI Cov s' :=
  ⟨fun x hx => hc.1 x (ho x hx), hk.off hc.2⟩

theorem AI.eqo {Cov : BP → Prop} {s s' : St} (hc : AI Cov s) (ho : s'.pc.opened = s.pc.opened)
    (hk : KeysEq s s') : AI Cov s' :=
  hc.sub (fun x hx => ho ▸ hx) hk

theorem HasLine.of_r {b : Bytes} {s s' : St} (h : HasLine b s) (e : s'.r = s.r) : HasLine b s' := by
  unfold HasLine; rw [e]; exact h

theorem TS.of_r {b : Bytes} {s s' : St} (h : TS b s) (e : s'.r = s.r) : TS b s' := by
  unfold TS; rw [e]; exact h

theorem HL.of_r {b : Bytes} {s s' : St} (h : HL b s) (e : s'.r = s.r) : HL b s' :=
  ⟨h.1.of_r e, h.2.of_r e⟩

theorem TSafe.of_eq {b : Bytes} {c c' : RCur} (h : TSafe b c) (ep : c'.p = c.p) (ed : c'.pad = c.pad) :
    TSafe b c' := by
  unfold TSafe PreC RCur.view at *; rw [ep, ed]; exact h

/-- two `RI` cursors of readers at the same position have the same `p` and `pad` -/
theorem ri_pos_eq {b : Bytes} {r r' : Reader} {c c' : RCur} (h : RI b r c) (h' : RI b r' c') (e : r'.pos = r.pos) :
    c'.p = c.p ∧ c'.pad = c.pad := by
  have e1 := h.pos
  have e2 := h'.pos
  rw [e, e1] at e2
  simp only [Segment.mk.injEq] at e2
  obtain ⟨p1, _, p3, _⟩ := e2
  constructor <;> omega

theorem TS.of_pos {b : Bytes} {s s1 : St} (h : TS b s) (h1 : ∃ c, RI b s1.r c) (hp : s1.r.pos = s.r.pos) : TS b s1 := by
  obtain ⟨c, hc, ht⟩ := h
  obtain ⟨c1, hc1⟩ := h1
  obtain ⟨ep, ed⟩ := ri_pos_eq hc hc1 hp
  exact ⟨c1, hc1, ht.of_eq ep ed⟩

/-- the cursor of a trigger-safe state, for any `RI` cursor of a reader at the same position -/
theorem TS.tsafe {b : Bytes} {s : St} (h : TS b s) {r : Reader} {c : RCur} (hc : RI b r c) (hp : r.pos = s.r.pos) :
    TSafe b c := by
  obtain ⟨c0, hc0, ht⟩ := h
  obtain ⟨ep, ed⟩ := ri_pos_eq hc0 hc hp
  exact ht.of_eq ep ed

theorem P2.withL {α β} {Q : α → β → St → St → Prop} {R : α → St → Prop} {x y} (h : P2 Q x y)
    (hr : ∀ a sA, x = .ok (a, sA) → R a sA) : P2 (fun a b sA sB => Q a b sA sB ∧ R a sA) x y :=
  fun a sA b sB e1 e2 => ⟨h a sA b sB e1 e2, hr a sA e1⟩

theorem advanceLine_limbo {F b sA sB} (h : SRLim F b sA sB) (he : sB.r.advanceLine = shR F sA.r.advanceLine) :
    P2 (fun _ _ sA' sB' => SR F b sA' sB') (advanceLine sA) (advanceLine sB) := by
  unfold GM.Blocks.advanceLine
  exact P2.ok ⟨h.2.1, he, h.1.n, h.1.c⟩

/-! ### closeBlocks -/

theorem blockAt_map (F : Frame) (blocks : List Block) (i : Int) :
    blockAt (blocks.map (shB F)) i = (blockAt blocks i).map (shB F) := by
  unfold blockAt
  split
  · rfl
  · rw [List.getElem?_map]
    cases blocks[i.toNat]? <;> rfl

theorem blockAt_mem {blocks : List Block} {i : Int} {x : Block} (h : blockAt blocks i = .ok x) : x ∈ blocks := by
  unfold blockAt at h
  split at h
  · cases h
  · cases hg : blocks[i.toNat]? with
    | none => rw [hg] at h; cases h
    | some y => rw [hg] at h; cases h; exact List.mem_of_getElem? hg

variable {F : Frame} {b : Bytes} {Cov : BP → Prop}

theorem closeLoop_l (hP : PSim F b Cov) : ∀ (k : Nat) (blocks : List Block) (to : Int) (rA rB : Reader) (sA sB : St),
    (∀ x ∈ blocks, Cov x.bp) → SRL F b rA rB sA sB → KeysOff sA →
    P2 (fun _ _ sA' sB' => SRL F b rA rB sA' sB' ∧ KeysOff sA') (closeLoop blocks to k sA) (closeLoop (blocks.map (shB F)) to k sB) := by
  intro k
  induction k with
  | zero => intro blocks to rA rB sA sB _ h hk; unfold closeLoop; exact P2.pure ⟨h, hk⟩
  | succ k ih =>
    intro blocks to rA rB sA sB hc h hk
    unfold closeLoop
    refine P2.bind (P := fun x y sA' sB' => y = shB F x ∧ x ∈ blocks ∧ sA = sA' ∧ sB = sB')
      (P2.liftE (fun x y e1 e2 => ?_)) (fun x y sA1 sB1 ⟨hy, hx, e1, e2⟩ => ?_)
    · rw [blockAt_map, e1] at e2; cases e2; exact ⟨rfl, blockAt_mem e1, rfl, rfl⟩
    subst hy e1 e2
    refine P2.bind (getNode_l h x.node) (fun n m sA2 sB2 ⟨hn, hm, e1, e2⟩ => ?_)
    subst e1 e2 hm
    have hp : (shN F (x.node == 0) n).parent.isSome = n.parent.isSome := by
      rw [shN_parent]; cases n.parent <;> rfl
    rw [hp]
    by_cases hps : n.parent.isSome = true
    · rw [if_pos hps, if_pos hps]
      refine P2.bind ((hP.cl x.bp (hc x hx) x.node rA rB _ _ h).withL (R := fun _ sA' => KeysOff sA')
        (fun a sA' e => (hP.keysCl x.bp (hc x hx) x.node _ _ a e).off hk)) (fun _ _ sA3 sB3 ⟨h3, hk3⟩ => ?_)
      show P2 _ (closeLoop blocks to k sA3) (closeLoop _ to k sB3)
      exact ih blocks to rA rB sA3 sB3 hc h3 hk3
    · rw [if_neg hps, if_neg hps]
      exact ih blocks to rA rB _ _ hc h hk

theorem slice'_map (F : Frame) (l : List Block) (a c : Int) :
    closeBlocks.slice' (l.map (shB F)) a c = (closeBlocks.slice' l a c).map (List.map (shB F)) := by
  unfold closeBlocks.slice'
  simp only [List.length_map]
  split
  · simp [Except.map, List.map_take, List.map_drop]
  · rfl

theorem slice'_mem {l r : List Block} {a c : Int} (h : closeBlocks.slice' l a c = .ok r) : ∀ z ∈ r, z ∈ l := by
  unfold closeBlocks.slice' at h
  split at h
  · cases h
    intro z hz
    exact List.mem_of_mem_drop (List.mem_of_mem_take hz)
  · cases h

theorem ctxRel_opened {x y : Ctx} (h : CtxRel F x y) (l : List Block) :
    CtxRel F { x with opened := l } { y with opened := l.map (shB F) } :=
  ⟨⟨rfl, h.tmpPara, h.fence, h.skipList, h.emptyItemBlank⟩, h.blockOffset, h.blockIndent⟩

theorem closeBlocks_l (hP : PSim F b Cov) (frm to : Int) {rA rB : Reader} {sA sB : St} (hc : AI Cov sA)
    (h : SRL F b rA rB sA sB) :
    P2 (fun _ _ sA' sB' => SRL F b rA rB sA' sB') (closeBlocks frm to sA) (closeBlocks frm to sB) := by
  unfold closeBlocks
  refine P2.bind (getPc_l h) (fun x y sA1 sB1 ⟨hx, hy, hxy, e1, e2⟩ => ?_)
  subst e1 e2
  have ho : y.opened = x.opened.map (shB F) := hxy.opened
  rw [ho]
  refine P2.bind (closeLoop_l hP _ x.opened to rA rB _ _ (by rw [hx]; exact hc.1) h hc.2) (fun _ _ sA2 sB2 ⟨h2, _⟩ => ?_)
  simp only [List.length_map]
  by_cases hf : (frm == (x.opened.length : Int) - 1) = true
  · rw [if_pos hf, if_pos hf]
    refine P2.bind (P := fun (u v : List Block) sA' sB' => v = u.map (shB F) ∧ sA2 = sA' ∧ sB2 = sB')
      (P2.liftE (fun u v e1 e2 => ?_)) (fun u v sA3 sB3 ⟨hv, e1, e2⟩ => ?_)
    · rw [slice'_map, e1] at e2; cases e2; exact ⟨rfl, rfl, rfl⟩
    subst hv e1 e2
    exact modPc_l h2 _ _ (fun x y hxy => ctxRel_opened hxy u)
  · rw [if_neg hf, if_neg hf]
    refine P2.bind (P := fun (u v : List Block) sA' sB' => v = u.map (shB F) ∧ sA2 = sA' ∧ sB2 = sB')
      (P2.liftE (fun u v e1 e2 => ?_)) (fun u v sA3 sB3 ⟨hv, e1, e2⟩ => ?_)
    · rw [slice'_map, e1] at e2; cases e2; exact ⟨rfl, rfl, rfl⟩
    subst hv e1 e2
    refine P2.bind (P := fun (u v : List Block) sA' sB' => v = u.map (shB F) ∧ sA2 = sA' ∧ sB2 = sB')
      (P2.liftE (fun u v e1 e2 => ?_)) (fun u2 v2 sA3 sB3 ⟨hv, e1, e2⟩ => ?_)
    · rw [slice'_map, e1] at e2; cases e2; exact ⟨rfl, rfl, rfl⟩
    subst hv e1 e2
    refine P2.bind (P := fun (u v : List Block) sA' sB' => v = u.map (shB F) ∧ sA2 = sA' ∧ sB2 = sB')
      (P2.pure ⟨by simp, rfl, rfl⟩) (fun u3 v3 sA3 sB3 ⟨hv, e1, e2⟩ => ?_)
    subst hv e1 e2
    exact modPc_l h2 _ _ (fun x y hxy => ctxRel_opened hxy u3)

/-- `closeBlocks` under `SRL`, with run A's open blocks staying covered -/
theorem closeBlocks_l2 (hP : PSim F b Cov) (frm to : Int) {rA rB : Reader} {sA sB : St} (hc : AI Cov sA)
    (h : SRL F b rA rB sA sB) :
    P2 (fun _ _ sA' sB' => SRL F b rA rB sA' sB' ∧ AI Cov sA') (closeBlocks frm to sA) (closeBlocks frm to sB) := by
  unfold closeBlocks
  refine P2.bind (getPc_l h) (fun x y sA1 sB1 ⟨hx, hy, hxy, e1, e2⟩ => ?_)
  subst e1 e2
  have ho : y.opened = x.opened.map (shB F) := hxy.opened
  rw [ho]
  have hcx : ∀ z ∈ x.opened, Cov z.bp := by rw [hx]; exact hc.1
  refine P2.bind (closeLoop_l hP _ x.opened to rA rB _ _ hcx h hc.2) (fun _ _ sA2 sB2 ⟨h2, hk2⟩ => ?_)
  simp only [List.length_map]
  have fin : ∀ u : List Block, (∀ z ∈ u, z ∈ x.opened) →
      P2 (fun _ _ sA' sB' => SRL F b rA rB sA' sB' ∧ AI Cov sA')
        (modPc (fun pc => { pc with opened := u }) sA2) (modPc (fun pc => { pc with opened := u.map (shB F) }) sB2) := by
    intro u hu
    refine (modPc_l h2 _ _ (fun x y hxy => ctxRel_opened hxy u)).withL (fun a sA' e => ?_)
    unfold modPc at e; cases e
    exact ⟨fun z hz => hcx z (hu z hz), hk2⟩
  by_cases hf : (frm == (x.opened.length : Int) - 1) = true
  · rw [if_pos hf, if_pos hf]
    refine P2.bind (P := fun (u v : List Block) sA' sB' => v = u.map (shB F) ∧ (∀ z ∈ u, z ∈ x.opened) ∧ sA2 = sA' ∧ sB2 = sB')
      (P2.liftE (fun u v e1 e2 => ?_)) (fun u v sA3 sB3 ⟨hv, hu, e1, e2⟩ => ?_)
    · rw [slice'_map, e1] at e2; cases e2; exact ⟨rfl, slice'_mem e1, rfl, rfl⟩
    subst hv e1 e2
    exact fin u hu
  · rw [if_neg hf, if_neg hf]
    refine P2.bind (P := fun (u v : List Block) sA' sB' => v = u.map (shB F) ∧ (∀ z ∈ u, z ∈ x.opened) ∧ sA2 = sA' ∧ sB2 = sB')
      (P2.liftE (fun u v e1 e2 => ?_)) (fun u v sA3 sB3 ⟨hv, hu, e1, e2⟩ => ?_)
    · rw [slice'_map, e1] at e2; cases e2; exact ⟨rfl, slice'_mem e1, rfl, rfl⟩
    subst hv e1 e2
    refine P2.bind (P := fun (u v : List Block) sA' sB' => v = u.map (shB F) ∧ (∀ z ∈ u, z ∈ x.opened) ∧ sA2 = sA' ∧ sB2 = sB')
      (P2.liftE (fun u v e1 e2 => ?_)) (fun u2 v2 sA3 sB3 ⟨hv, hu2, e1, e2⟩ => ?_)
    · rw [slice'_map, e1] at e2; cases e2; exact ⟨rfl, slice'_mem e1, rfl, rfl⟩
    subst hv e1 e2
    refine P2.bind (P := fun (u v : List Block) sA' sB' => v = u.map (shB F) ∧ (∀ z ∈ u, z ∈ x.opened) ∧ sA2 = sA' ∧ sB2 = sB')
      (P2.pure ⟨by simp, ?_, rfl, rfl⟩) (fun u3 v3 sA3 sB3 ⟨hv, hu3, e1, e2⟩ => ?_)
    · intro z hz
      rcases List.mem_append.mp hz with hz | hz
      · exact hu z hz
      · exact hu2 z hz
    subst hv e1 e2
    exact fin u3 hu3

/-! ### `closeBlocks` only removes open blocks (one run) -/

theorem bind_ok_inv {α β} {m : M α} {f : α → M β} {s s'' : St} {y : β} (h : (m >>= f) s = .ok (y, s'')) :
    ∃ a s', m s = .ok (a, s') ∧ f a s' = .ok (y, s'') := by
  have h' : StateT.bind m f s = .ok (y, s'') := h
  unfold StateT.bind at h'
  cases hm : m s with
  | error e => rw [hm] at h'; cases h'
  | ok x => rw [hm] at h'; exact ⟨x.1, x.2, rfl, h'⟩

theorem closeLoop_openedIs (L : List Block) (blocks : List Block) (to : Int) :
    ∀ k, Keeps (OpenedIs L) (closeLoop blocks to k) := by
  have hb := fun bp n => bpClose_keeps (openedIs_frame L).mods bp n
  intro k
  induction k with
  | zero => unfold closeLoop; keeps
  | succ k ih => unfold closeLoop; keeps

theorem liftE_ok_inv {α} {e : Except Panic α} {s s' : St} {a : α} (h : GM.Blocks.liftE e s = .ok (a, s')) :
    e = .ok a ∧ s' = s := by
  unfold GM.Blocks.liftE at h
  cases e with
  | error x => cases h
  | ok v => cases h; exact ⟨rfl, rfl⟩

/-! ### the candidate loop of openBlocks: `tryParsers` restated with named join points -/

/-- parser.go:1005-1013 -/
def tpJp2 (parent node : Nat) (bp : BP) (state : PState) (lastBlock : Option Block) :
    M (TryOutcome × OpenResult × Option Block) := do
  appendChild parent node
  modPc fun pc => { pc with opened := pc.opened ++ [{ node := node, bp := bp }] }
  if state.hasChildren = true then pure (TryOutcome.retry node, OpenResult.newBlocksOpened, lastBlock)
  else pure (TryOutcome.done, OpenResult.newBlocksOpened, lastBlock)

/-- parser.go:997-1004 -/
def tpJp1 (parent node : Nat) (bp : BP) (state : PState) (lastBlock : Option Block) (blankLine : Bool)
    (last : Option Nat) : M (TryOutcome × OpenResult × Option Block) := do
  modNode node fun n => { n with blankPrev := blankLine }
  match last with
  | some l => do
    let ln ← getNode l
    if ln.parent.isNone = true then do
      let pc ← getPc
      closeBlocks ((pc.opened.length : Int) - 1) ((pc.opened.length : Int) - 1)
      tpJp2 parent node bp state lastBlock
    else tpJp2 parent node bp state lastBlock
  | none => tpJp2 parent node bp state lastBlock

/-- parser.go:985-996 after `lastBlock.Parser.Close` -/
def tpJp3 (parent node : Nat) (bp : BP) (state : PState) (lastBlock : Option Block) (blankLine : Bool)
    (last : Option Nat) (lb : Block) (blocks : List Block) : M (TryOutcome × OpenResult × Option Block) := do
  modPc fun pc => { pc with opened := blocks.dropLast }
  let ln ← getNode lb.node
  if (ln.kind != Kind.paragraph) = true then do
    let _ ← (throw Panic.assert : M Unit)
    tpJp1 parent node bp state lastBlock blankLine last
  else tpJp1 parent node bp state lastBlock blankLine last

/-- parser.go:981-1013: a parser answered a node -/
def tpSome (parent node : Nat) (bp : BP) (state : PState) (lastBlock : Option Block) (blankLine : Bool)
    (last : Option Nat) : M (TryOutcome × OpenResult × Option Block) :=
  if state.requirePara = true then do
    let pn ← getNode parent
    if (last == pn.children.getLast?) = true then
      match lastBlock with
      | none => do
        let _ ← (throw Panic.nil : M Unit)
        tpJp1 parent node bp state lastBlock blankLine last
      | some lb => do
        bpClose lb.bp lb.node
        let pc ← getPc
        if (pc.opened.length == 0) = true then do
          let _ ← (throw Panic.slice : M Unit)
          tpJp3 parent node bp state lastBlock blankLine last lb pc.opened
        else tpJp3 parent node bp state lastBlock blankLine last lb pc.opened
    else tpJp1 parent node bp state lastBlock blankLine last
  else tpJp1 parent node bp state lastBlock blankLine last

theorem tryParsers_cons (parent : Nat) (blankLine continuable : Bool) (w : Int) (bp : BP) (bps : List BP)
    (result : OpenResult) (lastBlock : Option Block) :
    tryParsers parent blankLine continuable w (bp :: bps) result lastBlock =
      (if (continuable && result == OpenResult.noBlocksOpened && !bp.canInterruptParagraph) = true then
        tryParsers parent blankLine continuable w bps result lastBlock
      else if (decide (w > 3) && !bp.canAcceptIndentedLine) = true then
        tryParsers parent blankLine continuable w bps result lastBlock
      else do
        let lastBlock ← lastOpenedBlock
        let x ← bpOpen bp parent
        match x.1 with
        | none => tryParsers parent blankLine continuable w bps result lastBlock
        | some node => tpSome parent node bp x.2 lastBlock blankLine (lastBlock.map (·.node))) := by
  rw [tryParsers]
  rfl

/-- the outcome of the candidate loop in run B -/
def shO (F : Frame) : TryOutcome → TryOutcome
  | .retry p => .retry (F.ι p)
  | .done => .done

/-- what the "a node was opened" paths establish -/
def TpQ (F : Frame) (b : Bytes) (Cov : BP → Prop) (rA rB : Reader) (node : Nat) (state : PState)
    (lastBlock : Option Block) (x y : TryOutcome × OpenResult × Option Block) (sA' sB' : St) : Prop :=
  x = ((if state.hasChildren = true then TryOutcome.retry node else TryOutcome.done), OpenResult.newBlocksOpened, lastBlock) ∧
  y = (shO F x.1, x.2.1, x.2.2.map (shB F)) ∧ SRL F b rA rB sA' sB' ∧ AI Cov sA' ∧ sA'.pc.opened ≠ []

theorem modNode_opened (id : Nat) (f : Node → Node) (s s' : St) (a : Unit) (h : modNode id f s = .ok (a, s')) :
    s'.pc.opened = s.pc.opened := by
  unfold modNode at h; cases h; rfl

theorem tpJp2_p2 (hF : F.OK) {rA rB : Reader} {sA sB : St} (parent node : Nat) (bp : BP) (state : PState)
    (lastBlock : Option Block) (h : SRL F b rA rB sA sB) (hc : AI Cov sA) (hbp : Cov bp) :
    P2 (TpQ F b Cov rA rB node state lastBlock) (tpJp2 parent node bp state lastBlock sA)
      (tpJp2 (F.ι parent) (F.ι node) bp state (lastBlock.map (shB F)) sB) := by
  unfold tpJp2
  refine P2.bind ((appendChild_l hF h parent node).withL (R := fun _ sA' => sA'.pc.opened = sA.pc.opened ∧ KeysEq sA sA')
    (fun a sA' e => ⟨appendChild_opened _ _ _ _ _ e, appendChild_keysEq _ _ _ _ _ e⟩)) (fun _ _ sA1 sB1 ⟨h1, ho1, hk1⟩ => ?_)
  refine P2.bind (P := fun _ _ sA' sB' => SRL F b rA rB sA' sB' ∧
      (sA'.pc.opened = sA1.pc.opened ++ [{ node := node, bp := bp }] ∧ KeysEq sA1 sA'))
    ?_ (fun _ _ sA2 sB2 ⟨h2, ho2, hk2⟩ => ?_)
  · refine (modPc_l h1 _ _ (fun x y hxy => ?_)).withL (fun a sA' e => ?_)
    · have := ctxRel_opened hxy (x.opened ++ [{ node := node, bp := bp }])
      rw [hxy.opened]
      simpa [shB] using this
    · unfold modPc at e; cases e; exact ⟨rfl, rfl, rfl, rfl, rfl⟩
  · have hai : AI Cov sA2 := by
      refine ⟨?_, (hk1.trans hk2).off hc.2⟩
      intro x hx
      rw [ho2, ho1] at hx
      rcases List.mem_append.mp hx with hx | hx
      · exact hc.1 x hx
      · simp at hx; subst hx; exact hbp
    have hne : sA2.pc.opened ≠ [] := by rw [ho2]; simp
    by_cases hh : state.hasChildren = true
    · rw [if_pos hh, if_pos hh]
      exact P2.pure ⟨by rw [if_pos hh], by simp [shO], h2, hai, hne⟩
    · rw [if_neg hh, if_neg hh]
      exact P2.pure ⟨by rw [if_neg hh], by simp [shO], h2, hai, hne⟩

theorem tpJp1_p2 (hP : PSim F b Cov) (hF : F.OK) {rA rB : Reader} {sA sB : St} (parent node : Nat) (bp : BP)
    (state : PState) (lastBlock : Option Block) (blankLine : Bool) (last : Option Nat)
    (h : SRL F b rA rB sA sB) (hc : AI Cov sA) (hbp : Cov bp) :
    P2 (TpQ F b Cov rA rB node state lastBlock) (tpJp1 parent node bp state lastBlock blankLine last sA)
      (tpJp1 (F.ι parent) (F.ι node) bp state (lastBlock.map (shB F)) blankLine (last.map F.ι) sB) := by
  unfold tpJp1
  refine P2.bind ((modNode_l h node (fun n => { n with blankPrev := blankLine }) (fun n => { n with blankPrev := blankLine }) (fun a => by simp [shN]) (fun _ => rfl)).withL
    (R := fun _ sA' => sA'.pc = sA.pc) (fun a sA' e => by unfold modNode at e; cases e; rfl))
    (fun _ _ sA1 sB1 ⟨h1, ho1⟩ => ?_)
  have hc1 : AI Cov sA1 := hc.eqo (by rw [ho1]) (KeysEq.of_pc ho1)
  cases last with
  | none => exact tpJp2_p2 hF parent node bp state lastBlock h1 hc1 hbp
  | some l =>
    simp only [Option.map_some]
    refine P2.bind (getNode_l h1 l) (fun ln lm sA2 sB2 ⟨_, hm, e1, e2⟩ => ?_)
    subst e1 e2 hm
    have hp : (shN F (l == 0) ln).parent.isNone = ln.parent.isNone := by
      rw [shN_parent]; cases ln.parent <;> rfl
    rw [hp]
    by_cases hn : ln.parent.isNone = true
    · rw [if_pos hn, if_pos hn]
      refine P2.bind (getPc_l h1) (fun x y sA3 sB3 ⟨hx, hy, hxy, e1, e2⟩ => ?_)
      subst e1 e2
      have hlen : (y.opened.length : Int) = x.opened.length := by rw [hxy.opened, List.length_map]
      rw [hlen]
      refine P2.bind (closeBlocks_l2 hP _ _ hc1 h1) (fun _ _ sA4 sB4 ⟨h4, hc4⟩ => ?_)
      exact tpJp2_p2 hF parent node bp state lastBlock h4 hc4 hbp
    · rw [if_neg hn, if_neg hn]
      exact tpJp2_p2 hF parent node bp state lastBlock h1 hc1 hbp

theorem P2.throwBindL {α α' β : Type} {Q : α' → β → St → St → Prop} {e : Panic} {f : α → M α'} {sA : St}
    {y : Except Panic (β × St)} : P2 Q (((throw e : M α) >>= f) sA) y := by
  intro a sA' b' sB' h
  exact absurd h (by intro h'; cases h')

theorem getLast_cond (hF : F.OK) (root : Bool) (ch : List Nat) (l : Nat) :
    (some (F.ι l) == (kidsB F root ch).getLast?) = (some l == ch.getLast?) := by
  unfold kidsB
  cases hch : ch.getLast? with
  | none =>
    have : ch = [] := List.getLast?_eq_none_iff.mp hch
    subst this
    simp only [List.map_nil, List.append_nil]
    cases hk : (if root = true then F.kids0 else []).getLast? with
    | none => rfl
    | some k =>
      have hm : k ∈ (if root = true then F.kids0 else []) := List.mem_of_getLast? hk
      have hne : F.ι l ≠ k := fun e => ι_not_kid F hF l (e ▸ kidsB_pre F root k hm)
      simp [hne]
  | some c =>
    rw [List.getLast?_append, List.getLast?_map, hch]
    simp only [Option.map_some, Option.or, Option.some_beq_some, ι_beq]

theorem getLast_cond_none (root : Bool) (ch : List Nat) (h : (none == ch.getLast?) = false) :
    ((none : Option Nat) == (kidsB F root ch).getLast?) = false := by
  unfold kidsB
  cases hch : ch.getLast? with
  | none => rw [hch] at h; simp at h
  | some c =>
    rw [List.getLast?_append, List.getLast?_map, hch]
    rfl

theorem tpJp3_p2 (hP : PSim F b Cov) (hF : F.OK) {rA rB : Reader} {sA sB : St} (parent node : Nat) (bp : BP)
    (state : PState) (lastBlock : Option Block) (blankLine : Bool) (last : Option Nat) (lb : Block) (blocks : List Block)
    (h : SRL F b rA rB sA sB) (hc : ∀ x ∈ blocks, Cov x.bp) (hk : KeysOff sA) (hbp : Cov bp) :
    P2 (TpQ F b Cov rA rB node state lastBlock) (tpJp3 parent node bp state lastBlock blankLine last lb blocks sA)
      (tpJp3 (F.ι parent) (F.ι node) bp state (lastBlock.map (shB F)) blankLine (last.map F.ι) (shB F lb)
        (blocks.map (shB F)) sB) := by
  unfold tpJp3
  refine P2.bind (P := fun _ _ sA' sB' => SRL F b rA rB sA' sB' ∧ (sA'.pc.opened = blocks.dropLast ∧ KeysEq sA sA')) ?_
    (fun _ _ sA1 sB1 ⟨h1, ho1, hk1⟩ => ?_)
  · refine (modPc_l h _ _ (fun x y hxy => ?_)).withL (fun a sA' e => ?_)
    · have := ctxRel_opened hxy blocks.dropLast
      simpa [List.map_dropLast] using this
    · unfold modPc at e; cases e; exact ⟨rfl, rfl, rfl, rfl, rfl⟩
  have hc1 : AI Cov sA1 := ⟨fun x hx => hc x (List.dropLast_subset _ (ho1 ▸ hx)), hk1.off hk⟩
  refine P2.bind (getNode_l h1 lb.node) (fun ln lm sA2 sB2 ⟨_, hm, e1, e2⟩ => ?_)
  subst e1 e2 hm
  rw [shN_kind]
  by_cases hk : (ln.kind != Kind.paragraph) = true
  · rw [if_pos hk, if_pos hk]; exact P2.throwBindL
  · rw [if_neg hk, if_neg hk]
    exact tpJp1_p2 hP hF parent node bp state lastBlock blankLine last h1 hc1 hbp

theorem tpSome_p2 (hP : PSim F b Cov) (hF : F.OK) {rA rB : Reader} {sA sB : St} (parent node : Nat) (bp : BP)
    (state : PState) (lastBlock : Option Block) (blankLine : Bool)
    (h : SRL F b rA rB sA sB) (hc : AI Cov sA) (hbp : Cov bp) (hlb : ∀ l, lastBlock = some l → Cov l.bp) :
    P2 (TpQ F b Cov rA rB node state lastBlock)
      (tpSome parent node bp state lastBlock blankLine (lastBlock.map (·.node)) sA)
      (tpSome (F.ι parent) (F.ι node) bp state (lastBlock.map (shB F)) blankLine
        ((lastBlock.map (shB F)).map (·.node)) sB) := by
  have hlast : (lastBlock.map (shB F)).map (·.node) = (lastBlock.map (·.node)).map F.ι := by
    cases lastBlock <;> rfl
  rw [hlast]
  unfold tpSome
  by_cases hr : state.requirePara = true
  · rw [if_pos hr, if_pos hr]
    refine P2.bind (getNode_l h parent) (fun pn pm sA1 sB1 ⟨_, hm, e1, e2⟩ => ?_)
    subst e1 e2 hm
    rw [shN_children]
    cases lastBlock with
    | none =>
      simp only [Option.map_none]
      by_cases hcond : ((none : Option Nat) == pn.children.getLast?) = true
      · rw [if_pos hcond]; exact P2.throwBindL
      · have hcond' : ((none : Option Nat) == pn.children.getLast?) = false := by simpa using hcond
        rw [if_neg hcond, getLast_cond_none (F := F) _ _ hcond', if_neg (by simp)]
        exact tpJp1_p2 hP hF parent node bp state none blankLine none h hc hbp
    | some lb =>
      simp only [Option.map_some]
      have e : (shB F lb).node = F.ι lb.node := rfl
      rw [show (some (F.ι lb.node) == (kidsB F (parent == 0) pn.children).getLast?) =
        (some lb.node == pn.children.getLast?) from getLast_cond hF _ _ _]
      by_cases hcond : (some lb.node == pn.children.getLast?) = true
      · rw [if_pos hcond, if_pos hcond]
        refine P2.bind ((hP.cl lb.bp (hlb lb rfl) lb.node rA rB _ _ h).withL (R := fun _ sA' => sA'.pc.opened = sA1.pc.opened ∧ KeysEq sA1 sA')
          (fun a sA' e => ⟨bpClose_opened _ _ _ _ _ e, hP.keysCl lb.bp (hlb lb rfl) lb.node _ _ a e⟩))
          (fun _ _ sA2 sB2 ⟨h2, ho2, hk2⟩ => ?_)
        have hc2 : AI Cov sA2 := hc.eqo ho2 hk2
        refine P2.bind (getPc_l h2) (fun x y sA3 sB3 ⟨hx, hy, hxy, e1, e2⟩ => ?_)
        subst e1 e2
        have ho : y.opened = x.opened.map (shB F) := hxy.opened
        rw [ho, List.length_map]
        have hcb : ∀ z ∈ x.opened, Cov z.bp := by rw [hx]; exact hc2.1
        by_cases hz : (x.opened.length == 0) = true
        · rw [if_pos hz, if_pos hz]; exact P2.throwBindL
        · rw [if_neg hz, if_neg hz]
          exact tpJp3_p2 hP hF parent node bp state (some lb) blankLine (some lb.node) lb x.opened h2 hcb hc2.2 hbp
      · rw [if_neg hcond, if_neg hcond]
        exact tpJp1_p2 hP hF parent node bp state (some lb) blankLine (some lb.node) h hc hbp
  · rw [if_neg hr, if_neg hr]
    exact tpJp1_p2 hP hF parent node bp state lastBlock blankLine _ h hc hbp

/-- what one run of the candidate loop establishes (`sA0`: run A's state at its start, `resIn`: the `result` it got) -/
structure TryPost (F : Frame) (b : Bytes) (Cov : BP → Prop) (sA0 : St) (resIn : OpenResult)
    (x : TryOutcome × OpenResult × Option Block) (sA' sB' : St) : Prop where
  lim : SRLim F b sA' sB'
  ai : AI Cov sA'
  lb : ∀ l, x.2.2 = some l → Cov l.bp
  sr : ((∃ p, x.1 = .retry p) ∨ x.2.1 = .noBlocksOpened) → SR F b sA' sB'
  line : sA0.r.line ≤ sA'.r.line
  hasLine : x.2.1 = .noBlocksOpened → HL b sA'
  hasLineR : (∃ p, x.1 = .retry p) → HL b sA'
  ne : x.2.1 = .newBlocksOpened → (resIn = .newBlocksOpened → sA0.pc.opened ≠ []) → sA'.pc.opened ≠ []

theorem hasLine_of_pos {sA sA1 : St} (hl : HasLine b sA) (h1 : ∃ c, RI b sA1.r c) (hp : sA1.r.pos = sA.r.pos) :
    HasLine b sA1 := by
  obtain ⟨c, hc, hlt⟩ := hl
  obtain ⟨c1, hc1⟩ := h1
  refine ⟨c1, hc1, ?_⟩
  have e1 := hc.pos
  have e2 := hc1.pos
  rw [hp, e1] at e2
  have : (c.p : Int) = c1.p := by
    have := congrArg Segment.start e2; simpa using this
  omega

theorem hl_of_pos {sA sA1 : St} (hl : HL b sA) (h1 : ∃ c, RI b sA1.r c) (hp : sA1.r.pos = sA.r.pos) :
    HL b sA1 :=
  ⟨hasLine_of_pos hl.1 h1 hp, hl.2.of_pos h1 hp⟩

theorem tryParsers_p2 (hP : PSim F b Cov) (hF : F.OK) (hq : QNL F b) (parent : Nat) (blankLine continuable : Bool) (w : Int) :
    ∀ (bps : List BP) (result : OpenResult) (lastBlock : Option Block) (sA sB : St),
      (∀ bp ∈ bps, Cov bp) → (∀ l, lastBlock = some l → Cov l.bp) → SR F b sA sB → HL b sA → AI Cov sA →
      P2 (fun x y sA' sB' => y = (shO F x.1, x.2.1, x.2.2.map (shB F)) ∧ TryPost F b Cov sA result x sA' sB')
        (tryParsers parent blankLine continuable w bps result lastBlock sA)
        (tryParsers (F.ι parent) blankLine continuable w bps result (lastBlock.map (shB F)) sB) := by
  intro bps
  induction bps with
  | nil =>
    intro result lastBlock sA sB _ hlb h hl hc
    unfold tryParsers
    exact P2.pure ⟨rfl, h.limbo hq, hc, hlb, fun _ => h, Int.le_refl _, fun _ => hl, fun _ => hl, fun e he => he e⟩
  | cons bp bps ih =>
    intro result lastBlock sA sB hbps hlb h hl hc
    have hbp : Cov bp := hbps bp List.mem_cons_self
    have hbps' : ∀ q ∈ bps, Cov q := fun q hq => hbps q (List.mem_cons_of_mem _ hq)
    rw [tryParsers_cons, tryParsers_cons]
    by_cases c1 : (continuable && result == OpenResult.noBlocksOpened && !bp.canInterruptParagraph) = true
    · rw [if_pos c1, if_pos c1]; exact ih result lastBlock sA sB hbps' hlb h hl hc
    rw [if_neg c1, if_neg c1]
    by_cases c2 : (decide (w > 3) && !bp.canAcceptIndentedLine) = true
    · rw [if_pos c2, if_pos c2]; exact ih result lastBlock sA sB hbps' hlb h hl hc
    rw [if_neg c2, if_neg c2]
    refine P2.bind (lastOpenedBlock_p2 h) (fun x0 y0 sA0 sB0 ⟨hx0, hy0, e1, e2⟩ => ?_)
    subst e1 e2 hy0
    have hlb0 : ∀ l, x0 = some l → Cov l.bp := by
      intro l hl0
      rw [hx0] at hl0
      exact hc.1 l (List.mem_of_getLast? hl0)
    refine P2.bind (((hP.op bp hbp parent _ _ h hl.1).withL
      (R := fun a sA' => sA'.pc.opened = sA0.pc.opened ∧ sA0.r.line ≤ sA'.r.line ∧ (a.1 = none → sA'.r.pos = sA0.r.pos) ∧
        KeysEq sA0 sA' ∧ (a.2.hasChildren = true → HL b sA'))
      (fun a sA' e => ⟨bpOpen_opened _ _ _ _ _ e, bpOpen_line _ _ _ _ _ e, bpOpen_none_pos _ _ _ _ _ e,
        hP.keysO bp hbp parent _ _ a e, hP.strictO bp hbp parent _ _ a hl e⟩)))
      (fun x y sA1 sB1 ⟨⟨hy, hlim, hsr, _⟩, ho1, hline1, hpos1, hk1, hstr1⟩ => ?_)
    subst hy
    have hc1 : AI Cov sA1 := hc.eqo ho1 hk1
    cases hx1 : x.1 with
    | none =>
      simp only [Option.map_none]
      have h1 : SR F b sA1 sB1 := hsr (.inr hx1)
      have hl1 : HL b sA1 := hl_of_pos hl h1.ri (hpos1 hx1)
      refine (ih result x0 sA1 sB1 hbps' hlb0 h1 hl1 hc1).mono (fun u v sA' sB' ⟨hv, hpost⟩ => ⟨hv, ?_⟩)
      exact ⟨hpost.lim, hpost.ai, hpost.lb, hpost.sr, Int.le_trans hline1 hpost.line, hpost.hasLine, hpost.hasLineR,
        fun e he => hpost.ne e (fun e' => ho1 ▸ he e')⟩
    | some node =>
      simp only [Option.map_some]
      refine (tpSome_p2 hP hF parent node bp x.2 x0 blankLine hlim.1 hc1 hbp hlb0).mono
        (fun u v sA' sB' ⟨hu, hv, h', hai, hne⟩ => ⟨hv, ?_⟩)
      have era := h'.ra
      refine ⟨SRLim.of_l hlim h', hai, ?_, ?_, ?_, ?_, ?_, fun _ _ => hne⟩
      · intro l hl'; rw [hu] at hl'; exact hlb0 l hl'
      · intro hcase
        have hh : x.2.hasChildren = true := by
          rcases hcase with ⟨p, hp⟩ | hp
          · rw [hu] at hp
            by_cases hh : x.2.hasChildren = true
            · exact hh
            · simp [hh] at hp
          · rw [hu] at hp; cases hp
        exact SRL.sr (hsr (.inl hh)) h'
      · rw [era]; exact hline1
      · intro e; rw [hu] at e; cases e
      · intro ⟨p, hp⟩
        rw [hu] at hp
        have hh : x.2.hasChildren = true := by
          by_cases hh : x.2.hasChildren = true
          · exact hh
          · simp [hh] at hp
        exact (hstr1 hh).of_r era

/-- the interface of `openBlocks` under the relation (proved in GM.Proof.ShiftSimXOpen): from weakly related states
    (BlockOffset / BlockIndent need not agree) same answer, afterwards at least the limbo relation; run A's open blocks
    stay covered, its line counter does not decrease, and `newBlocksOpened` means a block is open -/
def OpenBlocksSim (F : Frame) (b : Bytes) (Cov : BP → Prop) : Prop :=
  ∀ (parent : Nat) (blank : Bool) (sA sB : St), SRw F b sA sB → AI Cov sA → HL b sA →
    P2 (fun x y sA' sB' => y = x ∧ SRLim F b sA' sB' ∧ AI Cov sA' ∧ sA.r.line ≤ sA'.r.line ∧
        (x = OpenResult.newBlocksOpened → sA'.pc.opened ≠ []))
      (openBlocks parent blank sA) (openBlocks (F.ι parent) blank sB)

end GM.Blocks.Xs
