/-
  GM.Proof.QuoteSimPara — one-line-step simulation of the paragraph parser (parser/paragraph.go) and the
  shape every per-parser lemma has: `OpenSim` / `ContinueSim` / `CloseSim`.
-/
import GM.Proof.QuoteSimOps

namespace GM.Blocks
open GM GM.Text GM.Spec GM.Proof.Reader

/-- the answers of `Open` in run A and run B: same state bits, no node or the same node (shifted id) -/
def OpenRel (a b : Option Nat × PState) : Prop :=
  b.2 = a.2 ∧ ((a.1 = none ∧ b.1 = none) ∨ ∃ n, n ≠ 0 ∧ a.1 = some n ∧ b.1 = some (n + 1))

/-- `Open` of a block parser is simulated: from related states inside line `k`, with parents `parent` /
    `parent + 1`, if it ends normally in A it does in B, with related answers, in related states further right
    on the same line. -/
def OpenSim (src : Bytes) (bp : BP) : Prop := ∀ k ls p parent sA sB, SR src k ls p sA sB →
  S2 (fun a b sA' sB' => OpenRel a b ∧ ∃ p', p ≤ p' ∧ SR src k ls p' sA' sB')
    (bpOpen bp parent sA) (bpOpen bp (parent + 1) sB)

def ContinueSim (src : Bytes) (bp : BP) : Prop := ∀ k ls p node sA sB, SR src k ls p sA sB →
  S2 (fun a b sA' sB' => b = a ∧ ∃ p', p ≤ p' ∧ SR src k ls p' sA' sB')
    (bpContinue bp node sA) (bpContinue bp (node + 1) sB)

def CloseSim (src : Bytes) (bp : BP) : Prop := ∀ k ls p node sA sB, SR src k ls p sA sB →
  S2 (fun _ _ sA' sB' => SR src k ls p sA' sB') (bpClose bp node sA) (bpClose bp (node + 1) sB)

theorem appendLine_s2 {src k ls p} {sA sB : St} (h : SR src k ls p sA sB) (id : Nat) {s t : Segment}
    (hst : SegRel src s t) (hne : s.start < s.stop ∨ rawK (sA.nodes.getD id default).kind = false) :
    S2 (fun _ _ sA' sB' => SR src k ls p sA' sB') (appendLine id s sA) (appendLine (id + 1) t sB) := by
  unfold appendLine
  refine modNode_s2' h id _ _ (fun hab => ?_)
  refine { hab with lines := SegsRel.append hab.lines hst, linesNil := rfl, rawNE := fun hr l hl => ?_ }
  rcases List.mem_append.mp hl with hl | hl
  · exact hab.rawNE hr l hl
  · simp only [List.mem_singleton] at hl
    rcases hne with hne | hne
    · rw [hl]; exact hne
    · rw [hne] at hr; cases hr

theorem paragraphOpen_sim (src : Bytes) : OpenSim src .paragraph := by
  intro k ls p parent sA sB h
  show S2 _ (paragraphOpen parent sA) (paragraphOpen (parent + 1) sB)
  unfold paragraphOpen
  refine S2.bind (peekLine_s2 h) (fun a b sA1 sB1 hq => ?_)
  obtain ⟨ha, hb, h1⟩ := hq
  subst ha hb
  refine S2.bind (source_s2 h1) (fun a b sA2 sB2 hq => ?_)
  obtain ⟨ha, hb, h2⟩ := hq
  rw [ha, hb]
  obtain ⟨t, e1, e2, t1, t2, t3, t4⟩ := trimLeftSpace_q (segA_in h.r.inl)
  refine S2.bind (P := fun a b sA' sB' => a = t ∧ b = shK k t ∧ SR src k ls p sA' sB')
    (S2.liftE (fun a ha => ⟨shK k t, e2, by rw [e1] at ha; cases ha; exact ⟨rfl, rfl, h2⟩⟩)) (fun a b sA3 sB3 hq => ?_)
  obtain ⟨ha, hb, h3⟩ := hq
  subst ha hb
  have hemp : (shK k a).isEmpty = a.isEmpty := by
    simp only [Segment.isEmpty, shK]
    congr 1
    exact decide_eq_decide.mpr (by constructor <;> intro _ <;> omega)
  rw [hemp]
  by_cases hc : a.isEmpty = true
  · rw [if_pos hc, if_pos hc]
    exact S2.pure ⟨⟨rfl, .inl ⟨rfl, rfl⟩⟩, p, Nat.le_refl _, h3⟩
  · rw [if_neg hc, if_neg hc]
    have hlt : a.start < a.stop := by
      simp only [Segment.isEmpty, t3, Bool.and_eq_true, decide_eq_true_eq, beq_self_eq_true, and_true] at hc
      omega
    have hin : SegIn src k ls a := by
      have hs := segA_in h.r.inl
      exact ⟨hs.line, by have := hs.ge; omega, by omega, by rw [t1]; exact hs.stop⟩
    have hseg : SegRel src a (shK k a) := segRel_of_in hin (by have := hin.stop; omega)
    refine S2.bind (newNode_s2 h3 _ _ (nodeRel_new src { kind := .paragraph } rfl rfl rfl rfl (by decide)))
      (fun n m sA4 sB4 hq => ?_)
    obtain ⟨_, hm, hn0, h4⟩ := hq
    subst hm
    refine S2.bind (appendLine_s2 h4 n hseg (.inl hlt)) (fun _ _ sA5 sB5 h5 => ?_)
    have hlen : (shK k a).len = a.len := by simp only [Segment.len, shK]; omega
    have hst : a.stop = lineEnd src ls := by rw [t1]; rfl
    have hsa : (p : Int) ≤ a.start := by have : (segA src ls p).start = p := rfl; omega
    refine S2.bind (advance_s2 h5 (by rw [hlen]) (by simp only [Segment.len, t3]; omega) ?_) (fun _ _ sA6 sB6 h6 => ?_)
    · have hi := h.r.inl
      refine ⟨hi.line, by have := hi.ge; omega, ?_, fun e => ?_⟩
      · simp only [Segment.len, t3]; omega
      · exfalso; simp only [Segment.len, t3] at e; omega
    · exact S2.pure ⟨⟨rfl, .inr ⟨n, hn0, rfl, rfl⟩⟩, _, Nat.le_add_right _ _, h6⟩

theorem paragraphContinue_sim (src : Bytes) : ContinueSim src .paragraph := by
  intro k ls p node sA sB h
  show S2 _ (paragraphContinue node sA) (paragraphContinue (node + 1) sB)
  unfold paragraphContinue
  refine S2.bind (peekLine_s2 h) (fun a b sA1 sB1 hq => ?_)
  obtain ⟨ha, hb, h1⟩ := hq
  subst ha hb
  simp only
  by_cases hc : isBlank ((viewA src ls p).getD []) = true
  · rw [if_pos hc, if_pos hc]
    exact S2.pure ⟨rfl, p, Nat.le_refl _, h1⟩
  · rw [if_neg hc, if_neg hc]
    have hi := h.r.inl
    have hplt : p < lineEnd src ls := by
      rcases Nat.lt_or_ge p (lineEnd src ls) with h' | h'
      · exact h'
      · exfalso; apply hc; simp [viewA, Nat.not_lt.mpr h', isBlank]
    have hin := segA_in hi
    have hseg : SegRel src (segA src ls p) (shK k (segA src ls p)) := segRel_of_in hin (by simp [segA]; exact hplt)
    refine S2.bind (appendLine_s2 h1 node hseg (.inl (by simp only [segA]; omega))) (fun _ _ sA5 sB5 h5 => ?_)
    have hlen : (shK k (segA src ls p)).len = (segA src ls p).len := by simp only [Segment.len, shK]; omega
    refine S2.bind (advance_s2 h5 (by rw [hlen]) (by simp only [Segment.len, segA]; omega) ?_) (fun _ _ sA6 sB6 h6 => ?_)
    · refine ⟨hi.line, by have := hi.ge; omega, ?_, fun e => ?_⟩
      · simp only [Segment.len, segA]; omega
      · exfalso; simp only [Segment.len, segA] at e; omega
    · exact S2.pure ⟨rfl, _, Nat.le_add_right _ _, h6⟩

end GM.Blocks
