/-
  GM.Proof.QuoteSimFirst — the first line of run B (`parseBlocks` on `quotePrefix src`): `openBlocks` opens the
  Blockquote below the Document, consumes exactly `"> "` and retries with the Blockquote as parent (exact
  execution; the contract monitor of the retry loop does not fire).
-/
import GM.Proof.QuoteSimRun

namespace GM.Blocks
open GM GM.Text GM.Spec GM.Proof.Reader

/-- blockquoteParser.Open on B at the start of line `k` -/
theorem bqOpen_marker {src k ls} (hl : LineAt src k ls) {sB : St}
    (hb : RI (quotePrefix src) sB.r ⟨k, ls + 2 * k, 0⟩) (p : Nat) :
    ∃ r', blockquoteOpen p sB = .ok ((some sB.nodes.length, stHasChildren),
        { sB with r := r', nodes := sB.nodes ++ [{ kind := .blockquote }] }) ∧
      RI (quotePrefix src) r' ⟨k, ls + 2 * (k + 1), 0⟩ := by
  obtain ⟨r', e, h'⟩ := bqProcess_marker hl hb
  refine ⟨r', ?_, h'⟩
  unfold blockquoteOpen
  rw [bind_run e]
  rfl

theorem tryParsers_first {src : Bytes} (hl : LineAt src 0 0) {s : St} (h : RI (quotePrefix src) s.r ⟨0, 0, 0⟩)
    (hn : s.nodes = [{ kind := .document }]) (ho : s.pc.opened = []) (blank : Bool) (res : OpenResult) (lb : Option Block) :
    ∃ r', RI (quotePrefix src) r' ⟨0, 2, 0⟩ ∧
      tryParsers 0 blank false 0 [.blockquote, .code, .paragraph] res lb s =
        .ok ((.retry 1, .newBlocksOpened, none),
          { r := r',
            nodes := [{ kind := .document, children := [1] }, { kind := .blockquote, parent := some 0, blankPrev := blank }],
            pc := { s.pc with opened := [{ node := 1, bp := .blockquote }] } }) := by
  obtain ⟨r, nodes, pc⟩ := s
  obtain ⟨bo, bi, op, tp, fe, sl, eb, rf⟩ := pc
  simp only at h hn ho
  subst hn ho
  obtain ⟨r', e, h'⟩ := bqOpen_marker (sB := ⟨r, [{ kind := .document }], ⟨bo, bi, [], tp, fe, sl, eb, rf⟩⟩) hl h 0
  refine ⟨r', h', ?_⟩
  have e' : bpOpen .blockquote 0 ⟨r, [{ kind := .document }], ⟨bo, bi, [], tp, fe, sl, eb, rf⟩⟩ =
      .ok ((some 1, stHasChildren), ⟨r', [{ kind := .document }, { kind := .blockquote }], ⟨bo, bi, [], tp, fe, sl, eb, rf⟩⟩) := e
  have pl : lastOpenedBlock ⟨r, [{ kind := .document }], ⟨bo, bi, [], tp, fe, sl, eb, rf⟩⟩ =
      .ok (none, ⟨r, [{ kind := .document }], ⟨bo, bi, [], tp, fe, sl, eb, rf⟩⟩) := rfl
  unfold tryParsers
  simp only [Bool.false_and, Bool.false_eq_true, if_false]
  rw [if_neg (by decide), bind_run pl, bind_run e']
  simp only [stHasChildren, Bool.false_eq_true, ↓reduceIte]
  rfl

theorem openBlocksLoop_first {src : Bytes} (hl : LineAt src 0 0) {s : St} (h : RI (quotePrefix src) s.r ⟨0, 0, 0⟩)
    (hn : s.nodes = [{ kind := .document }]) (ho : s.pc.opened = []) (blank : Bool) (fuel : Nat) :
    ∃ r', RI (quotePrefix src) r' ⟨0, 2, 0⟩ ∧
      openBlocksLoop blank false (fuel + 1) 0 .noBlocksOpened none s =
        openBlocksLoop blank false fuel 1 OpenResult.newBlocksOpened none
          { r := r',
            nodes := [{ kind := .document, children := [1] }, { kind := .blockquote, parent := some 0, blankPrev := blank }],
            pc := { s.pc with blockOffset := 0, blockIndent := 0, opened := [{ node := 1, bp := .blockquote }] } } := by
  obtain ⟨r, nodes, pc⟩ := s
  obtain ⟨bo, bi, op, tp, fe, sl, eb, rf⟩ := pc
  simp only at h hn ho
  subst hn ho
  have hge := qp_length_ge hl
  have hlt := lt_lineEnd src hl.lt
  have hview : RCur.view (quotePrefix src) ⟨0, 0, 0⟩ = some (62 :: 32 :: sub src 0 (lineEnd src 0)) := (view_marker hl).1
  obtain ⟨r1, e1, h1⟩ := ri_peekLine h
  have p1 : peekLine ⟨r, [{ kind := .document }], ⟨bo, bi, [], tp, fe, sl, eb, rf⟩⟩ =
      .ok ((some (62 :: 32 :: sub src 0 (lineEnd src 0)), RCur.seg (quotePrefix src) ⟨0, 0, 0⟩),
        ⟨r1, [{ kind := .document }], ⟨bo, bi, [], tp, fe, sl, eb, rf⟩⟩) := by
    unfold GM.Blocks.peekLine; simp only; rw [e1, hview]; rfl
  obtain ⟨v, r2, e2, h2, _⟩ := ri_lineOffset h1
  have p2 : lineOffset ⟨r1, [{ kind := .document }], ⟨bo, bi, [], tp, fe, sl, eb, rf⟩⟩ =
      .ok (v, ⟨r2, [{ kind := .document }], ⟨bo, bi, [], tp, fe, sl, eb, rf⟩⟩) := by
    unfold GM.Blocks.lineOffset; simp only; rw [e2]; rfl
  obtain ⟨r', h', e3⟩ := tryParsers_first (s := ⟨r2, [{ kind := .document }], ⟨0, 0, [], tp, fe, sl, eb, rf⟩⟩) hl h2 rfl rfl
    blank .noBlocksOpened none
  refine ⟨r', h', ?_⟩
  rw [openBlocksLoop]
  rw [bind_run p1]
  simp only [Option.getD_some]
  rw [bind_run p2]
  simp only [indentWidthI_gt]
  have hlen : ¬ ((0 : Int) ≥ ((62 :: 32 :: sub src 0 (lineEnd src 0)).length : Int)) := by
    simp only [List.length_cons]; omega
  simp only [hlen, ↓reduceIte]
  have pm : (modPc fun pc => { pc with blockOffset := 0, blockIndent := 0 })
      ⟨r2, [{ kind := .document }], ⟨bo, bi, [], tp, fe, sl, eb, rf⟩⟩ =
      .ok ((), ⟨r2, [{ kind := .document }], ⟨0, 0, [], tp, fe, sl, eb, rf⟩⟩) := rfl
  rw [bind_run pm]
  simp only [Option.isNone_some, Bool.false_eq_true, ↓reduceIte]
  have i0 : liftE (idx (62 :: 32 :: sub src 0 (lineEnd src 0)) 0) ⟨r2, [{ kind := .document }], ⟨0, 0, [], tp, fe, sl, eb, rf⟩⟩ =
      .ok ((62 : UInt8), ⟨r2, [{ kind := .document }], ⟨0, 0, [], tp, fe, sl, eb, rf⟩⟩) := rfl
  rw [bind_run i0]
  have c10 : ((62 : UInt8) == 10) = false := by decide
  have hlen' : (0 : Int) < ((62 :: 32 :: sub src 0 (lineEnd src 0)).length : Int) := by
    simp only [List.length_cons]; omega
  simp only [c10, Bool.false_eq_true, ↓reduceIte]
  rw [if_pos hlen', bind_run i0]
  have ht : (triggered 62).getD freeParsers = [.blockquote, .code, .paragraph] := by decide
  simp only [pure_bind, ht]
  have pg : (get : M St) ⟨r2, [{ kind := .document }], ⟨0, 0, [], tp, fe, sl, eb, rf⟩⟩ =
      .ok (⟨r2, [{ kind := .document }], ⟨0, 0, [], tp, fe, sl, eb, rf⟩⟩, ⟨r2, [{ kind := .document }], ⟨0, 0, [], tp, fe, sl, eb, rf⟩⟩) := rfl
  rw [bind_run pg, bind_run e3]
  simp only
  have hb : retryMeasure ⟨r2, [{ kind := .document }], ⟨0, 0, [], tp, fe, sl, eb, rf⟩⟩ = 2 * ((quotePrefix src).length - 0) + 1 := by
    simp only [retryMeasure, lastIsList, h2.source, h2.pos]
    rfl
  have ha : retryMeasure ⟨r', [{ kind := .document, children := [1] }, { kind := .blockquote, parent := some 0, blankPrev := blank }],
      ⟨0, 0, [{ node := 1, bp := .blockquote }], tp, fe, sl, eb, rf⟩⟩ = 2 * ((quotePrefix src).length - 2) + 1 := by
    simp only [retryMeasure, lastIsList, h'.source, h'.pos]
    rfl
  have pg' : (get : M St) ⟨r', [{ kind := .document, children := [1] }, { kind := .blockquote, parent := some 0, blankPrev := blank }],
      ⟨0, 0, [{ node := 1, bp := .blockquote }], tp, fe, sl, eb, rf⟩⟩ =
      .ok (⟨r', [{ kind := .document, children := [1] }, { kind := .blockquote, parent := some 0, blankPrev := blank }],
        ⟨0, 0, [{ node := 1, bp := .blockquote }], tp, fe, sl, eb, rf⟩⟩,
        ⟨r', [{ kind := .document, children := [1] }, { kind := .blockquote, parent := some 0, blankPrev := blank }],
        ⟨0, 0, [{ node := 1, bp := .blockquote }], tp, fe, sl, eb, rf⟩⟩) := rfl
  rw [bind_run pg', ha, hb]
  have hmon : (!decide (2 * ((quotePrefix src).length - 2) + 1 < 2 * ((quotePrefix src).length - 0) + 1)) = false := by
    have : 2 * ((quotePrefix src).length - 2) + 1 < 2 * ((quotePrefix src).length - 0) + 1 := by omega
    simp only [this, decide_true, Bool.not_true]
  rw [hmon]
  rfl

/-- the first line of B: the driver opens the Blockquote, consumes `"> "` and retries below it -/
theorem openBlocks_first {src : Bytes} (hl : LineAt src 0 0) {s : St} (h : RI (quotePrefix src) s.r ⟨0, 0, 0⟩)
    (hn : s.nodes = [{ kind := .document }]) (ho : s.pc.opened = []) (blank : Bool) :
    ∃ r', RI (quotePrefix src) r' ⟨0, 2, 0⟩ ∧
      openBlocks 0 blank s =
        openBlocksLoop blank false (2 * (quotePrefix src).length + 7) 1 OpenResult.newBlocksOpened none
          { r := r',
            nodes := [{ kind := .document, children := [1] }, { kind := .blockquote, parent := some 0, blankPrev := blank }],
            pc := { s.pc with blockOffset := 0, blockIndent := 0, opened := [{ node := 1, bp := .blockquote }] } } := by
  obtain ⟨r', h', e⟩ := openBlocksLoop_first hl h hn ho blank (2 * (quotePrefix src).length + 7)
  refine ⟨r', h', ?_⟩
  rw [← e]
  have pl : lastOpenedBlock s = .ok (none, s) := by
    unfold lastOpenedBlock getPc
    show Except.ok (s.pc.opened.getLast?, s) = _
    rw [ho]; rfl
  have ps : source s = .ok (quotePrefix src, s) := by
    unfold source
    rw [h.source]; rfl
  unfold openBlocks
  rw [bind_run pl]
  simp only [pure_bind]
  rw [bind_run ps]
  rfl

end GM.Blocks
