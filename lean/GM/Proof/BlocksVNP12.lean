-- GENERATED from BlocksTNP12.lean by tools/port_blocks_v.py (package headingids): the same proofs for the monitored driver runV. Do not edit.
/-
  GM.Proof.BlocksTNP12 — the whole block phase WITH paragraph transformers, all ten block parsers, for every source no
  line view of which is a setext heading underline (`NoSetextBar`: the bytes `-` and `=` are allowed): `runV_total_noBar`;
  an underline contains `=` or `-` (`bar_has_trigger`), so `SetextFree src → NoSetextBar src` (`noBar_of_setextFree`):
  `runV_total_noSetext` of GM.Proof.BlocksTNP8 is the special case.
-/
import GM.Proof.BlocksVNP11
import GM.Proof.BlocksVNP8
import GM.Proof.BlocksNoPanicAll
import GM.Proof.BlocksVT

namespace GM.Blocks.TV
open GM GM.Text GM.Spec GM.Proof.Reader

/-- a setext heading underline contains `=` or `-` -/
theorem bar_has_trigger (line : Bytes) (ch : UInt8) (h : matchesSetextHeadingBar line = .ok (ch, true)) :
    (61 : UInt8) ∈ line ∨ (45 : UInt8) ∈ line := by
  unfold matchesSetextHeadingBar at h
  simp only [bind, Except.bind, pure, Except.pure] at h
  split at h
  · cases h
  · cases hs : slice line (↑(countLeading 32 line)) (↑line.length) with
    | error x => rw [hs] at h; cases h
    | ok rest =>
      rw [hs] at h
      simp only at h
      have hsub : ∀ b ∈ rest, b ∈ line := by
        intro b hb
        unfold slice sliceB at hs
        split at hs
        · cases hs
          unfold sub at hb
          exact List.mem_of_mem_drop (List.mem_of_mem_take hb)
        · cases hs
      cases hi : idx line ((line.length : Int) - 1) with
      | error x => rw [hi] at h; cases h
      | ok last =>
        rw [hi] at h
        simp only at h
        have mem0 : ∀ c : UInt8, 0 < countLeading c rest → c ∈ line := fun c hc =>
          hsub c (List.mem_of_getElem? (countLeading_pos_head c rest hc))
        by_cases h1 : 0 < countLeading 61 rest
        · exact .inl (mem0 61 h1)
        · by_cases h2 : 0 < countLeading 45 rest
          · exact .inr (mem0 45 h2)
          · exfalso
            have e1 : countLeading 61 rest = 0 := by omega
            have e2 : countLeading 45 rest = 0 := by omega
            simp [e1, e2] at h

theorem noBar_of_setextFree (src : Bytes) (h : SetextFree src) : L.BV.NoSetextBar src := by
  intro c ch hm
  rcases bar_has_trigger _ ch hm with hx | hx
  · rcases mem_view_src hx with h1 | h1
    · exact (h 61 h1).2 rfl
    · exact absurd h1 (by decide)
  · rcases mem_view_src hx with h1 | h1
    · exact (h 45 h1).1 rfl
    · exact absurd h1 (by decide)

theorem runV_total_noBar (src : Bytes) (e : Panic) (pts : List PT) (hs : PTsSpec src e pts) (hl : PTsOK pts)
    (hsrc : L.BV.NoSetextBar src) :
    (∃ s, runV pts src = .ok s ∧ NodesOK src s) ∨ runV pts src = .error e := by
  rcases L.BV.runL (lsp_all src) hs hsrc with h | h | h
  · exact .inl h
  · exact absurd h (GM.Blocks.V.runV_noLoop hl src)
  · exact .inr h

/-- the same with the list shape of the final store: children of a List are ListItems (with offset ≥ 0), a node whose
    parent is a List is a ListItem -/
theorem runV_total_noBar_kids (src : Bytes) (e : Panic) (pts : List PT) (hs : PTsSpec src e pts) (hl : PTsOK pts)
    (hsrc : L.BV.NoSetextBar src) :
    (∃ s, runV pts src = .ok s ∧ NodesOK src s ∧ KidsOK s) ∨ runV pts src = .error e := by
  rcases L.BV.runLK (lsp_all src) hs hsrc with h | h | h
  · exact .inl h
  · exact absurd h (GM.Blocks.V.runV_noLoop hl src)
  · exact .inr h

end GM.Blocks.TV
