/-
  GM.Proof.QuoteSimHypB — the executable test `quoteHypB` (GM.Spec.QuoteHyp, plain Bool functions, what the driver
  runs) implies the hypotheses of the whole-run C08 theorem: `classB` the class `C08Class`, `readToEndB` the
  proposition `ReadToEnd`, `wellShapedB` the proposition `WellShaped`; hence `quoteHypB src = true` gives
  `quoteHyp src = true` and the equality of the two dumps compared by `quoteSimPair`.
-/
import GM.Proof.QuoteSimTop
import GM.Spec.QuoteHyp

namespace GM.Blocks
open GM GM.Text

theorem classB_sound (src : Bytes) : classB src = true → C08Class src := by
  intro h
  unfold classB at h
  simp only [Bool.and_eq_true, List.all_eq_true, bne_iff_ne, ne_eq, beq_iff_eq, Bool.not_eq_true'] at h
  obtain ⟨ha, hl⟩ := h
  exact ⟨fun c hc => (ha c hc).1.1.1.1.1, fun c hc => (ha c hc).1.1.1.1.2, hl,
    fun c hc => ⟨(ha c hc).1.1.1.2, (ha c hc).1.1.2, (ha c hc).1.2, (ha c hc).2⟩⟩

theorem lineAtB_complete {src : Bytes} {k ls : Nat} (h : LineAt src k ls) : lineAtB src k ls = true := by
  unfold lineAtB
  simp only [Bool.and_eq_true, Bool.or_eq_true, decide_eq_true_eq, beq_iff_eq]
  exact ⟨⟨h.lt, h.start⟩, h.count⟩

theorem readToEndB_sound (src : Bytes) (s : St) : readToEndB src s = true → ReadToEnd src s := by
  intro h ls hl
  unfold readToEndB at h
  have := (List.all_eq_true.mp h) ls (List.mem_range.mpr hl.lt)
  rw [lineAtB_complete hl] at this
  cases this

theorem wellShapedB_sound (s : St) : wellShapedB s = true → WellShaped s := by
  intro h
  unfold wellShapedB at h
  rw [Bool.and_eq_true] at h
  obtain ⟨h0, hall⟩ := h
  refine ⟨List.isEmpty_iff.mp h0, ?_⟩
  intro n hn
  have hn' := (List.all_eq_true.mp hall) n hn
  simp only [Bool.and_eq_true, Bool.or_eq_true, bne_iff_ne, ne_eq, decide_eq_true_eq, List.all_eq_true,
    Bool.not_eq_true', List.contains_eq_mem, decide_eq_false_iff_not] at hn'
  obtain ⟨⟨⟨⟨⟨hk1, hk2⟩, hlines⟩, hinfo⟩, hclo⟩, hch⟩ := hn'
  refine ⟨⟨hk1, hk2⟩, hlines, ?_, ?_, hch⟩
  · intro i hi
    rw [hi] at hinfo
    simpa using hinfo
  · intro hge
    rcases hclo with hc | hc
    · omega
    · exact hc

theorem quoteHyp_of_B (src : Bytes) (h : quoteHypB src = true) : quoteHyp src = true := by
  unfold quoteHypB at h
  unfold quoteHyp
  rw [Bool.and_eq_true] at h ⊢
  obtain ⟨hc, hm⟩ := h
  refine ⟨decide_eq_true (classB_sound src hc), ?_⟩
  cases hr : run src with
  | error e => rw [hr] at hm; cases hm
  | ok s =>
    rw [hr] at hm
    simp only [Bool.and_eq_true] at hm ⊢
    exact ⟨decide_eq_true (readToEndB_sound src s hm.1), decide_eq_true (wellShapedB_sound s hm.2)⟩

theorem quoteSim_of_hypB (src : Bytes) (h : quoteHypB src = true) : ∀ e g, quoteSimPair src = some (e, g) → e = g :=
  quoteSim_of_hyp (quoteHyp_of_B src h)

end GM.Blocks
