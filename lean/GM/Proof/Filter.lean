/-
  GM.Proof.Filter — util.bytesFilter over the slice-with-capacity heap (GM.Model.Filter): the frame lemma for
  Go's `append` (in-place write when len < cap).
-/
import GM.Model.Filter
namespace GM.Proof.Filter
open GM GM.Filter

/-- a slice header is well-formed in a heap: its array exists and it sees all cells written so far
    (so an in-place append lands directly behind what it sees) -/
def slotWF (h : Heap) : Slice → Prop
  | none => True
  | some (a, n) => a < h.arrs.length ∧ (h.arrs.getD a ⟨0, []⟩).cells.length = n

def arrOf : Slice → Option Nat
  | none => none
  | some (a, _) => some a

theorem getD_set_eq {α} (l : List α) (i : Nat) (v d : α) (h : i < l.length) : (l.set i v).getD i d = v := by
  simp [List.getD_eq_getElem?_getD, List.getElem?_set, h]

theorem getD_set_ne {α} (l : List α) (i j : Nat) (v d : α) (h : i ≠ j) : (l.set i v).getD j d = l.getD j d := by
  simp [List.getD_eq_getElem?_getD, List.getElem?_set, h]

theorem getD_append_lt {α} (l : List α) (x : α) (j : Nat) (d : α) (h : j < l.length) :
    (l ++ [x]).getD j d = l.getD j d := by
  simp [List.getD_eq_getElem?_getD, List.getElem?_append_left h]

theorem getD_append_eq {α} (l : List α) (x : α) (d : α) : (l ++ [x]).getD l.length d = x := by
  simp [List.getD_eq_getElem?_getD]

/-- `append(slot, b)` in the heap model: the result sees the old elements followed by `b`; no filter is
    touched; and every other well-formed header on a different backing array sees exactly what it saw. The
    result lives on the same array (in-place write, `len < cap`) or on a fresh one. -/
theorem appendSlice_spec (h : Heap) (s : Slice) (b : Bytes) (wf : slotWF h s) :
    (appendSlice h s b).1.filts = h.filts ∧
    h.arrs.length ≤ (appendSlice h s b).1.arrs.length ∧
    slotWF (appendSlice h s b).1 (appendSlice h s b).2 ∧
    sliceElems (appendSlice h s b).1 (appendSlice h s b).2 = sliceElems h s ++ [b] ∧
    ((arrOf (appendSlice h s b).2 = arrOf s ∧ s ≠ none) ∨ arrOf (appendSlice h s b).2 = some h.arrs.length) ∧
    ∀ t, slotWF h t → arrOf t ≠ arrOf s ∨ t = none →
      slotWF (appendSlice h s b).1 t ∧ sliceElems (appendSlice h s b).1 t = sliceElems h t := by
  cases s with
  | none =>
    simp only [appendSlice, Nat.lt_irrefl, if_false]
    refine ⟨by trivial, by simp, ?_, ?_, Or.inr rfl, ?_⟩
    · simp [slotWF]
    · simp [sliceElems]
    · intro t wft _
      cases t with
      | none => exact ⟨trivial, rfl⟩
      | some p =>
        obtain ⟨a', n'⟩ := p
        simp only [slotWF] at wft ⊢
        simp only [sliceElems, List.length_append, List.length_cons, List.length_nil]
        rw [getD_append_lt _ _ _ _ wft.1]
        exact ⟨⟨by omega, wft.2⟩, rfl⟩
  | some p =>
    obtain ⟨a, n⟩ := p
    simp only [slotWF] at wf
    obtain ⟨ha, hn⟩ := wf
    simp only [appendSlice]
    split
    · rename_i hlt
      have hnl : ¬ n < (h.arrs.getD a ⟨0, []⟩).cells.length := by omega
      simp only [hnl, if_false]
      refine ⟨by trivial, by simp, ?_, ?_, Or.inl ⟨rfl, by simp⟩, ?_⟩
      · simp only [slotWF, List.length_set]
        rw [getD_set_eq _ _ _ _ ha]
        exact ⟨ha, by rw [List.length_append, hn]; rfl⟩
      · simp only [sliceElems]
        rw [getD_set_eq _ _ _ _ ha]
        subst hn
        rw [List.take_of_length_le (by simp), List.take_length]
      · intro t wft hne
        cases t with
        | none => exact ⟨trivial, rfl⟩
        | some q =>
          obtain ⟨a', n'⟩ := q
          have haa : a ≠ a' := by
            rcases hne with hne | hne
            · intro e; subst e; exact hne rfl
            · cases hne
          simp only [slotWF, sliceElems, List.length_set] at wft ⊢
          rw [getD_set_ne _ _ _ _ _ haa]
          exact ⟨wft, rfl⟩
    · refine ⟨by trivial, by simp, ?_, ?_, Or.inr rfl, ?_⟩
      · simp only [slotWF, List.length_append, List.length_cons, List.length_nil]
        rw [getD_append_eq]
        refine ⟨by omega, ?_⟩
        subst hn
        simp
      · simp only [sliceElems]
        rw [getD_append_eq]
        subst hn
        rw [List.take_of_length_le (by simp), List.take_length]
      · intro t wft _
        cases t with
        | none => exact ⟨trivial, rfl⟩
        | some q =>
          obtain ⟨a', n'⟩ := q
          simp only [slotWF, sliceElems, List.length_append, List.length_cons, List.length_nil] at wft ⊢
          rw [getD_append_lt _ _ _ _ wft.1]
          exact ⟨⟨by omega, wft.2⟩, rfl⟩

theorem sliceElems_ext (h h' : Heap) (s : Slice) (wf : slotWF h s) (X : List Arr) (he : h'.arrs = h.arrs ++ X) :
    sliceElems h' s = sliceElems h s ∧ slotWF h' s := by
  cases s with
  | none => exact ⟨rfl, trivial⟩
  | some p =>
    obtain ⟨a, n⟩ := p
    simp only [slotWF] at wf ⊢
    simp only [sliceElems, he]
    have : (h.arrs ++ X).getD a ⟨0, []⟩ = h.arrs.getD a ⟨0, []⟩ := by
      simp [List.getD_eq_getElem?_getD, List.getElem?_append_left wf.1]
    rw [this]
    exact ⟨rfl, by simp; omega, wf.2⟩

/-- the fold inside copySlots, from an arbitrary accumulator -/
def copyGo (slots : List Slice) (acc : Heap × List Slice) : Heap × List Slice :=
  slots.foldl (fun (acc : Heap × List Slice) s =>
    let (h, out) := acc
    let elems := sliceElems h s
    let n := elems.length
    let id := h.arrs.length
    ({ h with arrs := h.arrs ++ [⟨n, elems⟩] }, out ++ [some (id, n)])) acc

theorem copySlots_eq (h : Heap) (slots : List Slice) : copySlots h slots = copyGo slots (h, []) := rfl

/-- Extend's slot copy: every new slot lives on an array allocated by the copy itself (so it is shared with
    nothing that existed before, and the new slots are pairwise on different arrays), is well-formed, and
    sees exactly what the parent's slot saw; the old arrays and all filters are untouched. -/
theorem copyGo_spec (slots : List Slice) : ∀ (h : Heap) (out : List Slice),
    (∀ s ∈ slots, slotWF h s) →
    ∃ X news, (copyGo slots (h, out)).1.arrs = h.arrs ++ X ∧ (copyGo slots (h, out)).1.filts = h.filts ∧
      (copyGo slots (h, out)).2 = out ++ news ∧ news.length = slots.length ∧ X.length = slots.length ∧
      ∀ j, j < slots.length →
        arrOf (news.getD j none) = some (h.arrs.length + j) ∧
        slotWF (copyGo slots (h, out)).1 (news.getD j none) ∧
        sliceElems (copyGo slots (h, out)).1 (news.getD j none) = sliceElems h (slots.getD j none) := by
  induction slots with
  | nil => intro h out _; exact ⟨[], [], by simp [copyGo], rfl, by simp [copyGo], rfl, rfl, fun j hj => by simp at hj⟩
  | cons s slots ih =>
    intro h out hwf
    let h1 : Heap := { h with arrs := h.arrs ++ [⟨(sliceElems h s).length, sliceElems h s⟩] }
    have hstep : copyGo (s :: slots) (h, out) = copyGo slots (h1, out ++ [some (h.arrs.length, (sliceElems h s).length)]) := rfl
    have hwf1 : ∀ t ∈ slots, slotWF h1 t := fun t ht =>
      (sliceElems_ext h h1 t (hwf t (List.mem_cons_of_mem _ ht)) _ rfl).2
    obtain ⟨X, news, e1, e2, e3, e4, e5, e6⟩ := ih h1 (out ++ [some (h.arrs.length, (sliceElems h s).length)]) hwf1
    rw [hstep]
    refine ⟨⟨(sliceElems h s).length, sliceElems h s⟩ :: X, some (h.arrs.length, (sliceElems h s).length) :: news,
      by rw [e1]; simp [h1], by rw [e2], by rw [e3]; simp, by simp [e4], by simp [e5], ?_⟩
    intro j hj
    cases j with
    | zero =>
      simp only [List.getD_cons_zero, arrOf, Nat.add_zero, true_and]
      have hx : (copyGo slots (h1, out ++ [some (h.arrs.length, (sliceElems h s).length)])).1.arrs
          = h1.arrs ++ X := e1
      have wf0 : slotWF h1 (some (h.arrs.length, (sliceElems h s).length)) := by
        simp [slotWF, h1, List.getD_eq_getElem?_getD]
      have v0 : sliceElems h1 (some (h.arrs.length, (sliceElems h s).length)) = sliceElems h s := by
        simp [sliceElems, h1, List.getD_eq_getElem?_getD]
      obtain ⟨k1, k2⟩ := sliceElems_ext h1 _ _ wf0 X hx
      exact ⟨k2, by rw [k1, v0]⟩
    | succ j =>
      simp only [List.length_cons] at hj
      obtain ⟨a1, a2, a3⟩ := e6 j (by omega)
      simp only [List.getD_cons_succ]
      refine ⟨by rw [a1]; simp [h1]; omega, a2, ?_⟩
      rw [a3]
      exact (sliceElems_ext h h1 _ (by
        by_cases hjl : j < slots.length
        · have : slots.getD j none ∈ slots := by
            simp [List.getD_eq_getElem?_getD, List.getElem?_eq_getElem hjl]
          exact hwf _ (List.mem_cons_of_mem _ this)
        · omega) _ rfl).1

end GM.Proof.Filter
