/-
  GM.Proof.QuoteSimBar — `NoBar src` (no position of the source starts a setext heading bar; defined in QuoteSimDriver) is
  decidable. The setext heading parser declines on such sources: `setextOpen_declines` (now in QuoteSimOpens, next to
  `listOpen_declines`).
  At the end of the source the peeked line is `none`, read as `[]`, on which `matchesSetextHeadingBar` panics
  (`line[len-1]`), so a successful run never is at the end of the source behind a paragraph.
-/
import GM.Proof.QuoteSimOpens

namespace GM.Blocks
open GM GM.Text GM.Spec GM.Proof.Reader

/-- `matchesSetextHeadingBar` accepts the line -/
def isBar (line : Bytes) : Bool :=
  match matchesSetextHeadingBar line with
  | .ok (_, true) => true
  | _ => false

theorem isBar_false_iff (line : Bytes) :
    isBar line = false ↔ ∀ c, matchesSetextHeadingBar line ≠ .ok (c, true) := by
  unfold isBar
  constructor
  · intro h c hc
    rw [hc] at h
    cases h
  · intro h
    split
    · next c hc => exact absurd hc (h c)
    · rfl

theorem noBar_iff (src : Bytes) :
    NoBar src ↔ ∀ p, p < src.length → isBar (sub src p (lineEnd src p)) = false := by
  unfold NoBar
  constructor
  · intro h p hp; exact (isBar_false_iff _).mpr (h p hp)
  · intro h p hp; exact (isBar_false_iff _).mp (h p hp)

instance (src : Bytes) : Decidable (NoBar src) :=
  decidable_of_iff _ (noBar_iff src).symm

example : NoBar (strBytes "a\n\n- b\n***\n") := by decide +kernel
example : ¬ NoBar (strBytes "a\n===\n") := by decide +kernel
example : ¬ NoBar (strBytes "a\n - \n") := by decide +kernel

end GM.Blocks
