/-
  GM.Proof.BlocksTNPSpec — the CONTRACT of one paragraph transformer call, as the no-panic proof of the block driver with
  transformers (GM.Model.Blocks.DriverT) consumes it, and as GM.Proof.LinkRefTot2 establishes it for the link reference
  definition transformer (parser/link_ref.go:16-54, GM.LinkRef.transform behind a run-time guard).

  What `Transform(node, reader, pc)` may do to the block-phase state when `node` is a Paragraph that has a parent:
    * the main reader is untouched; of the parse context only the reference map changes;
    * KEEP: the paragraph loses an initial segment of its lines and keeps at least one (`node.SetLines`), nothing else
      in the store changes; or
    * GONE: the paragraph loses ALL its lines, a fresh TextBlock (no lines, no children, the paragraph's
      HasBlankPreviousLines) is appended to the store and takes the paragraph's place among its parent's children
      (`node.Parent().ReplaceChild(parent, node, NewTextBlock())`, link_ref.go:41-47); the paragraph is parentless
      afterwards. The final state is given EXACTLY, as the result of the model's own tree operations.
  `e` is the outcome of the transformer's run-time guard (a parameter: see GM.Props.ConvertNP): the only error allowed.
-/
import GM.Proof.BlocksInv
import GM.Model.Blocks.DriverT

namespace GM.Blocks
open GM GM.Text

/-- the state in which the tree surgery of the GONE case starts: reference map replaced, the paragraph's lines emptied -/
def ptEmptied (s : St) (node : Nat) (refs : List (Bytes × (Bytes × Option Bytes))) : St :=
  { s with pc := { s.pc with refs := refs },
           nodes := s.nodes.set node { (nd s node) with lines := [] } }

/-- the tree surgery of the GONE case (link_ref.go:42-47) -/
def ptReplace (node p : Nat) (blankPrev : Bool) : M Unit := do
  let t ← newNode { kind := .textBlock, blankPrev := blankPrev }
  replaceChild p node t

structure PTPost (node : Nat) (s s' : St) : Prop where
  r : s'.r = s.r
  res :
    (∃ refs k, 0 < ((nd s node).lines.drop k).length ∧
      s' = { s with pc := { s.pc with refs := refs },
                    nodes := s.nodes.set node { (nd s node) with lines := (nd s node).lines.drop k } }) ∨
    (∃ refs p, (nd s node).parent = some p ∧
      ptReplace node p (nd s node).blankPrev (ptEmptied s node refs) = .ok ((), s'))

/-- the contract of a paragraph transformer whose guard answers `e`: on a Paragraph node with a parent it ends as
    `PTPost` says, or the guard fired -/
def PTSpec (src : Bytes) (e : Panic) (pt : PT) : Prop :=
  ∀ (node : Nat) (s : St), s.r.source = src → node < s.nodes.length → (nd s node).kind = .paragraph →
    (nd s node).parent.isSome = true → NodesOK src s →
    (∃ s', pt node s = .ok ((), s') ∧ PTPost node s s') ∨ pt node s = .error e

def PTsSpec (src : Bytes) (e : Panic) (pts : List PT) : Prop := ∀ pt ∈ pts, PTSpec src e pt

theorem ptsSpec_nil (src : Bytes) (e : Panic) : PTsSpec src e [] := fun _ h => by cases h

end GM.Blocks
