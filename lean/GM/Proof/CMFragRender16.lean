/-
  GM.Proof.CMFragRender16 — the renderer half of the conformance proof for stage 16 (inline links inside the text
  lines):
  * `urlEscape_dest16`, `urlOut_dest16`: the renderer's URL escaping (util.URLEscape with reference resolution, then
    util.EscapeHTML) is the identity on a destination of letters, digits and `/`;
  * `renderDoc_lrich16`: the renderer model on Document[Paragraph[lrich nodes]…] writes every paragraph as `<p>` + its
    lines (`lrichLineHtml`) joined by a line feed + `</p>` and never panics — for lines that end with a text atom and
    whose destinations are letters, digits and `/` (`LineShape16`; both follow from `LRichLine`:
    `renderDoc_lrichLines16`);
  * the bridge to the spec side: `latomOfS`, `lrichLineHtml_latomOfS16` (the prescribed HTML of a line),
    `llineSrc_latomOfS16` (the source of a line), `lrichLine_latomOfS16` (`LRichLine` from `llineOKS`),
    `renderDoc_expectedL16` (the whole prescribed HTML `expectedL`).
-/
import GM.Proof.CMFrag16Defs
import GM.Proof.CMFragRender11
namespace GM.Proof.CMFrag
open GM GM.Spec.CM GM.Spec.CMFrag

/-! ### the renderer's URL escaping on a destination of letters, digits and `/` -/

theorem destC_facts16 : ∀ c : UInt8, isDestC16 c = true →
    urlSafe c = true ∧ c ≠ 92 ∧ c ≠ 38 ∧ escByte c = [c] := GM.forall_uint8 _ (by decide +kernel)

theorem unescapeAndResolve_dest16 (d : Bytes) (h : ∀ c ∈ d, isDestC16 c = true) : unescapeAndResolve d = d := by
  induction d with
  | nil => simp [unescapeAndResolve]
  | cons c rest ih =>
    have ih' := ih (fun x hx => h x (by simp [hx]))
    obtain ⟨_, h92, h38, _⟩ := destC_facts16 c (h c (by simp))
    cases rest with
    | nil => simp [unescapeAndResolve]
    | cons e rest0 =>
      rw [unescapeAndResolve]
      have e1 : (c == 92) = false := by simpa using h92
      have e2 : (c == 38) = false := by simpa using h38
      simp only [e1, e2, Bool.false_and, Bool.false_eq_true, if_false, ih']

theorem urlCopies_dest16 (total : Nat) (d : Bytes) (h : ∀ c ∈ d, isDestC16 c = true) :
    urlCopies total d = false := by
  induction d with
  | nil => simp [urlCopies]
  | cons c rest ih =>
    rw [urlCopies]
    simp only [(destC_facts16 c (h c (by simp))).1, if_true]
    exact ih (fun x hx => h x (by simp [hx]))

/-- util.URLEscape (with reference resolution) leaves letters, digits and `/` as they are -/
theorem urlEscape_dest16 (d : Bytes) (h : ∀ c ∈ d, isDestC16 c = true) : urlEscape d true = d := by
  simp [urlEscape, urlEscapeRaw, unescapeAndResolve_dest16 d h, urlCopies_dest16 _ d h]

theorem escapeHTML_dest16 (d : Bytes) (h : ∀ c ∈ d, isDestC16 c = true) : escapeHTML d = d := by
  induction d with
  | nil => rfl
  | cons c rest ih =>
    have := ih (fun x hx => h x (by simp [hx]))
    simp only [escapeHTML, List.flatMap_cons] at this ⊢
    rw [this, (destC_facts16 c (h c (by simp))).2.2.2]
    rfl

/-- what the renderer writes into `href` (option Unsafe set: no dangerous-URL filter) -/
theorem urlOut_dest16 (d : Bytes) (h : ∀ c ∈ d, isDestC16 c = true) : urlOut true (urlEscape d true) = d := by
  simp [urlOut, urlEscape_dest16 d h, escapeHTML_dest16 d h]

/-! ### the renderer on the nodes of a line -/

structure LineShape16 (l : List LAtom) : Prop where
  last : ∃ init bs, l = init ++ [.txt bs]
  dest : ∀ t d, LAtom.link t d ∈ l → ∀ c ∈ d, isDestC16 c = true

theorem handled_link16 (e : Exts) (d : Bytes) (t : Option Bytes) : handled e (.link d t) = true := rfl

theorem renderNode_link16 (rc : RCfg) (hes : rc.core.escSpace = false) (hhw : rc.core.hardWraps = false)
    (hea : rc.core.ea = 0) (hu : rc.core.unsafe_ = true) (ph : Bool) (next : Option Node) (t d : Bytes)
    (hd : ∀ c ∈ d, isDestC16 c = true) :
    renderNode rc ph next (.mk (.link d none) none [.mk (.text t false false false false) none []]) =
      strBytes "<a href=\"" ++ d ++ strBytes "\">" ++ GM.write false t ++ strBytes "</a>" := by
  rw [renderNode]
  have h2 : strBytes "\">" = [34, 62] := by decide +kernel
  simp [enter, leave, handled_link16, skipsChildren, renderAttrs, renderNodes, renderNode_text rc hes hhw hea, hu,
    urlOut_dest16 d hd, h2]

theorem latomNodes_txt_cons16 (soft : Bool) (b : Bytes) (rest : List LAtom) (h : rest ≠ []) :
    latomNodes soft (.txt b :: rest) = .mk (.text b false false false false) none [] :: latomNodes soft rest := by
  cases rest with
  | nil => exact absurd rfl h
  | cons a rest => rfl

/-- the nodes of one line, followed by any other nodes -/
theorem renderNodes_latoms16 (rc : RCfg) (hes : rc.core.escSpace = false) (hhw : rc.core.hardWraps = false)
    (hea : rc.core.ea = 0) (hu : rc.core.unsafe_ = true) (ph soft : Bool) (init : List LAtom) (bs : Bytes)
    (tail : List Node) (hc : ∀ t d, LAtom.link t d ∈ init → ∀ c ∈ d, isDestC16 c = true) :
    renderNodes rc ph (latomNodes soft (init ++ [.txt bs]) ++ tail) =
      lrichLineHtml (init ++ [.txt bs]) ++ (if soft then [10] else []) ++ renderNodes rc ph tail := by
  induction init with
  | nil =>
    simp only [List.nil_append, latomNodes, List.cons_append, renderNodes, renderNode_text rc hes hhw hea,
      lrichLineHtml, List.flatMap_cons, List.flatMap_nil, latomHtml, List.append_nil]
  | cons a init ih =>
    have ih' := ih (fun t d hb => hc t d (by simp [hb]))
    cases a with
    | txt b =>
      rw [List.cons_append, latomNodes_txt_cons16 soft b _ (by simp), List.cons_append, renderNodes,
        renderNode_text rc hes hhw hea, ih']
      simp [lrichLineHtml, latomHtml]
    | link t d =>
      rw [List.cons_append, latomNodes, List.cons_append, renderNodes,
        renderNode_link16 rc hes hhw hea hu _ _ t d (hc t d (by simp)), ih']
      simp [lrichLineHtml, latomHtml]

theorem renderNodes_lrich16 (rc : RCfg) (hes : rc.core.escSpace = false) (hhw : rc.core.hardWraps = false)
    (hea : rc.core.ea = 0) (hu : rc.core.unsafe_ = true) (ph : Bool) (ls : List (List LAtom))
    (hl : ∀ l ∈ ls, LineShape16 l) :
    renderNodes rc ph (lrichNodes ls) = GM.Proof.CMFrag.joinNl (ls.map lrichLineHtml) := by
  induction ls with
  | nil => simp [lrichNodes, renderNodes, GM.Proof.CMFrag.joinNl]
  | cons l rest ih =>
    obtain ⟨⟨init, bs, rfl⟩, hc⟩ := hl l (by simp)
    have hc' : ∀ t d, LAtom.link t d ∈ init → ∀ c ∈ d, isDestC16 c = true := fun t d hb => hc t d (by simp [hb])
    cases rest with
    | nil =>
      have := renderNodes_latoms16 rc hes hhw hea hu ph false init bs [] hc'
      simp only [List.append_nil] at this
      simp [lrichNodes, GM.Proof.CMFrag.joinNl, this, renderNodes]
    | cons l' rest =>
      rw [lrichNodes, renderNodes_latoms16 rc hes hhw hea hu ph true init bs _ hc',
        ih (fun x hx => hl x (by simp [hx]))]
      simp [GM.Proof.CMFrag.joinNl]

/-- a paragraph of rich lines as the renderer reads it -/
def lrichPara16 (ls : List (List LAtom)) : GM.Node := .mk .paragraph none (lrichNodes ls)

def lrichParaHtml16 (ls : List (List LAtom)) : Bytes :=
  strBytes "<p>" ++ GM.Proof.CMFrag.joinNl (ls.map lrichLineHtml) ++ strBytes "</p>\n"

theorem renderNode_lrichPara16 (rc : RCfg) (hes : rc.core.escSpace = false) (hhw : rc.core.hardWraps = false)
    (hea : rc.core.ea = 0) (hu : rc.core.unsafe_ = true) (ph : Bool) (next : Option Node) (ls : List (List LAtom))
    (hl : ∀ l ∈ ls, LineShape16 l) :
    renderNode rc ph next (lrichPara16 ls) = lrichParaHtml16 ls := by
  rw [lrichPara16, renderNode]
  simp only [enter, leave, handled_para, skipsChildren, openTag, Kind.isTableHeader,
    renderNodes_lrich16 rc hes hhw hea hu _ ls hl, lrichParaHtml16]
  have h1 : strBytes "<p>" = [60] ++ strBytes "p" ++ [62] := by decide +kernel
  rw [h1]; simp

theorem renderNodes_lrichParas16 (rc : RCfg) (hes : rc.core.escSpace = false) (hhw : rc.core.hardWraps = false)
    (hea : rc.core.ea = 0) (hu : rc.core.unsafe_ = true) (ph : Bool) (ps : List (List (List LAtom)))
    (hl : ∀ ls ∈ ps, ∀ l ∈ ls, LineShape16 l) :
    renderNodes rc ph (ps.map lrichPara16) = ps.flatMap lrichParaHtml16 := by
  induction ps with
  | nil => simp [renderNodes]
  | cons p rest ih =>
    rw [List.map_cons, renderNodes, renderNode_lrichPara16 rc hes hhw hea hu _ _ p (hl p (by simp)),
      ih (fun x hx => hl x (by simp [hx]))]
    simp

/-! ### no panic -/

theorem renderPanicsNodes_latoms16 (rc : RCfg) (soft : Bool) (l : List LAtom) (tail : List Node)
    (ht : renderPanicsNodes rc tail = none) :
    renderPanicsNodes rc (latomNodes soft l ++ tail) = none := by
  induction l with
  | nil => simpa [latomNodes] using ht
  | cons a rest ih =>
    cases a with
    | txt b =>
      cases rest with
      | nil => simp [latomNodes, renderPanicsNodes, renderPanicsNode, nodePanic, ht]
      | cons a' rest' =>
        rw [latomNodes_txt_cons16 soft b _ (by simp), List.cons_append, renderPanicsNodes, ih]
        simp [renderPanicsNode, nodePanic, renderPanicsNodes]
    | link t d =>
      rw [latomNodes, List.cons_append, renderPanicsNodes, ih]
      simp [renderPanicsNode, nodePanic, handled_link16, skipsChildren, renderPanicsNodes]

theorem renderPanicsNodes_lrich16 (rc : RCfg) (ls : List (List LAtom)) :
    renderPanicsNodes rc (lrichNodes ls) = none := by
  induction ls with
  | nil => simp [lrichNodes, renderPanicsNodes]
  | cons l rest ih =>
    cases rest with
    | nil =>
      have := renderPanicsNodes_latoms16 rc false l [] (by simp [renderPanicsNodes])
      simpa [lrichNodes] using this
    | cons l' rest =>
      rw [lrichNodes]
      exact renderPanicsNodes_latoms16 rc true l _ ih

theorem renderPanicsNodes_lrichParas16 (rc : RCfg) (ps : List (List (List LAtom))) :
    renderPanicsNodes rc (ps.map lrichPara16) = none := by
  induction ps with
  | nil => simp [renderPanicsNodes]
  | cons p rest ih =>
    rw [List.map_cons, renderPanicsNodes, ih]
    simp [lrichPara16, renderPanicsNode, nodePanic, renderPanicsNodes_lrich16]

/-! ### the document -/

theorem rcfg_unsafe16 (o : GM.Convert.ROpts) : o.rcfg.core.unsafe_ = o.unsafe_ := by
  cases o with | mk u x h => cases u <;> rfl

theorem renderDoc_lrich16_any (o : GM.Convert.ROpts) (ho : o.hardWraps = false) (hu : o.unsafe_ = true)
    (ps : List (List (List LAtom))) (hl : ∀ ls ∈ ps, ∀ l ∈ ls, LineShape16 l) :
    GM.Convert.renderDoc o (.mk .document none (ps.map fun ls => .mk .paragraph none (lrichNodes ls))) =
      .ok (ps.flatMap fun ls =>
        strBytes "<p>" ++ GM.Proof.CMFrag.joinNl (ls.map lrichLineHtml) ++ strBytes "</p>\n") := by
  have hp : renderPanics o.rcfg (.mk .document none (ps.map lrichPara16)) = none := by
    simp [renderPanics, renderPanicsNode, nodePanic, renderPanicsNodes_lrichParas16]
  have hr : render o.rcfg (.mk .document none (ps.map lrichPara16)) = ps.flatMap lrichParaHtml16 := by
    rw [render, renderNode]
    simp [enter, leave, handled_doc, skipsChildren, Kind.isTableHeader,
      renderNodes_lrichParas16 o.rcfg (rcfg_escSpace o) (by rw [rcfg_hardWraps, ho]) (rcfg_ea o)
        (by rw [rcfg_unsafe16, hu]) _ ps hl]
  have e1 : (ps.map fun ls => GM.Node.mk .paragraph none (lrichNodes ls)) = ps.map lrichPara16 := rfl
  rw [e1, GM.Convert.renderDoc, hp, hr]
  rfl

/-- the renderer on a document of paragraphs of rich lines with inline links -/
theorem renderDoc_lrich16 (ps : List (List (List LAtom))) (hl : ∀ ls ∈ ps, ∀ l ∈ ls, LineShape16 l) :
    GM.Convert.renderDoc cmOpts (.mk .document none (ps.map fun ls => .mk .paragraph none (lrichNodes ls))) =
      .ok (ps.flatMap fun ls =>
        strBytes "<p>" ++ GM.Proof.CMFrag.joinNl (ls.map lrichLineHtml) ++ strBytes "</p>\n") :=
  renderDoc_lrich16_any cmOpts rfl rfl ps hl

theorem lineShape_of_lrichLine16 (l : List LAtom) (h : LRichLine l) : LineShape16 l := by
  obtain ⟨init, bs, hl, _⟩ := h.last
  exact ⟨⟨init, bs, hl⟩, fun t d hb => (h.ok _ hb).2.2⟩

theorem renderDoc_lrichLines16 (ps : List (List (List LAtom))) (hl : ∀ ls ∈ ps, ∀ l ∈ ls, LRichLine l) :
    GM.Convert.renderDoc cmOpts (.mk .document none (ps.map fun ls => .mk .paragraph none (lrichNodes ls))) =
      .ok (ps.flatMap fun ls =>
        strBytes "<p>" ++ GM.Proof.CMFrag.joinNl (ls.map lrichLineHtml) ++ strBytes "</p>\n") :=
  renderDoc_lrich16 ps (fun ls hls l hlm => lineShape_of_lrichLine16 l (hl ls hls l hlm))

/-! ### the bridge to the spec side -/

/-- a spec-side atom as source bytes -/
def latomOfS : LAtomS → LAtom
  | .txt cs => .txt (escSpell cs)
  | .link t d => .link t d

theorem latomSrc_latomOfS16 (a : LAtomS) : latomSrc (latomOfS a) = spellLAtom a := by
  cases a <;> rfl

theorem llineSrc_latomOfS16 (l : LLine) : llineSrc (l.map latomOfS) = spellLLine l := by
  simp only [llineSrc, spellLLine, List.flatMap_map]
  congr 1; funext a; exact latomSrc_latomOfS16 a

/-- what `latomOKS` says, atom kind by atom kind -/
theorem latomOKS_txt16 (cs : List TChar) (h : latomOKS (.txt cs) = true) : cs ≠ [] ∧ ∀ t ∈ cs, charOK t = true := by
  simp only [latomOKS, Bool.and_eq_true, Bool.not_eq_true', List.isEmpty_eq_false_iff, List.all_eq_true] at h
  exact h

theorem latomOKS_link16 (t d : Bytes) (h : latomOKS (.link t d) = true) :
    (t ≠ [] ∧ ∀ c ∈ t, isAlnumC c = true) ∧ (d ≠ [] ∧ ∀ c ∈ d, isDestC16 c = true) := by
  simp only [latomOKS, Bool.and_eq_true, Bool.not_eq_true', List.isEmpty_eq_false_iff, List.all_eq_true] at h
  exact ⟨⟨h.1.1.1, h.1.1.2⟩, ⟨h.1.2, h.2⟩⟩

theorem escHtml_alnum16 (c : Bytes) (h : ∀ x ∈ c, isAlnumC x = true) : escHtml c = c := by
  have h1 : ∀ x : UInt8, isAlnumC x = true → escHtmlByte x = [x] := GM.forall_uint8 _ (by decide +kernel)
  induction c with
  | nil => rfl
  | cons x rest ih =>
    have := ih (fun y hy => h y (by simp [hy]))
    simp only [escHtml, List.flatMap_cons] at this ⊢
    rw [this, h1 x (h x (by simp))]
    rfl

theorem latomHtml_latomOfS16 (a : LAtomS) (h : latomOKS a = true) : latomHtml (latomOfS a) = expLAtom a := by
  cases a with
  | txt cs =>
    exact write_spelled cs (fun t ht => charOK_printable t ((latomOKS_txt16 cs h).2 t ht))
  | link t d =>
    have ht := (latomOKS_link16 t d h).1.2
    simp only [latomOfS, latomHtml, expLAtom, write_alnum11 t ht, escHtml_alnum16 t ht]

theorem lrichLineHtml_latomOfS16 (l : LLine) (h : ∀ a ∈ l, latomOKS a = true) :
    lrichLineHtml (l.map latomOfS) = expLLine l := by
  simp only [lrichLineHtml, expLLine, List.flatMap_map]
  induction l with
  | nil => rfl
  | cons a rest ih =>
    simp only [List.flatMap_cons]
    rw [latomHtml_latomOfS16 a (h a (by simp)), ih (fun x hx => h x (by simp [hx]))]

theorem latomOK_latomOfS16 (a : LAtomS) (h : latomOKS a = true) : LAtomOK (latomOfS a) := by
  cases a with
  | txt cs =>
    obtain ⟨hne, hall⟩ := latomOKS_txt16 cs h
    exact ⟨escSpell_ne_nil8 cs hne, fun i => quiet_escSpell cs hall i, escAfter_escSpell8 cs⟩
  | link t d => exact latomOKS_link16 t d h

theorem isTxt_latomOfS16 (a : LAtomS) : (latomOfS a).isTxt = a.isTxt := by cases a <;> rfl

theorem lalternating_latomOfS16 (l : LLine) : lalternating (l.map latomOfS) = lalternatingS l := by
  induction l with
  | nil => rfl
  | cons a rest ih =>
    cases rest with
    | nil => rfl
    | cons b rest =>
      simp only [List.map_cons, lalternating, lalternatingS, isTxt_latomOfS16] at ih ⊢
      rw [ih]

theorem lrichLine_latomOfS16 (l : LLine) (h : llineOKS l = true) : LRichLine (l.map latomOfS) := by
  simp only [llineOKS, Bool.and_eq_true, List.all_eq_true] at h
  obtain ⟨⟨⟨halt, hfirst⟩, hlast⟩, hok⟩ := h
  refine ⟨by rw [lalternating_latomOfS16]; exact halt, ?_, ?_, ?_⟩
  · -- first
    unfold lfirstOKS at hfirst
    split at hfirst
    · rename_i t ts rest
      obtain ⟨tc, te⟩ := t
      obtain ⟨sp, lt⟩ := spell_first tc te hfirst
      refine ⟨escSpell (⟨tc, te⟩ :: ts), rest.map latomOfS, rfl, ?_⟩
      intro c hc
      simp only [escSpell, List.flatMap_cons, sp, List.cons_append, List.nil_append, List.head?_cons,
        Option.some.injEq] at hc
      subst hc; exact lt
    · cases hfirst
  · -- last
    unfold llastOKS at hlast
    split at hlast
    · rename_i cs hl
      split at hlast
      · rename_i z hz
        obtain ⟨zc, ze⟩ := z
        obtain ⟨sp, nsp, nbs⟩ := spell_last zc ze hlast
        obtain ⟨init, hinit⟩ := List.getLast?_eq_some_iff.mp hl
        obtain ⟨cinit, hcs⟩ := List.getLast?_eq_some_iff.mp hz
        refine ⟨init.map latomOfS, escSpell cs, by rw [hinit]; simp [latomOfS], ?_⟩
        intro c hc
        have e : escSpell cs = escSpell cinit ++ [zc] := by rw [hcs]; simp [escSpell, sp]
        rw [e] at hc
        simp at hc
        subst hc; exact ⟨nsp, nbs⟩
      · cases hlast
    · cases hlast
  · intro a ha
    obtain ⟨r, hr, rfl⟩ := List.mem_map.mp ha
    exact latomOK_latomOfS16 r (hok r hr)

/-! #### the prescribed HTML of a whole document -/

theorem llineOKS_atoms16 (l : LLine) (h : llineOKS l = true) : ∀ a ∈ l, latomOKS a = true := by
  simp only [llineOKS, Bool.and_eq_true, List.all_eq_true] at h
  exact h.2

theorem litemOKS_lines16 (it : LItem) (h : litemOKS it = true) :
    it.lines ≠ [] ∧ ∀ l ∈ it.lines, llineOKS l = true := by
  simp only [litemOKS, Bool.and_eq_true, Bool.not_eq_true', List.isEmpty_eq_false_iff, List.all_eq_true] at h
  exact h

/-- the paragraphs of a stage-16 document as lists of proof-side atoms -/
def atomsOfL (d : LDoc) : List (List (List LAtom)) := d.items.map fun it => it.lines.map (·.map latomOfS)

theorem docHtml_latomOfS16 (d : LDoc) (h : LFrag d) :
    ((atomsOfL d).flatMap fun ls =>
      strBytes "<p>" ++ GM.Proof.CMFrag.joinNl (ls.map lrichLineHtml) ++ strBytes "</p>\n") = expectedL d := by
  simp only [LFrag, lfragB, List.all_eq_true] at h
  simp only [atomsOfL, expectedL, List.flatMap_map]
  apply flatMap_congr8
  intro it hit
  have hls := (litemOKS_lines16 it (h it hit)).2
  have : (it.lines.map (·.map latomOfS)).map lrichLineHtml = it.lines.map expLLine := by
    rw [List.map_map]
    apply List.map_congr_left
    intro l hl
    exact lrichLineHtml_latomOfS16 l (llineOKS_atoms16 l (hls l hl))
  rw [this, joinNl_eq, expLItem]

theorem lrichLines_atomsOfL16 (d : LDoc) (h : LFrag d) : ∀ ls ∈ atomsOfL d, ∀ l ∈ ls, LRichLine l := by
  simp only [LFrag, lfragB, List.all_eq_true] at h
  intro ls hls l hl
  simp only [atomsOfL, List.mem_map] at hls
  obtain ⟨it, hit, rfl⟩ := hls
  obtain ⟨r, hr, rfl⟩ := List.mem_map.mp hl
  exact lrichLine_latomOfS16 r ((litemOKS_lines16 it (h it hit)).2 r hr)

/-- the renderer on the nodes of a stage-16 document writes the prescribed HTML -/
theorem renderDoc_expectedL16 (d : LDoc) (h : LFrag d) :
    GM.Convert.renderDoc cmOpts
        (.mk .document none ((atomsOfL d).map fun ls => .mk .paragraph none (lrichNodes ls))) =
      .ok (expectedL d) := by
  rw [renderDoc_lrichLines16 _ (lrichLines_atomsOfL16 d h), docHtml_latomOfS16 d h]

end GM.Proof.CMFrag
