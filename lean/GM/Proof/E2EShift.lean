/-
  GM.Proof.E2EShift — C09 first half AT HTML LEVEL for an EMPTY document `A`, on the composed model: from package shiftsim's store
  relation (`GM.Blocks.Sh.StoreRel F nA nB`: the store of `p ++ b` behind a closed prefix is the store of `b` with node ids mapped by
  `ι` and every segment moved by `|p|`) to

      convertCore uc o ("\n# h\n\n" ++ b) = convertCore uc o ("# h\n") ++ convertCore uc o b

  for sources without `[`. Proved here: kinds / levels / list data of related nodes are equal fields, the VALUES of the moved lines,
  info strings and closures of raw blocks are equal (`value_ok_shift`), the run-time `WF0` check passes on the moved lines
  (block-phase facts of package tnopanic for the joined source), the renderer writes the children of the Document one after the
  other and a Heading does not look at its next sibling. NAMED HYPOTHESIS `InlineMoveStep src src' d L`: the inline phase of ONE block
  answers the same renderer trees when its lines are moved by `d` bytes into another source (the bytes under the lines being the
  same). Core Lean only.
-/
import GM.Props.ConvertE2E
import GM.Props.ConvertNP
import GM.Props.C09Shift

namespace GM.E2E.Shift
open GM GM.Text GM.Convert GM.Spec GM.E2E GM.Blocks GM.Blocks.Sh
open GM.Proof.InlinesReader (WF0)

/-- **the key lemma, as a named hypothesis, for ONE block**: the lines `L` of `src`, moved by `d`, in `src'` -/
def InlineMoveStep (src src' : Bytes) (d : Int) (L : List Segment) : Prop :=
  ∀ (env env' : GM.Inl.Env), env'.uc = env.uc → env.escapedSpace = false → env'.escapedSpace = false →
    WF0 src L → WF0 src' (L.map (moveSeg d)) →
    ∀ kids, GM.Inl.parseBlock env src L = .ok kids →
      ∃ kids', GM.Inl.parseBlock env' src' (L.map (moveSeg d)) = .ok kids' ∧ inlineTrees src' kids' = inlineTrees src kids

theorem isRaw_eq (k : Blocks.Kind) : GM.Proof.BlocksWF0.isRaw k = isRawKind k := by cases k <;> rfl

theorem wfSegsFromB_complete (src : Bytes) : ∀ (segs : List Segment) (lo : Int),
    WFSegsFrom src lo segs → GM.LinkRef.wfSegsFromB src lo segs = true
  | [], _, _ => rfl
  | s :: rest, lo, h => by
    obtain ⟨h1, h2, h3, h4, h5, h6⟩ := h
    simp only [GM.LinkRef.wfSegsFromB, Bool.and_eq_true, decide_eq_true_eq, Bool.not_eq_true']
    exact ⟨⟨⟨⟨⟨h1, h2⟩, h3⟩, h4⟩, h5⟩, wfSegsFromB_complete src rest s.stop h6⟩

theorem wf0B_complete {src : Bytes} {segs : List Segment} (h : WF0 src segs) : GM.LinkRef.wf0B src segs = true := by
  obtain ⟨⟨hne, hw⟩, hp⟩ := h
  simp only [GM.LinkRef.wf0B, GM.LinkRef.wfSegsB, GM.LinkRef.pad0B, Bool.and_eq_true, Bool.not_eq_true',
    List.all_eq_true, beq_iff_eq]
  refine ⟨⟨?_, wfSegsFromB_complete src segs 0 hw⟩, hp⟩
  cases segs with
  | nil => exact absurd rfl hne
  | cons a b => rfl

def WFB (Q : Bytes) (b : Blocks.Node) : Prop := isRawKind b.kind = false → b.lines ≠ [] → WF0 Q b.lines

theorem segValues_shift (F : Sh.Frame) (src : Bytes) : ∀ (L : List Segment) (v : List Bytes), segValues src L = .ok v →
    segValues (F.p ++ src) (L.map (moveSeg F.d)) = .ok v
  | [], v, h => h
  | s :: L, v, h => by
    simp only [segValues, bind, Except.bind, pure, Except.pure, List.map] at h ⊢
    cases h1 : s.value src with
    | error e => rw [h1] at h; cases h
    | ok v1 =>
      rw [h1] at h
      simp only [] at h
      cases h2 : segValues src L with
      | error e => rw [h2] at h; cases h
      | ok v2 =>
        rw [h2] at h
        rw [value_ok_shift F src h1, segValues_shift F src L v2 h2]
        exact h

/-- the renderer's kind of a node and of the node moved by the frame -/
theorem blockKind_moved (F : Sh.Frame) (src : Bytes) (a b : Blocks.Node) (hkind : b.kind = a.kind)
    (hlines : b.lines = a.lines.map (moveSeg F.d)) (hinfo : b.info = a.info.map (moveSeg F.d))
    (hclos : b.closure = shClosure F.d a.closure) (hlevel : b.level = a.level) (hmarker : b.marker = a.marker)
    (hstart : b.start = a.start) {k : GM.Kind}
    (hk : blockKind src a = .ok k) : blockKind (F.p ++ src) b = .ok k := by
  unfold blockKind at hk ⊢
  rw [hkind]
  cases hka : a.kind <;> rw [hka] at hk <;> simp only [] at hk ⊢
  all_goals first
    | exact hk
    | (rw [hlevel]; exact hk)
    | (rw [hmarker, hstart]; exact hk)
    | skip
  · -- codeBlock
    simp only [bind, Except.bind, pure, Except.pure] at hk ⊢
    rw [hlines]
    cases hv : segValues src a.lines with
    | error e => rw [hv] at hk; cases hk
    | ok v => rw [hv] at hk; rw [segValues_shift F src _ v hv]; exact hk
  · -- fencedCodeBlock
    simp only [bind, Except.bind, pure, Except.pure] at hk ⊢
    rw [hlines, hinfo]
    cases hia : a.info with
    | none =>
      rw [hia] at hk
      simp only [Option.map] at hk ⊢
      cases hv : segValues src a.lines with
      | error e => rw [hv] at hk; cases hk
      | ok v => rw [hv] at hk; rw [segValues_shift F src _ v hv]; exact hk
    | some sg =>
      rw [hia] at hk
      simp only [Option.map] at hk ⊢
      cases hi : sg.value src with
      | error e => rw [hi] at hk; cases hk
      | ok iv =>
        rw [hi] at hk
        rw [value_ok_shift F src hi]
        simp only [] at hk ⊢
        cases hv : segValues src a.lines with
        | error e => rw [hv] at hk; cases hk
        | ok v => rw [hv] at hk; rw [segValues_shift F src _ v hv]; exact hk
  · -- htmlBlock
    simp only [bind, Except.bind, pure, Except.pure] at hk ⊢
    rw [hlines]
    have hd : 0 ≤ F.d := by unfold Sh.Frame.d; omega
    by_cases hc : a.closure.start ≥ 0
    · have e : b.closure = moveSeg F.d a.closure := by
        rw [hclos]; unfold shClosure; rw [if_neg (by omega)]
      have hpos : b.closure.start ≥ 0 := by rw [e]; simp only [moveSeg]; omega
      rw [if_pos hc] at hk
      rw [if_pos hpos, e]
      cases hcv : a.closure.value src with
      | error e => rw [hcv] at hk; cases hk
      | ok cv =>
        rw [hcv] at hk
        rw [value_ok_shift F src hcv]
        simp only [] at hk ⊢
        cases hv : segValues src a.lines with
        | error e => rw [hv] at hk; cases hk
        | ok v => rw [hv] at hk; rw [segValues_shift F src _ v hv]; exact hk
    · have e : b.closure = a.closure := by
        rw [hclos]; unfold shClosure; rw [if_pos (by omega)]
      have hneg : ¬ b.closure.start ≥ 0 := by rw [e]; exact hc
      rw [if_neg hc] at hk
      rw [if_neg hneg]
      cases hv : segValues src a.lines with
      | error e => rw [hv] at hk; cases hk
      | ok v => rw [hv] at hk; rw [segValues_shift F src _ v hv]; exact hk

theorem blockKind_shift (F : Sh.Frame) (src : Bytes) (root : Bool) (a : Blocks.Node) {k : GM.Kind}
    (hk : blockKind src a = .ok k) : blockKind (F.p ++ src) (shN F root a) = .ok k :=
  blockKind_moved F src a (shN F root a) rfl rfl rfl rfl rfl rfl rfl hk

/-! ### the inline phase and the tree conversion of a moved node -/

section rel
variable {src src' : Bytes} {d : Int} (env env' : GM.Inl.Env) (huc : env'.uc = env.uc) (hes : env.escapedSpace = false)
  (hes' : env'.escapedSpace = false)
include huc hes hes'

theorem inlinePhase_moved (a b : Blocks.Node) (hkind : b.kind = a.kind) (hlines : b.lines = a.lines.map (moveSeg d))
    (KEY : isRawKind a.kind = false → a.lines ≠ [] → InlineMoveStep src src' d a.lines) (hw : WFB src' b)
    {kids : List GM.Inl.Node} (hk : inlinePhase true env src a = .ok kids) :
    ∃ kids', inlinePhase true env' src' b = .ok kids' ∧ inlineTrees src' kids' = inlineTrees src kids := by
  have hemp : b.lines.isEmpty = a.lines.isEmpty := by
    rw [hlines]; cases a.lines <;> rfl
  unfold inlinePhase at hk ⊢
  rw [hkind]
  split at hk
  · rename_i hr; rw [if_pos hr]; cases hk; exact ⟨[], rfl, rfl⟩
  · rename_i hr
    rw [if_neg hr, hemp]
    split at hk
    · rename_i he; rw [if_pos he]; cases hk; exact ⟨[], rfl, rfl⟩
    · rename_i he
      rw [if_neg he]
      split at hk
      · cases hk
      · rename_i hg
        have hwa : WF0 src a.lines := by
          have : GM.LinkRef.wf0B src a.lines = true := by simpa using hg
          exact GM.Proof.LinkRefTotal.wf0B_sound this
        have hnea : a.lines ≠ [] := by intro e; exact he (by simp [e])
        have hne : b.lines ≠ [] := by
          intro e; rw [e] at hemp; exact he (by simpa using hemp.symm)
        have hwb : WF0 src' b.lines := hw (by rw [hkind]; simpa using hr) hne
        rw [wf0B_complete hwb]
        simp only [Bool.not_true, Bool.and_false, Bool.false_eq_true, if_false]
        obtain ⟨ks, hks⟩ : ∃ ks, GM.Inl.parseBlock env src a.lines = .ok ks := by
          cases hp : GM.Inl.parseBlock env src a.lines with
          | error e => rw [hp] at hk; simp [liftErr] at hk
          | ok ks => exact ⟨ks, rfl⟩
        rw [hks] at hk
        simp only [liftErr] at hk
        cases hk
        rw [hlines] at hwb ⊢
        obtain ⟨kids', h1, h2⟩ := KEY (by simpa using hr) hnea env env' huc hes hes' hwa hwb _ hks
        exact ⟨kids', by rw [h1]; rfl, h2⟩

/-- one tree node: the same renderer node, when the children convert alike -/
theorem docTree_node_moved (a b : Blocks.Node) (csA csB : List Blocks.Tree) (hkind : b.kind = a.kind)
    (hlines : b.lines = a.lines.map (moveSeg d))
    (hbk : ∀ k, blockKind src a = .ok k → blockKind src' b = .ok k)
    (KEY : isRawKind a.kind = false → a.lines ≠ [] → InlineMoveStep src src' d a.lines) (hw : WFB src' b)
    (hcs : ∀ xs, docTrees true env src csA = .ok xs → docTrees true env' src' csB = .ok xs) {x : GM.Node}
    (h : docTree true env src (.node a csA) = .ok x) : docTree true env' src' (.node b csB) = .ok x := by
  unfold docTree at h ⊢
  simp only [bind, Except.bind, pure, Except.pure] at h ⊢
  cases hbs : docTrees true env src csA with
  | error e => rw [hbs] at h; cases h
  | ok bs =>
    rw [hbs] at h
    rw [hcs bs hbs]
    simp only [] at h ⊢
    obtain ⟨kids, hk, h⟩ : ∃ kids, inlinePhase true env src a = .ok kids ∧ _ := by
      cases hq : inlinePhase true env src a with
      | error e => rw [hq] at h; cases h
      | ok kids => rw [hq] at h; exact ⟨kids, rfl, h⟩
    obtain ⟨kids', hk', hv⟩ := inlinePhase_moved env env' huc hes hes' a b hkind hlines KEY hw hk
    rw [hk']
    simp only [] at h ⊢
    rw [hv]
    cases hi : liftErr Err.value (inlineTrees src kids) with
    | error e => rw [hi] at h; cases h
    | ok is =>
      rw [hi] at h
      simp only [] at h ⊢
      cases hkk : blockKind src a with
      | error e => rw [hkk] at h; simp [liftErr] at h
      | ok k =>
        rw [hkk] at h
        rw [hbk k hkk]
        exact h

omit huc hes hes' in
theorem docTrees_map (tA tB : Nat → Blocks.Tree) (ι : Nat → Nat) : ∀ (cs : List Nat),
    (∀ c ∈ cs, ∀ x, docTree true env src (tA c) = .ok x → docTree true env' src' (tB (ι c)) = .ok x) →
    ∀ xs, docTrees true env src (cs.map tA) = .ok xs → docTrees true env' src' ((cs.map ι).map tB) = .ok xs
  | [], _, xs, hx => hx
  | c :: rest, H, xs, hx => by
    simp only [List.map] at hx ⊢
    unfold docTrees at hx ⊢
    simp only [bind, Except.bind, pure, Except.pure] at hx ⊢
    cases h1 : docTree true env src (tA c) with
    | error e => rw [h1] at hx; cases hx
    | ok y =>
      rw [h1] at hx
      rw [H c (List.mem_cons_self ..) y h1]
      simp only [] at hx ⊢
      cases h2 : docTrees true env src (rest.map tA) with
      | error e => rw [h2] at hx; cases hx
      | ok ys =>
        rw [h2] at hx
        rw [docTrees_map tA tB ι rest (fun c' hc' => H c' (List.mem_cons_of_mem _ hc')) ys h2]
        exact hx

end rel

/-! ### subtrees below the Document -/

section trees
variable (F : Sh.Frame) {src : Bytes} (env env' : GM.Inl.Env) (huc : env'.uc = env.uc) (hes : env.escapedSpace = false)
  (hes' : env'.escapedSpace = false) {nA nB : List Blocks.Node} (hrel : Sh.StoreRel F nA nB)
  (hz : ∀ p c, c ∈ (nA.getD p default).children → c ≠ 0)
  (hW : ∀ p c, c ∈ (nB.getD p default).children → WFB (F.p ++ src) (nB.getD c default))
  (KEY : ∀ j, isRawKind (nA.getD j default).kind = false → (nA.getD j default).lines ≠ [] →
    InlineMoveStep src (F.p ++ src) F.d (nA.getD j default).lines)
include huc hes hes' hrel hz hW KEY

theorem docTree_shift : ∀ (fuel j : Nat) (x : GM.Node), j ≠ 0 → (∃ p, F.ι j ∈ (nB.getD p default).children) →
    docTree true env src (treeOf nA fuel j) = .ok x →
    docTree true env' (F.p ++ src) (treeOf nB fuel (F.ι j)) = .ok x := by
  intro fuel
  induction fuel with
  | zero =>
    intro j x hj hch h
    obtain ⟨p, hp⟩ := hch
    simp only [treeOf] at h ⊢
    have hn := hrel.node j
    have hj0 : (j == 0) = false := by simpa using hj
    rw [hj0] at hn
    exact docTree_node_moved env env' huc hes hes' _ _ [] [] (by rw [hn]; rfl) (by rw [hn]; rfl)
      (fun k hk => by rw [hn]; exact blockKind_shift F src false _ hk) (KEY j) (hW p _ hp) (fun xs hx => hx) h
  | succ fuel ih =>
    intro j x hj hch h
    obtain ⟨p, hp⟩ := hch
    simp only [treeOf] at h ⊢
    have hn := hrel.node j
    have hj0 : (j == 0) = false := by simpa using hj
    rw [hj0] at hn
    have hch : (nB.getD (F.ι j) default).children = (nA.getD j default).children.map F.ι := by
      rw [hn]; simp [shN]
    refine docTree_node_moved env env' huc hes hes' _ _ _ _ (by rw [hn]; rfl) (by rw [hn]; rfl)
      (fun k hk => by rw [hn]; exact blockKind_shift F src false _ hk) (KEY j) (hW p _ hp) ?_ h
    rw [hch]
    refine docTrees_map env env' (treeOf nA fuel) (treeOf nB fuel) F.ι _ (fun c hc x hx => ?_)
    exact ih c x (hz j c hc) ⟨F.ι j, by rw [hch]; exact List.mem_map_of_mem hc⟩ hx

end trees

/-! ### the Document: heading first, then the blocks of `b` -/

theorem blockPhase_eq_run {D : Bytes} (hb : NoBracket D) : blockPhase true D = GM.Blocks.run D := by
  rcases GM.Props.ConvertE2E.block_phase_bracket_free true D hb with h | ⟨e, h⟩
  · exact h
  · obtain ⟨s, hs, _⟩ := GM.Props.ConvertNP.block_phase_total D
    rw [hs] at h; cases h

theorem docTree_shape {g : Bool} {env : GM.Inl.Env} {D : Bytes} {n : Blocks.Node} {cs : List Blocks.Tree} {t : GM.Node}
    (h : docTree g env D (.node n cs) = .ok t) : ∃ k xs, t = .mk k none xs ∧ blockKind D n = .ok k := by
  unfold docTree at h
  simp only [bind, Except.bind, pure, Except.pure] at h
  split at h
  · cases h
  split at h
  · cases h
  split at h
  · cases h
  cases hk : blockKind D n with
  | error e => rw [hk] at h; simp [liftErr] at h
  | ok k => rw [hk] at h; simp only [liftErr] at h; cases h; exact ⟨_, _, rfl, rfl⟩

theorem docTrees_cons (g : Bool) (env : GM.Inl.Env) (src : Bytes) (t : Blocks.Tree) (ts : List Blocks.Tree) :
    docTrees g env src (t :: ts) = (do let x ← docTree g env src t; let xs ← docTrees g env src ts; pure (x :: xs)) := by
  conv => lhs; unfold docTrees

/-- one more child in front -/
theorem docTree_node_cons {env : GM.Inl.Env} {src : Bytes} (b : Blocks.Node) (tH : Blocks.Tree) (cs : List Blocks.Tree)
    (H : GM.Node) (k : GM.Kind) (ys : List GM.Node) (h1 : docTree true env src tH = .ok H)
    (h2 : docTree true env src (.node b cs) = .ok (.mk k none ys)) :
    docTree true env src (.node b (tH :: cs)) = .ok (.mk k none (H :: ys)) := by
  unfold docTree at h2 ⊢
  rw [docTrees_cons, h1]
  simp only [bind, Except.bind, pure, Except.pure] at h2 ⊢
  cases hbs : docTrees true env src cs with
  | error e => rw [hbs] at h2; cases h2
  | ok bs =>
    rw [hbs] at h2
    simp only [] at h2 ⊢
    cases hq : inlinePhase true env src b with
    | error e => rw [hq] at h2; cases h2
    | ok kids =>
      rw [hq] at h2
      simp only [] at h2 ⊢
      cases hi : liftErr Err.value (inlineTrees src kids) with
      | error e => rw [hi] at h2; cases h2
      | ok is =>
        rw [hi] at h2
        simp only [] at h2 ⊢
        cases hkk : liftErr Err.value (blockKind src b) with
        | error e => rw [hkk] at h2; cases h2
        | ok k' =>
          rw [hkk] at h2
          simp only [Except.ok.injEq, GM.Node.mk.injEq] at h2 ⊢
          obtain ⟨e1, _, e3⟩ := h2
          exact ⟨e1, trivial, by rw [← e3]; rfl⟩

theorem noBracket_hlB {h : Bytes} (hb : NoBracket h) : NoBracket (hlB h) := by
  intro c hc
  unfold hlB at hc
  simp only [List.mem_cons, List.mem_append, List.not_mem_nil, or_false] at hc
  rcases hc with rfl | rfl | hc | rfl
  · decide
  · decide
  · exact hb c hc
  · decide

theorem noBracket_docB {h b : Bytes} (hh : NoBracket h) (hb : NoBracket b) : NoBracket (docB h b) := by
  intro c hc
  unfold docB at hc
  simp only [List.mem_cons, List.mem_append] at hc
  rcases hc with rfl | rfl | rfl | hc | rfl | rfl | hc
  · decide
  · decide
  · decide
  · exact hh c hc
  · decide
  · decide
  · exact hb c hc

theorem run_of_noBracket {D : Bytes} (hb : NoBracket D) : ∃ s, GM.Blocks.run D = .ok s ∧ blockPhase true D = .ok s := by
  obtain ⟨s, hs, _⟩ := GM.Props.ConvertNP.block_phase_total D
  exact ⟨s, by rw [← blockPhase_eq_run hb]; exact hs, hs⟩

/-- the heading line alone: Document[Heading] -/
theorem parseDoc_heading_line (uc : List (Nat × (Bool × Bool))) (h : Bytes) (sh : St) (hp : blockPhase true (hlB h) = .ok sh)
    (n0 : Blocks.Node) (hnh : sh.nodes = headStore n0) (hc0 : n0.children = []) (th : GM.Node)
    (hth : parseDoc true uc (hlB h) = .ok th) :
    ∃ H, docTree true { refs := sh.pc.refs, uc := uc } (hlB h) (.node { n0 with parent := some 0, blankPrev := true } []) = .ok H ∧
      th = .mk .document none [H] := by
  unfold parseDoc at hth
  rw [hp] at hth
  simp only [liftErr, bind, Except.bind] at hth
  rw [hnh] at hth
  have e : treeOf (headStore n0) (headStore n0).length 0 =
      .node { kind := .document, children := [1] } [.node { n0 with parent := some 0, blankPrev := true } []] := by
    simp [treeOf, headStore, hc0]
  rw [e] at hth
  unfold docTree at hth
  rw [docTrees_cons] at hth
  cases hH : docTree true { refs := sh.pc.refs, uc := uc } (hlB h) (.node { n0 with parent := some 0, blankPrev := true } []) with
  | error er =>
    rw [hH] at hth
    simp [bind, Except.bind] at hth
  | ok H =>
    refine ⟨H, rfl, ?_⟩
    rw [hH] at hth
    unfold docTrees at hth
    simp [inlinePhase, isRawKind, blockKind, inlineTrees, liftErr, bind, Except.bind, pure, Except.pure] at hth
    exact hth.symm

/-- the prefix `"\n# h\n\n"` -/
def pre (h : Bytes) : Bytes := 10 :: hlB h ++ [10]

theorem docB_pre (h b : Bytes) : docB h b = pre h ++ b := docB_eq h b

/-- **the renderer's tree of `"\n# h\n\n" ++ b`**: Document[the Heading of `"# h\n"`, the children of `b`'s tree] -/
theorem parseDoc_joined (uc : List (Nat × (Bool × Bool))) (h b : Bytes) (hh : ∀ c ∈ h, c ≠ 10) (hbh : NoBracket h)
    (hbb : NoBracket b)
    (KEYh : ∀ sh, GM.Blocks.run (hlB h) = .ok sh → InlineMoveStep (hlB h) (docB h b) 1 (sh.nodes.getD 1 default).lines)
    (KEYb : ∀ sb, GM.Blocks.run b = .ok sb → ∀ j, isRawKind (sb.nodes.getD j default).kind = false →
      (sb.nodes.getD j default).lines ≠ [] →
      InlineMoveStep b (docB h b) ((pre h).length : Int) (sb.nodes.getD j default).lines)
    (th tb : GM.Node) (hth : parseDoc true uc (hlB h) = .ok th) (htb : parseDoc true uc b = .ok tb) :
    ∃ H xs, th = .mk .document none [H] ∧ tb = .mk .document none xs ∧ (∃ l cs, H = .mk (.heading l) none cs) ∧
      parseDoc true uc (docB h b) = .ok (.mk .document none (H :: xs)) := by
  have hbH := noBracket_hlB hbh
  have hbD := noBracket_docB hbh hbb
  obtain ⟨sh, hsh, hpH⟩ := run_of_noBracket hbH
  obtain ⟨sb, hsb, hpB⟩ := run_of_noBracket hbb
  obtain ⟨sd, hsd, hpD⟩ := run_of_noBracket hbD
  obtain ⟨n0, hn0, hnh⟩ := run_heading_line hh sh hsh
  obtain ⟨n1, stats'', s'', fuel'', dl, hn1, hnodes'', hstart, hcont⟩ := run_joined hh b sd hsd
  obtain ⟨sb', hsb', hrel⟩ := shift_invariance_all (frameB h n1 dl) (frameB_ok h n1 dl) (by simp [frameB]) b hstart fuel'' sd hcont
  rw [hsb] at hsb'
  cases hsb'
  have hmove : n1 = { n0 with lines := n0.lines.map (moveSeg 1) } := by
    have := atxNodeOf_move (hlB h) { start := 0, stop := ((h.length + 3 : Nat) : Int) } 0 1
    have e : moveSeg 1 { start := 0, stop := ((h.length + 3 : Nat) : Int) } =
        ({ start := 1, stop := ((h.length + 4 : Nat) : Int) } : Segment) := by
      simp only [moveSeg, Segment.mk.injEq, and_true]
      omega
    rw [e, hn1, hn0] at this
    simp only [Except.map, Option.map_some, Except.ok.injEq, Option.some.injEq] at this
    exact this
  obtain ⟨hk0, hc0, _, _⟩ := atxNodeOf_shape hn0
  have hk1 : n1.kind = n0.kind := by rw [hmove]
  have hl1 : n1.lines = n0.lines.map (moveSeg 1) := by rw [hmove]
  have hlev1 : n1.level = n0.level := by rw [hmove]
  have hch1 : n1.children = [] := by rw [hmove]; exact hc0
  -- the heading alone
  obtain ⟨H, hH, rfl⟩ := parseDoc_heading_line uc h sh hpH n0 hnh hc0 th hth
  obtain ⟨kH, csH, rfl, hkH⟩ := docTree_shape hH
  have hkH' : kH = .heading n0.level.toNat := by
    unfold blockKind at hkH
    simp only [hk0] at hkH
    cases hkH; rfl
  subst hkH'
  -- tree facts of the joined run
  have tA := GM.Props.ConvertNP.block_phase_tree_consistent b sb hpB
  have tB := GM.Props.ConvertNP.block_phase_tree_consistent _ sd hpD
  have hz : ∀ p c, c ∈ (sb.nodes.getD p default).children → c ≠ 0 := fun p c hc => by
    have := (tA.kid_lt hc).1; omega
  have hW : ∀ p c, c ∈ (sd.nodes.getD p default).children → WFB (docB h b) (sd.nodes.getD c default) := by
    intro p c hc hraw hne
    have hlt := (tB.kid_lt hc).2
    have hmem : sd.nodes.getD c default ∈ sd.nodes := by
      rw [List.getD_eq_getElem?_getD, List.getElem?_eq_getElem hlt, Option.getD_some]; exact List.getElem_mem _
    have hr : GM.Proof.BlocksWF0.isRaw (sd.nodes.getD c default).kind = false := by rw [isRaw_eq]; exact hraw
    obtain ⟨_, _, hwf⟩ := (GM.Props.ConvertNP.block_phase_lines_wellformed _ sd hpD).1 _ hmem hr
    exact ⟨hwf hne, (GM.Props.ConvertNP.block_phase_lines_padding_zero _ sd hpD).1 p c hc hr⟩
  have hA0 : (sb.nodes.getD 0 default).lines = [] := (GM.Props.ConvertNP.block_phase_lines_padding_zero b sb hpB).2
  -- the tree of `b`
  unfold parseDoc at htb
  rw [hpB] at htb
  simp only [liftErr, bind, Except.bind] at htb
  obtain ⟨f, hf⟩ : ∃ f, sb.nodes.length = f + 1 := ⟨sb.nodes.length - 1, by have := hrel.pos; omega⟩
  rw [hf] at htb
  simp only [treeOf] at htb
  obtain ⟨kb, xs, rfl, hkb⟩ := docTree_shape htb
  have hkb' : kb = .document := by
    unfold blockKind at hkb
    simp only [hrel.doc] at hkb
    cases hkb; rfl
  subst hkb'
  refine ⟨_, xs, rfl, rfl, ⟨_, _, rfl⟩, ?_⟩
  -- the tree of the joined source
  have hD := docB_pre h b
  have hB0 := hrel.node 0
  rw [ι_zero] at hB0
  have hB1 : sd.nodes.getD 1 default = { n1 with parent := some 0, blankPrev := true } := by
    rw [hrel.old 1 (Nat.le_refl 1) (by simp [frameB])]
    simp [frameB, headStore]
  have hlen : sd.nodes.length = f + 1 + 1 := by rw [hrel.len, hf]; rfl
  unfold parseDoc
  rw [hpD]
  simp only [liftErr, bind, Except.bind]
  rw [hlen]
  simp only [treeOf]
  rw [hB0]
  have hch : (shN (frameB h n1 dl) (0 == 0) (sb.nodes.getD 0 default)).children =
      1 :: (sb.nodes.getD 0 default).children.map (frameB h n1 dl).ι := by
    simp [shN, frameB]
  rw [hch]
  simp only [List.map_cons]
  refine docTree_node_cons _ _ _ _ _ _ ?_ ?_
  · -- the heading
    rw [hB1]
    have hc1 : ({ n1 with parent := some 0, blankPrev := true } : Blocks.Node).children = [] := hch1
    rw [hc1]
    simp only [List.map_nil]
    refine docTree_node_moved (d := 1) { refs := sh.pc.refs, uc := uc } { refs := sd.pc.refs, uc := uc } rfl rfl rfl
      _ _ [] [] hk1 hl1 (fun k hk => ?_) (fun _ _ => ?_) ?_ (fun xs hx => hx) hH
    · unfold blockKind at hk ⊢
      simp only [hk0] at hk
      simp only [hk1, hk0, hlev1]
      exact hk
    · have := KEYh sh hsh
      rw [hnh] at this
      simpa [headStore] using this
    · have := hW 0 1 (by rw [hB0, hch]; exact List.mem_cons_self ..)
      rw [hB1] at this
      exact this
  · -- the blocks of `b`
    rw [hD]
    refine docTree_node_moved (src := b) (src' := pre h ++ b) (d := (frameB h n1 dl).d) { refs := sb.pc.refs, uc := uc }
      { refs := sd.pc.refs, uc := uc } rfl rfl rfl (sb.nodes.getD 0 default)
      (shN (frameB h n1 dl) (0 == 0) (sb.nodes.getD 0 default)) _ _ rfl rfl
      (fun k hk => blockKind_shift (frameB h n1 dl) b _ _ hk) (fun _ hne => absurd hA0 hne)
      (fun _ hne => absurd (by show List.map _ (sb.nodes.getD 0 default).lines = []; rw [hA0]; rfl) hne) ?_ htb
    refine docTrees_map _ _ (treeOf sb.nodes f) (treeOf sd.nodes (f + 1)) (frameB h n1 dl).ι _ (fun c hc x hx => ?_)
    have hc0' : c ≠ 0 := hz 0 c hc
    have hstab : treeOf sb.nodes f c = treeOf sb.nodes (f + 1) c :=
      treeOf_stable (fun j c' hc' => (tA.kid_lt hc').1) f (f + 1) c (by omega) (by omega)
    rw [hstab] at hx
    have hWp : ∀ p c, c ∈ (sd.nodes.getD p default).children → WFB ((frameB h n1 dl).p ++ b) (sd.nodes.getD c default) := by
      intro p c hc; have := hW p c hc; rw [hD] at this; exact this
    exact docTree_shift (frameB h n1 dl) { refs := sb.pc.refs, uc := uc } { refs := sd.pc.refs, uc := uc } rfl rfl rfl hrel hz hWp
      (fun j h1 h2 => by have := KEYb sb hsb j h1 h2; rw [hD] at this; exact this) (f + 1) c x hc0'
      ⟨0, by rw [hB0, hch]; exact List.mem_cons_of_mem _ (List.mem_map_of_mem hc)⟩ hx

/-! ### the renderer and the composition -/

/-- a Heading does not look at its next sibling -/
theorem renderNode_heading_next (rc : RCfg) (pih : Bool) (next : Option GM.Node) (l : Nat) (a : Option (List Attr))
    (cs : List GM.Node) :
    renderNode rc pih next (.mk (.heading l) a cs) = renderNode rc pih none (.mk (.heading l) a cs) := by
  rw [GM.Proof.RenderWF.renderNode_mk, GM.Proof.RenderWF.renderNode_mk]
  simp [enter, leave]

/-- what `renderer.Render` writes for a Document whose first child is a Heading: the heading, then the rest -/
theorem render_heading_cons (rc : RCfg) (l : Nat) (a : Option (List Attr)) (cs xs : List GM.Node) :
    render rc (.mk .document none (.mk (.heading l) a cs :: xs)) =
      render rc (.mk .document none [.mk (.heading l) a cs]) ++ render rc (.mk .document none xs) := by
  unfold render
  rw [GM.Proof.RenderWF.renderNode_mk, GM.Proof.RenderWF.renderNode_mk, GM.Proof.RenderWF.renderNode_mk]
  simp only [GM.Proof.RenderWF.renderNodes_cons, GM.Proof.RenderWF.renderNodes_nil]
  rw [renderNode_heading_next rc _ xs.head?, renderNode_heading_next rc _ ([] : List GM.Node).head?]
  simp [enter, leave, handled, skipsChildren, Kind.isTableHeader]

/-- **the composed model on `"\n# h\n\n" ++ b`**: the HTML of the heading line, then the HTML of `b` -/
theorem convert_joined (uc : List (Nat × (Bool × Bool))) (o : ROpts) (h b : Bytes) (hh : ∀ c ∈ h, c ≠ 10) (hbh : NoBracket h)
    (hbb : NoBracket b)
    (KEYh : ∀ sh, GM.Blocks.run (hlB h) = .ok sh → InlineMoveStep (hlB h) (docB h b) 1 (sh.nodes.getD 1 default).lines)
    (KEYb : ∀ sb, GM.Blocks.run b = .ok sb → ∀ j, isRawKind (sb.nodes.getD j default).kind = false →
      (sb.nodes.getD j default).lines ≠ [] →
      InlineMoveStep b (docB h b) ((pre h).length : Int) (sb.nodes.getD j default).lines)
    (htmlH htmlB : Bytes) (h1 : convertCore uc o (hlB h) = .ok htmlH) (h2 : convertCore uc o b = .ok htmlB) :
    convertCore uc o (docB h b) = .ok (htmlH ++ htmlB) := by
  unfold convertCore at h1 h2 ⊢
  obtain ⟨th, hth, rfl⟩ := convertWith_ok h1
  obtain ⟨tb, htb, rfl⟩ := convertWith_ok h2
  obtain ⟨H, xs, rfl, rfl, ⟨l, cs, rfl⟩, hpD⟩ := parseDoc_joined uc h b hh hbh hbb KEYh KEYb th tb hth htb
  rw [convertWith_of_tree o hpD, render_heading_cons]

end GM.E2E.Shift
