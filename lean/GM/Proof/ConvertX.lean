/-
  GM.Proof.ConvertX — lemmas for GM.Props.ConvertX: the composition GM.ConvertX.convertX with every member off is
  GM.Convert.convertCore; the table paragraph transformer is an admissible transformer of the block driver (`PTOK`), so
  the block phase terminates for every member set; the inline phase without inline members is the default one.
-/
import GM.Model.ConvertX
import GM.Proof.ConvertTotal
import GM.Proof.InlinesLoopX
import GM.Proof.LinkRefPres
import GM.Proof.ExtDecline

namespace GM.Proof.ConvertX
open GM GM.Text GM.Convert GM.ConvertX GM.Inl

/-! ### the open-table loop over the default table, unconditionally -/

theorem lineLoopX_base (env : Env) : ∀ (fuel : Nat) (esc : Bool) (st : St),
    lineLoopX env baseTbl fuel esc st = lineLoop env fuel esc st := by
  intro fuel
  induction fuel with
  | zero => intro esc st; rfl
  | succ f ih =>
    intro esc st
    simp only [lineLoopX, lineLoop, bind, Except.bind]
    cases st.rd.peekLine with
    | error e => rfl
    | ok pl =>
      simp only []
      cases pl.1.1 with
      | none => rfl
      | some line =>
        simp only []
        split
        · rfl
        · rw [GM.Proof.InlinesLoopX.scanX_eq_scan env baseTbl rfl _ 0 _ (fun _ _ => rfl)]
          cases scan env (List.take (classify line).fst line) 0
              { st := { st with rd := pl.2 }, n := 0, sp := (BlockReader.position pl.2).snd, escaped := esc } with
          | error e => rfl
          | ok r =>
            cases r with
            | hit st' e' => exact ih e' st'
            | eol s' =>
              simp only []
              cases endOfLine (classify line).snd (BlockReader.position pl.2).fst s' with
              | error e => rfl
              | ok st2 => exact ih _ st2

theorem parseBlockG_base (env : Env) (src : Bytes) (segs : List Segment) :
    parseBlockG env baseTbl processDelimiters src segs = parseBlock env src segs := by
  unfold parseBlockG parseBlock
  simp only [lineLoopX_base]

/-! ### every member off -/

/-- no inline member: the trigger table is the default one -/
theorem inlineTbl_noInline (c : XCfg) (hs : c.strikethrough = false) (ht : c.tasklist = false) (inItem : Bool) :
    inlineTbl c inItem = baseTbl := by
  funext b
  simp only [inlineTbl, linkX, hs, ht, baseTbl, parsersFor]
  by_cases h126 : b = 126
  · subst h126; simp
  · by_cases h91 : b = 91
    · subst h91; simp
    · by_cases h33 : b = 33
      · subst h33; simp
      · by_cases h93 : b = 93
        · subst h93; simp
        · simp [h126, h91, h33, h93]

theorem pdX_noStrike (c : XCfg) (hs : c.strikethrough = false) : pdX c = processDelimiters := by
  simp [pdX, hs]

theorem inlineLines_noInline (c : XCfg) (hs : c.strikethrough = false) (ht : c.tasklist = false) (guard : Bool)
    (env : Env) (src : Bytes) (inItem : Bool) (lines : List Segment) :
    inlineLines c guard env src inItem lines =
      (if lines.isEmpty then .ok []
       else if guard && !GM.LinkRef.wf0B src lines then .error .linesNotWF0
       else liftErr .inlines (parseBlock env src lines)) := by
  simp only [inlineLines, inlineTbl_noInline c hs ht, pdX_noStrike c hs, parseBlockG_base]

def offCfg : XCfg := {}

theorem inlinePhaseX_off (guard : Bool) (env : Env) (src : Bytes) (inItem : Bool) (n : GM.Blocks.Node) :
    inlinePhaseX offCfg guard env src inItem n = inlinePhase guard env src n := by
  have h := inlineLines_noInline offCfg rfl rfl guard env src inItem n.lines
  simp only [inlinePhaseX, inlinePhase, h]
  simp [offCfg]

mutual
theorem inlineTreeX_off (src : Bytes) : ∀ n : Inl.Node, inlineTreeX offCfg src n = inlineTree src n
  | .text .. => by simp [inlineTreeX, inlineTree]
  | .codeSpan kids => by simp [inlineTreeX, inlineTree, inlineTreesX_off src kids]
  | .emphasis lv kids => by
    have hs : offCfg.strikethrough = false := rfl
    have ht : offCfg.tasklist = false := rfl
    simp [inlineTreeX, inlineTree, inlineTreesX_off src kids, hs, ht]
  | .link im d t kids => by simp [inlineTreeX, inlineTree, inlineTreesX_off src kids]
  | .autoLink .. => by simp [inlineTreeX, inlineTree]
  | .rawHTML .. => by simp [inlineTreeX, inlineTree]
  | .delim .. => by simp [inlineTreeX, inlineTree]
  | .label .. => by simp [inlineTreeX, inlineTree]
theorem inlineTreesX_off (src : Bytes) : ∀ ns : List Inl.Node, inlineTreesX offCfg src ns = inlineTrees src ns
  | [] => by simp [inlineTreesX, inlineTrees]
  | n :: rest => by simp [inlineTreesX, inlineTrees, inlineTreeX_off src n, inlineTreesX_off src rest]
end

theorem blockKindX_off (src : Bytes) (n : GM.Blocks.Node) : blockKindX offCfg src n = blockKind src n := by
  simp [blockKindX, offCfg]

mutual
theorem docTreeX_off (guard : Bool) (env : Env) (src : Bytes) (escs : List Int) (inItem : Bool) :
    ∀ t : GM.Blocks.Tree, docTreeX offCfg guard env src escs inItem t = docTree guard env src t
  | .node n cs => by
    unfold docTreeX docTree
    rw [docTreesX_off guard env src escs _ _ cs, inlinePhaseX_off, blockKindX_off]
    have hc : (offCfg.table && GM.TableX.isCellNode src n) = false := rfl
    simp only [hc, Bool.false_eq_true, if_false, inlineTreesX_off]
theorem docTreesX_off (guard : Bool) (env : Env) (src : Bytes) (escs : List Int) (pi first : Bool) :
    ∀ ts : List GM.Blocks.Tree, docTreesX offCfg guard env src escs pi first ts = docTrees guard env src ts
  | [] => by unfold docTreesX docTrees; rfl
  | t :: rest => by
    unfold docTreesX docTrees
    rw [docTreeX_off guard env src escs _ t, docTreesX_off guard env src escs _ _ rest]
end

theorem blockPhaseX_noTable (c : XCfg) (ht : c.table = false) (guard : Bool) (src : Bytes) :
    blockPhaseX c guard src = blockPhase guard src := by
  simp [blockPhaseX, blockPhase, paragraphTransformersX, ht]

theorem parseDocX_off (guard : Bool) (uc : List (Nat × (Bool × Bool))) (src : Bytes) :
    parseDocX offCfg guard uc src = parseDoc guard uc src := by
  unfold parseDocX parseDoc
  rw [blockPhaseX_noTable offCfg rfl]
  simp only [docTreeX_off]

theorem renderDocX_off (o : ROpts) (t : GM.Node) : renderDocX offCfg o t = renderDoc o t := rfl

theorem convertXWith_off (guard : Bool) (uc : List (Nat × (Bool × Bool))) (o : ROpts) (src : Bytes) :
    convertXWith offCfg guard uc o src = convertWith guard uc o src := by
  unfold convertXWith convertWith
  rw [parseDocX_off]
  rfl

/-! ### the table paragraph transformer is admissible: the block phase terminates for every member set -/

section table
open GM.Blocks GM.Proof.LinkRefPres
variable {I : GM.Blocks.St → Prop} (h : RPrims I)
include h

theorem addCells_pres (src : Bytes) (row : Nat) : ∀ cells, Pres I (GM.TableX.addCells src row cells)
  | [] => by unfold GM.TableX.addCells; pres
  | c :: rest => by
    have := h.ronly
    have := appendChild_pres h
    have := addCells_pres src row rest
    unfold GM.TableX.addCells; pres

theorem addRow_pres (src : Bytes) (table tag : Nat) (cells) : Pres I (GM.TableX.addRow src table tag cells) := by
  have := h.ronly
  have := appendChild_pres h
  have := addCells_pres h
  unfold GM.TableX.addRow; pres

theorem addRows_pres (src : Bytes) (table : Nat) : ∀ rows, Pres I (GM.TableX.addRows src table rows)
  | [] => by unfold GM.TableX.addRows; pres
  | r :: rest => by
    have := addRow_pres h
    have := addRows_pres src table rest
    unfold GM.TableX.addRows; pres

theorem buildTable_pres (src : Bytes) (node : Nat) (parent : Option Nat) (para) (t) :
    Pres I (GM.TableX.buildTable src node parent para t) := by
  have := h.ronly
  have := addRow_pres h
  have := addRows_pres h
  have := insertBefore_pres h
  have := removeChild_pres h
  unfold GM.TableX.buildTable; pres

theorem transformPT_pres (src : Bytes) (node : Nat) : Pres I (GM.TableX.transformPT src node) := by
  have := buildTable_pres h
  unfold GM.TableX.transformPT; pres
end table

theorem transformPT_ptok (src : Bytes) : GM.Blocks.PTOK (GM.TableX.transformPT src) := fun _ h n => transformPT_pres h src n

theorem paragraphTransformersX_ok (c : XCfg) (src : Bytes) : GM.Blocks.PTsOK (paragraphTransformersX c true src) := by
  intro pt hpt
  simp only [paragraphTransformersX, List.mem_append] at hpt
  rcases hpt with hpt | hpt
  · exact GM.Proof.LinkRefPres.paragraphTransformers_ok pt hpt
  · split at hpt
    · simp only [List.mem_singleton] at hpt; subst hpt; exact transformPT_ptok src
    · cases hpt

/-- **the block phase terminates for every member set**, every source -/
theorem blockPhaseX_noLoop (c : XCfg) (src : Bytes) : blockPhaseX c true src ≠ .error .loop :=
  GM.Blocks.runT_noLoop (paragraphTransformersX_ok c src) src

/-! ### no fuel exhaustion -/

/-- what remains to be shown of the inline phase of a member set: behind the run-time check it never exhausts its fuel -/
def InlineNoLoop (c : XCfg) : Prop :=
  ∀ (env : Env) (src : Bytes) (inItem : Bool) (lines : List Segment) (e : Err),
    inlineLines c true env src inItem lines = .error e → e.isLoop = false

/-- without an inline member the inline phase is the default one: GM.Proof.InlinesLink.parseBlock_total -/
theorem inlineNoLoop_noInline (c : XCfg) (hs : c.strikethrough = false) (ht : c.tasklist = false) : InlineNoLoop c := by
  intro env src inItem lines e h
  rw [inlineLines_noInline c hs ht] at h
  split at h
  · cases h
  · split at h
    · cases h; rfl
    · rename_i hw
      have hw' : GM.LinkRef.wf0B src lines = true := by simpa using hw
      obtain ⟨W, Z⟩ := GM.Proof.LinkRefTotal.wf0B_sound hw'
      obtain ⟨kids, hk⟩ := GM.Proof.InlinesLink.parseBlock_total W Z env
      rw [hk] at h
      cases h

theorem inlinePhaseX_noLoop {c : XCfg} (H : InlineNoLoop c) (env : Env) (src : Bytes) (inItem : Bool)
    (n : GM.Blocks.Node) {e : Err} (h : inlinePhaseX c true env src inItem n = .error e) : e.isLoop = false := by
  unfold inlinePhaseX at h
  split at h
  · cases h
  · split at h
    · cases h
    · split at h
      · cases h
      · exact H _ _ _ _ _ h

open GM.Proof.ConvertTotal in
mutual
theorem docTreeX_noLoop {c : XCfg} (H : InlineNoLoop c) (env : Env) (src : Bytes) (escs : List Int) :
    ∀ (inItem : Bool) (t : GM.Blocks.Tree) (e : Err),
    docTreeX c true env src escs inItem t = .error e → e.isLoop = false
  | inItem, .node n cs, e, h => by
    unfold docTreeX at h
    simp only [bind, Except.bind] at h
    cases h1 : docTreesX c true env src escs (n.kind == .listItem) true cs with
    | error e1 => rw [h1] at h; cases h; exact docTreesX_noLoop H env src escs _ _ cs _ h1
    | ok bs =>
      rw [h1] at h
      simp only at h
      cases h2 : inlinePhaseX c true env src inItem n with
      | error e2 => rw [h2] at h; cases h; exact inlinePhaseX_noLoop H env src inItem n h2
      | ok kids =>
        rw [h2] at h
        simp only at h
        cases h3 : liftErr Err.value
            (inlineTreesX c src (if (c.table && GM.TableX.isCellNode src n) = true then GM.TableX.escNodes escs kids else kids)) with
        | error e3 => rw [h3] at h; cases h; exact liftErr_value_noLoop h3
        | ok is =>
          rw [h3] at h
          simp only at h
          cases h4 : liftErr Err.value (blockKindX c src n) with
          | error e4 => rw [h4] at h; cases h; exact liftErr_value_noLoop h4
          | ok k => rw [h4] at h; cases h
theorem docTreesX_noLoop {c : XCfg} (H : InlineNoLoop c) (env : Env) (src : Bytes) (escs : List Int) :
    ∀ (pi first : Bool) (ts : List GM.Blocks.Tree) (e : Err),
    docTreesX c true env src escs pi first ts = .error e → e.isLoop = false
  | _, _, [], e, h => by unfold docTreesX at h; cases h
  | pi, first, t :: rest, e, h => by
    unfold docTreesX at h
    simp only [bind, Except.bind] at h
    cases h1 : docTreeX c true env src escs (pi && first) t with
    | error e1 => rw [h1] at h; cases h; exact docTreeX_noLoop H env src escs _ t _ h1
    | ok x =>
      rw [h1] at h
      simp only at h
      cases h2 : docTreesX c true env src escs pi false rest with
      | error e2 => rw [h2] at h; cases h; exact docTreesX_noLoop H env src escs _ _ rest _ h2
      | ok xs => rw [h2] at h; cases h
end

theorem parseDocX_noLoop {c : XCfg} (H : InlineNoLoop c) (uc : List (Nat × (Bool × Bool))) (src : Bytes) {e : Err}
    (h : parseDocX c true uc src = .error e) : e.isLoop = false := by
  unfold parseDocX at h
  simp only [bind, Except.bind] at h
  cases hb : blockPhaseX c true src with
  | error p =>
    rw [hb] at h
    simp only [liftErr] at h
    cases h
    have := blockPhaseX_noLoop c src
    cases p <;> first | rfl | exact absurd hb this
  | ok st =>
    rw [hb] at h
    simp only [liftErr] at h
    exact docTreeX_noLoop H _ src _ _ _ _ h

theorem renderDocX_noLoop (c : XCfg) (o : ROpts) (t : GM.Node) {e : Err} (h : renderDocX c o t = .error e) :
    e.isLoop = false := by
  unfold renderDocX at h
  split at h
  · cases h; rfl
  · cases h

/-- `convertX` never ends in the fuel-exhaustion outcome, for every member set whose inline phase terminates -/
theorem convertX_noLoop {c : XCfg} (H : InlineNoLoop c) (uc : List (Nat × (Bool × Bool))) (o : ROpts) (src : Bytes)
    {e : Err} (h : convertX c uc o src = .error e) : e.isLoop = false := by
  unfold convertX convertXWith at h
  simp only [bind, Except.bind] at h
  cases hp : parseDocX c true uc src with
  | error e1 => rw [hp] at h; cases h; exact parseDocX_noLoop H uc src hp
  | ok t => rw [hp] at h; exact renderDocX_noLoop c o t h

/-! ### C11 mechanisms on the composed model -/

/-- TaskList on, Strikethrough off: the trigger table is the default one with the checkbox parser put in front of the
    entry of `[` -/
theorem inlineTbl_task (c : XCfg) (hs : c.strikethrough = false) (ht : c.tasklist = true) (inItem : Bool) :
    inlineTbl c inItem = insertTbl (taskParser inItem) (fun _ => 0) baseTbl := by
  funext b
  simp only [inlineTbl, linkX, hs, ht, insertTbl, taskParser]
  by_cases h91 : b = 91
  · subst h91; simp [baseTbl, parsersFor]
  · have hf : List.filter (fun x => x == b) [(91 : UInt8)] = [] := by
      simp only [List.filter_cons, List.filter_nil]
      have : ((91 : UInt8) == b) = false := by
        simp only [beq_eq_false_iff_ne, ne_eq]; exact fun h => h91 h.symm
      simp [this]
    simp only [hf, List.map_nil, List.append_nil, List.take_zero, List.nil_append, List.drop_zero]
    by_cases h126 : b = 126
    · subst h126; simp [baseTbl, parsersFor]
    · by_cases h33 : b = 33
      · subst h33; simp [baseTbl, parsersFor]
      · by_cases h93 : b = 93
        · subst h93; simp [baseTbl, parsersFor]
        · simp [h126, h91, h33, h93]

theorem parseBlockG_default_pd (env : Env) (tbl : UInt8 → List XIp) (src : Bytes) (segs : List Segment) :
    parseBlockG env tbl processDelimiters src segs = parseBlockX env tbl src segs := rfl

/-- the inline phase of a block with TaskList (Strikethrough off) on a source without `[`: the default inline phase -/
theorem inlineLines_task_unused (c : XCfg) (hs : c.strikethrough = false) (env : Env) (src : Bytes)
    (hsrc : (91 : UInt8) ∉ src) (inItem : Bool) (lines : List Segment) :
    inlineLines { c with tasklist := true } true env src inItem lines =
      inlineLines { c with tasklist := false } true env src inItem lines := by
  rw [inlineLines_noInline { c with tasklist := false } hs rfl]
  unfold inlineLines
  split
  · rfl
  · split
    · rfl
    · rename_i hw
      have hw' : GM.LinkRef.wf0B src lines = true := by simpa using hw
      obtain ⟨W, Z⟩ := GM.Proof.LinkRefTotal.wf0B_sound hw'
      rw [inlineTbl_task { c with tasklist := true } hs rfl, pdX_noStrike _ (by exact hs), parseBlockG_default_pd,
        GM.Proof.InlinesLoopX.parseBlock_unused W Z env (taskParser inItem) (fun _ => 0) (by simp [taskParser])
          (fun b hb hm => by
            simp only [taskParser, List.mem_singleton] at hm
            subst hm; exact hsrc hb)]

/-- the byte loop of the inline phase over two trigger tables that agree on ' ' and on every byte of the scanned line -/
theorem scanX_congr (env : Env) (t1 t2 : UInt8 → List XIp) (h32 : t1 32 = t2 32) :
    ∀ (bs : Bytes) (i : Nat) (s : Inl.Scan), (∀ c ∈ bs, t1 c = t2 c) → scanX env t1 bs i s = scanX env t2 bs i s := by
  intro bs
  induction bs with
  | nil => intro i s _; rfl
  | cons c cs ih =>
    intro i s hb
    have hpc : t1 (parserChar c i) = t2 (parserChar c i) := by
      rcases GM.Proof.InlinesLoopX.parserChar_cases c i with h | h
      · rw [h]; exact h32
      · rw [h]; exact hb c (by simp)
    have hcs : ∀ x ∈ cs, t1 x = t2 x := fun x hx => hb x (by simp [hx])
    simp only [scanX, hpc]
    split
    · rfl
    · split
      · cases triggerX env (t2 (parserChar c i)) i s with
        | error e => rfl
        | ok r =>
          cases r with
          | inl st => rfl
          | inr s' => exact ih _ _ hcs
      · exact ih _ _ hcs

/-- the table paragraph transformer on a state whose source has no '-': nothing changes (or the domain monitor fires) -/
theorem transformPT_no_dash (src : Bytes) (h : (45 : UInt8) ∉ src) (node : Nat) (s : GM.Blocks.St) :
    GM.TableX.transformPT src node s = .ok ((), s) ∨ GM.TableX.transformPT src node s = .error .pre := by
  have ht := GM.Ext.transform_no_dash src (List.map GM.TableX.toSeg (s.nodes.getD node default).lines)
    (fun l _ => GM.Ext.value_no_dash src l h)
  unfold GM.TableX.transformPT
  simp only [bind, StateT.bind, GM.Blocks.getNode, GM.Blocks.source, pure, Except.pure, Except.bind, StateT.pure]
  split
  · exact Or.inr rfl
  · simp only [ht]
    exact Or.inl rfl

/-! ### the renderer reads `Exts` only through `handled` -/

theorem enter_exts (rc : RCfg) (e : Exts) (p : Bool) (nx : Option GM.Node) (k : Kind) (a : Option (List Attr))
    (cs : List GM.Node) (h : handled e k = handled rc.exts k) :
    enter { rc with exts := e } p nx k a cs = enter rc p nx k a cs := by
  unfold enter
  simp only [h]
  rfl

theorem leave_exts (rc : RCfg) (e : Exts) (p : Bool) (nx : Option GM.Node) (k : Kind) (cs : List GM.Node)
    (h : handled e k = handled rc.exts k) : leave { rc with exts := e } p nx k cs = leave rc p nx k cs := by
  unfold leave
  simp only [h]

theorem nodePanic_exts (rc : RCfg) (e : Exts) (k : Kind) (a : Option (List Attr)) (cs : List GM.Node)
    (h : handled e k = handled rc.exts k) : nodePanic { rc with exts := e } k a cs = nodePanic rc k a cs := by
  unfold nodePanic
  simp only [h]

mutual
/-- every node kind of the tree satisfies `P` -/
def allKinds (P : Kind → Bool) : GM.Node → Bool
  | .mk k _ cs => P k && allKindsL P cs
def allKindsL (P : Kind → Bool) : List GM.Node → Bool
  | [] => true
  | n :: rest => allKinds P n && allKindsL P rest
end

theorem allKindsL_append (P : Kind → Bool) (a b : List GM.Node) :
    allKindsL P (a ++ b) = (allKindsL P a && allKindsL P b) := by
  induction a with
  | nil => simp [allKindsL]
  | cons x r ih => simp [allKindsL, ih, Bool.and_assoc]

mutual
theorem renderNode_exts (rc : RCfg) (e : Exts) : ∀ (p : Bool) (nx : Option GM.Node) (t : GM.Node),
    allKinds (fun k => handled e k == handled rc.exts k) t = true →
    renderNode { rc with exts := e } p nx t = renderNode rc p nx t
  | p, nx, .mk k a cs, h => by
    simp only [allKinds, Bool.and_eq_true, beq_iff_eq] at h
    unfold renderNode
    rw [enter_exts rc e p nx k a cs h.1, leave_exts rc e p nx k cs h.1, renderNodes_exts rc e _ cs h.2]
    simp only [h.1]
theorem renderNodes_exts (rc : RCfg) (e : Exts) : ∀ (p : Bool) (ts : List GM.Node),
    allKindsL (fun k => handled e k == handled rc.exts k) ts = true →
    renderNodes { rc with exts := e } p ts = renderNodes rc p ts
  | _, [], _ => by unfold renderNodes; rfl
  | p, t :: rest, h => by
    simp only [allKindsL, Bool.and_eq_true] at h
    unfold renderNodes
    rw [renderNode_exts rc e p _ t h.1, renderNodes_exts rc e p rest h.2]
end

mutual
theorem renderPanicsNode_exts (rc : RCfg) (e : Exts) : ∀ (t : GM.Node),
    allKinds (fun k => handled e k == handled rc.exts k) t = true →
    renderPanicsNode { rc with exts := e } t = renderPanicsNode rc t
  | .mk k a cs, h => by
    simp only [allKinds, Bool.and_eq_true, beq_iff_eq] at h
    unfold renderPanicsNode
    rw [nodePanic_exts rc e k a cs h.1, renderPanicsNodes_exts rc e cs h.2]
    simp only [h.1]
theorem renderPanicsNodes_exts (rc : RCfg) (e : Exts) : ∀ (ts : List GM.Node),
    allKindsL (fun k => handled e k == handled rc.exts k) ts = true →
    renderPanicsNodes { rc with exts := e } ts = renderPanicsNodes rc ts
  | [], _ => by unfold renderPanicsNodes; rfl
  | t :: rest, h => by
    simp only [allKindsL, Bool.and_eq_true] at h
    unfold renderPanicsNodes
    rw [renderPanicsNode_exts rc e t h.1, renderPanicsNodes_exts rc e rest h.2]
end

/-- two member sets render a tree alike when their node renderers agree on every kind that occurs in it -/
theorem renderDocX_exts (c1 c2 : XCfg) (o : ROpts) (t : GM.Node)
    (h : allKinds (fun k => handled c1.exts k == handled c2.exts k) t = true) : renderDocX c1 o t = renderDocX c2 o t := by
  have hr : rcfgX c1 o = { rcfgX c2 o with exts := c1.exts } := rfl
  have he : (rcfgX c2 o).exts = c2.exts := rfl
  unfold renderDocX
  rw [hr, render, render, renderPanics, renderPanics, renderNode_exts _ _ _ _ _ (by rw [he]; exact h),
    renderPanicsNode_exts _ _ _ (by rw [he]; exact h)]

/-! ### the representations of Strikethrough / TaskCheckBox never occur in the default inline model's output -/

mutual
/-- every emphasis node, at any depth, has a level ≥ 1 -/
def lvOK : Inl.Node → Bool
  | .emphasis lv ks => decide (1 ≤ lv) && lvOKL ks
  | .codeSpan ks => lvOKL ks
  | .link _ _ _ ks => lvOKL ks
  | _ => true
def lvOKL : List Inl.Node → Bool
  | [] => true
  | n :: rest => lvOK n && lvOKL rest
end

theorem lvOKL_append (a b : List Inl.Node) : lvOKL (a ++ b) = (lvOKL a && lvOKL b) := by
  induction a with
  | nil => simp [lvOKL]
  | cons x r ih => simp [lvOKL, ih, Bool.and_assoc]

theorem lvOKL_allText : ∀ (ks : List Inl.Node), ks.all GM.Proof.Inlines.isText = true → lvOKL ks = true
  | [], _ => rfl
  | n :: rest, h => by
    simp only [List.all_cons, Bool.and_eq_true] at h
    have := lvOKL_allText rest h.2
    cases n <;> simp_all [lvOKL, lvOK, GM.Proof.Inlines.isText]

mutual
theorem wf_lvOK (lab : Bool) : ∀ n : Inl.Node, GM.Proof.Inlines.wf lab n = true → lvOK n = true
  | .text .., _ => rfl
  | .codeSpan ks, h => by
    simp only [GM.Proof.Inlines.wf] at h
    simp only [lvOK]; exact lvOKL_allText ks h
  | .emphasis lv ks, h => by
    simp only [GM.Proof.Inlines.wf, Bool.and_eq_true, Bool.or_eq_true, beq_iff_eq] at h
    simp only [lvOK, Bool.and_eq_true, decide_eq_true_eq]
    exact ⟨by omega, wfL_lvOKL lab ks h.2⟩
  | .link _ _ _ ks, h => by
    simp only [GM.Proof.Inlines.wf, Bool.and_eq_true] at h
    simp only [lvOK]; exact wfL_lvOKL lab ks h.1
  | .autoLink .., _ => rfl
  | .rawHTML .., _ => rfl
  | .delim .., _ => rfl
  | .label .., _ => rfl
theorem wfL_lvOKL (lab : Bool) : ∀ ns : List Inl.Node, GM.Proof.Inlines.wfL lab ns = true → lvOKL ns = true
  | [], _ => rfl
  | n :: rest, h => by
    simp only [GM.Proof.Inlines.wfL, Bool.and_eq_true] at h
    simp only [lvOKL, Bool.and_eq_true]
    exact ⟨wf_lvOK lab n h.1, wfL_lvOKL lab rest h.2⟩
end

theorem escCut_lvOK (a b : Int) : ∀ (ps : List Int) (done : List Inl.Node) (cur : Segment) (cut : Bool),
    lvOKL done = true → lvOKL (GM.TableX.escCut a b ps done cur cut).1 = true
  | [], _, _, _, h => by simpa [GM.TableX.escCut] using h
  | pos :: rest, done, cur, cut, h => by
    unfold GM.TableX.escCut
    split
    · exact escCut_lvOK a b rest _ _ _ (by simp [lvOKL_append, h, lvOKL, lvOK, rawTextOf])
    · exact escCut_lvOK a b rest _ _ _ h

mutual
theorem escNode_lvOK (ps : List Int) : ∀ n : Inl.Node, lvOK n = true → lvOK (GM.TableX.escNode ps n) = true
  | .codeSpan ks, h => by
    simp only [lvOK] at h
    simp only [GM.TableX.escNode, lvOK]; exact escSpanKids_lvOK ps ks h
  | .emphasis lv ks, h => by
    simp only [lvOK, Bool.and_eq_true] at h
    simp only [GM.TableX.escNode, lvOK, Bool.and_eq_true]; exact ⟨h.1, escNodes_lvOK ps ks h.2⟩
  | .link _ _ _ ks, h => by
    simp only [lvOK] at h
    simp only [GM.TableX.escNode, lvOK]; exact escNodes_lvOK ps ks h
  | .text .., _ => rfl
  | .autoLink .., _ => rfl
  | .rawHTML .., _ => rfl
  | .delim .., _ => rfl
  | .label .., _ => rfl
theorem escNodes_lvOK (ps : List Int) : ∀ ns : List Inl.Node, lvOKL ns = true → lvOKL (GM.TableX.escNodes ps ns) = true
  | [], _ => rfl
  | n :: rest, h => by
    simp only [lvOKL, Bool.and_eq_true] at h
    simp only [GM.TableX.escNodes, lvOKL, Bool.and_eq_true]
    exact ⟨escNode_lvOK ps n h.1, escNodes_lvOK ps rest h.2⟩
theorem escSpanKids_lvOK (ps : List Int) : ∀ ns : List Inl.Node, lvOKL ns = true → lvOKL (GM.TableX.escSpanKids ps ns) = true
  | [], _ => rfl
  | .text seg so ha ra :: rest, h => by
    simp only [lvOKL, Bool.and_eq_true] at h
    simp only [GM.TableX.escSpanKids, lvOKL_append, Bool.and_eq_true]
    refine ⟨?_, escSpanKids_lvOK ps rest h.2⟩
    split
    · simp only [lvOKL_append, Bool.and_eq_true]
      exact ⟨escCut_lvOK _ _ ps [] seg false rfl, by simp [lvOKL, lvOK, rawTextOf]⟩
    · simp [lvOKL, lvOK]
  | .codeSpan ks :: rest, h => by
    simp only [lvOKL, Bool.and_eq_true] at h
    simp only [GM.TableX.escSpanKids, lvOKL, Bool.and_eq_true]
    exact ⟨escNode_lvOK ps _ h.1, escSpanKids_lvOK ps rest h.2⟩
  | .emphasis lv ks :: rest, h => by
    simp only [lvOKL, Bool.and_eq_true] at h
    simp only [GM.TableX.escSpanKids, lvOKL, Bool.and_eq_true]
    exact ⟨escNode_lvOK ps _ h.1, escSpanKids_lvOK ps rest h.2⟩
  | .link a b c ks :: rest, h => by
    simp only [lvOKL, Bool.and_eq_true] at h
    simp only [GM.TableX.escSpanKids, lvOKL, Bool.and_eq_true]
    exact ⟨escNode_lvOK ps _ h.1, escSpanKids_lvOK ps rest h.2⟩
  | .autoLink a b :: rest, h => by
    simp only [lvOKL, Bool.and_eq_true] at h
    simp only [GM.TableX.escSpanKids, lvOKL, Bool.and_eq_true]
    exact ⟨escNode_lvOK ps _ h.1, escSpanKids_lvOK ps rest h.2⟩
  | .rawHTML a :: rest, h => by
    simp only [lvOKL, Bool.and_eq_true] at h
    simp only [GM.TableX.escSpanKids, lvOKL, Bool.and_eq_true]
    exact ⟨escNode_lvOK ps _ h.1, escSpanKids_lvOK ps rest h.2⟩
  | .delim a b :: rest, h => by
    simp only [lvOKL, Bool.and_eq_true] at h
    simp only [GM.TableX.escSpanKids, lvOKL, Bool.and_eq_true]
    exact ⟨escNode_lvOK ps _ h.1, escSpanKids_lvOK ps rest h.2⟩
  | .label a b c :: rest, h => by
    simp only [lvOKL, Bool.and_eq_true] at h
    simp only [GM.TableX.escSpanKids, lvOKL, Bool.and_eq_true]
    exact ⟨escNode_lvOK ps _ h.1, escSpanKids_lvOK ps rest h.2⟩
end

mutual
/-- on a tree without the representations the decoding does not depend on the inline member flags -/
theorem inlineTreeX_flags (c1 c2 : XCfg) (src : Bytes) : ∀ n : Inl.Node, lvOK n = true →
    inlineTreeX c1 src n = inlineTreeX c2 src n
  | .text .., _ => by simp [inlineTreeX]
  | .codeSpan ks, h => by
    simp only [lvOK] at h
    simp only [inlineTreeX, inlineTreesX_flags c1 c2 src ks h]
  | .emphasis lv ks, h => by
    simp only [lvOK, Bool.and_eq_true, decide_eq_true_eq] at h
    have h0 : (lv == -3 || lv == -4) = false := by
      simp only [Bool.or_eq_false_iff, beq_eq_false_iff_ne, ne_eq]; omega
    have h1 : (lv == -1) = false := by simp only [beq_eq_false_iff_ne, ne_eq]; omega
    have h2 : (lv == -2) = false := by simp only [beq_eq_false_iff_ne, ne_eq]; omega
    simp only [inlineTreeX, inlineTreesX_flags c1 c2 src ks h.2, h0, h1, h2, Bool.and_false, Bool.false_eq_true, if_false]
  | .link _ _ _ ks, h => by
    simp only [lvOK] at h
    simp only [inlineTreeX, inlineTreesX_flags c1 c2 src ks h]
  | .autoLink .., _ => by simp [inlineTreeX]
  | .rawHTML .., _ => by simp [inlineTreeX]
  | .delim .., _ => by simp [inlineTreeX]
  | .label .., _ => by simp [inlineTreeX]
theorem inlineTreesX_flags (c1 c2 : XCfg) (src : Bytes) : ∀ ns : List Inl.Node, lvOKL ns = true →
    inlineTreesX c1 src ns = inlineTreesX c2 src ns
  | [], _ => by simp [inlineTreesX]
  | n :: rest, h => by
    simp only [lvOKL, Bool.and_eq_true] at h
    simp only [inlineTreesX, inlineTreeX_flags c1 c2 src n h.1, inlineTreesX_flags c1 c2 src rest h.2]
end

/-! ### TaskList, whole documents -/

theorem ebind_ok {ε α β : Type} {x : Except ε α} {f : α → Except ε β} {b : β}
    (h : (x >>= f) = .ok b) : ∃ a, x = .ok a ∧ f a = .ok b := by
  cases x with
  | error e => simp [bind, Except.bind] at h
  | ok a => exact ⟨a, rfl, h⟩

theorem epure_ok {ε α : Type} {a b : α} (h : (pure a : Except ε α) = .ok b) : b = a := by
  simp only [pure, Except.pure, Except.ok.injEq] at h; exact h.symm

theorem liftErr_ok' {α : Type} {f : Panic → Err} {x : Except Panic α} {a : α} (h : liftErr f x = .ok a) : x = .ok a := by
  cases x with
  | ok b => simp only [liftErr, Except.ok.injEq] at h; rw [h]
  | error e => cases h

/-- not a TaskCheckBox -/
def notTask : Kind → Bool
  | .taskCheckBox _ => false
  | _ => true

theorem handled_task (e : Exts) (x y : Bool) {k : Kind} (h : notTask k = true) :
    handled { e with task := x } k = handled { e with task := y } k := by
  cases k <;> simp_all [handled, notTask]

mutual
theorem allKinds_mono {P Q : Kind → Bool} (hPQ : ∀ k, P k = true → Q k = true) :
    ∀ t : GM.Node, allKinds P t = true → allKinds Q t = true
  | .mk k _ cs, h => by
    simp only [allKinds, Bool.and_eq_true] at h ⊢
    exact ⟨hPQ k h.1, allKindsL_mono hPQ cs h.2⟩
theorem allKindsL_mono {P Q : Kind → Bool} (hPQ : ∀ k, P k = true → Q k = true) :
    ∀ ts : List GM.Node, allKindsL P ts = true → allKindsL Q ts = true
  | [], _ => rfl
  | t :: rest, h => by
    simp only [allKindsL, Bool.and_eq_true] at h ⊢
    exact ⟨allKinds_mono hPQ t h.1, allKindsL_mono hPQ rest h.2⟩
end

theorem blockKind_notTask {src : Bytes} {n : GM.Blocks.Node} {k : Kind} (h : blockKind src n = .ok k) :
    notTask k = true := by
  unfold blockKind at h
  split at h
  case h_8 =>
    dsimp only at h
    split at h
    · obtain ⟨a, _, h⟩ := ebind_ok h
      obtain ⟨b, hb, h⟩ := ebind_ok h
      obtain ⟨c, _, h⟩ := ebind_ok h
      rw [epure_ok h]; rfl
    · obtain ⟨b, hb, h⟩ := ebind_ok h
      obtain ⟨c, _, h⟩ := ebind_ok h
      rw [epure_ok h]; rfl
  case h_9 =>
    dsimp only at h
    split at h
    · obtain ⟨a, _, h⟩ := ebind_ok h
      obtain ⟨b, hb, h⟩ := ebind_ok h
      obtain ⟨c, _, h⟩ := ebind_ok h
      rw [epure_ok h]; rfl
    · obtain ⟨b, hb, h⟩ := ebind_ok h
      obtain ⟨c, _, h⟩ := ebind_ok h
      rw [epure_ok h]; rfl
  all_goals first
    | (rw [epure_ok h]; rfl)
    | (obtain ⟨a, _, h⟩ := ebind_ok h; rw [epure_ok h]; rfl)

theorem blockKindX_notTask {c : XCfg} {src : Bytes} {n : GM.Blocks.Node} {k : Kind} (h : blockKindX c src n = .ok k) :
    notTask k = true := by
  unfold blockKindX at h
  split at h
  · split at h
    · rename_i k' hk
      rw [epure_ok h]
      unfold GM.TableX.kindOf at hk
      split at hk
      · split at hk
        · cases hk; rfl
        · split at hk
          · cases hk; rfl
          · split at hk
            · cases hk; rfl
            · split at hk
              · cases hk; rfl
              · cases hk
      · cases hk
    · exact blockKind_notTask h
  · exact blockKind_notTask h

mutual
theorem inlineTreeX_notTask (c : XCfg) (ht : c.tasklist = false) (src : Bytes) : ∀ (n : Inl.Node) (t : GM.Node),
    inlineTreeX c src n = .ok t → allKinds notTask t = true
  | .text .., t, h => by
    unfold inlineTreeX at h
    obtain ⟨v, _, h⟩ := ebind_ok h
    rw [epure_ok h]; rfl
  | .codeSpan ks, t, h => by
    unfold inlineTreeX at h
    obtain ⟨cs, hcs, h⟩ := ebind_ok h
    rw [epure_ok h]
    simp only [allKinds, notTask, Bool.true_and]
    exact inlineTreesX_notTask c ht src ks cs hcs
  | .emphasis lv ks, t, h => by
    unfold inlineTreeX at h
    obtain ⟨cs, hcs, h⟩ := ebind_ok h
    have hk := inlineTreesX_notTask c ht src ks cs hcs
    simp only [ht, Bool.false_and, Bool.false_eq_true, if_false] at h
    split at h <;> (rw [epure_ok h]; simp only [allKinds, notTask, Bool.true_and]; exact hk)
  | .link im d tt ks, t, h => by
    unfold inlineTreeX at h
    obtain ⟨cs, hcs, h⟩ := ebind_ok h
    have hk := inlineTreesX_notTask c ht src ks cs hcs
    rw [epure_ok h]
    simp only [allKinds, Bool.and_eq_true]
    refine ⟨?_, hk⟩
    split <;> rfl
  | .autoLink .., t, h => by
    unfold inlineTreeX at h
    obtain ⟨v, _, h⟩ := ebind_ok h
    rw [epure_ok h]; rfl
  | .rawHTML .., t, h => by
    unfold inlineTreeX at h
    obtain ⟨v, _, h⟩ := ebind_ok h
    rw [epure_ok h]; rfl
  | .delim .., t, h => by
    unfold inlineTreeX at h
    rw [epure_ok h]; rfl
  | .label .., t, h => by
    unfold inlineTreeX at h
    rw [epure_ok h]; rfl
theorem inlineTreesX_notTask (c : XCfg) (ht : c.tasklist = false) (src : Bytes) : ∀ (ns : List Inl.Node) (ts : List GM.Node),
    inlineTreesX c src ns = .ok ts → allKindsL notTask ts = true
  | [], ts, h => by
    unfold inlineTreesX at h
    rw [epure_ok h]; rfl
  | n :: rest, ts, h => by
    unfold inlineTreesX at h
    obtain ⟨t, h1, h⟩ := ebind_ok h
    obtain ⟨ts', h2, h⟩ := ebind_ok h
    rw [epure_ok h]
    simp only [allKindsL, Bool.and_eq_true]
    exact ⟨inlineTreeX_notTask c ht src n t h1, inlineTreesX_notTask c ht src rest ts' h2⟩
end

mutual
theorem docTreeX_notTask (c : XCfg) (ht : c.tasklist = false) (g : Bool) (env : Env) (src : Bytes) (escs : List Int) :
    ∀ (inItem : Bool) (t : GM.Blocks.Tree) (x : GM.Node),
    docTreeX c g env src escs inItem t = .ok x → allKinds notTask x = true
  | inItem, .node n cs, x, h => by
    unfold docTreeX at h
    obtain ⟨bs, h1, h⟩ := ebind_ok h
    obtain ⟨kids, _, h⟩ := ebind_ok h
    obtain ⟨is, h3, h⟩ := ebind_ok h
    obtain ⟨k, h4, h⟩ := ebind_ok h
    rw [epure_ok h]
    simp only [allKinds, allKindsL_append, Bool.and_eq_true]
    exact ⟨blockKindX_notTask (liftErr_ok' h4), docTreesX_notTask c ht g env src escs _ _ cs bs h1,
      inlineTreesX_notTask c ht src _ is (liftErr_ok' h3)⟩
theorem docTreesX_notTask (c : XCfg) (ht : c.tasklist = false) (g : Bool) (env : Env) (src : Bytes) (escs : List Int) :
    ∀ (pi first : Bool) (ts : List GM.Blocks.Tree) (xs : List GM.Node),
    docTreesX c g env src escs pi first ts = .ok xs → allKindsL notTask xs = true
  | _, _, [], xs, h => by
    unfold docTreesX at h
    rw [epure_ok h]; rfl
  | pi, first, t :: rest, xs, h => by
    unfold docTreesX at h
    obtain ⟨x, h1, h⟩ := ebind_ok h
    obtain ⟨xs', h2, h⟩ := ebind_ok h
    rw [epure_ok h]
    simp only [allKindsL, Bool.and_eq_true]
    exact ⟨docTreeX_notTask c ht g env src escs _ t x h1, docTreesX_notTask c ht g env src escs _ _ rest xs' h2⟩
end

/-! ### Table, whole documents -/

/-- not one of the four table kinds -/
def notTable : Kind → Bool
  | .table | .tableHeader | .tableRow | .tableCell _ => false
  | _ => true

theorem handled_table (e : Exts) (x y : Bool) {k : Kind} (h : notTable k = true) :
    handled { e with table := x } k = handled { e with table := y } k := by
  cases k <;> simp_all [handled, notTable]

theorem blockKind_notTable {src : Bytes} {n : GM.Blocks.Node} {k : Kind} (h : blockKind src n = .ok k) :
    notTable k = true := by
  unfold blockKind at h
  split at h
  case h_8 =>
    dsimp only at h
    split at h
    · obtain ⟨a, _, h⟩ := ebind_ok h
      obtain ⟨b, hb, h⟩ := ebind_ok h
      obtain ⟨c, _, h⟩ := ebind_ok h
      rw [epure_ok h]; rfl
    · obtain ⟨b, hb, h⟩ := ebind_ok h
      obtain ⟨c, _, h⟩ := ebind_ok h
      rw [epure_ok h]; rfl
  case h_9 =>
    dsimp only at h
    split at h
    · obtain ⟨a, _, h⟩ := ebind_ok h
      obtain ⟨b, hb, h⟩ := ebind_ok h
      obtain ⟨c, _, h⟩ := ebind_ok h
      rw [epure_ok h]; rfl
    · obtain ⟨b, hb, h⟩ := ebind_ok h
      obtain ⟨c, _, h⟩ := ebind_ok h
      rw [epure_ok h]; rfl
  all_goals first
    | (rw [epure_ok h]; rfl)
    | (obtain ⟨a, _, h⟩ := ebind_ok h; rw [epure_ok h]; rfl)

theorem blockKindX_notTable {c : XCfg} (hc : c.table = false) {src : Bytes} {n : GM.Blocks.Node} {k : Kind}
    (h : blockKindX c src n = .ok k) : notTable k = true := by
  unfold blockKindX at h
  simp only [hc, Bool.false_eq_true, if_false] at h
  exact blockKind_notTable h

mutual
theorem inlineTreeX_notTable (c : XCfg) (src : Bytes) : ∀ (n : Inl.Node) (t : GM.Node),
    inlineTreeX c src n = .ok t → allKinds notTable t = true
  | .text .., t, h => by
    unfold inlineTreeX at h
    obtain ⟨v, _, h⟩ := ebind_ok h
    rw [epure_ok h]; rfl
  | .codeSpan ks, t, h => by
    unfold inlineTreeX at h
    obtain ⟨cs, hcs, h⟩ := ebind_ok h
    rw [epure_ok h]
    simp only [allKinds, notTable, Bool.true_and]
    exact inlineTreesX_notTable c src ks cs hcs
  | .emphasis lv ks, t, h => by
    unfold inlineTreeX at h
    obtain ⟨cs, hcs, h⟩ := ebind_ok h
    have hk := inlineTreesX_notTable c src ks cs hcs
    split at h
    · rw [epure_ok h]; simp only [allKinds, notTable, Bool.true_and]; exact hk
    · split at h
      · rw [epure_ok h]; simp only [allKinds, notTable, Bool.true_and]; exact hk
      · split at h <;> (rw [epure_ok h]; simp only [allKinds, notTable, Bool.true_and]; exact hk)
  | .link im d tt ks, t, h => by
    unfold inlineTreeX at h
    obtain ⟨cs, hcs, h⟩ := ebind_ok h
    have hk := inlineTreesX_notTable c src ks cs hcs
    rw [epure_ok h]
    simp only [allKinds, Bool.and_eq_true]
    refine ⟨?_, hk⟩
    split <;> rfl
  | .autoLink .., t, h => by
    unfold inlineTreeX at h
    obtain ⟨v, _, h⟩ := ebind_ok h
    rw [epure_ok h]; rfl
  | .rawHTML .., t, h => by
    unfold inlineTreeX at h
    obtain ⟨v, _, h⟩ := ebind_ok h
    rw [epure_ok h]; rfl
  | .delim .., t, h => by
    unfold inlineTreeX at h
    rw [epure_ok h]; rfl
  | .label .., t, h => by
    unfold inlineTreeX at h
    rw [epure_ok h]; rfl
theorem inlineTreesX_notTable (c : XCfg) (src : Bytes) : ∀ (ns : List Inl.Node) (ts : List GM.Node),
    inlineTreesX c src ns = .ok ts → allKindsL notTable ts = true
  | [], ts, h => by
    unfold inlineTreesX at h
    rw [epure_ok h]; rfl
  | n :: rest, ts, h => by
    unfold inlineTreesX at h
    obtain ⟨t, h1, h⟩ := ebind_ok h
    obtain ⟨ts', h2, h⟩ := ebind_ok h
    rw [epure_ok h]
    simp only [allKindsL, Bool.and_eq_true]
    exact ⟨inlineTreeX_notTable c src n t h1, inlineTreesX_notTable c src rest ts' h2⟩
end

mutual
theorem docTreeX_notTable (c : XCfg) (hc : c.table = false) (g : Bool) (env : Env) (src : Bytes) (escs : List Int) :
    ∀ (inItem : Bool) (t : GM.Blocks.Tree) (x : GM.Node),
    docTreeX c g env src escs inItem t = .ok x → allKinds notTable x = true
  | inItem, .node n cs, x, h => by
    unfold docTreeX at h
    obtain ⟨bs, h1, h⟩ := ebind_ok h
    obtain ⟨kids, _, h⟩ := ebind_ok h
    obtain ⟨is, h3, h⟩ := ebind_ok h
    obtain ⟨k, h4, h⟩ := ebind_ok h
    rw [epure_ok h]
    simp only [allKinds, allKindsL_append, Bool.and_eq_true]
    exact ⟨blockKindX_notTable hc (liftErr_ok' h4), docTreesX_notTable c hc g env src escs _ _ cs bs h1,
      inlineTreesX_notTable c src _ is (liftErr_ok' h3)⟩
theorem docTreesX_notTable (c : XCfg) (hc : c.table = false) (g : Bool) (env : Env) (src : Bytes) (escs : List Int) :
    ∀ (pi first : Bool) (ts : List GM.Blocks.Tree) (xs : List GM.Node),
    docTreesX c g env src escs pi first ts = .ok xs → allKindsL notTable xs = true
  | _, _, [], xs, h => by
    unfold docTreesX at h
    rw [epure_ok h]; rfl
  | pi, first, t :: rest, xs, h => by
    unfold docTreesX at h
    obtain ⟨x, h1, h⟩ := ebind_ok h
    obtain ⟨xs', h2, h⟩ := ebind_ok h
    rw [epure_ok h]
    simp only [allKindsL, Bool.and_eq_true]
    exact ⟨docTreeX_notTable c hc g env src escs _ t x h1, docTreesX_notTable c hc g env src escs _ _ rest xs' h2⟩
end

/-- without an inline member the inline children of a block are the default model's: no representation among them -/
theorem inlinePhaseX_lvOK (c : XCfg) (hs : c.strikethrough = false) (ht : c.tasklist = false) (g : Bool) (env : Env)
    (src : Bytes) (inItem : Bool) (n : GM.Blocks.Node) (kids : List Inl.Node)
    (h : inlinePhaseX c g env src inItem n = .ok kids) : lvOKL kids = true := by
  unfold inlinePhaseX at h
  split at h
  · cases h; rfl
  · split at h
    · cases h; rfl
    · split at h
      · cases h; rfl
      · rw [inlineLines_noInline c hs ht] at h
        split at h
        · cases h; rfl
        · split at h
          · cases h
          · exact wfL_lvOKL false kids (GM.Proof.Inlines.parseBlock_wf (liftErr_ok' h))

theorem inlinePhaseX_task (c : XCfg) (hs : c.strikethrough = false) (env : Env) (src : Bytes)
    (hsrc : (91 : UInt8) ∉ src) (inItem : Bool) (n : GM.Blocks.Node) :
    inlinePhaseX { c with tasklist := true } true env src inItem n =
      inlinePhaseX { c with tasklist := false } true env src inItem n := by
  unfold inlinePhaseX
  rw [inlineLines_task_unused c hs env src hsrc]

mutual
theorem docTreeX_task (c : XCfg) (hs : c.strikethrough = false) (env : Env) (src : Bytes) (hsrc : (91 : UInt8) ∉ src)
    (escs : List Int) : ∀ (inItem : Bool) (t : GM.Blocks.Tree),
    docTreeX { c with tasklist := true } true env src escs inItem t =
      docTreeX { c with tasklist := false } true env src escs inItem t
  | inItem, .node n cs => by
    unfold docTreeX
    rw [docTreesX_task c hs env src hsrc escs _ _ cs, inlinePhaseX_task c hs env src hsrc]
    cases hd : docTreesX { c with tasklist := false } true env src escs (n.kind == .listItem) true cs with
    | error e => rfl
    | ok bs =>
      cases hk : inlinePhaseX { c with tasklist := false } true env src inItem n with
      | error e => rfl
      | ok kids =>
        have hl := inlinePhaseX_lvOK { c with tasklist := false } hs rfl true env src inItem n kids hk
        have hl' : lvOKL (if (c.table && GM.TableX.isCellNode src n) = true then GM.TableX.escNodes escs kids else kids) = true := by
          split
          · exact escNodes_lvOK escs kids hl
          · exact hl
        simp only [bind, Except.bind]
        rw [inlineTreesX_flags { c with tasklist := true } { c with tasklist := false } src _ hl']
        rfl
theorem docTreesX_task (c : XCfg) (hs : c.strikethrough = false) (env : Env) (src : Bytes) (hsrc : (91 : UInt8) ∉ src)
    (escs : List Int) : ∀ (pi first : Bool) (ts : List GM.Blocks.Tree),
    docTreesX { c with tasklist := true } true env src escs pi first ts =
      docTreesX { c with tasklist := false } true env src escs pi first ts
  | _, _, [] => by unfold docTreesX; rfl
  | pi, first, t :: rest => by
    unfold docTreesX
    rw [docTreeX_task c hs env src hsrc escs _ t, docTreesX_task c hs env src hsrc escs _ _ rest]
end

theorem parseDocX_task (c : XCfg) (hs : c.strikethrough = false) (uc : List (Nat × (Bool × Bool))) (src : Bytes)
    (hsrc : (91 : UInt8) ∉ src) :
    parseDocX { c with tasklist := true } true uc src = parseDocX { c with tasklist := false } true uc src := by
  unfold parseDocX
  have hb : blockPhaseX { c with tasklist := true } true src = blockPhaseX { c with tasklist := false } true src := rfl
  rw [hb]
  cases liftErr Err.blocks (blockPhaseX { c with tasklist := false } true src) with
  | error e => rfl
  | ok st =>
    simp only [bind, Except.bind]
    exact docTreeX_task c hs _ src hsrc _ _ _

/-- **TaskList is conservative at whole-document level** (Strikethrough off): a source without `[` converts to the same
    HTML / outcome with and without TaskList -/
theorem convertX_task (c : XCfg) (hs : c.strikethrough = false) (uc : List (Nat × (Bool × Bool))) (o : ROpts) (src : Bytes)
    (hsrc : (91 : UInt8) ∉ src) :
    convertX { c with tasklist := true } uc o src = convertX { c with tasklist := false } uc o src := by
  unfold convertX convertXWith
  rw [parseDocX_task c hs uc src hsrc]
  cases hp : parseDocX { c with tasklist := false } true uc src with
  | error e => rfl
  | ok t =>
    simp only [bind, Except.bind]
    apply renderDocX_exts
    -- the tree has no TaskCheckBox node: it was built with the member off
    unfold parseDocX at hp
    obtain ⟨st, _, hp⟩ := ebind_ok hp
    have hk := docTreeX_notTask { c with tasklist := false } rfl true _ src _ _ _ t hp
    exact allKinds_mono (fun k hk => by
      simp only [beq_iff_eq]
      exact handled_task c.exts true false hk) t hk

end GM.Proof.ConvertX
