/-
  GM.Proof.BlocksClosedTree — the tree links of the node store, for EVERY state: `TreeOK s` says that parent pointers point
  to older nodes, that every entry of a child list points back to its parent (`kid`), and that child lists have no
  duplicates. Kept by `newNode`, by every `modNode` that leaves `parent` / `children` alone, and by the tree surgery of
  ast.go as the block phase uses it (`RemoveChild`, `AppendChild`, `InsertBefore`, `ReplaceChild`), provided a node is
  attached below an OLDER node. With each step: which nodes may have lost or changed their parent (`ParFrame`).
-/
import GM.Proof.BlocksOrdRun

namespace GM.Blocks
open GM GM.Text GM.Spec GM.Proof.Reader

structure TreeOK (s : St) : Prop where
  par_lt : ∀ i p, (nd s i).parent = some p → p < i
  kid : ∀ x c, c ∈ (nd s x).children → (nd s c).parent = some x
  nodup : ∀ x, (nd s x).children.Nodup

theorem TreeOK.kid_lt {s : St} (h : TreeOK s) {x c : Nat} (hc : c ∈ (nd s x).children) : x < c ∧ c < s.nodes.length := by
  have hp := h.kid x c hc
  refine ⟨h.par_lt c x hp, ?_⟩
  rcases Nat.lt_or_ge c s.nodes.length with h' | h'
  · exact h'
  · rw [nd_default_of_ge s h'] at hp; cases hp

/-- `modNode` as a function of the store -/
theorem nd_mod (s : St) (id : Nat) (f : Node → Node) (i : Nat) :
    nd ({ s with nodes := s.nodes.set id (f (s.nodes.getD id default)) } : St) i =
      if id = i ∧ id < s.nodes.length then f (nd s id) else nd s i := by
  have : nd ({ s with nodes := s.nodes.set id (f (s.nodes.getD id default)) } : St) i = nd (upd s id f) i := rfl
  rw [this, nd_upd]

/-- a step that changes neither `parent` nor `children` of any node and does not shrink the store -/
theorem TreeOK.of_links {s s' : St} (h : TreeOK s)
    (hl : ∀ i, (nd s' i).parent = (nd s i).parent ∧ (nd s' i).children = (nd s i).children) : TreeOK s' :=
  ⟨fun i p hp => h.par_lt i p (by rw [← (hl i).1]; exact hp),
   fun x c hc => by rw [(hl c).1]; exact h.kid x c (by rw [← (hl x).2]; exact hc),
   fun x => by rw [(hl x).2]; exact h.nodup x⟩

theorem modNode_links {s s' : St} {id : Nat} {f : Node → Node} {a : Unit} (e : modNode id f s = .ok (a, s'))
    (hf : ∀ n, (f n).parent = n.parent ∧ (f n).children = n.children) :
    ∀ i, (nd s' i).parent = (nd s i).parent ∧ (nd s' i).children = (nd s i).children := by
  intro i
  rw [omodNode_ok e, nd_mod s id f i]
  split
  · next hc => rw [hc.1]; exact hf _
  · exact ⟨rfl, rfl⟩

theorem TreeOK.modNode {s s' : St} {id : Nat} {f : Node → Node} {a : Unit} (h : TreeOK s)
    (e : modNode id f s = .ok (a, s'))
    (hf : ∀ n, (f n).parent = n.parent ∧ (f n).children = n.children) : TreeOK s' := by
  rw [omodNode_ok e]
  refine h.of_links (fun i => ?_)
  rw [nd_mod]
  split
  · next hc => rw [hc.1]; exact hf _
  · exact ⟨rfl, rfl⟩

theorem TreeOK.lk {s s' : St} (h : TreeOK s)
    (hl : ∀ i, (nd s' i).parent = (nd s i).parent ∧ (nd s' i).children = (nd s i).children) : TreeOK s' := h.of_links hl

/-- a new node without links at the end of the store -/
theorem TreeOK.snoc {s s' : St} {n : Node} (h : TreeOK s) (hn : s'.nodes = s.nodes ++ [n]) (hp : n.parent = none)
    (hc : n.children = []) : TreeOK s' := by
  have hnd := fun i => nd_snoc hn i
  refine ⟨fun i p hpp => ?_, fun x c hcc => ?_, fun x => ?_⟩
  · rw [hnd] at hpp
    split at hpp
    · exact h.par_lt i p hpp
    · split at hpp
      · rw [hp] at hpp; cases hpp
      · cases hpp
  · have hx : (nd s' x).children = (nd s x).children ∨ (nd s' x).children = [] := by
      rw [hnd]; split
      · exact .inl rfl
      · split
        · exact .inr hc
        · right; rfl
    rcases hx with hx | hx
    · rw [hx] at hcc
      have := (h.kid_lt hcc).2
      rw [hnd, if_pos this]; exact h.kid x c hcc
    · rw [hx] at hcc; cases hcc
  · rw [hnd]; split
    · exact h.nodup x
    · split
      · rw [hc]; exact List.nodup_nil
      · exact List.nodup_nil

/-! ### which parent pointers a step may change -/

/-- the store does not shrink; a node that is not in `D` keeps its parent -/
def ParFrame (D : Nat → Prop) (s s' : St) : Prop :=
  s.nodes.length ≤ s'.nodes.length ∧ ∀ i, i < s.nodes.length → ¬ D i → (nd s' i).parent = (nd s i).parent

theorem ParFrame.refl (D : Nat → Prop) (s : St) : ParFrame D s s := ⟨Nat.le_refl _, fun _ _ _ => rfl⟩

theorem ParFrame.trans {D : Nat → Prop} {a b c : St} (h1 : ParFrame D a b) (h2 : ParFrame D b c) : ParFrame D a c :=
  ⟨Nat.le_trans h1.1 h2.1, fun i hi hd => (h2.2 i (Nat.lt_of_lt_of_le hi h1.1) hd).trans (h1.2 i hi hd)⟩

theorem ParFrame.mono {D D' : Nat → Prop} {a b : St} (h : ParFrame D a b) (hd : ∀ i, D i → D' i) : ParFrame D' a b :=
  ⟨h.1, fun i hi hn => h.2 i hi (fun hh => hn (hd i hh))⟩

/-! ### RemoveChild -/

/-- Node.RemoveChild (ast.go:221-242): `TreeOK` is kept; only `c` may lose its parent, and only when it was `p` -/
theorem removeChild_tree {p c : Nat} {s s' : St} {a : Unit} (h : TreeOK s) (e : removeChild p c s = .ok (a, s')) :
    ((nd s c).parent = some p ∧ TreeOK s' ∧ s'.nodes.length = s.nodes.length ∧
        (∀ i, i ≠ c → (nd s' i).parent = (nd s i).parent) ∧ (nd s' c).parent = none ∧
        (∀ x, (nd s' x).children = if x = p then (nd s p).children.erase c else (nd s x).children)) ∨
      ((nd s c).parent ≠ some p ∧ s' = s) := by
  unfold removeChild at e
  obtain ⟨cn, s1, h1, k1⟩ := obind_ok e
  obtain ⟨rfl, hs1⟩ := ogetNode_ok h1
  subst s1
  split at k1
  · next hpar =>
    obtain ⟨_, hs⟩ := opure_ok k1
    exact .inr ⟨by simpa [nd] using hpar, hs⟩
  · next hpar =>
    left
    have hcp : (nd s c).parent = some p := by simpa [nd] using hpar
    obtain ⟨_, s2, h2, k2⟩ := obind_ok k1
    have e2 := omodNode_ok h2
    have e3 := omodNode_ok k2
    have hpc : p < c := h.par_lt c p hcp
    have hcl : c < s.nodes.length := by
      rcases Nat.lt_or_ge c s.nodes.length with h' | h'
      · exact h'
      · rw [nd_default_of_ge s h'] at hcp; cases hcp
    have hpl : p < s.nodes.length := by omega
    have hl2 : s2.nodes.length = s.nodes.length := by rw [e2]; simp
    have hnd2 : ∀ i, nd s2 i = if p = i ∧ p < s.nodes.length then { (nd s p) with children := (nd s p).children.erase c } else nd s i := by
      intro i; rw [e2]; exact nd_mod s p (fun n => { n with children := n.children.erase c }) i
    have hnd3 : ∀ i, nd s' i = if c = i ∧ c < s2.nodes.length then { (nd s2 c) with parent := none } else nd s2 i := by
      intro i; rw [e3]; exact nd_mod s2 c (fun n => { n with parent := none }) i
    have hnd : ∀ i, nd s' i =
        if i = c then { (nd s c) with parent := none }
        else if i = p then { (nd s p) with children := (nd s p).children.erase c } else nd s i := by
      intro i
      rw [hnd3, hl2]
      by_cases hic : i = c
      · subst hic
        rw [if_pos ⟨rfl, hcl⟩, if_pos rfl, hnd2, if_neg (fun hh => by omega)]
      · rw [if_neg (fun hh => hic hh.1.symm), if_neg hic, hnd2]
        by_cases hip : i = p
        · subst hip; rw [if_pos ⟨rfl, hpl⟩, if_pos rfl]
        · rw [if_neg (fun hh => hip hh.1.symm), if_neg hip]
    have hparent : ∀ i, i ≠ c → (nd s' i).parent = (nd s i).parent := by
      intro i hic
      rw [hnd, if_neg hic]; split
      · next hip => rw [hip]
      · rfl
    have hchild : ∀ x, (nd s' x).children = if x = p then (nd s p).children.erase c else (nd s x).children := by
      intro x
      rw [hnd]
      by_cases hxc : x = c
      · subst hxc; rw [if_pos rfl, if_neg (by omega)]
      · rw [if_neg hxc]; split
        · rfl
        · rfl
    refine ⟨hcp, ⟨fun i q hq => ?_, fun x d hd => ?_, fun x => ?_⟩, by rw [e3, e2]; simp, hparent, ?_, hchild⟩
    · by_cases hic : i = c
      · subst hic; rw [hnd, if_pos rfl] at hq; cases hq
      · rw [hparent i hic] at hq; exact h.par_lt i q hq
    · rw [hchild] at hd
      have hdx : d ∈ (nd s x).children ∧ (x = p → d ≠ c) := by
        split at hd
        · next hxp =>
          subst hxp
          exact ⟨List.mem_of_mem_erase hd, fun _ hdc => by
            subst hdc; exact (List.Nodup.not_mem_erase (h.nodup x)) hd⟩
        · next hxp => exact ⟨hd, fun hh => absurd hh hxp⟩
      have hdc : d ≠ c := by
        intro hdc
        subst hdc
        have := h.kid x d hdx.1
        rw [hcp] at this
        cases this
        exact hdx.2 rfl rfl
      rw [hparent d hdc]; exact h.kid x d hdx.1
    · rw [hchild]; split
      · exact (h.nodup p).erase c
      · exact h.nodup x
    · rw [hnd, if_pos rfl]


/-- `RemoveChild`, in the form the other steps use: `TreeOK` kept, store length kept, only `c` may change its parent
    (to nil), and then `p` was its parent -/
theorem removeChild_tree' {p c : Nat} {s s' : St} {a : Unit} (h : TreeOK s) (e : removeChild p c s = .ok (a, s')) :
    TreeOK s' ∧ s'.nodes.length = s.nodes.length ∧ (∀ i, i ≠ c → (nd s' i).parent = (nd s i).parent) ∧
      ((nd s' c).parent = (nd s c).parent ∨ ((nd s' c).parent = none ∧ (nd s c).parent = some p)) := by
  rcases removeChild_tree h e with ⟨a0, a1, a2, a3, a5, _⟩ | ⟨_, hs⟩
  · exact ⟨a1, a2, a3, .inr ⟨a5, a0⟩⟩
  · subst hs; exact ⟨h, rfl, fun _ _ => rfl, .inl rfl⟩

/-- ast.ensureIsolated: afterwards `c` has no parent (and hence is in no child list) -/
theorem ensureIsolated_tree {c : Nat} {s s' : St} {a : Unit} (h : TreeOK s) (e : ensureIsolated c s = .ok (a, s')) :
    TreeOK s' ∧ s'.nodes.length = s.nodes.length ∧ (∀ i, i ≠ c → (nd s' i).parent = (nd s i).parent) ∧
      (nd s' c).parent = none := by
  unfold ensureIsolated at e
  obtain ⟨cn, s1, h1, k1⟩ := obind_ok e
  obtain ⟨rfl, hs1⟩ := ogetNode_ok h1
  subst s1
  cases hp : (s.nodes.getD c default).parent with
  | none =>
    rw [hp] at k1
    obtain ⟨_, hs⟩ := opure_ok k1
    subst s'
    exact ⟨h, rfl, fun _ _ => rfl, hp⟩
  | some q =>
    rw [hp] at k1
    rcases removeChild_tree h k1 with ⟨_, a1, a2, a3, a5, _⟩ | ⟨hne, _⟩
    · exact ⟨a1, a2, a3, a5⟩
    · exact absurd hp hne

/-- attaching the parentless node `c` below the older node `p`, whose child list becomes `l'` (= the old one plus `c`):
    any state `s3` that looks like that keeps `TreeOK` -/
theorem attach_tree {p c : Nat} {s s3 : St} (h : TreeOK s) (hc : (nd s c).parent = none) (hpc : p < c)
    (l' : List Nat) (hmem : ∀ d, d ∈ l' ↔ d = c ∨ d ∈ (nd s p).children) (hnd : l'.Nodup)
    (hndx : ∀ i, nd s3 i = if i = c then { (nd s c) with parent := some p }
      else if i = p then { (nd s p) with children := l' } else nd s i) : TreeOK s3 := by
  have hne : p ≠ c := by omega
  have hnotin : ∀ x, c ∉ (nd s x).children := fun x hx => by
    have := h.kid x c hx; rw [hc] at this; cases this
  have hch : ∀ x, (nd s3 x).children = if x = p then l' else (nd s x).children := by
    intro x
    rw [hndx]
    by_cases hxc : x = c
    · subst hxc; rw [if_pos rfl, if_neg (Ne.symm hne)]
    · rw [if_neg hxc]; split <;> rfl
  refine ⟨fun i q hq => ?_, fun x d hd => ?_, fun x => ?_⟩
  · rw [hndx] at hq
    split at hq
    · next hic => cases hq; rw [hic]; exact hpc
    · split at hq
      · next hip => rw [hip]; exact h.par_lt p q hq
      · exact h.par_lt i q hq
  · rw [hch] at hd
    by_cases hdc : d = c
    · subst hdc
      rw [hndx, if_pos rfl]
      split at hd
      · next hxp => rw [hxp]
      · exact absurd hd (hnotin x)
    · have hdo : d ∈ (nd s x).children := by
        split at hd
        · next hxp =>
          rcases (hmem d).1 hd with h' | h'
          · exact absurd h' hdc
          · rw [hxp]; exact h'
        · exact hd
      rw [hndx, if_neg hdc]
      have := h.kid x d hdo
      split
      · next hdp => rw [hdp] at this; exact this
      · exact this
  · rw [hch]; split
    · exact hnd
    · exact h.nodup x


/-! ### AppendChild, InsertBefore, ReplaceChild -/

/-- the two writes that attach `c` below `p` with the new child list `f children` -/
theorem attach_steps {p c : Nat} {s1 s' : St} {a : Unit} (f : List Nat → List Nat) (h : TreeOK s1)
    (hc : (nd s1 c).parent = none) (hpc : p < c) (hcl : c < s1.nodes.length)
    (hmem : ∀ d, d ∈ f (nd s1 p).children ↔ d = c ∨ d ∈ (nd s1 p).children) (hnd : (f (nd s1 p).children).Nodup)
    (e : (do modNode p (fun n => { n with children := f n.children })
             modNode c (fun n => { n with parent := some p }) : M Unit) s1 = .ok (a, s')) :
    TreeOK s' ∧ s'.nodes.length = s1.nodes.length ∧ (∀ i, i ≠ c → (nd s' i).parent = (nd s1 i).parent) ∧
      (nd s' c).parent = some p := by
  obtain ⟨_, s2, h2, k2⟩ := obind_ok e
  have e2 := omodNode_ok h2
  have e3 := omodNode_ok k2
  have hpl : p < s1.nodes.length := by omega
  have hne : p ≠ c := by omega
  have hl2 : s2.nodes.length = s1.nodes.length := by rw [e2]; simp
  have hnd2 : ∀ i, nd s2 i = if p = i ∧ p < s1.nodes.length then { (nd s1 p) with children := f (nd s1 p).children }
      else nd s1 i := by
    intro i; rw [e2]; exact nd_mod s1 p (fun n => { n with children := f n.children }) i
  have hnd3 : ∀ i, nd s' i = if c = i ∧ c < s2.nodes.length then { (nd s2 c) with parent := some p } else nd s2 i := by
    intro i; rw [e3]; exact nd_mod s2 c (fun n => { n with parent := some p }) i
  have hndx : ∀ i, nd s' i = if i = c then { (nd s1 c) with parent := some p }
      else if i = p then { (nd s1 p) with children := f (nd s1 p).children } else nd s1 i := by
    intro i
    rw [hnd3, hl2]
    by_cases hic : i = c
    · subst hic
      rw [if_pos ⟨rfl, hcl⟩, if_pos rfl, hnd2, if_neg (fun hh => hne hh.1)]
    · rw [if_neg (fun hh => hic hh.1.symm), if_neg hic, hnd2]
      by_cases hip : i = p
      · subst hip; rw [if_pos ⟨rfl, hpl⟩, if_pos rfl]
      · rw [if_neg (fun hh => hip hh.1.symm), if_neg hip]
  refine ⟨attach_tree h hc hpc _ hmem hnd hndx, by rw [e3, e2]; simp, fun i hic => ?_, by rw [hndx, if_pos rfl]⟩
  rw [hndx, if_neg hic]; split
  · next hip => rw [hip]
  · rfl

/-- Node.AppendChild (ast.go:314-328) of `c` below an older node `p` -/
theorem appendChild_tree {p c : Nat} {s s' : St} {a : Unit} (h : TreeOK s) (hpc : p < c) (hcl : c < s.nodes.length)
    (e : appendChild p c s = .ok (a, s')) :
    TreeOK s' ∧ s'.nodes.length = s.nodes.length ∧ (∀ i, i ≠ c → (nd s' i).parent = (nd s i).parent) ∧
      (nd s' c).parent = some p := by
  unfold appendChild at e
  obtain ⟨_, s1, h1, k1⟩ := obind_ok e
  obtain ⟨t1, l1, f1, c1⟩ := ensureIsolated_tree h h1
  have hnotin : c ∉ (nd s1 p).children := fun hx => by
    have := t1.kid p c hx; rw [c1] at this; cases this
  obtain ⟨a1, a2, a3, a4⟩ := attach_steps (fun l => l ++ [c]) t1 c1 hpc (by rw [l1]; exact hcl)
    (fun d => by simp [or_comm]) (by
      rw [List.nodup_append]
      exact ⟨t1.nodup p, List.pairwise_singleton _ c, fun x hx y hy => by
        simp only [List.mem_singleton] at hy; subst hy; intro he; subst he; exact hnotin hx⟩) k1
  exact ⟨a1, a2.trans l1, fun i hi => (a3 i hi).trans (f1 i hi), a4⟩

theorem mem_insertBeforeIn (v ins : Nat) : ∀ (l : List Nat) (d : Nat), d ∈ insertBeforeIn v ins l ↔ d = ins ∨ d ∈ l
  | [], d => by simp [insertBeforeIn]
  | a :: rest, d => by
    unfold insertBeforeIn
    split
    · simp
    · simp only [List.mem_cons, mem_insertBeforeIn v ins rest d]
      constructor
      · rintro (h | h | h)
        · exact .inr (.inl h)
        · exact .inl h
        · exact .inr (.inr h)
      · rintro (h | h | h)
        · exact .inr (.inl h)
        · exact .inl h
        · exact .inr (.inr h)

theorem nodup_insertBeforeIn (v ins : Nat) : ∀ (l : List Nat), ins ∉ l → l.Nodup → (insertBeforeIn v ins l).Nodup
  | [], _, _ => by simp [insertBeforeIn]
  | a :: rest, hn, hd => by
    unfold insertBeforeIn
    split
    · exact List.nodup_cons.2 ⟨hn, hd⟩
    · have hd' := List.nodup_cons.1 hd
      refine List.nodup_cons.2 ⟨fun hm => ?_, nodup_insertBeforeIn v ins rest (fun h => hn (List.mem_cons_of_mem _ h)) hd'.2⟩
      rcases (mem_insertBeforeIn v ins rest a).1 hm with h | h
      · exact hn (by rw [h]; exact List.mem_cons_self ..)
      · exact hd'.1 h

/-- Node.InsertBefore (ast.go:348-367) of `ins` below an older node `p` -/
theorem insertBefore_tree {p : Nat} {v1 : Option Nat} {ins : Nat} {s s' : St} {a : Unit} (h : TreeOK s) (hpc : p < ins)
    (hcl : ins < s.nodes.length) (e : insertBefore p v1 ins s = .ok (a, s')) :
    TreeOK s' ∧ s'.nodes.length = s.nodes.length ∧ (∀ i, i ≠ ins → (nd s' i).parent = (nd s i).parent) ∧
      (nd s' ins).parent = some p := by
  unfold insertBefore at e
  cases v1 with
  | none => exact appendChild_tree h hpc hcl e
  | some v =>
    dsimp only at e
    obtain ⟨vn, s0, h0, k0⟩ := obind_ok e
    obtain ⟨rfl, hs0⟩ := ogetNode_ok h0
    subst s0
    split at k0
    · exact appendChild_tree h hpc hcl k0
    · obtain ⟨_, s1, h1, k1⟩ := obind_ok k0
      obtain ⟨t1, l1, f1, c1⟩ := ensureIsolated_tree h h1
      have hnotin : ins ∉ (nd s1 p).children := fun hx => by
        have := t1.kid p ins hx; rw [c1] at this; cases this
      obtain ⟨a1, a2, a3, a4⟩ := attach_steps (insertBeforeIn v ins) t1 c1 hpc (by rw [l1]; exact hcl)
        (fun d => mem_insertBeforeIn v ins _ d) (nodup_insertBeforeIn v ins _ hnotin (t1.nodup p)) k1
      exact ⟨a1, a2.trans l1, fun i hi => (a3 i hi).trans (f1 i hi), a4⟩

/-- Node.ReplaceChild (ast.go:330-333): `ins` is attached below `p`; `v1` loses its parent only if it was `p` -/
theorem replaceChild_tree {p v1 ins : Nat} {s s' : St} {a : Unit} (h : TreeOK s) (hpc : p < ins)
    (hcl : ins < s.nodes.length) (hne : v1 ≠ ins) (e : replaceChild p v1 ins s = .ok (a, s')) :
    TreeOK s' ∧ s'.nodes.length = s.nodes.length ∧
      (∀ i, i ≠ ins → i ≠ v1 → (nd s' i).parent = (nd s i).parent) ∧ (nd s' ins).parent = some p ∧
      ((nd s' v1).parent = (nd s v1).parent ∨ ((nd s' v1).parent = none ∧ (nd s v1).parent = some p)) := by
  unfold replaceChild at e
  obtain ⟨_, s1, h1, k1⟩ := obind_ok e
  obtain ⟨a1, a2, a3, a4⟩ := insertBefore_tree h hpc hcl h1
  obtain ⟨b1, b2, b3, b4⟩ := removeChild_tree' a1 k1
  refine ⟨b1, b2.trans a2, fun i hi hv => (b3 i hv).trans (a3 i hi), by rw [b3 ins (Ne.symm hne)]; exact a4, ?_⟩
  rcases b4 with b4 | ⟨b4, b5⟩
  · exact .inl (b4.trans (a3 v1 hne))
  · exact .inr ⟨b4, by rw [← a3 v1 hne]; exact b5⟩

end GM.Blocks
