/-
  GM.Proof.ConvertHWFMain — the two well-formedness hypotheses of GM.Props.C15E2E hold for EVERY byte string:
  `headingsClosedOK_all` (every Heading of the final tree was handed to Close) and `headingsOnceOK_all` (no Heading twice in
  the tree), from the close discipline (`runH_J`, `runH_opened_empty`) and the tree lemma (`headingsOnce_of_wf`).
-/
import GM.Proof.ConvertHWFEnd
import GM.Proof.ConvertHWFTree
import GM.Proof.ConvertHE2E

namespace GM.ConvertH
open GM GM.Text GM.Blocks GM.Convert

theorem headingsClosedOK_all (guard : Bool) (src : Bytes) : headingsClosedOK guard src = true := by
  unfold headingsClosedOK blockPhaseH
  cases h : runH true (paragraphTransformers guard) src with
  | error e => rfl
  | ok r =>
    obtain ⟨hs, st⟩ := r
    exact headingsClosed_of_J hs st (runH_J _ (paragraphTransformers_stp guard) src hs st h)
      (runH_opened_empty _ (paragraphTransformers_stp guard) src hs st h)

theorem headingsOnceOK_all (guard : Bool) (src : Bytes) : headingsOnceOK guard src = true := by
  unfold headingsOnceOK blockPhaseH
  cases h : runH true (paragraphTransformers guard) src with
  | error e => rfl
  | ok r =>
    obtain ⟨hs, st⟩ := r
    exact headingsOnce_of_wf st (runH_J _ (paragraphTransformers_stp guard) src hs st h).wf

/-- the block phase of `convertCore` itself ends with an empty open-block stack and a well-formed tree (by projection:
    the option does not change the block phase) — whenever the block phase WITH the option returns -/
theorem blockPhase_closed_of_H (guard : Bool) (src : Bytes) (hs : HS) (st : St)
    (h : blockPhaseH true guard src = .ok (hs, st)) :
    blockPhase guard src = .ok st ∧ st.pc.opened = [] ∧ TreeWF st := by
  unfold blockPhaseH at h
  have hr := runH_on (paragraphTransformers guard) src
  rw [h] at hr
  exact ⟨hr.2, runH_opened_empty _ (paragraphTransformers_stp guard) src hs st h,
    (runH_J _ (paragraphTransformers_stp guard) src hs st h).wf⟩

mutual
theorem rHeadings_sublist : ∀ t : GM.Node, List.Sublist ((rHeadings t).map (·.2)) (headingAttrs t)
  | .mk k a cs => by
    unfold rHeadings headingAttrs
    rw [List.map_append]
    apply List.Sublist.append
    · unfold headingOf
      split <;> simp [isHeadingKind]
    · split
      · simp
      · exact rHeadingsL_sublist cs
theorem rHeadingsL_sublist : ∀ ts : List GM.Node, List.Sublist ((rHeadingsL ts).map (·.2)) (headingAttrsL ts)
  | [] => by unfold rHeadingsL headingAttrsL; simp
  | t :: rest => by
    unfold rHeadingsL headingAttrsL
    rw [List.map_append]
    exact List.Sublist.append (rHeadings_sublist t) (rHeadingsL_sublist rest)
end

theorem idAttr_inj {a b : Bytes} (h : idAttr a = idAttr b) : a = b := by
  simpa [idAttr] using h

theorem nodup_map_idAttr (ids : List Bytes) (h : ids.Nodup) : (ids.map idAttr).Nodup := by
  unfold List.Nodup at h ⊢
  rw [List.pairwise_map]
  exact h.imp (fun hne e => hne (idAttr_inj e))

end GM.ConvertH
