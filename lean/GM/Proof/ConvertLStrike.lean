/-
  GM.Proof.ConvertLStrike — the conservativity results of GM.Proof.ConvertXStrike / ConvertXLevels carried to the member sets
  WITH Linkify (GM.Model.ConvertL): the Linkify parser keeps `NT`, commutes with every relabelling of emphasis levels, and
  keeps the loop's contract, so the same arguments go through over `inlineTblL`.
-/
import GM.Proof.ConvertXStrikeDoc
import GM.Proof.ConvertXTaskDoc
import GM.Proof.ConvertLTotal

namespace GM.Proof.ConvertLStrike
open GM GM.Text GM.Spec GM.Inl GM.Convert GM.ConvertX GM.Proof.ConvertX GM.Proof.ConvertXRelv GM.Proof.ConvertXSim
open GM.Proof.ConvertXStrike GM.Proof.ConvertXLevels GM.Proof.ConvertXTotal GM.Proof.ConvertLTotal
open GM.Proof.ConvertXStrikeDoc (noS noSL escNodes_noS fixL_noSL notStrike)
open GM.Proof.Inlines GM.Proof.InlinesTotal GM.Proof.InlinesLink GM.Proof.InlinesReader GM.Proof.Reader GM.Proof.InlinesDelims

/-! ### the Linkify parser: `NT`, relabelling -/

theorem linkifyFinish_NT {st : St} {seg : Segment} {strip : Bool} {ln : Bytes} {proto email : Bool} {m1 : Nat}
    {n : Option Inl.Node} {st' : St}
    (h : linkifyFinish st seg strip ln proto email m1 = .ok (n, st')) (hk : allQ NT st.kids) : POKN (n, st') := by
  unfold linkifyFinish at h
  simp only [bind, Except.bind, pure, Except.pure] at h
  split at h
  · cases h
  · simp at h; obtain ⟨rfl, rfl⟩ := h
    refine ⟨?_, fun nd hn => by simp at hn; subst hn; exact NT_of_not_delim rfl⟩
    simp only
    split
    · exact mergeOrAppend_allQ NT_inv hk
    · exact hk

theorem linkify_NT (env : Env) (st : St) (n : Option Inl.Node) (st' : St) (hk : allQ NT st.kids)
    (h : parseLinkify env st = .ok (n, st')) : POKN (n, st') := by
  unfold parseLinkify at h
  split at h
  · simp at h; obtain ⟨rfl, rfl⟩ := h; exact ⟨hk, fun _ hn => by cases hn⟩
  · simp only [bind, Except.bind, pure, Except.pure, throw, throwThe, MonadExceptOf.throw] at h
    split at h
    · cases h
    · split at h
      · cases h
      · split at h
        · split at h
          · cases h
          · exact linkifyFinish_NT h hk
        · split at h
          · cases h
          · split at h
            · simp at h; obtain ⟨rfl, rfl⟩ := h; exact ⟨hk, fun _ hn => by cases hn⟩
            · exact linkifyFinish_NT h hk

theorem relvL_any_isLabel (g : Int → Int) (l : List Inl.Node) : (relvL g l).any Node.isLabel = l.any Node.isLabel := by
  induction l with
  | nil => rfl
  | cons n r ih => simp [ih]

theorem linkifyFinish_relv (g : Int → Int) (st : St) (seg : Segment) (strip : Bool) (ln : Bytes) (proto email : Bool)
    (m1 : Nat) :
    linkifyFinish (relvSt g st) seg strip ln proto email m1 =
      (linkifyFinish st seg strip ln proto email m1).map (relvPR g) := by
  unfold linkifyFinish
  simp only [relvSt_rd, relvSt_kids, bind, Except.bind]
  cases st.rd.advance _ with
  | error e => rfl
  | ok rd =>
    simp only [pure, Except.pure, Except.map, relvPR, Option.map_some, relv_autoLink]
    cases strip <;> simp [relvSt, relvL_mergeOrAppend]

theorem linkify_selfsim (g : Int → Int) (env : Env) : EntrySim g Tr env (.ext linkifyParser) (.ext linkifyParser) := by
  apply entry_selfsim_of
  intro st
  simp only [XIp.parse, linkifyParser, parseLinkify, relvSt_kids, relvL_any_isLabel, relvSt_rd]
  split
  · rfl
  · simp only [bind, Except.bind]
    cases st.rd.peekLine with
    | error e => rfl
    | ok v =>
      simp only []
      simp only [relvSt_nextId, relvSt_bottoms, relvSt_mk]
      cases v.1.1.getD [] with
      | nil => rfl
      | cons c rest =>
        simp only []
        split
        · cases lkURLEnd _ _ with
          | error e => rfl
          | ok m1 => exact linkifyFinish_relv g _ _ _ _ _ _ _
        · cases lkEmailEnd _ with
          | error e => rfl
          | ok r =>
            cases r with
            | none => rfl
            | some m1 => exact linkifyFinish_relv g _ _ _ _ _ _ _

/-! ### tables with the Linkify entry -/

theorem ListSim.append {g : Int → Int} {I : List Inl.Node → Prop} {env : Env} {a b a' b' : List XIp}
    (h1 : ListSim g I env a b) (h2 : ListSim g I env a' b') : ListSim g I env (a ++ a') (b ++ b') := by
  induction h1 with
  | nil => exact h2
  | cons h hr ih => exact .cons h ih

/-- the entry Linkify adds behind the others -/
def lkSuffix (lk : Bool) (b : UInt8) : List XIp := if lk && GM.Ext.linkifyStrip b then [.ext linkifyParser] else []

theorem inlineTblL_eq (c : GCfg) (inItem : Bool) (b : UInt8) :
    inlineTblL c inItem b = inlineTbl c.base inItem b ++ lkSuffix c.linkify b := rfl

theorem lkSuffix_simNT (lk : Bool) (env : Env) (b : UInt8) : ListSim id (allQ NT) env (lkSuffix lk b) (lkSuffix lk b) := by
  unfold lkSuffix
  split
  · exact .cons (entrySim_of env _ _ (fun _ _ => rfl) (fun st n st' hk h => linkify_NT env st n st' hk h)) .nil
  · exact .nil

theorem lkSuffix_selfsim (g : Int → Int) (lk : Bool) (env : Env) (b : UInt8) : ListSim g Tr env (lkSuffix lk b) (lkSuffix lk b) := by
  unfold lkSuffix
  split
  · exact .cons (linkify_selfsim g env) .nil
  · exact .nil

/-- every member set with Linkify: the table simulates itself under a relabelling that fixes what its members build -/
theorem tblL_selfsim {g : Int → Int} (c : GCfg) (GS : GOKS c.base.strikethrough g) (G0 : GOK false g)
    (ht : c.base.tasklist = true → g (-1) = -1 ∧ g (-2) = -2) (inItem : Bool) (env : Env) (b : UInt8) :
    ListSim g Tr env (inlineTblL c inItem b) (inlineTblL c inItem b) := by
  rw [inlineTblL_eq]
  exact ListSim.append (tbl_selfsim c.base GS G0 ht inItem env b) (lkSuffix_selfsim g c.linkify env b)

/-- the inline children of a block under any of the 16 member sets are a fixed point of every relabelling that fixes 1, 2 and
    the levels the members of the set build -/
theorem parseBlockL_fixS {g : Int → Int} (c : GCfg) (GS : GOKS c.base.strikethrough g) (G0 : GOK false g)
    (ht : c.base.tasklist = true → g (-1) = -1 ∧ g (-2) = -2)
    (inItem : Bool) (env : Env) (src : Bytes) (segs : List Segment) (kids : List Inl.Node)
    (h : parseBlockG env (inlineTblL c inItem) (pdX c.base) src segs = .ok kids) : relvL g kids = kids := by
  unfold parseBlockG at h
  simp only [bind, Except.bind] at h
  cases hr : BlockReader.new src segs with
  | error e => rw [hr] at h; cases h
  | ok rd =>
    rw [hr] at h
    simp only [] at h
    obtain ⟨s1, _⟩ := lineLoopX_sim (g := g) tr_closed (tblL_selfsim c GS G0 ht inItem env)
      (blockFuel src segs) false ({ rd := rd } : St) trivial
    have e0 : relvSt g ({ rd := rd } : St) = { rd := rd } := rfl
    rw [e0] at s1
    cases hl : lineLoopX env (inlineTblL c inItem) (blockFuel src segs) false { rd := rd } with
    | error e => rw [hl] at h; cases h
    | ok st' =>
      rw [hl] at h s1
      simp only [Except.map, Except.ok.injEq] at s1
      simp only [] at h
      have hpd := pdX_selfsim c.base GS G0 Bottom.nil st'.kids
      have hk : relvL g st'.kids = st'.kids := by
        have := congrArg St.kids s1
        simpa using this.symm
      rw [hk] at hpd
      cases hq : pdX c.base Bottom.nil st'.kids with
      | error e => rw [hq] at h; cases h
      | ok k =>
        rw [hq] at h hpd
        simp only [pure, Except.pure, Except.ok.injEq] at h
        simp only [Except.map, Except.ok.injEq] at hpd
        rw [← h, ← closeLabelsL_relv, ← hpd]

/-! ### Strikethrough under Linkify: the inline phase -/

def onS (c : GCfg) : GCfg := { c with base := { c.base with strikethrough := true } }
def offS (c : GCfg) : GCfg := { c with base := { c.base with strikethrough := false } }

/-- the table with Strikethrough, the entry of `~` replaced by the one without it -/
def tblNoTildeL (c : GCfg) (inItem : Bool) (b : UInt8) : List XIp :=
  if b == 126 then inlineTblL (offS c) inItem 126 else inlineTblL (onS c) inItem b

theorem tblL_sim (c : GCfg) (inItem : Bool) (env : Env) (b : UInt8) :
    ListSim id (allQ NT) env (tblNoTildeL c inItem b) (inlineTblL (offS c) inItem b) := by
  unfold tblNoTildeL
  by_cases h126 : (b == 126) = true
  · have hb : b = 126 := by simpa using h126
    subst hb
    simp only [beq_self_eq_true, if_true]
    rw [inlineTblL_eq]
    have he : inlineTbl (offS c).base inItem 126 = [] := by simp [inlineTbl, offS]
    rw [he]
    exact ListSim.append .nil (lkSuffix_simNT _ env _)
  · simp only [h126, Bool.false_eq_true, if_false]
    rw [inlineTblL_eq, inlineTblL_eq]
    have ht := tbl_sim c.base inItem env b
    simp only [tblNoTilde, h126, Bool.false_eq_true, if_false] at ht
    exact ListSim.append ht (lkSuffix_simNT _ env _)

theorem parseBlockL_strike_unused (c : GCfg) (inItem : Bool) {src : Bytes} {segs : List Segment}
    (W : WFSegs src segs) (Z : ∀ s ∈ segs, s.padding = 0) (env : Env) (hsrc : (126 : UInt8) ∉ src) :
    parseBlockG env (inlineTblL (onS c) inItem) (pdX (onS c).base) src segs =
      parseBlockG env (inlineTblL (offS c) inItem) (pdX (offS c).base) src segs := by
  have F := segFacts W
  obtain ⟨r0, e0, a0⟩ := blockReader_init F
  have hz0 : (BCur.init segs).pad = 0 := segOf_pad F Z 0 (Int.le_refl _) F.kpos
  have hI : LInv (Ctx.normed (linkCtx (BCur.segOf segs 0).start)) src segs { rd := r0 } (BCur.init segs) :=
    ⟨⟨a0, hz0⟩, by simp only [segsOfL, chain, BCur.init]; exact (F.rng 0 (Int.le_refl _) F.kpos).1, LK_base _⟩
  have h1 := lineLoopX_eq2 _ F Z env (inlineTblL (onS c) inItem) (tblNoTildeL c inItem)
    (inlineTblL_32 _ inItem W Z env) (inlineTblL_contracts _ inItem W Z env)
    (by simp [tblNoTildeL])
    (fun b hb => by
      have : b ≠ 126 := fun h => hsrc (h ▸ hb)
      simp [tblNoTildeL, this])
    (blockFuel src segs) false _ _ hI (blockFuel_gt W Z a0.wf hz0)
  obtain ⟨h2, h3⟩ := lineLoopX_sim (g := id) nt_closed (tblL_sim c inItem env) (blockFuel src segs) false
    ({ rd := r0 } : St) allQ_nil
  rw [relvSt_id] at h2
  unfold parseBlockG
  simp only [e0, bind, Except.bind, ← h1, h2]
  cases hl : lineLoopX env (tblNoTildeL c inItem) (blockFuel src segs) false { rd := r0 } with
  | error e => rfl
  | ok st' =>
    have hnt := h3 st' hl
    simp only [Except.map, relvSt_id]
    have hp : pdX (onS c).base Bottom.nil st'.kids = pdX (offS c).base Bottom.nil st'.kids := by
      have e1 : pdX (onS c).base = processDelimitersG true := by simp [pdX, onS]
      have e2 : pdX (offS c).base = processDelimiters := by simp [pdX, offS]
      rw [e1, e2]
      exact processDelimitersG_NT _ _ hnt
    rw [hp]

/-! ### Strikethrough under Linkify: whole documents -/

mutual
/-- on a tree without the representations the decoding does not depend on the inline member flags -/
theorem inlineTreeL_sflag (c1 c2 : GCfg) (ht : c1.base.tasklist = c2.base.tasklist) (hl : c1.linkify = c2.linkify) (src : Bytes) : ∀ n : Inl.Node, noS n = true →
    inlineTreeL c1 src n = inlineTreeL c2 src n
  | .text .., _ => by simp [inlineTreeL]
  | .codeSpan ks, h => by
    simp only [noS] at h
    simp only [inlineTreeL, inlineTreesL_sflag c1 c2 ht hl src ks h]
  | .emphasis lv ks, h => by
    simp only [noS, Bool.and_eq_true, Bool.not_eq_true'] at h
    simp only [inlineTreeL, inlineTreesL_sflag c1 c2 ht hl src ks h.2, h.1, Bool.and_false, Bool.false_eq_true, if_false, ht]
  | .link _ _ _ ks, h => by
    simp only [noS] at h
    simp only [inlineTreeL, inlineTreesL_sflag c1 c2 ht hl src ks h]
  | .autoLink .., _ => by simp [inlineTreeL, hl]
  | .rawHTML .., _ => by simp [inlineTreeL]
  | .delim .., _ => by simp [inlineTreeL]
  | .label .., _ => by simp [inlineTreeL]
theorem inlineTreesL_sflag (c1 c2 : GCfg) (ht : c1.base.tasklist = c2.base.tasklist) (hl : c1.linkify = c2.linkify) (src : Bytes) : ∀ ns : List Inl.Node, noSL ns = true →
    inlineTreesL c1 src ns = inlineTreesL c2 src ns
  | [], _ => by simp [inlineTreesL]
  | n :: rest, h => by
    simp only [noSL, Bool.and_eq_true] at h
    simp only [inlineTreesL, inlineTreeL_sflag c1 c2 ht hl src n h.1, inlineTreesL_sflag c1 c2 ht hl src rest h.2]
end


mutual
theorem inlineTreeL_notStrike (c : GCfg) (ht : c.base.strikethrough = false) (src : Bytes) : ∀ (n : Inl.Node) (t : GM.Node),
    inlineTreeL c src n = .ok t → allKinds notStrike t = true
  | .text .., t, h => by
    unfold inlineTreeL at h
    obtain ⟨v, _, h⟩ := ebind_ok h
    rw [epure_ok h]; rfl
  | .codeSpan ks, t, h => by
    unfold inlineTreeL at h
    obtain ⟨cs, hcs, h⟩ := ebind_ok h
    rw [epure_ok h]
    simp only [allKinds, notStrike, Bool.true_and]
    exact inlineTreesL_notStrike c ht src ks cs hcs
  | .emphasis lv ks, t, h => by
    unfold inlineTreeL at h
    obtain ⟨cs, hcs, h⟩ := ebind_ok h
    have hk := inlineTreesL_notStrike c ht src ks cs hcs
    simp only [ht, Bool.false_and, Bool.false_eq_true, if_false] at h
    split at h
    · rw [epure_ok h]; simp only [allKinds, notStrike, Bool.true_and]; exact hk
    · split at h <;> (rw [epure_ok h]; simp only [allKinds, notStrike, Bool.true_and]; exact hk)
  | .link im d tt ks, t, h => by
    unfold inlineTreeL at h
    obtain ⟨cs, hcs, h⟩ := ebind_ok h
    have hk := inlineTreesL_notStrike c ht src ks cs hcs
    rw [epure_ok h]
    simp only [allKinds, Bool.and_eq_true]
    refine ⟨?_, hk⟩
    split <;> rfl
  | .autoLink .., t, h => by
    unfold inlineTreeL at h
    split at h
    · obtain ⟨v, _, h⟩ := ebind_ok h
      rw [epure_ok h]; rfl
    · obtain ⟨v, _, h⟩ := ebind_ok h
      rw [epure_ok h]; rfl
  | .rawHTML .., t, h => by
    unfold inlineTreeL at h
    obtain ⟨v, _, h⟩ := ebind_ok h
    rw [epure_ok h]; rfl
  | .delim .., t, h => by
    unfold inlineTreeL at h
    rw [epure_ok h]; rfl
  | .label .., t, h => by
    unfold inlineTreeL at h
    rw [epure_ok h]; rfl
theorem inlineTreesL_notStrike (c : GCfg) (ht : c.base.strikethrough = false) (src : Bytes) : ∀ (ns : List Inl.Node) (ts : List GM.Node),
    inlineTreesL c src ns = .ok ts → allKindsL notStrike ts = true
  | [], ts, h => by
    unfold inlineTreesL at h
    rw [epure_ok h]; rfl
  | n :: rest, ts, h => by
    unfold inlineTreesL at h
    obtain ⟨t, h1, h⟩ := ebind_ok h
    obtain ⟨ts', h2, h⟩ := ebind_ok h
    rw [epure_ok h]
    simp only [allKindsL, Bool.and_eq_true]
    exact ⟨inlineTreeL_notStrike c ht src n t h1, inlineTreesL_notStrike c ht src rest ts' h2⟩
end

mutual
theorem docTreeL_notStrike (c : GCfg) (ht : c.base.strikethrough = false) (g : Bool) (env : Env) (src : Bytes) (escs : List Int) :
    ∀ (inItem : Bool) (t : GM.Blocks.Tree) (x : GM.Node),
    docTreeL c g env src escs inItem t = .ok x → allKinds notStrike x = true
  | inItem, .node n cs, x, h => by
    unfold docTreeL at h
    obtain ⟨bs, h1, h⟩ := ebind_ok h
    obtain ⟨kids, _, h⟩ := ebind_ok h
    obtain ⟨is, h3, h⟩ := ebind_ok h
    obtain ⟨k, h4, h⟩ := ebind_ok h
    rw [epure_ok h]
    simp only [allKinds, allKindsL_append, Bool.and_eq_true]
    exact ⟨GM.Proof.ConvertXStrikeDoc.blockKindX_notStrike (liftErr_ok' h4), docTreesL_notStrike c ht g env src escs _ _ cs bs h1,
      inlineTreesL_notStrike c ht src _ is (liftErr_ok' h3)⟩
theorem docTreesL_notStrike (c : GCfg) (ht : c.base.strikethrough = false) (g : Bool) (env : Env) (src : Bytes) (escs : List Int) :
    ∀ (pi first : Bool) (ts : List GM.Blocks.Tree) (xs : List GM.Node),
    docTreesL c g env src escs pi first ts = .ok xs → allKindsL notStrike xs = true
  | _, _, [], xs, h => by
    unfold docTreesL at h
    rw [epure_ok h]; rfl
  | pi, first, t :: rest, xs, h => by
    unfold docTreesL at h
    obtain ⟨x, h1, h⟩ := ebind_ok h
    obtain ⟨xs', h2, h⟩ := ebind_ok h
    rw [epure_ok h]
    simp only [allKindsL, Bool.and_eq_true]
    exact ⟨docTreeL_notStrike c ht g env src escs _ t x h1, docTreesL_notStrike c ht g env src escs _ _ rest xs' h2⟩
end


theorem inlineLines_strike (c : GCfg) (env : Env) (src : Bytes) (hsrc : (126 : UInt8) ∉ src) (inItem : Bool)
    (lines : List Segment) :
    inlineLinesL (onS c) true env src inItem lines =
      inlineLinesL (offS c) true env src inItem lines := by
  unfold inlineLinesL
  split
  · rfl
  · split
    · rfl
    · rename_i hw
      have hw' : GM.LinkRef.wf0B src lines = true := by simpa using hw
      obtain ⟨W, Z⟩ := GM.Proof.LinkRefTotal.wf0B_sound hw'
      rw [parseBlockL_strike_unused c inItem W Z env hsrc]

theorem inlinePhaseL_strike (c : GCfg) (env : Env) (src : Bytes) (hsrc : (126 : UInt8) ∉ src) (inItem : Bool)
    (n : GM.Blocks.Node) :
    inlinePhaseL (onS c) true env src inItem n =
      inlinePhaseL (offS c) true env src inItem n := by
  unfold inlinePhaseL
  rw [inlineLines_strike c env src hsrc]
  rfl

/-- without Strikethrough the inline children of a block hold no Strikethrough representation -/
theorem inlinePhaseL_noS (c : GCfg) (hs : c.base.strikethrough = false) (g : Bool) (env : Env) (src : Bytes) (inItem : Bool)
    (n : GM.Blocks.Node) (kids : List Inl.Node) (h : inlinePhaseL c g env src inItem n = .ok kids) : noSL kids = true := by
  unfold inlinePhaseL at h
  split at h
  · cases h; rfl
  · split at h
    · cases h; rfl
    · split at h
      · cases h; rfl
      · unfold inlineLinesL at h
        split at h
        · cases h; rfl
        · split at h
          · cases h
          · exact fixL_noSL kids (parseBlockL_fixS c (by rw [hs]; exact ⟨by decide, by decide, fun h => absurd h (by decide), fun h => absurd h (by decide)⟩) g0_ok (fun _ => ⟨by decide, by decide⟩) inItem env src n.lines kids
              (liftErr_ok' h))

mutual
theorem docTreeL_strike (c : GCfg) (env : Env) (src : Bytes) (hsrc : (126 : UInt8) ∉ src) (escs : List Int) :
    ∀ (inItem : Bool) (t : GM.Blocks.Tree),
    docTreeL (onS c) true env src escs inItem t =
      docTreeL (offS c) true env src escs inItem t
  | inItem, .node n cs => by
    unfold docTreeL
    rw [docTreesL_strike c env src hsrc escs _ _ cs, inlinePhaseL_strike c env src hsrc]
    cases hd : docTreesL (offS c) true env src escs (n.kind == .listItem) true cs with
    | error e => rfl
    | ok bs =>
      cases hk : inlinePhaseL (offS c) true env src inItem n with
      | error e => rfl
      | ok kids =>
        have hl := inlinePhaseL_noS (offS c) rfl true env src inItem n kids hk
        have hl' : noSL (if (c.base.table && GM.TableX.isCellNode src n) = true then GM.TableX.escNodes escs kids else kids) = true := by
          split
          · exact escNodes_noS escs kids hl
          · exact hl
        have e1 : (onS c).base.table = c.base.table := rfl
        have e2 : (offS c).base.table = c.base.table := rfl
        simp only [bind, Except.bind, e1, e2]
        rw [inlineTreesL_sflag (onS c) (offS c) rfl rfl src _ hl']
        rfl
theorem docTreesL_strike (c : GCfg) (env : Env) (src : Bytes) (hsrc : (126 : UInt8) ∉ src) (escs : List Int) :
    ∀ (pi first : Bool) (ts : List GM.Blocks.Tree),
    docTreesL (onS c) true env src escs pi first ts =
      docTreesL (offS c) true env src escs pi first ts
  | _, _, [] => by unfold docTreesL; rfl
  | pi, first, t :: rest => by
    unfold docTreesL
    rw [docTreeL_strike c env src hsrc escs _ t, docTreesL_strike c env src hsrc escs _ _ rest]
end

theorem parseDocL_strike (c : GCfg) (uc : List (Nat × (Bool × Bool))) (src : Bytes) (hsrc : (126 : UInt8) ∉ src) :
    parseDocL (onS c) true uc src = parseDocL (offS c) true uc src := by
  unfold parseDocL
  have hb : blockPhaseX (onS c).base true src = blockPhaseX (offS c).base true src := rfl
  rw [hb]
  cases liftErr Err.blocks (blockPhaseX (offS c).base true src) with
  | error e => rfl
  | ok st =>
    simp only [bind, Except.bind]
    exact docTreeL_strike c _ src hsrc _ _ _

/-- **Strikethrough is conservative at whole-document level**, for EVERY member set: a source without `~` converts to the
    same HTML / outcome with and without Strikethrough -/
theorem convertL_strike (c : GCfg) (uc : List (Nat × (Bool × Bool))) (o : ROpts) (src : Bytes)
    (hsrc : (126 : UInt8) ∉ src) :
    convertL (onS c) uc o src = convertL (offS c) uc o src := by
  unfold convertL convertLWith
  rw [parseDocL_strike c uc src hsrc]
  cases hp : parseDocL (offS c) true uc src with
  | error e => rfl
  | ok t =>
    simp only [bind, Except.bind]
    apply renderDocX_exts (c1 := (onS c).base) (c2 := (offS c).base)
    unfold parseDocL at hp
    obtain ⟨st, _, hp⟩ := ebind_ok hp
    have hk := docTreeL_notStrike (offS c) rfl true _ src _ _ _ t hp
    exact allKinds_mono (fun k hk => by
      simp only [beq_iff_eq]
      exact GM.Proof.ConvertXStrikeDoc.handled_strike c.base.exts true false hk) t hk


end GM.Proof.ConvertLStrike
