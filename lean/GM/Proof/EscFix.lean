/-
  GM.Proof.EscFix — lemmas for the two repairs the models follow since package escfix
  (KNOWN_FINDINGS `fixed:` 24c9f23, 9e57c92):

  (E) parser/parser.go parseBlock: `escaped = false` at the top of the line loop (before `retry:`): the states in
      which an iteration of the outer `for` begins carry a cleared flag, in the abstract loop (GM.Model.InlineLoop)
      and in the concrete one (GM.Model.InlinesLoop / InlinesLoopX).
  (T) text/reader.go findClosureReader: `seg.WithStop(seg.Start + i - seg.Padding)`: the last segment FindClosure
      hands out stops at the SOURCE offset of the closer, whatever the virtual padding of the peeked line — on the
      block cursor `BCur` with any paddings and, through the simulation of GM.Proof.BlockReader, on the block reader.
-/
import GM.Proof.LinkRefAdj1
import GM.Proof.InlineLoop
import GM.Model.InlinesLoopX

namespace GM.Proof.EscFix
open GM GM.Text GM.Spec GM.Proof.Reader GM.Proof.InlinesReader GM.Proof.BlockReaderFuel GM.Proof.LinkRefAdj

/-! ## (T) FindClosure: the stop of the closing segment -/

section closure
variable {src : Bytes} {segs : List Segment}

/-- the last of the segments is cut at a byte `cl` of the source -/
def ClosesAt (src : Bytes) (cl : UInt8) (sgs : List Segment) : Prop :=
  ∃ s, sgs.getLast? = some s ∧ 0 ≤ s.stop ∧ src[s.stop.toNat]? = some cl

/-- a byte of the peeked line behind the padding is the source byte at `p + i - pad` -/
theorem view_byte (F : SegFacts src segs) {c : BCur} (w : BWF segs c) {bs : Bytes}
    (hv : BCur.view src segs c = some bs) {i : Nat} {b : UInt8} (hi : c.pad ≤ (i : Int)) (hb : bs[i]? = some b) :
    0 ≤ c.p + i - c.pad ∧ src[(c.p + i - c.pad).toNat]? = some b := by
  have hl := view_live hv
  have h0 : 0 ≤ c.p := by
    have := (w.inLine hl).1
    have := (F.rng c.ln w.ln0 hl).1
    omega
  have hp0 := w.pad0
  unfold BCur.view at hv
  split at hv
  · simp only [Option.some.injEq] at hv
    rw [← hv] at hb
    have hlen : (spaces c.pad.toNat).length = c.pad.toNat := by simp [spaces]
    rw [List.getElem?_append_right (by rw [hlen]; omega), hlen] at hb
    unfold sub at hb
    rw [List.getElem?_take] at hb
    split at hb
    · rw [List.getElem?_drop] at hb
      refine ⟨by omega, ?_⟩
      have : (c.p + i - c.pad).toNat = c.p.toNat + (i - c.pad.toNat) := by omega
      rw [this]; exact hb
    · cases hb
  · cases hv

theorem getLast?_append_single {α : Type} (l : List α) (a : α) : (l ++ [a]).getLast? = some a := by
  simp

theorem fcl_stop (F : SegFacts src segs) (o cl : UInt8) (hcl : cl ≠ 32) (opts : FindClosureOptions) :
    ∀ (fuel opened cso : Nat) (ret : Option (List Segment)) (c : BCur) x c', BWF segs c →
    findClosureLoop (BCur.ops src segs) o cl opts fuel opened cso ret c = .ok (x, c') →
    x.2 = true → ClosesAt src cl (x.1.getD []) := by
  intro fuel
  induction fuel with
  | zero => intro opened cso ret c x c' _ h; simp [findClosureLoop] at h
  | succ f ih =>
    intro opened cso ret c x c' w h hx
    have hpl : (BCur.ops src segs).peekLine c = .ok ((BCur.view src segs c, BCur.seg segs c), c) := rfl
    simp only [findClosureLoop, hpl, bind, Except.bind] at h
    cases hv : BCur.view src segs c with
    | none =>
      rw [hv] at h
      simp only [pure, Except.pure, Except.ok.injEq, Prod.mk.injEq] at h
      obtain ⟨rfl, rfl⟩ := h
      simp at hx
    | some bs =>
      rw [hv] at h
      simp only at h
      split at h
      · rename_i i hsc
        cases ha : (BCur.ops src segs).advance (↑i + 1) c with
        | error er => rw [ha] at h; simp at h
        | ok c1 =>
          rw [ha] at h
          simp only [pure, Except.pure, Except.ok.injEq, Prod.mk.injEq] at h
          obtain ⟨rfl, rfl⟩ := h
          have hpad := found_behind_pad hv hcl hsc
          have hb := scanLine_found_closer _ _ _ _ _ _ _ _ _ hsc
          simp only [Nat.sub_zero] at hb
          obtain ⟨q1, q2⟩ := view_byte F w hv hpad hb
          refine ⟨_, by simp only [Option.getD_some]; exact getLast?_append_single _ _, ?_, ?_⟩
          · simpa only [Segment.withStop, BCur.seg] using q1
          · simpa only [Segment.withStop, BCur.seg] using q2
      · simp only [pure, Except.pure, Except.ok.injEq, Prod.mk.injEq] at h
        obtain ⟨rfl, rfl⟩ := h
        simp at hx
      · split at h
        · simp only [pure, Except.pure, Except.ok.injEq, Prod.mk.injEq] at h
          obtain ⟨rfl, rfl⟩ := h
          simp at hx
        · have hal : (BCur.ops src segs).advanceLine c = .ok (BCur.advanceLine segs c) := rfl
          rw [hal] at h
          simp only at h
          exact ih _ _ _ _ x c' (bwf_advanceLine F w) h hx

/-- FindClosure on the block cursor (any paddings, any options, a closer other than the space the padding is made
    of): when it reports a closure, the last segment stops at the source offset of a closer byte -/
theorem bcur_findClosure_stop (F : SegFacts src segs) (o cl : UInt8) (hcl : cl ≠ 32) (opts : FindClosureOptions)
    (fuel : Nat) {c c' : BCur} {x} (w : BWF segs c)
    (e : findClosure (BCur.ops src segs) fuel o cl opts c = .ok (x, c')) (hx : x.2 = true) :
    ClosesAt src cl (x.1.getD []) := by
  unfold findClosure at e
  obtain ⟨⟨y1, c1⟩, h1, h2⟩ := bind_ok e
  obtain ⟨c2, _, h4⟩ := bind_ok h2
  simp only at h4
  split at h4
  · rename_i hy
    simp only [pure, Except.pure, Except.ok.injEq, Prod.mk.injEq] at h4
    obtain ⟨rfl, _⟩ := h4
    exact fcl_stop F o cl hcl opts fuel 1 0 none c y1 c1 w h1 hy
  · simp only [pure, Except.pure, Except.ok.injEq, Prod.mk.injEq] at h4
    obtain ⟨rfl, _⟩ := h4
    simp at hx

/-- … and on the block READER that stands for the cursor -/
theorem blockReader_findClosure_stop (W : WFSegs src segs) {r r' : BlockReader} {c : BCur} (h : BAbs src segs r c)
    (o cl : UInt8) (hcl : cl ≠ 32) (opts : FindClosureOptions) (fuel : Nat)
    (hf : (BCur.remaining segs c).toNat < fuel) {sgs : List Segment}
    (e : findClosure blockOps fuel o cl opts r = .ok ((some sgs, true), r')) : ClosesAt src cl sgs := by
  have F := segFacts W
  obtain ⟨x, c', e1, _⟩ := bcur_findClosure_ok (src := src) F o cl opts fuel h.wf hf
  obtain ⟨r'', e2, _⟩ := findClosure_sim (blockSim F) fuel o cl opts h e1
  rw [e] at e2
  simp only [Except.ok.injEq, Prod.mk.injEq] at e2
  obtain ⟨rfl, _⟩ := e2
  exact bcur_findClosure_stop F o cl hcl opts fuel h.wf e1 rfl

end closure

/-! ## (E) the `escaped` flag at the top of the line loop -/

section abstractLoop
open GM.InlineLoop

/-- the end of a line (parser.go:1241-1262 and back to the top of `for`) clears the flag -/
theorem ite_escaped (c : Prop) [Decidable c] (a b : St) (ha : a.escaped = false) (hb : b.escaped = false) :
    (if c then a else b).escaped = false := by
  split <;> assumption

theorem eol_escaped (b : Block) (fl : Flags) (l : Nat) (st : St) (sp n : Nat) : (eol b fl l st sp n).escaped = false := by
  unfold eol
  exact ite_escaped _ _ _ rfl rfl

/-- … and what it hands to the next line does not depend on the flag the byte loop left -/
theorem eol_flag_irrelevant (b : Block) (fl : Flags) (l : Nat) (st : St) (sp n : Nat) (e : Bool) :
    eol b fl l { st with escaped := e } sp n = eol b fl l st sp n := rfl

/-- the states the loop of parseBlock passes through `retry:` with; the flag says whether the state is at the TOP of
    the outer `for` (the first iteration, or after the end of a line) rather than behind a `goto retry` -/
inductive Reach (P : Params) (b : Block) : Bool → St → Prop
  | init : Reach P b true (initSt b)
  | hit {k : Bool} {st st' : St} {line : Bytes} : Reach P b k st → peekLine b st.rd = .line line → line.isEmpty = false →
      scan P b (line.take (classify line).1) 0 0 st.rd.start st = .hit st' → Reach P b false st'
  | eol {k : Bool} {st st1 : St} {line : Bytes} {sp n : Nat} : Reach P b k st → peekLine b st.rd = .line line →
      line.isEmpty = false → scan P b (line.take (classify line).1) 0 0 st.rd.start st = .eol st1 sp n →
      Reach P b true (eol b (classify line).2 st.rd.line st1 sp n)

theorem reach_top_escaped {P : Params} {b : Block} {st : St} (h : Reach P b true st) : st.escaped = false := by
  cases h with
  | init => rfl
  | eol _ _ _ _ => exact eol_escaped _ _ _ _ _ _

/-- `Reach` is closed under `pass`: nothing else is ever handed to `retry:` -/
theorem reach_pass {P : Params} {b : Block} {k : Bool} {st st' : St} (h : Reach P b k st) (hp : pass P b st = .next st') :
    ∃ k', Reach P b k' st' := by
  unfold pass at hp
  cases hl : peekLine b st.rd with
  | none => rw [hl] at hp; cases hp
  | panic => rw [hl] at hp; cases hp
  | line line =>
    rw [hl] at hp
    simp only at hp
    cases hne : line.isEmpty with
    | true => rw [hne] at hp; simp at hp
    | false =>
      rw [hne] at hp
      simp only [Bool.false_eq_true, if_false] at hp
      cases hs : scan P b (line.take (classify line).1) 0 0 st.rd.start st with
      | hit st1 =>
        rw [hs] at hp
        simp only [Pass.next.injEq] at hp
        subst hp
        exact ⟨false, Reach.hit h hl hne hs⟩
      | eol st1 sp n =>
        rw [hs] at hp
        simp only [Pass.next.injEq] at hp
        subst hp
        exact ⟨true, Reach.eol h hl hne hs⟩

theorem reach_loop {P : Params} {b : Block} : ∀ (fuel : Nat) {k : Bool} {st : St}, Reach P b k st →
    ∃ k', Reach P b k' (loop P b fuel st).st := by
  intro fuel
  induction fuel with
  | zero => intro k st h; exact ⟨k, h⟩
  | succ f ih =>
    intro k st h
    simp only [loop]
    cases hp : pass P b st with
    | done => exact ⟨k, h⟩
    | panic kind => exact ⟨k, h⟩
    | next st' =>
      obtain ⟨k', h'⟩ := reach_pass h hp
      exact ih h'

end abstractLoop

section concreteLoop
open GM.Inl

/-- the concrete loop: after the end of a line the next pass starts with a cleared flag, whatever the byte loop left in
    `s.escaped` (and `endOfLine` does not read it) -/
theorem lineLoop_line_end (env : Env) (fuel : Nat) (esc : Bool) (st : St) {pl} {line : Bytes} {s : GM.Inl.Scan}
    (hpl : st.rd.peekLine = .ok pl) (hline : pl.1.1 = some line) (hne : line.isEmpty = false)
    (hscan : scan env (line.take (classify line).1) 0
      { st := { st with rd := pl.2 }, n := 0, sp := pl.2.position.2, escaped := esc } = .ok (.eol s)) :
    lineLoop env (fuel + 1) esc st =
      (endOfLine (classify line).2 pl.2.position.1 s >>= fun st' => lineLoop env fuel false st') := by
  simp only [lineLoop, hpl, bind, Except.bind, hline, hne, Bool.false_eq_true, if_false, hscan]

theorem endOfLine_flag_irrelevant (flags : Nat) (l : Int) (s : GM.Inl.Scan) (e : Bool) :
    endOfLine flags l { s with escaped := e } = endOfLine flags l s := rfl

/-- the same for the loop over an open trigger table -/
theorem lineLoopX_line_end (env : Env) (tbl : UInt8 → List XIp) (fuel : Nat) (esc : Bool) (st : St) {pl} {line : Bytes}
    {s : GM.Inl.Scan} (hpl : st.rd.peekLine = .ok pl) (hline : pl.1.1 = some line) (hne : line.isEmpty = false)
    (hscan : scanX env tbl (line.take (classify line).1) 0
      { st := { st with rd := pl.2 }, n := 0, sp := pl.2.position.2, escaped := esc } = .ok (.eol s)) :
    lineLoopX env tbl (fuel + 1) esc st =
      (endOfLine (classify line).2 pl.2.position.1 s >>= fun st' => lineLoopX env tbl fuel false st') := by
  simp only [lineLoopX, hpl, bind, Except.bind, hline, hne, Bool.false_eq_true, if_false, hscan]

end concreteLoop

end GM.Proof.EscFix
