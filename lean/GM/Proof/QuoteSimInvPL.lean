/-
  GM.Proof.QuoteSimInvPL — the `OPK` calculus of GM.Proof.QuoteSimInvK for the two list parsers: the node `listParser.Open`
  returns is the fresh node, a List; the node `listItemParser.Open` returns is the fresh node, a ListItem. Hence
  `bpOpen_kind'`: for ALL ten parsers the node `Open` returns is a node of the final store of the kind the parser builds
  (`NRn bp id s'.nodes`), without the hypothesis `bp.notList = true` of `bpOpen_kind`.
-/
import GM.Proof.QuoteSimInvL
import GM.Proof.QuoteSimInvK
import GM.Proof.QuoteSimInvKL

namespace GM.Blocks
open GM GM.Text

theorem opk_listOpen (p : Nat) : OPK .list (listOpen p) := by
  unfold listOpen; opk

theorem opk_listItemOpen (p : Nat) : OPK .listItem (listItemOpen p) := by
  have := kg_lastOffset; unfold listItemOpen; opk

/-- `Open` of any of the ten block parsers: the node it returns is a node of the store of the kind the parser builds
    (`BP.kind`) -/
theorem bpOpen_kind' (bp : BP) (p : Nat) {s s' : St} {a : Option Nat × PState}
    (e : bpOpen bp p s = .ok (a, s')) (id : Nat) (hid : a.1 = some id) : NRn bp id s'.nodes := by
  cases hb : bp.notList with
  | true => exact bpOpen_kind bp hb p e id hid
  | false =>
    cases bp <;> first | cases hb | skip
    · unfold bpOpen at e; exact (opk_listOpen p).h s a s' e id hid
    · unfold bpOpen at e; exact (opk_listItemOpen p).h s a s' e id hid

end GM.Blocks
