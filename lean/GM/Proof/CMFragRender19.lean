/-
  GM.Proof.CMFragRender19 — the renderer half of the conformance proof for stage 19 (raw inline HTML tags inside the
  text lines):
  * `renderDoc_hrich19`: the renderer model (option Unsafe) on Document[Paragraph[hrich nodes]…] writes every paragraph
    as `<p>` + its lines (`hrichLineHtml19`) joined by a line feed + `</p>` and never panics — for lines that end with a
    text atom (`LineShape19`; follows from `HRichLine19`: `renderDoc_hrichLines19`); a RawHTML node writes its segment
    as it is;
  * the bridge to the spec side: `hatomOfS19`, `hrichLineHtml19_hatomOfS19` (the prescribed HTML of a line),
    `hlineSrc19_hatomOfS19` (the source of a line), `hrichLine_hatomOfS19` (`HRichLine19` from `h19lineOKS`),
    `renderDoc_expectedH19` (the whole prescribed HTML `expectedH19`).
-/
import GM.Proof.CMFrag19Defs
import GM.Proof.CMFragRender16
namespace GM.Proof.CMFrag
open GM GM.Spec.CM GM.Spec.CMFrag

/-! ### the renderer on the nodes of a line -/

structure LineShape19 (l : List HAtom) : Prop where
  last : ∃ init bs, l = init ++ [.txt bs]

theorem handled_raw19 (e : Exts) (segs : List Bytes) : handled e (.rawHTML segs) = true := rfl

/-- raw inline HTML is written as it is (option Unsafe set); its children are not walked -/
theorem renderNode_raw19 (rc : RCfg) (hu : rc.core.unsafe_ = true) (ph : Bool) (next : Option Node) (b : Bytes) :
    renderNode rc ph next (.mk (.rawHTML [b]) none []) = b := by
  rw [renderNode]
  simp [enter, leave, handled_raw19, skipsChildren, hu]

theorem hatomNodes_open19 (soft : Bool) (n : Bytes) (rest : List HAtom) :
    hatomNodes19 soft (.open n :: rest) = .mk (.rawHTML [hatomSrc (.open n)]) none [] :: hatomNodes19 soft rest := by
  simp [hatomNodes19]

theorem hatomNodes_close19 (soft : Bool) (n : Bytes) (rest : List HAtom) :
    hatomNodes19 soft (.close n :: rest) = .mk (.rawHTML [hatomSrc (.close n)]) none [] :: hatomNodes19 soft rest := by
  simp [hatomNodes19]

theorem hatomNodes19_txt_cons19 (soft : Bool) (b : Bytes) (rest : List HAtom) (h : rest ≠ []) :
    hatomNodes19 soft (.txt b :: rest) = .mk (.text b false false false false) none [] :: hatomNodes19 soft rest := by
  cases rest with
  | nil => exact absurd rfl h
  | cons a rest => rfl

/-- the nodes of one line, followed by any other nodes -/
theorem renderNodes_hatoms19 (rc : RCfg) (hes : rc.core.escSpace = false) (hhw : rc.core.hardWraps = false)
    (hea : rc.core.ea = 0) (hu : rc.core.unsafe_ = true) (ph soft : Bool) (init : List HAtom) (bs : Bytes)
    (tail : List Node) :
    renderNodes rc ph (hatomNodes19 soft (init ++ [.txt bs]) ++ tail) =
      hrichLineHtml19 (init ++ [.txt bs]) ++ (if soft then [10] else []) ++ renderNodes rc ph tail := by
  induction init with
  | nil =>
    simp only [List.nil_append, hatomNodes19, List.cons_append, renderNodes, renderNode_text rc hes hhw hea,
      hrichLineHtml19, List.flatMap_cons, List.flatMap_nil, hatomHtml19, List.append_nil]
  | cons a init ih =>
    have ih' := ih
    cases a with
    | txt b =>
      rw [List.cons_append, hatomNodes19_txt_cons19 soft b _ (by simp), List.cons_append, renderNodes,
        renderNode_text rc hes hhw hea, ih']
      simp [hrichLineHtml19, hatomHtml19]
    | «open» n =>
      rw [List.cons_append, hatomNodes_open19, List.cons_append, renderNodes, renderNode_raw19 rc hu, ih']
      simp [hrichLineHtml19, hatomHtml19]
    | close n =>
      rw [List.cons_append, hatomNodes_close19, List.cons_append, renderNodes, renderNode_raw19 rc hu, ih']
      simp [hrichLineHtml19, hatomHtml19]

theorem renderNodes_hrich19 (rc : RCfg) (hes : rc.core.escSpace = false) (hhw : rc.core.hardWraps = false)
    (hea : rc.core.ea = 0) (hu : rc.core.unsafe_ = true) (ph : Bool) (ls : List (List HAtom))
    (hl : ∀ l ∈ ls, LineShape19 l) :
    renderNodes rc ph (hrichNodes19 ls) = GM.Proof.CMFrag.joinNl (ls.map hrichLineHtml19) := by
  induction ls with
  | nil => simp [hrichNodes19, renderNodes, GM.Proof.CMFrag.joinNl]
  | cons l rest ih =>
    obtain ⟨⟨init, bs, rfl⟩⟩ := hl l (by simp)
    cases rest with
    | nil =>
      have := renderNodes_hatoms19 rc hes hhw hea hu ph false init bs []
      simp only [List.append_nil] at this
      simp [hrichNodes19, GM.Proof.CMFrag.joinNl, this, renderNodes]
    | cons l' rest =>
      rw [hrichNodes19, renderNodes_hatoms19 rc hes hhw hea hu ph true init bs _,
        ih (fun x hx => hl x (by simp [hx]))]
      simp [GM.Proof.CMFrag.joinNl]

/-- a paragraph of rich lines as the renderer reads it -/
def hrichPara19 (ls : List (List HAtom)) : GM.Node := .mk .paragraph none (hrichNodes19 ls)

def hrichParaHtml19 (ls : List (List HAtom)) : Bytes :=
  strBytes "<p>" ++ GM.Proof.CMFrag.joinNl (ls.map hrichLineHtml19) ++ strBytes "</p>\n"

theorem renderNode_hrichPara19 (rc : RCfg) (hes : rc.core.escSpace = false) (hhw : rc.core.hardWraps = false)
    (hea : rc.core.ea = 0) (hu : rc.core.unsafe_ = true) (ph : Bool) (next : Option Node) (ls : List (List HAtom))
    (hl : ∀ l ∈ ls, LineShape19 l) :
    renderNode rc ph next (hrichPara19 ls) = hrichParaHtml19 ls := by
  rw [hrichPara19, renderNode]
  simp only [enter, leave, handled_para, skipsChildren, openTag, Kind.isTableHeader,
    renderNodes_hrich19 rc hes hhw hea hu _ ls hl, hrichParaHtml19]
  have h1 : strBytes "<p>" = [60] ++ strBytes "p" ++ [62] := by decide +kernel
  rw [h1]; simp

theorem renderNodes_hrichParas19 (rc : RCfg) (hes : rc.core.escSpace = false) (hhw : rc.core.hardWraps = false)
    (hea : rc.core.ea = 0) (hu : rc.core.unsafe_ = true) (ph : Bool) (ps : List (List (List HAtom)))
    (hl : ∀ ls ∈ ps, ∀ l ∈ ls, LineShape19 l) :
    renderNodes rc ph (ps.map hrichPara19) = ps.flatMap hrichParaHtml19 := by
  induction ps with
  | nil => simp [renderNodes]
  | cons p rest ih =>
    rw [List.map_cons, renderNodes, renderNode_hrichPara19 rc hes hhw hea hu _ _ p (hl p (by simp)),
      ih (fun x hx => hl x (by simp [hx]))]
    simp

/-! ### no panic -/

theorem renderPanicsNodes_hatoms19 (rc : RCfg) (soft : Bool) (l : List HAtom) (tail : List Node)
    (ht : renderPanicsNodes rc tail = none) :
    renderPanicsNodes rc (hatomNodes19 soft l ++ tail) = none := by
  induction l with
  | nil => simpa [hatomNodes19] using ht
  | cons a rest ih =>
    cases a with
    | txt b =>
      cases rest with
      | nil => simp [hatomNodes19, renderPanicsNodes, renderPanicsNode, nodePanic, ht]
      | cons a' rest' =>
        rw [hatomNodes19_txt_cons19 soft b _ (by simp), List.cons_append, renderPanicsNodes, ih]
        simp [renderPanicsNode, nodePanic, renderPanicsNodes]
    | «open» n =>
      rw [hatomNodes_open19, List.cons_append, renderPanicsNodes, ih]
      simp [renderPanicsNode, nodePanic, handled_raw19, skipsChildren]
    | close n =>
      rw [hatomNodes_close19, List.cons_append, renderPanicsNodes, ih]
      simp [renderPanicsNode, nodePanic, handled_raw19, skipsChildren]

theorem renderPanicsNodes_hrich19 (rc : RCfg) (ls : List (List HAtom)) :
    renderPanicsNodes rc (hrichNodes19 ls) = none := by
  induction ls with
  | nil => simp [hrichNodes19, renderPanicsNodes]
  | cons l rest ih =>
    cases rest with
    | nil =>
      have := renderPanicsNodes_hatoms19 rc false l [] (by simp [renderPanicsNodes])
      simpa [hrichNodes19] using this
    | cons l' rest =>
      rw [hrichNodes19]
      exact renderPanicsNodes_hatoms19 rc true l _ ih

theorem renderPanicsNodes_hrichParas19 (rc : RCfg) (ps : List (List (List HAtom))) :
    renderPanicsNodes rc (ps.map hrichPara19) = none := by
  induction ps with
  | nil => simp [renderPanicsNodes]
  | cons p rest ih =>
    rw [List.map_cons, renderPanicsNodes, ih]
    simp [hrichPara19, renderPanicsNode, nodePanic, renderPanicsNodes_hrich19]

/-! ### the document -/

theorem renderDoc_hrich19_any (o : GM.Convert.ROpts) (ho : o.hardWraps = false) (hu : o.unsafe_ = true)
    (ps : List (List (List HAtom))) (hl : ∀ ls ∈ ps, ∀ l ∈ ls, LineShape19 l) :
    GM.Convert.renderDoc o (.mk .document none (ps.map fun ls => .mk .paragraph none (hrichNodes19 ls))) =
      .ok (ps.flatMap fun ls =>
        strBytes "<p>" ++ GM.Proof.CMFrag.joinNl (ls.map hrichLineHtml19) ++ strBytes "</p>\n") := by
  have hp : renderPanics o.rcfg (.mk .document none (ps.map hrichPara19)) = none := by
    simp [renderPanics, renderPanicsNode, nodePanic, renderPanicsNodes_hrichParas19]
  have hr : render o.rcfg (.mk .document none (ps.map hrichPara19)) = ps.flatMap hrichParaHtml19 := by
    rw [render, renderNode]
    simp [enter, leave, handled_doc, skipsChildren, Kind.isTableHeader,
      renderNodes_hrichParas19 o.rcfg (rcfg_escSpace o) (by rw [rcfg_hardWraps, ho]) (rcfg_ea o)
        (by rw [rcfg_unsafe16, hu]) _ ps hl]
  have e1 : (ps.map fun ls => GM.Node.mk .paragraph none (hrichNodes19 ls)) = ps.map hrichPara19 := rfl
  rw [e1, GM.Convert.renderDoc, hp, hr]
  rfl

/-- the renderer on a document of paragraphs of rich lines with raw HTML tags -/
theorem renderDoc_hrich19 (ps : List (List (List HAtom))) (hl : ∀ ls ∈ ps, ∀ l ∈ ls, LineShape19 l) :
    GM.Convert.renderDoc cmOpts (.mk .document none (ps.map fun ls => .mk .paragraph none (hrichNodes19 ls))) =
      .ok (ps.flatMap fun ls =>
        strBytes "<p>" ++ GM.Proof.CMFrag.joinNl (ls.map hrichLineHtml19) ++ strBytes "</p>\n") :=
  renderDoc_hrich19_any cmOpts rfl rfl ps hl

theorem lineShape_of_hrichLine19 (l : List HAtom) (h : HRichLine19 l) : LineShape19 l := by
  obtain ⟨init, bs, hl, _⟩ := h.last
  exact ⟨⟨init, bs, hl⟩⟩

theorem renderDoc_hrichLines19 (ps : List (List (List HAtom))) (hl : ∀ ls ∈ ps, ∀ l ∈ ls, HRichLine19 l) :
    GM.Convert.renderDoc cmOpts (.mk .document none (ps.map fun ls => .mk .paragraph none (hrichNodes19 ls))) =
      .ok (ps.flatMap fun ls =>
        strBytes "<p>" ++ GM.Proof.CMFrag.joinNl (ls.map hrichLineHtml19) ++ strBytes "</p>\n") :=
  renderDoc_hrich19 ps (fun ls hls l hlm => lineShape_of_hrichLine19 l (hl ls hls l hlm))

/-! ### the bridge to the spec side -/

/-- a spec-side atom as source bytes -/
def hatomOfS19 : H19AtomS → HAtom
  | .txt cs => .txt (escSpell cs)
  | .open n => .open n
  | .close n => .close n

theorem hatomSrc_hatomOfS19 (a : H19AtomS) : hatomSrc (hatomOfS19 a) = spellH19Atom a := by
  cases a <;> rfl

theorem hlineSrc19_hatomOfS19 (l : H19Line) : hlineSrc19 (l.map hatomOfS19) = spellH19Line l := by
  simp only [hlineSrc19, spellH19Line, List.flatMap_map]
  congr 1; funext a; exact hatomSrc_hatomOfS19 a

/-- what `h19atomOKS` says, atom kind by atom kind -/
theorem h19atomOKS_txt19 (cs : List TChar) (h : h19atomOKS (.txt cs) = true) : cs ≠ [] ∧ ∀ t ∈ cs, charOK t = true := by
  simp only [h19atomOKS, Bool.and_eq_true, Bool.not_eq_true', List.isEmpty_eq_false_iff, List.all_eq_true] at h
  exact h

theorem tagNameOK_of19 (n : Bytes) (h : tagNameOK19 n = true) : TagNameOK19 n := by
  cases n with
  | nil => cases h
  | cons c rest =>
    simp only [tagNameOK19, Bool.and_eq_true, List.all_eq_true] at h
    refine ⟨by simp, ?_, ?_⟩
    · intro x hx
      simp only [List.head?_cons, Option.some.injEq] at hx
      subst hx; exact h.1
    · intro x hx
      rcases List.mem_cons.mp hx with rfl | hx
      · simp [isAlnumC, h.1]
      · exact h.2 x hx

theorem hatomHtml19_hatomOfS19 (a : H19AtomS) (h : h19atomOKS a = true) : hatomHtml19 (hatomOfS19 a) = expH19Atom a := by
  cases a with
  | txt cs =>
    exact write_spelled cs (fun t ht => charOK_printable t ((h19atomOKS_txt19 cs h).2 t ht))
  | «open» n => rfl
  | close n => rfl

theorem hrichLineHtml19_hatomOfS19 (l : H19Line) (h : ∀ a ∈ l, h19atomOKS a = true) :
    hrichLineHtml19 (l.map hatomOfS19) = expH19Line l := by
  simp only [hrichLineHtml19, expH19Line, List.flatMap_map]
  induction l with
  | nil => rfl
  | cons a rest ih =>
    simp only [List.flatMap_cons]
    rw [hatomHtml19_hatomOfS19 a (h a (by simp)), ih (fun x hx => h x (by simp [hx]))]

theorem hatomOK_hatomOfS19 (a : H19AtomS) (h : h19atomOKS a = true) : HAtomOK19 (hatomOfS19 a) := by
  cases a with
  | txt cs =>
    obtain ⟨hne, hall⟩ := h19atomOKS_txt19 cs h
    exact ⟨escSpell_ne_nil8 cs hne, fun i => quiet_escSpell cs hall i, escAfter_escSpell8 cs⟩
  | «open» n => exact tagNameOK_of19 n h
  | close n => exact tagNameOK_of19 n h

theorem isTxt_hatomOfS19 (a : H19AtomS) : (hatomOfS19 a).isTxt19 = a.isTxt := by cases a <;> rfl

theorem halternating19_hatomOfS19 (l : H19Line) : halternating19 (l.map hatomOfS19) = h19alternatingS l := by
  induction l with
  | nil => rfl
  | cons a rest ih =>
    cases rest with
    | nil => rfl
    | cons b rest =>
      simp only [List.map_cons, halternating19, h19alternatingS, isTxt_hatomOfS19] at ih ⊢
      rw [ih]

theorem hrichLine_hatomOfS19 (l : H19Line) (h : h19lineOKS l = true) : HRichLine19 (l.map hatomOfS19) := by
  simp only [h19lineOKS, Bool.and_eq_true, List.all_eq_true] at h
  obtain ⟨⟨⟨halt, hfirst⟩, hlast⟩, hok⟩ := h
  refine ⟨by rw [halternating19_hatomOfS19]; exact halt, ?_, ?_, ?_⟩
  · -- first
    unfold h19firstOKS at hfirst
    split at hfirst
    · rename_i t ts rest
      obtain ⟨tc, te⟩ := t
      obtain ⟨sp, lt⟩ := spell_first tc te hfirst
      refine ⟨escSpell (⟨tc, te⟩ :: ts), rest.map hatomOfS19, rfl, ?_⟩
      intro c hc
      simp only [escSpell, List.flatMap_cons, sp, List.cons_append, List.nil_append, List.head?_cons,
        Option.some.injEq] at hc
      subst hc; exact lt
    · cases hfirst
  · -- last
    unfold h19lastOKS at hlast
    split at hlast
    · rename_i cs hl
      split at hlast
      · rename_i z hz
        obtain ⟨zc, ze⟩ := z
        obtain ⟨sp, nsp, nbs⟩ := spell_last zc ze hlast
        obtain ⟨init, hinit⟩ := List.getLast?_eq_some_iff.mp hl
        obtain ⟨cinit, hcs⟩ := List.getLast?_eq_some_iff.mp hz
        refine ⟨init.map hatomOfS19, escSpell cs, by rw [hinit]; simp [hatomOfS19], ?_⟩
        intro c hc
        have e : escSpell cs = escSpell cinit ++ [zc] := by rw [hcs]; simp [escSpell, sp]
        rw [e] at hc
        simp at hc
        subst hc; exact ⟨nsp, nbs⟩
      · cases hlast
    · cases hlast
  · intro a ha
    obtain ⟨r, hr, rfl⟩ := List.mem_map.mp ha
    exact hatomOK_hatomOfS19 r (hok r hr)

/-! #### the prescribed HTML of a whole document -/

theorem h19lineOKS_atoms19 (l : H19Line) (h : h19lineOKS l = true) : ∀ a ∈ l, h19atomOKS a = true := by
  simp only [h19lineOKS, Bool.and_eq_true, List.all_eq_true] at h
  exact h.2

theorem h19itemOKS_lines19 (it : H19Item) (h : h19itemOKS it = true) :
    it.lines ≠ [] ∧ ∀ l ∈ it.lines, h19lineOKS l = true := by
  simp only [h19itemOKS, Bool.and_eq_true, Bool.not_eq_true', List.isEmpty_eq_false_iff, List.all_eq_true] at h
  exact h

/-- the paragraphs of a stage-19 document as lists of proof-side atoms -/
def atomsOfH19 (d : H19Doc) : List (List (List HAtom)) := d.items.map fun it => it.lines.map (·.map hatomOfS19)

theorem docHtml_hatomOfS19 (d : H19Doc) (h : H19Frag d) :
    ((atomsOfH19 d).flatMap fun ls =>
      strBytes "<p>" ++ GM.Proof.CMFrag.joinNl (ls.map hrichLineHtml19) ++ strBytes "</p>\n") = expectedH19 d := by
  simp only [H19Frag, h19fragB, List.all_eq_true] at h
  simp only [atomsOfH19, expectedH19, List.flatMap_map]
  apply flatMap_congr8
  intro it hit
  have hls := (h19itemOKS_lines19 it (h it hit)).2
  have : (it.lines.map (·.map hatomOfS19)).map hrichLineHtml19 = it.lines.map expH19Line := by
    rw [List.map_map]
    apply List.map_congr_left
    intro l hl
    exact hrichLineHtml19_hatomOfS19 l (h19lineOKS_atoms19 l (hls l hl))
  rw [this, joinNl_eq, expH19Item]

theorem hrichLines_atomsOfH19 (d : H19Doc) (h : H19Frag d) : ∀ ls ∈ atomsOfH19 d, ∀ l ∈ ls, HRichLine19 l := by
  simp only [H19Frag, h19fragB, List.all_eq_true] at h
  intro ls hls l hl
  simp only [atomsOfH19, List.mem_map] at hls
  obtain ⟨it, hit, rfl⟩ := hls
  obtain ⟨r, hr, rfl⟩ := List.mem_map.mp hl
  exact hrichLine_hatomOfS19 r ((h19itemOKS_lines19 it (h it hit)).2 r hr)

/-- the renderer on the nodes of a stage-19 document writes the prescribed HTML -/
theorem renderDoc_expectedH19 (d : H19Doc) (h : H19Frag d) :
    GM.Convert.renderDoc cmOpts
        (.mk .document none ((atomsOfH19 d).map fun ls => .mk .paragraph none (hrichNodes19 ls))) =
      .ok (expectedH19 d) := by
  rw [renderDoc_hrichLines19 _ (hrichLines_atomsOfH19 d h), docHtml_hatomOfS19 d h]

end GM.Proof.CMFrag
