/-
  GM.Proof.CMFragDoc — the source of a fragment document as a byte string (`rawDoc`), where its lines are
  (`DocAt`), how many line feeds it has (the fuel of parseBlocks suffices), and the block phase on it (`runT`).
-/
import GM.Proof.CMFragRun

namespace GM.Proof.CMFrag
open GM GM.Text GM.Blocks GM.Spec

def blanks (n : Nat) : Bytes := List.replicate n 10

/-- what follows a paragraph -/
def rawTail : List (Nat × List Bytes) → Nat → Bytes
  | [], 0 => []
  | [], t + 1 => 10 :: blanks t
  | (g, ls) :: rest, trail => 10 :: (blanks g ++ (paraBytes ls ++ rawTail rest trail))

/-- the source: `gap` blank lines, the paragraph's lines, one blank line before the next paragraph, …, `trail`
    blank lines -/
def rawDoc : List (Nat × List Bytes) → Nat → Bytes
  | [], trail => blanks trail
  | (g, ls) :: rest, trail => blanks g ++ (paraBytes ls ++ rawTail rest trail)

theorem rawTail_cons (it : Nat × List Bytes) (rest : List (Nat × List Bytes)) (trail : Nat) :
    rawTail (it :: rest) trail = 10 :: rawDoc (it :: rest) trail := by
  obtain ⟨g, ls⟩ := it; rfl

theorem blanksAt_append : ∀ (g : Nat) (pre post : Bytes), BlanksAt (pre ++ (blanks g ++ post)) pre.length g
  | 0, _, _ => trivial
  | g + 1, pre, post => by
    have e : pre ++ (blanks (g + 1) ++ post) = pre ++ (([] : Bytes) ++ 10 :: (blanks g ++ post)) := by
      simp [blanks, List.replicate_succ]
    have h1 := Ln.of_append pre [] (blanks g ++ post) (by simp)
    have e2 : pre ++ (blanks (g + 1) ++ post) = (pre ++ [10]) ++ (blanks g ++ post) := by
      simp [blanks, List.replicate_succ]
    have h2 := blanksAt_append g (pre ++ [10]) post
    refine ⟨?_, ?_⟩
    · rw [e]; simpa using h1
    · rw [e2]; simpa using h2

theorem paraAt_src : ∀ (ls : List Bytes) (pre post : Bytes), (∀ l ∈ ls, ∀ c ∈ l, c ≠ 10) →
    ParaAt (pre ++ (paraBytes ls ++ post)) pre.length ls
  | [], _, _, _ => trivial
  | l :: rest, pre, post, h => by
    have e : pre ++ (paraBytes (l :: rest) ++ post) = pre ++ (l ++ 10 :: (paraBytes rest ++ post)) := by
      simp [paraBytes]
    have e2 : pre ++ (paraBytes (l :: rest) ++ post) = (pre ++ (l ++ [10])) ++ (paraBytes rest ++ post) := by
      simp [paraBytes]
    have h1 := Ln.of_append pre l (paraBytes rest ++ post) (h l (by simp))
    have h2 := paraAt_src rest (pre ++ (l ++ [10])) post (fun x hx => h x (by simp [hx]))
    refine ⟨?_, ?_⟩
    · rw [e]; exact h1
    · rw [e2]
      have : (pre ++ (l ++ [10])).length = pre.length + l.length + 1 := by simp; omega
      rw [this] at h2; exact h2

theorem docAt_raw : ∀ (items : List (Nat × List Bytes)) (trail : Nat) (pre : Bytes),
    (∀ it ∈ items, ∀ l ∈ it.2, ∀ c ∈ l, c ≠ 10) →
    DocAt (pre ++ rawDoc items trail) pre.length items trail
  | [], trail, pre, _ => by
    have h := blanksAt_append trail pre []
    simp only [List.append_nil] at h
    exact ⟨h, by simp [rawDoc, blanks]⟩
  | (g, ls) :: rest, trail, pre, hno => by
    have hb := blanksAt_append g pre (paraBytes ls ++ rawTail rest trail)
    have e1 : pre ++ rawDoc ((g, ls) :: rest) trail = (pre ++ blanks g) ++ (paraBytes ls ++ rawTail rest trail) := by
      simp [rawDoc]
    have l1 : (pre ++ blanks g).length = pre.length + g := by simp [blanks]
    have hp := paraAt_src ls (pre ++ blanks g) (rawTail rest trail) (hno (g, ls) (by simp))
    rw [l1] at hp
    have e2 : pre ++ rawDoc ((g, ls) :: rest) trail = (pre ++ blanks g ++ paraBytes ls) ++ rawTail rest trail := by
      simp [rawDoc]
    have l2 : (pre ++ blanks g ++ paraBytes ls).length = pre.length + g + (paraBytes ls).length := by
      simp [blanks]; omega
    refine ⟨by rw [show rawDoc ((g, ls) :: rest) trail = blanks g ++ (paraBytes ls ++ rawTail rest trail) from rfl]; exact hb,
      by rw [e1]; exact hp, ?_⟩
    cases rest with
    | nil =>
      cases trail with
      | zero =>
        left
        refine ⟨rfl, rfl, ?_⟩
        rw [e2]; simp [rawTail, blanks]; omega
      | succ t =>
        right
        have e3 : pre ++ rawDoc [(g, ls)] (t + 1) = (pre ++ blanks g ++ paraBytes ls) ++ (([] : Bytes) ++ 10 :: blanks t) := by
          rw [e2]; rfl
        have hl := Ln.of_append (pre ++ blanks g ++ paraBytes ls) [] (blanks t) (by simp)
        rw [l2] at hl
        have e4 : pre ++ rawDoc [(g, ls)] (t + 1) = (pre ++ blanks g ++ paraBytes ls ++ [10]) ++ rawDoc [] t := by
          rw [e2]; simp [rawTail, rawDoc]
        have hd := docAt_raw [] t (pre ++ blanks g ++ paraBytes ls ++ [10]) (by simp)
        have l3 : (pre ++ blanks g ++ paraBytes ls ++ [10]).length = pre.length + g + (paraBytes ls).length + 1 := by
          simp [blanks]; omega
        rw [l3] at hd
        refine ⟨by rw [e3]; simpa using hl, Or.inl ⟨rfl, t, rfl, by rw [e4]; exact hd⟩⟩
    | cons it rest' =>
      right
      have e3 : pre ++ rawDoc ((g, ls) :: it :: rest') trail =
          (pre ++ blanks g ++ paraBytes ls) ++ (([] : Bytes) ++ 10 :: rawDoc (it :: rest') trail) := by
        rw [e2, rawTail_cons]; rfl
      have hl := Ln.of_append (pre ++ blanks g ++ paraBytes ls) [] (rawDoc (it :: rest') trail) (by simp)
      rw [l2] at hl
      have e4 : pre ++ rawDoc ((g, ls) :: it :: rest') trail =
          (pre ++ blanks g ++ paraBytes ls ++ [10]) ++ rawDoc (it :: rest') trail := by
        rw [e2, rawTail_cons]; simp
      have hd := docAt_raw (it :: rest') trail (pre ++ blanks g ++ paraBytes ls ++ [10])
        (fun x hx => hno x (by simp [hx]))
      have l3 : (pre ++ blanks g ++ paraBytes ls ++ [10]).length = pre.length + g + (paraBytes ls).length + 1 := by
        simp [blanks]; omega
      rw [l3] at hd
      refine ⟨by rw [e3]; simpa using hl, Or.inr ⟨by simp, by rw [e4]; exact hd⟩⟩

/-! ### counting line feeds: the fuel of parseBlocks suffices -/

def nl (b : Bytes) : Nat := (b.filter (· == 10)).length

theorem nl_append (a b : Bytes) : nl (a ++ b) = nl a + nl b := by simp [nl]
theorem nl_cons10 (b : Bytes) : nl (10 :: b) = nl b + 1 := by simp [nl]
theorem nl_blanks (g : Nat) : nl (blanks g) = g := by
  induction g with
  | zero => rfl
  | succ g ih => simp only [blanks, List.replicate_succ] at ih ⊢; rw [nl_cons10, ih]
theorem nl_line (l : Bytes) (h : ∀ c ∈ l, c ≠ 10) : nl l = 0 := by
  simp only [nl, List.length_eq_zero_iff, List.filter_eq_nil_iff]
  intro c hc; simp [h c hc]
theorem nl_para : ∀ (ls : List Bytes), (∀ l ∈ ls, ∀ c ∈ l, c ≠ 10) → nl (paraBytes ls) = ls.length
  | [], _ => rfl
  | l :: rest, h => by
    have ih := nl_para rest (fun x hx => h x (by simp [hx]))
    have e : paraBytes (l :: rest) = l ++ (10 :: paraBytes rest) := by simp [paraBytes]
    rw [e, nl_append, nl_cons10, nl_line l (h l (by simp)), ih]; simp

theorem cost_le_nl : ∀ (items : List (Nat × List Bytes)) (trail : Nat),
    (∀ it ∈ items, ∀ l ∈ it.2, ∀ c ∈ l, c ≠ 10) → cost items ≤ nl (rawDoc items trail) + 1
  | [], _, _ => by simp [cost]
  | (g, ls) :: rest, trail, hno => by
    have hp := nl_para ls (hno (g, ls) (by simp))
    have hA : cost rest ≤ nl (rawTail rest trail) := by
      cases rest with
      | nil => simp [cost]
      | cons it rest' =>
        have ih := cost_le_nl (it :: rest') trail (fun x hx => hno x (by simp [hx]))
        rw [rawTail_cons, nl_cons10]; omega
    show ls.length + 1 + cost rest ≤ nl (blanks g ++ (paraBytes ls ++ rawTail rest trail)) + 1
    rw [nl_append, nl_append, nl_blanks, hp]; omega

/-- the block phase on a fragment document: the Document with one closed Paragraph per paragraph -/
theorem runT_doc (items : List (Nat × List Bytes)) (trail : Nat)
    (hgood : ∀ it ∈ items, it.2 ≠ [] ∧ ∀ l ∈ it.2, BlkLine l) :
    ∃ s' bs, runT pts (rawDoc items trail) = .ok s' ∧ bs.length = items.length ∧
      s'.nodes = addKids { kind := .document } 0 items.length :: mkParas (closedOf 0 items) bs ∧ s'.pc.refs = [] := by
  have hno : ∀ it ∈ items, ∀ l ∈ it.2, ∀ c ∈ l, c ≠ 10 := fun it hit l hl => ((hgood it hit).2 l hl).noNl
  have hd := docAt_raw items trail [] hno
  simp only [List.nil_append, List.length_nil] at hd
  have hc := cost_le_nl items trail hno
  have hf : cost items + 1 ≤ linesFuel (rawDoc items trail) := by
    simp only [linesFuel, lineCount]
    have : nl (rawDoc items trail) = (List.filter (fun x => x == 10) (rawDoc items trail)).length := rfl
    omega
  obtain ⟨s', bs, h1, h2, h3, h4⟩ :=
    blocksLoop_doc (src := rawDoc items trail) items trail 0 0 (linesFuel (rawDoc items trail)) [] { kind := .document } []
      ({ } : Ctx) hd hgood hf rfl
  refine ⟨s', bs, ?_, h2, by simpa using h3, h4⟩
  unfold runT parseBlocksT
  simp only [bind_apply, modPc_run, source_run, initSt, reader_new, rdr_source]
  simp only [h1]
  rfl

end GM.Proof.CMFrag
