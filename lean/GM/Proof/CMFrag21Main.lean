/-
  GM.Proof.CMFrag21Main — stage 21: the union fragment with all inline atoms in its rich lines; the phases composed,
  from the inline facts `F21InlG` (CMFrag21Inl).
-/
import GM.Proof.CMFrag21Defs
import GM.Proof.CMFrag13Quote
import GM.Proof.CMFragNSim
import GM.Proof.CMFragNBlocks
import GM.Proof.CMFrag16Main
import GM.Proof.CMFrag18Main

namespace GM.Proof.CMFrag
open GM GM.Text GM.Blocks GM.Spec

/-! ### the lines are good for the block phase -/

theorem fatomSrc_noNl (a : FAtom) (h : FAtomOK a) : ∀ c ∈ fatomSrc a, c ≠ 10 := by
  cases a with
  | txt bs => exact quiet_no_nl bs 0 false (h.2.1 0)
  | code bs =>
    intro c hc
    simp only [fatomSrc, List.mem_append, List.mem_cons, List.not_mem_nil, or_false] at hc
    rcases hc with (rfl | hc) | rfl
    · decide
    · exact alnum_ne_lf8 c (h.2 c hc)
    · decide
  | em bs =>
    intro c hc
    simp only [fatomSrc, List.mem_append, List.mem_cons, List.not_mem_nil, or_false] at hc
    rcases hc with (rfl | hc) | rfl
    · decide
    · exact alnum_ne_lf8 c (h.2 c hc)
    · decide
  | strong bs =>
    intro c hc
    simp only [fatomSrc, List.mem_append, List.mem_cons, List.not_mem_nil, or_false] at hc
    rcases hc with ((rfl | rfl) | hc) | (rfl | rfl)
    · decide
    · decide
    · exact alnum_ne_lf8 c (h.2 c hc)
    · decide
    · decide
  | uem bs =>
    intro c hc
    simp only [fatomSrc, List.mem_append, List.mem_cons, List.not_mem_nil, or_false] at hc
    rcases hc with (rfl | hc) | rfl
    · decide
    · exact alnum_ne_lf8 c (h.2 c hc)
    · decide
  | ustrong bs =>
    intro c hc
    simp only [fatomSrc, List.mem_append, List.mem_cons, List.not_mem_nil, or_false] at hc
    rcases hc with ((rfl | rfl) | hc) | (rfl | rfl)
    · decide
    · decide
    · exact alnum_ne_lf8 c (h.2 c hc)
    · decide
    · decide
  | link t d =>
    intro c hc
    simp only [fatomSrc, List.mem_append, List.mem_cons, List.not_mem_nil, or_false] at hc
    rcases hc with (((rfl | hc) | (rfl | rfl)) | hc) | rfl
    · decide
    · exact alnum_ne_lf8 c (h.1.2 c hc)
    · decide
    · decide
    · exact dest_ne_lf16 c (h.2.2 c hc)
    · decide
  | img t d =>
    intro c hc
    simp only [fatomSrc, List.mem_append, List.mem_cons, List.not_mem_nil, or_false] at hc
    rcases hc with ((((rfl | rfl) | hc) | (rfl | rfl)) | hc) | rfl
    · decide
    · decide
    · exact alnum_ne_lf8 c (h.1.2 c hc)
    · decide
    · decide
    · exact dest_ne_lf16 c (h.2.2 c hc)
    · decide
  | auto s r =>
    intro c hc
    simp only [fatomSrc, List.mem_append, List.mem_cons, List.not_mem_nil, or_false] at hc
    rcases hc with (((rfl | hc) | rfl) | hc) | rfl
    · decide
    · exact letter_ne_lf18 c (h.1.2.2 c hc)
    · decide
    · exact auto_ne_lf18 c (h.2.2 c hc)
    · decide
  | otag n =>
    intro c hc
    simp only [fatomSrc, List.mem_append, List.mem_cons, List.not_mem_nil, or_false] at hc
    rcases hc with (rfl | hc) | rfl
    · decide
    · exact alnum_ne_lf8 c (h.2.2 c hc)
    · decide
  | ctag n =>
    intro c hc
    simp only [fatomSrc, List.mem_append, List.mem_cons, List.not_mem_nil, or_false] at hc
    rcases hc with ((rfl | rfl) | hc) | rfl
    · decide
    · decide
    · exact alnum_ne_lf8 c (h.2.2 c hc)
    · decide

theorem flineSrc_append (a b : List FAtom) : flineSrc (a ++ b) = flineSrc a ++ flineSrc b := by
  simp [flineSrc]

theorem frichLine_first {l : List FAtom} (h : FRichLine l) :
    ∃ c t, flineSrc l = c :: t ∧ GM.Spec.CM.isLetter c = true := by
  obtain ⟨bs, rest, e, hf⟩ := h.first
  have hok := h.ok (.txt bs) (by rw [e]; simp)
  cases bs with
  | nil => exact absurd rfl hok.1
  | cons c t => exact ⟨c, t ++ flineSrc rest, by rw [e]; simp [flineSrc, fatomSrc], hf c rfl⟩

theorem frichLine_last {l : List FAtom} (h : FRichLine l) :
    ∀ c, (flineSrc l).getLast? = some c → isSpace c = false ∧ c ≠ 92 := by
  obtain ⟨init, bs, e, hl⟩ := h.last
  have hok := h.ok (.txt bs) (by rw [e]; simp)
  intro c hc
  have e2 : flineSrc l = flineSrc init ++ bs := by rw [e, flineSrc_append]; simp [flineSrc, fatomSrc]
  rw [e2, List.getLast?_append] at hc
  cases hb : bs.getLast? with
  | none => exact absurd (List.getLast?_eq_none_iff.mp hb) hok.1
  | some z =>
    rw [hb] at hc
    have hc' : z = c := by simpa using hc
    subst hc'
    exact hl z hb

theorem frichLine_noNl {l : List FAtom} (h : FRichLine l) : ∀ c ∈ flineSrc l, c ≠ 10 := by
  intro c hc
  simp only [flineSrc, List.mem_flatMap] at hc
  obtain ⟨a, ha, hca⟩ := hc
  exact fatomSrc_noNl a (h.ok a ha) c hca

/-- a rich line is good for the block phase -/
theorem frichLine_blk {l : List FAtom} (h : FRichLine l) : BlkLine (flineSrc l) :=
  ⟨frichLine_first h, fun c hc => (frichLine_last h c hc).1, frichLine_noNl h⟩

/-- … with or without the backslash of a hard break behind it -/
theorem fline_blk21 (x : FLine21) (h : FRichLine x.atoms) : BlkLine (flineSrc21 x) := by
  unfold flineSrc21
  cases hx : x.hard
  · simpa using frichLine_blk h
  · simp only [if_true]
    obtain ⟨c, t, e, hc⟩ := frichLine_first h
    refine ⟨⟨c, t ++ [92], by rw [e]; rfl, hc⟩, ?_, ?_⟩
    · intro z hz
      rw [List.getLast?_append] at hz
      have : z = 92 := by simpa using hz.symm
      subst this; decide
    · intro z hz
      rcases List.mem_append.mp hz with hz | hz
      · exact frichLine_noNl h z hz
      · have : z = 92 := by simpa using hz
        subst this; decide

/-! ### the inline facts -/

/-- contiguous form (what the composition of an unquoted document uses) -/
def F21Inl : Prop :=
  ∀ (env : GM.Inl.Env), env.escapedSpace = false → ∀ (ls : List FLine21), ls ≠ [] → FLinesOK ls → F21Restr ls →
    ParaDT env (ls.map flineSrc21) (fNodes ls)

theorem f21InlG_paraDTG (H : F21InlG) (env : GM.Inl.Env) (henv : env.escapedSpace = false) (ls : List FLine21)
    (hne : ls ≠ []) (hok : FLinesOK ls) (hr : F21Restr ls) : ParaDTG env (ls.map flineSrc21) (fNodes ls) :=
  H env henv ls hne hok hr

theorem f21Inl_of_G (H : F21InlG) : F21Inl :=
  fun env henv ls hne hok hr => paraDT_of_G (f21InlG_paraDTG H env henv ls hne hok hr)

theorem restr_single (l : List FAtom) (h : F21Restr [⟨l, false⟩]) : F21Restr [⟨l, false⟩] := h

/-! ### `docTree` per block -/

theorem flines_blk21 (ls : List FLine21) (h : FLinesOK ls) : ∀ l ∈ ls.map flineSrc21, BlkLine l := by
  intro l hl
  obtain ⟨x, hx, rfl⟩ := List.mem_map.mp hl
  exact fline_blk21 x (h.1 x hx)

theorem good5_fraw (b : FBlock21) (h : FGood b) : Good5 (fraw b) := by
  cases b with
  | para ls => exact ⟨by simpa using h.1, flines_blk21 ls h.2.1⟩
  | atx level l => exact ⟨h.1, h.2.1, frichLine_blk h.2.2.1, h.2.2.2.1⟩
  | hr x => exact good5_of _ h
  | fence fc n info ls => exact good5_of _ h
  | icode ls => exact good5_of _ h

/-- `docTree` reads the closed node of every good block of the union fragment as `fNode`; for an indented code block
    only where its lines end with line feeds (`BlockDTL`: as the last block of a source without final line feed it is
    closed as `node5E`, a case `LastNotIc` excludes) -/
theorem blockDT_f (H : F21Inl) (env : GM.Inl.Env) (henv : env.escapedSpace = false) (b : FBlock21) (h : FGood b) :
    BlockDTL env (fraw b) (fNode b) := by
  cases b with
  | para ls =>
    obtain ⟨kidsAt, h1, h2⟩ := H env henv ls h.1 h.2.1 h.2.2
    have := blockDT_para env (ls.map flineSrc21) (by simpa using h.1)
      (fun l hl => blkLine_ne (flines_blk21 ls h.2.1 l hl)) kidsAt (fNodes ls) h1 h2
    exact ⟨this.1, fun _ => this.2⟩
  | atx level l =>
    have hok : FLinesOK [⟨l, false⟩] := ⟨by simpa using h.2.2.1, by simp⟩
    have hin := H env henv [⟨l, false⟩] (by simp) hok h.2.2.2.2
    have e1 : [(⟨l, false⟩ : FLine21)].map flineSrc21 = [flineSrc l] := by simp [flineSrc21]
    rw [e1] at hin
    have := blockDT_atx env level (flineSrc l) (frichLine_blk h.2.2.1) _ hin
    exact ⟨this.1, fun _ => this.2⟩
  | hr x =>
    exact ⟨fun src p bk hpa hp => docTree_block5 env henv _ p bk h hpa hp,
      fun _ src p bk hpa => docTree_block7 env henv _ p bk h rfl hpa⟩
  | fence fc n info ls =>
    exact ⟨fun src p bk hpa hp => docTree_block5 env henv _ p bk h hpa hp,
      fun _ src p bk hpa => docTree_block7 env henv _ p bk h rfl hpa⟩
  | icode ls =>
    exact ⟨fun src p bk hpa hp => docTree_block5 env henv _ p bk h hpa hp, fun hn => Bool.noConfusion hn⟩

theorem allBlk_f (H : F21Inl) (env : GM.Inl.Env) (henv : env.escapedSpace = false) :
    ∀ (items : List (Nat × FBlock21)), (∀ it ∈ items, FGood it.2) →
    AllBlk (BlockDTL env) (items.map fun it => (it.1, fraw it.2))
      (items.map fun it => fNode it.2)
  | [], _ => trivial
  | it :: rest, h => ⟨blockDT_f H env henv it.2 (h it (by simp)), allBlk_f H env henv rest (fun x hx => h x (by simp [hx]))⟩

theorem fraw_noNl (b : FBlock21) (h : FGood b) : ∀ l ∈ lines5 (fraw b), ∀ c ∈ l, c ≠ 10 := by
  cases b with
  | para ls => exact fun l hl => (flines_blk21 ls h.2.1 l (by simpa [fraw, lines5, lines4] using hl)).noNl
  | atx level l =>
    intro x hx c hc
    simp only [fraw, lines5, lines4, List.mem_singleton] at hx
    subst hx
    simp only [List.mem_append, List.mem_replicate, List.mem_cons] at hc
    rcases hc with ⟨_, rfl⟩ | rfl | hc
    · decide
    · decide
    · exact frichLine_noNl h.2.2.1 c hc
  | hr x => exact lines5_no_nl _ h
  | fence fc n info ls => exact lines5_no_nl _ h
  | icode ls => exact lines5_no_nl _ h

theorem fraw_lastNe (b : FBlock21) (h : FGood b) : ∀ l, (lines5 (fraw b)).getLast? = some l → l ≠ [] := by
  cases b with
  | para ls => exact fun l hl => blkLine_ne (flines_blk21 ls h.2.1 l (List.mem_of_getLast? (by simpa [fraw, lines5, lines4] using hl)))
  | atx level l =>
    intro x hx
    simp only [fraw, lines5, lines4, List.getLast?_singleton, Option.some.injEq] at hx
    subst hx
    simp
  | hr x => exact lastLine_ne _ h
  | fence fc n info ls => exact lastLine_ne _ h
  | icode ls => exact lastLine_ne _ h

theorem isIcB_fraw (b : FBlock21) : isIcB (fraw b) = b.isIc := by cases b <;> rfl

theorem fraw_noic (b : FBlock21) (h : b.isIc = false) : isIcB (fraw b) = false := by rw [isIcB_fraw, h]

/-- a document without indented code blocks (what the block-quote theorems ask) -/
theorem fitems_noic (items : List (Nat × FBlock21)) (hn : ∀ it ∈ items, it.2.isIc = false) :
    ∀ it ∈ items.map (fun it => (it.1, fraw it.2)), isIcB it.2 = false := by
  intro x hx
  obtain ⟨it, hit, rfl⟩ := List.mem_map.mp hx
  exact fraw_noic it.2 (hn it hit)

/-- the model of `goldmark.Convert` on a document of good blocks of the union fragment -/
theorem convert_raw21 (H : F21Inl) (uc : List (Nat × (Bool × Bool))) (items : List (Nat × FBlock21)) (trail : Nat)
    (hgood : ∀ it ∈ items, FGood it.2) (hseps : SepsOK6 none (items.map fun it => (it.1, fraw it.2)))
    (hic : IcOK6 false (items.map fun it => (it.1, fraw it.2))) (html : Bytes)
    (hr : GM.Convert.renderDoc cmOpts (.mk .document none (items.map fun it => fNode it.2)) = .ok html) :
    GM.Convert.convertCore uc cmOpts (rawDoc6 (items.map fun it => (it.1, fraw it.2)) trail) = .ok html := by
  refine convert_raw_gen6 uc _ trail ?_ hseps hic ?_ _ html
    (fun env henv => allBlk_mono (fun _ _ h => h.1) _ _ (allBlk_f H env henv items hgood)) hr
  · intro x hx
    obtain ⟨it, hit, rfl⟩ := List.mem_map.mp hx
    exact good5_fraw it.2 (hgood it hit)
  · intro x hx
    obtain ⟨it, hit, rfl⟩ := List.mem_map.mp hx
    exact fraw_noNl it.2 (hgood it hit)

/-- … and without the final line feed (the last block not an indented code block) -/
theorem convert_raw21E (H : F21Inl) (uc : List (Nat × (Bool × Bool))) (items : List (Nat × FBlock21)) (hne : items ≠ [])
    (hgood : ∀ it ∈ items, FGood it.2) (hseps : SepsOK6 none (items.map fun it => (it.1, fraw it.2)))
    (hic : IcOK6 false (items.map fun it => (it.1, fraw it.2)))
    (hlast : LastNotIc (items.map fun it => (it.1, fraw it.2))) (html : Bytes)
    (hr : GM.Convert.renderDoc cmOpts (.mk .document none (items.map fun it => fNode it.2)) = .ok html) :
    GM.Convert.convertCore uc cmOpts (rawDoc6E (items.map fun it => (it.1, fraw it.2))) = .ok html := by
  refine convert_raw_gen7L uc _ (by simpa using hne) ?_ hseps hic hlast ?_ _ html
    (fun env henv => allBlk_f H env henv items hgood) hr
  · intro x hx
    obtain ⟨it, hit, rfl⟩ := List.mem_map.mp hx
    exact good5_fraw it.2 (hgood it hit)
  · intro x hx
    obtain ⟨it, hit, rfl⟩ := List.mem_map.mp hx
    exact ⟨lines5_ne _ (good5_fraw it.2 (hgood it hit)), fraw_lastNe it.2 (hgood it hit), fraw_noNl it.2 (hgood it hit)⟩

end GM.Proof.CMFrag
