/-
  GM.Proof.QuoteSimStats — the blank-line statistics of parseBlocks (parser.go:1032-1049, 1081-1123) in the two runs of
  the C08 simulation. Run B (the prefixed source) visits every open block one level deeper and its Blockquote at level
  0, so while both runs are in the per-line loop at line `k`
      stA = oA ++ cA,   stB = oB ++ (k, 0, false) :: cA shifted by one level
  (`CUR`), where the old parts answer every question about line `k - 1` alike, A at level `j`, B at level `j + 1`
  (`SRelOld`). Consequences: `isBlankLine (k-1) i …` in A equals `isBlankLine (k-1) (i+1) …` in B (`cur_query`) — every
  `openBlocks` call below an opened container gets the same flag; after the pass the new lists are related for line `k`
  (`srelOld_next`). Lines that A handles in the outer loop add nothing in A and one Blockquote entry in B.
-/
import GM.Model.Blocks

namespace GM.Blocks
open GM GM.Text

def shSt (e : LineStat) : LineStat := { e with level := e.level + 1 }
def bqE (k : Int) : LineStat := { lineNum := k, level := 0, isBlank := false }

def SRelOld (k : Int) (oA oB : List LineStat) : Prop :=
  ∀ j : Int, 0 ≤ j → isBlankLoop (k - 1) (j + 1) oB.reverse = isBlankLoop (k - 1) j oA.reverse

def BelowL (k : Int) (l : List LineStat) : Prop := ∀ e ∈ l, e.lineNum < k

/-- level-0 entries are not blank (and there is no negative level that is) -/
def NB0 (l : List LineStat) : Prop := ∀ e ∈ l, e.level ≤ 0 → e.isBlank = false

theorem isBlankLoop_skip (m lv : Int) (e : LineStat) (rest : List LineStat) (h1 : e.lineNum ≠ m) (h2 : ¬ e.lineNum < m) :
    isBlankLoop m lv (e :: rest) = isBlankLoop m lv rest := by
  have e1 : (e.lineNum == m) = false := by simpa using h1
  simp only [isBlankLoop, e1, Bool.false_and, Bool.false_eq_true, if_false]
  rw [if_neg h2]

theorem isBlankLoop_skip' (m lv : Int) (e : LineStat) (rest : List LineStat) (h0 : e.isBlank = false) (h1 : e.level ≠ lv)
    (h2 : ¬ e.lineNum < m) : isBlankLoop m lv (e :: rest) = isBlankLoop m lv rest := by
  have e1 : (e.level == lv) = false := by simpa using h1
  simp only [isBlankLoop, e1, h0, Bool.and_false, Bool.false_eq_true, if_false]
  rw [if_neg h2]

theorem isBlankLoop_below (m lv : Int) : ∀ (l : List LineStat), (∀ e ∈ l, e.lineNum < m) → isBlankLoop m lv l = false
  | [], _ => rfl
  | e :: rest, h => by
    have hl := h e (List.mem_cons_self ..)
    have e1 : (e.lineNum == m) = false := by
      have : e.lineNum ≠ m := by omega
      simpa using this
    simp only [isBlankLoop, e1, Bool.false_and, Bool.false_eq_true, if_false]
    rw [if_pos hl]

theorem belowL_reverse {k : Int} {l : List LineStat} (h : BelowL k l) : ∀ e ∈ l.reverse, e.lineNum < k :=
  fun e he => h e (List.mem_reverse.mp he)

/-- the same entries one level deeper answer the same, for a question one level deeper -/
theorem isBlankLoop_shift (m j : Int) : ∀ (cs restA restB : List LineStat),
    isBlankLoop m (j + 1) restB = isBlankLoop m j restA →
    isBlankLoop m (j + 1) (cs.map shSt ++ restB) = isBlankLoop m j (cs ++ restA)
  | [], _, _, h => h
  | e :: cs, restA, restB, h => by
    simp only [List.map_cons, List.cons_append]
    have ih := isBlankLoop_shift m j cs restA restB h
    have c1 : decide ((shSt e).level < j + 1) = decide (e.level < j) := by
      show decide (e.level + 1 < j + 1) = decide (e.level < j)
      exact decide_eq_decide.mpr (by constructor <;> intro _ <;> omega)
    have c2 : ((shSt e).level == j + 1) = (e.level == j) := by
      show (e.level + 1 == j + 1) = (e.level == j)
      by_cases hh : e.level = j
      · simp [hh]
      · have : e.level + 1 ≠ j + 1 := by omega
        rw [beq_eq_false_iff_ne.mpr hh, beq_eq_false_iff_ne.mpr this]
    have c3 : (shSt e).lineNum = e.lineNum := rfl
    have c4 : (shSt e).isBlank = e.isBlank := rfl
    simp only [isBlankLoop]
    rw [c1, c2, c3, c4, ih]

/-- a level-0 question finds no blank entry among entries whose level-0 entries are not blank -/
theorem isBlankLoop_nb0 (m : Int) : ∀ (l : List LineStat), (∀ e ∈ l, e.level ≤ 0 → e.isBlank = false) →
    isBlankLoop m 0 l = false
  | [], _ => rfl
  | e :: rest, h => by
    have ih := isBlankLoop_nb0 m rest (fun x hx => h x (List.mem_cons_of_mem _ hx))
    have he := h e (List.mem_cons_self ..)
    simp only [isBlankLoop]
    by_cases h1 : (e.lineNum == m && decide (e.level < 0) && e.isBlank) = true
    · simp only [Bool.and_eq_true, decide_eq_true_eq] at h1
      rw [he (by omega)] at h1; cases h1.2
    · rw [if_neg h1]
      by_cases h2 : (e.lineNum == m && e.level == 0) = true
      · rw [if_pos h2]
        simp only [Bool.and_eq_true, beq_iff_eq] at h2
        exact he (by omega)
      · rw [if_neg h2]
        split
        · rfl
        · exact ih

/-- `isBlankLine (k-1) i` on statistics whose last `i + 1` entries belong to line `k`: the question goes to the old part -/
theorem isBlankLine_cur (k i : Int) (hi : 0 ≤ i) (o c : List LineStat) (hc : c.length = i.toNat + 1)
    (hk : ∀ e ∈ c, e.lineNum = k) : isBlankLine (k - 1) i (o ++ c) = isBlankLoop (k - 1) i o.reverse := by
  unfold isBlankLine
  have hlen : (((o ++ c).length : Nat) : Int) - 1 - i = (o.length : Int) := by
    rw [List.length_append, hc]; omega
  simp only [hlen]
  rw [if_neg (by omega)]
  have e1 : ((o.length : Int) + 1).toNat = o.length + 1 := by omega
  rw [e1]
  obtain ⟨c0, cs, hcs⟩ : ∃ c0 cs, c = c0 :: cs := by
    cases c with
    | nil => simp at hc
    | cons a b => exact ⟨a, b, rfl⟩
  subst hcs
  have e2 : (o ++ c0 :: cs).take (o.length + 1) = o ++ [c0] := by
    have e3 : o ++ c0 :: cs = (o ++ [c0]) ++ cs := by simp
    rw [e3, List.take_left' (by simp)]
  rw [e2, List.reverse_append]
  simp only [List.reverse_cons, List.reverse_nil, List.nil_append, List.singleton_append]
  have hk0 := hk c0 (List.mem_cons_self ..)
  exact isBlankLoop_skip _ _ _ _ (by omega) (by omega)

/-- the invariant while both runs are in the per-line loop at line `k`, run A at index `i` -/
def CUR (k i : Int) (stA stB : List LineStat) : Prop :=
  ∃ oA oB cA, stA = oA ++ cA ∧ stB = oB ++ bqE k :: cA.map shSt ∧ cA.length = i.toNat ∧ (∀ e ∈ cA, e.lineNum = k) ∧
    SRelOld k oA oB ∧ BelowL k oA ∧ BelowL k oB ∧ NB0 oA ∧ NB0 oB ∧ (∀ e ∈ cA, e.level = 0 → e.isBlank = false) ∧
    (∀ e ∈ cA, 0 ≤ e.level)

/-- the flags the two runs compute below an opened container agree, and the invariant goes on -/
theorem cur_query {k i : Int} (hi : 0 ≤ i) {stA stB : List LineStat} (h : CUR k i stA stB) (bl : Bool)
    (hbl : i = 0 → bl = false) :
    isBlankLine (k - 1) (i + 1) (stB ++ [{ lineNum := k, level := i + 1, isBlank := bl }]) =
      isBlankLine (k - 1) i (stA ++ [{ lineNum := k, level := i, isBlank := bl }]) ∧
    CUR k (i + 1) (stA ++ [{ lineNum := k, level := i, isBlank := bl }])
      (stB ++ [{ lineNum := k, level := i + 1, isBlank := bl }]) := by
  obtain ⟨oA, oB, cA, hA, hB, hlen, hk, hrel, hbA, hbB, hnA, hnB, hn0, hlv⟩ := h
  have eA : stA ++ [({ lineNum := k, level := i, isBlank := bl } : LineStat)] =
      oA ++ (cA ++ [{ lineNum := k, level := i, isBlank := bl }]) := by rw [hA, List.append_assoc]
  have eB : stB ++ [({ lineNum := k, level := i + 1, isBlank := bl } : LineStat)] =
      oB ++ (bqE k :: (cA ++ [({ lineNum := k, level := i, isBlank := bl } : LineStat)]).map shSt) := by
    rw [hB]; simp [shSt]
  refine ⟨?_, oA, oB, cA ++ [{ lineNum := k, level := i, isBlank := bl }], eA, eB, ?_, ?_, hrel, hbA, hbB, hnA, hnB, ?_, ?_⟩
  · rw [eA, eB]
    rw [isBlankLine_cur k i hi oA _ (by simp [hlen]) (fun e he => by
      rcases List.mem_append.mp he with h | h
      · exact hk e h
      · simp only [List.mem_singleton] at h; rw [h])]
    rw [isBlankLine_cur k (i + 1) (by omega) oB _ (by simp [hlen]; omega) (fun e he => by
      rcases List.mem_cons.mp he with h | h
      · rw [h]; rfl
      · obtain ⟨x, hx, rfl⟩ := List.mem_map.mp h
        rcases List.mem_append.mp hx with h' | h'
        · exact hk x h'
        · simp only [List.mem_singleton] at h'; rw [h']; rfl)]
    exact hrel i hi
  · simp [hlen]; omega
  · intro e he
    rcases List.mem_append.mp he with h | h
    · exact hk e h
    · simp only [List.mem_singleton] at h; rw [h]
  · intro e he hl
    rcases List.mem_append.mp he with h | h
    · exact hn0 e h hl
    · simp only [List.mem_singleton] at h; rw [h] at hl ⊢; exact hbl hl
  · intro e he
    rcases List.mem_append.mp he with h | h
    · exact hlv e h
    · simp only [List.mem_singleton] at h; rw [h]; exact hi

/-- the invariant at the start of line `k` -/
structure LSt (k : Int) (stA stB : List LineStat) : Prop where
  rel : SRelOld k stA stB
  bA : BelowL k stA
  bB : BelowL k stB
  nA : NB0 stA
  nB : NB0 stB

theorem lst_zero : LSt 0 [] [] :=
  ⟨(fun _ _ => rfl), (fun _ h => by cases h), (fun _ h => by cases h), (fun _ h => by cases h), (fun _ h => by cases h)⟩

/-- entering the per-line loop at line `k`: B has visited its Blockquote -/
theorem cur_start {k : Int} {stA stB : List LineStat} (h : LSt k stA stB) : CUR k 0 stA (stB ++ [bqE k]) :=
  ⟨stA, stB, [], (by simp), (by simp), rfl, (fun _ he => by cases he), h.rel, h.bA, h.bB, h.nA, h.nB,
    (fun _ he => by cases he), (fun _ he => by cases he)⟩

theorem nb0_bq {k : Int} {l : List LineStat} (h : NB0 l) : NB0 (l ++ [bqE k]) := by
  intro e he hl
  rcases List.mem_append.mp he with h' | h'
  · exact h e h' hl
  · simp only [List.mem_singleton] at h'; rw [h']; rfl

/-- after the pass (or after a line that A handled in its outer loop: `cA = []`): the invariant for line `k + 1` -/
theorem lst_next {k i : Int} {stA stB : List LineStat} (h : CUR k i stA stB) : LSt (k + 1) stA stB := by
  obtain ⟨oA, oB, cA, hA, hB, _, hk, _, hbA, hbB, hnA, hnB, hn0, hlv⟩ := h
  subst hA hB
  refine ⟨fun j hj => ?_, ?_, ?_, ?_, ?_⟩
  · have e1 : k + 1 - 1 = k := by omega
    rw [e1]
    rw [List.reverse_append, List.reverse_append, List.reverse_cons, ← List.map_reverse, List.append_assoc]
    refine isBlankLoop_shift k j cA.reverse oA.reverse _ ?_
    rw [isBlankLoop_below k j oA.reverse (belowL_reverse hbA)]
    simp only [List.singleton_append]
    rw [isBlankLoop_skip' k (j + 1) (bqE k) oB.reverse rfl (by simp only [bqE]; omega) (by simp only [bqE]; omega)]
    exact isBlankLoop_below k (j + 1) oB.reverse (belowL_reverse hbB)
  · intro e he
    rcases List.mem_append.mp he with h | h
    · have := hbA e h; omega
    · have := hk e h; omega
  · intro e he
    rcases List.mem_append.mp he with h | h
    · have := hbB e h; omega
    · rcases List.mem_cons.mp h with h | h
      · rw [h]; simp only [bqE]; omega
      · obtain ⟨x, hx, rfl⟩ := List.mem_map.mp h
        have := hk x hx
        show x.lineNum < k + 1
        omega
  · intro e he hl
    rcases List.mem_append.mp he with h | h
    · exact hnA e h hl
    · exact hn0 e h (by have := hlv e h; omega)
  · intro e he hl
    rcases List.mem_append.mp he with h | h
    · exact hnB e h hl
    · rcases List.mem_cons.mp h with h | h
      · rw [h]; rfl
      · obtain ⟨x, hx, rfl⟩ := List.mem_map.mp h
        have := hlv x hx
        simp only [shSt] at hl
        omega

theorem lst_nil (k : Int) : LSt k [] [] :=
  ⟨(fun _ _ => rfl), (fun _ h => by cases h), (fun _ h => by cases h), (fun _ h => by cases h), (fun _ h => by cases h)⟩

/-- a level-0 question on statistics that are not empty and have no blank level-0 entry -/
theorem isBlankLine_nb0 (m : Int) (l : List LineStat) (hne : l ≠ []) (h : NB0 l) : isBlankLine m 0 l = false := by
  unfold isBlankLine
  have hl : 0 < l.length := List.length_pos_iff.mpr hne
  simp only
  rw [if_neg (by omega)]
  exact isBlankLoop_nb0 m _ (fun e he => h e (List.mem_of_mem_take (List.mem_reverse.mp he)))

theorem isBlankLine_nil (m : Int) : isBlankLine m 0 [] = true := rfl

theorem cur_ne {k j : Int} {stA stB : List LineStat} (h : CUR k j stA stB) (hj : 1 ≤ j) : stA ≠ [] := by
  obtain ⟨oA, oB, cA, hA, _, hlen, _⟩ := h
  intro e
  rw [e] at hA
  have : cA = [] := (List.append_eq_nil_iff.mp hA.symm).2
  rw [this] at hlen
  simp only [List.length_nil] at hlen
  omega

end GM.Blocks
