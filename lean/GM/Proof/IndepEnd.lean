/-
  GM.Proof.IndepEnd — C09, first half: AT THE END OF EVERY DOCUMENT THE OPEN-BLOCK STACK IS EMPTY
  (`run_opened_empty`: for every source, if the block phase ends normally, `pc.openedBlocks` is empty in its final
  state). A statement about reachable states of the whole run, for all inputs.

  Ingredients: no `Open` / `Continue` function of the ten block parsers writes `pc.openedBlocks` (generic frames
  `bpOpen_fr` / `bpContinue_fr`, for every relation that ignores the reader and the context keys); `openBlocks`
  changes the stack only when it answers `newBlocksOpened` (`openBlocks_opened`, induction over the candidate loop
  and the `goto retry` loop); a pass of the line loop that ends at the end of the source unwinds the whole stack
  (`lineLoop_eof_opened`, with `closeBlocks_unwinds`); the loop over lines ends with no block open either way
  (`linesLoop_opened`); the outer loop is entered and re-entered with no block open (`blocksLoop_opened`).
-/
import GM.Proof.IndepReset

namespace GM.Blocks
open GM GM.Text

/-! ### no `Open` / `Continue` function writes the open-block stack -/

theorem sameOpened_rd : IgnoresReader SameOpened := fun _ _ => rfl

macro "frame_so" : tactic =>
  `(tactic| (frame; all_goals first | exact modPc_fr _ (fun _ => rfl) | skip))

theorem modPc_keys {R : St → St → Prop}
    (hkeys : ∀ (f : Ctx → Ctx), (∀ pc, (f pc).opened = pc.opened) → ∀ s, R s { s with pc := f s.pc })
    (f : Ctx → Ctx) (hf : ∀ pc, (f pc).opened = pc.opened) : IFr R (modPc f) := modPc_fr f (hkeys f hf)

set_option linter.unusedSectionVars false

section so
variable {R : St → St → Prop} (hR : FrPrims R) (hrd : IgnoresReader R)
  (hkeys : ∀ (f : Ctx → Ctx), (∀ pc, (f pc).opened = pc.opened) → ∀ s, R s { s with pc := f s.pc })
include hR hrd hkeys

theorem preserveLeadingTab_fr (seg : Segment) (ind : Int) : IFr R (preserveLeadingTab seg ind) := by
  unfold preserveLeadingTab; frame

theorem paragraphOpen_fr (p : Nat) : IFr R (paragraphOpen p) := by unfold paragraphOpen; frame
theorem paragraphContinue_fr (n : Nat) : IFr R (paragraphContinue n) := by unfold paragraphContinue; frame
theorem thematicOpen_fr (p : Nat) : IFr R (thematicOpen p) := by unfold thematicOpen; frame
theorem atxOpen_fr (p : Nat) : IFr R (atxOpen p) := by unfold atxOpen; frame

theorem setextOpen_fr (p : Nat) : IFr R (setextOpen p) := by
  have := lastOpenedBlock_fr hR
  unfold setextOpen; frame
  all_goals (apply modPc_keys hkeys; intro _; rfl)

theorem codeTakeLine_fr (n : Nat) (pos padding : Int) : IFr R (codeTakeLine n pos padding) := by
  have := preserveLeadingTab_fr hR hrd hkeys
  unfold codeTakeLine; frame

theorem codeOpen_fr (p : Nat) : IFr R (codeOpen p) := by
  have := codeTakeLine_fr hR hrd hkeys
  unfold codeOpen; frame

theorem codeContinue_fr (n : Nat) : IFr R (codeContinue n) := by
  have := codeTakeLine_fr hR hrd hkeys
  unfold codeContinue; frame

theorem fencedOpen_fr (p : Nat) : IFr R (fencedOpen p) := by
  unfold fencedOpen; frame
  all_goals (apply modPc_keys hkeys; intro _; rfl)

theorem fencedContinue_fr (n : Nat) : IFr R (fencedContinue n) := by
  have := preserveLeadingTab_fr hR hrd hkeys
  unfold fencedContinue; frame

theorem blockquoteProcess_fr : IFr R blockquoteProcess := by unfold blockquoteProcess; frame

theorem blockquoteOpen_fr (p : Nat) : IFr R (blockquoteOpen p) := by
  have := blockquoteProcess_fr hR hrd hkeys
  unfold blockquoteOpen; frame

theorem blockquoteContinue_fr (n : Nat) : IFr R (blockquoteContinue n) := by
  have := blockquoteProcess_fr hR hrd hkeys
  unfold blockquoteContinue; frame

theorem lastOffset_fr (n : Nat) : IFr R (lastOffset n) := by unfold lastOffset; frame
theorem lastChildCount_fr (n : Nat) : IFr R (lastChildCount n) := by unfold lastChildCount; frame

theorem listOpen_fr (p : Nat) : IFr R (listOpen p) := by
  have := lastOpenedBlock_fr hR
  unfold listOpen; frame
  all_goals (apply modPc_keys hkeys; intro _; rfl)

theorem listContinue_fr (n : Nat) : IFr R (listContinue n) := by
  have := lastOpenedBlock_fr hR
  have := lastOffset_fr hR hrd hkeys
  have := lastChildCount_fr hR hrd hkeys
  unfold listContinue; frame
  all_goals (apply modPc_keys hkeys; intro _; rfl)

theorem listItemOpen_fr (p : Nat) : IFr R (listItemOpen p) := by
  have := lastOffset_fr hR hrd hkeys
  unfold listItemOpen; frame
  all_goals (apply modPc_keys hkeys; intro _; rfl)

theorem listItemContinue_fr (n : Nat) : IFr R (listItemContinue n) := by
  have := lastOffset_fr hR hrd hkeys
  unfold listItemContinue; frame
  all_goals (apply modPc_keys hkeys; intro _; rfl)

theorem htmlOpen_fr (p : Nat) : IFr R (htmlOpen p) := by
  have := lastOpenedBlock_fr hR
  unfold htmlOpen; frame

theorem htmlContinue_fr (n : Nat) : IFr R (htmlContinue n) := by unfold htmlContinue; frame

theorem bpOpen_fr (bp : BP) (p : Nat) : IFr R (bpOpen bp p) := by
  cases bp <;> unfold bpOpen
  · exact setextOpen_fr hR hrd hkeys p
  · exact thematicOpen_fr hR hrd hkeys p
  · exact listOpen_fr hR hrd hkeys p
  · exact listItemOpen_fr hR hrd hkeys p
  · exact codeOpen_fr hR hrd hkeys p
  · exact atxOpen_fr hR hrd hkeys p
  · exact fencedOpen_fr hR hrd hkeys p
  · exact blockquoteOpen_fr hR hrd hkeys p
  · exact htmlOpen_fr hR hrd hkeys p
  · exact paragraphOpen_fr hR hrd hkeys p

theorem bpContinue_fr (bp : BP) (n : Nat) : IFr R (bpContinue bp n) := by
  cases bp <;> unfold bpContinue
  · exact IFr.pure hR _
  · exact IFr.pure hR _
  · exact listContinue_fr hR hrd hkeys n
  · exact listItemContinue_fr hR hrd hkeys n
  · exact codeContinue_fr hR hrd hkeys n
  · exact IFr.pure hR _
  · exact fencedContinue_fr hR hrd hkeys n
  · exact blockquoteContinue_fr hR hrd hkeys n
  · exact htmlContinue_fr hR hrd hkeys n
  · exact paragraphContinue_fr hR hrd hkeys n

end so

/-! ### instances for `SameOpened` -/

theorem sameOpened_keys : ∀ (f : Ctx → Ctx), (∀ pc, (f pc).opened = pc.opened) → ∀ s, SameOpened s { s with pc := f s.pc } :=
  fun _ hf s => hf s.pc

theorem bpOpen_sameOpened (bp : BP) (p : Nat) : IFr SameOpened (bpOpen bp p) :=
  bpOpen_fr sameOpened_prims sameOpened_rd sameOpened_keys bp p

theorem bpContinue_sameOpened (bp : BP) (n : Nat) : IFr SameOpened (bpContinue bp n) :=
  bpContinue_fr sameOpened_prims sameOpened_rd sameOpened_keys bp n

/-- parser.go:960-1014: the candidate loop either reports `newBlocksOpened` or hands back the result it was given,
    with the stack untouched and without asking for a retry -/
theorem tryParsers_opened (parent : Nat) (blank cont : Bool) (w : Int) :
    ∀ (bps : List BP) (result : OpenResult) (lb : Option Block) (s : St) (x : TryOutcome × OpenResult × Option Block)
      (s' : St), tryParsers parent blank cont w bps result lb s = .ok (x, s') →
      x.2.1 = .newBlocksOpened ∨ (x.1 = .done ∧ x.2.1 = result ∧ s'.pc.opened = s.pc.opened) := by
  intro bps
  induction bps with
  | nil =>
    intro result lb s x s' h
    unfold tryParsers at h
    obtain ⟨rfl, rfl⟩ := pure_ok h
    exact .inr ⟨rfl, rfl, rfl⟩
  | cons bp bps ih =>
    intro result lb s x s' h
    unfold tryParsers at h
    split at h
    · exact ih _ _ _ _ _ (by simpa using h)
    · split at h
      · exact ih _ _ _ _ _ (by simpa using h)
      · obtain ⟨lb', s1, h1, k1⟩ := bind_ok h
        obtain ⟨_, e1⟩ := lastOpenedBlock_ok h1
        rw [e1] at k1
        obtain ⟨y, s2, h2, k2⟩ := bind_ok k1
        have ho2 : SameOpened s s2 := IFr.apply h2 (bpOpen_sameOpened bp parent)
        obtain ⟨node, state⟩ := y
        cases node with
        | none =>
          dsimp only at k2
          rcases ih _ _ _ _ _ k2 with h3 | ⟨h3, h4, h5⟩
          · exact .inl h3
          · exact .inr ⟨h3, h4, h5.trans ho2⟩
        | some node =>
          dsimp only at k2
          left
          refine Ret.apply (Q := fun x => x.2.1 = OpenResult.newBlocksOpened) k2 ?_
          ret
/-- the exit `continuable:` of openBlocks keeps the stack; it turns `noBlocksOpened` into `paragraphContinuation`
    at most -/
theorem toContinuable_opened (cont : Bool) (r : OpenResult) (lb : Option Block) (s : St) (r' : OpenResult) (s' : St)
    (h : toContinuable cont r lb s = .ok (r', s')) :
    s'.pc.opened = s.pc.opened ∧ (r' = r ∨ (r = .noBlocksOpened ∧ r' = .paragraphContinuation)) := by
  unfold toContinuable at h
  split at h
  · rename_i hc
    cases lb with
    | none =>
      dsimp only at h
      obtain ⟨u, s1, h1, _⟩ := bind_ok h
      exact (throw_ok h1).elim
    | some b =>
      dsimp only at h
      obtain ⟨st, s1, h1, k1⟩ := bind_ok h
      have ho : SameOpened s s1 := IFr.apply h1 (bpContinue_sameOpened b.bp b.node)
      have hr : r = .noBlocksOpened := by
        have : (r == OpenResult.noBlocksOpened) = true := by
          cases hrr : (r == OpenResult.noBlocksOpened) with
          | true => rfl
          | false => rw [hrr] at hc; simp at hc
        exact eq_of_beq this
      split at k1
      · obtain ⟨rfl, rfl⟩ := pure_ok k1
        exact ⟨ho, .inr ⟨hr, rfl⟩⟩
      · obtain ⟨rfl, rfl⟩ := pure_ok k1
        exact ⟨ho, .inl rfl⟩
  · obtain ⟨rfl, rfl⟩ := pure_ok h
    exact ⟨rfl, .inl rfl⟩
theorem peekLine_sameOpened : IFr SameOpened peekLine := peekLine_fr sameOpened_rd
theorem lineOffset_sameOpened : IFr SameOpened lineOffset := lineOffset_fr sameOpened_rd

/-- parser.openBlocks from the label `retry:` on: `newBlocksOpened` once reported stays, and unless it is reported
    the open-block stack is what it was -/
theorem openBlocksLoop_opened (blank cont : Bool) :
    ∀ (fuel parent : Nat) (result : OpenResult) (lb : Option Block) (s : St) (r' : OpenResult) (s' : St),
      openBlocksLoop blank cont fuel parent result lb s = .ok (r', s') →
      (result = .newBlocksOpened → r' = .newBlocksOpened) ∧
      (r' ≠ .newBlocksOpened → s'.pc.opened = s.pc.opened) := by
  intro fuel
  induction fuel with
  | zero => intro parent result lb s r' s' h; unfold openBlocksLoop at h; exact (throw_ok h).elim
  | succ fuel ih =>
    intro parent result lb s r' s' h
    unfold openBlocksLoop at h
    obtain ⟨y, s1, h1, k1⟩ := bind_ok h
    have o1 : SameOpened s s1 := IFr.apply h1 peekLine_sameOpened
    obtain ⟨line, seg⟩ := y
    dsimp only at k1
    obtain ⟨lo, s2, h2, k2⟩ := bind_ok k1
    have o2 : SameOpened s1 s2 := IFr.apply h2 lineOffset_sameOpened
    obtain ⟨u, s3, h3, k3⟩ := bind_ok k2
    have e3 := modPc_ok h3
    have o3 : s3.pc.opened = s.pc.opened := by
      rw [e3]; dsimp only; split <;> exact o2.trans o1
    -- the two exits
    have exit : ∀ (sA : St) (res : OpenResult) (l : Option Block), sA.pc.opened = s.pc.opened →
        (result = .newBlocksOpened → res = .newBlocksOpened) →
        (res ≠ .newBlocksOpened → res = result) →
        toContinuable cont res l sA = .ok (r', s') →
        (result = .newBlocksOpened → r' = .newBlocksOpened) ∧ (r' ≠ .newBlocksOpened → s'.pc.opened = s.pc.opened) := by
      intro sA res l hoA hres1 hres2 hk
      obtain ⟨ho, hr⟩ := toContinuable_opened cont res l sA r' s' hk
      refine ⟨fun hn => ?_, fun _ => ho.trans hoA⟩
      rcases hr with hr | ⟨hr1, _⟩
      · rw [hr]; exact hres1 hn
      · rw [hres1 hn] at hr1; cases hr1
    have viaTry : ∀ (bps : List BP) (sA : St), sA.pc.opened = s.pc.opened →
        (do let s0 ← get
            let __x ← tryParsers parent blank cont (indentWidthI (line.getD []) lo).1 bps result lb
            match __x.1 with
            | TryOutcome.retry parent' => do
              let s1 ← get
              if (!decide (retryMeasure s1 < retryMeasure s0)) = true then do
                throw Panic.pre
                openBlocksLoop blank cont fuel parent' __x.2.1 __x.2.2
              else openBlocksLoop blank cont fuel parent' __x.2.1 __x.2.2
            | TryOutcome.done => toContinuable cont __x.2.1 __x.2.2 : M OpenResult) sA = .ok (r', s') →
        (result = .newBlocksOpened → r' = .newBlocksOpened) ∧ (r' ≠ .newBlocksOpened → s'.pc.opened = s.pc.opened) := by
      intro bps sA hoA hk
      obtain ⟨s0, s4, h4, k4⟩ := bind_ok hk
      have e4 : s4 = sA := by cases h4; rfl
      rw [e4] at k4
      obtain ⟨x, s5, h5, k5⟩ := bind_ok k4
      have ht := tryParsers_opened parent blank cont _ bps result lb sA x s5 h5
      cases hx : x.1 with
      | done =>
        rw [hx] at k5
        dsimp only at k5
        rcases ht with ht | ⟨_, ht2, ht3⟩
        · obtain ⟨ho, hr⟩ := toContinuable_opened cont x.2.1 x.2.2 s5 r' s' k5
          have : r' = .newBlocksOpened := by
            rcases hr with hr | ⟨hr1, _⟩
            · rw [hr, ht]
            · rw [ht] at hr1; cases hr1
          exact ⟨fun _ => this, fun hne => absurd this hne⟩
        · exact exit s5 x.2.1 x.2.2 (ht3.trans hoA) (fun hn => by rw [ht2, hn]) (fun _ => ht2) k5
      | retry p' =>
        rw [hx] at k5
        dsimp only at k5
        have hnew : x.2.1 = .newBlocksOpened := by
          rcases ht with ht | ⟨ht1, _⟩
          · exact ht
          · rw [hx] at ht1; cases ht1
        obtain ⟨s6, s7, h7, k7⟩ := bind_ok k5
        have e7 : s7 = s5 := by cases h7; rfl
        rw [e7] at k7
        have hrec : openBlocksLoop blank cont fuel p' x.2.1 x.2.2 s5 = .ok (r', s') := by
          split at k7
          · obtain ⟨_, _, hthrow, _⟩ := bind_ok k7
            exact (throw_ok hthrow).elim
          · exact k7
        have := (ih p' x.2.1 x.2.2 s5 r' s' hrec).1 hnew
        exact ⟨fun _ => this, fun hne => absurd this hne⟩
    split at k3
    · exact exit s3 result lb o3 id (fun _ => rfl) k3
    · obtain ⟨c, s4, h4, k4⟩ := bind_ok k3
      obtain ⟨_, e4⟩ := liftE_ok h4
      rw [e4] at k4
      split at k4
      · exact exit s3 result lb o3 id (fun _ => rfl) k4
      · split at k4
        · obtain ⟨c', s5, h5, k5⟩ := bind_ok k4
          obtain ⟨_, e5⟩ := liftE_ok h5
          rw [e5] at k5
          obtain ⟨bps, s6, h6, k6⟩ := bind_ok k5
          obtain ⟨_, e6⟩ := pure_ok h6
          rw [e6] at k6
          exact viaTry bps s3 o3 k6
        · obtain ⟨bps, s6, h6, k6⟩ := bind_ok k4
          obtain ⟨_, e6⟩ := pure_ok h6
          rw [e6] at k6
          exact viaTry bps s3 o3 k6
/-- parser.openBlocks: unless it reports `newBlocksOpened`, the open-block stack is what it was -/
theorem openBlocks_opened (parent : Nat) (blank : Bool) (s : St) (r' : OpenResult) (s' : St)
    (h : openBlocks parent blank s = .ok (r', s')) (hne : r' ≠ .newBlocksOpened) : s'.pc.opened = s.pc.opened := by
  unfold openBlocks at h
  obtain ⟨lb, s1, h1, k1⟩ := bind_ok h
  obtain ⟨_, e1⟩ := lastOpenedBlock_ok h1
  rw [e1] at k1
  have fin : ∀ cont, (do let v ← source; openBlocksLoop blank cont (retryFuel v) parent OpenResult.noBlocksOpened lb : M OpenResult) s
      = .ok (r', s') → s'.pc.opened = s.pc.opened := by
    intro cont k2
    obtain ⟨v, s3, h3, k3⟩ := bind_ok k2
    have e3 : s3 = s := by cases h3; rfl
    rw [e3] at k3
    exact (openBlocksLoop_opened blank cont _ parent _ lb s r' s' k3).2 hne
  dsimp only at k1
  cases lb with
  | none =>
    dsimp only at k1
    obtain ⟨cont, s2, h2, k2⟩ := bind_ok k1
    obtain ⟨_, e2⟩ := pure_ok h2
    rw [e2] at k2
    exact fin cont k2
  | some b =>
    dsimp only at k1
    obtain ⟨n, s2, h2, k2⟩ := bind_ok k1
    obtain ⟨_, e2⟩ := getNode_ok h2
    rw [e2] at k2
    obtain ⟨cont, s3, h3, k3⟩ := bind_ok k2
    obtain ⟨_, e3⟩ := pure_ok h3
    rw [e3] at k3
    exact fin cont k3

/-- parser.go:1081-1123: a pass that ends at the end of the source (`return` after closeBlocks) leaves no block open -/
theorem lineLoop_eof_opened (parent : Nat) (ob : List Block) :
    ∀ (rest : List Block) (i : Int) (stats : List LineStat) (s : St) (st' : List LineStat) (s' : St),
      s.pc.opened = ob →
      lineLoop parent ob ((ob.length : Int) - 1) rest i stats s = .ok ((LineOutcome.eof, st'), s') →
      s'.pc.opened = [] := by
  intro rest
  induction rest with
  | nil =>
    intro i stats s st' s' _ h
    unfold lineLoop at h
    obtain ⟨e, _⟩ := pure_ok h
    cases e
  | cons be rest ih =>
    intro i stats s st' s' hob h
    unfold lineLoop at h
    obtain ⟨y, s1, h1, k1⟩ := bind_ok h
    have o1 : SameOpened s s1 := IFr.apply h1 peekLine_sameOpened
    obtain ⟨line, seg⟩ := y
    cases line with
    | none =>
      dsimp only at k1
      obtain ⟨u, s2, h2, k2⟩ := bind_ok k1
      have hlen : ((ob.length : Int) - 1) = ((s1.pc.opened.length : Int) - 1) := by rw [o1, hob]
      rw [hlen] at h2
      have o2 := closeBlocks_unwinds s1 s2 h2
      obtain ⟨u3, s3, h3, k3⟩ := bind_ok k2
      have e3 : s3 = { s2 with r := s2.r.advanceLine } := by cases h3; rfl
      obtain ⟨_, e4⟩ := pure_ok k3
      rw [e4, e3]; exact o2
    | some line =>
      dsimp only at k1
      obtain ⟨pos, s2, h2, k2⟩ := bind_ok k1
      have e2 : s2 = s1 := by cases h2; rfl
      rw [e2] at k2
      obtain ⟨beNode, s3, h3, k3⟩ := bind_ok k2
      obtain ⟨_, e3⟩ := getNode_ok h3
      rw [e3] at k3
      -- every path of the pass other than the recursion answers `next`
      have isNext : ∀ (m : M (LineOutcome × List LineStat)) (sA : St),
          Ret m (fun x => x.1 = LineOutcome.next) → m sA = .ok ((LineOutcome.eof, st'), s') → False := by
        intro m sA hm hk
        have := Ret.apply hk hm
        cases this
      by_cases hk : (beNode.kind != Kind.paragraph) = true
      · rw [hk] at k3
        simp only [if_true] at k3
        obtain ⟨st, s4, h4, k4⟩ := bind_ok k3
        have o4 : SameOpened s1 s4 := IFr.apply h4 (bpContinue_sameOpened be.bp be.node)
        by_cases hc : st.cont = true
        · rw [hc] at k4
          simp only [if_true] at k4
          split at k4
          · exact (isNext _ _ (by ret) k4).elim
          · simp only [Bool.not_false, if_true] at k4
            exact ih _ _ s4 st' s' ((o4.trans o1).trans hob) k4
        · have hc' : st.cont = false := by simpa using hc
          rw [hc'] at k4
          simp only [Bool.false_eq_true, if_false, Bool.not_true] at k4
          exact (isNext _ _ (by ret) k4).elim
      · have hk' : (beNode.kind != Kind.paragraph) = false := by simpa using hk
        rw [hk'] at k3
        simp only [Bool.false_eq_true, if_false, Bool.not_true] at k3
        exact (isNext _ _ (by ret) k3).elim
/-- parser.go:1074-1126: however the loop over lines ends — no block left, or end of the source — no block is open -/
theorem linesLoop_opened (parent : Nat) :
    ∀ (fuel : Nat) (stats : List LineStat) (s : St) (x : Bool × List LineStat) (s' : St),
      linesLoop parent fuel stats s = .ok (x, s') → s'.pc.opened = [] := by
  intro fuel
  induction fuel with
  | zero => intro stats s x s' h; unfold linesLoop at h; exact (throw_ok h).elim
  | succ fuel ih =>
    intro stats s x s' h
    unfold linesLoop at h
    obtain ⟨pc, s1, h1, k1⟩ := bind_ok h
    obtain ⟨epc, e1⟩ := getPc_ok h1
    rw [e1, epc] at k1
    dsimp only at k1
    split at k1
    · rename_i hl0
      obtain ⟨_, e2⟩ := pure_ok k1
      rw [e2]
      exact List.eq_nil_of_length_eq_zero (by simpa using hl0)
    · obtain ⟨y, s2, h2, k2⟩ := bind_ok k1
      obtain ⟨out, st2⟩ := y
      cases out with
      | eof =>
        dsimp only at k2
        obtain ⟨_, e3⟩ := pure_ok k2
        rw [e3]
        exact lineLoop_eof_opened parent s.pc.opened s.pc.opened 0 stats s st2 s2 rfl h2
      | next =>
        dsimp only at k2
        obtain ⟨u, s3, h3, k3⟩ := bind_ok k2
        exact ih _ _ _ _ k3

theorem skipBlankLinesR_sameOpened : IFr SameOpened skipBlankLinesR :=
  reader_fr sameOpened_rd (fun r => skipBlankLines readerOps (loopFuel r.source) 0 r) id

/-- parser.go:1055-1127: the outer loop of parseBlocks, entered with no block open, ends with no block open -/
theorem blocksLoop_opened (parent : Nat) :
    ∀ (fuel : Nat) (stats : List LineStat) (s s' : St), s.pc.opened = [] →
      blocksLoop parent fuel stats s = .ok ((), s') → s'.pc.opened = [] := by
  intro fuel
  induction fuel with
  | zero => intro stats s s' _ h; unfold blocksLoop at h; exact (throw_ok h).elim
  | succ fuel ih =>
    intro stats s s' hop h
    unfold blocksLoop at h
    obtain ⟨x, s1, h1, k1⟩ := bind_ok h
    have o1 : SameOpened s s1 := IFr.apply h1 skipBlankLinesR_sameOpened
    obtain ⟨seg, lines, ok⟩ := x
    dsimp only at k1
    split at k1
    · obtain ⟨_, e⟩ := pure_ok k1
      rw [e]; exact o1.trans hop
    · obtain ⟨pos, s2, h2, k2⟩ := bind_ok k1
      have e2 : s2 = s1 := by cases h2; rfl
      rw [e2] at k2
      obtain ⟨pc, s3, h3, k3⟩ := bind_ok k2
      obtain ⟨_, e3⟩ := getPc_ok h3
      rw [e3] at k3
      obtain ⟨res, s4, h4, k4⟩ := bind_ok k3
      split at k4
      · rename_i hres
        obtain ⟨_, e⟩ := pure_ok k4
        rw [e]
        have : res ≠ .newBlocksOpened := by simpa using hres
        exact (openBlocks_opened parent _ s1 res s4 h4 this).trans (o1.trans hop)
      · obtain ⟨u, s5, h5, k5⟩ := bind_ok k4
        obtain ⟨y, s6, h6, k6⟩ := bind_ok k5
        have o6 := linesLoop_opened parent fuel _ s5 y s6 h6
        obtain ⟨ret, st6⟩ := y
        dsimp only at k6
        split at k6
        · obtain ⟨_, e⟩ := pure_ok k6
          rw [e]; exact o6
        · exact ih _ _ _ o6 k6

/-- **At the end of every document the open-block stack is empty**: for EVERY source, if the block phase ends
    normally, no block is open in its final state. -/
theorem run_opened_empty (src : Bytes) (s : St) (h : run src = .ok s) : s.pc.opened = [] := by
  unfold run at h
  cases hp : parseBlocks 0 (initSt src) with
  | error e => rw [hp] at h; cases h
  | ok p =>
    rw [hp] at h
    simp only [Except.map] at h
    cases h
    obtain ⟨u, s1⟩ := p
    unfold parseBlocks at hp
    obtain ⟨u1, s2, h2, k2⟩ := bind_ok hp
    have e2 := modPc_ok h2
    obtain ⟨v, s3, h3, k3⟩ := bind_ok k2
    have e3 : s3 = s2 := by cases h3; rfl
    rw [e3] at k3
    exact blocksLoop_opened 0 _ [] s2 s1 (by rw [e2]) k3
end GM.Blocks
