/-
  GM.Proof.CMFragSpec21 — the stage-21 fragment (the union with ALL inline atoms) of GM.Spec.CMFrag inside the spec model
  GM.Spec.CommonMark:
  * `expectedF21_eq_expected`: the prescribed HTML of a stage-21 document is `expected` of the embedded document
    (`f21embed`); `expectedF21E_eq_expected`: the same for `f21embedE` (no final line ending).
  The per-atom facts are the ones of the stages (`render_expI_atom11/16/17/18/19/20`); the restriction `f21restrS` is not
  needed here (stated for the wide blocks `f21blockOKW`).
  The source relation `spellF21 d = spell (f21embed d)` is evaluated by the tie (`cmfrag spec f21gen|f21enum|f21wgen|…`).
-/
import GM.Proof.CMFragSpec13
import GM.Proof.CMFragSpec16
import GM.Proof.CMFragSpec17
import GM.Proof.CMFragSpec18
import GM.Proof.CMFragSpec19
import GM.Proof.CMFragSpec20
namespace GM.Proof.CMFrag
open GM GM.Spec.CM GM.Spec.CMFrag

/-! ### F1: prescribed HTML -/

theorem render_expI_atom21 (a : FAtomS) (h : f21atomOKS a = true) :
    render (expI (f21embedAtom a)) = expFAtom a := by
  cases a with
  | txt cs => exact render_expI_atom11 (.txt cs)
  | code c => exact render_expI_atom11 (.code c)
  | em c => exact render_expI_atom11 (.em c)
  | strong c => exact render_expI_atom11 (.strong c)
  | uem c => exact render_expI_atom20 (.em c)
  | ustrong c => exact render_expI_atom20 (.strong c)
  | link t d => exact render_expI_atom16 (.link t d) h
  | img t d => exact render_expI_atom17 (.img t d) h
  | auto s r => exact render_expI_atom18 (.auto s r) h
  | otag n => exact render_expI_atom19 (.open n) h
  | ctag n => exact render_expI_atom19 (.close n) h

theorem render_expIs_line21 (l : List FAtomS) (h : ∀ a ∈ l, f21atomOKS a = true) :
    render (expIs (l.map f21embedAtom)) = expFLineA l := by
  induction l with
  | nil => simp [expIs, render, expFLineA]
  | cons a rest ih =>
    rw [List.map_cons, expIs, render_append, ih (fun x hx => h x (by simp [hx])),
      render_expI_atom21 a (h a (by simp))]
    simp [expFLineA]

theorem render_expIs_f21embedLines (ls : List FLineS21) (h : ∀ x ∈ ls, ∀ a ∈ x.atoms, f21atomOKS a = true) :
    render (expIs (f21embedLines ls)) = expFLines21 ls := by
  induction ls with
  | nil => simp [f21embedLines, expIs, render, expFLines21]
  | cons x rest ih =>
    cases rest with
    | nil => simp [f21embedLines, expFLines21, render_expIs_line21 x.atoms (h x (by simp))]
    | cons y rest =>
      have hx := render_expIs_line21 x.atoms (h x (by simp))
      obtain ⟨atoms, hard⟩ := x
      have e : f21embedLines (⟨atoms, hard⟩ :: y :: rest) =
          atoms.map f21embedAtom ++ (if hard then .hardBreak true 0 else .softBreak) :: f21embedLines (y :: rest) := rfl
      have e2 : expFLines21 (⟨atoms, hard⟩ :: y :: rest) =
          expFLineA atoms ++ (if hard then strBytes "<br />\n" else [10]) ++ expFLines21 (y :: rest) := rfl
      rw [e, e2, expIs_append11, render_append, hx, expIs, render_append, ih (fun z hz => h z (by simp [hz]))]
      have hbr : strBytes "<br />\n" = [60] ++ strBytes "br" ++ strBytes " />" ++ [10] := by decide +kernel
      cases hard
      · simp [expI, render, renderPiece, nl]
      · rw [if_pos rfl, if_pos rfl, hbr]
        simp [expI, render, renderPiece, nl]

theorem render_expB_fpara21 (a : Bool) (ls : List FLineS21) (h : ∀ x ∈ ls, ∀ b ∈ x.atoms, f21atomOKS b = true) :
    render (expB false false (.para { abut := a } (f21embedLines ls) 0)) = expFBlock21 (.para ls) := by
  rw [expB]
  simp only [wrap, Bool.false_eq_true, if_false, List.cons_append]
  have h1 : strBytes "<p>" = [60] ++ strBytes "p" ++ [62] := by decide +kernel
  have h2 : strBytes "</p>\n" = [60, 47] ++ strBytes "p" ++ [62] ++ [10] := by decide +kernel
  rw [expFBlock21, h1, h2, ← render_expIs_f21embedLines ls h]
  simp [render, renderPiece, nl]

theorem render_expB_fheading21 (a : Bool) (level : Nat) (text : List FAtomS) (hl1 : 1 ≤ level) (hl6 : level ≤ 6)
    (h : ∀ b ∈ text, f21atomOKS b = true) :
    render (expB false false (.heading { abut := a } level false 0 0 (text.map f21embedAtom))) =
      expFBlock21 (.heading level text) := by
  rw [expB, expFBlock21, decStr_level4 level hl1 hl6, ← render_expIs_line21 text h]
  have h1 : strBytes "<h" = [60, 104] := by decide +kernel
  have h2 : strBytes "</h" = [60, 47, 104] := by decide +kernel
  have h3 : strBytes ">\n" = [62, 10] := by decide +kernel
  rw [h1, h2, h3]
  simp [wrap, render, renderPiece, nl]

theorem f21lineOKS_atoms_s21 (l : List FAtomS) (h : f21lineOKS l = true) : ∀ a ∈ l, f21atomOKS a = true := by
  simp only [f21lineOKS, Bool.and_eq_true, List.all_eq_true] at h
  exact h.1.2

/-- one block, without the restriction `f21restrS` -/
theorem render_expB_f21embedW (a : Bool) (b : FBlockS21) (hok : f21blockOKW b = true) :
    render (expB false false (f21embedBlock a b)) = expFBlock21 b := by
  cases b with
  | para lines =>
    simp only [f21blockOKW, Bool.and_eq_true, List.all_eq_true] at hok
    exact render_expB_fpara21 a lines (fun x hx => f21lineOKS_atoms_s21 x.atoms (hok.1.2 x hx))
  | heading level text =>
    simp only [f21blockOKW, Bool.and_eq_true, decide_eq_true_eq] at hok
    exact render_expB_fheading21 a level text hok.1.1 hok.1.2 (f21lineOKS_atoms_s21 text hok.2)
  | thematic c n => exact render_expB_uembed13 a (.thematic c n) rfl
  | fcode tilde n info lines => exact render_expB_uembed13 a (.fcode tilde n info lines) hok
  | icode lines => exact render_expB_uembed13 a (.icode lines) hok

theorem f21blockOKW_of (b : FBlockS21) (h : f21blockOKS b = true) : f21blockOKW b = true := by
  cases b with
  | para lines =>
    simp only [f21blockOKS, Bool.and_eq_true] at h
    simp only [f21blockOKW, Bool.and_eq_true]
    exact h.1
  | heading level text =>
    simp only [f21blockOKS, Bool.and_eq_true] at h
    simp only [f21blockOKW, Bool.and_eq_true]
    exact h.1
  | thematic c n => rfl
  | fcode tilde n info lines => exact h
  | icode lines => exact h

theorem render_expBs_f21embedW (its : List F21Item) (hok : ∀ it ∈ its, f21blockOKW it.block = true) :
    render (expBs false false (its.map fun it => f21embedBlock (it.sep == 0) it.block)) =
      its.flatMap fun it => expFBlock21 it.block := by
  induction its with
  | nil => simp [expBs, render]
  | cons it rest ih =>
    rw [List.map_cons, expBs, render_append, ih (fun x hx => hok x (by simp [hx])), List.flatMap_cons,
      Bool.false_and, render_expB_f21embedW _ it.block (hok it (by simp))]

/-- F1 for the wide class (no restriction) -/
theorem expectedF21_eq_expectedW (d : F21Doc) (h : f21fragWB d = true) : expectedF21 d = expected (f21embed d) := by
  simp only [f21fragWB, Bool.and_eq_true, List.all_eq_true] at h
  rw [expected, expectedPieces, f21embed, expectedF21, render_expBs_f21embedW d.items h.1]

theorem f21frag_okS21 (d : F21Doc) (h : F21Frag d) :
    (∀ it ∈ d.items, f21blockOKS it.block = true) ∧ f21sepsOK none d.items = true := by
  have := h
  simp only [F21Frag, f21fragB, Bool.and_eq_true, List.all_eq_true] at this
  exact this

theorem f21fragW_of (d : F21Doc) (h : F21Frag d) : f21fragWB d = true := by
  obtain ⟨hok, hs⟩ := f21frag_okS21 d h
  simp only [f21fragWB, Bool.and_eq_true, List.all_eq_true]
  exact ⟨fun it hit => f21blockOKW_of it.block (hok it hit), hs⟩

/-- F1: the stage-21 prescribed HTML is `expected` of the spec model on the embedded document -/
theorem expectedF21_eq_expected (d : F21Doc) (h : F21Frag d) : expectedF21 d = expected (f21embed d) :=
  expectedF21_eq_expectedW d (f21fragW_of d h)

theorem f21fragE_partsS21 (d : F21Doc) (h : F21FragE d) : F21Frag d ∧ d.trail = 0 ∧ d.items ≠ [] := by
  have := h
  simp only [F21FragE, f21fragEB, Bool.and_eq_true, beq_iff_eq, Bool.not_eq_true', List.isEmpty_eq_false_iff] at this
  exact ⟨this.1.1.1, this.1.1.2, this.1.2⟩

/-- FE1 -/
theorem expectedF21E_eq_expected (d : F21Doc) (h : F21FragE d) : expectedF21 d = expected (f21embedE d) := by
  have e : expected (f21embedE d) = expected (f21embed d) := rfl
  rw [e, expectedF21_eq_expected d (f21fragE_partsS21 d h).1]

end GM.Proof.CMFrag
