/-
  GM.Proof.BlocksTNP5 — the whole block phase WITH paragraph transformers ends normally or with the transformers' guard
  error, for sources in which no byte triggers the setext heading, list or list item parser (`SetextListFree`):
  `runT_total_base`. On such sources `requireParaT` is never entered, `.retryTransformed` is never answered (contract
  monitor (2) of `retryStepT` cannot fire; monitor (1) is kept as in GM.Proof.BlocksDriver), and the transformers run from
  `closeBlocksT` only. Assembly of GM.Proof.BlocksTNP1/2/4 (base layer, no list invariant) with the parser contracts of
  GM.Proof.BlocksNoPanic and the termination theorem `runT_noLoop` of GM.Proof.BlocksT.
-/
import GM.Proof.BlocksTNP4
import GM.Proof.BlocksNoPanic
import GM.Proof.BlocksT

namespace GM.Blocks.T
open GM GM.Text GM.Spec GM.Proof.Reader

/-- the parsers other than setext heading, list and list item -/
def NotSL (bp : BP) : Prop := bp ≠ .setext ∧ bp ≠ .list ∧ bp ≠ .listItem

/-- no byte of the source triggers `setextHeadingParser` / `listParser` / `listItemParser`: no `-` `=` `*` `+`, no digit -/
def SetextListFree (src : Bytes) : Prop := ∀ b ∈ src, b ≠ 45 ∧ b ≠ 61 ∧ b ≠ 42 ∧ b ≠ 43 ∧ isNumeric b = false

instance (src : Bytes) : Decidable (SetextListFree src) := by unfold SetextListFree; infer_instance

theorem specs_notSL (src : Bytes) : Specs src NotSL where
  opn := fun bp h => (specs_notList src).opn bp ⟨h.2.1, h.2.2⟩
  cont := fun bp h => (specs_notList src).cont bp ⟨h.2.1, h.2.2⟩
  close := fun bp h => (specs_notList src).close bp ⟨h.2.1, h.2.2⟩
  paraCont := fun h => (specs_notList src).paraCont ⟨h.2.1, h.2.2⟩

theorem free_notSL : ∀ bp ∈ freeParsers, NotSL bp := by
  intro bp hbp
  simp [freeParsers] at hbp
  rcases hbp with h | h <;> subst h <;> unfold NotSL <;> decide

theorem triggered_notSL (src : Bytes) (hsrc : SetextListFree src) :
    ∀ ch ∈ src, ∀ bps, triggered ch = some bps → ∀ bp ∈ bps, NotSL bp := by
  intro ch hch bps htr bp hbp
  obtain ⟨h1, h0, h2, h3, h4⟩ := hsrc ch hch
  unfold triggered at htr
  have e1 : (ch == 45) = false := by simpa using h1
  have e0 : (ch == 61) = false := by simpa using h0
  have e2 : (ch == 42) = false := by simpa using h2
  have e3 : (ch == 43) = false := by simpa using h3
  simp only [e1, e0, e2, e3, h4, Bool.false_eq_true, if_false, Bool.or_self] at htr
  unfold NotSL
  repeat' split at htr
  all_goals first
    | (cases htr; simp [freeParsers] at hbp; rcases hbp with h | h | h <;> subst h <;> decide)
    | (cases htr; simp [freeParsers] at hbp; rcases hbp with h | h <;> subst h <;> decide)
    | cases htr

/-- **the block phase with paragraph transformers** on a source without setext / list triggers: it returns a tree all of
    whose line segments lie inside the source, or the transformers' run-time guard answered `e`. No Go panic of the driver
    or the block parsers, no fuel exhaustion, neither contract monitor of `retryStepT` fires. -/
theorem runT_total_base (src : Bytes) (e : Panic) (pts : List PT) (hs : PTsSpec src e pts) (hl : PTsOK pts)
    (hsrc : SetextListFree src) :
    (∃ s, runT pts src = .ok s ∧ NodesOK src s) ∨ runT pts src = .error e := by
  rcases runT_oke (specs_notSL src) hs (fun h => h.1 rfl) (triggered_notSL src hsrc) free_notSL with h | h | h
  · exact .inl h
  · exact absurd h (runT_noLoop hl src)
  · exact .inr h

end GM.Blocks.T
