/-
  GM.Proof.LinkRef — util.ToLinkReference (model GM.toLinkReference): normal form, idempotence,
  whitespace and case insensitivity.
-/
import GM.Model.Util
import GM.Proof.CaseFold

namespace GM.Proof
open GM

/-- ReplaceSpaces' rewriting loop with a space as the replacement -/
abbrev rsa (l : Bytes) : Bytes := replaceSpacesAll 32 l

/-! ### byte facts -/

theorem space_class : ∀ c : UInt8, isSpace c = true →
    c < 181 ∧ upperByte c = false ∧ isCont c = false ∧ isTrimSpace c = true := by
  apply forall_uint8; decide +kernel

theorem sp32 : isSpace 32 = true ∧ isTrimSpace 32 = true ∧ isCont 32 = false ∧ (32 : UInt8) < 181 ∧ upperByte 32 = false := by
  decide

/-! ### replaceSpacesAll -/

theorem rsa_nil : rsa [] = [] := by simp [rsa, replaceSpacesAll]

theorem rsa_ns {c : UInt8} (cs : Bytes) (h : isSpace c = false) : rsa (c :: cs) = c :: rsa cs := by
  simp only [rsa]; rw [replaceSpacesAll]; simp [h]

theorem rsa_sp {c : UInt8} (cs : Bytes) (h : isSpace c = true) :
    rsa (c :: cs) = 32 :: rsa (cs.dropWhile isSpace) := by
  simp only [rsa]; rw [replaceSpacesAll]; simp [h]

theorem tw_rsa (l : Bytes) : (rsa l).takeWhile isCont = l.takeWhile isCont := by
  induction l with
  | nil => rw [rsa_nil]
  | cons c cs ih =>
    by_cases hc : isCont c = true
    · have := (cont_class c hc).2.1
      rw [rsa_ns cs this]; simp [List.takeWhile, hc, ih]
    · have hc' : isCont c = false := by simpa using hc
      by_cases hs : isSpace c = true
      · rw [rsa_sp cs hs]; simp [List.takeWhile, hc', sp32.2.2.1]
      · have hs' : isSpace c = false := by simpa using hs
        rw [rsa_ns cs hs']; simp [List.takeWhile, hc']

theorem rsa_drop_conts (k : Nat) : ∀ (cs : Bytes), k ≤ (cs.takeWhile isCont).length →
    (rsa cs).drop k = rsa (cs.drop k) := by
  induction k with
  | zero => intro cs _; rfl
  | succ k ih =>
    intro cs h
    cases cs with
    | nil => simp at h
    | cons c cs =>
      by_cases hc : isCont c = true
      · rw [rsa_ns cs (cont_class c hc).2.1]
        simp only [List.takeWhile, hc, List.length_cons] at h
        simp only [List.drop_succ_cons]
        exact ih cs (by omega)
      · have hc' : isCont c = false := by simpa using hc
        simp [List.takeWhile, hc'] at h

theorem rsa_append_ns (x l : Bytes) (h : x.all (fun b => !isSpace b) = true) : rsa (x ++ l) = x ++ rsa l := by
  induction x with
  | nil => rfl
  | cons c x ih =>
    simp only [List.all_cons, Bool.and_eq_true, Bool.not_eq_true'] at h
    rw [List.cons_append, rsa_ns _ h.1, ih h.2]; rfl

theorem dropWhile_all {p : UInt8 → Bool} (w l : Bytes) (h : w.all p = true) :
    (w ++ l).dropWhile p = l.dropWhile p := by
  induction w with
  | nil => rfl
  | cons c w ih =>
    simp only [List.all_cons, Bool.and_eq_true] at h
    simp [List.dropWhile, h.1, ih h.2]

theorem dropWhile_append_stop {p : UInt8 → Bool} (x : Bytes) (y : UInt8) (ys : Bytes) (h : p y = false) :
    (x ++ y :: ys).dropWhile p = x.dropWhile p ++ y :: ys := by
  induction x with
  | nil => simp [List.dropWhile, h]
  | cons c x ih =>
    by_cases hc : p c = true
    · simp [List.dropWhile, hc, ih]
    · have hc' : p c = false := by simpa using hc
      simp [List.dropWhile, hc']

theorem dropWhile_length_le (p : UInt8 → Bool) (l : Bytes) : (l.dropWhile p).length ≤ l.length :=
  length_dropWhile_le p l

/-! ### caseFold commutes with replaceSpacesAll -/

theorem dw_caseFold (cs : Bytes) : (caseFold cs).dropWhile isSpace = caseFold (cs.dropWhile isSpace) := by
  induction cs with
  | nil => simp [caseFold]
  | cons c cs ih =>
    by_cases hs : isSpace c = true
    · obtain ⟨h1, h2, _, _⟩ := space_class c hs
      rw [cf_lt cs h1, h2]
      simp [List.dropWhile, hs, ih]
    · have hs' : isSpace c = false := by simpa using hs
      obtain ⟨h, t, heq, _, _, h3⟩ := caseFold_head c cs
      have : (c :: cs).dropWhile isSpace = c :: cs := by simp [List.dropWhile, hs']
      rw [this, heq]
      simp [List.dropWhile, h3, hs']

theorem cf_space (cs : Bytes) : caseFold (32 :: cs) = 32 :: caseFold cs := by
  rw [cf_lt cs sp32.2.2.2.1, sp32.2.2.2.2]; rfl

theorem cf_rsa (n : Nat) : ∀ l : Bytes, l.length ≤ n → caseFold (rsa l) = rsa (caseFold l) := by
  induction n with
  | zero =>
    intro l h
    have : l = [] := List.length_eq_zero_iff.mp (by omega)
    subst this; simp [rsa_nil, caseFold]
  | succ n ih =>
    intro l h
    cases l with
    | nil => simp [rsa_nil, caseFold]
    | cons c cs =>
      simp only [List.length_cons] at h
      have hcs : cs.length ≤ n := by omega
      by_cases hs : isSpace c = true
      · obtain ⟨h1, h2, _, _⟩ := space_class c hs
        rw [rsa_sp cs hs, cf_space, cf_lt cs h1, h2]
        simp only [Bool.false_eq_true, if_false]
        rw [rsa_sp _ hs, dw_caseFold, ih _ (by have := dropWhile_length_le isSpace cs; omega)]
      · have hs' : isSpace c = false := by simpa using hs
        rw [rsa_ns cs hs']
        by_cases hlt : c < 181
        · obtain ⟨_, _, k3⟩ := lower_class c hlt
          rw [cf_lt _ hlt, cf_lt _ hlt, rsa_ns _ (by rw [k3]; exact hs'), ih cs hcs]
        · by_cases hc : isCont c = true
          · rw [cf_cont _ hc, cf_cont _ hc, rsa_ns _ hs', ih cs hcs]
          · have hc' : isCont c = false := by simpa using hc
            have hdec : decodeRune (c :: rsa cs) = decodeRune (c :: cs) := decodeRune_congr c (tw_rsa cs)
            by_cases hd : (decodeRune (c :: cs)).1 = runeError
            · rw [cf_keep _ hlt hc' (Or.inl (by rw [hdec]; exact hd)), cf_keep _ hlt hc' (Or.inl hd),
                rsa_ns _ hs', ih cs hcs]
            · cases hf : lookupFold (decodeRune (c :: cs)).1 with
              | none =>
                rw [cf_keep _ hlt hc' (Or.inr (by rw [hdec]; exact hf)), cf_keep _ hlt hc' (Or.inr hf),
                  rsa_ns _ hs', ih cs hcs]
              | some f =>
                rw [cf_fold _ hlt hc' (by rw [hdec]; exact hd) (by rw [hdec]; exact hf), hdec,
                  cf_fold _ hlt hc' hd hf]
                obtain ⟨_, _, _, _, hall⟩ := encs_head hf
                have hns : (f.flatMap encodeRune).all (fun b => !isSpace b) = true := by
                  rw [List.all_eq_true] at hall ⊢
                  intro b hb
                  have := hall b hb
                  simp only [Bool.not_eq_true'] at this ⊢
                  exact trim_space b this
                rw [rsa_append_ns _ _ hns, rsa_drop_conts _ _ (decodeRune_width c cs),
                  ih _ (by simp only [List.length_drop]; omega)]

theorem caseFold_rsa (l : Bytes) : caseFold (rsa l) = rsa (caseFold l) := cf_rsa l.length l (Nat.le_refl _)

/-! ### first / last byte is a trim-space byte -/

def headTS : Bytes → Bool
  | [] => false
  | c :: _ => isTrimSpace c

def lastTS : Bytes → Bool
  | [] => false
  | [c] => isTrimSpace c
  | _ :: d :: r => lastTS (d :: r)

theorem lastTS_cons (c : UInt8) (l : Bytes) : lastTS (c :: l) = if l = [] then isTrimSpace c else lastTS l := by
  cases l <;> simp [lastTS]

theorem lastTS_append (x y : Bytes) : lastTS (x ++ y) = if y = [] then lastTS x else lastTS y := by
  induction x with
  | nil => cases y <;> simp [lastTS]
  | cons c x ih =>
    rw [List.cons_append, lastTS_cons, ih, lastTS_cons]
    by_cases hy : y = []
    · subst hy; simp
    · simp [hy]

theorem lastTS_reverse (l : Bytes) : lastTS l = headTS l.reverse := by
  induction l with
  | nil => rfl
  | cons c l ih =>
    rw [lastTS_cons, List.reverse_cons]
    cases h : l.reverse with
    | nil =>
      have : l = [] := by simpa using h
      subst this; simp [headTS]
    | cons d r =>
      have : l ≠ [] := by intro hl; subst hl; simp at h
      simp only [this, if_false, ih, h, List.cons_append, headTS]

theorem lastTS_all (l : Bytes) (h : l.all (fun b => !isTrimSpace b) = true) : lastTS l = false := by
  induction l with
  | nil => rfl
  | cons c l ih =>
    simp only [List.all_cons, Bool.and_eq_true, Bool.not_eq_true'] at h
    rw [lastTS_cons]; split
    · exact h.1
    · exact ih h.2

theorem lastTS_drop (l : Bytes) (k : Nat) (h : l.drop k ≠ []) : lastTS (l.drop k) = lastTS l := by
  induction k generalizing l with
  | zero => rfl
  | succ k ih =>
    cases l with
    | nil => simp at h
    | cons c l =>
      simp only [List.drop_succ_cons] at h ⊢
      rw [ih l h, lastTS_cons]
      have : l ≠ [] := by intro hl; subst hl; simp at h
      simp [this]

theorem lastTS_dropWhile (p : UInt8 → Bool) (l : Bytes) (h : l.dropWhile p ≠ []) :
    lastTS (l.dropWhile p) = lastTS l := by
  induction l with
  | nil => rfl
  | cons c l ih =>
    by_cases hc : p c = true
    · simp only [List.dropWhile, hc] at h ⊢
      rw [ih h, lastTS_cons]
      have : l ≠ [] := by intro hl; subst hl; simp at h
      simp [this]
    · have hc' : p c = false := by simpa using hc
      simp [List.dropWhile, hc']

theorem headTS_dropWhile (l : Bytes) : headTS (l.dropWhile isTrimSpace) = false := by
  induction l with
  | nil => rfl
  | cons c l ih =>
    by_cases hc : isTrimSpace c = true
    · simp [List.dropWhile, hc, ih]
    · have hc' : isTrimSpace c = false := by simpa using hc
      simp [List.dropWhile, hc', headTS]

theorem dropWhile_headTS (l : Bytes) (h : headTS l = false) : l.dropWhile isTrimSpace = l := by
  cases l with
  | nil => rfl
  | cons c l => simp only [headTS] at h; simp [List.dropWhile, h]

theorem caseFold_ne_nil (c : UInt8) (cs : Bytes) : caseFold (c :: cs) ≠ [] := by
  obtain ⟨h, t, heq, _⟩ := caseFold_head c cs
  rw [heq]; simp

theorem caseFold_eq_nil {l : Bytes} (h : caseFold l = []) : l = [] := by
  cases l with
  | nil => rfl
  | cons c cs => exact absurd h (caseFold_ne_nil c cs)

theorem headTS_caseFold (l : Bytes) : headTS (caseFold l) = headTS l := by
  cases l with
  | nil => simp [caseFold]
  | cons c cs =>
    obtain ⟨h, t, heq, _, h2, _⟩ := caseFold_head c cs
    rw [heq]; exact h2

theorem all_cont_take (cs : Bytes) (k : Nat) (hk : k ≤ (cs.takeWhile isCont).length) (hd : cs.drop k = []) :
    cs.all isCont = true := by
  induction cs generalizing k with
  | nil => rfl
  | cons c cs ih =>
    by_cases hc : isCont c = true
    · cases k with
      | zero => simp at hd
      | succ k =>
        simp only [List.takeWhile, hc, List.length_cons] at hk
        simp only [List.drop_succ_cons] at hd
        simp [hc, ih k (by omega) hd]
    · have hc' : isCont c = false := by simpa using hc
      simp only [List.takeWhile, hc', List.length_nil, Nat.le_zero] at hk
      subst hk; simp at hd

theorem lastTS_conts (c : UInt8) (cs : Bytes) (hc : isTrimSpace c = false) (h : cs.all isCont = true) :
    lastTS (c :: cs) = false := by
  apply lastTS_all
  simp only [List.all_cons, hc, Bool.not_false, Bool.true_and]
  rw [List.all_eq_true] at h ⊢
  intro b hb
  simp [(cont_class b (h b hb)).1]

theorem lastTS_caseFold (n : Nat) : ∀ l : Bytes, l.length ≤ n → lastTS (caseFold l) = lastTS l := by
  induction n with
  | zero =>
    intro l h
    have : l = [] := List.length_eq_zero_iff.mp (by omega)
    subst this; simp [caseFold]
  | succ n ih =>
    intro l h
    cases l with
    | nil => simp [caseFold]
    | cons c cs =>
      simp only [List.length_cons] at h
      have hcs : cs.length ≤ n := by omega
      -- the cases in which one byte is written and folding continues with `cs`
      have keep : ∀ c' : UInt8, isTrimSpace c' = isTrimSpace c → caseFold (c :: cs) = c' :: caseFold cs →
          lastTS (caseFold (c :: cs)) = lastTS (c :: cs) := by
        intro c' hts heq
        rw [heq, lastTS_cons, lastTS_cons, ih cs hcs, hts]
        by_cases hnil : cs = []
        · subst hnil; simp [caseFold]
        · have : caseFold cs ≠ [] := fun h => hnil (caseFold_eq_nil h)
          simp [hnil, this]
      by_cases hlt : c < 181
      · exact keep _ (lower_class c hlt).2.1 (cf_lt cs hlt)
      · by_cases hc : isCont c = true
        · exact keep c rfl (cf_cont cs hc)
        · have hc' : isCont c = false := by simpa using hc
          by_cases hd : (decodeRune (c :: cs)).1 = runeError
          · exact keep c rfl (cf_keep cs hlt hc' (Or.inl hd))
          · cases hf : lookupFold (decodeRune (c :: cs)).1 with
            | none => exact keep c rfl (cf_keep cs hlt hc' (Or.inr hf))
            | some f =>
              rw [cf_fold cs hlt hc' hd hf, lastTS_append]
              obtain ⟨_, _, _, _, hall⟩ := encs_head hf
              by_cases hdrop : cs.drop ((decodeRune (c :: cs)).2 - 1) = []
              · rw [hdrop]
                simp only [caseFold, if_true]
                rw [lastTS_all _ hall]
                exact (lastTS_conts c cs (high_class c hlt).1
                  (all_cont_take cs _ (decodeRune_width c cs) hdrop)).symm
              · have hne : caseFold (cs.drop ((decodeRune (c :: cs)).2 - 1)) ≠ [] :=
                  fun h => hdrop (caseFold_eq_nil h)
                simp only [hne, if_false]
                rw [ih _ (by simp only [List.length_drop]; omega), lastTS_drop _ _ hdrop, lastTS_cons]
                have : cs ≠ [] := by intro hcs'; subst hcs'; simp at hdrop
                simp [this]

theorem lastTS_caseFold' (l : Bytes) : lastTS (caseFold l) = lastTS l := lastTS_caseFold l.length l (Nat.le_refl _)

theorem headTS_rsa (l : Bytes) : headTS (rsa l) = headTS l := by
  cases l with
  | nil => rw [rsa_nil]
  | cons c cs =>
    by_cases hs : isSpace c = true
    · rw [rsa_sp cs hs]; simp [headTS, (space_class c hs).2.2.2, sp32.2.1]
    · have hs' : isSpace c = false := by simpa using hs
      rw [rsa_ns cs hs']; rfl

theorem rsa_ne_nil (c : UInt8) (cs : Bytes) : rsa (c :: cs) ≠ [] := by
  by_cases hs : isSpace c = true
  · rw [rsa_sp cs hs]; simp
  · have hs' : isSpace c = false := by simpa using hs
    rw [rsa_ns cs hs']; simp

theorem rsa_eq_nil {l : Bytes} (h : rsa l = []) : l = [] := by
  cases l with
  | nil => rfl
  | cons c cs => exact absurd h (rsa_ne_nil c cs)

theorem all_space_lastTS (c : UInt8) (cs : Bytes) (hc : isSpace c = true) (h : cs.dropWhile isSpace = []) :
    lastTS (c :: cs) = true := by
  induction cs generalizing c with
  | nil => simp [lastTS, (space_class c hc).2.2.2]
  | cons d cs ih =>
    by_cases hd : isSpace d = true
    · simp only [List.dropWhile, hd] at h
      rw [lastTS_cons]; simp only [List.cons_ne_nil, if_false]
      exact ih d hd h
    · have hd' : isSpace d = false := by simpa using hd
      simp [List.dropWhile, hd'] at h

theorem lastTS_rsa (n : Nat) : ∀ l : Bytes, l.length ≤ n → lastTS (rsa l) = lastTS l := by
  induction n with
  | zero =>
    intro l h
    have : l = [] := List.length_eq_zero_iff.mp (by omega)
    subst this; rw [rsa_nil]
  | succ n ih =>
    intro l h
    cases l with
    | nil => rw [rsa_nil]
    | cons c cs =>
      simp only [List.length_cons] at h
      by_cases hs : isSpace c = true
      · rw [rsa_sp cs hs, lastTS_cons]
        by_cases hd : cs.dropWhile isSpace = []
        · rw [hd, rsa_nil]; simp only [if_true]
          rw [all_space_lastTS c cs hs hd]; exact sp32.2.1
        · have : rsa (cs.dropWhile isSpace) ≠ [] := fun h => hd (rsa_eq_nil h)
          simp only [this, if_false]
          rw [ih _ (by have := dropWhile_length_le isSpace cs; omega), lastTS_dropWhile _ _ hd, lastTS_cons]
          have : cs ≠ [] := by intro hcs; subst hcs; simp at hd
          simp [this]
      · have hs' : isSpace c = false := by simpa using hs
        rw [rsa_ns cs hs', lastTS_cons, lastTS_cons, ih cs (by omega)]
        by_cases hnil : cs = []
        · subst hnil; simp [rsa_nil]
        · have : rsa cs ≠ [] := fun h => hnil (rsa_eq_nil h)
          simp [hnil, this]

theorem lastTS_rsa' (l : Bytes) : lastTS (rsa l) = lastTS l := lastTS_rsa l.length l (Nat.le_refl _)

/-! ### trimming -/

theorem trimLeft_fix (l : Bytes) (h : headTS l = false) : trimLeftSpace l = l := dropWhile_headTS l h

theorem trimRight_fix (l : Bytes) (h : lastTS l = false) : trimRightSpace l = l := by
  unfold trimRightSpace
  rw [dropWhile_headTS _ (by rw [← lastTS_reverse]; exact h), List.reverse_reverse]

theorem lastTS_trimRight (l : Bytes) : lastTS (trimRightSpace l) = false := by
  unfold trimRightSpace
  rw [lastTS_reverse, List.reverse_reverse]; exact headTS_dropWhile _

theorem trimRight_prefix (l : Bytes) : ∃ w, l = trimRightSpace l ++ w := by
  refine ⟨(l.reverse.takeWhile isTrimSpace).reverse, ?_⟩
  unfold trimRightSpace
  rw [← List.reverse_append, List.takeWhile_append_dropWhile, List.reverse_reverse]

theorem headTS_trimRight (l : Bytes) (h : headTS l = false) : headTS (trimRightSpace l) = false := by
  obtain ⟨w, hw⟩ := trimRight_prefix l
  cases ht : trimRightSpace l with
  | nil => rfl
  | cons c t => rw [hw, ht] at h; exact h

theorem trim_ends (v : Bytes) :
    headTS (trimRightSpace (trimLeftSpace v)) = false ∧ lastTS (trimRightSpace (trimLeftSpace v)) = false :=
  ⟨headTS_trimRight _ (headTS_dropWhile v), lastTS_trimRight _⟩

/-! ### ReplaceSpaces on a string that does not end in white space -/

theorem noInner_noSpace (l : Bytes) (hl : lastTS l = false) (h : hasInnerRun l = false) :
    l.all (fun b => !isSpace b) = true := by
  induction l with
  | nil => rfl
  | cons c l ih =>
    cases l with
    | nil =>
      simp only [lastTS] at hl
      simp [trim_space c hl]
    | cons d r =>
      simp only [hasInnerRun, Bool.or_eq_false_iff, Bool.and_eq_false_iff, Bool.not_eq_false'] at h
      have hl' : lastTS (d :: r) = false := by simpa [lastTS] using hl
      have ih' := ih hl' h.2
      have hd : isSpace d = false := by
        simp only [List.all_cons, Bool.and_eq_true, Bool.not_eq_true'] at ih'; exact ih'.1
      have hc : isSpace c = false := by
        rcases h.1 with h1 | h1
        · exact h1
        · rw [hd] at h1; cases h1
      simp only [List.all_cons, hc, Bool.not_false, Bool.true_and]
      exact ih'

theorem replaceSpaces_eq (l : Bytes) (hl : lastTS l = false) : replaceSpaces l 32 = rsa l := by
  unfold replaceSpaces
  split
  · rfl
  · rename_i h
    have := rsa_append_ns l [] (noInner_noSpace l hl (by simpa using h))
    simpa [rsa_nil] using this.symm

/-- the normal form computed by ToLinkReference: trim, fold, then rewrite every run of white space to one
    space (the "only a trailing run: return unchanged" shortcut of ReplaceSpaces never applies here) -/
theorem toLinkReference_eq (v : Bytes) :
    toLinkReference v = rsa (caseFold (trimRightSpace (trimLeftSpace v))) := by
  unfold toLinkReference
  exact replaceSpaces_eq _ (by rw [lastTS_caseFold']; exact (trim_ends v).2)

theorem dropWhile_head_not (p : UInt8 → Bool) (l : Bytes) {d : UInt8} {r : Bytes}
    (h : l.dropWhile p = d :: r) : p d = false := by
  induction l with
  | nil => simp at h
  | cons c l ih =>
    by_cases hc : p c = true
    · simp only [List.dropWhile, hc] at h; exact ih h
    · have hc' : p c = false := by simpa using hc
      simp only [List.dropWhile, hc'] at h
      cases h; exact hc'

theorem rsa_idem (n : Nat) : ∀ l : Bytes, l.length ≤ n → rsa (rsa l) = rsa l := by
  induction n with
  | zero =>
    intro l h
    have : l = [] := List.length_eq_zero_iff.mp (by omega)
    subst this; simp [rsa_nil]
  | succ n ih =>
    intro l h
    cases l with
    | nil => simp [rsa_nil]
    | cons c cs =>
      simp only [List.length_cons] at h
      by_cases hs : isSpace c = true
      · rw [rsa_sp cs hs, rsa_sp _ sp32.1]
        have hih := ih (cs.dropWhile isSpace) (by have := dropWhile_length_le isSpace cs; omega)
        -- the rewritten rest starts with a non-space byte (or is empty)
        have hhead : (rsa (cs.dropWhile isSpace)).dropWhile isSpace = rsa (cs.dropWhile isSpace) := by
          cases hd : cs.dropWhile isSpace with
          | nil => simp [rsa_nil]
          | cons d r =>
            have hdns : isSpace d = false := dropWhile_head_not isSpace cs hd
            rw [rsa_ns r hdns]; simp [List.dropWhile, hdns]
        rw [hhead, hih]
      · have hs' : isSpace c = false := by simpa using hs
        rw [rsa_ns cs hs', rsa_ns _ hs', ih cs (by omega)]

theorem rsa_idem' (l : Bytes) : rsa (rsa l) = rsa l := rsa_idem l.length l (Nat.le_refl _)

theorem toLinkReference_idem (v : Bytes) : toLinkReference (toLinkReference v) = toLinkReference v := by
  have hT := trim_ends v
  rw [toLinkReference_eq v]
  generalize trimRightSpace (trimLeftSpace v) = T at hT
  rw [toLinkReference_eq]
  have hh : headTS (rsa (caseFold T)) = false := by rw [headTS_rsa, headTS_caseFold]; exact hT.1
  have hl : lastTS (rsa (caseFold T)) = false := by rw [lastTS_rsa', lastTS_caseFold']; exact hT.2
  rw [trimLeft_fix _ hh, trimRight_fix _ hl, caseFold_rsa, caseFold_idem, rsa_idem']

/-! ### white space -/

theorem space_trim (w : Bytes) (h : w.all isSpace = true) : w.all isTrimSpace = true := by
  rw [List.all_eq_true] at h ⊢
  intro b hb; exact (space_class b (h b hb)).2.2.2

theorem toLinkReference_ws_lead (w v : Bytes) (h : w.all isTrimSpace = true) :
    toLinkReference (w ++ v) = toLinkReference v := by
  unfold toLinkReference trimLeftSpace
  rw [dropWhile_all w v h]

theorem dropWhile_append_ne {p : UInt8 → Bool} (l w : Bytes) (h : l.dropWhile p ≠ []) :
    (l ++ w).dropWhile p = l.dropWhile p ++ w := by
  induction l with
  | nil => simp at h
  | cons c l ih =>
    by_cases hc : p c = true
    · simp only [List.dropWhile, hc] at h ⊢
      simpa [List.dropWhile, hc] using ih h
    · have hc' : p c = false := by simpa using hc
      simp [List.dropWhile, hc']

theorem dropWhile_eq_nil_all {p : UInt8 → Bool} (l : Bytes) (h : l.dropWhile p = []) : l.all p = true := by
  induction l with
  | nil => rfl
  | cons c l ih =>
    by_cases hc : p c = true
    · simp only [List.dropWhile, hc] at h; simp [hc, ih h]
    · have hc' : p c = false := by simpa using hc
      simp [List.dropWhile, hc'] at h

theorem trimRight_append_all (l w : Bytes) (h : w.all isTrimSpace = true) :
    trimRightSpace (l ++ w) = trimRightSpace l := by
  unfold trimRightSpace
  rw [List.reverse_append, dropWhile_all w.reverse l.reverse (by simpa using h)]

theorem toLinkReference_ws_trail (v w : Bytes) (h : w.all isTrimSpace = true) :
    toLinkReference (v ++ w) = toLinkReference v := by
  unfold toLinkReference trimLeftSpace
  by_cases hv : v.dropWhile isTrimSpace = []
  · have hall : (v ++ w).all isTrimSpace = true := by
      rw [List.all_append, dropWhile_eq_nil_all v hv, h]; rfl
    have : (v ++ w).dropWhile isTrimSpace = [] := by
      have := dropWhile_all (v ++ w) [] hall
      simpa using this
    rw [this, hv]
  · rw [dropWhile_append_ne v w hv, trimRight_append_all _ _ h]

/-- rewriting runs: what lies between `a` and `b` only matters as "some white space" -/
theorem rsa_run (w1 w2 b : Bytes) (h1 : w1 ≠ []) (h2 : w2 ≠ []) (hw1 : w1.all isSpace = true)
    (hw2 : w2.all isSpace = true) (n : Nat) :
    ∀ a : Bytes, a.length ≤ n → rsa (a ++ (w1 ++ b)) = rsa (a ++ (w2 ++ b)) := by
  have base : ∀ w : Bytes, w ≠ [] → w.all isSpace = true → rsa (w ++ b) = 32 :: rsa (b.dropWhile isSpace) := by
    intro w hne hw
    cases w with
    | nil => exact absurd rfl hne
    | cons s w =>
      simp only [List.all_cons, Bool.and_eq_true] at hw
      rw [List.cons_append, rsa_sp _ hw.1, dropWhile_all w b hw.2]
  induction n with
  | zero =>
    intro a ha
    have : a = [] := List.length_eq_zero_iff.mp (by omega)
    subst this
    simp only [List.nil_append]
    rw [base w1 h1 hw1, base w2 h2 hw2]
  | succ n ih =>
    intro a ha
    cases a with
    | nil => exact ih [] (by simp)
    | cons c a =>
      simp only [List.length_cons] at ha
      by_cases hs : isSpace c = true
      · rw [List.cons_append, List.cons_append, rsa_sp _ hs, rsa_sp _ hs]
        by_cases hd : a.dropWhile isSpace = []
        · have hall := dropWhile_eq_nil_all a hd
          rw [dropWhile_all a _ hall, dropWhile_all a _ hall, dropWhile_all w1 b hw1, dropWhile_all w2 b hw2]
        · rw [dropWhile_append_ne a _ hd, dropWhile_append_ne a _ hd]
          rw [ih _ (by have := dropWhile_length_le isSpace a; omega)]
      · have hs' : isSpace c = false := by simpa using hs
        rw [List.cons_append, List.cons_append, rsa_ns _ hs', rsa_ns _ hs', ih a (by omega)]

theorem trimRight_append_ne (x b : Bytes) (h : trimRightSpace b ≠ []) :
    trimRightSpace (x ++ b) = x ++ trimRightSpace b := by
  unfold trimRightSpace at h ⊢
  have h' : b.reverse.dropWhile isTrimSpace ≠ [] := by
    intro hh; rw [hh] at h; exact h rfl
  rw [List.reverse_append, dropWhile_append_ne _ _ h', List.reverse_append, List.reverse_reverse]

theorem trimRight_eq_nil_all (b : Bytes) (h : trimRightSpace b = []) : b.all isTrimSpace = true := by
  unfold trimRightSpace at h
  have : b.reverse.dropWhile isTrimSpace = [] := by simpa using h
  have := dropWhile_eq_nil_all _ this
  simpa using this

theorem toLinkReference_ws_run (a w1 w2 b : Bytes) (h1 : w1 ≠ []) (h2 : w2 ≠ []) (hw1 : w1.all isSpace = true)
    (hw2 : w2.all isSpace = true) :
    toLinkReference (a ++ w1 ++ b) = toLinkReference (a ++ w2 ++ b) := by
  rw [toLinkReference_eq, toLinkReference_eq, ← caseFold_rsa, ← caseFold_rsa]
  congr 1
  simp only [List.append_assoc]
  unfold trimLeftSpace
  by_cases ha : a.dropWhile isTrimSpace = []
  · have hall := dropWhile_eq_nil_all a ha
    rw [dropWhile_all a _ hall, dropWhile_all a _ hall, dropWhile_all w1 b (space_trim w1 hw1),
      dropWhile_all w2 b (space_trim w2 hw2)]
  · rw [dropWhile_append_ne a _ ha, dropWhile_append_ne a _ ha]
    generalize a.dropWhile isTrimSpace = A
    by_cases hb : trimRightSpace b = []
    · have hball := trimRight_eq_nil_all b hb
      have e1 : (w1 ++ b).all isTrimSpace = true := by rw [List.all_append, space_trim w1 hw1, hball]; rfl
      have e2 : (w2 ++ b).all isTrimSpace = true := by rw [List.all_append, space_trim w2 hw2, hball]; rfl
      rw [trimRight_append_all A _ e1, trimRight_append_all A _ e2]
    · rw [← List.append_assoc, ← List.append_assoc, trimRight_append_ne _ b hb, trimRight_append_ne _ b hb,
        List.append_assoc, List.append_assoc]
      exact rsa_run w1 w2 _ h1 h2 hw1 hw2 A.length A (Nat.le_refl _)

/-! ### letter case -/

theorem takeWhile_append_stop {p : UInt8 → Bool} (x : Bytes) (y : UInt8) (ys : Bytes) (h : p y = false) :
    (x ++ y :: ys).takeWhile p = x.takeWhile p := by
  induction x with
  | nil => simp [List.takeWhile, h]
  | cons c x ih =>
    by_cases hc : p c = true
    · simp [List.takeWhile, hc, ih]
    · have hc' : p c = false := by simpa using hc
      simp [List.takeWhile, hc']

theorem takeWhile_length_le (p : UInt8 → Bool) (l : Bytes) : (l.takeWhile p).length ≤ l.length := by
  induction l with
  | nil => simp
  | cons c l ih => simp only [List.takeWhile]; split <;> simp <;> omega

/-- folding is a congruence for a middle part that starts with a non-continuation byte -/
theorem caseFold_congr_mid (y1 y2 : UInt8) (m1 m2 b : Bytes) (hy1 : isCont y1 = false) (hy2 : isCont y2 = false)
    (hm : caseFold (y1 :: m1 ++ b) = caseFold (y2 :: m2 ++ b)) (n : Nat) :
    ∀ a : Bytes, a.length ≤ n → caseFold (a ++ (y1 :: m1 ++ b)) = caseFold (a ++ (y2 :: m2 ++ b)) := by
  induction n with
  | zero =>
    intro a ha
    have : a = [] := List.length_eq_zero_iff.mp (by omega)
    subst this; exact hm
  | succ n ih =>
    intro a ha
    cases a with
    | nil => exact hm
    | cons c a =>
      simp only [List.length_cons] at ha
      have ha' : a.length ≤ n := by omega
      simp only [List.cons_append] at ih ⊢
      by_cases hlt : c < 181
      · rw [cf_lt _ hlt, cf_lt _ hlt, ih a ha']
      · by_cases hc : isCont c = true
        · rw [cf_cont _ hc, cf_cont _ hc, ih a ha']
        · have hc' : isCont c = false := by simpa using hc
          have htw : (a ++ y1 :: (m1 ++ b)).takeWhile isCont = (a ++ y2 :: (m2 ++ b)).takeWhile isCont := by
            rw [takeWhile_append_stop a y1 _ hy1, takeWhile_append_stop a y2 _ hy2]
          have hdec := decodeRune_congr c htw
          by_cases hd : (decodeRune (c :: (a ++ y1 :: (m1 ++ b)))).1 = runeError
          · rw [cf_keep _ hlt hc' (Or.inl hd), cf_keep _ hlt hc' (Or.inl (by rw [← hdec]; exact hd)), ih a ha']
          · cases hf : lookupFold (decodeRune (c :: (a ++ y1 :: (m1 ++ b)))).1 with
            | none =>
              rw [cf_keep _ hlt hc' (Or.inr hf), cf_keep _ hlt hc' (Or.inr (by rw [← hdec]; exact hf)), ih a ha']
            | some f =>
              rw [cf_fold _ hlt hc' hd hf,
                cf_fold _ hlt hc' (by rw [← hdec]; exact hd) (by rw [← hdec]; exact hf), ← hdec]
              have hw := decodeRune_width c (a ++ y1 :: (m1 ++ b))
              rw [takeWhile_append_stop a y1 _ hy1] at hw
              have hle : (decodeRune (c :: (a ++ y1 :: (m1 ++ b)))).2 - 1 ≤ a.length := by
                have := takeWhile_length_le isCont a; omega
              rw [List.drop_append_of_le_length hle, List.drop_append_of_le_length hle,
                ih _ (by simp only [List.length_drop]; omega)]

theorem dw_append_stop (x : Bytes) (y : UInt8) (ys : Bytes) (h : isTrimSpace y = false) :
    trimLeftSpace (x ++ y :: ys) = trimLeftSpace x ++ y :: ys := dropWhile_append_stop x y ys h

theorem trimRight_append_stop (x m : Bytes) (hne : m ≠ []) (hm : lastTS m = false) (b : Bytes) :
    trimRightSpace (x ++ (m ++ b)) = x ++ (m ++ trimRightSpace b) := by
  unfold trimRightSpace
  have hrev : (x ++ (m ++ b)).reverse = b.reverse ++ (m.reverse ++ x.reverse) := by simp
  rw [hrev]
  cases hmr : m.reverse with
  | nil => exact absurd (by simpa using hmr) hne
  | cons z zs =>
    have hz : isTrimSpace z = false := by
      have := lastTS_reverse m
      rw [hmr, hm] at this; exact this.symm
    rw [List.cons_append, dropWhile_append_stop b.reverse z _ hz]
    have : (List.dropWhile isTrimSpace b.reverse ++ z :: (zs ++ x.reverse)).reverse
        = x ++ ((z :: zs).reverse ++ (List.dropWhile isTrimSpace b.reverse).reverse) := by simp
    rw [this, ← hmr, List.reverse_reverse]

/-- the general form: two middle parts that fold to the same thing, neither starting with a continuation
    byte nor starting/ending with a trim-space byte, are interchangeable inside any label -/
theorem toLinkReference_congr_mid (a b : Bytes) (y1 y2 : UInt8) (m1 m2 : Bytes)
    (hy1 : isCont y1 = false) (hy2 : isCont y2 = false)
    (ht1 : isTrimSpace y1 = false) (ht2 : isTrimSpace y2 = false)
    (hl1 : lastTS (y1 :: m1) = false) (hl2 : lastTS (y2 :: m2) = false)
    (hm : ∀ t, caseFold (y1 :: m1 ++ t) = caseFold (y2 :: m2 ++ t)) :
    toLinkReference (a ++ (y1 :: m1) ++ b) = toLinkReference (a ++ (y2 :: m2) ++ b) := by
  rw [toLinkReference_eq, toLinkReference_eq]
  congr 1
  simp only [List.append_assoc, List.cons_append]
  rw [dw_append_stop a y1 _ ht1, dw_append_stop a y2 _ ht2]
  have e1 := trimRight_append_stop (trimLeftSpace a) (y1 :: m1) (by simp) hl1 b
  have e2 := trimRight_append_stop (trimLeftSpace a) (y2 :: m2) (by simp) hl2 b
  simp only [List.cons_append] at e1 e2
  rw [e1, e2]
  exact caseFold_congr_mid y1 y2 m1 m2 _ hy1 hy2 (hm _) _ _ (Nat.le_refl _)

theorem upper_facts : ∀ c : UInt8, upperByte c = true →
    c < 181 ∧ isCont c = false ∧ isTrimSpace c = false ∧
    (c + 32) < 181 ∧ upperByte (c + 32) = false ∧ isCont (c + 32) = false ∧ isTrimSpace (c + 32) = false := by
  apply forall_uint8; decide +kernel

/-- an upper-case ASCII letter anywhere in a label may be replaced by its lower-case form -/
theorem toLinkReference_case_ascii (a b : Bytes) (c : UInt8) (hc : upperByte c = true) :
    toLinkReference (a ++ [c] ++ b) = toLinkReference (a ++ [c + 32] ++ b) := by
  obtain ⟨k1, k2, k3, k4, k5, k6, k7⟩ := upper_facts c hc
  refine toLinkReference_congr_mid a b c (c + 32) [] [] k2 k6 k3 k7 (by simp [lastTS, k3]) (by simp [lastTS, k7]) ?_
  intro t
  simp only [List.cons_append, List.nil_append]
  rw [cf_lt _ k1, cf_lt _ k4, hc, k5]; rfl

/-- a rune with an entry in the folding table may be replaced, anywhere in a label, by its folded form -/
theorem toLinkReference_case_fold (a b : Bytes) (k : Nat) (f : List Nat) (hf : lookupFold k = some f) :
    toLinkReference (a ++ encodeRune k ++ b) = toLinkReference (a ++ f.flatMap encodeRune ++ b) := by
  have hent := fold_entry_ok hf
  simp only [okEntry, Bool.and_eq_true] at hent
  obtain ⟨⟨⟨henc, _⟩, _⟩, hkey⟩ := hent
  obtain ⟨b0, conts, heq, hb0, hconts, hre, hdec, _⟩ := okEnc_shape henc
  obtain ⟨h2, t2, heq2, hh2, hall2⟩ := encs_head hf
  have hts2 : isTrimSpace h2 = false := by
    rw [heq2] at hall2; simp only [List.all_cons, Bool.and_eq_true, Bool.not_eq_true'] at hall2; exact hall2.1
  have hl2 : lastTS (h2 :: t2) = false := by rw [← heq2]; exact lastTS_all _ hall2
  unfold okKey at hkey
  rw [heq] at hkey
  simp only [Bool.or_eq_true, decide_eq_true_eq, Bool.and_eq_true, List.isEmpty_iff, beq_iff_eq] at hkey
  have hfold2 : ∀ t, caseFold (h2 :: t2 ++ t) = h2 :: t2 ++ caseFold t := by
    intro t; rw [← heq2]; exact caseFold_folded hf t
  rw [heq, heq2]
  rcases hkey with hge | ⟨⟨hnil, hup⟩, hlow⟩
  · have hnlt : ¬ b0 < 181 := by
      rw [UInt8.lt_iff_toNat_lt]; rw [ge_iff_le, UInt8.le_iff_toNat_le] at hge; omega
    refine toLinkReference_congr_mid a b b0 h2 conts t2 hb0 hh2 (high_class b0 hnlt).1 hts2
      (lastTS_conts b0 conts (high_class b0 hnlt).1 hconts) hl2 ?_
    intro t
    rw [hfold2 t]
    have hd : decodeRune (b0 :: (conts ++ t)) = (k, conts.length + 1) := by
      have := decodeRune_append (b0 :: conts) t k (by simpa using hdec) hre
      simpa using this
    rw [List.cons_append, cf_fold _ hnlt hb0 (by rw [hd]; exact hre) (by rw [hd]; exact hf), hd, heq2]
    simp
  · subst hnil
    obtain ⟨k1, k2, k3, _⟩ := upper_facts b0 hup
    rw [heq2] at hlow
    refine toLinkReference_congr_mid a b b0 h2 [] t2 k2 hh2 k3 hts2 (by simp [lastTS, k3]) hl2 ?_
    intro t
    rw [hfold2 t, List.cons_append, List.nil_append, cf_lt _ k1, hup, hlow]; rfl

end GM.Proof
