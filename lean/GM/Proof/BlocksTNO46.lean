/-
  GM.Proof.BlocksTNO46 — the STATIC-FIELD frame: `SF m` = a step `m` does not shrink the store and leaves kind, htmlType and
  offset of every old node alone (`st3`). A small compositional calculus, the tree primitives, and the functions of the
  model whose specifications in the walks track lines / kinds only: `setextClose`, `listClose`, `ptReplace`,
  `paragraphClose`, `appendChild`.  `RecS src n` = the shape of a table record that carries lines.
-/
import GM.Proof.BlocksTNO36

namespace GM.Blocks.TX
open GM GM.Text GM.Spec GM.Proof.Reader GM.Blocks.TO GM.TableX

/-- the fields nothing but the allocation of a node writes -/
def st3 (n : Node) : Kind × Nat × Int := (n.kind, n.htmlType, n.offset)

/-- a table record that carries lines: a TableHeader / TableRow (escaped-pipe positions), or a TableCell with its one
    line -/
def RecS (src : Bytes) (n : Node) : Prop :=
  hasWitness src n = true ∧ (n.htmlType = tagHeader ∨ n.htmlType = tagRow ∨
    (n.htmlType = tagCell ∧ ∃ sg, n.lines = [sg] ∧ sg.forceNewline = false))

theorem RecS.congr {src : Bytes} {n n' : Node} (h1 : st3 n' = st3 n) (h2 : n'.lines = n.lines) (h : RecS src n) : RecS src n' := by
  simp only [st3, Prod.mk.injEq] at h1
  obtain ⟨_, b, c⟩ := h1
  unfold RecS hasWitness at h ⊢
  rw [b, c, h2]; exact h

/-- the static-field frame between two stores -/
def SFr (s s' : St) : Prop := s.nodes.length ≤ s'.nodes.length ∧ ∀ i, i < s.nodes.length → st3 (nd s' i) = st3 (nd s i)

theorem SFr.refl (s : St) : SFr s s := ⟨Nat.le_refl _, fun _ _ => rfl⟩
theorem SFr.trans {a b c : St} (h1 : SFr a b) (h2 : SFr b c) : SFr a c :=
  ⟨Nat.le_trans h1.1 h2.1, fun i hi => (h2.2 i (Nat.lt_of_lt_of_le hi h1.1)).trans (h1.2 i hi)⟩

theorem SFr.of_nodes {s s' : St} (h : s'.nodes = s.nodes) : SFr s s' :=
  ⟨by rw [h]; exact Nat.le_refl _, fun i _ => by simp only [nd, h]⟩

def SF {α} (m : M α) : Prop := ∀ s a s', m s = .ok (a, s') → SFr s s'

theorem SF.pure {α} (a : α) : SF (pure a : M α) := fun s b s' h => by
  obtain ⟨_, hs⟩ := opure_ok h; rw [hs]; exact SFr.refl _

theorem SF.bind {α β} {m : M α} {f : α → M β} (hm : SF m) (hf : ∀ a, SF (f a)) : SF (m >>= f) := fun s b s' h => by
  obtain ⟨a, s1, h1, k1⟩ := obind_ok h
  exact (hm s a s1 h1).trans (hf a s1 b s' k1)

theorem SF.ite {α} {c : Prop} [Decidable c] {a b : M α} (ha : SF a) (hb : SF b) : SF (if c then a else b) := by
  split <;> assumption

theorem SF.throw {α} (e : Panic) : SF (throw e : M α) := fun _ _ _ h => by cases h

theorem SF.same {α} {m : M α} (h : ∀ s a s', m s = .ok (a, s') → s'.nodes = s.nodes) : SF m :=
  fun s a s' e => SFr.of_nodes (h s a s' e)

theorem getNode_sf (id : Nat) : SF (getNode id) := SF.same fun _ _ _ h => by cases h; rfl
theorem getPc_sf : SF getPc := SF.same fun _ _ _ h => by cases h; rfl
theorem get_sf : SF (get : M St) := SF.same fun _ _ _ h => by cases h; rfl
theorem source_sf : SF source := SF.same fun _ _ _ h => by cases h; rfl
theorem modPc_sf (f : Ctx → Ctx) : SF (modPc f) := SF.same fun _ _ _ h => by cases h; rfl
theorem liftE_sf {α} (e : Except Panic α) : SF (liftE e) := SF.same fun s a s' h => by
  obtain ⟨_, hs⟩ := oliftE_ok h; rw [hs]

theorem modNode_sf (id : Nat) (f : Node → Node) (hf : ∀ n, st3 (f n) = st3 n) : SF (modNode id f) := fun s a s' h => by
  rw [modNode_eq] at h
  cases h
  refine ⟨by rw [upd_len]; exact Nat.le_refl _, fun i _ => ?_⟩
  rw [nd_upd]; split
  · next hc => rw [← hc.1]; exact hf _
  · rfl

theorem newNode_sf (n : Node) : SF (newNode n) := fun s a s' h => by
  obtain ⟨_, hs'⟩ := onewNode_ok h
  have hn : s'.nodes = s.nodes ++ [n] := by rw [hs']
  exact ⟨by rw [hn]; simp, fun i hi => by rw [nd_snoc hn, if_pos hi]⟩

theorem removeChild_sf (p c : Nat) : SF (removeChild p c) := by
  unfold removeChild
  refine SF.bind (getNode_sf c) (fun cn => ?_)
  refine SF.ite (SF.pure _) ?_
  exact SF.bind (modNode_sf _ _ (fun _ => rfl)) (fun _ => modNode_sf _ _ (fun _ => rfl))

theorem ensureIsolated_sf (c : Nat) : SF (ensureIsolated c) := by
  unfold ensureIsolated
  refine SF.bind (getNode_sf c) (fun cn => ?_)
  split
  · exact removeChild_sf _ _
  · exact SF.pure _

theorem appendChild_sf (p c : Nat) : SF (appendChild p c) := by
  unfold appendChild
  exact SF.bind (ensureIsolated_sf c) (fun _ => SF.bind (modNode_sf _ _ (fun _ => rfl)) (fun _ => modNode_sf _ _ (fun _ => rfl)))

theorem insertBefore_sf (p : Nat) (v1 : Option Nat) (ins : Nat) : SF (insertBefore p v1 ins) := by
  unfold insertBefore
  cases v1 with
  | none => exact appendChild_sf _ _
  | some v =>
    dsimp only
    refine SF.bind (getNode_sf v) (fun vn => ?_)
    refine SF.ite (appendChild_sf _ _) ?_
    exact SF.bind (ensureIsolated_sf ins) (fun _ => SF.bind (modNode_sf _ _ (fun _ => rfl)) (fun _ => modNode_sf _ _ (fun _ => rfl)))

theorem replaceChild_sf (p v1 ins : Nat) : SF (replaceChild p v1 ins) := by
  unfold replaceChild
  exact SF.bind (insertBefore_sf _ _ _) (fun _ => removeChild_sf _ _)

theorem nextSibling_sf (c : Nat) : SF (nextSibling c) := by
  unfold nextSibling
  refine SF.bind (getNode_sf c) (fun cn => ?_)
  split
  · exact SF.pure _
  · exact SF.bind (getNode_sf _) (fun _ => SF.pure _)

theorem insertAfter_sf (p : Nat) (v1 : Option Nat) (ins : Nat) : SF (insertAfter p v1 ins) := by
  unfold insertAfter
  cases v1 with
  | none => exact appendChild_sf _ _
  | some v =>
    dsimp only
    refine SF.bind (nextSibling_sf v) (fun next => ?_)
    split
    · exact SF.bind (nextSibling_sf ins) (fun _ => insertBefore_sf _ _ _)
    · exact SF.bind (SF.pure _) (fun _ => insertBefore_sf _ _ _)

theorem ptReplace_sf (node p : Nat) (bp : Bool) : SF (ptReplace node p bp) := by
  unfold ptReplace
  exact SF.bind (newNode_sf _) (fun _ => replaceChild_sf _ _ _)

theorem tightenItem_sf (child : Nat) : ∀ gcs, SF (tightenItem child gcs)
  | [] => by unfold tightenItem; exact SF.pure _
  | gc :: gcs => by
    unfold tightenItem
    refine SF.bind (getNode_sf gc) (fun g => ?_)
    dsimp only
    split
    · exact SF.bind (newNode_sf _) (fun _ => SF.bind (replaceChild_sf _ _ _) (fun _ => tightenItem_sf child gcs))
    · exact tightenItem_sf child gcs

theorem tightenItems_sf : ∀ l, SF (tightenItems l)
  | [] => by unfold tightenItems; exact SF.pure _
  | child :: rest => by
    unfold tightenItems
    exact SF.bind (getNode_sf child) (fun cn => SF.bind (tightenItem_sf child _) (fun _ => tightenItems_sf rest))

theorem listClose_sf (node : Nat) : SF (listClose node) := by
  unfold listClose
  refine SF.bind (getNode_sf node) (fun l => SF.bind get_sf (fun st => ?_))
  refine SF.bind (modNode_sf _ _ (fun _ => rfl)) (fun _ => ?_)
  exact SF.ite (tightenItems_sf _) (SF.pure _)

theorem appendLine_sf (id : Nat) (seg : Segment) : SF (appendLine id seg) := by
  unfold appendLine; exact modNode_sf _ _ (fun _ => rfl)

macro "sf_step" : tactic => `(tactic| first
  | exact SF.pure _ | exact SF.throw _ | exact getNode_sf _ | exact getPc_sf | exact get_sf | exact source_sf
  | exact modPc_sf _ | exact liftE_sf _ | exact modNode_sf _ _ (fun _ => rfl) | exact newNode_sf _
  | exact removeChild_sf _ _ | exact appendChild_sf _ _ | exact insertAfter_sf _ _ _ | exact nextSibling_sf _
  | exact appendLine_sf _ _ | exact replaceChild_sf _ _ _
  | (refine SF.bind ?_ (fun _ => ?_)) | split | dsimp only)

macro "sf" : tactic => `(tactic| repeat' sf_step)

theorem setextClose_sf (node : Nat) : SF (setextClose node) := by
  unfold setextClose; sf

theorem codeClose_sf (node : Nat) : SF (codeClose node) := by
  unfold codeClose; sf

theorem fencedClose_sf (node : Nat) : SF (fencedClose node) := by
  unfold fencedClose; sf

theorem paragraphClose_sf (node : Nat) : SF (paragraphClose node) := by
  unfold paragraphClose; sf

theorem bpClose_sf (bp : BP) (node : Nat) : SF (bpClose bp node) := by
  cases bp <;> unfold bpClose
  · exact setextClose_sf node
  · exact SF.pure _
  · exact listClose_sf node
  · exact SF.pure _
  · exact codeClose_sf node
  · exact SF.pure _
  · exact fencedClose_sf node
  · exact SF.pure _
  · exact SF.pure _
  · exact paragraphClose_sf node

end GM.Blocks.TX
