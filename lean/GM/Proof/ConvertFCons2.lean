/-
  GM.Proof.ConvertFCons2 — C11 at whole-document level for sources that contain neither trigger byte of the footnote inline
  parser (`!`, `[`): `convertF true none = convertCore`. Block phase: GM.Proof.ConvertFCons (`[^`-free suffices there);
  inline phase: the parser is never consulted (GM.Proof.InlinesLoopX.parseBlockX_eq); the default parsers build no
  FootnoteLink representation (`parseBlock_wf`); a tree without footnote kinds renders alike with and without the footnote
  node renderers (GM.Proof.ConvertX.renderNode_exts).
-/
import GM.Proof.ConvertFCons
import GM.Proof.ConvertFOff
import GM.Proof.ConvertFInl

namespace GM.ConvertF
open GM GM.Text GM.Blocks GM.Convert GM.Proof.ConvertX

theorem noBracket_noCaret {src : Bytes} (h : (91 : UInt8) ∉ src) : GM.Ext.hasInfix [91, 94] src = false := by
  rw [hasInfix2_false_iff]
  intro i hi
  exact h (List.mem_of_getElem? hi.1)

/-- the footnote inline parser is never consulted on a block of a source without `!` and `[` -/
theorem inlinePhaseF_unused (refs : Option (List Bytes)) (env : GM.Inl.Env) (src : Bytes) (h91 : (91 : UInt8) ∉ src)
    (h33 : (33 : UInt8) ∉ src) (n : Blocks.Node) :
    inlinePhaseF true true refs env src n = inlinePhase true env src n := by
  unfold inlinePhaseF inlinePhase
  split
  · rfl
  · split
    · rfl
    · split
      · rfl
      · rename_i hw
        have hw' : GM.LinkRef.wf0B src n.lines = true := by simpa using hw
        obtain ⟨W, Z⟩ := GM.Proof.LinkRefTotal.wf0B_sound hw'
        rw [GM.Proof.InlinesLoopX.parseBlockX_eq W Z env (inlineTblF true refs)
          (by simp [inlineTblF])
          (fun c hc => by
            have h1 : c ≠ 33 := fun e => h33 (e ▸ hc)
            have h2 : c ≠ 91 := fun e => h91 (e ▸ hc)
            simp [inlineTblF, h1, h2])]

mutual
/-- on nodes without the representation (every emphasis level ≥ 1) nothing is decoded -/
theorem inlineTreeF_lvOK (m : Nat) (src : Bytes) : ∀ n : GM.Inl.Node, lvOK n = true → inlineTreeF true m src n = inlineTree src n
  | .text .., _ => by simp [inlineTreeF, inlineTree]
  | .codeSpan ks, h => by
    simp only [lvOK] at h
    simp only [inlineTreeF, inlineTree, inlineTreesF_lvOK m src ks h]
  | .emphasis lv ks, h => by
    simp only [lvOK, Bool.and_eq_true, decide_eq_true_eq] at h
    have h0 : fnLinkPos? lv = none := by
      unfold fnLinkPos?
      have : ¬ lv ≤ -3 := by omega
      simp [this]
    simp only [inlineTreeF, inlineTree, if_true, h0, inlineTreesF_lvOK m src ks h.2]
  | .link _ _ _ ks, h => by
    simp only [lvOK] at h
    simp only [inlineTreeF, inlineTree, inlineTreesF_lvOK m src ks h]
  | .autoLink .., _ => by simp [inlineTreeF, inlineTree]
  | .rawHTML .., _ => by simp [inlineTreeF, inlineTree]
  | .delim .., _ => by simp [inlineTreeF, inlineTree]
  | .label .., _ => by simp [inlineTreeF, inlineTree]
theorem inlineTreesF_lvOK (m : Nat) (src : Bytes) : ∀ ns : List GM.Inl.Node, lvOKL ns = true → inlineTreesF true m src ns = inlineTrees src ns
  | [], _ => by simp [inlineTreesF, inlineTrees]
  | n :: rest, h => by
    simp only [lvOKL, Bool.and_eq_true] at h
    simp only [inlineTreesF, inlineTrees, inlineTreeF_lvOK m src n h.1, inlineTreesF_lvOK m src rest h.2]
end

theorem inlinePhase_lvOK (env : GM.Inl.Env) (src : Bytes) (n : Blocks.Node) (kids : List GM.Inl.Node)
    (h : inlinePhase true env src n = .ok kids) : lvOKL kids = true := by
  unfold inlinePhase at h
  split at h
  · cases h; rfl
  · split at h
    · cases h; rfl
    · split at h
      · cases h
      · exact wfL_lvOKL false kids (GM.Proof.Inlines.parseBlock_wf (liftErr_ok' h))

mutual
theorem docTreeF_unused (refs : Option (List Bytes)) (env : GM.Inl.Env) (src : Bytes) (h91 : (91 : UInt8) ∉ src)
    (h33 : (33 : UInt8) ∉ src) : ∀ t : Tree, docTreeF true true refs env src (plainTree t) = docTree true env src t
  | .node n cs => by
    unfold plainTree docTreeF docTree
    rw [docTreesF_unused refs env src h91 h33 cs, inlinePhaseF_unused refs env src h91 h33]
    cases hd : docTrees true env src cs with
    | error e => rfl
    | ok bs =>
      cases hk : inlinePhase true env src n with
      | error e => rfl
      | ok kids =>
        simp only [bind, Except.bind]
        rw [inlineTreesF_lvOK _ src kids (inlinePhase_lvOK env src n kids hk)]
        rfl
theorem docTreesF_unused (refs : Option (List Bytes)) (env : GM.Inl.Env) (src : Bytes) (h91 : (91 : UInt8) ∉ src)
    (h33 : (33 : UInt8) ∉ src) : ∀ ts : List Tree, docTreesF true true refs env src (plainTrees ts) = docTrees true env src ts
  | [] => by unfold plainTrees docTreesF docTrees; rfl
  | t :: rest => by
    unfold plainTrees docTreesF docTrees
    rw [docTreeF_unused refs env src h91 h33 t, docTreesF_unused refs env src h91 h33 rest]
end

theorem parseDocF_unused (uc : List (Nat × (Bool × Bool))) (src : Bytes) (h91 : (91 : UInt8) ∉ src) (h33 : (33 : UInt8) ∉ src) :
    parseDocF true true uc src = parseDoc true uc src := by
  unfold parseDocF parsePhases parseDoc
  rw [blockPhaseF_cons (noBracket_noCaret h91)]
  cases blockPhase true src with
  | error e => rfl
  | ok st =>
    simp only [Except.map, liftErr, bind, Except.bind, listKids, treeOfF_empty, monitor_empty, docTreeF_unused _ _ src h91 h33,
      Bool.false_eq_true, if_false]
    cases docTree true { refs := st.pc.refs, uc := uc } src (treeOf st.nodes st.nodes.length 0) with
    | error e => rfl
    | ok t => simp [finishDoc, pure, Except.pure]

/-! ### a tree without footnote kinds renders alike with and without the footnote node renderers -/

def notFoot : GM.Kind → Bool
  | .footnoteLink .. | .footnoteBacklink .. | .footnote _ | .footnoteList => false
  | _ => true

theorem handled_foot (e : Exts) (x y : Bool) {k : GM.Kind} (h : notFoot k = true) :
    handled { e with foot := x } k = handled { e with foot := y } k := by
  cases k <;> simp_all [handled, notFoot]

theorem blockKind_notFoot {src : Bytes} {n : GM.Blocks.Node} {k : GM.Kind} (h : blockKind src n = .ok k) : notFoot k = true := by
  unfold blockKind at h
  split at h
  case h_8 =>
    dsimp only at h
    split at h
    · obtain ⟨a, _, h⟩ := ebind_ok h
      obtain ⟨b, hb, h⟩ := ebind_ok h
      obtain ⟨c, _, h⟩ := ebind_ok h
      rw [epure_ok h]; rfl
    · obtain ⟨b, hb, h⟩ := ebind_ok h
      obtain ⟨c, _, h⟩ := ebind_ok h
      rw [epure_ok h]; rfl
  case h_9 =>
    dsimp only at h
    split at h
    · obtain ⟨a, _, h⟩ := ebind_ok h
      obtain ⟨b, hb, h⟩ := ebind_ok h
      obtain ⟨c, _, h⟩ := ebind_ok h
      rw [epure_ok h]; rfl
    · obtain ⟨b, hb, h⟩ := ebind_ok h
      obtain ⟨c, _, h⟩ := ebind_ok h
      rw [epure_ok h]; rfl
  all_goals first
    | (rw [epure_ok h]; rfl)
    | (obtain ⟨a, _, h⟩ := ebind_ok h; rw [epure_ok h]; rfl)

mutual
theorem inlineTree_notFoot (src : Bytes) : ∀ (n : GM.Inl.Node) (t : GM.Node), inlineTree src n = .ok t → allKinds notFoot t = true
  | .text .., t, h => by
    unfold inlineTree at h
    obtain ⟨v, _, h⟩ := ebind_ok h
    rw [epure_ok h]; rfl
  | .codeSpan ks, t, h => by
    unfold inlineTree at h
    obtain ⟨cs, hc, h⟩ := ebind_ok h
    rw [epure_ok h]
    simp only [allKinds, notFoot, Bool.true_and]
    exact inlineTrees_notFoot src ks cs hc
  | .emphasis lv ks, t, h => by
    unfold inlineTree at h
    obtain ⟨cs, hc, h⟩ := ebind_ok h
    rw [epure_ok h]
    simp only [allKinds, notFoot, Bool.true_and]
    exact inlineTrees_notFoot src ks cs hc
  | .link im d ti ks, t, h => by
    unfold inlineTree at h
    obtain ⟨cs, hc, h⟩ := ebind_ok h
    rw [epure_ok h]
    cases im <;> simp only [allKinds, notFoot, Bool.true_and, Bool.false_eq_true, if_false, if_true] <;>
      exact inlineTrees_notFoot src ks cs hc
  | .autoLink .., t, h => by
    unfold inlineTree at h
    obtain ⟨v, _, h⟩ := ebind_ok h
    rw [epure_ok h]; rfl
  | .rawHTML .., t, h => by
    unfold inlineTree at h
    obtain ⟨v, _, h⟩ := ebind_ok h
    rw [epure_ok h]; rfl
  | .delim .., t, h => by
    unfold inlineTree at h
    rw [epure_ok h]; rfl
  | .label .., t, h => by
    unfold inlineTree at h
    rw [epure_ok h]; rfl
theorem inlineTrees_notFoot (src : Bytes) : ∀ (ns : List GM.Inl.Node) (ts : List GM.Node),
    inlineTrees src ns = .ok ts → allKindsL notFoot ts = true
  | [], ts, h => by
    unfold inlineTrees at h
    rw [epure_ok h]; rfl
  | n :: rest, ts, h => by
    unfold inlineTrees at h
    obtain ⟨t, h1, h⟩ := ebind_ok h
    obtain ⟨ts', h2, h⟩ := ebind_ok h
    rw [epure_ok h]
    simp only [allKindsL, Bool.and_eq_true]
    exact ⟨inlineTree_notFoot src n t h1, inlineTrees_notFoot src rest ts' h2⟩
end

mutual
theorem docTree_notFoot (g : Bool) (env : GM.Inl.Env) (src : Bytes) : ∀ (t : Tree) (x : GM.Node),
    docTree g env src t = .ok x → allKinds notFoot x = true
  | .node n cs, x, h => by
    unfold docTree at h
    obtain ⟨bs, h1, h⟩ := ebind_ok h
    obtain ⟨kids, _, h⟩ := ebind_ok h
    obtain ⟨is, h3, h⟩ := ebind_ok h
    obtain ⟨k, h4, h⟩ := ebind_ok h
    rw [epure_ok h]
    simp only [allKinds, allKindsL_append, Bool.and_eq_true]
    exact ⟨blockKind_notFoot (liftErr_ok' h4), docTrees_notFoot g env src cs bs h1, inlineTrees_notFoot src _ is (liftErr_ok' h3)⟩
theorem docTrees_notFoot (g : Bool) (env : GM.Inl.Env) (src : Bytes) : ∀ (ts : List Tree) (xs : List GM.Node),
    docTrees g env src ts = .ok xs → allKindsL notFoot xs = true
  | [], xs, h => by
    unfold docTrees at h
    rw [epure_ok h]; rfl
  | t :: rest, xs, h => by
    unfold docTrees at h
    obtain ⟨x, h1, h⟩ := ebind_ok h
    obtain ⟨xs', h2, h⟩ := ebind_ok h
    rw [epure_ok h]
    simp only [allKindsL, Bool.and_eq_true]
    exact ⟨docTree_notFoot g env src t x h1, docTrees_notFoot g env src rest xs' h2⟩
end

theorem renderDocF_notFoot (o : ROpts) (t : GM.Node) (h : allKinds notFoot t = true) :
    renderDocF true none o t = renderDoc o t := by
  have hr : rcfgF true none o = { o.rcfg with exts := { foot := true } } := rfl
  have hk : allKinds (fun k => handled ({ foot := true } : Exts) k == handled o.rcfg.exts k) t = true :=
    allKinds_mono (fun k hk => by
      simp only [beq_iff_eq]
      exact handled_foot {} true false hk) t h
  unfold renderDocF renderDoc
  rw [hr, render, render, renderPanics, renderPanics, renderNode_exts _ _ _ _ _ hk, renderPanicsNode_exts _ _ _ hk]
  rfl

/-- **C11 at whole-document level** for sources without the inline parser's trigger bytes -/
theorem convertF_unused (uc : List (Nat × (Bool × Bool))) (o : ROpts) (src : Bytes) (h91 : (91 : UInt8) ∉ src)
    (h33 : (33 : UInt8) ∉ src) : convertF true none uc o src = convertCore uc o src := by
  unfold convertF convertFWith convertCore convertWith
  rw [parseDocF_unused uc src h91 h33]
  cases hp : parseDoc true uc src with
  | error e => rfl
  | ok t =>
    simp only [bind, Except.bind]
    apply renderDocF_notFoot
    unfold parseDoc at hp
    obtain ⟨st, _, hp⟩ := ebind_ok hp
    exact docTree_notFoot true _ src _ t hp

/-! ### every source without `[^` -/

/-- while the context holds no FootnoteList the inline phase of a block is the default one — whatever the source -/
theorem inlinePhaseF_nolist (env : GM.Inl.Env) (src : Bytes) (n : Blocks.Node) :
    inlinePhaseF true true none env src n = inlinePhase true env src n := by
  unfold inlinePhaseF inlinePhase
  split
  · rfl
  · split
    · rfl
    · split
      · rfl
      · rename_i hw
        have hw' : GM.LinkRef.wf0B src n.lines = true := by simpa using hw
        obtain ⟨W, Z⟩ := GM.Proof.LinkRefTotal.wf0B_sound hw'
        rw [parseBlockX_fn W Z env]

mutual
theorem docTreeF_nolist (env : GM.Inl.Env) (src : Bytes) : ∀ t : Tree,
    docTreeF true true none env src (plainTree t) = docTree true env src t
  | .node n cs => by
    unfold plainTree docTreeF docTree
    rw [docTreesF_nolist env src cs, inlinePhaseF_nolist env src]
    cases hd : docTrees true env src cs with
    | error e => rfl
    | ok bs =>
      cases hk : inlinePhase true env src n with
      | error e => rfl
      | ok kids =>
        simp only [bind, Except.bind]
        rw [inlineTreesF_lvOK _ src kids (inlinePhase_lvOK env src n kids hk)]
        rfl
theorem docTreesF_nolist (env : GM.Inl.Env) (src : Bytes) : ∀ ts : List Tree,
    docTreesF true true none env src (plainTrees ts) = docTrees true env src ts
  | [] => by unfold plainTrees docTreesF docTrees; rfl
  | t :: rest => by
    unfold plainTrees docTreesF docTrees
    rw [docTreeF_nolist env src t, docTreesF_nolist env src rest]
end

theorem parseDocF_cons (uc : List (Nat × (Bool × Bool))) (src : Bytes) (h : GM.Ext.hasInfix [91, 94] src = false) :
    parseDocF true true uc src = parseDoc true uc src := by
  unfold parseDocF parsePhases parseDoc
  rw [blockPhaseF_cons h]
  cases blockPhase true src with
  | error e => rfl
  | ok st =>
    simp only [Except.map, liftErr, bind, Except.bind, listKids, treeOfF_empty, monitor_empty, Bool.false_eq_true, if_false]
    have hnone : (if (({} : FS).list.isSome) = true then some (labelsOf {} st) else none) = none := rfl
    rw [hnone, docTreeF_nolist]
    cases docTree true { refs := st.pc.refs, uc := uc } src (treeOf st.nodes st.nodes.length 0) with
    | error e => rfl
    | ok t => simp [finishDoc, pure, Except.pure]

/-- **C11 at whole-document level**: a source without the two bytes `[^` converts to the same HTML / outcome with and
    without the Footnote extension -/
theorem convertF_cons (uc : List (Nat × (Bool × Bool))) (o : ROpts) (src : Bytes) (h : GM.Ext.hasInfix [91, 94] src = false) :
    convertF true none uc o src = convertCore uc o src := by
  unfold convertF convertFWith convertCore convertWith
  rw [parseDocF_cons uc src h]
  cases hp : parseDoc true uc src with
  | error e => rfl
  | ok t =>
    simp only [bind, Except.bind]
    apply renderDocF_notFoot
    unfold parseDoc at hp
    obtain ⟨st, _, hp⟩ := ebind_ok hp
    exact docTree_notFoot true _ src _ t hp

end GM.ConvertF
