/-
  GM.Proof.ConvertFAnchor — a provable part of `BlockNoLoopF`: the ancestor loop of `(*footnoteBlockParser).Close`
  (`anchorLoop`, footnote.go:96-100) has enough fuel whenever the parent-pointer chain of the closing node reaches node 0 of a
  tree-shaped store: the nodes on the chain are pairwise different (node 0 has no parent, so a node has one depth) and exist,
  hence there are at most `nodes.length` of them (pigeonhole).
-/
import GM.Proof.ConvertFOnce
import GM.Proof.ConvertFDisc
import GM.Proof.ForestLists

namespace GM.ConvertF
open GM GM.Text GM.Blocks GM.Convert GM.ConvertH

theorem anc_succ {s : St} {c x : Nat} (hp : (ndx s c).parent = some x) (e : Nat) : anc s (e + 1) c = anc s e x := by
  conv => lhs; unfold anc
  rw [hp]

/-- the parent-pointer chain that starts with `po` ends within `n` steps -/
def ends (s : St) : Nat → Option Nat → Prop
  | 0, po => po = none
  | n + 1, po => po = none ∨ ∃ p, po = some p ∧ ends s n (ndx s p).parent

theorem anchorLoop_of_ends (f : FS) (s : St) : ∀ (k n : Nat) (po : Option Nat) (a : Nat), ends s n po → n < k →
    (anchorLoop f s.nodes k po a).isSome = true
  | 0, n, _, _, _, h => by omega
  | k + 1, n, none, a, _, _ => by simp [anchorLoop]
  | k + 1, 0, some p, a, he, _ => by simp [ends] at he
  | k + 1, n + 1, some p, a, he, h => by
    simp only [anchorLoop]
    rcases he with he | ⟨q, hq, he⟩
    · cases he
    · cases hq
      exact anchorLoop_of_ends f s k n _ _ he (by omega)

theorem ends_of_anc (s : St) (w : TreeWF s) : ∀ (d x : Nat), anc s d x = some 0 → ends s d (ndx s x).parent
  | 0, x, h => by
    have : x = 0 := by simpa [anc] using h
    subst this
    simp [ends, w.root]
  | d + 1, x, h => by
    unfold anc at h
    cases hp : (ndx s x).parent with
    | none => rw [hp] at h; cases h
    | some p =>
      rw [hp] at h
      exact Or.inr ⟨p, rfl, ends_of_anc s w d p h⟩

/-- the nodes on the chain from `x` up to node 0 -/
def chainOf (s : St) : Nat → Nat → List Nat
  | 0, x => [x]
  | d + 1, x =>
    match (ndx s x).parent with
    | none => [x]
    | some p => x :: chainOf s d p

theorem chainOf_length (s : St) : ∀ (d x : Nat), anc s d x = some 0 → (chainOf s d x).length = d + 1
  | 0, _, _ => rfl
  | d + 1, x, h => by
    unfold anc at h
    unfold chainOf
    cases hp : (ndx s x).parent with
    | none => rw [hp] at h; cases h
    | some p => rw [hp] at h; simp [chainOf_length s d p h]

theorem chainOf_mem (s : St) : ∀ (d x y : Nat), anc s d x = some 0 → y ∈ chainOf s d x → ∃ e, e ≤ d ∧ anc s e x = some y ∧
    anc s (d - e) y = some 0
  | 0, x, y, h, hy => by
    simp [chainOf] at hy
    subst hy
    exact ⟨0, Nat.le_refl _, rfl, h⟩
  | d + 1, x, y, h, hy => by
    have h0 := h
    unfold anc at h
    unfold chainOf at hy
    cases hp : (ndx s x).parent with
    | none => rw [hp] at h; cases h
    | some p =>
      rw [hp] at h hy
      rcases List.mem_cons.1 hy with rfl | hy
      · exact ⟨0, Nat.zero_le _, rfl, h0⟩
      · obtain ⟨e, he, h1, h2⟩ := chainOf_mem s d p y h hy
        refine ⟨e + 1, by omega, ?_, by rw [show d + 1 - (e + 1) = d - e by omega]; exact h2⟩
        rw [anc_succ hp]; exact h1

theorem chainOf_valid (s : St) (w : TreeWF s) : ∀ (d x : Nat), x < s.nodes.length → anc s d x = some 0 →
    ∀ y ∈ chainOf s d x, y < s.nodes.length
  | 0, x, hx, _, y, hy => by simp [chainOf] at hy; subst hy; exact hx
  | d + 1, x, hx, h, y, hy => by
    unfold anc at h
    unfold chainOf at hy
    cases hp : (ndx s x).parent with
    | none => rw [hp] at h; cases h
    | some p =>
      rw [hp] at h hy
      rcases List.mem_cons.1 hy with rfl | hy
      · exact hx
      · have hpv : p < s.nodes.length := by
          cases hlt : decide (p < s.nodes.length) with
          | true => simpa using hlt
          | false =>
            exfalso
            have hge : s.nodes.length ≤ p := by simpa using hlt
            cases d with
            | zero =>
              have : p = 0 := by simpa [anc] using h
              have := w.ne
              omega
            | succ d =>
              simp only at h
              unfold anc at h
              rw [ndx_ge s hge] at h
              cases h
        exact chainOf_valid s w d p hpv h y hy

theorem chainOf_nodup (s : St) (w : TreeWF s) : ∀ (d x : Nat), anc s d x = some 0 → (chainOf s d x).Nodup
  | 0, x, _ => by simp [chainOf]
  | d + 1, x, h => by
    have h0 := h
    unfold anc at h
    unfold chainOf
    cases hp : (ndx s x).parent with
    | none => rw [hp] at h; cases h
    | some p =>
      rw [hp] at h
      simp only
      refine List.nodup_cons.2 ⟨fun hin => ?_, chainOf_nodup s w d p h⟩
      obtain ⟨e, he, _, h2⟩ := chainOf_mem s d p x h hin
      have := anc_depth w _ _ x h2 h0
      omega

/-- **`anchorLoop` has enough fuel** for a node whose parent-pointer chain reaches node 0 of a tree-shaped store -/
theorem anchorLoop_terminates (f : FS) (s : St) (w : TreeWF s) (d x : Nat) (hx : x < s.nodes.length)
    (hd : anc s d x = some 0) : (anchorLoop f s.nodes (s.nodes.length + 1) (ndx s x).parent x).isSome = true := by
  have hlen := GM.Proof.ForestLists.length_le_of_nodup_lt (chainOf_nodup s w d x hd) (chainOf_valid s w d x hx hd)
  rw [chainOf_length s d x hd] at hlen
  exact anchorLoop_of_ends f s _ d _ _ (ends_of_anc s w d x hd) (by omega)

/-! ### `(*footnoteBlockParser).Close` does not run out of fuel on such a node -/

theorem anc_lr {s s' : St} (h : LR s s') : ∀ (d x : Nat), anc s' d x = anc s d x
  | 0, _ => rfl
  | d + 1, x => by
    unfold anc
    rw [(h.links x).1]
    cases (ndx s x).parent with
    | none => rfl
    | some p => exact anc_lr h d p

theorem mf_bind_err {α β} {m : MF α} {k : α → MF β} {f : FS} {s : St} {e : Panic} (h : (m >>= k) f s = .error e) :
    m f s = .error e ∨ ∃ a f' s', m f s = .ok ((a, f'), s') ∧ k a f' s' = .error e := by
  rw [mf_bind_apply] at h
  cases hm : m f s with
  | error e' => rw [hm] at h; left; exact congrArg _ (by cases h; rfl)
  | ok r => obtain ⟨⟨a, f'⟩, s'⟩ := r; rw [hm] at h; exact Or.inr ⟨a, f', s', rfl, h⟩

theorem upF_err {α} {x : M α} {f : FS} {s : St} {e : Panic} (h : (GM.ConvertF.up x) f s = .error e) : x s = .error e := by
  rw [upF_apply] at h
  cases hx : x s with
  | error e' => rw [hx] at h; cases h; rfl
  | ok r => rw [hx] at h; cases h

theorem removeChild_total (p c : Nat) (s : St) : ∃ s', removeChild p c s = .ok ((), s') := by
  unfold removeChild
  simp only [bind, StateT.bind, getNode, modNode, Except.bind, pure, StateT.pure, Except.pure, get, getThe, MonadStateOf.get,
    StateT.get, modify, modifyGet, MonadStateOf.modifyGet, StateT.modifyGet]
  split <;> exact ⟨_, rfl⟩

/-- never fails -/
structure Tot {α : Type} (m : M α) : Prop where
  h : ∀ s, ∃ a s', m s = .ok (a, s')

theorem Tot.pure {α} (a : α) : Tot (Pure.pure a : M α) := ⟨fun s => ⟨a, s, rfl⟩⟩
theorem Tot.bind {α β} {m : M α} {k : α → M β} (hm : Tot m) (hk : ∀ a, Tot (k a)) : Tot (m >>= k) := by
  constructor
  intro s
  obtain ⟨a, s', h⟩ := hm.h s
  obtain ⟨b, s'', h'⟩ := (hk a).h s'
  refine ⟨b, s'', ?_⟩
  show (StateT.bind m k) s = _
  simp only [StateT.bind, h, bind, Except.bind]
  exact h'
theorem Tot.ite {α} {c : Prop} [Decidable c] {a b : M α} (ha : Tot a) (hb : Tot b) : Tot (if c then a else b) := by
  split <;> assumption
theorem getNode_tot (id : Nat) : Tot (getNode id) := ⟨fun s => ⟨_, s, rfl⟩⟩
theorem modNode_tot (id : Nat) (g : Blocks.Node → Blocks.Node) : Tot (modNode id g) := ⟨fun s => ⟨(), _, rfl⟩⟩

macro "tot_step" : tactic =>
  `(tactic| first
    | exact Tot.pure _
    | exact getNode_tot _
    | exact modNode_tot _ _
    | apply_hyp
    | with_reducible apply Tot.bind
    | with_reducible apply Tot.ite
    | intro _
    | split)
macro "tot" : tactic => `(tactic| repeat' tot_step)

theorem removeChild_tot (p c : Nat) : Tot (removeChild p c) := by unfold removeChild; tot
theorem ensureIsolated_tot (c : Nat) : Tot (ensureIsolated c) := by
  have := removeChild_tot
  unfold ensureIsolated; tot
theorem appendChild_tot (p c : Nat) : Tot (appendChild p c) := by
  have := ensureIsolated_tot
  unfold appendChild; tot
theorem insertBefore_tot (p : Nat) (v : Option Nat) (ins : Nat) : Tot (insertBefore p v ins) := by
  have := ensureIsolated_tot
  have := appendChild_tot
  unfold insertBefore; tot

theorem upF_tot_err {α} {x : M α} (hx : Tot x) {f : FS} {s : St} {e : Panic} (h : (GM.ConvertF.up x) f s = .error e) : False := by
  have := upF_err h
  obtain ⟨a, s', h'⟩ := hx.h s
  rw [h'] at this
  cases this

theorem fnCloseTail_noLoop (list node : Nat) (f : FS) (s : St) (e : Panic) (h : fnCloseTail list node f s = .error e) :
    e ≠ .loop := by
  unfold fnCloseTail at h
  rcases mf_bind_err h with h1 | ⟨nd, f1, s1, _, h⟩
  · exact (upF_tot_err (getNode_tot node) h1).elim
  · dsimp only at h
    cases hp : nd.parent with
    | none =>
      rw [hp] at h
      rcases mf_bind_err h with h1 | ⟨_, _, _, h1, _⟩
      · cases h1; decide
      · cases h1
    | some p =>
      rw [hp] at h
      rcases mf_bind_err h with h1 | ⟨_, f2, s2, _, h⟩
      · exact (upF_tot_err (removeChild_tot _ _) h1).elim
      · exact (upF_tot_err (appendChild_tot _ _) h).elim

/-- **`Close` of a Footnote whose parent-pointer chain reaches node 0 of a tree-shaped store does not answer `loop`** -/
theorem fnClose_noLoop (node d : Nat) (f : FS) (s : St) (w : TreeWF s) (hv : node < s.nodes.length)
    (hd : anc s d node = some 0) (e : Panic) (h : fnClose node f s = .error e) : e ≠ .loop := by
  unfold fnClose at h
  rcases mf_bind_err h with h1 | ⟨f0, f1, s1, e0, h⟩
  · cases h1
  · obtain ⟨h0, h1, h2⟩ := getF_ok e0
    subst h0 h1 h2
    dsimp only at h
    generalize hl : f.list = o at h
    cases o with
    | some l =>
      rcases mf_bind_err h with h1 | ⟨list, f2, s2, e1, h⟩
      · cases h1
      · exact fnCloseTail_noLoop _ node _ _ e h
    | none =>
      rcases mf_bind_err h with h1 | ⟨l, f3, s3, g1, h⟩
      · have := upF_err h1; cases this
      · obtain ⟨hf3, hnew⟩ := upF_ok' g1
        obtain ⟨hl3, hs3⟩ := newNode_ok hnew
        subst hf3 hl3 hs3
        have hlr : LR s { s with nodes := s.nodes ++ [{ kind := Blocks.Kind.blockquote }] } :=
          (GM.ConvertH.newNode_lk _ rfl rfl).h _ _ _ hnew
        rcases mf_bind_err h with h1 | ⟨_, f4, s4, g2, h⟩
        · cases h1
        · obtain ⟨hf4, hs4⟩ := setF_ok g2
          subst hf4 hs4
          rcases mf_bind_err h with h1 | ⟨st, f5, s5, g3, h⟩
          · have := upF_err h1; cases this
          · obtain ⟨hf5, hget⟩ := upF_ok' g3
            have hget' : st = ({ s with nodes := s.nodes ++ [{ kind := Blocks.Kind.blockquote }] } : St) ∧
                s5 = ({ s with nodes := s.nodes ++ [{ kind := Blocks.Kind.blockquote }] } : St) := by cases hget; exact ⟨rfl, rfl⟩
            obtain ⟨hst, hs5⟩ := hget'
            subst hf5 hst hs5
            dsimp only at h
            have hsome := anchorLoop_terminates f { s with nodes := s.nodes ++ [{ kind := Blocks.Kind.blockquote }] } (hlr.wf w) d node
              (Nat.lt_of_lt_of_le hv hlr.len) (by rw [anc_lr hlr]; exact hd)
            simp only [ndx] at hsome
            generalize anchorLoop f _ _ _ node = r at h hsome
            cases r with
            | none => cases hsome
            | some anchor =>
              dsimp only at h
              generalize Blocks.Node.parent _ = q at h
              cases q with
              | none =>
                rcases mf_bind_err h with h1 | ⟨_, _, _, h1, _⟩
                · cases h1; decide
                · cases h1
              | some ap =>
                rcases mf_bind_err h with h1 | ⟨_, f6, s6, _, h⟩
                · exact (upF_tot_err (insertBefore_tot _ _ _) h1).elim
                · rcases mf_bind_err h with h1 | ⟨list, f2, s2, e2, h⟩
                  · cases h1
                  · exact fnCloseTail_noLoop _ node _ _ e h

end GM.ConvertF
