/-
  GM.Proof.ConvertFDecline — the decline paths of the two footnote parsers ON THE CONCRETE MODELS (GM.Model.ExtFootnoteX):
  on a line without the two bytes `[^` the block parser's Open returns (nil, NoChildren) and leaves the footnote state
  alone (the reader's line cache is the only thing it may have filled); without a FootnoteList in the context the inline
  parser returns nil on every line.
-/
import GM.Proof.ConvertFSim
import GM.Proof.ExtDecline

namespace GM.ConvertF
open GM GM.Text GM.Blocks GM.Convert

theorem idx_ok {line : Bytes} {i : Int} {c : UInt8} (h : idx line i = .ok c) : 0 ≤ i ∧ line[i.toNat]? = some c := by
  unfold idx getByte at h
  split at h
  · cases h
  · rename_i hi
    split at h
    · rename_i b hb
      cases h
      exact ⟨by omega, hb⟩
    · cases h

/-- footnote.go:37-57 on a line without the two bytes `[^`: `return nil, parser.NoChildren` (or the index panic of
    `line[pos]` when the block offset lies outside the line) -/
theorem fnOpenScan_declines (line : Bytes) (pos : Int) (h : GM.Ext.hasInfix [91, 94] line = false) :
    fnOpenScan line pos = .ok none ∨ fnOpenScan line pos = .error .index := by
  unfold fnOpenScan
  simp only [bind, Except.bind, pure, Except.pure]
  by_cases hp : pos < 0
  · simp [hp]
  · simp only [hp, if_false]
    cases h1 : idx line pos with
    | error e =>
      right
      unfold idx getByte at h1
      split at h1
      · cases h1; rfl
      · split at h1
        · cases h1
        · cases h1; rfl
    | ok c =>
      simp only []
      by_cases hc : c = 91
      · subst hc
        simp only [bne_self_eq_false, Bool.false_eq_true, if_false]
        by_cases hl : pos + 1 > (line.length : Int) - 1
        · simp [hl]
        · simp only [hl, if_false]
          cases h2 : idx line (pos + 1) with
          | error e =>
            right
            unfold idx getByte at h2
            split at h2
            · cases h2; rfl
            · split at h2
              · cases h2
              · cases h2; rfl
          | ok d =>
            simp only []
            by_cases hd : d = 94
            · exfalso
              subst hd
              obtain ⟨hp0, g1⟩ := idx_ok h1
              obtain ⟨_, g2⟩ := idx_ok h2
              have e : (pos + 1).toNat = pos.toNat + 1 := by omega
              rw [e] at g2
              have := GM.Ext.hasInfix_two (l := line) (p := pos.toNat) (a := 91) (b := 94) g1 g2
              rw [this] at h
              cases h
            · have : (d != 94) = true := by simp [hd]
              simp [this]
      · have : (c != 91) = true := by simp [hc]
        simp [this]

/-- (*footnoteBlockParser).Open on a line without `[^`: when it returns, it returns (nil, NoChildren), the footnote state
    is untouched and the `St` is the one `peekLine` leaves (the line cache filled) -/
theorem fnOpen_declines (parent : Nat) (f : FS) (s : St) (line : Bytes) (seg : Segment) (r' : Reader)
    (hp : s.r.peekLine = .ok ((some line, seg), r')) (h : GM.Ext.hasInfix [91, 94] line = false) :
    fnOpen parent f s = .ok (((none, stNoChildren), f), { s with r := r' }) ∨ fnOpen parent f s = .error .index := by
  unfold fnOpen
  rw [mf_bind_apply, upF_apply]
  have hpl : peekLine s = .ok ((some line, seg), { s with r := r' }) := by
    simp only [peekLine, hp, bind, Except.bind, pure, Except.pure]
  rw [hpl]
  simp only [Option.getD]
  rw [mf_bind_apply, upF_apply]
  simp only [getPc, pure, StateT.pure, Except.pure]
  rw [mf_bind_apply, upF_apply]
  rcases fnOpenScan_declines line s.pc.blockOffset h with h1 | h1
  · left
    simp only [liftE, h1, Except.map]
    rfl
  · right
    simp only [liftE, h1, Except.map]

/-- (*footnoteParser).Parse while the context holds no FootnoteList: nil on every line, the parent's children untouched
    (the reader may have been advanced; parser.go:1213-1219 puts it back) -/
theorem parseFootnote_noList (env : GM.Inl.Env) (st : GM.Inl.St) :
    ∀ r, parseFootnote none env st = .ok r → r.1 = none ∧ r.2.kids = st.kids := by
  intro r hr
  unfold parseFootnote at hr
  simp only [bind, Except.bind, pure, Except.pure] at hr
  cases hpl : st.rd.peekLine with
  | error e => rw [hpl] at hr; cases hr
  | ok pl =>
    obtain ⟨⟨line, segment⟩, rd⟩ := pl
    rw [hpl] at hr
    simp only [] at hr
    repeat' split at hr
    all_goals first
      | (cases hr; exact ⟨rfl, rfl⟩)
      | skip
    all_goals cases hr

end GM.ConvertF
