/-
  GM.Proof.ConvertHWF — tree well-formedness of the block-phase node store and the frame calculus `Lk` used to carry
  it through every parser function.

  * `TreeWF s`  — every child edge `c ∈ children p` points to an existing node whose parent pointer is `p`; child lists
                  are duplicate-free; the Document (node 0) has no parent.
  * `LR s s'`   — the store grew, the tree links (parent, children) of EVERY index are what they were (so new nodes are
                  unlinked), kinds of existing nodes are what they were, and `pc.openedBlocks` is what it was.
  * `Lk m`      — whenever `m` ends normally, start and end state are related by `LR`. Closed under the do-constructs;
                  tactic `lk` walks a do block down to the store primitives: `newNode n` needs `n.parent = none`,
                  `n.children = []`; `modNode id f` needs `f` to keep parent / children / kind; `modPc f` needs `f` to
                  keep `opened`.
  * `StepR s s'`— what the driver invariant needs from ANY step of a block parser / paragraph transformer (also the tree
                  surgery of Close): store grows, kinds stay, `opened` stays, and from a well-formed store: the new store
                  is well-formed and no child edge to a Heading node is new.
-/
import GM.Proof.BlocksPres
import GM.Model.ConvertH

namespace GM.ConvertH
open GM GM.Text GM.Blocks

/-! ### inversion of a normal end (copies of the lemmas of GM.Proof.IndepFrame, which cannot be imported next to
  GM.Proof.BlocksSpecList: both define `GM.Blocks.ensureIsolated_fr`) -/

theorem bind_ok {α β} {m : M α} {f : α → M β} {s : St} {b : β} {s'' : St} (h : (m >>= f) s = .ok (b, s'')) :
    ∃ a s', m s = .ok (a, s') ∧ f a s' = .ok (b, s'') := by
  simp only [Bind.bind, StateT.bind] at h
  cases hm : m s with
  | error e => rw [hm] at h; simp [Except.bind] at h
  | ok p => rw [hm] at h; exact ⟨p.1, p.2, rfl, h⟩

theorem pure_ok {α} {a b : α} {s s' : St} (h : (pure a : M α) s = .ok (b, s')) : b = a ∧ s' = s := by
  cases h; exact ⟨rfl, rfl⟩

theorem liftE_ok {α} {e : Except Panic α} {s : St} {a : α} {s' : St} (h : liftE e s = .ok (a, s')) :
    e = .ok a ∧ s' = s := by
  cases e with
  | ok v => simp only [liftE, Except.map] at h; cases h; exact ⟨rfl, rfl⟩
  | error x => simp [liftE, Except.map] at h

theorem modPc_ok {f : Ctx → Ctx} {s : St} {a : Unit} {s' : St} (h : modPc f s = .ok (a, s')) :
    s' = { s with pc := f s.pc } := by cases h; rfl

theorem getPc_ok {s : St} {a : Ctx} {s' : St} (h : getPc s = .ok (a, s')) : a = s.pc ∧ s' = s := by
  cases h; exact ⟨rfl, rfl⟩

theorem getNode_ok {id : Nat} {s : St} {a : Blocks.Node} {s' : St} (h : getNode id s = .ok (a, s')) :
    a = s.nodes.getD id default ∧ s' = s := by cases h; exact ⟨rfl, rfl⟩

theorem modNode_ok {id : Nat} {f : Blocks.Node → Blocks.Node} {s : St} {a : Unit} {s' : St}
    (h : modNode id f s = .ok (a, s')) :
    s' = { s with nodes := s.nodes.set id (f (s.nodes.getD id default)) } := by cases h; rfl

theorem newNode_ok {n : Blocks.Node} {s : St} {a : Nat} {s' : St} (h : newNode n s = .ok (a, s')) :
    a = s.nodes.length ∧ s' = { s with nodes := s.nodes ++ [n] } := by cases h; exact ⟨rfl, rfl⟩

theorem closeSlice_ok {l : List Block} {a b : Int} {r : List Block} (h : closeBlocks.slice' l a b = .ok r) :
    0 ≤ a ∧ a ≤ b ∧ b ≤ l.length ∧ r = (l.drop a.toNat).take (b - a).toNat := by
  unfold closeBlocks.slice' at h
  split at h
  · cases h; rename_i hc; exact ⟨hc.1, hc.2.1, hc.2.2, rfl⟩
  · cases h

/-- store lookup -/
def ndx (s : St) (i : Nat) : Blocks.Node := s.nodes.getD i default

structure TreeWF (s : St) : Prop where
  edge : ∀ p c, c ∈ (ndx s p).children → c < s.nodes.length ∧ (ndx s c).parent = some p
  nodup : ∀ p, (ndx s p).children.Nodup
  root : (ndx s 0).parent = none
  ne : 0 < s.nodes.length
  rootKind : (ndx s 0).kind = .document

structure LR (s s' : St) : Prop where
  len : s.nodes.length ≤ s'.nodes.length
  links : ∀ i, (ndx s' i).parent = (ndx s i).parent ∧ (ndx s' i).children = (ndx s i).children
  kind : ∀ i, i < s.nodes.length → (ndx s' i).kind = (ndx s i).kind
  opened : s'.pc.opened = s.pc.opened

theorem LR.refl (s : St) : LR s s := ⟨Nat.le_refl _, fun _ => ⟨rfl, rfl⟩, fun _ _ => rfl, rfl⟩

theorem LR.trans {a b c : St} (h1 : LR a b) (h2 : LR b c) : LR a c where
  len := Nat.le_trans h1.len h2.len
  links := fun i => ⟨(h2.links i).1.trans (h1.links i).1, (h2.links i).2.trans (h1.links i).2⟩
  kind := fun i hi => (h2.kind i (Nat.lt_of_lt_of_le hi h1.len)).trans (h1.kind i hi)
  opened := h2.opened.trans h1.opened

theorem LR.of_same {s s' : St} (hn : s'.nodes = s.nodes) (hp : s'.pc = s.pc) : LR s s' :=
  ⟨by rw [hn]; exact Nat.le_refl _, fun i => by simp [ndx, hn], fun i _ => by simp only [ndx, hn],
   by rw [hp]⟩

theorem LR.wf {s s' : St} (h : LR s s') (w : TreeWF s) : TreeWF s' where
  edge := fun p c hc => by
    rw [(h.links p).2] at hc
    obtain ⟨a, b⟩ := w.edge p c hc
    exact ⟨Nat.lt_of_lt_of_le a h.len, by rw [(h.links c).1]; exact b⟩
  nodup := fun p => by rw [(h.links p).2]; exact w.nodup p
  root := by rw [(h.links 0).1]; exact w.root
  ne := Nat.lt_of_lt_of_le w.ne h.len
  rootKind := by rw [h.kind 0 w.ne]; exact w.rootKind

/-- `m` only reads the tree links -/
structure Lk {α : Type} (m : M α) : Prop where
  h : ∀ s a s', m s = .ok (a, s') → LR s s'

theorem Lk.pure {α} (a : α) : Lk (Pure.pure a : M α) := ⟨fun s _ _ h => by cases h; exact LR.refl s⟩

theorem Lk.bind {α β} {m : M α} {f : α → M β} (hm : Lk m) (hf : ∀ a, Lk (f a)) : Lk (m >>= f) := by
  constructor
  intro s b s'' h
  obtain ⟨a, s', h1, h2⟩ := bind_ok h
  exact (hm.h s a s' h1).trans ((hf a).h s' b s'' h2)

theorem Lk.ite {α} {c : Prop} [Decidable c] {a b : M α} (ha : Lk a) (hb : Lk b) : Lk (if c then a else b) := by
  split <;> assumption

theorem Lk.throw {α} (e : Panic) : Lk (throw e : M α) := ⟨fun _ _ _ h => by cases h⟩

theorem Lk.of_same {α} {m : M α} (h : ∀ s a s', m s = .ok (a, s') → s'.nodes = s.nodes ∧ s'.pc = s.pc) : Lk m :=
  ⟨fun s a s' e => LR.of_same (h s a s' e).1 (h s a s' e).2⟩

theorem getNode_lk (id : Nat) : Lk (getNode id) := .of_same fun _ _ _ h => by cases h; exact ⟨rfl, rfl⟩
theorem getPc_lk : Lk getPc := .of_same fun _ _ _ h => by cases h; exact ⟨rfl, rfl⟩
theorem source_lk : Lk source := .of_same fun _ _ _ h => by cases h; exact ⟨rfl, rfl⟩
theorem position_lk : Lk position := .of_same fun _ _ _ h => by cases h; exact ⟨rfl, rfl⟩
theorem get_lk : Lk (get : M St) := .of_same fun _ _ _ h => by cases h; exact ⟨rfl, rfl⟩
theorem setPosition_lk (l : Int) (p : Segment) : Lk (setPosition l p) := .of_same fun _ _ _ h => by cases h; exact ⟨rfl, rfl⟩
theorem advanceLine_lk : Lk advanceLine := .of_same fun _ _ _ h => by cases h; exact ⟨rfl, rfl⟩

theorem liftE_lk {α} (e : Except Panic α) : Lk (liftE e) := .of_same fun s a s' h => by
  obtain ⟨_, rfl⟩ := liftE_ok h; exact ⟨rfl, rfl⟩

theorem reader_lk {α β} (f : Reader → Except Panic (α × Reader)) (g : α → β) :
    Lk (fun s => do let (x, r) ← f s.r; Pure.pure (g x, { s with r := r }) : M β) := .of_same fun s a s' h => by
  simp only [bind, Except.bind] at h
  cases hf : f s.r with
  | error e => rw [hf] at h; cases h
  | ok p => rw [hf] at h; cases h; exact ⟨rfl, rfl⟩

theorem peekLine_lk : Lk peekLine := reader_lk (fun r => r.peekLine) id
theorem lineOffset_lk : Lk lineOffset := reader_lk (fun r => r.lineOffsetOp) id
theorem skipBlankLinesR_lk : Lk skipBlankLinesR :=
  .of_same fun s a s' h => by
    unfold skipBlankLinesR at h
    simp only [bind, Except.bind] at h
    cases hf : skipBlankLines readerOps (loopFuel s.r.source) 0 s.r with
    | error e => rw [hf] at h; cases h
    | ok p => rw [hf] at h; cases h; exact ⟨rfl, rfl⟩

theorem advance_lk (n : Int) : Lk (advance n) := .of_same fun s a s' h => by
  unfold advance at h
  simp only [bind, Except.bind] at h
  cases hf : s.r.advance n with
  | error e => rw [hf] at h; cases h
  | ok p => rw [hf] at h; cases h; exact ⟨rfl, rfl⟩

theorem advanceAndSetPadding_lk (n p : Int) : Lk (advanceAndSetPadding n p) := .of_same fun s a s' h => by
  unfold advanceAndSetPadding at h
  simp only [bind, Except.bind] at h
  cases hf : s.r.advanceAndSetPadding n p with
  | error e => rw [hf] at h; cases h
  | ok p => rw [hf] at h; cases h; exact ⟨rfl, rfl⟩

theorem modPc_lk (f : Ctx → Ctx) (hf : ∀ pc, (f pc).opened = pc.opened) : Lk (modPc f) :=
  ⟨fun s a s' h => by
    have := modPc_ok h; subst this
    exact ⟨Nat.le_refl _, fun _ => ⟨rfl, rfl⟩, fun _ _ => rfl, hf s.pc⟩⟩

theorem ndx_set (s : St) (id : Nat) (m : Blocks.Node) (i : Nat) (r : Reader) (pc : Ctx) :
    ndx { r := r, nodes := s.nodes.set id m, pc := pc } i = if i = id ∧ id < s.nodes.length then m else ndx s i := by
  simp only [ndx, List.getD_eq_getElem?_getD, List.getElem?_set]
  by_cases h : id = i
  · subst h
    by_cases h2 : id < s.nodes.length
    · simp [h2]
    · simp [h2]
  · have : ¬ (i = id ∧ id < s.nodes.length) := fun e => h e.1.symm
    simp [h, this]

theorem ndx_append (s : St) (n : Blocks.Node) (i : Nat) (r : Reader) (pc : Ctx) :
    ndx { r := r, nodes := s.nodes ++ [n], pc := pc } i = if i = s.nodes.length then n else ndx s i := by
  simp only [ndx, List.getD_eq_getElem?_getD]
  by_cases h : i < s.nodes.length
  · rw [List.getElem?_append_left h]
    have : i ≠ s.nodes.length := Nat.ne_of_lt h
    simp [this]
  · by_cases h2 : i = s.nodes.length
    · subst h2; simp
    · have h3 : s.nodes.length < i := by omega
      rw [List.getElem?_append_right (by omega)]
      have : ¬ i - s.nodes.length = 0 := by omega
      simp [h2, List.getElem?_eq_none (Nat.le_of_lt h3)]
      cases hk : i - s.nodes.length with
      | zero => exact absurd hk this
      | succ k => simp

theorem ndx_ge (s : St) {i : Nat} (h : s.nodes.length ≤ i) : ndx s i = default := by
  simp [ndx, List.getD_eq_getElem?_getD, List.getElem?_eq_none h]

theorem modNode_lk (id : Nat) (f : Blocks.Node → Blocks.Node)
    (hf : ∀ n, (f n).parent = n.parent ∧ (f n).children = n.children ∧ (f n).kind = n.kind) : Lk (modNode id f) :=
  ⟨fun s a s' h => by
    have := modNode_ok h; subst this
    refine ⟨by simp, fun i => ?_, fun i _ => ?_, rfl⟩
    · rw [ndx_set]; split
      · rename_i e; rw [e.1]; exact ⟨(hf _).1, (hf _).2.1⟩
      · exact ⟨rfl, rfl⟩
    · rw [ndx_set]; split
      · rename_i e; rw [e.1]; exact (hf _).2.2
      · rfl⟩

theorem appendLine_lk (id : Nat) (seg : Segment) : Lk (appendLine id seg) :=
  modNode_lk id _ (fun _ => ⟨rfl, rfl, rfl⟩)

theorem newNode_lk (n : Blocks.Node) (hp : n.parent = none) (hc : n.children = []) : Lk (newNode n) :=
  ⟨fun s a s' h => by
    obtain ⟨_, rfl⟩ := newNode_ok h
    refine ⟨by simp, fun i => ?_, fun i hi => ?_, rfl⟩
    · rw [ndx_append]; split
      · rename_i e; rw [e, ndx_ge s (Nat.le_refl _), hp, hc]; exact ⟨rfl, rfl⟩
      · exact ⟨rfl, rfl⟩
    · rw [ndx_append]; split
      · rename_i e; omega
      · rfl⟩

macro "lk_step" : tactic =>
  `(tactic| first
    | with_reducible apply Lk.pure
    | with_reducible apply Lk.bind
    | with_reducible apply Lk.ite
    | with_reducible apply Lk.throw
    | with_reducible apply getNode_lk
    | with_reducible apply getPc_lk
    | with_reducible apply source_lk
    | with_reducible apply position_lk
    | with_reducible apply setPosition_lk
    | with_reducible apply get_lk
    | with_reducible apply peekLine_lk
    | with_reducible apply lineOffset_lk
    | with_reducible apply advance_lk
    | with_reducible apply advanceAndSetPadding_lk
    | with_reducible apply advanceLine_lk
    | with_reducible apply liftE_lk
    | with_reducible apply appendLine_lk
    | ((with_reducible apply modNode_lk); intro _; exact ⟨rfl, rfl, rfl⟩)
    | ((with_reducible apply modPc_lk); intro _; rfl)
    | ((with_reducible apply newNode_lk) <;> rfl)
    | apply_hyp
    | intro _
    | split)

/-- walk over an `M` do block -/
macro "lk" : tactic => `(tactic| repeat' lk_step)

end GM.ConvertH
