/-
  GM.Proof.QuoteSimFinalL — `GM.Proof.QuoteSimFinal` for stores WITH List / ListItem nodes: from the simulation
  relation between the two final node stores, plus the agreement of the `HasBlankPreviousLines` flags of the
  related nodes, to the equality of the two canonical dumps that `quoteSimPair` compares.
-/
import GM.Proof.QuoteSimFinal

namespace GM.Blocks
open GM GM.Text

/-- the per-node clause of `WellShapedL`: `QsNodeOK` without "no List / ListItem" -/
def QsNodeOKL (n : Node) : Prop :=
  (∀ l ∈ n.lines, l.start < l.stop) ∧
    (∀ i, n.info = some i → i.start < i.stop) ∧ (0 ≤ n.closure.start → n.closure.start < n.closure.stop) ∧
    0 ∉ n.children

/-- `WellShaped` without the clause on the kinds: the Document has no lines of its own, no line / info / closure
    segment is empty, and the Document is nobody's child -/
def WellShapedL (s : St) : Prop :=
  (s.nodes.getD 0 default).lines = [] ∧ ∀ n ∈ s.nodes, QsNodeOKL n

instance (s : St) : Decidable (WellShapedL s) := by unfold WellShapedL QsNodeOKL; infer_instance

theorem QsNodeOK.toL {n : Node} (h : QsNodeOK n) : QsNodeOKL n := h.2

theorem WellShaped.toL {s : St} (h : WellShaped s) : WellShapedL s :=
  ⟨h.1, fun n hn => (h.2 n hn).2⟩

theorem nodeOK_default_qsL : QsNodeOKL (default : Node) := nodeOK_default_qs.toL

theorem WellShapedL.getD {s : St} (h : WellShapedL s) (i : Nat) : QsNodeOKL (s.nodes.getD i default) := by
  rw [List.getD_eq_getElem?_getD]
  cases hg : s.nodes[i]? with
  | none => exact nodeOK_default_qsL
  | some n => exact h.2 n (List.mem_of_getElem? hg)

/-- the `HasBlankPreviousLines` flags of the related non-root nodes agree -/
def FlagsEq (nA nB : List Node) : Prop :=
  ∀ i, i ≠ 0 → (nB.getD (i + 1) default).blankPrev = (nA.getD i default).blankPrev

/-- what `Tree.readBlank keep` does to a node -/
def keepN (keep : Bool) (a : Node) : Node := { a with blankPrev := keep && a.blankPrev }

/-- the mapped node of A prints like the node of B, the flag kept or erased on both sides -/
theorem node_strL {src : Bytes} {a b : Node} (hab : NodeRel src false a b) (hok : QsNodeOKL a) (keep : Bool)
    (hb : b.blankPrev = a.blankPrev) {cs ds : List Tree} (hc : Tree.strs cs = Tree.strs ds) :
    (Tree.node (keepN keep (mapN src a)) cs).str = (Tree.node (keepN keep b) ds).str := by
  have hk : b.kind = a.kind := hab.kind
  have hi := infoRel_map hab.info hok.2.1
  have hcl := closRel_map hab.closure hok.2.2.1
  have hl := segsRel_map hab.lines hok.1
  have hbp : (keepN keep (mapN src a)).blankPrev = (keepN keep b).blankPrev := by
    show (keep && a.blankPrev) = (keep && b.blankPrev)
    rw [hb]
  refine str_congr hk.symm hbp ?_ hl hc
  exact nodeFields_congr hk.symm hab.level.symm hab.marker.symm hab.start.symm hab.tight.symm hab.offset.symm hi
    hab.htmlType.symm hcl

/-- children lists, under any node: the same flags are kept on both sides -/
theorem strs_simL {ta tb : Nat → Tree} (inList : Bool) : ∀ (ids : List Nat) (first : Bool),
    (∀ i ∈ ids, ∀ keep : Bool, ((ta i).readBlank keep).str = ((tb (i + 1)).readBlank keep).str) →
    Tree.strs (Tree.readBlankL inList first (ids.map ta)) =
      Tree.strs (Tree.readBlankL inList first ((ids.map (· + 1)).map tb))
  | [], _, _ => rfl
  | i :: ids, first, h => by
    simp only [List.map_cons, Tree.readBlankL, Tree.strs]
    rw [h i (List.mem_cons_self ..) _, strs_simL inList ids false (fun j hj => h j (List.mem_cons_of_mem _ hj))]

theorem readBlank_mapSegs_nodeL (src : Bytes) (keep : Bool) (a : Node) (cs : List Tree) :
    ((Tree.node a cs).mapSegs (shiftSeg src)).readBlank keep =
      .node (keepN keep (mapN src a))
        (Tree.readBlankL (a.kind == .list || a.kind == .listItem) true (Tree.mapSegsL (shiftSeg src) cs)) := rfl

theorem readBlank_nodeL (keep : Bool) (b : Node) (ds : List Tree) :
    (Tree.node b ds).readBlank keep =
      .node (keepN keep b) (Tree.readBlankL (b.kind == .list || b.kind == .listItem) true ds) := rfl

theorem tree_simL {src : Bytes} {nA nB : List Node} (hn : StoreRel src nA nB)
    (hok : ∀ i, QsNodeOKL (nA.getD i default)) (hf : FlagsEq nA nB) : ∀ (f i : Nat), i ≠ 0 → ∀ keep : Bool,
    (((treeOf nA f i).mapSegs (shiftSeg src)).readBlank keep).str = ((treeOf nB f (i + 1)).readBlank keep).str := by
  intro f
  induction f with
  | zero =>
    intro i hi keep
    have hab := hn.node i
    rw [beq_eq_false_iff_ne.mpr hi] at hab
    have e1 : treeOf nA 0 i = .node (nA.getD i default) [] := rfl
    have e2 : treeOf nB 0 (i + 1) = .node (nB.getD (i + 1) default) [] := rfl
    rw [e1, e2, readBlank_mapSegs_nodeL, readBlank_nodeL]
    exact node_strL hab (hok i) keep (hf i hi) rfl
  | succ f ih =>
    intro i hi keep
    have hab := hn.node i
    rw [beq_eq_false_iff_ne.mpr hi] at hab
    have hoki := hok i
    have e1 : treeOf nA (f + 1) i =
      .node (nA.getD i default) ((nA.getD i default).children.map (treeOf nA f)) := rfl
    have e2 : treeOf nB (f + 1) (i + 1) =
      .node (nB.getD (i + 1) default) ((nB.getD (i + 1) default).children.map (treeOf nB f)) := rfl
    rw [e1, e2, readBlank_mapSegs_nodeL, readBlank_nodeL]
    refine node_strL hab hoki keep (hf i hi) ?_
    have hkb : (nB.getD (i + 1) default).kind = (nA.getD i default).kind := hab.kind
    rw [hkb, mapSegsL_map, hab.children]
    refine strs_simL (ta := fun j => (treeOf nA f j).mapSegs (shiftSeg src)) (tb := treeOf nB f) _ _ true ?_
    intro j hj keep'
    exact ih j (fun e => hoki.2.2.2 (e ▸ hj)) keep'

/-- the two roots: A's Document with the new Blockquote put in between, B's Document over its Blockquote -/
theorem root_simL {src : Bytes} {nA nB : List Node} (hn : StoreRel src nA nB)
    (hok : ∀ i, QsNodeOKL (nA.getD i default)) (hf : FlagsEq nA nB) (hd : (nA.getD 0 default).lines = [])
    (m : Nat) :
    ((Tree.node (nA.getD 0 default) [Tree.node { kind := .blockquote }
        (Tree.mapSegsL (shiftSeg src) ((nA.getD 0 default).children.map (treeOf nA m)))]).readBlank false).str =
      ((treeOf nB (m + 2) 0).readBlank false).str := by
  have hab := hn.node 0
  have hk : (nB.getD 1 default).kind = .blockquote ∧ (nA.getD 0 default).kind = .document := hab.kind
  have hok0 := hok 0
  have e2 : treeOf nB (m + 2) 0 =
    .node (nB.getD 0 default) ((nB.getD 0 default).children.map (treeOf nB (m + 1))) := rfl
  have e3 : treeOf nB (m + 1) 1 =
    .node (nB.getD 1 default) ((nB.getD 1 default).children.map (treeOf nB m)) := rfl
  have e4 : ([1] : List Nat).map (treeOf nB (m + 1)) = [treeOf nB (m + 1) 1] := rfl
  rw [e2, hn.doc0, e4, e3, readBlank_node, readBlank_node]
  refine str_congr hk.2 rfl ?_ hd ?_
  · rw [nodeFields_document (n := eraseN _) hk.2, nodeFields_document (n := eraseN _) rfl]
  · have hf' : ((Kind.document == Kind.list || Kind.document == Kind.listItem)) = false := rfl
    rw [hk.2]
    simp only [hf', Tree.readBlankL, Bool.false_and, strs_single]
    congr 1
    rw [readBlank_node, readBlank_node]
    have hbl : (nB.getD 1 default).lines = [] := segsRel_nil (hd ▸ hab.lines)
    refine str_congr hk.1.symm rfl ?_ hbl.symm ?_
    · rw [nodeFields_blockquote (n := eraseN _) rfl, nodeFields_blockquote (n := eraseN _) hk.1]
    · have hc : (nB.getD 1 default).children = (nA.getD 0 default).children.map (· + 1) := hab.children
      rw [hk.1, mapSegsL_map, hc]
      refine strs_simL (ta := fun j => (treeOf nA m j).mapSegs (shiftSeg src)) (tb := treeOf nB m) _ _ true ?_
      intro j hj keep
      exact tree_simL hn hok hf m j (fun e => hok0.2.2.2 (e ▸ hj)) keep

/-- the conclusion: related final stores with equal flags give equal dumps -/
theorem quoteSimPair_eqL (src : Bytes) (sA sB : St) (hA : run src = .ok sA) (hB : run (quotePrefix src) = .ok sB)
    (hn : StoreRel src sA.nodes sB.nodes) (hw : WellShapedL sA) (hf : FlagsEq sA.nodes sB.nodes) :
    ∀ e g, quoteSimPair src = some (e, g) → e = g := by
  intro e g h
  unfold quoteSimPair at h
  split at h
  · cases h
  · rw [hA] at h
    simp only [hB] at h
    obtain ⟨m, hm⟩ : ∃ m, sA.nodes.length = m + 1 := ⟨sA.nodes.length - 1, by have := hn.pos; omega⟩
    have hmB : sB.nodes.length = m + 2 := by rw [hn.len, hm]
    have e1 : treeOf sA.nodes (m + 1) 0 =
      .node (sA.nodes.getD 0 default) ((sA.nodes.getD 0 default).children.map (treeOf sA.nodes m)) := rfl
    rw [hm, hmB, e1] at h
    simp only [Option.some.injEq, Prod.mk.injEq] at h
    obtain ⟨rfl, rfl⟩ := h
    exact root_simL hn hw.getD hf hw.1 m

end GM.Blocks
