/-
  GM.Proof.ShiftSimXAux — the right-extension frame: no prefix, no old nodes, only a suffix `q`. Under it the id map is
  the identity and related stores are EQUAL.
-/
import GM.Proof.ShiftSimXRel

namespace GM.Blocks.Xs
open GM GM.Text GM.Spec GM.Proof.Reader GM.Blocks

/-- the frame of a right extension by `q` -/
def FX (q : Bytes) : Frame := { p := [], dl := 0, c := 0, kids0 := [], flag := true, oldNodes := [], q := q }

theorem FX_d (q : Bytes) : (FX q).d = 0 := rfl

theorem FX_ι (q : Bytes) (j : Nat) : (FX q).ι j = j := by
  unfold Frame.ι FX
  split
  · next h => exact h.symm
  · rfl

theorem FX_ι_fun (q : Bytes) : (FX q).ι = id := funext (FX_ι q)

theorem moveSeg_zero' : moveSeg 0 = id := by
  funext s; cases s; simp [moveSeg]

theorem FX_shN (q : Bytes) (root : Bool) (n : Node) : shN (FX q) root n = n := by
  have h1 : (FX q).kids0 = [] := rfl
  unfold shN
  rw [FX_ι_fun, FX_d, moveSeg_zero', h1]
  have hc : shClosure 0 n.closure = n.closure := by
    unfold shClosure
    split
    · rfl
    · rw [moveSeg_zero']; rfl
  cases n
  simp only [List.map_id, Option.map_id', id_eq, hc]
  cases root <;> simp

theorem FX_shB (q : Bytes) (x : Block) : shB (FX q) x = x := by
  unfold shB; rw [FX_ι]

theorem FX_shB_map (q : Bytes) (l : List Block) : l.map (shB (FX q)) = l := by
  induction l with
  | nil => rfl
  | cons x xs ih => rw [List.map_cons, FX_shB, ih]

/-- related stores are equal -/
theorem FX_store {q : Bytes} {nA nB : List Node} (h : StoreRel (FX q) nA nB) : nB = nA := by
  apply List.ext_getElem
  · rw [h.len]; rfl
  · intro i h1 h2
    have := h.node i
    rw [FX_ι, FX_shN] at this
    have e1 : nB.getD i default = nB[i] := by simp [List.getD, h1]
    have e2 : nA.getD i default = nA[i] := by simp [List.getD, h2]
    rw [e1, e2] at this
    exact this

end GM.Blocks.Xs
