/-
  GM.Proof.ShiftSimFenced — the fenced code block parser (parser/fcode_block.go) under the shift simulation.
-/
import GM.Proof.ShiftSimPara
import GM.Proof.BlocksSpecFenced

namespace GM.Blocks.Sh
open GM GM.Text GM.Spec GM.Proof.Reader GM.Blocks

/-! ### Close -/

theorem fencedClose_sim (F : Frame) (b : Bytes) : CloseSim F b .fenced := by
  intro node rA rB sA sB h
  show P2 _ (fencedClose node sA) (fencedClose (F.ι node) sB)
  unfold fencedClose
  refine P2.bind (getPc_l h) (fun x y sA1 sB1 ⟨hx, hy, hc, e1, e2⟩ => ?_)
  subst e1 e2
  rw [hc.fence]
  cases x.fence with
  | none => exact P2.throwL
  | some f =>
    simp only [Option.map, shF, ι_beq]
    by_cases hn : (f.node == node) = true
    · rw [if_pos hn]
      exact modPc_l h _ _ (fun x y hxy =>
        ⟨⟨hxy.opened, hxy.tmpPara, by simp, hxy.skipList, hxy.emptyItemBlank⟩, hxy.blockOffset, hxy.blockIndent⟩)
    · rw [if_neg hn]
      exact P2.pure h

/-! ### Open -/

theorem fc_fencedOpen_tail {F : Frame} {b : Bytes} {sA sB : St} (h : SR F b sA sB) (iA iB : Option Segment)
    (hi : iB = iA.map (moveSeg F.d)) (ch : UInt8) (ind len : Int) :
    P2 (fun x y sA' sB' => y = (x.1.map F.ι, x.2) ∧ SRLim F b sA' sB' ∧
      ((x.2.hasChildren = true ∨ x.1 = none) → SR F b sA' sB') ∧
      ((BP.fenced = .list ∨ BP.fenced = .listItem) → x.1.isSome = true → sB'.pc.emptyItemBlank = sA'.pc.emptyItemBlank))
      ((do let node ← newNode { kind := .fencedCodeBlock, info := iA }
           modPc fun pc => { pc with fence := some { char := ch, indent := ind, length := len, node := node } }
           pure (some node, stNoChildren) : M (Option Nat × PState)) sA)
      ((do let node ← newNode { kind := .fencedCodeBlock, info := iB }
           modPc fun pc => { pc with fence := some { char := ch, indent := ind, length := len, node := node } }
           pure (some node, stNoChildren) : M (Option Nat × PState)) sB) := by
  subst hi
  refine P2.bind (newNode_p2 h _ _ (by simp [shN, shClosure])) (fun n m sA1 sB1 ⟨_, hm, _, h1⟩ => ?_)
  subst hm
  refine P2.bind (modPc_p2 h1 _ _ (fun x y hxy =>
    ⟨⟨hxy.opened, hxy.tmpPara, by simp [shF], hxy.skipList, hxy.emptyItemBlank⟩, hxy.blockOffset, hxy.blockIndent⟩))
    (fun _ _ sA2 sB2 h2 => ?_)
  exact P2.pure ⟨rfl, h2.limbo, fun _ => h2, fun hh => by cases hh <;> contradiction⟩

theorem fencedOpen_sim (F : Frame) (b : Bytes) : OpenSim F b .fenced := by
  intro parent sA sB h _
  show P2 _ (fencedOpen parent sA) (fencedOpen (F.ι parent) sB)
  unfold fencedOpen
  refine P2.bind (peekLine_p2 h) (fun x y sA1 sB1 ⟨⟨c, hc, hx⟩, hy, h1⟩ => ?_)
  subst hx hy
  simp only
  refine P2.bind (getPc_p2 h1) (fun x y sA2 sB2 ⟨hx, hy, hxy, e1, e2⟩ => ?_)
  subst e1 e2
  rw [hxy.blockOffset]
  have none_ : P2 (fun (x y : Option Nat × PState) sA' sB' => y = (x.1.map F.ι, x.2) ∧ SRLim F b sA' sB' ∧
      ((x.2.hasChildren = true ∨ x.1 = none) → SR F b sA' sB') ∧
      ((BP.fenced = .list ∨ BP.fenced = .listItem) → x.1.isSome = true → sB'.pc.emptyItemBlank = sA'.pc.emptyItemBlank))
      ((pure (none, stNoChildren) : M (Option Nat × PState)) sA2) ((pure (none, stNoChildren) : M (Option Nat × PState)) sB2) :=
    P2.pure ⟨rfl, h1.limbo, fun _ => h1, fun hh => by cases hh <;> contradiction⟩
  by_cases hc0 : x.blockOffset < 0
  · rw [if_pos hc0, if_pos hc0]; exact none_
  · rw [if_neg hc0, if_neg hc0]
    refine P2.bind (P := fun s t sA' sB' => t = s ∧ sA' = sA2 ∧ sB' = sB2)
      (P2.liftE_same (fun a _ => ⟨rfl, rfl, rfl⟩)) (fun fc0 fc sA3 sB3 ⟨ht, e1, e2⟩ => ?_)
    subst ht e1 e2
    by_cases hc1 : (fc != 96 && fc != 126) = true
    · rw [if_pos hc1, if_pos hc1]; exact none_
    · rw [if_neg hc1, if_neg hc1]
      generalize scanWhileEq ((RCur.view b c).getD []) fc x.blockOffset = i
      by_cases hc2 : i - x.blockOffset < 3
      · rw [if_pos hc2, if_pos hc2]; exact none_
      · rw [if_neg hc2, if_neg hc2]
        by_cases hc3 : i < ((List.length ((RCur.view b c).getD []) : Nat) : Int) - 1
        · rw [if_pos hc3, if_pos hc3]
          refine P2.bind (P := fun s t sA' sB' => t = s ∧ sA' = sA3 ∧ sB' = sB3)
            (P2.liftE_same (fun a _ => ⟨rfl, rfl, rfl⟩)) (fun rest0 rest sA4 sB4 ⟨ht, e1, e2⟩ => ?_)
          subst ht e1 e2
          by_cases hc4 : (trimLeftSpaceLength rest : Int) < (rest.length : Int) - (trimRightSpaceLength rest : Int)
          · rw [if_pos hc4, if_pos hc4]
            refine P2.bind (P := fun s t sA' sB' => t = s ∧ sA' = sA4 ∧ sB' = sB4)
              (P2.liftE_same (fun a _ => ⟨rfl, rfl, rfl⟩)) (fun v0 v sA5 sB5 ⟨ht, e1, e2⟩ => ?_)
            subst ht e1 e2
            by_cases hc5 : (fc == 96 && v.contains 96) = true
            · rw [if_pos hc5, if_pos hc5]; exact none_
            · rw [if_neg hc5, if_neg hc5]
              have e : (((moveSeg F.d (RCur.seg b c)).start - (moveSeg F.d (RCur.seg b c)).padding + i +
                    (trimLeftSpaceLength rest : Int) != (moveSeg F.d (RCur.seg b c)).stop - (trimRightSpaceLength rest : Int))) =
                  (((RCur.seg b c).start - (RCur.seg b c).padding + i +
                    (trimLeftSpaceLength rest : Int) != (RCur.seg b c).stop - (trimRightSpaceLength rest : Int))) := by
                rw [Bool.eq_iff_iff]
                simp only [bne_iff_ne, ne_eq, moveSeg]
                omega
              rw [e]
              by_cases hc6 : (((RCur.seg b c).start - (RCur.seg b c).padding + i +
                    (trimLeftSpaceLength rest : Int) != (RCur.seg b c).stop - (trimRightSpaceLength rest : Int))) = true
              · rw [if_pos hc6, if_pos hc6]
                exact fc_fencedOpen_tail h1 _ _ (by simp [moveSeg]; omega) _ _ _
              · rw [if_neg hc6, if_neg hc6]
                exact fc_fencedOpen_tail h1 _ _ rfl _ _ _
          · rw [if_neg hc4, if_neg hc4]
            exact fc_fencedOpen_tail h1 _ _ rfl _ _ _
        · rw [if_neg hc3, if_neg hc3]
          exact fc_fencedOpen_tail h1 _ _ rfl _ _ _

/-! ### preserveLeadingTabInCodeBlock -/

/-- `LineOffset()` commutes with the shift also when `head` is the (possibly negative) start -/
theorem fc_lineOffsetOp_sh (F : Frame) (r : Reader) (hh : 0 ≤ r.head ∨ r.head ≥ r.pos.start) :
    (shR F r).lineOffsetOp = r.lineOffsetOp.map (fun x => (x.1, shR F x.2)) := by
  rcases hh with hh | hh
  · exact lineOffsetOp_sh F r hh
  · unfold Reader.lineOffsetOp
    have e0 : (shR F r).lineOffset = r.lineOffset := rfl
    rw [e0]
    by_cases hc : r.lineOffset < 0
    · rw [if_pos hc, if_pos hc]
      have h1 : colLoop r.source r.head r.pos.start = .ok 0 := by
        unfold colLoop; rw [if_pos hh]
      have h2 : colLoop (shR F r).source (shR F r).head (shR F r).pos.start = .ok 0 := by
        unfold colLoop; rw [if_pos (by simp only [shR, moveSeg]; omega)]
      rw [h1, h2]; rfl
    · rw [if_neg hc, if_neg hc]; rfl

theorem fc_lineOffsetOp_source {r r' : Reader} {v : Int} (h : r.lineOffsetOp = .ok (v, r')) : r'.source = r.source := by
  unfold Reader.lineOffsetOp at h
  split at h
  · cases hc : colLoop r.source r.head r.pos.start with
    | error e => rw [hc] at h; cases h
    | ok x => rw [hc] at h; cases h; rfl
  · cases h; rfl

theorem fc_preserveLeadingTab_p2 {F : Frame} {b : Bytes} {sA sB : St} (hF : F.OK) (h : SR F b sA sB) (seg : Segment)
    (ind : Int) :
    P2 (fun x y sA' sB' => y = moveSeg F.d x ∧ SR F b sA' sB')
      (preserveLeadingTab seg ind sA) (preserveLeadingTab (moveSeg F.d seg) ind sB) := by
  unfold preserveLeadingTab
  refine P2.bind (lineOffset_p2 h) (fun lo lo' sA1 sB1 ⟨hlo, _, h1⟩ => ?_)
  subst hlo
  obtain ⟨c, hc⟩ := h1.ri
  refine P2.bind (position_p2 h1) (fun x y sA2 sB2 ⟨hx, hy, e1, e2⟩ => ?_)
  subst e1 e2 hy hx
  simp only [Reader.position]
  have hst := RI.start_nonneg hc
  -- the reader one byte back
  have hq : ({ start := (moveSeg F.d sA2.r.pos).start - 1, stop := (moveSeg F.d sA2.r.pos).stop } : Segment) =
      moveSeg F.d { start := sA2.r.pos.start - 1, stop := sA2.r.pos.stop } := by
    simp only [moveSeg, Segment.mk.injEq, and_true, true_and]; omega
  rw [hq]
  refine P2.bind (mA := setPosition _ _) (mB := setPosition _ _)
    (P := fun _ _ sA' sB' => sA' = { sA2 with r := sA2.r.setPosition sA2.r.line { start := sA2.r.pos.start - 1, stop := sA2.r.pos.stop } } ∧
      sB' = { sB2 with r := shR F (sA2.r.setPosition sA2.r.line { start := sA2.r.pos.start - 1, stop := sA2.r.pos.stop }) })
    (P2.ok ⟨rfl, ?_⟩) (fun _ _ sA3 sB3 ⟨e1, e2⟩ => ?_)
  · rw [h1.r, setPosition_sh F hF _ _ _ (by simp only; omega)]
  subst e1 e2
  generalize hr2 : sA2.r.setPosition sA2.r.line { start := sA2.r.pos.start - 1, stop := sA2.r.pos.stop } = r2
  have hsrc2 : r2.source = b := by rw [← hr2]; simp only [Reader.setPosition]; exact hc.source
  have hhead : 0 ≤ r2.head ∨ r2.head ≥ r2.pos.start := by
    rw [← hr2]
    unfold Reader.setPosition
    simp only
    split
    · left; exact Int.natCast_nonneg _
    · right; omega
  refine P2.bind (mA := lineOffset) (mB := lineOffset)
    (P := fun x y sA' sB' => y = x ∧ ∃ r3, r3.source = b ∧ sA' = { sA2 with r := r3 } ∧ sB' = { sB2 with r := shR F r3 })
    ?_ (fun lo2 lo2' sA4 sB4 ⟨e0, r3, hsrc3, e1, e2⟩ => ?_)
  · unfold GM.Blocks.lineOffset
    simp only
    rw [fc_lineOffsetOp_sh F r2 hhead]
    cases hl : r2.lineOffsetOp with
    | error e => exact P2.errL
    | ok v =>
      obtain ⟨v1, r3⟩ := v
      exact P2.ok ⟨rfl, r3, by rw [fc_lineOffsetOp_source hl, hsrc2], rfl, rfl⟩
  subst e0 e1 e2
  refine P2.bind (mA := setPosition _ _) (mB := setPosition _ _)
    (P := fun _ _ sA' sB' => SR F b sA' sB') (P2.ok ?_) (fun _ _ sA5 sB5 h5 => ?_)
  · refine ⟨⟨c, ri_setPosition_back hc hsrc3⟩, ?_, h1.n, h1.c⟩
    simp only
    rw [setPosition_sh F hF _ _ _ (by omega)]
  refine P2.pure ⟨?_, h5⟩
  split
  · simp only [moveSeg, Segment.mk.injEq, and_true, true_and]; omega
  · rfl

/-! ### Continue -/

/-- the loop of `IndentPositionPadding` stops in front of a line feed (the virtual padding lies in front of it) -/
theorem fc_ippLoop_nl (cur width : Int) : ∀ (bs : Bytes) (i p w : Int) (n : Nat), bs[n]? = some 10 → p ≤ n →
    (ippLoop cur width bs i p w).1 ≤ i + n := by
  intro bs
  induction bs with
  | nil => intro i p w n h; simp at h
  | cons a bs ih =>
    intro i p w n h hp
    unfold ippLoop
    cases n with
    | zero =>
      simp only [List.getElem?_cons_zero, Option.some.injEq] at h
      subst h
      rw [if_neg (by omega)]
      simp
    | succ n =>
      simp only [List.getElem?_cons_succ] at h
      split
      · have := ih (i + 1) (p - 1) (w + 1) n h (by omega); omega
      · split
        · have := ih (i + 1) p (w + tabWidthI (cur + w)) n h (by omega); omega
        · split
          · have := ih (i + 1) p (w + 1) n h (by omega); omega
          · simp only; omega

theorem fc_firstNonSpacePos_lt (bs : Bytes) : firstNonSpacePos bs < bs.length := by
  unfold firstNonSpacePos
  split
  · rename_i j hj
    have := firstNonSpacePosition_bounds bs 0 j hj
    omega
  · omega

/-- the last byte of a line of a source that ends with a line feed -/
theorem fc_line_last (b : Bytes) (hnl : NL b) {p : Nat} (hp : p < b.length) : b[lineEnd b p - 1]? = some 10 := by
  have hle := lineEnd_le b p
  rcases Nat.lt_or_ge (lineEnd b p) b.length with h | h
  · exact lineEnd_nl_before b (Nat.le_of_lt hp) h
  · have e : lineEnd b p = b.length := by omega
    rcases hnl with h0 | h0
    · subst h0; simp at hp
    · rw [e, ← List.getLast?_eq_getElem?]; exact h0

/-- fcode_block.go:88-99: the position is in front of the line feed -/
theorem fc_pos_lt (b : Bytes) (hnl : NL b) (c : RCur) (hp : c.p < b.length) (lo ind : Int) :
    (fencedPP ((RCur.view b c).getD []) (RCur.seg b c) lo ind).1 < (RCur.seg b c).stop - (RCur.seg b c).start := by
  have hle := lineEnd_le b c.p
  have hlt := lt_lineEnd b hp
  have hlast := fc_line_last b hnl hp
  rw [view_eq b c hp]
  simp only [Option.getD_some, RCur.seg]
  have hlen : (spaces c.pad ++ sub b c.p (lineEnd b c.p)).length = c.pad + (lineEnd b c.p - c.p) := by
    simp [spaces, length_sub b hle]
  have hline : (spaces c.pad ++ sub b c.p (lineEnd b c.p))[c.pad + (lineEnd b c.p - c.p) - 1]? = some 10 := by
    rw [List.getElem?_append_right (by simp [spaces]; omega)]
    simp only [spaces, List.length_replicate, sub]
    rw [List.getElem?_take_of_lt (by omega), List.getElem?_drop]
    have e : c.p + (c.pad + (lineEnd b c.p - c.p) - 1 - c.pad) = lineEnd b c.p - 1 := by omega
    rw [e]; exact hlast
  have hfn := fc_firstNonSpacePos_lt (spaces c.pad ++ sub b c.p (lineEnd b c.p))
  generalize spaces c.pad ++ sub b c.p (lineEnd b c.p) = line at hlen hline hfn ⊢
  unfold fencedPP indentPositionPadding
  simp only
  by_cases hw : (ind == 0) = true
  · rw [if_pos hw]
    simp only
    rw [if_neg (by omega)]
    simp only
    omega
  · rw [if_neg hw]
    have key := fc_ippLoop_nl lo ind line 0 c.pad 0 (c.pad + (lineEnd b c.p - c.p) - 1) hline (by omega)
    generalize ippLoop lo ind line 0 c.pad 0 = r at key ⊢
    by_cases hr : r.2 ≥ ind
    · rw [if_pos hr]
      simp only
      split
      · simp only; split <;> omega
      · simp only; omega
    · rw [if_neg hr]
      simp only
      rw [if_pos (by decide)]
      simp only
      split <;> omega

theorem fc_tail_p2 {F : Frame} {b : Bytes} {sA sB : St} (hF : F.OK) (h : SR F b sA sB) (hnl : NL b) (c : RCur)
    (hp : c.p < b.length) (node : Nat) (lo : Int) (fd : FenceData) :
    P2 (fun x y sA' sB' => y = x ∧ SR F b sA' sB')
      (fencedTail node ((RCur.view b c).getD []) (RCur.seg b c) lo fd sA)
      (fencedTail (F.ι node) ((RCur.view b c).getD []) (moveSeg F.d (RCur.seg b c)) lo (shF F fd) sB) := by
  unfold fencedTail
  have e1 : fencedPP ((RCur.view b c).getD []) (moveSeg F.d (RCur.seg b c)) lo (shF F fd).indent =
      fencedPP ((RCur.view b c).getD []) (RCur.seg b c) lo fd.indent := rfl
  have e2 : (shF F fd).indent = fd.indent := rfl
  rw [e1, e2]
  have hb := fc_pos_lt b hnl c hp lo fd.indent
  generalize fencedPP ((RCur.view b c).getD []) (RCur.seg b c) lo fd.indent = pp at hb ⊢
  generalize RCur.seg b c = seg at hb ⊢
  unfold fencedStore
  simp only
  have hseg : ({ start := (moveSeg F.d seg).start + pp.1, stop := (moveSeg F.d seg).stop, padding := pp.2 } : Segment) =
      moveSeg F.d { start := seg.start + pp.1, stop := seg.stop, padding := pp.2 } := by
    simp only [moveSeg, Segment.mk.injEq, and_true, true_and]; omega
  rw [hseg]
  have rest : ∀ (sg : Segment) (sA1 sB1 : St), SR F b sA1 sB1 → P2 (fun x y sA' sB' => y = x ∧ SR F b sA' sB')
      ((appendLine node { sg with forceNewline := true } >>= fun _ =>
        advanceAndSetPadding (seg.stop - seg.start - pp.1 - 1) pp.2 >>= fun _ => pure stContinueNoChildren) sA1)
      ((appendLine (F.ι node) { moveSeg F.d sg with forceNewline := true } >>= fun _ =>
        advanceAndSetPadding ((moveSeg F.d seg).stop - (moveSeg F.d seg).start - pp.1 - 1) pp.2 >>= fun _ =>
          pure stContinueNoChildren) sB1) := by
    intro sg sA1 sB1 h1
    refine P2.bind (appendLine_p2 h1 node rfl) (fun _ _ sA2 sB2 h2 => ?_)
    refine P2.bind (advanceAndSetPadding_p2 h2 (by simp only [moveSeg]; omega) rfl (by omega)) (fun _ _ sA3 sB3 h3 => ?_)
    exact P2.pure ⟨rfl, h3⟩
  by_cases hc : (pp.2 != 0) = true
  · rw [if_pos hc, if_pos hc]
    refine P2.bind (fc_preserveLeadingTab_p2 hF h _ _) (fun sg sg' sA1 sB1 ⟨e, h1⟩ => ?_)
    subst e
    exact rest sg sA1 sB1 h1
  · rw [if_neg hc, if_neg hc]
    refine P2.bind (P := fun x y sA' sB' => y = moveSeg F.d x ∧ SR F b sA' sB') (P2.pure ⟨rfl, h⟩)
      (fun sg sg' sA1 sB1 ⟨e, h1⟩ => ?_)
    subst e
    exact rest sg sA1 sB1 h1

theorem fencedContinue_sim (F : Frame) (hF : F.OK) (b : Bytes) : ContinueSim F b .fenced := by
  intro node sA sB h hl hnl
  show P2 _ (fencedContinue' node sA) (fencedContinue' (F.ι node) sB)
  unfold fencedContinue'
  obtain ⟨c, hc, hp⟩ := hl
  have hpk : P2 (fun x y sA' sB' => x = (RCur.view b c, RCur.seg b c) ∧ y = (x.1, moveSeg F.d x.2) ∧ SR F b sA' sB')
      (peekLine sA) (peekLine sB) := by
    obtain ⟨r', e1, e2⟩ := ri_peekLine hc
    have hB : sB.r.peekLine = .ok ((RCur.view b c, moveSeg F.d (RCur.seg b c)), shR F r') := by
      rw [h.r, peekLine_sh F _ (RI.start_nonneg hc), e1]; rfl
    unfold GM.Blocks.peekLine
    rw [e1, hB]
    exact P2.ok ⟨rfl, rfl, h.withR e2⟩
  refine P2.bind hpk (fun x y sA1 sB1 ⟨hx, hy, h1⟩ => ?_)
  subst hy hx
  simp only
  refine P2.bind (getPc_p2 h1) (fun x y sA2 sB2 ⟨hx, hy, hxy, e1, e2⟩ => ?_)
  subst e1 e2
  rw [hxy.fence]
  cases x.fence with
  | none => exact P2.bind (P := fun _ _ _ _ => False) P2.throwL (fun _ _ _ _ hh => hh.elim)
  | some f =>
    simp only [Option.map]
    refine P2.bind (P := fun s t sA' sB' => s = f ∧ t = shF F f ∧ sA' = sA2 ∧ sB' = sB2) (P2.pure ⟨rfl, rfl, rfl, rfl⟩)
      (fun fd fd' sA3 sB3 ⟨e0, e0', e1, e2⟩ => ?_)
    subst e0 e0' e1 e2
    refine P2.bind (lineOffset_p2 h1) (fun lo lo' sA3 sB3 ⟨hlo, _, h3⟩ => ?_)
    subst hlo
    have tail := fc_tail_p2 hF h3 hnl c hp node lo' fd
    have ec : (shF F fd).char = fd.char := rfl
    have el : (shF F fd).length = fd.length := rfl
    rw [ec, el]
    obtain ⟨l, hv, hlen, hlpos, hss, hpad⟩ := view_some_facts (b := b) (c := c) hp
    generalize hline : (RCur.view b c).getD [] = line at tail ⊢
    have hll : (line.length : Int) = (RCur.seg b c).len := by rw [← hline, hv]; exact hlen
    generalize (indentWidthI line lo').2 = pos
    generalize (indentWidthI line lo').1 = w
    generalize scanWhileEq line fd.char pos = i
    by_cases hc1 : w < 4
    · rw [if_pos hc1, if_pos hc1]
      by_cases hc2 : i - pos ≥ fd.length
      · rw [if_pos hc2, if_pos hc2]
        refine P2.bind (P := fun s t sA' sB' => t = s ∧ sA' = sA3 ∧ sB' = sB3)
          (P2.liftE_same (fun a _ => ⟨rfl, rfl, rfl⟩)) (fun rest0 rest sA4 sB4 ⟨ht, e1, e2⟩ => ?_)
        subst ht e1 e2
        by_cases hc3 : isBlank rest = true
        · rw [if_pos hc3, if_pos hc3]
          refine P2.bind (P := fun s t sA' sB' => t = s ∧ sA' = sA4 ∧ sB' = sB4)
            (P2.liftE_same (fun a _ => ⟨rfl, rfl, rfl⟩)) (fun last0 last sA5 sB5 ⟨ht, e1, e2⟩ => ?_)
          subst ht e1 e2
          refine P2.bind (advance_p2 h3 (by simp only [moveSeg]; omega) ?_) (fun _ _ sA6 sB6 h5 => ?_)
          · simp only [Segment.len] at hll
            split <;> omega
          exact P2.pure ⟨rfl, h5⟩
        · rw [if_neg hc3, if_neg hc3]; exact tail
      · rw [if_neg hc2, if_neg hc2]; exact tail
    · rw [if_neg hc1, if_neg hc1]; exact tail

end GM.Blocks.Sh
