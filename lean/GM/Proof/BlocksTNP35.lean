/-
  GM.Proof.BlocksTNP35 — GFM's table paragraph transformer (`GM.TableX.transformPT`, model of extension/table.go:152-182)
  satisfies the wide transformer contract `PTSpecX` of GM.Proof.BlocksTNP30 with the error `.pre` (its domain monitor), under
  ONE named hypothesis `TableNodesOK src` about GM.Table.transform's output (the remaining paragraph segments lie inside the
  source; every node the builder allocates is `NodeOK`). Part 1: list facts, the build phase (fresh nodes only).
-/
import GM.Proof.BlocksTNP34
import GM.Model.ExtTableX

namespace GM.Blocks.L.G.X
open GM GM.Text GM.Spec GM.Proof.Reader GM.Blocks.T GM.Blocks.TR GM.TableX

/-! ### list facts: `InsertAfter` = `InsertBefore(NextSibling)` never displaces a later last child -/

theorem nextIn_none_last (c : Nat) : ∀ (l : List Nat), c ∈ l → nextIn c l = none → l.getLast? = some c
  | [], h, _ => by cases h
  | [a], h, _ => by simp at h; subst h; rfl
  | a :: b :: rest, h, hn => by
    unfold nextIn at hn
    by_cases e : (a == c) = true
    · rw [if_pos e] at hn; cases hn
    · rw [if_neg e] at hn
      have hc : c ∈ b :: rest := by
        rcases List.mem_cons.1 h with h1 | h1
        · exfalso; apply e; simp [h1]
        · exact h1
      rw [List.getLast?_cons_cons]
      exact nextIn_none_last c (b :: rest) hc hn

theorem nextIn_mem (c : Nat) : ∀ (l : List Nat) (x : Nat), nextIn c l = some x → x ∈ l
  | [], _, h => by cases h
  | [a], _, h => by cases h
  | a :: b :: rest, x, h => by
    unfold nextIn at h
    by_cases e : (a == c) = true
    · rw [if_pos e] at h; cases h; simp
    · rw [if_neg e] at h
      exact List.mem_cons_of_mem _ (nextIn_mem c (b :: rest) x h)

theorem getLast?_insertBeforeIn_mem (v c : Nat) : ∀ (l : List Nat), v ∈ l →
    (insertBeforeIn v c l).getLast? = l.getLast?
  | [], h => by cases h
  | a :: rest, h => by
    unfold insertBeforeIn
    by_cases e : (a == v) = true
    · rw [if_pos e, List.getLast?_cons_cons]
    · rw [if_neg e]
      have hv : v ∈ rest := by
        rcases List.mem_cons.1 h with h1 | h1
        · exfalso; apply e; simp [h1]
        · exact h1
      have ih := getLast?_insertBeforeIn_mem v c rest hv
      cases rest with
      | nil => cases hv
      | cons b r =>
        cases hr : insertBeforeIn v c (b :: r) with
        | nil => rw [hr] at ih; exact absurd ih.symm (by simp [List.getLast?_eq_none_iff])
        | cons d ds => rw [hr] at ih; rw [List.getLast?_cons_cons, List.getLast?_cons_cons]; exact ih

/-! ### the build phase: only fresh nodes are made and linked -/

/-- `cur` extends `s0` by fresh nodes only -/
structure FX (src : Bytes) (s0 cur : St) : Prop where
  r : cur.r = s0.r
  pc : cur.pc = s0.pc
  len : s0.nodes.length ≤ cur.nodes.length
  old : ∀ i, i < s0.nodes.length → nd cur i = nd s0 i
  fk : ∀ i, s0.nodes.length ≤ i → i < cur.nodes.length →
    (nd cur i).kind = .thematicBreak ∧ NodeOK src (nd cur i) ∧ ∀ q, (nd cur i).parent = some q → s0.nodes.length ≤ q
  tree : TreeOK cur
  plt : PLT cur

theorem FX.refl {src : Bytes} {s : St} (ht : TreeOK s) (hp : PLT s) : FX src s s :=
  ⟨rfl, rfl, Nat.le_refl _, fun _ _ => rfl, fun i h1 h2 => by omega, ht, hp⟩

theorem FX.newNode {src : Bytes} {s0 cur : St} (h : FX src s0 cur) (n : Node) (hk : n.kind = .thematicBreak)
    (hp : n.parent = none) (hc : n.children = []) (hok : NodeOK src n) :
    FX src s0 { cur with nodes := cur.nodes ++ [n] } := by
  have key := fr_nd_append cur n cur.r cur.pc
  refine ⟨h.r, h.pc, by simp; have := h.len; omega, fun i hi => ?_, fun i h1 h2 => ?_,
    treeOK_tinv.app n _ _ hp hc h.tree, plt_append cur n h.plt hp⟩
  · rw [key, if_pos (Nat.lt_of_lt_of_le hi h.len)]; exact h.old i hi
  · rw [key]
    simp only [List.length_append, List.length_singleton] at h2
    split
    · rename_i h3; exact h.fk i h1 h3
    · rw [if_pos (by omega)]
      exact ⟨hk, hok, fun q hq => by rw [hp] at hq; cases hq⟩

/-- `AppendChild(P, C)` of two fresh nodes, `C` parentless -/
theorem FX.append {src : Bytes} {s0 cur : St} (h : FX src s0 cur) (P C : Nat) (hP : s0.nodes.length ≤ P)
    (hPl : P < cur.nodes.length) (hC : s0.nodes.length ≤ C) (hCl : C < cur.nodes.length) (hpar : (nd cur C).parent = none) :
    ∃ cur', appendChild P C cur = .ok ((), cur') ∧ FX src s0 cur' ∧ cur'.nodes.length = cur.nodes.length ∧
      ∀ j, j ≠ C → (nd cur' j).parent = (nd cur j).parent := by
  have e := L.appendChild_fresh P C cur hpar
  refine ⟨_, e, ?_, by simp [upd], fun j hj => ?_⟩
  · have hf : FrameEq cur (upd (upd cur P fun n => { n with children := n.children ++ [C] }) C
        fun n => { n with parent := some P }) :=
      (upd_frame cur P (f := fun n => { n with children := n.children ++ [C] }) (fun n => ⟨rfl, rfl, rfl⟩)).trans
        (upd_frame _ C (f := fun n => { n with parent := some P }) (fun n => ⟨rfl, rfl, rfl⟩))
    refine ⟨by rw [hf.r]; exact h.r, by rw [hf.pc]; exact h.pc, by rw [hf.len]; exact h.len, fun i hi => ?_, fun i h1 h2 => ?_,
      (inv_appendChild treeOK_tinv P C cur _ trivial trivial hPl hCl h.tree e).1,
      (plt_appendChild P C cur _ h.plt hPl e).1⟩
    · rw [nd_upd, if_neg (by omega), nd_upd, if_neg (by omega)]
      exact h.old i hi
    · rw [hf.len] at h2
      obtain ⟨a, b, c⟩ := h.fk i h1 h2
      obtain ⟨k1, k2, k3⟩ := hf.same i
      refine ⟨by rw [k1]; exact a, ⟨by rw [k2]; exact b.lines, by rw [k2, k3]; exact b.nil⟩, fun q hq => ?_⟩
      rw [upd2_parent cur P C (fun l => l ++ [C]) (some P)] at hq
      split at hq
      · cases hq; exact hP
      · exact c q hq
  · rw [upd2_parent cur P C (fun l => l ++ [C]) (some P), if_neg (fun hh => hj hh.1)]

/-- the row / header node `addRow` allocates -/
def rowNode (src : Bytes) (tag : Nat) (cells : List GM.Table.Cell) : Node :=
  { kind := .thematicBreak, htmlType := tag, offset := dashAt src, lines := (cells.flatMap (·.esc)).map escSeg,
    linesNil := (cells.flatMap (·.esc)).isEmpty }

/-- the Table node `buildTable` allocates -/
def tableNode (src : Bytes) : Node := { kind := .thematicBreak, htmlType := tagTable, offset := dashAt src }

/-- what the fresh part of the store looks like after a build step: `FX`, the store grew, and the nodes that existed before
    the step kept their parent pointer -/
def Built (src : Bytes) (s0 cur cur' : St) : Prop :=
  FX src s0 cur' ∧ cur.nodes.length ≤ cur'.nodes.length ∧ ∀ j, j < cur.nodes.length → (nd cur' j).parent = (nd cur j).parent

theorem addCells_built {src : Bytes} {s0 : St} (R : Nat) (hR : s0.nodes.length ≤ R) : ∀ (cells : List GM.Table.Cell) (cur : St),
    FX src s0 cur → R < cur.nodes.length → (∀ c ∈ cells, NodeOK src (cellNode src c)) →
    ∃ cur', addCells src R cells cur = .ok ((), cur') ∧ Built src s0 cur cur' := by
  intro cells
  induction cells with
  | nil =>
    intro cur h _ _
    exact ⟨cur, rfl, h, Nat.le_refl _, fun _ _ => rfl⟩
  | cons c rest ih =>
    intro cur h hRl hok
    have h1 := h.newNode (cellNode src c) rfl rfl rfl (hok c (by simp))
    generalize hs1 : ({ cur with nodes := cur.nodes ++ [cellNode src c] } : St) = cur1 at h1
    have hl1 : cur1.nodes.length = cur.nodes.length + 1 := by rw [← hs1]; simp
    have hnd1 : ∀ j, j < cur.nodes.length → nd cur1 j = nd cur j := fun j hj => by
      rw [← hs1, fr_nd_append cur _ cur.r cur.pc, if_pos hj]
    have hid : nd cur1 cur.nodes.length = cellNode src c := by
      rw [← hs1, fr_nd_append cur _ cur.r cur.pc, if_neg (by omega), if_pos rfl]
    obtain ⟨cur2, e2, h2, hl2, hp2⟩ := h1.append R cur.nodes.length hR (by omega) (by have := h.len; omega) (by omega)
      (by rw [hid]; rfl)
    obtain ⟨cur3, e3, h3, hl3, hp3⟩ := ih cur2 h2 (by omega) (fun c' hc' => hok c' (by simp [hc']))
    refine ⟨cur3, ?_, h3, by omega, fun j hj => ?_⟩
    · unfold addCells
      simp only [bind, StateT.bind, Blocks.newNode, pure, Except.pure, Except.bind]
      rw [hs1, e2]
      exact e3
    · rw [hp3 j (by omega), hp2 j (by omega), hnd1 j hj]

theorem addRow_built {src : Bytes} {s0 : St} (T : Nat) (tag : Nat) (cells : List GM.Table.Cell) (cur : St)
    (h : FX src s0 cur) (hT : s0.nodes.length ≤ T) (hTl : T < cur.nodes.length)
    (hrow : NodeOK src (rowNode src tag cells)) (hok : ∀ c ∈ cells, NodeOK src (cellNode src c)) :
    ∃ cur', addRow src T tag cells cur = .ok ((), cur') ∧ Built src s0 cur cur' := by
  have h1 := h.newNode (rowNode src tag cells) rfl rfl rfl hrow
  generalize hs1 : ({ cur with nodes := cur.nodes ++ [rowNode src tag cells] } : St) = cur1 at h1
  have hl1 : cur1.nodes.length = cur.nodes.length + 1 := by rw [← hs1]; simp
  have hnd1 : ∀ j, j < cur.nodes.length → nd cur1 j = nd cur j := fun j hj => by
    rw [← hs1, fr_nd_append cur _ cur.r cur.pc, if_pos hj]
  have hid : nd cur1 cur.nodes.length = rowNode src tag cells := by
    rw [← hs1, fr_nd_append cur _ cur.r cur.pc, if_neg (by omega), if_pos rfl]
  obtain ⟨cur2, e2, h2, hl2, hp2⟩ := addCells_built cur.nodes.length (by have := h.len; omega) cells cur1 h1 (by omega) hok
  obtain ⟨cur3, e3, h3, hl3, hp3⟩ := h2.append T cur.nodes.length hT (by omega) (by have := h.len; omega) (by omega)
    (by rw [hp2 _ (by omega), hid]; rfl)
  refine ⟨cur3, ?_, h3, by omega, fun j hj => ?_⟩
  · have hrw : addRow src T tag cells cur = ((Blocks.newNode (rowNode src tag cells) >>= fun id =>
        addCells src id cells >>= fun _ => appendChild T id) cur) := rfl
    rw [hrw]
    simp only [bind, StateT.bind, Blocks.newNode, pure, Except.pure, Except.bind]
    rw [hs1, e2]
    exact e3
  · rw [hp3 j (by omega), hp2 j (by omega), hnd1 j hj]

theorem addRows_built {src : Bytes} {s0 : St} (T : Nat) (hT : s0.nodes.length ≤ T) : ∀ (rows : List (List GM.Table.Cell)) (cur : St),
    FX src s0 cur → T < cur.nodes.length →
    (∀ r ∈ rows, NodeOK src (rowNode src tagRow r) ∧ ∀ c ∈ r, NodeOK src (cellNode src c)) →
    ∃ cur', addRows src T rows cur = .ok ((), cur') ∧ Built src s0 cur cur' := by
  intro rows
  induction rows with
  | nil =>
    intro cur h _ _
    exact ⟨cur, rfl, h, Nat.le_refl _, fun _ _ => rfl⟩
  | cons r rest ih =>
    intro cur h hTl hok
    obtain ⟨cur1, e1, h1, hl1, hp1⟩ := addRow_built T tagRow r cur h hT hTl (hok r (by simp)).1 (hok r (by simp)).2
    obtain ⟨cur2, e2, h2, hl2, hp2⟩ := ih cur1 h1 (by omega) (fun r' hr' => hok r' (by simp [hr']))
    refine ⟨cur2, ?_, h2, by omega, fun j hj => ?_⟩
    · unfold addRows
      simp only [bind, StateT.bind, Except.bind]
      rw [e1]
      exact e2
    · rw [hp2 j (by omega), hp1 j hj]

end GM.Blocks.L.G.X
