/-
  GM.Proof.LinkRefTotal — the link reference definition scanner (GM.Model.LinkRef) on well-formed padding-free lines:
  every call of `parseLinkReferenceDefinition` ends without exhausting the fuel of SkipSpaces / FindClosure and leaves
  the block reader in a state that stands for a padding-free cursor again (`RS`), so `transformLoop` never answers
  `loop`. Reuses the reader lemmas of the inline phase (GM.Proof.InlinesReader, BlockReaderFuel, InlinesLink).
-/
import GM.Model.LinkRef
import GM.Proof.InlinesLink
import GM.Proof.BlocksPres

namespace GM.Proof.LinkRefTotal
open GM GM.Text GM.Spec GM.Inl GM.LinkRef GM.Proof.Reader GM.Proof.InlinesReader GM.Proof.Inlines GM.Proof.InlinesTotal
open GM.Proof.InlinesLink GM.Proof.BlockReaderFuel

variable {src : Bytes} {segs : List Segment}

theorem getByte_ok {l : Bytes} {i : Int} {b : UInt8} (h : getByte l i = .ok b) : 0 ≤ i ∧ i < l.length := by
  unfold getByte at h
  split at h
  · cases h
  · rename_i hi
    split at h
    · rename_i b' hb
      have := (List.getElem?_eq_some_iff.1 hb).1
      omega
    · cases h

theorem getByte_noLoop' (l : Bytes) (i : Int) {e : Panic} (h : getByte l i = .error e) : e ≠ .loop := by
  unfold getByte at h
  split at h
  · cases h; decide
  · split at h
    · cases h
    · cases h; decide

/-- what a reader computation may answer: not the fuel error; a reader that stands for a padding-free cursor -/
def GoodR {α : Type} (src : Bytes) (segs : List Segment) (res : Except Panic (α × BlockReader)) (Q : α → BCur → Prop) : Prop :=
  match res with
  | .ok (a, r') => ∃ c', RS src segs r' c' ∧ Q a c'
  | .error e => e ≠ Panic.loop

theorem defHead_good (W : WFSegs src segs) (Z : ∀ s ∈ segs, s.padding = 0) {r : BlockReader} {c : BCur}
    (h : RS src segs r c) :
    GoodR src segs (defHead r) (fun a c' => ∀ sl pos, a = some (sl, pos) →
      ∃ l, BCur.view src segs c' = some l ∧ 0 ≤ pos ∧ pos < l.length) := by
  have F := segFacts W
  obtain ⟨x, r1, c1, e1, h1, _⟩ := skipSpaces_step W Z h
  obtain ⟨hpl, hpos⟩ := peekLine_facts F h1
  unfold defHead
  simp only [e1, hpl, bind, Except.bind, pure, Except.pure]
  cases hv : BCur.view src segs c1 with
  | none => exact ⟨c1, h1, by intro _ _ hh; cases hh⟩
  | some line =>
    simp only
    generalize GM.Blocks.indentWidthI line 0 = wp
    obtain ⟨width, pos⟩ := wp
    simp only
    split
    · exact ⟨c1, h1, by intro _ _ hh; cases hh⟩
    · cases hidx : GM.Blocks.idx line (if (width != 0) = true then pos + 1 else pos) with
      | error e => exact getByte_noLoop' _ _ hidx
      | ok b =>
        simp only
        split
        · exact ⟨c1, h1, by intro _ _ hh; cases hh⟩
        · refine ⟨c1, h1, ?_⟩
          intro sl p hh
          simp only [Option.some.injEq, Prod.mk.injEq] at hh
          have := getByte_ok hidx
          exact ⟨line, hv, by omega, by omega⟩

theorem closureValue_ok {rd : BlockReader} {l : List Segment} {v : Bytes} (h : segsValue rd l = .ok v) :
    ∃ t, closureValue rd l = .ok t := by
  unfold closureValue
  simp only [h, bind, Except.bind, pure, Except.pure]
  split <;> exact ⟨_, rfl⟩

/-- what every stage answers: a result, and a reader that stands for a padding-free cursor at or behind offset `p0` -/
def Total (src : Bytes) (segs : List Segment) (p0 : Int) (res : DefRes) : Prop :=
  ∃ x r' refs' c', res = .ok (x, r', refs') ∧ RS src segs r' c' ∧ p0 ≤ c'.p

theorem Total.mono {p0 p1 : Int} {res : DefRes} (h : Total src segs p1 res) (hp : p0 ≤ p1) : Total src segs p0 res := by
  obtain ⟨x, r', refs', c', e, hr, hc⟩ := h
  exact ⟨x, r', refs', c', e, hr, by omega⟩

theorem noDef_total {r : BlockReader} {c : BCur} (h : RS src segs r c) (refs : RefMap) : Total src segs c.p (noDef r refs) :=
  ⟨_, _, _, c, rfl, h, Int.le_refl _⟩

/-- `SetPosition(endLine, endPos); AdvanceLine()` with the position taken in a state that stood for `c0` -/
theorem defNoTitle_total (W : WFSegs src segs) (Z : ∀ s ∈ segs, s.padding = 0) {r0 r : BlockReader} {c0 c : BCur}
    (h0 : RS src segs r0 c0) (h : RS src segs r c) (refs : RefMap) (sl : Int) (label dest : Bytes) :
    Total src segs c0.p (defNoTitle r refs sl r0.position.1 r0.position.2 label dest) := by
  have F := segFacts W
  obtain ⟨r1, e1, h1⟩ := setPosition_restore F h0 h
  obtain ⟨r2, e2, h2⟩ := advanceLine_ok F Z h1
  have m := (advanceLine_facts F h1.abs.wf h1.pad).2.1
  unfold defNoTitle
  simp only [e1, e2, bind, Except.bind, pure, Except.pure]
  exact ⟨_, _, _, _, rfl, h2, m⟩

theorem defTitled_total (W : WFSegs src segs) (Z : ∀ s ∈ segs, s.padding = 0) {r0 r : BlockReader} {c0 c : BCur}
    (h0 : RS src segs r0 c0) (h : RS src segs r c) (hp : c0.p ≤ c.p) (refs : RefMap) (sl : Int) (nl : Bool)
    (label dest : Bytes) (sg : List Segment)
    (hsg : ∀ s ∈ sg, (BCur.segOf segs 0).start ≤ s.start ∧ s.start ≤ s.stop) :
    Total src segs c0.p (defTitled r refs sl r0.position.1 r0.position.2 nl label dest sg) := by
  have F := segFacts W
  obtain ⟨sv, hsv⟩ := segsValue_ok F h.abs sg hsg
  obtain ⟨t, ht⟩ := closureValue_ok hsv
  obtain ⟨hpl, _⟩ := peekLine_facts F h
  have hn := defNoTitle_total W Z h0 h refs sl label dest
  unfold defTitled
  simp only [ht, hpl, bind, Except.bind, pure, Except.pure]
  repeat' split
  all_goals first
    | exact (noDef_total h refs).mono hp
    | exact hn
    | exact ⟨_, _, _, c, rfl, h, hp⟩

theorem defAfterDest_total (W : WFSegs src segs) (Z : ∀ s ∈ segs, s.padding = 0) {r : BlockReader} {c : BCur}
    (h : RS src segs r c) (refs : RefMap) (sl : Int) (label dest : Bytes) :
    Total src segs c.p (defAfterDest r refs sl label dest) := by
  have F := segFacts W
  obtain ⟨hpl, _⟩ := peekLine_facts F h
  obtain ⟨⟨sg0, spaces, ok0⟩, r1, c1, e1, h1, m1, _⟩ := skipSpaces_step W Z h
  have hpk := peek_ok F h1
  unfold defAfterDest
  simp only [hpl, e1, hpk, bind, Except.bind, pure, Except.pure]
  by_cases hop : (BCur.peek src segs c1 != 34 && BCur.peek src segs c1 != 39 && BCur.peek src segs c1 != 40) = true
  · simp only [hop, if_true]
    repeat' split
    all_goals first
      | exact (noDef_total h1 refs).mono m1
      | exact ⟨_, _, _, c1, rfl, h1, m1⟩
  · simp only [hop, Bool.false_eq_true, if_false]
    by_cases hsp : (spaces == 0) = true
    · simp only [hsp, if_true]
      exact (noDef_total h1 refs).mono m1
    · simp only [hsp, Bool.false_eq_true, if_false]
      have hne : BCur.peek src segs c1 ≠ 255 := by
        intro e; rw [e] at hop; simp at hop
      obtain ⟨l, hv⟩ := peek_view (rfl : BCur.peek src segs c1 = _) hne
      obtain ⟨r2, c2, g1, g2, m2, _⟩ := advance_in_view F Z h1 hv (n := 1) (by simp)
      have g1' : BlockReader.advance 1 r1 = .ok r2 := by exact_mod_cast g1
      obtain ⟨⟨sgs, found⟩, r3, c3, k1, k2, k3, k4, k5, k6⟩ := findClosure_post F Z (BCur.peek src segs c1)
        (if (BCur.peek src segs c1 == 40) = true then 41 else BCur.peek src segs c1) linkFindClosureOptions (rdFuel r2) g2
        (rdFuel_gt W Z g2)
      have hfirst := first_le_p F g2.abs.wf
      have hn := defNoTitle_total W Z h k2 refs sl label dest
      have ht := fun nl => defTitled_total W Z h k2 (by omega) refs sl nl label dest (sgs.getD [])
        (fun s hs => by have := k6 s hs; exact ⟨by omega, this.2⟩)
      simp only [g1', k1]
      repeat' split
      all_goals first
        | exact (noDef_total k2 refs).mono (by omega)
        | exact hn
        | exact ht _

theorem defAfterLabel_total (W : WFSegs src segs) (Z : ∀ s ∈ segs, s.padding = 0) {r : BlockReader} {c : BCur}
    (h : RS src segs r c) (refs : RefMap) (sl : Int) (label : Bytes) :
    Total src segs c.p (defAfterLabel r refs sl label) := by
  have F := segFacts W
  have hpk := peek_ok F h
  unfold defAfterLabel
  simp only [hpk, bind, Except.bind, pure, Except.pure]
  split
  · exact noDef_total h refs
  · split
    · exact noDef_total h refs
    · rename_i h58
      have hne : BCur.peek src segs c ≠ 255 := by
        intro e; rw [e] at h58; simp at h58
      obtain ⟨l, hv⟩ := peek_view (rfl : BCur.peek src segs c = _) hne
      obtain ⟨r2, c2, g1, g2, m2, _⟩ := advance_in_view F Z h hv (n := 1) (by simp)
      have g1' : BlockReader.advance 1 r = .ok r2 := by exact_mod_cast g1
      obtain ⟨x, r3, c3, e3, h3, m3, _⟩ := skipSpaces_step W Z g2
      obtain ⟨d, r4, c4, e4, h4, m4, _⟩ := parseLinkDestination_step W Z h3
      simp only [g1', e3, e4]
      split
      · exact (noDef_total h4 refs).mono (by omega)
      · exact (defAfterDest_total W Z h4 refs _ _ _).mono (by omega)

theorem defTail_total (W : WFSegs src segs) (Z : ∀ s ∈ segs, s.padding = 0) {r : BlockReader} {c : BCur}
    (h : RS src segs r c) (refs : RefMap) (sl pos : Int) {l : Bytes} (hv : BCur.view src segs c = some l)
    (h0 : 0 ≤ pos) (h1 : pos < l.length) :
    Total src segs (c.p + 1) (defTail r refs sl pos) := by
  have F := segFacts W
  obtain ⟨r1, c1, g1, g2, m1, _⟩ := advance_in_view F Z h hv (n := (pos + 1).toNat) (by omega)
  have g1' : r.advance (pos + 1) = .ok r1 := by
    have : (((pos + 1).toNat : Nat) : Int) = pos + 1 := by omega
    rw [← this]; exact g1
  obtain ⟨y, r2, c2, k1, k2, k3, k4, k5, k6⟩ := findClosure_post F Z 91 93 linkFindClosureOptions (rdFuel r1) g2
    (rdFuel_gt W Z g2)
  have hfirst := first_le_p F g2.abs.wf
  obtain ⟨sv, hsv⟩ := segsValue_ok F k2.abs (y.1.getD []) (fun s hs => by have := k6 s hs; exact ⟨by omega, this.2⟩)
  obtain ⟨lab, hlab⟩ := closureValue_ok hsv
  unfold defTail
  simp only [g1', k1, hlab, bind, Except.bind, pure, Except.pure]
  split
  · exact (noDef_total k2 refs).mono (by omega)
  · exact (defAfterLabel_total W Z k2 refs _ _).mono (by omega)

/-- **one call of parseLinkReferenceDefinition** on a reader that stands for a padding-free cursor over well-formed
    lines: never the fuel error; when it returns, the reader stands for such a cursor again -/
theorem parseLinkReferenceDefinition_good (W : WFSegs src segs) (Z : ∀ s ∈ segs, s.padding = 0) {r : BlockReader} {c : BCur}
    (h : RS src segs r c) (refs : RefMap) :
    match parseLinkReferenceDefinition r refs with
    | .ok (_, r', _) => ∃ c', RS src segs r' c'
    | .error e => e ≠ Panic.loop := by
  have hh := defHead_good W Z h
  unfold parseLinkReferenceDefinition
  unfold GoodR at hh
  cases hd : defHead r with
  | error e => rw [hd] at hh; simpa [bind, Except.bind] using hh
  | ok a =>
    obtain ⟨ho, r1⟩ := a
    rw [hd] at hh
    obtain ⟨c1, h1, hq⟩ := hh
    simp only [bind, Except.bind]
    cases ho with
    | none => exact ⟨c1, h1⟩
    | some sp =>
      obtain ⟨sl, pos⟩ := sp
      obtain ⟨l, hv, p0, p1⟩ := hq sl pos rfl
      obtain ⟨x, r', refs', c', e, hr, _⟩ := defTail_total W Z h1 refs sl pos hv p0 p1
      simp only [e]
      exact ⟨c', hr⟩

/-- the `for` loop of Transform never exhausts its fuel on well-formed padding-free lines -/
theorem transformLoop_noLoop (W : WFSegs src segs) (Z : ∀ s ∈ segs, s.padding = 0) :
    ∀ (fuel : Nat) (rd : BlockReader) (c : BCur) (refs : RefMap) (removes : List (Int × Int)),
      RS src segs rd c → offsetMeasure rd < fuel → transformLoop fuel rd refs removes ≠ .error .loop := by
  intro fuel
  induction fuel with
  | zero => intro _ _ _ _ _ h; omega
  | succ fuel ih =>
    intro rd c refs removes h hf
    have hg := parseLinkReferenceDefinition_good W Z h refs
    unfold transformLoop
    cases hd : parseLinkReferenceDefinition rd refs with
    | error e =>
      rw [hd] at hg
      simp only [bind, Except.bind]
      intro he; cases he; exact hg rfl
    | ok a =>
      obtain ⟨⟨s, e⟩, rd', refs'⟩ := a
      rw [hd] at hg
      obtain ⟨c', h'⟩ := hg
      simp only [bind, Except.bind, pure, Except.pure]
      split
      · split
        · intro he; cases he
        · rename_i hm
          have hm' : offsetMeasure rd' < offsetMeasure rd := by simpa using hm
          exact ih rd' c' refs' _ h' (by omega)
      · intro he; cases he

theorem defHead_dead (r : BlockReader) (h : r.live = false) : defHead r = .ok (none, r) := by
  have hf : rdFuel r = (rdFuel r - 1) + 1 := by unfold rdFuel loopFuel; omega
  unfold defHead
  rw [hf]
  unfold skipSpaces
  simp [blockOps, BlockReader.peekLine, h, bind, Except.bind, pure, Except.pure]

theorem transformLoop_dead (r : BlockReader) (h : r.live = false) (n : Nat) (refs : RefMap) :
    transformLoop (n + 1) r refs [] = .ok ([], refs) := by
  unfold transformLoop parseLinkReferenceDefinition
  simp [defHead_dead r h, noDef, bind, Except.bind, pure, Except.pure]

theorem new_nil (src : Bytes) : ∃ r, BlockReader.new src [] = .ok r ∧ r.live = false := by
  simp [BlockReader.new, BlockReader.resetPosition, BlockReader.advanceLine, BlockReader.setPosition, BlockReader.live,
    bind, Except.bind, pure, Except.pure]

/-- a block reader over no lines: the scan ends at its first `PeekLine` -/
theorem transformScan_nil (src : Bytes) (refs : RefMap) : transformScan src [] refs = .ok ([], refs) := by
  obtain ⟨r, e, hl⟩ := new_nil src
  unfold transformScan
  simp only [e, bind, Except.bind, transformFuel]
  exact transformLoop_dead r hl _ refs

/-! ### totality: after SkipSpaces the line does not start with white space, so `line[pos]` is in range -/

theorem skipSpacesLine_view (F : SegFacts src segs) (Z : ∀ s ∈ segs, s.padding = 0) (seg : Segment) :
    ∀ (l : Bytes) (i chars : Int) {r : BlockReader} {c : BCur}, RS src segs r c →
    (l ≠ [] → BCur.view src segs c = some l) →
    ∀ res ch r', skipSpacesLine blockOps seg l i chars r = .ok (some res, ch, r') →
    ∃ c' b rest, RS src segs r' c' ∧ c.p ≤ c'.p ∧ BCur.view src segs c' = some (b :: rest) ∧ isSpace b = false := by
  intro l
  induction l with
  | nil => intro i chars r c _ _ res ch r' h; simp [skipSpacesLine, pure, Except.pure] at h
  | cons b bs ih =>
    intro i chars r c h hview res ch r' he
    have hv := hview (by simp)
    obtain ⟨v1, v2, v3, v4, v5, v6, v7, v8⟩ := view_some F h.abs.wf h.pad hv
    simp only [skipSpacesLine] at he
    split at he
    · simp only [List.length_cons] at v6 v7
      obtain ⟨r1, c1, e1, e2, e3, e4, e5, e6⟩ := advance_ok F Z h (n := 1) (by omega) (by omega)
      have e1' : blockOps.advance 1 r = .ok r1 := e1
      simp only [e1', bind, Except.bind] at he
      have hview1 : bs ≠ [] → BCur.view src segs c1 = some bs := by
        intro hne
        have hlen : 2 ≤ (b :: bs).length := by
          cases bs with
          | nil => exact absurd rfl hne
          | cons _ _ => simp
        have hs := (view_shift F h.abs.wf h.pad hv (n := 1) (by omega)).1
        have hc1 : c1 = { c with p := c.p + 1 } := by
          rw [e6]
          simp only [Int.toNat_one, BCur.advN, BCur.adv1, h.pad, ne_eq, not_true_eq_false, if_false]
          rw [if_pos (Or.inl (by simp only [List.length_cons] at hlen; omega))]
        rw [hc1]
        simpa using hs
      obtain ⟨c', b', rest, g1, g2, g3, g4⟩ := ih (i + 1) (chars + 1) e2 hview1 res ch r' he
      exact ⟨c', b', rest, g1, by omega, g3, g4⟩
    · rename_i hsp
      simp only [pure, Except.pure, Except.ok.injEq, Prod.mk.injEq] at he
      obtain ⟨_, _, rfl⟩ := he
      exact ⟨c, b, bs, h, Int.le_refl _, hv, by simpa using hsp⟩

theorem skipSpaces_view (F : SegFacts src segs) (Z : ∀ s ∈ segs, s.padding = 0) :
    ∀ (fuel : Nat) (chars : Int) {r : BlockReader} {c : BCur}, RS src segs r c →
    ∀ x r', skipSpaces blockOps fuel chars r = .ok (x, r') →
    ∃ c', RS src segs r' c' ∧ c.p ≤ c'.p ∧
      (BCur.view src segs c' = none ∨ ∃ b rest, BCur.view src segs c' = some (b :: rest) ∧ isSpace b = false) := by
  intro fuel
  induction fuel with
  | zero => intro chars r c _ x r' h; simp [skipSpaces] at h
  | succ f ih =>
    intro chars r c h x r' he
    obtain ⟨hpl, hpos⟩ := peekLine_facts F h
    have hpl' : blockOps.peekLine r = .ok ((BCur.view src segs c, r.pos), r) := hpl
    simp only [skipSpaces, hpl', bind, Except.bind] at he
    cases hv : BCur.view src segs c with
    | none =>
      rw [hv] at he
      simp only [pure, Except.pure, Except.ok.injEq, Prod.mk.injEq] at he
      obtain ⟨_, rfl⟩ := he
      exact ⟨c, h, Int.le_refl _, Or.inl hv⟩
    | some l =>
      rw [hv] at he
      obtain ⟨v1, v2, v3, v4, v5, v6, v7, v8⟩ := view_some F h.abs.wf h.pad hv
      simp only at he
      obtain ⟨res, ch, r1, c1, g1, g2, g3, g4, g5, g6⟩ := skipSpacesLine_post F Z r.pos l 0 chars h v7
      simp only [g1] at he
      cases res with
      | some v =>
        simp only [pure, Except.pure, Except.ok.injEq, Prod.mk.injEq] at he
        obtain ⟨_, rfl⟩ := he
        obtain ⟨c', b, rest, k1, k2, k3, k4⟩ := skipSpacesLine_view F Z r.pos l 0 chars h (fun _ => hv) v ch r1 g1
        exact ⟨c', k1, k2, Or.inr ⟨b, rest, k3, k4⟩⟩
      | none =>
        simp only at he
        obtain ⟨c', k1, k2, k3⟩ := ih ch g2 x r' he
        exact ⟨c', k1, by omega, k3⟩

/-- the head of parseLinkReferenceDefinition is total: `line[pos]` is the first byte of the line -/
theorem defHead_total (W : WFSegs src segs) (Z : ∀ s ∈ segs, s.padding = 0) {r : BlockReader} {c : BCur}
    (h : RS src segs r c) :
    ∃ a r1 c1, defHead r = .ok (a, r1) ∧ RS src segs r1 c1 ∧ c.p ≤ c1.p ∧
      (∀ sl pos, a = some (sl, pos) → ∃ l, BCur.view src segs c1 = some l ∧ 0 ≤ pos ∧ pos < l.length) := by
  have F := segFacts W
  obtain ⟨x, r1, c0, e1, _, _⟩ := skipSpaces_step W Z h
  obtain ⟨c1, h1, m1, hview⟩ := skipSpaces_view F Z (rdFuel r) 0 h x r1 e1
  obtain ⟨hpl, hpos⟩ := peekLine_facts F h1
  unfold defHead
  simp only [e1, hpl, bind, Except.bind, pure, Except.pure]
  rcases hview with hv | ⟨b, rest, hv, hsp⟩
  · rw [hv]
    exact ⟨none, r1, c1, rfl, h1, m1, by intro _ _ hh; cases hh⟩
  · rw [hv]
    have hnsp : b ≠ 32 ∧ b ≠ 9 := by
      constructor <;> (intro e; subst e; revert hsp; decide)
    simp only [GM.Blocks.indentWidthI, GM.Blocks.indentWidthGo, beq_iff_eq, hnsp.1, hnsp.2, if_false]
    have hidx : GM.Blocks.idx (b :: rest) 0 = .ok b := by simp [GM.Blocks.idx, getByte]
    simp only [show ¬ ((0 : Int) > 3) by omega, if_false, bne_self_eq_false, Bool.false_eq_true, hidx]
    split
    · exact ⟨none, r1, c1, rfl, h1, m1, by intro _ _ hh; cases hh⟩
    · refine ⟨_, r1, c1, rfl, h1, m1, ?_⟩
      intro sl p hh
      simp only [Option.some.injEq, Prod.mk.injEq] at hh
      exact ⟨b :: rest, hv, by omega, by simp only [List.length_cons]; omega⟩

/-- **parseLinkReferenceDefinition is total** on a reader that stands for a padding-free cursor over well-formed
    lines — no Go panic, no fuel exhaustion — and a recognised definition moves the reader forward by at least a byte -/
theorem parseLinkReferenceDefinition_total (W : WFSegs src segs) (Z : ∀ s ∈ segs, s.padding = 0) {r : BlockReader} {c : BCur}
    (h : RS src segs r c) (refs : RefMap) :
    ∃ x r' refs' c', parseLinkReferenceDefinition r refs = .ok (x, r', refs') ∧ RS src segs r' c' ∧ c.p ≤ c'.p ∧
      (x.1 > -1 → c.p < c'.p ∧ c.p < src.length) := by
  have F := segFacts W
  obtain ⟨a, r1, c1, e1, h1, m1, hq⟩ := defHead_total W Z h
  unfold parseLinkReferenceDefinition
  simp only [e1, bind, Except.bind]
  cases a with
  | none => exact ⟨_, r1, refs, c1, rfl, h1, m1, by intro hh; simp at hh⟩
  | some sp =>
    obtain ⟨sl, pos⟩ := sp
    obtain ⟨l, hv, p0, p1⟩ := hq sl pos rfl
    obtain ⟨v1, v2, v3, v4, v5, v6, v7, v8⟩ := view_some F h1.abs.wf h1.pad hv
    obtain ⟨x, r', refs', c', e, hr, hm⟩ := defTail_total W Z h1 refs sl pos hv p0 p1
    simp only [e]
    exact ⟨x, r', refs', c', rfl, hr, by omega, fun _ => ⟨by omega, by omega⟩⟩

/-- the `for` loop of Transform is total on well-formed padding-free lines: the progress monitor never fires -/
theorem transformLoop_total (W : WFSegs src segs) (Z : ∀ s ∈ segs, s.padding = 0) :
    ∀ (fuel : Nat) (rd : BlockReader) (c : BCur) (refs : RefMap) (removes : List (Int × Int)),
      RS src segs rd c → offsetMeasure rd < fuel → ∃ res, transformLoop fuel rd refs removes = .ok res := by
  intro fuel
  induction fuel with
  | zero => intro _ _ _ _ _ h; omega
  | succ fuel ih =>
    intro rd c refs removes h hf
    obtain ⟨⟨s, e⟩, rd', refs', c', hd, h', m, hprog⟩ := parseLinkReferenceDefinition_total W Z h refs
    unfold transformLoop
    simp only [hd, bind, Except.bind, pure, Except.pure]
    split
    · rename_i hs
      obtain ⟨p1, p2⟩ := hprog hs
      have hm : offsetMeasure rd' < offsetMeasure rd := by
        unfold offsetMeasure
        rw [h'.abs.pos, h.abs.pos, h'.abs.source, h.abs.source]
        simp only
        omega
      simp only [hm, decide_true, Bool.not_true, Bool.false_eq_true, if_false]
      exact ih rd' c' refs' _ h' (by omega)
    · exact ⟨_, rfl⟩

/-- **the scan of Transform is total** on `WF0` lines (and on no lines): no Go panic, no fuel exhaustion, no monitor -/
theorem transformScan_total {src : Bytes} {lines : List Segment} (h : lines = [] ∨ WF0 src lines) (refs : RefMap) :
    ∃ res, transformScan src lines refs = .ok res := by
  rcases h with h | ⟨W, Z⟩
  · subst h; exact ⟨_, transformScan_nil src refs⟩
  · have F := segFacts W
    obtain ⟨r0, e0, a0⟩ := blockReader_init F
    have hz0 : (BCur.init lines).pad = 0 := segOf_pad F Z 0 (Int.le_refl _) F.kpos
    unfold transformScan
    simp only [e0, bind, Except.bind]
    exact transformLoop_total W Z _ r0 _ refs [] ⟨a0, hz0⟩ (by unfold transformFuel; omega)

theorem wfSegsFromB_sound (src : Bytes) : ∀ (lo : Int) (l : List Segment), wfSegsFromB src lo l = true → WFSegsFrom src lo l
  | _, [], _ => trivial
  | lo, s :: rest, h => by
    simp only [wfSegsFromB, Bool.and_eq_true, decide_eq_true_eq, Bool.not_eq_true'] at h
    exact ⟨h.1.1.1.1.1, h.1.1.1.1.2, h.1.1.1.2, h.1.1.2, h.1.2, wfSegsFromB_sound src _ rest h.2⟩

/-- the run-time check decides `WF0` -/
theorem wf0B_sound {src : Bytes} {l : List Segment} (h : wf0B src l = true) : WF0 src l := by
  simp only [wf0B, wfSegsB, pad0B, Bool.and_eq_true, Bool.not_eq_true', List.all_eq_true, beq_iff_eq] at h
  refine ⟨⟨?_, wfSegsFromB_sound src 0 l h.1.2⟩, h.2⟩
  intro e; rw [e] at h; simp at h

/-- the scan of Transform never exhausts fuel on `WF0` lines (and on no lines) -/
theorem transformScan_noLoop {src : Bytes} {lines : List Segment} (h : lines = [] ∨ WF0 src lines) (refs : RefMap) :
    transformScan src lines refs ≠ .error .loop := by
  rcases h with h | ⟨W, Z⟩
  · subst h; rw [transformScan_nil]; intro he; cases he
  · have F := segFacts W
    obtain ⟨r0, e0, a0⟩ := blockReader_init F
    have hz0 : (BCur.init lines).pad = 0 := segOf_pad F Z 0 (Int.le_refl _) F.kpos
    unfold transformScan
    simp only [e0, bind, Except.bind]
    exact transformLoop_noLoop W Z _ r0 _ refs [] ⟨a0, hz0⟩ (by unfold transformFuel; omega)

end GM.Proof.LinkRefTotal
