/-
  GM.Proof.ShiftSimDriverL — the driver of the block phase (`closeBlocks`, the candidate loop of `openBlocks`) under the
  shift relation for ALL ten parsers (`PSimL`): the proofs of GM.Proof.ShiftSimDriver with the unary invariant `K` of run
  A's store threaded through instead of a set `Cov` of covered parsers.
-/
import GM.Proof.ShiftSimLDefs

namespace GM.Blocks.Sh
open GM GM.Text GM.Spec GM.Proof.Reader GM.Blocks

variable {F : Frame} {b : Bytes}

/-! ### closeBlocks -/

theorem closeLoop_L (hP : PSimL F b) : ∀ (k : Nat) (blocks : List Block) (to : Int) (rA rB : Reader) (sA sB : St),
    (∀ x ∈ blocks, 0 < x.node) → SRL F b rA rB sA sB → K sA →
    P2 (fun _ _ sA' sB' => SRL F b rA rB sA' sB' ∧ K sA') (closeLoop blocks to k sA)
      (closeLoop (blocks.map (shB F)) to k sB) := by
  intro k
  induction k with
  | zero => intro blocks to rA rB sA sB _ h hk; unfold closeLoop; exact P2.pure ⟨h, hk⟩
  | succ k ih =>
    intro blocks to rA rB sA sB hc h hk
    unfold closeLoop
    refine P2.bind (P := fun x y sA' sB' => y = shB F x ∧ x ∈ blocks ∧ sA = sA' ∧ sB = sB')
      (P2.liftE (fun x y e1 e2 => ?_)) (fun x y sA1 sB1 ⟨hy, hx, e1, e2⟩ => ?_)
    · rw [blockAt_map, e1] at e2; cases e2; exact ⟨rfl, blockAt_mem e1, rfl, rfl⟩
    subst hy e1 e2
    refine P2.bind (getNode_l h x.node) (fun n m sA2 sB2 ⟨hn, hm, e1, e2⟩ => ?_)
    subst e1 e2 hm
    have hp : (shN F (x.node == 0) n).parent.isSome = n.parent.isSome := by
      rw [shN_parent]; cases n.parent <;> rfl
    rw [hp]
    by_cases hps : n.parent.isSome = true
    · rw [if_pos hps, if_pos hps]
      refine P2.bind ((hP.cl x.bp x.node rA rB _ _ h hk (hc x hx)).withL (R := fun _ sA' => K sA')
        (fun a sA' e => (a2_bpClose_KS x.bp x.node (hc x hx) _ _ _ hk e).1)) (fun _ _ sA3 sB3 ⟨h3, k3⟩ => ?_)
      show P2 _ (closeLoop blocks to k sA3) (closeLoop _ to k sB3)
      exact ih blocks to rA rB sA3 sB3 hc h3 k3
    · rw [if_neg hps, if_neg hps]
      exact ih blocks to rA rB _ _ hc h hk

theorem dl_closeBlocks (hP : PSimL F b) (frm to : Int) {rA rB : Reader} {sA sB : St} (hk : K sA)
    (h : SRL F b rA rB sA sB) :
    P2 (fun _ _ sA' sB' => SRL F b rA rB sA' sB') (closeBlocks frm to sA) (closeBlocks frm to sB) := by
  unfold closeBlocks
  refine P2.bind (getPc_l h) (fun x y sA1 sB1 ⟨hx, hy, hxy, e1, e2⟩ => ?_)
  subst e1 e2
  have ho : y.opened = x.opened.map (shB F) := hxy.opened
  rw [ho]
  have hb : ∀ z ∈ x.opened, 0 < z.node := by
    rw [hx]; exact fun z hz => (hk.opened z hz).1
  refine P2.bind (closeLoop_L hP _ x.opened to rA rB _ _ hb h hk) (fun _ _ sA2 sB2 ⟨h2, _⟩ => ?_)
  simp only [List.length_map]
  by_cases hf : (frm == (x.opened.length : Int) - 1) = true
  · rw [if_pos hf, if_pos hf]
    refine P2.bind (P := fun (u v : List Block) sA' sB' => v = u.map (shB F) ∧ sA2 = sA' ∧ sB2 = sB')
      (P2.liftE (fun u v e1 e2 => ?_)) (fun u v sA3 sB3 ⟨hv, e1, e2⟩ => ?_)
    · rw [slice'_map, e1] at e2; cases e2; exact ⟨rfl, rfl, rfl⟩
    subst hv e1 e2
    exact modPc_l h2 _ _ (fun x y hxy => ctxRel_opened hxy u)
  · rw [if_neg hf, if_neg hf]
    refine P2.bind (P := fun (u v : List Block) sA' sB' => v = u.map (shB F) ∧ sA2 = sA' ∧ sB2 = sB')
      (P2.liftE (fun u v e1 e2 => ?_)) (fun u v sA3 sB3 ⟨hv, e1, e2⟩ => ?_)
    · rw [slice'_map, e1] at e2; cases e2; exact ⟨rfl, rfl, rfl⟩
    subst hv e1 e2
    refine P2.bind (P := fun (u v : List Block) sA' sB' => v = u.map (shB F) ∧ sA2 = sA' ∧ sB2 = sB')
      (P2.liftE (fun u v e1 e2 => ?_)) (fun u2 v2 sA3 sB3 ⟨hv, e1, e2⟩ => ?_)
    · rw [slice'_map, e1] at e2; cases e2; exact ⟨rfl, rfl, rfl⟩
    subst hv e1 e2
    refine P2.bind (P := fun (u v : List Block) sA' sB' => v = u.map (shB F) ∧ sA2 = sA' ∧ sB2 = sB')
      (P2.pure ⟨by simp, rfl, rfl⟩) (fun u3 v3 sA3 sB3 ⟨hv, e1, e2⟩ => ?_)
    subst hv e1 e2
    exact modPc_l h2 _ _ (fun x y hxy => ctxRel_opened hxy u3)

theorem closeBlocks_L (hP : PSimL F b) : CloseBlocksSimL F b := by
  intro frm to rA rB sA sB h hk
  exact (dl_closeBlocks hP frm to hk h).withL (R := fun _ sA' => K sA')
    (fun a sA' e => (a2_closeBlocks frm to sA sA' a hk e).1)

/-! ### the candidate loop: a parser answered a node -/

/-- what the "a node was opened" paths establish (the binary part) -/
def dl_TpQ (F : Frame) (b : Bytes) (rA rB : Reader) (node : Nat) (state : PState)
    (lastBlock : Option Block) (x y : TryOutcome × OpenResult × Option Block) (sA' sB' : St) : Prop :=
  x = ((if state.hasChildren = true then TryOutcome.retry node else TryOutcome.done), OpenResult.newBlocksOpened, lastBlock) ∧
  y = (shO F x.1, x.2.1, x.2.2.map (shB F)) ∧ SRL F b rA rB sA' sB' ∧ sA'.pc.opened ≠ []

/-- `TpQ` without `AI`, plus `K` of run A's state -/
def TpQL (F : Frame) (b : Bytes) (rA rB : Reader) (node : Nat) (state : PState)
    (lastBlock : Option Block) (x y : TryOutcome × OpenResult × Option Block) (sA' sB' : St) : Prop :=
  dl_TpQ F b rA rB node state lastBlock x y sA' sB' ∧ K sA'

theorem dl_tpJp2 (hF : F.OK) {rA rB : Reader} {sA sB : St} (parent node : Nat) (bp : BP) (state : PState)
    (lastBlock : Option Block) (h : SRL F b rA rB sA sB) :
    P2 (dl_TpQ F b rA rB node state lastBlock) (tpJp2 parent node bp state lastBlock sA)
      (tpJp2 (F.ι parent) (F.ι node) bp state (lastBlock.map (shB F)) sB) := by
  unfold tpJp2
  refine P2.bind (appendChild_l hF h parent node) (fun _ _ sA1 sB1 h1 => ?_)
  refine P2.bind (P := fun _ _ sA' sB' => SRL F b rA rB sA' sB' ∧ sA'.pc.opened = sA1.pc.opened ++ [{ node := node, bp := bp }])
    ?_ (fun _ _ sA2 sB2 ⟨h2, ho2⟩ => ?_)
  · refine (modPc_l h1 _ _ (fun x y hxy => ?_)).withL (fun a sA' e => ?_)
    · have := ctxRel_opened hxy (x.opened ++ [{ node := node, bp := bp }])
      rw [hxy.opened]
      simpa [shB] using this
    · unfold modPc at e; cases e; rfl
  · have hne : sA2.pc.opened ≠ [] := by rw [ho2]; simp
    by_cases hh : state.hasChildren = true
    · rw [if_pos hh, if_pos hh]
      exact P2.pure ⟨by rw [if_pos hh], by simp [shO], h2, hne⟩
    · rw [if_neg hh, if_neg hh]
      exact P2.pure ⟨by rw [if_neg hh], by simp [shO], h2, hne⟩

theorem dl_tpJp1 (hP : PSimL F b) (hF : F.OK) {rA rB : Reader} {sA sB : St} (parent node : Nat) (bp : BP)
    (state : PState) (lastBlock : Option Block) (blankLine : Bool) (last : Option Nat)
    (h : SRL F b rA rB sA sB) (hk : K sA) :
    P2 (dl_TpQ F b rA rB node state lastBlock) (tpJp1 parent node bp state lastBlock blankLine last sA)
      (tpJp1 (F.ι parent) (F.ι node) bp state (lastBlock.map (shB F)) blankLine (last.map F.ι) sB) := by
  unfold tpJp1
  refine P2.bind ((modNode_l h node (fun n => { n with blankPrev := blankLine }) (fun n => { n with blankPrev := blankLine }) (fun a => by simp [shN]) (fun _ => rfl)).withL
    (R := fun _ sA' => K sA') (fun a sA' e => ?_))
    (fun _ _ sA1 sB1 ⟨h1, k1⟩ => ?_)
  · have a1 := ac_modNode_acyc node (fun n => { n with blankPrev := blankLine }) (fun _ => ⟨rfl, rfl⟩) sA _ sA' hk.acyc e
    have d1 := a2_modNode_ch node (fun n => { n with blankPrev := blankLine })
      (fun _ => ⟨rfl, rfl, fun x hx => Or.inl hx⟩) sA _ sA' hk.doc e
    have o1 := modNode_opened _ _ _ _ _ e
    have l1 : sA.nodes.length ≤ sA'.nodes.length :=
      ac_modNode_len sA.nodes.length node _ sA _ sA' (Nat.le_refl _) e
    exact (a2_KS_mk hk a1 d1 o1 l1).1
  cases last with
  | none => exact dl_tpJp2 hF parent node bp state lastBlock h1
  | some l =>
    simp only [Option.map_some]
    refine P2.bind (getNode_l h1 l) (fun ln lm sA2 sB2 ⟨_, hm, e1, e2⟩ => ?_)
    subst e1 e2 hm
    have hp : (shN F (l == 0) ln).parent.isNone = ln.parent.isNone := by
      rw [shN_parent]; cases ln.parent <;> rfl
    rw [hp]
    by_cases hn : ln.parent.isNone = true
    · rw [if_pos hn, if_pos hn]
      refine P2.bind (getPc_l h1) (fun x y sA3 sB3 ⟨hx, hy, hxy, e1, e2⟩ => ?_)
      subst e1 e2
      have hlen : (y.opened.length : Int) = x.opened.length := by rw [hxy.opened, List.length_map]
      rw [hlen]
      refine P2.bind (dl_closeBlocks hP _ _ k1 h1) (fun _ _ sA4 sB4 h4 => ?_)
      exact dl_tpJp2 hF parent node bp state lastBlock h4
    · rw [if_neg hn, if_neg hn]
      exact dl_tpJp2 hF parent node bp state lastBlock h1

theorem dl_tpJp3 (hP : PSimL F b) (hF : F.OK) {rA rB : Reader} {sA sB : St} (parent node : Nat) (bp : BP)
    (state : PState) (lastBlock : Option Block) (blankLine : Bool) (last : Option Nat) (lb : Block) (blocks : List Block)
    (h : SRL F b rA rB sA sB) (hk : K sA) (hb : ∀ z ∈ blocks, z ∈ sA.pc.opened) :
    P2 (dl_TpQ F b rA rB node state lastBlock) (tpJp3 parent node bp state lastBlock blankLine last lb blocks sA)
      (tpJp3 (F.ι parent) (F.ι node) bp state (lastBlock.map (shB F)) blankLine (last.map F.ι) (shB F lb)
        (blocks.map (shB F)) sB) := by
  unfold tpJp3
  refine P2.bind (P := fun _ _ sA' sB' => SRL F b rA rB sA' sB' ∧ K sA') ?_
    (fun _ _ sA1 sB1 ⟨h1, k1⟩ => ?_)
  · refine (modPc_l h _ _ (fun x y hxy => ?_)).withL (fun a sA' e => ?_)
    · have := ctxRel_opened hxy blocks.dropLast
      simpa [List.map_dropLast] using this
    · unfold modPc at e; cases e
      exact ⟨hk.acyc, hk.doc, fun y hy => hk.opened y (hb y (List.dropLast_subset _ hy))⟩
  refine P2.bind (getNode_l h1 lb.node) (fun ln lm sA2 sB2 ⟨_, hm, e1, e2⟩ => ?_)
  subst e1 e2 hm
  rw [shN_kind]
  by_cases hkd : (ln.kind != Kind.paragraph) = true
  · rw [if_pos hkd, if_pos hkd]; exact P2.throwBindL
  · rw [if_neg hkd, if_neg hkd]
    exact dl_tpJp1 hP hF parent node bp state lastBlock blankLine last h1 k1

theorem dl_tpSome (hP : PSimL F b) (hF : F.OK) {rA rB : Reader} {sA sB : St} (parent node : Nat) (bp : BP)
    (state : PState) (lastBlock : Option Block) (blankLine : Bool)
    (h : SRL F b rA rB sA sB) (hk : K sA) (hlb : ∀ l, lastBlock = some l → 0 < l.node) :
    P2 (dl_TpQ F b rA rB node state lastBlock)
      (tpSome parent node bp state lastBlock blankLine (lastBlock.map (·.node)) sA)
      (tpSome (F.ι parent) (F.ι node) bp state (lastBlock.map (shB F)) blankLine
        ((lastBlock.map (shB F)).map (·.node)) sB) := by
  have hlast : (lastBlock.map (shB F)).map (·.node) = (lastBlock.map (·.node)).map F.ι := by
    cases lastBlock <;> rfl
  rw [hlast]
  unfold tpSome
  by_cases hr : state.requirePara = true
  · rw [if_pos hr, if_pos hr]
    refine P2.bind (getNode_l h parent) (fun pn pm sA1 sB1 ⟨_, hm, e1, e2⟩ => ?_)
    subst e1 e2 hm
    rw [shN_children]
    cases lastBlock with
    | none =>
      simp only [Option.map_none]
      by_cases hcond : ((none : Option Nat) == pn.children.getLast?) = true
      · rw [if_pos hcond]; exact P2.throwBindL
      · have hcond' : ((none : Option Nat) == pn.children.getLast?) = false := by simpa using hcond
        rw [if_neg hcond, getLast_cond_none (F := F) _ _ hcond', if_neg (by simp)]
        exact dl_tpJp1 hP hF parent node bp state none blankLine none h hk
    | some lb =>
      simp only [Option.map_some]
      have e : (shB F lb).node = F.ι lb.node := rfl
      rw [show (some (F.ι lb.node) == (kidsB F (parent == 0) pn.children).getLast?) =
        (some lb.node == pn.children.getLast?) from getLast_cond hF _ _ _]
      by_cases hcond : (some lb.node == pn.children.getLast?) = true
      · rw [if_pos hcond, if_pos hcond]
        refine P2.bind ((hP.cl lb.bp lb.node rA rB _ _ h hk (hlb lb rfl)).withL
          (R := fun _ sA' => K sA' ∧ sA'.pc.opened = sA1.pc.opened)
          (fun a sA' e => ⟨(a2_bpClose_KS lb.bp lb.node (hlb lb rfl) _ _ _ hk e).1, bpClose_opened _ _ _ _ _ e⟩))
          (fun _ _ sA2 sB2 ⟨h2, k2, ho2⟩ => ?_)
        refine P2.bind (getPc_l h2) (fun x y sA3 sB3 ⟨hx, hy, hxy, e1, e2⟩ => ?_)
        subst e1 e2
        have ho : y.opened = x.opened.map (shB F) := hxy.opened
        rw [ho, List.length_map]
        have hcb : ∀ z ∈ x.opened, z ∈ sA3.pc.opened := by rw [hx]; exact fun z hz => hz
        by_cases hz : (x.opened.length == 0) = true
        · rw [if_pos hz, if_pos hz]; exact P2.throwBindL
        · rw [if_neg hz, if_neg hz]
          exact dl_tpJp3 hP hF parent node bp state (some lb) blankLine (some lb.node) lb x.opened h2 k2 hcb
      · rw [if_neg hcond, if_neg hcond]
        exact dl_tpJp1 hP hF parent node bp state (some lb) blankLine (some lb.node) h hk
  · rw [if_neg hr, if_neg hr]
    exact dl_tpJp1 hP hF parent node bp state lastBlock blankLine _ h hk

/-! the pieces with `K` of run A's final state (from the unary lemmas of GM.Proof.ShiftSimAcyc2) -/

theorem tpJp2_L (hF : F.OK) {rA rB : Reader} {sA sB : St} (parent node : Nat) (bp : BP) (state : PState)
    (lastBlock : Option Block) (h : SRL F b rA rB sA sB) (hk : K sA) (hpn : parent < node)
    (hn : node < sA.nodes.length) :
    P2 (TpQL F b rA rB node state lastBlock) (tpJp2 parent node bp state lastBlock sA)
      (tpJp2 (F.ι parent) (F.ι node) bp state (lastBlock.map (shB F)) sB) :=
  (dl_tpJp2 hF parent node bp state lastBlock h).withL (R := fun _ sA' => K sA')
    (fun x sA' e => (a2_tpJp2 parent node bp state lastBlock sA sA' x hk hpn hn e).1.1)

theorem tpJp1_L (hP : PSimL F b) (hF : F.OK) {rA rB : Reader} {sA sB : St} (parent node : Nat) (bp : BP)
    (state : PState) (lastBlock : Option Block) (blankLine : Bool) (last : Option Nat)
    (h : SRL F b rA rB sA sB) (hk : K sA) (hpn : parent < node) (hn : node < sA.nodes.length) :
    P2 (TpQL F b rA rB node state lastBlock) (tpJp1 parent node bp state lastBlock blankLine last sA)
      (tpJp1 (F.ι parent) (F.ι node) bp state (lastBlock.map (shB F)) blankLine (last.map F.ι) sB) :=
  (dl_tpJp1 hP hF parent node bp state lastBlock blankLine last h hk).withL (R := fun _ sA' => K sA')
    (fun x sA' e => (a2_tpJp1 parent node bp state lastBlock blankLine last sA sA' x hk hpn hn e).1.1)

theorem tpJp3_L (hP : PSimL F b) (hF : F.OK) {rA rB : Reader} {sA sB : St} (parent node : Nat) (bp : BP)
    (state : PState) (lastBlock : Option Block) (blankLine : Bool) (last : Option Nat) (lb : Block) (blocks : List Block)
    (h : SRL F b rA rB sA sB) (hk : K sA) (hb : ∀ z ∈ blocks, z ∈ sA.pc.opened) (hpn : parent < node)
    (hn : node < sA.nodes.length) :
    P2 (TpQL F b rA rB node state lastBlock) (tpJp3 parent node bp state lastBlock blankLine last lb blocks sA)
      (tpJp3 (F.ι parent) (F.ι node) bp state (lastBlock.map (shB F)) blankLine (last.map F.ι) (shB F lb)
        (blocks.map (shB F)) sB) :=
  (dl_tpJp3 hP hF parent node bp state lastBlock blankLine last lb blocks h hk hb).withL (R := fun _ sA' => K sA')
    (fun x sA' e => (a2_tpJp3 parent node bp state lastBlock blankLine last lb blocks sA sA' x hk hpn hn hb e).1.1)

theorem tpSome_L (hP : PSimL F b) (hF : F.OK) {rA rB : Reader} {sA sB : St} (parent node : Nat) (bp : BP)
    (state : PState) (lastBlock : Option Block) (blankLine : Bool)
    (h : SRL F b rA rB sA sB) (hk : K sA) (hlb : ∀ l, lastBlock = some l → 0 < l.node) (hpn : parent < node)
    (hn : node < sA.nodes.length) :
    P2 (TpQL F b rA rB node state lastBlock)
      (tpSome parent node bp state lastBlock blankLine (lastBlock.map (·.node)) sA)
      (tpSome (F.ι parent) (F.ι node) bp state (lastBlock.map (shB F)) blankLine
        ((lastBlock.map (shB F)).map (·.node)) sB) :=
  (dl_tpSome hP hF parent node bp state lastBlock blankLine h hk hlb).withL (R := fun _ sA' => K sA')
    (fun x sA' e => (a2_tpSome parent node bp state lastBlock blankLine _ sA sA' x hk hpn hn hlb e).1.1)

/-! ### the candidate loop -/

/-- the binary part of `TryPostL` (without `k`, `lb`, `par`, which the unary `a2_tryParsers` gives) -/
structure dl_Post (F : Frame) (b : Bytes) (sA0 : St) (resIn : OpenResult) (lbIn : Option Block)
    (x : TryOutcome × OpenResult × Option Block) (sA' sB' : St) : Prop where
  lim : SRLim F b sA' sB'
  sr : ((∃ p, x.1 = .retry p) ∨ x.2.1 = .noBlocksOpened) → SR F b sA' sB'
  line : sA0.r.line ≤ sA'.r.line
  hasLine : x.2.1 = .noBlocksOpened → HasLine b sA'
  ne : x.2.1 = .newBlocksOpened → (resIn = .newBlocksOpened → sA0.pc.opened ≠ []) → sA'.pc.opened ≠ []
  same : x.2.1 = .noBlocksOpened → resIn = .noBlocksOpened ∧ sA'.pc.opened = sA0.pc.opened ∧
    (x.2.2 = lbIn ∨ x.2.2 = sA0.pc.opened.getLast?)
  retryNew : ∀ p, x.1 = .retry p → x.2.1 = .newBlocksOpened

theorem dl_tryParsers (hP : PSimL F b) (hF : F.OK) (parent : Nat) (blankLine continuable : Bool) (w : Int) :
    ∀ (bps : List BP) (result : OpenResult) (lastBlock : Option Block) (sA sB : St),
      SR F b sA sB → HasLine b sA → K sA →
      P2 (fun x y sA' sB' => y = (shO F x.1, x.2.1, x.2.2.map (shB F)) ∧ dl_Post F b sA result lastBlock x sA' sB')
        (tryParsers parent blankLine continuable w bps result lastBlock sA)
        (tryParsers (F.ι parent) blankLine continuable w bps result (lastBlock.map (shB F)) sB) := by
  intro bps
  induction bps with
  | nil =>
    intro result lastBlock sA sB h hl hk
    unfold tryParsers
    refine P2.pure ⟨rfl, h.limbo, fun _ => h, Int.le_refl _, fun _ => hl, fun e he => he e,
      fun e => ⟨e, rfl, .inl rfl⟩, fun p e => ?_⟩
    have e' : TryOutcome.done = .retry p := e
    cases e'
  | cons bp bps ih =>
    intro result lastBlock sA sB h hl hk
    rw [tryParsers_cons, tryParsers_cons]
    by_cases c1 : (continuable && result == OpenResult.noBlocksOpened && !bp.canInterruptParagraph) = true
    · rw [if_pos c1, if_pos c1]; exact ih result lastBlock sA sB h hl hk
    rw [if_neg c1, if_neg c1]
    by_cases c2 : (decide (w > 3) && !bp.canAcceptIndentedLine) = true
    · rw [if_pos c2, if_pos c2]; exact ih result lastBlock sA sB h hl hk
    rw [if_neg c2, if_neg c2]
    refine P2.bind (lastOpenedBlock_p2 h) (fun x0 y0 sA0 sB0 ⟨hx0, hy0, e1, e2⟩ => ?_)
    subst e1 e2 hy0
    have hlb0 : ∀ l, x0 = some l → 0 < l.node := by
      intro l hl0
      rw [hx0] at hl0
      exact (hk.opened l (List.mem_of_getLast? hl0)).1
    refine P2.bind (((hP.op bp parent _ _ h hl).withL
      (R := fun a sA' => sA'.pc.opened = sA0.pc.opened ∧ sA0.r.line ≤ sA'.r.line ∧
        (a.1 = none → sA'.r.pos = sA0.r.pos) ∧ K sA')
      (fun a sA' e => ⟨bpOpen_opened _ _ _ _ _ e, bpOpen_line _ _ _ _ _ e, bpOpen_none_pos _ _ _ _ _ e,
        (a2_bpOpen_KS bp parent _ _ _ hk e).1⟩)))
      (fun x y sA1 sB1 ⟨⟨hy, hlim, hsr, _⟩, ho1, hline1, hpos1, k1⟩ => ?_)
    subst hy
    cases hx1 : x.1 with
    | none =>
      simp only [Option.map_none]
      have h1 : SR F b sA1 sB1 := hsr (.inr hx1)
      have hl1 : HasLine b sA1 := hasLine_of_pos hl h1.ri (hpos1 hx1)
      refine (ih result x0 sA1 sB1 h1 hl1 k1).mono (fun u v sA' sB' ⟨hv, hpost⟩ => ⟨hv, ?_⟩)
      refine ⟨hpost.lim, hpost.sr, Int.le_trans hline1 hpost.line, hpost.hasLine,
        fun e he => hpost.ne e (fun e' => ho1 ▸ he e'), fun e => ?_, hpost.retryNew⟩
      obtain ⟨hres, ho, hor⟩ := hpost.same e
      refine ⟨hres, ho.trans ho1, .inr ?_⟩
      rcases hor with hor | hor
      · rw [hor, hx0]
      · rw [hor, ho1]
    | some node =>
      simp only [Option.map_some]
      refine (dl_tpSome hP hF parent node bp x.2 x0 blankLine hlim.1 k1 hlb0).mono
        (fun u v sA' sB' ⟨hu, hv, h', hne⟩ => ⟨hv, ?_⟩)
      have era := h'.ra
      refine ⟨SRLim.of_l hlim h', ?_, ?_, ?_, fun _ _ => hne, ?_, ?_⟩
      · intro hcase
        have hh : x.2.hasChildren = true := by
          rcases hcase with ⟨p, hp⟩ | hp
          · rw [hu] at hp
            by_cases hh : x.2.hasChildren = true
            · exact hh
            · simp [hh] at hp
          · rw [hu] at hp; cases hp
        exact SRL.sr (hsr (.inl hh)) h'
      · rw [era]; exact hline1
      · intro e; rw [hu] at e; cases e
      · intro e; rw [hu] at e; cases e
      · intro p _; rw [hu]

theorem tryParsers_L (hP : PSimL F b) (hF : F.OK) : TryParsersSimL F b := by
  intro parent blankLine continuable w bps result lastBlock sA sB hlb h hl hk hp
  refine ((dl_tryParsers hP hF parent blankLine continuable w bps result lastBlock sA sB h hl hk).withL
    (R := fun x sA' => K sA' ∧ (∀ p, x.1 = .retry p → p < sA'.nodes.length) ∧ (∀ l, x.2.2 = some l → 0 < l.node))
    (fun x sA' e => ?_)).mono
    (fun x y sA' sB' ⟨⟨hy, hpost⟩, hk', hpar, hlb'⟩ =>
      ⟨hy, ⟨hpost.lim, hk', hlb', hpar, hpost.sr, hpost.line, hpost.hasLine, hpost.ne, hpost.same, hpost.retryNew⟩⟩)
  obtain ⟨k2, hr, hl2⟩ := a2_tryParsers parent blankLine continuable w bps result lastBlock sA sA' x hk hp hlb e
  exact ⟨k2.1, hr, hl2⟩

end GM.Blocks.Sh
