/-
  GM.Proof.CMFragSpec6 — the stage-6 fragment (stage 5 plus blocks that follow each other without a blank line
  where CommonMark allows it) of GM.Spec.CMFrag inside the spec model GM.Spec.CommonMark:
  * `expectedK_eq_expected`: the prescribed HTML of a stage-6 document is `expected` of the embedded document;
  * `spellK_eq_spell`: for a NON-EMPTY stage-6 document without extra blank lines the source is `spell` of the
    embedded document, byte for byte.
-/
import GM.Proof.CMFragSpec5
namespace GM.Proof.CMFrag
open GM GM.Spec.CM GM.Spec.CMFrag

/-! ### K1: prescribed HTML -/

theorem expB_kembedK (a : Bool) (b : HBlock) :
    expB false false (kembedBlock a b) = expB false false (hembedBlock b) := by
  cases b with
  | base b => cases b <;> simp [kembedBlock, hembedBlock, gembedBlock, expB]
  | fcode tilde n info lines => simp [kembedBlock, hembedBlock, expB]

theorem render_expBs_kembedK (its : List KItem) (hok : ∀ it ∈ its, hblockOK it.block = true) :
    render (expBs false false (its.map fun it => kembedBlock (it.sep == 0) it.block)) =
      its.flatMap fun it => expHBlock it.block := by
  induction its with
  | nil => simp [expBs, render]
  | cons it rest ih =>
    rw [List.map_cons, expBs, render_append, ih (fun x hx => hok x (by simp [hx])),
      List.flatMap_cons, ← render_expB_hembedH it.block (hok it (by simp)), Bool.false_and, expB_kembedK]

theorem kfrag_okK (d : KDoc) (h : KFrag d) :
    (∀ it ∈ d.items, hblockOK it.block = true) ∧ ksepsOK none d.items = true := by
  have := h
  simp only [KFrag, kfragB, Bool.and_eq_true, List.all_eq_true] at this
  exact this

/-- K1 -/
theorem expectedK_eq_expected (d : KDoc) (h : KFrag d) : expectedK d = expected (kembed d) := by
  rw [expected, expectedPieces, kembed, expectedK, render_expBs_kembedK d.items (kfrag_okK d h).1]

/-! ### K2: source -/

/-- the separator the spec model writes in front of an embedded block -/
def sepK (prev : Nat) (a : Bool) (b : HBlock) : List Line :=
  if prev == 0 then [] else if a && canAbut prev (kembedBlock a b) then [] else [blankLine]

/-- one embedded stage-6 block in front of any other blocks: the separator, the lines of the stage-5 block, the rest -/
theorem spellBs_kembed_consK (a : Bool) (b : HBlock) (prev pm : Nat) (rest : List Block) :
    spellBs false false prev pm (kembedBlock a b :: rest) =
      sepK prev a b ++ spellBs false false 0 0 [hembedBlock b] ++
        spellBs false false (kindOf (hembedBlock b)) 0 rest := by
  cases b with
  | base b =>
    cases b <;>
      simp [kembedBlock, hembedBlock, gembedBlock, spellBs, kindOf, bch, spellB, sepK]
  | fcode tilde n info lines =>
    simp [kembedBlock, hembedBlock, spellBs, kindOf, bch, spellB, sepK]

theorem kindOf_hembedK (b : HBlock) : (kindOf (hembedBlock b) == 0) = false := by
  cases b with
  | base b => exact kindOf_gembedH b
  | fcode tilde n info lines => rfl

/-- `kabutOK` is `canAbut` of the spec model on our blocks -/
theorem canAbut_kembedK (a b : HBlock) (h : kabutOK a b = true) :
    canAbut (kindOf (hembedBlock a)) (kembedBlock true b) = true := by
  cases a with
  | base a =>
    cases a with
    | para ls =>
      cases b with
      | base b =>
        cases b with
        | para ls' => simp [kabutOK] at h
        | heading level text => simp [hembedBlock, gembedBlock, kembedBlock, kindOf, canAbut]
        | thematic c n =>
          simp only [kabutOK] at h
          simp [hembedBlock, gembedBlock, kembedBlock, kindOf, canAbut, h]
      | fcode tilde n info lines => simp [hembedBlock, gembedBlock, kembedBlock, kindOf, canAbut]
    | heading level text =>
      cases b with
      | base b => cases b <;> simp [hembedBlock, gembedBlock, kembedBlock, kindOf, canAbut]
      | fcode tilde n info lines => simp [hembedBlock, gembedBlock, kembedBlock, kindOf, canAbut]
    | thematic c n =>
      cases b with
      | base b => cases b <;> simp [hembedBlock, gembedBlock, kembedBlock, kindOf, canAbut]
      | fcode tilde n info lines => simp [hembedBlock, gembedBlock, kembedBlock, kindOf, canAbut]
  | fcode tilde n info lines =>
    cases b with
    | base b => cases b <;> simp [hembedBlock, kembedBlock, kindOf, canAbut]
    | fcode tilde n info lines => simp [hembedBlock, kembedBlock, kindOf, canAbut]

/-- the source lines of the items: `sep` blank lines in front of every item -/
def docLinesK (its : List KItem) : List Bytes :=
  its.flatMap fun it => List.replicate it.sep [] ++ hblockLines it.block

theorem blockLines_kembedK (b : HBlock) (hok : hblockOK b = true) :
    (spellBs false false 0 0 [hembedBlock b]).map (renderLine 0 0 0 0) = hblockLines b := by
  have := spellBs_hembedH [⟨0, b⟩] (by intro x hx; simp only [List.mem_singleton] at hx; subst hx; exact hok) 0 0
  simpa [docLinesH] using this

/-- the blocks behind a block `a` -/
theorem spellBs_kembedK (its : List KItem) (hok : ∀ it ∈ its, hblockOK it.block = true) (a : HBlock)
    (hs : ksepsOK (some a) its = true) (h1 : ∀ it ∈ its, it.sep ≤ 1) (pm : Nat) :
    (spellBs false false (kindOf (hembedBlock a)) pm (its.map fun it => kembedBlock (it.sep == 0) it.block)).map
        (renderLine 0 0 0 0) = docLinesK its := by
  induction its generalizing a pm with
  | nil => simp [spellBs, docLinesK]
  | cons it rest ih =>
    obtain ⟨s, b⟩ := it
    have hb := hok ⟨s, b⟩ (by simp)
    have hs1 : s ≤ 1 := h1 ⟨s, b⟩ (by simp)
    simp only [ksepsOK, Bool.and_eq_true, Bool.or_eq_true, bne_iff_ne, ne_eq] at hs
    have ih' := ih (fun x hx => hok x (by simp [hx])) b hs.2 (fun x hx => h1 x (by simp [hx])) 0
    have hsep : (sepK (kindOf (hembedBlock a)) (s == 0) b).map (renderLine 0 0 0 0) = List.replicate s [] := by
      have hk := kindOf_hembedK a
      by_cases h0 : s = 0
      · subst h0
        have hab : kabutOK a b = true := by
          rcases hs.1 with h | h
          · exact absurd rfl h
          · exact h
        simp [sepK, hk, canAbut_kembedK a b hab]
      · have hs1' : s = 1 := by omega
        subst hs1'
        simp [sepK, hk, renderLine_blank]
    rw [List.map_cons, spellBs_kembed_consK, List.map_append, List.map_append, ih', hsep, blockLines_kembedK b hb]
    simp [docLinesK]

theorem docLinesK_flatMapK (its : List KItem) :
    (docLinesK its).flatMap (· ++ [10]) = its.flatMap fun it => blanks it.sep ++ spellHBlock it.block := by
  induction its with
  | nil => simp [docLinesK]
  | cons it rest ih =>
    have e : docLinesK (it :: rest) = List.replicate it.sep [] ++ hblockLines it.block ++ docLinesK rest := by
      simp [docLinesK]
    have hbl : ∀ n : Nat, (List.replicate n ([] : Bytes)).flatMap (· ++ [10]) = blanks n := by
      intro n
      induction n with
      | zero => rfl
      | succ n ihn => rw [List.replicate_succ, List.flatMap_cons, ihn, blanks, blanks, List.replicate_succ]; rfl
    rw [e, List.flatMap_append, List.flatMap_append, ih, hblockLines_flatMapH, hbl, List.flatMap_cons]

/-- K2: a non-empty stage-6 document without extra blank lines is spelled byte for byte like the embedded one -/
theorem spellK_eq_spell (d : KDoc) (h : KFrag d) (hb : knoExtraBlanks d = true) (hne : d.items ≠ []) :
    spellK d = spell (kembed d) := by
  obtain ⟨hok, hseps⟩ := kfrag_okK d h
  obtain ⟨items, trail⟩ := d
  cases items with
  | nil => exact absurd rfl hne
  | cons it rest =>
    obtain ⟨s, b⟩ := it
    simp only [knoExtraBlanks, Bool.and_eq_true, beq_iff_eq, List.all_eq_true, decide_eq_true_eq] at hb
    obtain ⟨ht, hs0, h1⟩ := hb
    simp only at ht hs0 hok hseps; subst ht; subst hs0
    have hbk := hok ⟨0, b⟩ (by simp)
    simp only [ksepsOK] at hseps
    have hrest := spellBs_kembedK rest (fun x hx => hok x (by simp [hx])) b hseps h1 0
    have hl : (spellBs false false 0 0 ((⟨0, b⟩ :: rest : List KItem).map fun it => kembedBlock (it.sep == 0) it.block)).map
        (renderLine 0 0 0 0) = docLinesK (⟨0, b⟩ :: rest) := by
      rw [List.map_cons, spellBs_kembed_consK, List.map_append, List.map_append, hrest, blockLines_kembedK b hbk]
      simp [sepK, docLinesK]
    have hdn : docLinesK (⟨0, b⟩ :: rest) ≠ [] := by
      have := docLinesH_neH ⟨0, b⟩ [] hbk
      simp only [docLinesH, if_true, List.nil_append, List.append_nil] at this
      simp [docLinesK, this]
    simp only [spell, kembed, spellK, blanks, List.replicate_zero, List.append_nil, if_true]
    rw [hl, joinLines_flatMap _ hdn, docLinesK_flatMapK]
    simp [blanks]

end GM.Proof.CMFrag
