/-
  GM.Proof.BlocksTNO11 — wf0's CLOSE DISCIPLINE (GM.Proof.BlocksClosedInv / BlocksClosedClose) for the driver WITH
  paragraph transformers, part 1: the invariant `CInvG` and `closeBlocksT`.

  `CInvG F src s U` is wf0's `CInv` over the invariant `InvGF F` of GM.Proof.BlocksTNO6 (no "every Paragraph has a line"),
  with "the nodes of `U` are distinct" as a `Nodup` clause. New: `ptpost_cl` — one transformer call on the top block of the
  open set: KEEP (the lines lose a prefix; nothing else changes) or GONE (the paragraph has no lines any more, is
  detached and leaves the open set; the fresh TextBlock has no lines; tree links stay consistent); `paragraphClose` on a
  paragraph without lines (`RemoveChild`); `closeListT_cl`, `closeBlocksT_cl`.
-/
import GM.Proof.BlocksTNO36
import GM.Proof.BlocksClosedEnd

namespace GM.Blocks.TX
open GM GM.Text GM.Spec GM.Proof.Reader GM.LinkRef GM.Blocks.TO GM.TableX
open GM.Proof.BlocksWF0 (isRaw)

/-- the kinds whose nodes never carry lines — WITHOUT ThematicBreak (the table records are `thematicBreak` nodes) -/
def noLinesKind : Kind → Bool
  | .document | .blockquote | .list | .listItem => true
  | _ => false

theorem noLinesKind_old {k : Kind} (h : noLinesKind k = true) : GM.Blocks.noLinesKind k = true := by
  cases k <;> first | rfl | cases h

structure CInvG (F : Prop) (src : Bytes) (s : St) (U : List Block) : Prop where
  inv : ∃ B D, InvGFX D F src B s
  tree : TreeOK s
  pad : ∀ i, isRaw (nd s i).kind = false → Closed (nd s i) ∨ (∃ b ∈ U, b.node = i ∧ PSb b) ∨
    ((nd s i).kind = .heading ∧ (nd s i).parent = none)
  att : ∀ b ∈ U, (nd s b.node).parent.isSome = true
  nodup : (U.map (·.node)).Nodup
  sub : ∀ b ∈ U, b ∈ s.pc.opened
  nl : ∀ i, noLinesKind (nd s i).kind = true → (nd s i).lines = []

variable {F : Prop}

theorem CInvG.kinds {src : Bytes} {s : St} {U : List Block} (h : CInvG F src s U) {b : Block} (hb : b ∈ U) :
    (nd s b.node).kind = b.bp.kind ∧ b.node < s.nodes.length := by
  obtain ⟨B, D, hB⟩ := h.inv
  exact hB.kinds b (h.sub b hb)

theorem CInvG.ne {src : Bytes} {s : St} {b : Block} {U : List Block} (h : CInvG F src s (b :: U)) {g : Block}
    (hg : g ∈ U) : g.node ≠ b.node := by
  have := h.nodup
  simp only [List.map_cons, List.nodup_cons, List.mem_map, not_exists, not_and] at this
  exact this.1 g hg

theorem CInvG.closed_of_notPS {src : Bytes} {s : St} {U : List Block} (h : CInvG F src s U) {b : Block} (hb : b ∈ U)
    (hps : ¬ PSb b) (hr : isRaw (nd s b.node).kind = false) : Closed (nd s b.node) := by
  rcases h.pad b.node hr with hc | ⟨b', hb', hn, hps'⟩ | hab
  · exact hc
  · exfalso
    have : b' = b := nodup_map_node_inj h.nodup hb' hb hn
    exact hps (this ▸ hps')
  · exfalso
    have := h.att b hb
    rw [hab.2] at this; cases this

theorem CInvG.drop {src : Bytes} {s : St} {b : Block} {U : List Block} (h : CInvG F src s (b :: U))
    (hc : isRaw (nd s b.node).kind = false → Closed (nd s b.node)) : CInvG F src s U := by
  refine ⟨h.inv, h.tree, fun i hr => ?_, fun g hg => h.att g (List.mem_cons_of_mem _ hg),
    (List.nodup_cons.1 (by simpa using h.nodup)).2, fun g hg => h.sub g (List.mem_cons_of_mem _ hg), h.nl⟩
  rcases h.pad i hr with hcl | ⟨b', hb', hn, hps'⟩ | hab
  · exact .inl hcl
  · rcases List.mem_cons.1 hb' with e | hm
    · subst e; subst hn; exact .inl (hc hr)
    · exact .inr (.inl ⟨b', hm, hn, hps'⟩)
  · exact .inr (.inr hab)

/-- the open set up to a permutation -/
theorem CInvG.perm {src : Bytes} {s : St} {U U' : List Block} (h : CInvG F src s U) (hp : U'.Perm U) : CInvG F src s U' :=
  ⟨h.inv, h.tree, fun i hr => by
      rcases h.pad i hr with hc | ⟨b, hb, hn, hp'⟩ | hab
      · exact .inl hc
      · exact .inr (.inl ⟨b, hp.mem_iff.2 hb, hn, hp'⟩)
      · exact .inr (.inr hab),
    fun b hb => h.att b (hp.mem_iff.1 hb), ((hp.map (·.node)).nodup_iff).2 h.nodup, fun b hb => h.sub b (hp.mem_iff.1 hb),
    h.nl⟩

theorem CInvG.weaken {src : Bytes} {s : St} {U : List Block} (h : CInvG F src s U) : CInvG False src s U := by
  obtain ⟨B, D, hB⟩ := h.inv
  exact ⟨⟨B, D, hB.weaken⟩, h.tree, h.pad, h.att, h.nodup, h.sub, h.nl⟩

/-- a step that keeps lines, kinds, links of all nodes, the store length and the context -/
theorem CInvG.same {src : Bytes} {s s' : St} {U : List Block} (h : CInvG F src s U) (hlk : LK s s')
    (hl : ∀ i, (nd s' i).parent = (nd s i).parent ∧ (nd s' i).children = (nd s i).children) : CInvG F src s' U := by
  obtain ⟨B, D, hB⟩ := h.inv
  refine ⟨⟨B, D, hB.lk hlk⟩, h.tree.of_links hl, fun i hr => ?_, fun g hg => by rw [(hl g.node).1]; exact h.att g hg,
    h.nodup, fun g hg => by rw [hlk.pc]; exact h.sub g hg,
    fun i hn => by rw [(hlk.same i).2.2] at hn; rw [(hlk.same i).1]; exact h.nl i hn⟩
  rw [(hlk.same i).2.2] at hr
  rcases h.pad i hr with hc | hc | hab
  · left; rw [Closed, (hlk.same i).1]; exact hc
  · exact .inr (.inl hc)
  · exact .inr (.inr ⟨by rw [(hlk.same i).2.2]; exact hab.1, by rw [(hl i).1]; exact hab.2⟩)

/-- the node of `b` gets the line list `ls` (all with padding 0 when the node is not raw), nothing else changes -/
theorem CInvG.setLines {src : Bytes} {s : St} {b : Block} {U : List Block} {ls : List Segment} (h : CInvG F src s (b :: U))
    (B : Int) {D' : List Block} (hinv : InvGFX D' F src B ({ s with nodes := s.nodes.set b.node { (nd s b.node) with lines := ls } } : St))
    (hcl : isRaw (nd s b.node).kind = false → ∀ t ∈ ls, t.padding = 0)
    (hnl : noLinesKind (nd s b.node).kind = true → ls = []) :
    CInvG F src ({ s with nodes := s.nodes.set b.node { (nd s b.node) with lines := ls } } : St) U ∧
      CStep s ({ s with nodes := s.nodes.set b.node { (nd s b.node) with lines := ls } } : St) U := by
  have hlt := (h.kinds (List.mem_cons_self ..)).2
  have hnd := setLines_nd s b.node ls
  have hlk := setLines_links s b.node ls
  have hkind : ∀ i, (nd ({ s with nodes := s.nodes.set b.node { (nd s b.node) with lines := ls } } : St) i).kind =
      (nd s i).kind := by
    intro i; rw [hnd]; split
    · next hc => rw [hc.1]
    · rfl
  refine ⟨⟨⟨B, _, hinv⟩, h.tree.of_links hlk, fun i hr => ?_, fun g hg => ?_,
    (List.nodup_cons.1 (by simpa using h.nodup)).2,
    fun g hg => h.sub g (List.mem_cons_of_mem _ hg), fun i hn => ?_⟩,
    ⟨rfl, rfl, ⟨by simp, fun i _ => hkind i⟩, fun i _ _ => (hlk i).1, fun g _ _ => (hlk g.node).1, fun _ ht => ht⟩⟩
  · rw [hkind] at hr
    by_cases hi : b.node = i
    · subst hi
      left
      intro t ht
      rw [hnd, if_pos ⟨rfl, hlt⟩] at ht
      exact hcl hr t ht
    · rcases h.pad i hr with hc | ⟨b', hb', hn, hp⟩ | hab
      · left
        rw [Closed, hnd, if_neg (fun hh => hi hh.1)]; exact hc
      · rcases List.mem_cons.1 hb' with e | hm
        · subst e; exact absurd hn hi
        · exact .inr (.inl ⟨b', hm, hn, hp⟩)
      · exact .inr (.inr ⟨by rw [hkind]; exact hab.1, by rw [(hlk i).1]; exact hab.2⟩)
  · rw [(hlk g.node).1]; exact h.att g (List.mem_cons_of_mem _ hg)
  · rw [hkind] at hn
    rw [hnd]
    split
    · next hc => exact hnl (by rw [hc.1]; exact hn)
    · exact h.nl i hn

/-! ### one transformer call -/

/-- **one transformer call on the top block of the open set** (a Paragraph): KEEP — the set and all links are what they
    were; GONE — the paragraph leaves the set (no lines, detached) -/
theorem ptpost_cl {src : Bytes} {s s1 : St} {b : Block} {U : List Block} (h : CInvG F src s (b :: U))
    (hbp : b.bp = .paragraph) (hp : PTPost b.node s s1) :
    (CInvG F src s1 (b :: U) ∧ CStep s s1 (b :: U) ∧ (nd s1 b.node).parent = (nd s b.node).parent) ∨
    (CInvG F src s1 U ∧ CStep s s1 U ∧ (nd s1 b.node).parent = none) := by
  obtain ⟨hkb, hltb⟩ := h.kinds (List.mem_cons_self ..)
  obtain ⟨B, D, hB⟩ := h.inv
  have hbm : b ∈ s.pc.opened := h.sub b (List.mem_cons_self ..)
  obtain ⟨hB1, hr1, hop1, hkg1, htm1, _⟩ := hB.ptpost hltb (fun t ht hm => fun h0 => (hB.tl t ht hm).2 b hbm h0.symm)
    (by rw [hkb, hbp]; rfl) hp
  rcases hp.res with ⟨refs, k, _, e⟩ | ⟨refs, p, hpar, e⟩
  · -- KEEP
    left
    have hnds : ∀ i, nd s1 i = nd ({ s with nodes := s.nodes.set b.node { (nd s b.node) with lines := (nd s b.node).lines.drop k } } : St) i := by
      intro i; rw [e]
    have hlk : ∀ i, (nd s1 i).parent = (nd s i).parent ∧ (nd s1 i).children = (nd s i).children := fun i => by
      rw [hnds]; exact setLines_links s b.node _ i
    have hnd := setLines_nd s b.node ((nd s b.node).lines.drop k)
    refine ⟨⟨⟨B, D, hB1⟩, h.tree.of_links hlk, fun i hr => ?_, fun g hg => by rw [(hlk g.node).1]; exact h.att g hg, h.nodup,
      fun g hg => by rw [hop1]; exact h.sub g hg, fun i hn => ?_⟩,
      ⟨hr1, hop1, hkg1, fun i _ _ => (hlk i).1, fun g _ _ => (hlk g.node).1, fun t ht => by rw [htm1] at ht; exact ht⟩,
      (hlk b.node).1⟩
    by_cases hi : b.node = i
    · subst hi
      exact .inr (.inl ⟨b, List.mem_cons_self .., rfl, .inl hbp⟩)
    · have hki : (nd s1 i).kind = (nd s i).kind := by rw [hnds, hnd, if_neg (fun hh => hi hh.1)]
      rw [hki] at hr
      rcases h.pad i hr with hc | hc | hab
      · left; rw [Closed, hnds, hnd, if_neg (fun hh => hi hh.1)]; exact hc
      · exact .inr (.inl hc)
      · exact .inr (.inr ⟨by rw [hki]; exact hab.1, by rw [(hlk i).1]; exact hab.2⟩)
    · by_cases hi : b.node = i
      · subst hi
        rw [hkg1.2 b.node hltb, hkb, hbp] at hn; cases hn
      · have e0 : nd s1 i = nd s i := by rw [hnds, hnd, if_neg (fun hh => hi hh.1)]
        rw [e0] at hn ⊢; exact h.nl i hn
  · -- GONE
    right
    have hEn : (ptEmptied s b.node refs).nodes = s.nodes.set b.node { (nd s b.node) with lines := [] } := rfl
    have hElt : b.node < (ptEmptied s b.node refs).nodes.length := by rw [hEn, List.length_set]; exact hltb
    have hElen : (ptEmptied s b.node refs).nodes.length = s.nodes.length := by rw [hEn, List.length_set]
    have hEp : (nd (ptEmptied s b.node refs) b.node).parent = some p := by rw [nd_of_set_self hEn hltb]; exact hpar
    obtain ⟨s2, e2, hf, hpn⟩ := T.ptReplace_eq b.node p (nd s b.node).blankPrev (ptEmptied s b.node refs) hElt hEp
    have hs2 : s2 = s1 := by rw [e2] at e; cases e; rfl
    subst hs2
    have hlkE : ∀ i, (nd (ptEmptied s b.node refs) i).parent = (nd s i).parent ∧
        (nd (ptEmptied s b.node refs) i).children = (nd s i).children := fun i => setLines_links s b.node [] i
    have htE : TreeOK (ptEmptied s b.node refs) := h.tree.of_links hlkE
    have e' := e
    unfold ptReplace at e'
    obtain ⟨t, sA, hA, kA⟩ := obind_ok e'
    obtain ⟨ht, hsA⟩ := onewNode_ok hA
    have hnA : sA.nodes = (ptEmptied s b.node refs).nodes ++ [{ kind := .textBlock, blankPrev := (nd s b.node).blankPrev }] := by
      rw [hsA]
    have htA : TreeOK sA := htE.snoc hnA rfl rfl
    have hplt : p < b.node := h.tree.par_lt b.node p hpar
    obtain ⟨t1, l1, f1, _, _⟩ := replaceChild_tree (p := p) (v1 := b.node) (ins := t) htA (by rw [ht, hElen]; omega)
      (by rw [ht, hnA]; simp) (by rw [ht, hElen]; omega) kA
    have hndA : ∀ i, nd sA i = if i < s.nodes.length then nd (ptEmptied s b.node refs) i
        else if i = s.nodes.length then { kind := .textBlock, blankPrev := (nd s b.node).blankPrev } else default := by
      intro i; rw [nd_snoc hnA i, hElen]
    have frame : ∀ i, i < s.nodes.length → i ≠ b.node → (nd s2 i).parent = (nd s i).parent := by
      intro i hi hne
      rw [f1 i (by rw [ht, hElen]; omega) hne, hndA, if_pos hi]
      exact (hlkE i).1
    have hsame : ∀ i, (nd s2 i).kind = (nd sA i).kind ∧ (nd s2 i).lines = (nd sA i).lines := fun i => by
      have := hf.same i
      rw [hsA]
      exact ⟨this.1, this.2.1⟩
    have hkbp : (nd s b.node).kind = .paragraph := by rw [hkb, hbp]; rfl
    refine ⟨⟨⟨B, D, hB1⟩, t1, fun i hr => ?_, fun g hg => ?_, (List.nodup_cons.1 (by simpa using h.nodup)).2,
      fun g hg => by rw [hop1]; exact h.sub g (List.mem_cons_of_mem _ hg), fun i hn => ?_⟩,
      ⟨hr1, hop1, hkg1, fun i hi hk => frame i hi (fun e0 => hk (e0 ▸ hkbp)),
        fun g hg _ => frame g.node (h.kinds (List.mem_cons_of_mem _ hg)).2 (h.ne hg),
        fun t ht => by rw [htm1] at ht; exact ht⟩, hpn⟩
    · rw [(hsame i).1] at hr
      rw [Closed, (hsame i).2]
      rw [hndA] at hr ⊢
      by_cases h1 : i < s.nodes.length
      · rw [if_pos h1] at hr ⊢
        by_cases hi : i = b.node
        · subst hi; left; rw [nd_of_set_self hEn hltb]; intro u hu; cases hu
        · rw [nd_of_set_ne hEn hi] at hr ⊢
          rcases h.pad i hr with hc | ⟨b', hb', hn, hps⟩ | hab
          · exact .inl hc
          · rcases List.mem_cons.1 hb' with e0 | hm
            · subst e0; exact absurd hn.symm hi
            · exact .inr (.inl ⟨b', hm, hn, hps⟩)
          · refine .inr (.inr ⟨?_, by rw [frame i h1 hi]; exact hab.2⟩)
            rw [(hsame i).1, hndA, if_pos h1, nd_of_set_ne hEn hi]; exact hab.1
      · rw [if_neg h1]
        left
        split
        · intro u hu; cases hu
        · intro u hu; cases hu
    · rw [frame g.node (h.kinds (List.mem_cons_of_mem _ hg)).2 (h.ne hg)]
      exact h.att g (List.mem_cons_of_mem _ hg)
    · rw [(hsame i).1] at hn
      rw [(hsame i).2]
      rw [hndA] at hn ⊢
      by_cases h1 : i < s.nodes.length
      · rw [if_pos h1] at hn ⊢
        by_cases hi : i = b.node
        · subst hi; rw [nd_of_set_self hEn hltb]
        · rw [nd_of_set_ne hEn hi] at hn ⊢; exact h.nl i hn
      · rw [if_neg h1]
        split <;> rfl

/-! ### a table-making call under the close discipline -/

/-- the outcome of `transformParagraph` with the tree links of the table step (for a store with consistent links) -/
def PTPostT (src : Bytes) (node : Nat) (s s' : St) : Prop :=
  PTPost node s s' ∨ ∃ s1 t p, PTPost node s s1 ∧
    (GM.Table.transform src ((nd s1 node).lines.map toSeg)).table = some t ∧ (nd s1 node).parent = some p ∧
    (TreeOK s1 → TablePost (RecD src t) node p ((GM.Table.transform src ((nd s1 node).lines.map toSeg)).para.map ofSeg) s1 s')

/-- what a transformer list does on a Paragraph whose lines pass the checks, in a store with consistent tree links -/
def AgreeT (src : Bytes) (pts : List PT) : Prop :=
  ∀ (node : Nat) (s : St), s.r.source = src → node < s.nodes.length → (nd s node).kind = .paragraph →
    NodesOK src s → linesOKB src (nd s node).lines = true → TreeOK s →
    ∀ g s', transformParagraph pts node s = .ok (g, s') → PTPostT src node s s'

theorem tablePost_toData {P : Node → Prop} {node p : Nat} {lines : List Segment} {s s' : St}
    (h : TablePost P node p lines s s') (hp : (nd s node).parent = some p) : TableData P node lines s s' :=
  ⟨h.r, h.pc, h.len, fun i hi hne => (h.old i hi hne).1, by rw [h.self]; rfl, by
    rw [h.self]; simp only; rw [hp], h.fresh⟩

theorem escSeg_padding (p : Nat) : (escSeg p).padding = 0 := rfl

/-- the records have no padding -/
theorem recD_closed {src : Bytes} {ls : List Segment} (hv : TO.tblLinesB src ls = true) {t : GM.Table.Table}
    (ht : (GM.Table.transform src (ls.map toSeg)).table = some t) {n : Node} (h : RecD src t (dataOf n)) : Closed n := by
  obtain ⟨_, hcells⟩ := table_facts hv ht
  intro x hx
  have hx' : x ∈ (dataOf n).lines := hx
  rcases h with h | h | ⟨r, hr, h⟩ | ⟨r, hr, c, hc, h⟩
  · rw [h] at hx'; cases hx'
  · rw [h] at hx'
    obtain ⟨q, _, hq⟩ := List.mem_map.1 hx'
    rw [← hq]; rfl
  · rw [h] at hx'
    obtain ⟨q, _, hq⟩ := List.mem_map.1 hx'
    rw [← hq]; rfl
  · rw [h] at hx'
    obtain ⟨l, _, hin⟩ := hcells r hr
    have hx2 : x ∈ (cellNode src c).lines := hx'
    unfold cellNode at hx2
    cases hs : c.seg with
    | none => rw [hs] at hx2; cases hx2
    | some sg =>
      rw [hs] at hx2
      simp only [List.mem_singleton] at hx2
      subst hx2
      have := ((hin c hc).1 sg hs).2.2.2
      simp only [ofSeg, this]
      rfl

theorem tablepost_cl {src : Bytes} {s s1 : St} {b : Block} {U : List Block} {t : GM.Table.Table} {p : Nat}
    (h : CInvG F src s (b :: U)) (hbp : b.bp = .paragraph)
    (htb : (GM.Table.transform src ((nd s b.node).lines.map toSeg)).table = some t) (hpar : (nd s b.node).parent = some p)
    (hT : TablePost (RecD src t) b.node p ((GM.Table.transform src ((nd s b.node).lines.map toSeg)).para.map ofSeg) s s1) :
    (CInvG F src s1 (b :: U) ∧ CStep s s1 (b :: U) ∧ (nd s1 b.node).parent = (nd s b.node).parent) ∨
    (CInvG F src s1 U ∧ CStep s s1 U ∧ (nd s1 b.node).parent = none) := by
  obtain ⟨hkb, hltb⟩ := h.kinds (List.mem_cons_self ..)
  obtain ⟨B, D, hB0⟩ := h.inv
  have hbm : b ∈ s.pc.opened := h.sub b (List.mem_cons_self ..)
  have hB : InvGFX (b :: D) F src B s := hB0.dmono (fun _ hx => List.mem_cons_of_mem _ hx)
  have hkp : (nd s b.node).kind = .paragraph := by rw [hkb, hbp]; rfl
  have hv := hB.tblLinesB hkp
  obtain ⟨hB1, hr1, hop1, hkg1, htm1, hlo1⟩ := hB.tabledata hltb
    (fun x hx hm => fun h0 => (hB.tl x hx hm).2 b hbm h0.symm) hkp
    (fun b' hb' hx => by rw [hB.node_inj hbm hb' hx]; exact List.mem_cons_self ..) htb (tablePost_toData hT hpar)
  obtain ⟨L', hL'⟩ : ∃ L', (GM.Table.transform src ((nd s b.node).lines.map toSeg)).para.map ofSeg = L' := ⟨_, rfl⟩
  rw [hL'] at hT
  have hself : nd s1 b.node = { (nd s b.node) with lines := L', parent := if L'.isEmpty then none else some p } := hT.self
  have hpo : ∀ i, i < s.nodes.length → i ≠ b.node → (nd s1 i).parent = (nd s i).parent := fun i hi hne => (hT.old i hi hne).2
  have hfresh : ∀ i, s.nodes.length ≤ i → Closed (nd s1 i) ∧ (nd s1 i).kind ≠ .paragraph ∧ (noLinesKind (nd s1 i).kind = true → (nd s1 i).lines = []) := by
    intro i hi
    rcases Nat.lt_or_ge i s1.nodes.length with h2 | h2
    · have hk := recD_kind (hT.fresh i hi h2)
      exact ⟨recD_closed hv htb (hT.fresh i hi h2), (by rw [hk]; decide), (fun hn => by rw [hk] at hn; cases hn)⟩
    · rw [nd_default_of_ge s1 h2]
      exact ⟨fun x hx => (by cases hx), (by decide), fun _ => rfl⟩
  -- the parts that do not depend on the case
  have hpad : ∀ (U' : List Block), (∀ g ∈ U, g ∈ U') → (L'.isEmpty = false → b ∈ U') →
      ∀ i, isRaw (nd s1 i).kind = false → Closed (nd s1 i) ∨ (∃ b' ∈ U', b'.node = i ∧ PSb b') ∨
        ((nd s1 i).kind = .heading ∧ (nd s1 i).parent = none) := by
    intro U' hU hbU i hr
    rcases Nat.lt_or_ge i s.nodes.length with hi | hi
    · by_cases hx : i = b.node
      · subst hx
        cases hemp : L'.isEmpty with
        | true =>
          left
          rw [hself]
          intro x hx'
          have : L' = [] := List.isEmpty_iff.1 hemp
          rw [this] at hx'; cases hx'
        | false => exact .inr (.inl ⟨b, hbU hemp, rfl, .inl hbp⟩)
      · rw [hkg1.2 i hi] at hr
        rcases h.pad i hr with hc | ⟨b', hb', hn, hps⟩ | hab
        · left; rw [Closed, hlo1 i hi hx]; exact hc
        · rcases List.mem_cons.1 hb' with e0 | hm
          · subst e0; exact absurd hn.symm hx
          · exact .inr (.inl ⟨b', hU b' hm, hn, hps⟩)
        · exact .inr (.inr ⟨by rw [hkg1.2 i hi]; exact hab.1, by rw [hpo i hi hx]; exact hab.2⟩)
    · exact .inl (hfresh i hi).1
  have hatt : ∀ g ∈ U, (nd s1 g.node).parent.isSome = true := fun g hg => by
    rw [hpo g.node (h.kinds (List.mem_cons_of_mem _ hg)).2 (h.ne hg)]
    exact h.att g (List.mem_cons_of_mem _ hg)
  have hnl : ∀ i, noLinesKind (nd s1 i).kind = true → (nd s1 i).lines = [] := by
    intro i hn
    rcases Nat.lt_or_ge i s.nodes.length with hi | hi
    · by_cases hx : i = b.node
      · subst hx; rw [hkg1.2 b.node hltb, hkp] at hn; cases hn
      · rw [hkg1.2 i hi] at hn; rw [hlo1 i hi hx]; exact h.nl i hn
    · exact (hfresh i hi).2.2 hn
  have hnpar : ∀ i, i < s.nodes.length → (nd s i).kind ≠ .paragraph → (nd s1 i).parent = (nd s i).parent :=
    fun i hi hk => hpo i hi (fun e0 => hk (e0 ▸ hkp))
  have hgparU : ∀ g ∈ U, PSb g → (nd s1 g.node).parent = (nd s g.node).parent :=
    fun g hg _ => hpo g.node (h.kinds (List.mem_cons_of_mem _ hg)).2 (h.ne hg)
  have hB1' : ∃ B D, InvGFX D F src B s1 := ⟨B, _, hB1⟩
  cases hemp : L'.isEmpty with
  | false =>
    left
    have hpb : (nd s1 b.node).parent = (nd s b.node).parent := by rw [hself, hemp, hpar]; rfl
    refine ⟨⟨hB1', hT.tree, hpad (b :: U) (fun g hg => List.mem_cons_of_mem _ hg) (fun _ => List.mem_cons_self ..),
      fun g hg => ?_, h.nodup, fun g hg => by rw [hop1]; exact h.sub g hg, hnl⟩,
      ⟨hr1, hop1, hkg1, hnpar, fun g hg hp => ?_, fun x hx => by rw [htm1] at hx; exact hx⟩, hpb⟩
    · rcases List.mem_cons.1 hg with e0 | hm
      · subst e0; rw [hpb, hpar]; rfl
      · exact hatt g hm
    · rcases List.mem_cons.1 hg with e0 | hm
      · subst e0; exact hpb
      · exact hgparU g hm hp
  | true =>
    right
    refine ⟨⟨hB1', hT.tree, hpad U (fun g hg => hg) (fun h0 => by rw [hemp] at h0; cases h0), hatt,
      (List.nodup_cons.1 (by simpa using h.nodup)).2, fun g hg => by rw [hop1]; exact h.sub g (List.mem_cons_of_mem _ hg), hnl⟩,
      ⟨hr1, hop1, hkg1, hnpar, hgparU, fun x hx => by rw [htm1] at hx; exact hx⟩, by rw [hself, hemp]; rfl⟩

/-- one call of `transformParagraph` (link reference definitions, then possibly a table) on the top block of the open set -/
theorem ptpostT_cl {src : Bytes} {s s2 : St} {b : Block} {U : List Block} (h : CInvG F src s (b :: U))
    (hbp : b.bp = .paragraph) (hp : PTPostT src b.node s s2) :
    (CInvG F src s2 (b :: U) ∧ CStep s s2 (b :: U) ∧ (nd s2 b.node).parent = (nd s b.node).parent) ∨
    (CInvG F src s2 U ∧ CStep s s2 U ∧ (nd s2 b.node).parent = none) := by
  rcases hp with hp | ⟨s1, t, p, h1, htb, hpar, hT⟩
  · exact ptpost_cl h hbp hp
  · rcases ptpost_cl h hbp h1 with ⟨a1, a2, a3⟩ | ⟨_, _, a3⟩
    · rcases tablepost_cl a1 hbp htb hpar (hT a1.tree) with ⟨c1, c2, c3⟩ | ⟨c1, c2, c3⟩
      · exact .inl ⟨c1, a2.trans c2, c3.trans a3⟩
      · exact .inr ⟨c1, (a2.mono (fun g hg => List.mem_cons_of_mem _ hg)).trans c2, c3⟩
    · rw [a3] at hpar; cases hpar

/-! ### `Close` -/

/-- paragraphParser.Close on a paragraph without lines: `node.Parent().RemoveChild(node.Parent(), node)` -/
theorem paragraphClose_empty {s s' : St} {node : Nat} (hne : (nd s node).lines = [])
    (e : paragraphClose node s = .ok ((), s')) : ∃ p, (nd s node).parent = some p ∧ removeChild p node s = .ok ((), s') := by
  have hne' : (s.nodes.getD node default).lines = [] := hne
  unfold paragraphClose at e
  obtain ⟨n, s1, h1, k1⟩ := obind_ok e
  obtain ⟨rfl, hs1⟩ := ogetNode_ok h1
  subst s1
  obtain ⟨src', s2, h2, k2⟩ := obind_ok k1
  have hs2 : s2 = s := by cases h2; rfl
  subst s2
  dsimp only at k2
  have k3 : (do
      let n ← getNode node
      if (n.lines.length == 0) = true then
          match n.parent with
          | none => throw Panic.nil
          | some p => removeChild p node
        else pure () : M Unit) s = .ok ((), s') := by
    split at k2
    · next hc => rw [hne'] at hc; simp at hc
    · exact k2
  obtain ⟨n4, s4, h4, k4⟩ := obind_ok k3
  obtain ⟨rfl, hs4⟩ := ogetNode_ok h4
  subst s4
  split at k4
  · cases hp : (s.nodes.getD node default).parent with
    | none => rw [hp] at k4; cases k4
    | some p => rw [hp] at k4; exact ⟨p, rfl, k4⟩
  · next hc => rw [hne'] at hc; simp at hc

/-- **`Close` of the top block under the close discipline** -/
theorem bpClose_clG {src : Bytes} {s s1 : St} {b : Block} {U : List Block} (h : CInvG F src s (b :: U))
    (hsrc : s.r.source = src) (hG : ∀ g ∈ U, PSb g → Guard s [b] g)
    (e : bpClose b.bp b.node s = .ok ((), s1)) : CInvG F src s1 U ∧ CStep s s1 U := by
  obtain ⟨hkb, hltb⟩ := h.kinds (List.mem_cons_self ..)
  obtain ⟨B, D, hB⟩ := h.inv
  obtain ⟨bnode, bbp⟩ := b
  simp only at hkb hltb e
  -- a `Close` that does nothing
  have triv : s1 = s → ¬ PSb ⟨bnode, bbp⟩ → CInvG F src s1 U ∧ CStep s s1 U := by
    intro hs hps
    subst hs
    exact ⟨h.drop (fun hr => h.closed_of_notPS (List.mem_cons_self ..) hps hr), CStep.refl _ _⟩
  cases bbp
  case setext =>
    have e' : setextClose bnode s = .ok ((), s1) := e
    cases ht : s.pc.tmpPara with
    | none =>
      exfalso
      unfold setextClose at e'
      obtain ⟨hn, sa, h1, k1⟩ := obind_ok e'
      obtain ⟨rfl, hs1⟩ := ogetNode_ok h1
      subst sa
      obtain ⟨seg, sb, h2, k2⟩ := obind_ok k1
      obtain ⟨_, hs2⟩ := oliftE_ok h2
      subst sb
      obtain ⟨_, s3, h3, k3⟩ := obind_ok k2
      have e3 := omodNode_ok h3
      obtain ⟨pc4, s4, h4, k4⟩ := obind_ok k3
      obtain ⟨rfl, hs4⟩ := ogetPc_ok h4
      subst s4
      have hpc3 : s3.pc = s.pc := by rw [e3]
      rw [hpc3, ht] at k4
      dsimp only at k4
      obtain ⟨_, _, h5, _⟩ := obind_ok k4
      cases h5
    | some t =>
      have hkt := hB.tmpk t ht
      have hbm : (⟨bnode, .setext⟩ : Block) ∈ s.pc.opened := h.sub _ (List.mem_cons_self ..)
      have htl := hB.tl t ht (.inr ⟨_, hbm, rfl⟩)
      have hne := htl.1
      have hnt : bnode ≠ t := by intro e0; rw [e0, hkt] at hkb; cases hkb
      have hsafe : ∀ g ∈ (⟨bnode, .setext⟩ : Block) :: U, g.bp = .paragraph → g.node ≠ t :=
        fun g hg _ => htl.2 g (h.sub g hg)
      -- the paragraph behind the key is closed
      have hct : Closed (nd s t) := by
        rcases h.pad t (by rw [hkt]; rfl) with hc | ⟨g, hg, hn, hp⟩ | hab
        · exact hc
        · exfalso
          have hgk := (h.kinds hg).1
          rw [hn, hkt] at hgk
          exact hsafe g hg (kind_paragraph hgk.symm) hn
        · exfalso; rw [hkt] at hab; cases hab.1
      obtain ⟨hlen, ⟨hl, hln⟩, hoth, hkind, hpc, hr⟩ := setextClose_copy ht hne hnt hltb e'
      obtain ⟨htree, hpar⟩ := setextClose_tree h.tree ht hne hnt hltb e'
      obtain ⟨hinv1, _, hop1, hkg1, _⟩ := setextClose_invG hB hkb hltb ⟨_, hbm, rfl⟩ e'
      have hgt : ∀ g ∈ U, PSb g → g.node ≠ t := by
        intro g hg hp hgt'
        rcases hp with hp | hp
        · exact hsafe g (List.mem_cons_of_mem _ hg) hp hgt'
        · have := (h.kinds (List.mem_cons_of_mem _ hg)).1
          rw [hgt', hkt, hp] at this; cases this
      have hgt' : ∀ g ∈ U, g.node ≠ t := by
        intro g hg hgt''
        by_cases hp : PSb g
        · exact hgt g hg hp hgt''
        · have hk := (h.kinds (List.mem_cons_of_mem _ hg)).1
          rw [hgt'', hkt] at hk
          exact hp (.inl (kind_paragraph hk.symm))
      refine ⟨⟨⟨B, _, hinv1⟩, htree, fun i hr' => ?_, fun g hg => ?_,
        (List.nodup_cons.1 (by simpa using h.nodup)).2,
        fun g hg => by rw [hop1]; exact h.sub g (List.mem_cons_of_mem _ hg), fun i hn => ?_⟩,
        ⟨hr, hop1, hkg1, fun i _ hk => hpar i (fun e0 => hk (e0 ▸ hkt)), fun g hg hp => hpar g.node (hgt g hg hp),
          fun t' ht' => by rw [hpc] at ht'; cases ht'⟩⟩
      · rw [hkind] at hr'
        by_cases hi : i = bnode
        · subst hi; left; intro u hu; rw [hl] at hu; exact hct u hu
        · rcases h.pad i hr' with hc | ⟨b', hb', hn, hp⟩ | hab
          · left; intro u hu; rw [(hoth i hi).1] at hu; exact hc u hu
          · rcases List.mem_cons.1 hb' with e0 | hm
            · subst e0; exact absurd hn.symm hi
            · exact .inr (.inl ⟨b', hm, hn, hp⟩)
          · exact .inr (.inr ⟨by rw [hkind]; exact hab.1,
              by rw [hpar i (fun e0 => by rw [e0, hkt] at hab; cases hab.1)]; exact hab.2⟩)
      · rw [hpar g.node (hgt' g hg)]; exact h.att g (List.mem_cons_of_mem _ hg)
      · rw [hkind] at hn
        by_cases hi : i = bnode
        · subst hi; rw [hkb] at hn; cases hn
        · rw [(hoth i hi).1]; exact h.nl i hn
  case thematic =>
    exact triv (by have e' : (pure () : M Unit) s = .ok ((), s1) := e; exact (opure_ok e').2)
      (fun hp => by rcases hp with hp | hp <;> cases hp)
  case list =>
    have e' : listClose bnode s = .ok ((), s1) := e
    let Prot : Nat → Prop := fun i => (∃ g ∈ U, PSb g ∧ g.node = i) ∨ (i < s.nodes.length ∧ (nd s i).kind ≠ .paragraph)
    have hp0 : ∀ i, Prot i → i < s.nodes.length := by
      rintro i (⟨g, hg, _, rfl⟩ | ⟨h1, _⟩)
      · exact (h.kinds (List.mem_cons_of_mem _ hg)).2
      · exact h1
    have hprot : ∀ i, Prot i → (nd s i).kind = .paragraph → ∀ c ∈ (nd s bnode).children, (nd s i).parent ≠ some c := by
      rintro i (⟨g, hg, hp, rfl⟩ | ⟨_, hk⟩) hkp c hc hpc
      · obtain ⟨q, hq1, _, _, hq4⟩ := hG g hg hp
        rw [hq1] at hpc
        cases hpc
        exact hq4 ⟨bnode, .list⟩ (List.mem_singleton.2 rfl) rfl (h.tree.kid bnode _ hc)
      · exact hk hkp
    have hit := listClose_tight Prot h.tree hp0 hprot e'
    obtain ⟨hinv1, _, _, hkg1, _⟩ := listClose_invG hB e'
    refine ⟨⟨⟨B, _, hinv1⟩, hit.tree, fun i hr' => ?_, fun g hg => ?_,
      (List.nodup_cons.1 (by simpa using h.nodup)).2,
      fun g hg => by rw [hit.pc]; exact h.sub g (List.mem_cons_of_mem _ hg), fun i hn => ?_⟩,
      ⟨hit.r, by rw [hit.pc], hkg1, fun i hi hk => hit.prot i (.inr ⟨hi, hk⟩),
        fun g hg hp => hit.prot g.node (.inl ⟨g, hg, hp, rfl⟩), fun t ht => by rw [hit.pc] at ht; exact ht⟩⟩
    · rcases Nat.lt_or_ge i s.nodes.length with hil | hil
      · obtain ⟨x1, _, x3⟩ := hit.old i hil
        rw [x3] at hr'
        rcases h.pad i hr' with hc | ⟨b', hb', hn, hp⟩ | hab
        · left; intro u hu; rw [x1] at hu; exact hc u hu
        · rcases List.mem_cons.1 hb' with e0 | hm
          · subst e0; rcases hp with hp | hp <;> cases hp
          · exact .inr (.inl ⟨b', hm, hn, hp⟩)
        · exact .inr (.inr ⟨by rw [x3]; exact hab.1,
            by rw [hit.prot i (.inr ⟨hil, by rw [hab.1]; decide⟩)]; exact hab.2⟩)
      · rcases Nat.lt_or_ge i s1.nodes.length with hil' | hil'
        · obtain ⟨_, j, hj, hjk, hjp, hjl, _⟩ := hit.new i hil hil'
          left
          intro u hu
          rw [hjl] at hu
          rcases h.pad j (by rw [hjk]; rfl) with hc | ⟨b', hb', hn, hp⟩ | hab
          · exact hc u hu
          · exfalso
            rcases List.mem_cons.1 hb' with e0 | hm
            · subst e0; rcases hp with hp | hp <;> cases hp
            · exact hjp (.inl ⟨b', hm, hp, hn⟩)
          · exfalso; rw [hjk] at hab; cases hab.1
        · left; rw [nd_default_of_ge s1 hil']; intro u hu; cases hu
    · have hgp : Prot g.node := by
        by_cases hp : PSb g
        · exact .inl ⟨g, hg, hp, rfl⟩
        · obtain ⟨hk, hl⟩ := h.kinds (List.mem_cons_of_mem _ hg)
          exact .inr ⟨hl, fun hkp => hp (.inl (kind_paragraph (by rw [← hk]; exact hkp)))⟩
      rw [hit.prot g.node hgp]; exact h.att g (List.mem_cons_of_mem _ hg)
    · rcases Nat.lt_or_ge i s.nodes.length with hil | hil
      · obtain ⟨x1, _, x3⟩ := hit.old i hil
        rw [x3] at hn; rw [x1]; exact h.nl i hn
      · rcases Nat.lt_or_ge i s1.nodes.length with hil' | hil'
        · obtain ⟨hk, _⟩ := hit.new i hil hil'
          rw [hk] at hn; cases hn
        · rw [nd_default_of_ge s1 hil']; rfl
  case listItem =>
    exact triv (by have e' : (pure () : M Unit) s = .ok ((), s1) := e; exact (opure_ok e').2)
      (fun hp => by rcases hp with hp | hp <;> cases hp)
  case code =>
    have e' : codeClose bnode s = .ok ((), s1) := e
    obtain ⟨k, hs1⟩ := codeClose_eff e'
    obtain ⟨hinv1, _, _, _⟩ := codeClose_invG hB hkb hltb e'
    subst hs1
    exact CInvG.setLines (b := ⟨bnode, .code⟩) h B hinv1 (fun hr => by rw [hkb] at hr; cases hr)
      (fun hn => by rw [hkb] at hn; cases hn)
  case atx =>
    exact triv (by have e' : (pure () : M Unit) s = .ok ((), s1) := e; exact (opure_ok e').2)
      (fun hp => by rcases hp with hp | hp <;> cases hp)
  case fenced =>
    have e' : fencedClose bnode s = .ok ((), s1) := e
    obtain ⟨hinv1, hr1, hop1, _, _⟩ := fencedClose_invG hB e'
    -- only `pc.fence` may change
    have hs1 : s1.nodes = s.nodes ∧ s1.pc.tmpPara = s.pc.tmpPara := by
      unfold fencedClose at e'
      obtain ⟨pc, sa, h1, k1⟩ := obind_ok e'
      obtain ⟨rfl, hsa⟩ := ogetPc_ok h1
      subst sa
      cases hf : s.pc.fence with
      | none => rw [hf] at k1; cases k1
      | some f =>
        rw [hf] at k1
        dsimp only at k1
        split at k1
        · rw [omodPc_ok k1]; exact ⟨rfl, rfl⟩
        · rw [(opure_ok k1).2]; exact ⟨rfl, rfl⟩
    have hnd : ∀ i, nd s1 i = nd s i := fun i => by simp only [nd, hs1.1]
    have h' := h.drop (fun hr => h.closed_of_notPS (List.mem_cons_self ..)
      (fun hp => by rcases hp with hp | hp <;> cases hp) hr)
    refine ⟨⟨⟨B, _, hinv1⟩, h.tree.of_links (fun i => by rw [hnd]; exact ⟨rfl, rfl⟩), fun i hr' => ?_,
      fun g hg => by rw [hnd]; exact h'.att g hg, h'.nodup, fun g hg => by rw [hop1]; exact h'.sub g hg,
      fun i hn => by rw [hnd] at hn ⊢; exact h'.nl i hn⟩,
      ⟨hr1, hop1, KG.of_nodes hs1.1, fun i _ _ => by rw [hnd], fun g _ _ => by rw [hnd],
        fun t ht => by rw [hs1.2] at ht; exact ht⟩⟩
    rw [hnd] at hr' ⊢
    exact h'.pad i hr'
  case blockquote =>
    exact triv (by have e' : (pure () : M Unit) s = .ok ((), s1) := e; exact (opure_ok e').2)
      (fun hp => by rcases hp with hp | hp <;> cases hp)
  case html =>
    exact triv (by have e' : (pure () : M Unit) s = .ok ((), s1) := e; exact (opure_ok e').2)
      (fun hp => by rcases hp with hp | hp <;> cases hp)
  case paragraph =>
    have e' : paragraphClose bnode s = .ok ((), s1) := e
    by_cases hne : (nd s bnode).lines = []
    · -- a paragraph without lines (emptied by a transformer): `RemoveChild`
      obtain ⟨p, hp, k4⟩ := paragraphClose_empty hne e'
      have hlk := removeChild_lk k4
      obtain ⟨t1, _, f1, _⟩ := removeChild_tree' h.tree k4
      have hneU : ∀ g ∈ U, g.node ≠ bnode := fun g hg => h.ne hg
      refine ⟨⟨⟨B, D, hB.lk hlk⟩, t1, fun i hr => ?_, fun g hg => ?_, (List.nodup_cons.1 (by simpa using h.nodup)).2,
        fun g hg => by rw [hlk.pc]; exact h.sub g (List.mem_cons_of_mem _ hg),
        fun i hn => by rw [(hlk.same i).2.2] at hn; rw [(hlk.same i).1]; exact h.nl i hn⟩,
        ⟨hlk.r, by rw [hlk.pc], hlk.kg, fun i _ hk => f1 i (fun e0 => hk (e0 ▸ hkb)),
          fun g hg _ => f1 g.node (hneU g hg), fun t ht => by rw [hlk.pc] at ht; exact ht⟩⟩
      · rw [(hlk.same i).2.2] at hr
        rw [Closed, (hlk.same i).1]
        by_cases hi : i = bnode
        · subst hi; left; rw [hne]; intro u hu; cases hu
        · rcases h.pad i hr with hc | ⟨b', hb', hn, hps⟩ | hab
          · exact .inl hc
          · rcases List.mem_cons.1 hb' with e0 | hm
            · subst e0; exact absurd hn.symm hi
            · exact .inr (.inl ⟨b', hm, hn, hps⟩)
          · exact .inr (.inr ⟨by rw [(hlk.same i).2.2]; exact hab.1, by rw [f1 i hi]; exact hab.2⟩)
      · rw [f1 g.node (hneU g hg)]; exact h.att g (List.mem_cons_of_mem _ hg)
    · have hl : LinesOK src (nd s bnode).lines := (nodeOK_nd hB.nodes bnode).lines
      obtain ⟨hr, hpc, ls, _, _, hpf, _, hn⟩ := (paragraphClose_lines bnode hsrc hl hne).of_ok e'
      have hbm0 : (⟨bnode, .paragraph⟩ : Block) ∈ s.pc.opened := h.sub _ (List.mem_cons_self ..)
      obtain ⟨hinv1, _, _, _, _⟩ := paragraphClose_invG (hB.dmono (D' := ⟨bnode, .paragraph⟩ :: D) (fun _ hx => List.mem_cons_of_mem _ hx))
        hsrc hkb hltb (fun b' hb' hx => by rw [hB.node_inj hbm0 hb' hx]; exact List.mem_cons_self ..) e'
      have hs1 : s1 = { s with nodes := s.nodes.set bnode { (nd s bnode) with lines := ls } } := by
        cases s1; simp only at hr hpc hn; subst hr hpc hn; rfl
      subst hs1
      exact CInvG.setLines (b := ⟨bnode, .paragraph⟩) h B hinv1 (fun _ t ht => (hpf t ht).1)
        (fun hn => by rw [hkb] at hn; cases hn)


/-! ### closeBlocksT -/

theorem take_append_drop_sublist {α} (l : List α) {a b : Nat} (h : a ≤ b) : (l.take a ++ l.drop b).Sublist l := by
  have h3 : (l.take a).Sublist (l.take b) := by
    have : l.take a = (l.take b).take a := by rw [List.take_take]; congr 1; omega
    rw [this]; exact List.take_sublist _ _
  have := List.Sublist.append h3 (List.Sublist.refl (l.drop b))
  rwa [List.take_append_drop] at this

section cl
variable {src : Bytes} {pts : List PT} (hag : AgreeP src pts pts) (hagT : AgreeT src pts)
include hag hagT

/-- **the loop of closeBlocksT under the close discipline**: the blocks `l` are closed top first (only the top may be a
    leaf; a Paragraph is transformed first and closed only if it is still attached), the blocks `K` stay open -/
theorem closeListT_clG : ∀ (l K : List Block) (s s' : St), CInvG F src s (l ++ K) → s.r.source = src →
    (∀ b ∈ l.tail, b.bp.isContainer = true) → (∀ g ∈ K, PSb g → Guard s l g) →
    T.closeListT pts l s = .ok ((), s') → CInvG F src s' K ∧ CStep s s' K := by
  intro l
  induction l with
  | nil =>
    intro K s s' h _ _ _ e
    unfold T.closeListT at e
    obtain ⟨_, hs⟩ := opure_ok e
    subst s'
    exact ⟨by simpa using h, CStep.refl _ _⟩
  | cons b rest ih =>
    intro K s s' h hsrc hcont hG e
    unfold T.closeListT at e
    obtain ⟨n, s0, h0, k0⟩ := obind_ok e
    obtain ⟨hn, hs0⟩ := ogetNode_ok h0
    subst s0
    have hrestc : ∀ g ∈ rest, g.bp.isContainer = true := fun g hg => hcont g (by simpa using hg)
    have h' : CInvG F src s (b :: (rest ++ K)) := by simpa using h
    obtain ⟨hkb, hltb⟩ := h'.kinds (List.mem_cons_self ..)
    have cont : ∀ s1, CInvG F src s1 (rest ++ K) → CStep s s1 (rest ++ K) → T.closeListT pts rest s1 = .ok ((), s') →
        CInvG F src s' K ∧ CStep s s' K := by
      intro s1 hc1 hs1 k1
      have hG1 : ∀ g ∈ K, PSb g → Guard s1 rest g := fun g hg hp =>
        (hG g hg hp).step hs1 (List.mem_append_right _ hg) hp (fun L hL => List.mem_cons_of_mem _ hL)
      obtain ⟨hc2, hs2⟩ := ih K s1 s' hc1 (by rw [hs1.r]; exact hsrc)
        (fun g hg => hrestc g (List.mem_of_mem_tail hg)) hG1 k1
      exact ⟨hc2, (hs1.mono (fun g hg => List.mem_append_right _ hg)).trans hs2⟩
    -- behind the transformer step
    have afterT : ∀ s1,
        ((CInvG F src s1 (b :: (rest ++ K)) ∧ CStep s s1 (b :: (rest ++ K))) ∨
          (CInvG F src s1 (rest ++ K) ∧ CStep s s1 (rest ++ K) ∧ (nd s1 b.node).parent = none)) →
        (do
          let __do_lift ← getNode b.node
          if __do_lift.parent.isSome = true then do
              let __r ← bpClose b.bp b.node
              T.closeListT pts rest
            else T.closeListT pts rest : M Unit) s1 = .ok ((), s') → CInvG F src s' K ∧ CStep s s' K := by
      intro s1 hcase k1
      obtain ⟨n1, sx, hx, k2⟩ := obind_ok k1
      obtain ⟨hn1, hsx⟩ := ogetNode_ok hx
      subst sx
      subst n1
      rcases hcase with ⟨hc1, hs1⟩ | ⟨hc1, hs1, hnone⟩
      · split at k2
        · obtain ⟨_, s2, h2, k3⟩ := obind_ok k2
          have hsrc1 : s1.r.source = src := by rw [hs1.r]; exact hsrc
          obtain ⟨hc2, hs2⟩ := bpClose_clG hc1 hsrc1 (fun g hg hp => by
              rcases List.mem_append.1 hg with hg' | hg'
              · exact absurd hp (not_ps_of_container (hrestc g hg'))
              · obtain ⟨q, q1, q2, q3, q4⟩ := (hG g hg' hp).step hs1 (List.mem_cons_of_mem _ hg) hp (fun L hL => hL)
                exact ⟨q, q1, q2, q3, fun L hL => q4 L (by
                  simp only [List.mem_singleton] at hL; rw [hL]; exact List.mem_cons_self ..)⟩) h2
          exact cont s2 hc2 ((hs1.mono (fun g hg => List.mem_cons_of_mem _ hg)).trans hs2) k3
        · next hpar =>
          exfalso
          exact hpar (hc1.att b (List.mem_cons_self ..))
      · split at k2
        · next hpar =>
          exfalso
          have : (s1.nodes.getD b.node default).parent = none := hnone
          rw [this] at hpar; cases hpar
        · exact cont s1 hc1 hs1 k2
    dsimp only at k0
    split at k0
    · next hc =>
      simp only [Bool.and_eq_true, beq_iff_eq] at hc
      have hkp : (nd s b.node).kind = .paragraph := by rw [← hc.1, hn]
      have hbp : b.bp = .paragraph := kind_paragraph (by rw [← hkb]; exact hkp)
      obtain ⟨g, s1, hT, k1⟩ := obind_ok k0
      obtain ⟨B, D, hB⟩ := h'.inv
      have hp := hagT b.node s hsrc hltb hkp hB.nodes (hB.linesOKB hkp) h'.tree g s1 hT
      rcases ptpostT_cl h' hbp hp with ⟨a1, a2, _⟩ | ⟨a1, a2, a3⟩
      · exact afterT s1 (.inl ⟨a1, a2⟩) k1
      · exact afterT s1 (.inr ⟨a1, a2, a3⟩) k1
    · exact afterT s (.inl ⟨h', CStep.refl _ _⟩) k0

/-- **closeBlocksT under the close discipline** (parser.go:900-918) for the range `[tn, fn]` of the stack -/
theorem closeBlocksT_clG {s s' : St} (tn fn : Nat) (htf : tn ≤ fn) (hfl : fn < s.pc.opened.length)
    (h : CInvG F src s s.pc.opened) (hsrc : s.r.source = src)
    (hcont : ∀ b ∈ (((s.pc.opened.drop tn).take (fn - tn + 1)).reverse).tail, b.bp.isContainer = true)
    (hG : ∀ g ∈ s.pc.opened.take tn ++ s.pc.opened.drop (fn + 1), PSb g →
      Guard s ((s.pc.opened.drop tn).take (fn - tn + 1)).reverse g)
    (e : closeBlocksT pts (fn : Int) (tn : Int) s = .ok ((), s')) :
    CInvG F src s' (s.pc.opened.take tn ++ s.pc.opened.drop (fn + 1)) ∧
      CStepW s s' (s.pc.opened.take tn ++ s.pc.opened.drop (fn + 1)) ∧
      s'.pc.opened = s.pc.opened.take tn ++ s.pc.opened.drop (fn + 1) := by
  unfold closeBlocksT at e
  obtain ⟨pc, s0, h0, k0⟩ := obind_ok e
  obtain ⟨hpc, hs0⟩ := ogetPc_ok h0
  subst s0
  subst pc
  obtain ⟨_, s2, h2, k2⟩ := obind_ok k0
  have hk : ((fn : Int) - (tn : Int) + 1).toNat = fn - tn + 1 := by omega
  rw [hk, T.closeLoopT_eq pts s.pc.opened tn (fn - tn + 1) (by omega)] at h2
  have hperm : (((s.pc.opened.drop tn).take (fn - tn + 1)).reverse ++
      (s.pc.opened.take tn ++ s.pc.opened.drop (fn + 1))).Perm s.pc.opened := by
    have e1 : s.pc.opened = s.pc.opened.take tn ++ ((s.pc.opened.drop tn).take (fn - tn + 1) ++
        s.pc.opened.drop (fn + 1)) := by
      have : s.pc.opened.drop (fn + 1) = (s.pc.opened.drop tn).drop (fn - tn + 1) := by
        rw [List.drop_drop]; congr 1; omega
      rw [this, List.take_append_drop, List.take_append_drop]
    have p1 := (List.reverse_perm ((s.pc.opened.drop tn).take (fn - tn + 1))).append_right
      (s.pc.opened.take tn ++ s.pc.opened.drop (fn + 1))
    have p2 := List.perm_append_comm_assoc ((s.pc.opened.drop tn).take (fn - tn + 1)) (s.pc.opened.take tn)
      (s.pc.opened.drop (fn + 1))
    have := p1.trans p2
    rwa [← e1] at this
  obtain ⟨hc2, hs2⟩ := closeListT_clG hag hagT _ (s.pc.opened.take tn ++ s.pc.opened.drop (fn + 1)) s s2
    (h.perm hperm) hsrc hcont hG h2
  have hfin : ∀ (bl : List Block), bl = s.pc.opened.take tn ++ s.pc.opened.drop (fn + 1) →
      (modPc fun pc => { pc with opened := bl }) s2 = .ok ((), s') →
      CInvG F src s' (s.pc.opened.take tn ++ s.pc.opened.drop (fn + 1)) ∧
        CStepW s s' (s.pc.opened.take tn ++ s.pc.opened.drop (fn + 1)) ∧
        s'.pc.opened = s.pc.opened.take tn ++ s.pc.opened.drop (fn + 1) := by
    intro bl hbl k3
    have := omodPc_ok k3
    subst this
    subst hbl
    obtain ⟨B, D, hB⟩ := hc2.inv
    refine ⟨⟨⟨B, D, hB.congr_pc _ rfl (by
        rw [hs2.opened]; exact take_append_drop_sublist _ (by omega))⟩, hc2.tree.of_links (fun i => ⟨rfl, rfl⟩), hc2.pad,
      hc2.att, hc2.nodup, fun b hb => hb, hc2.nl⟩, ⟨hs2.r, hs2.kg, hs2.npar, hs2.gpar, hs2.tmp⟩, rfl⟩
  have hslice0 : closeBlocks.slice' s.pc.opened 0 (tn : Int) = .ok (s.pc.opened.take tn) := by
    unfold closeBlocks.slice'
    rw [if_pos ⟨by omega, by omega, by omega⟩]
    simp
  have hslice1 : closeBlocks.slice' s.pc.opened ((fn : Int) + 1) (s.pc.opened.length : Int) =
      .ok (s.pc.opened.drop (fn + 1)) := by
    unfold closeBlocks.slice'
    rw [if_pos ⟨by omega, by omega, by omega⟩]
    have e1 : ((fn : Int) + 1).toNat = fn + 1 := by omega
    have e2 : ((s.pc.opened.length : Int) - ((fn : Int) + 1)).toNat = s.pc.opened.length - (fn + 1) := by omega
    rw [e1, e2, List.take_of_length_le (by simp)]
  dsimp only at k2
  split at k2
  · next hlast =>
    obtain ⟨bl, s3, h3, k3⟩ := obind_ok k2
    obtain ⟨hb, hs3⟩ := oliftE_ok h3
    subst s3
    rw [hslice0] at hb
    cases hb
    have hfl' : fn + 1 = s.pc.opened.length := by
      have : (fn : Int) = (s.pc.opened.length : Int) - 1 := by simpa using hlast
      omega
    refine hfin _ ?_ k3
    rw [hfl', List.drop_length, List.append_nil]
  · obtain ⟨a, s4, h4, k4⟩ := obind_ok k2
    obtain ⟨ha, hs4⟩ := oliftE_ok h4
    subst s4
    obtain ⟨b, s5, h5, k5⟩ := obind_ok k4
    obtain ⟨hb, hs5⟩ := oliftE_ok h5
    subst s5
    obtain ⟨bl, s6, h6, k6⟩ := obind_ok k5
    obtain ⟨hbl, hs6⟩ := opure_ok h6
    subst s6
    rw [hslice0] at ha
    rw [hslice1] at hb
    cases ha
    cases hb
    exact hfin _ hbl k6

end cl

end GM.Blocks.TX
