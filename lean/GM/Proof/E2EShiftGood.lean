/-
  GM.Proof.E2EShiftGood — the named hypothesis of GM.Proof.E2EShift (`InlineMoveStep`) PROVED for blocks of good lines (package
  cmfrag's `GoodLine`), for any source of the form `P ++ src ++ S`; with it `convert_joined_good`: C09 first half at HTML level for
  an empty `A`, plain-text inline content, without hypothesis about the inline phase. Core Lean only.
-/
import GM.Proof.E2EShift
import GM.Proof.E2EQuoteCheck

namespace GM.E2E.Shift
open GM GM.Text GM.Convert GM.Blocks GM.Blocks.Sh GM.Proof.CMFrag
open GM.E2E.Quote (GoodBlocks)
open GM.Proof.InlinesReader (WF0)

theorem sub_right (src S : Bytes) (x y : Nat) (hy : y ≤ src.length) : sub (src ++ S) x y = sub src x y := by
  unfold sub
  by_cases hx : x ≤ y
  · rw [List.drop_append_of_le_length (by omega), List.take_append_of_le_length (by simp; omega)]
  · have : y - x = 0 := by omega
    rw [this]; rfl

theorem sub_mid (P src S : Bytes) (x y : Nat) (hy : y ≤ src.length) :
    sub (P ++ src ++ S) (x + P.length) (y + P.length) = sub src x y := by
  rw [List.append_assoc, GM.Blocks.Sh.sub_shift, sub_right _ _ _ _ hy]

theorem linesAtG_bound {src : Bytes} : ∀ (ps : List Nat) (ls : List Bytes) (p : Nat) (l : Bytes),
    LinesAtG src (p :: ps) (l :: ls) → p + l.length ≤ src.length
  | [], [], _, _, h => h.2
  | [], _ :: _, _, _, h => by simp [LinesAtG] at h
  | _ :: _, [], _, _, h => by simp [LinesAtG] at h
  | p' :: ps, l' :: ls, p, l, h => by
    have := linesAtG_bound ps ls p' l' h.2.2
    have := h.2.1
    omega

theorem linesAtG_mid (P src S : Bytes) : ∀ (ps : List Nat) (ls : List Bytes), LinesAtG src ps ls →
    LinesAtG (P ++ src ++ S) (ps.map (· + P.length)) ls
  | [], [], _ => trivial
  | [], _ :: _, h => by simp [LinesAtG] at h
  | _ :: _, [], h => by simp [LinesAtG] at h
  | [_], _ :: _ :: _, h => by simp [LinesAtG] at h
  | _ :: _ :: _, [_], h => by simp [LinesAtG] at h
  | [p], [l], h => by
    refine ⟨?_, ?_⟩
    · have e : p + P.length + l.length = p + l.length + P.length := by omega
      rw [e, sub_mid _ _ _ _ _ h.2]; exact h.1
    · simp only [List.length_append]; have := h.2; omega
  | p :: p' :: ps, l :: l' :: rest, h => by
    have hb := linesAtG_bound ps rest p' l' h.2.2
    refine ⟨?_, ?_, linesAtG_mid P src S (p' :: ps) (l' :: rest) h.2.2⟩
    · have e : p + P.length + l.length + 1 = p + l.length + 1 + P.length := by omega
      rw [e, sub_mid _ _ _ _ _ (by have := h.2.1; omega)]; exact h.1
    · have := h.2.1
      show p + P.length + l.length + 1 ≤ p' + P.length
      omega

theorem paraSegsG_move (d : Nat) {src : Bytes} : ∀ (ps : List Nat) (ls : List Bytes), LinesAtG src ps ls →
    (paraSegsG ps ls).map (moveSeg (d : Int)) = paraSegsG (ps.map (· + d)) ls
  | [], [], _ => rfl
  | [], _ :: _, h => by simp [LinesAtG] at h
  | _ :: _, [], h => by simp [LinesAtG] at h
  | [_], _ :: _ :: _, h => by simp [LinesAtG] at h
  | _ :: _ :: _, [_], h => by simp [LinesAtG] at h
  | [p], [l], _ => by
    simp only [paraSegsG, List.map, moveSeg, List.cons.injEq, and_true, Segment.mk.injEq]
    refine ⟨by omega, by omega⟩
  | p :: p' :: ps, l :: l' :: rest, h => by
    have ih := paraSegsG_move d (p' :: ps) (l' :: rest) h.2.2
    show moveSeg (d : Int) { start := (p : Int), stop := (p : Int) + (l.length : Int) + 1 } ::
        (paraSegsG (p' :: ps) (l' :: rest)).map (moveSeg (d : Int)) =
      { start := ((p + d : Nat) : Int), stop := ((p + d : Nat) : Int) + (l.length : Int) + 1 } ::
        paraSegsG ((p' :: ps).map (· + d)) (l' :: rest)
    rw [ih]
    congr 1
    simp only [moveSeg, Segment.mk.injEq, and_true]
    refine ⟨by omega, by omega⟩

/-- **the inline hypothesis holds for blocks of good lines**, the lines moved into `P ++ src ++ S` -/
theorem inlineMoveStep_good (P src S : Bytes) (ps : List Nat) (ls : List Bytes) (hne : ls ≠ [])
    (hg : ∀ l ∈ ls, GoodLine l) (hA : LinesAtG src ps ls) :
    InlineMoveStep src (P ++ src ++ S) (P.length : Int) (paraSegsG ps ls) := by
  intro env env' _ hes hes' _ _ kids hk
  have hB := linesAtG_mid P src S ps ls hA
  rw [parseBlock_linesG env hes src ps ls hne hg hA] at hk
  cases hk
  rw [paraSegsG_move P.length ps ls hA]
  exact ⟨_, parseBlock_linesG env' hes' _ _ ls hne hg hB, by
    rw [inlineTrees_linesG _ ls hB, inlineTrees_linesG ps ls hA]⟩

theorem inlineMoveStep_nil (src src' : Bytes) (d : Int) : InlineMoveStep src src' d [] := by
  intro env env' _ _ _ hwf
  exact absurd rfl hwf.1.1

theorem inlineMoveStep_of_goodBlocks (P src S : Bytes) (s : St) (hg : GoodBlocks src s) (j : Nat)
    (h1 : isRawKind (s.nodes.getD j default).kind = false) :
    InlineMoveStep src (P ++ src ++ S) (P.length : Int) (s.nodes.getD j default).lines := by
  by_cases h2 : (s.nodes.getD j default).lines = []
  · rw [h2]; exact inlineMoveStep_nil _ _ _
  · obtain ⟨ps, ls, e, hne, hgl, hat⟩ := hg j h1 h2
    rw [e]
    exact inlineMoveStep_good P src S ps ls hne hgl hat

theorem docB_mid (h b : Bytes) : docB h b = [10] ++ hlB h ++ (10 :: b) := by simp [docB, hlB]

/-- **C09 first half at HTML level, empty `A`, plain-text inline content** — no hypothesis about the inline phase -/
theorem convert_joined_good (uc : List (Nat × (Bool × Bool))) (o : ROpts) (h b : Bytes) (hh : ∀ c ∈ h, c ≠ 10)
    (hbh : NoBracket h) (hbb : NoBracket b)
    (hgh : ∀ sh, GM.Blocks.run (hlB h) = .ok sh → GoodBlocks (hlB h) sh)
    (hgb : ∀ sb, GM.Blocks.run b = .ok sb → GoodBlocks b sb)
    (htmlH htmlB : Bytes) (h1 : convertCore uc o (hlB h) = .ok htmlH) (h2 : convertCore uc o b = .ok htmlB) :
    convertCore uc o (docB h b) = .ok (htmlH ++ htmlB) := by
  refine convert_joined uc o h b hh hbh hbb (fun sh hsh => ?_) (fun sb hsb j hr _ => ?_) htmlH htmlB h1 h2
  · obtain ⟨n0, hn0, hnh⟩ := run_heading_line hh sh hsh
    obtain ⟨hk0, _, _, _⟩ := atxNodeOf_shape hn0
    have hk1 : (sh.nodes.getD 1 default).kind = .heading := by rw [hnh]; exact hk0
    have := inlineMoveStep_of_goodBlocks [10] (hlB h) (10 :: b) sh (hgh sh hsh) 1 (by rw [hk1]; rfl)
    rw [← docB_mid] at this
    exact this
  · have := inlineMoveStep_of_goodBlocks (pre h) b [] sb (hgb sb hsb) j hr
    rw [List.append_nil, ← docB_pre] at this
    exact this

end GM.E2E.Shift
