/-
  GM.Proof.BlocksTNO45 — `GM.Props.ConvertXE2E.BlockPhaseXGood` reduced to its two open parts:
    * `RecClassAt src st` — every `thematicBreak` entry of a child list of the final store that HAS lines is a
      TableHeader / TableRow record, or a TableCell record with exactly one line without ForceNewline (the DATA FRAME: the
      driver never changes kind / htmlType / offset / level / lines of a `thematicBreak` node; not proved here — the frames of
      the walks track lines, linesNil and kinds only);
    * the escaped-pipe positions are ascending.
  `blockPhaseX_good_but_esc_of`: the body of `BlockPhaseXGood` without its last conjunct, for one member set and source, from
  `RecClassAt` (Table on; nothing is assumed with Table off); `convertL_total_of_class_esc : ConvertLTotal`.
-/
import GM.Proof.BlocksTNO43
import GM.Props.ConvertXE2E

namespace GM.Blocks.TX
open GM GM.Text GM.Spec GM.Proof.Reader GM.Blocks.TO GM.TableX GM.ConvertX GM.Convert
open GM.Proof.BlocksWF0 (isRaw)

/-- the classification of the table records that carry lines (see the header) -/
def RecClassAt (src : Bytes) (st : St) : Prop :=
  ∀ p ch, ch ∈ (st.nodes.getD p default).children → (st.nodes.getD ch default).kind = .thematicBreak →
    (st.nodes.getD ch default).lines ≠ [] →
    isRowNode src (st.nodes.getD ch default) = true ∨
      (isCellNode src (st.nodes.getD ch default) = true ∧
        ∃ sg, (st.nodes.getD ch default).lines = [sg] ∧ sg.forceNewline = false)

theorem isRaw_isRawKind (k : Kind) : isRaw k = isRawKind k := by cases k <;> rfl

/-- **the body of `BlockPhaseXGood` without the escaped-pipe clause**, for one member set and one source -/
theorem blockPhaseX_good_but_esc_of (c : GCfg) (src : Bytes)
    (hR : c.base.table = true → ∀ st, blockPhaseX c.base true src = .ok st → RecClassAt src st) :
    ∃ st, blockPhaseX c.base true src = .ok st ∧
      (∀ n ∈ st.nodes, isRawKind n.kind = true → ∀ t ∈ n.lines, segInRange src t) ∧
      (∀ p ch, ch ∈ (st.nodes.getD p default).children → isRawKind (st.nodes.getD ch default).kind = false →
        (c.base.table && isRowNode src (st.nodes.getD ch default)) = false →
        (c.base.table && isCellNode src (st.nodes.getD ch default) &&
          (st.nodes.getD ch default).lines.all (fun s => s.start == s.stop && s.padding == 0)) = false →
        (st.nodes.getD ch default).lines ≠ [] → GM.Proof.InlinesReader.WF0 src (st.nodes.getD ch default).lines) ∧
      (st.nodes.getD 0 default).lines = [] := by
  obtain ⟨st, hst, hok⟩ := blockPhaseX_total c.base src
  refine ⟨st, hst, fun n hn _ t ht => (hok n hn).lines t ht, ?_, ?_⟩
  · cases htab : c.base.table with
    | false =>
      rw [blockPhaseX_noTable src true c.base htab] at hst
      intro p ch hc hr _ _ hne
      have hr' : isRaw (nd st ch).kind = false := by rw [isRaw_isRawKind]; exact hr
      have hlt : ch < st.nodes.length := by
        rcases Nat.lt_or_ge ch st.nodes.length with hh | hh
        · exact hh
        · exfalso; apply hne; show (nd st ch).lines = []; rw [nd_default_of_ge st hh]; rfl
      have hm : nd st ch ∈ st.nodes := by
        have e : nd st ch = st.nodes[ch] := by simp [nd, List.getD, hlt]
        rw [e]; exact List.getElem_mem hlt
      exact ⟨((TO.blockPhase_wfsegs src st hst).1 _ hm hr').2.2 hne, (TO.blockPhase_pad_facts src st hst).1 p ch hc hr'⟩
    | true =>
      obtain ⟨f1, f2, f3, _⟩ := blockPhaseX_line_facts c.base src htab st hst
      intro p ch hc hr h1 h2 hne
      by_cases hk : (st.nodes.getD ch default).kind = .thematicBreak
      · rcases hR htab st hst p ch hc hk hne with hrow | ⟨hcell, sg, hl, hfn⟩
        · rw [hrow] at h1; cases h1
        · have hlt : ch < st.nodes.length := by
            rcases Nat.lt_or_ge ch st.nodes.length with hh | hh
            · exact hh
            · exfalso; apply hne; show (nd st ch).lines = []; rw [nd_default_of_ge st hh]; rfl
          have hm : st.nodes.getD ch default ∈ st.nodes := by
            have e : st.nodes.getD ch default = st.nodes[ch] := by simp [List.getD, hlt]
            rw [e]; exact List.getElem_mem hlt
          have hpad : sg.padding = 0 := f3 p ch hc hk sg (by rw [hl]; simp)
          obtain ⟨r1, r2, r3, r4⟩ := f1 _ hm sg (by rw [hl]; simp)
          rw [hcell, hl] at h2
          simp only [Bool.true_and, List.all_cons, List.all_nil, Bool.and_true, hpad, beq_self_eq_true,
            Bool.and_eq_false_imp, beq_iff_eq] at h2
          rw [hl]
          refine ⟨⟨by simp, ?_⟩, fun s hs => by simp only [List.mem_singleton] at hs; rw [hs]; exact hpad⟩
          have hne' : sg.start ≠ sg.stop := fun e0 => by simp [e0] at h2
          exact ⟨r1, by omega, r3, r4, hfn, trivial⟩
      · exact f2 p ch hc hr hk hne
  · cases htab : c.base.table with
    | false =>
      rw [blockPhaseX_noTable src true c.base htab] at hst
      exact (TO.blockPhase_pad_facts src st hst).2
    | true => exact (blockPhaseX_line_facts c.base src htab st hst).2.2.2

open GM.Props.ConvertXE2E in
/-- **`convertL` answers HTML for all 16 member sets and every source**, from the classification of the table records and
    the ascending escaped-pipe positions -/
theorem convertL_total_of_class_esc
    (hR : ∀ (c : GCfg) (src : Bytes) st, c.base.table = true → blockPhaseX c.base true src = .ok st → RecClassAt src st)
    (hE : ∀ (c : GCfg) (src : Bytes) st, blockPhaseX c.base true src = .ok st →
      (if c.base.table then escOfTree src (treeOf st.nodes st.nodes.length 0) else []).Pairwise (· < ·)) :
    ConvertLTotal := by
  intro c uc o src
  obtain ⟨st, hst, hL, hW, h0⟩ := blockPhaseX_good_but_esc_of c src (fun ht st hst => hR c src st ht hst)
  exact GM.Proof.ConvertXE2E.convertL_total_of_lines_facts c uc o st hst hL hW h0 (hE c src st hst)

end GM.Blocks.TX
