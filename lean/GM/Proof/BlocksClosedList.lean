/-
  GM.Proof.BlocksClosedList — listParser.Close (list.go:247-279) with the tree links: which paragraphs it replaces by
  TextBlocks, and that it leaves alone every node that is not a grandchild of the list.

  `InTight s0 Prot s`: the state `s` inside `Close` of a tight list that was entered in `s0` — old nodes keep lines, nil
  flag and kind; `TreeOK`; nodes in `Prot` keep their parent; every added node is a TextBlock that carries the lines of a
  Paragraph of `s0` that is NOT in `Prot`; reader and context untouched.
  `listClose_tight`: if no node of `Prot` has an item of the list as its parent, `Close` ends in such a state.
-/
import GM.Proof.BlocksClosedTree

namespace GM.Blocks
open GM GM.Text GM.Spec GM.Proof.Reader

structure InTight (s0 : St) (Prot : Nat → Prop) (s : St) : Prop where
  len : s0.nodes.length ≤ s.nodes.length
  old : ∀ i, i < s0.nodes.length → (nd s i).lines = (nd s0 i).lines ∧ (nd s i).linesNil = (nd s0 i).linesNil ∧
      (nd s i).kind = (nd s0 i).kind
  tree : TreeOK s
  prot : ∀ i, Prot i → (nd s i).parent = (nd s0 i).parent
  new : ∀ i, s0.nodes.length ≤ i → i < s.nodes.length →
      (nd s i).kind = .textBlock ∧ ∃ j, j < s0.nodes.length ∧ (nd s0 j).kind = .paragraph ∧ ¬ Prot j ∧
        (nd s i).lines = (nd s0 j).lines ∧ (nd s i).linesNil = (nd s0 j).linesNil
  r : s.r = s0.r
  pc : s.pc = s0.pc

theorem InTight.refl {s0 : St} (Prot : Nat → Prop) (h : TreeOK s0) : InTight s0 Prot s0 :=
  ⟨Nat.le_refl _, fun _ _ => ⟨rfl, rfl, rfl⟩, h, fun _ _ => rfl, fun i h1 h2 => by omega, rfl, rfl⟩

/-- one grandchild (list.go:270-275) -/
theorem tightenItem_tight {s0 : St} {Prot : Nat → Prop} (hp0 : ∀ i, Prot i → i < s0.nodes.length) (child : Nat) :
    ∀ (gcs : List Nat) (s s' : St), InTight s0 Prot s → child < s.nodes.length →
      (∀ gc ∈ gcs, gc < s.nodes.length ∧ gc ≠ child ∧
        (gc < s0.nodes.length → (nd s0 gc).kind = .paragraph → ¬ Prot gc)) →
      tightenItem child gcs s = .ok ((), s') → InTight s0 Prot s' := by
  intro gcs
  induction gcs with
  | nil =>
    intro s s' hi _ _ h
    unfold tightenItem at h
    obtain ⟨_, hs⟩ := opure_ok h
    subst s'
    exact hi
  | cons gc gcs ih =>
    intro s s' hi hcl hg h
    unfold tightenItem at h
    obtain ⟨g, s1, h1, k1⟩ := obind_ok h
    obtain ⟨rfl, hs1⟩ := ogetNode_ok h1
    subst s1
    dsimp only at k1
    have hgrest : ∀ s2 : St, s.nodes.length ≤ s2.nodes.length → ∀ x ∈ gcs, x < s2.nodes.length ∧ x ≠ child ∧
        (x < s0.nodes.length → (nd s0 x).kind = .paragraph → ¬ Prot x) :=
      fun s2 hl x hx => ⟨Nat.lt_of_lt_of_le (hg x (List.mem_cons_of_mem _ hx)).1 hl, (hg x (List.mem_cons_of_mem _ hx)).2⟩
    split at k1
    · next hk =>
      obtain ⟨tb, s3, h3, k3⟩ := obind_ok k1
      obtain ⟨htb, hs3⟩ := onewNode_ok h3
      subst tb
      obtain ⟨_, s4, h4, k4⟩ := obind_ok k3
      obtain ⟨hgl, hgc, hgp'⟩ := hg gc (List.mem_cons_self ..)
      have hkp : (nd s gc).kind = .paragraph := by simpa using hk
      -- `gc` is a node of `s0` (the nodes added since are TextBlocks)
      have hg0 : gc < s0.nodes.length := by
        rcases Nat.lt_or_ge gc s0.nodes.length with h' | h'
        · exact h'
        · rw [(hi.new gc h' hgl).1] at hkp; cases hkp
      have hgp : ¬ Prot gc := hgp' hg0 (by rw [← (hi.old gc hg0).2.2]; exact hkp)
      -- the store with the new TextBlock
      obtain ⟨n, hsn, hnk, hnl, hnn, hnp, hnc, hr3, hpc3⟩ : ∃ n : Node, s3.nodes = s.nodes ++ [n] ∧ n.kind = .textBlock ∧
          n.lines = (nd s gc).lines ∧ n.linesNil = (nd s gc).linesNil ∧ n.parent = none ∧ n.children = [] ∧
          s3.r = s.r ∧ s3.pc = s.pc := by
        rw [hs3]; exact ⟨_, rfl, rfl, rfl, rfl, rfl, rfl, rfl, rfl⟩
      have hl3 : s3.nodes.length = s.nodes.length + 1 := by rw [hsn]; simp
      have ht3 := hi.tree.snoc hsn hnp hnc
      have hlk := replaceChild_lk h4
      obtain ⟨t4, l4, f4, _, v4⟩ := replaceChild_tree ht3 (by omega : child < s.nodes.length) (by omega)
        (by omega : gc ≠ s.nodes.length) h4
      have hnd3 := fun i => nd_snoc hsn i
      have hi4 : InTight s0 Prot s4 := by
        refine ⟨by rw [l4, hl3]; have := hi.len; omega, fun i hi0 => ?_, t4, fun i hpi => ?_, fun i h1' h2' => ?_,
          by rw [hlk.r, hr3]; exact hi.r, by rw [hlk.pc, hpc3]; exact hi.pc⟩
        · have hil : i < s.nodes.length := Nat.lt_of_lt_of_le hi0 hi.len
          obtain ⟨x1, x2, x3⟩ := hlk.same i
          rw [x1, x2, x3, hnd3, if_pos hil]
          exact hi.old i hi0
        · have hi0 := hp0 i hpi
          have hil : i < s.nodes.length := Nat.lt_of_lt_of_le hi0 hi.len
          have hne1 : i ≠ s.nodes.length := by omega
          have hne2 : i ≠ gc := fun e => hgp (e ▸ hpi)
          rw [f4 i hne1 hne2, hnd3, if_pos hil]
          exact hi.prot i hpi
        · rw [l4, hl3] at h2'
          obtain ⟨x1, x2, x3⟩ := hlk.same i
          rw [x1, x2, x3, hnd3]
          by_cases hil : i < s.nodes.length
          · rw [if_pos hil]; exact hi.new i h1' hil
          · have : i = s.nodes.length := by omega
            rw [if_neg hil, if_pos this]
            refine ⟨hnk, gc, hg0, ?_, hgp, ?_, ?_⟩
            · rw [← (hi.old gc hg0).2.2]; exact hkp
            · rw [hnl]; exact (hi.old gc hg0).1
            · rw [hnn]; exact (hi.old gc hg0).2.1
      have hl4 : s.nodes.length ≤ s4.nodes.length := by rw [l4, hl3]; omega
      exact ih s4 s' hi4 (by omega) (hgrest s4 hl4) k4
    · exact ih s s' hi hcl (hgrest s (Nat.le_refl _)) k1

/-- the items (list.go:267-277) -/
theorem tightenItems_tight {s0 : St} {Prot : Nat → Prop} (hp0 : ∀ i, Prot i → i < s0.nodes.length) :
    ∀ (cs : List Nat) (s s' : St), InTight s0 Prot s →
      (∀ c ∈ cs, c < s0.nodes.length ∧ ∀ i, Prot i → (nd s0 i).kind = .paragraph → (nd s0 i).parent ≠ some c) →
      tightenItems cs s = .ok ((), s') → InTight s0 Prot s' := by
  intro cs
  induction cs with
  | nil =>
    intro s s' hi _ h
    unfold tightenItems at h
    obtain ⟨_, hs⟩ := opure_ok h
    subst s'
    exact hi
  | cons c cs ih =>
    intro s s' hi hc h
    unfold tightenItems at h
    obtain ⟨cn, s0', h0, k0⟩ := obind_ok h
    obtain ⟨rfl, hs0⟩ := ogetNode_ok h0
    subst s0'
    obtain ⟨_, s1, h1, k1⟩ := obind_ok k0
    obtain ⟨hc0, hcp⟩ := hc c (List.mem_cons_self ..)
    have hcl : c < s.nodes.length := Nat.lt_of_lt_of_le hc0 hi.len
    have hgs : ∀ gc ∈ (s.nodes.getD c default).children, gc < s.nodes.length ∧ gc ≠ c ∧
        (gc < s0.nodes.length → (nd s0 gc).kind = .paragraph → ¬ Prot gc) := by
      intro gc hgc
      have hgc' : gc ∈ (nd s c).children := hgc
      obtain ⟨k1', k2'⟩ := hi.tree.kid_lt hgc'
      refine ⟨k2', by omega, fun _ hkp hpg => ?_⟩
      have := hi.tree.kid c gc hgc'
      rw [hi.prot gc hpg] at this
      exact hcp gc hpg hkp this
    have hi1 := tightenItem_tight hp0 c _ s s1 hi hcl hgs h1
    exact ih s1 s' hi1 (fun x hx => hc x (List.mem_cons_of_mem _ hx)) k1

/-- **listParser.Close with the tree links** (list.go:247-279): when no protected node has an item of the list as its
    parent, `Close` keeps `TreeOK`, the parents of the protected nodes, lines / kinds of all existing nodes, reader and
    context; what it adds are TextBlocks carrying the lines of unprotected Paragraphs. -/
theorem listClose_tight {node : Nat} {s s' : St} (Prot : Nat → Prop) (ht : TreeOK s)
    (hp0 : ∀ i, Prot i → i < s.nodes.length)
    (hprot : ∀ i, Prot i → (nd s i).kind = .paragraph → ∀ c ∈ (nd s node).children, (nd s i).parent ≠ some c)
    (h : listClose node s = .ok ((), s')) : InTight s Prot s' := by
  unfold listClose at h
  obtain ⟨list, s1, h1, k1⟩ := obind_ok h
  obtain ⟨rfl, hs1⟩ := ogetNode_ok h1
  subst s1
  obtain ⟨st, s2, h2, k2⟩ := obind_ok k1
  have e2 : st = s ∧ s2 = s := by cases h2; exact ⟨rfl, rfl⟩
  obtain ⟨hst, hs2⟩ := e2
  subst st
  subst s2
  dsimp only at k2
  obtain ⟨_, s3, h3, k3⟩ := obind_ok k2
  have hlk := modNode_lk h3 (fun _ => ⟨rfl, rfl, rfl⟩)
  have ht3 : TreeOK s3 := ht.modNode h3 (fun _ => ⟨rfl, rfl⟩)
  have hpar3 := modNode_links h3 (fun _ => ⟨rfl, rfl⟩)
  have hi3 : InTight s Prot s3 :=
    ⟨by rw [hlk.len]; exact Nat.le_refl _, fun i _ => hlk.same i, ht3, fun i _ => (hpar3 i).1,
      fun i h1' h2' => by rw [hlk.len] at h2'; omega, hlk.r, hlk.pc⟩
  split at k3
  · refine tightenItems_tight hp0 _ s3 s' hi3 (fun c hc => ⟨?_, fun i hpi hk => hprot i hpi hk c hc⟩) k3
    exact (ht.kid_lt (x := node) hc).2
  · obtain ⟨_, hs'⟩ := opure_ok k3
    subst s'
    exact hi3

end GM.Blocks
