/-
  GM.Proof.BlocksTNO23 — the table paragraph transformer against the wide no-panic contract of GM.Proof.BlocksTNP30–37.

  * `L.G.X.TableNodesOK src` (the hypothesis of tnp's `transformPT_specX`) is too strong: it speaks about lines with
    `start = stop` (the cut of the last kept line, `stop - 1`, then inverts the segment; GM.Proof.BlocksTNO44).
  * Here: `tblLinesB` (the lines are valid AND non-empty), `tableNodesOK'` (then the records and the remaining lines are
    `NodeOK` / `LinesOK`, from GM.Proof.BlocksTNO20: cell segments and escaped-pipe positions lie inside the row's
    line), the checked twin `tableE e src` of `transformPT src`, `tableE_specX : PTSpecX src e (tableE e src)`,
    `tableE_passes`.
  * `transformPT_post`: a normal end of `transformPT` is "nothing happened" or `TablePost` (GM.Proof.BlocksTNO22).
-/
import GM.Proof.BlocksTNO22
import GM.Proof.BlocksTNP37

namespace GM.Blocks.TO
open GM GM.Text GM.Spec GM.Proof.Reader GM.TableX GM.Blocks.L.G.X GM.Blocks.T GM.Blocks.TR
open GM.Blocks.TO.Tab

/-- lines fit for the table transformer: in the domain of GM.Table and non-empty -/
def tblLinesB (src : Bytes) (ls : List Segment) : Bool := ls.all fun t => validB src t && decide (t.start < t.stop)

theorem tblLinesB_valid {src : Bytes} {ls : List Segment} (h : tblLinesB src ls = true) : ls.all (validB src) = true := by
  unfold tblLinesB at h
  rw [List.all_eq_true] at h ⊢
  intro t ht
  have := h t ht
  simp only [Bool.and_eq_true] at this
  exact this.1

theorem tblLinesB_mem {src : Bytes} {ls : List Segment} (h : tblLinesB src ls = true) {t : Segment} (ht : t ∈ ls) :
    0 ≤ t.start ∧ t.start < t.stop ∧ t.stop ≤ src.length ∧ 0 ≤ t.padding ∧ t.forceNewline = false := by
  unfold tblLinesB at h
  rw [List.all_eq_true] at h
  have := h t ht
  simp only [validB, Bool.and_eq_true, decide_eq_true_eq, Bool.not_eq_true'] at this
  obtain ⟨⟨⟨⟨⟨a, _⟩, c⟩, d⟩, e⟩, f⟩ := this
  exact ⟨a, f, c, d, e⟩

theorem ofSeg_toSeg {t : Segment} (h1 : 0 ≤ t.start) (h2 : 0 ≤ t.stop) (h3 : 0 ≤ t.padding) (h4 : t.forceNewline = false) :
    ofSeg (toSeg t) = t := by
  cases t with
  | mk a b c d =>
    simp only at h1 h2 h3 h4
    subst h4
    simp only [ofSeg, toSeg, Segment.mk.injEq, and_true]
    omega

/-- the facts about the table found on fit lines -/
theorem table_facts {src : Bytes} {ls : List Segment} (hv : tblLinesB src ls = true) {t : GM.Table.Table}
    (ht : (GM.Table.transform src (ls.map toSeg)).table = some t) :
    (∃ pre hdr dl tl, ls = pre ++ hdr :: dl :: tl ∧
      (GM.Table.transform src (ls.map toSeg)).para = GM.Table.trimLastNewline (pre.map toSeg)) ∧
    ∀ r ∈ t.header :: t.rows, ∃ l ∈ ls, ∀ c ∈ r, CellIn l.start.toNat l.stop.toNat c := by
  obtain ⟨pre, hdr, dl, tl, al, hsplit, _, hpara, hT⟩ := transform_spec src _ t ht
  obtain ⟨pre', rest', hls, hpre, hrest⟩ := List.map_eq_append_iff.1 hsplit
  cases rest' with
  | nil => simp at hrest
  | cons hdr' rest2 =>
    cases rest2 with
    | nil => simp at hrest
    | cons dl' tl' =>
      simp only [List.map_cons, List.cons.injEq] at hrest
      obtain ⟨h1, h2, h3⟩ := hrest
      refine ⟨⟨pre', hdr', dl', tl', hls, by rw [hpara, hpre]⟩, ?_⟩
      have hrow : ∀ (l : Segment) (b : Bool), l ∈ ls → ∀ c ∈ GM.Table.parseRow src (toSeg l) al b, CellIn l.start.toNat l.stop.toNat c := by
        intro l b hl c hc
        obtain ⟨a1, a2, _⟩ := tblLinesB_mem hv hl
        exact parseRow_in src (toSeg l) al b (by simp only [toSeg]; omega) c hc
      intro r hr
      rw [hT] at hr
      simp only [List.mem_cons, List.mem_map] at hr
      rcases hr with hr | ⟨l, hl, hr⟩
      · subst hr
        refine ⟨hdr', by rw [hls]; simp, ?_⟩
        rw [← h1]
        exact hrow hdr' true (by rw [hls]; simp)
      · subst hr
        rw [← h3] at hl
        obtain ⟨l', hl', rfl⟩ := List.mem_map.1 hl
        exact ⟨l', by rw [hls]; simp [hl'], hrow l' false (by rw [hls]; simp [hl'])⟩

theorem nodeOK_cell {src : Bytes} {c : GM.Table.Cell} {lo hi : Nat} (hc : CellIn lo hi c) (hh : hi ≤ src.length) :
    NodeOK src (cellNode src c) := by
  refine ⟨fun t ht => ?_, fun hn => ?_⟩
  · unfold cellNode at ht
    cases hs : c.seg with
    | none => rw [hs] at ht; cases ht
    | some sg =>
      rw [hs] at ht
      simp only [List.mem_singleton] at ht
      subst ht
      obtain ⟨a1, a2, a3, a4⟩ := hc.1 sg hs
      simp only [SegOK, ofSeg]
      omega
  · unfold cellNode at hn ⊢
    simp only [Option.isNone_iff_eq_none] at hn
    rw [hn]

/-- **the corrected `TableNodesOK`** -/
theorem tableNodesOK' {src : Bytes} {ls : List Segment} (hv : tblLinesB src ls = true)
    {t : GM.Table.Table} (ht : (GM.Table.transform src (ls.map toSeg)).table = some t) :
    LinesOK src ((GM.Table.transform src (ls.map toSeg)).para.map ofSeg) ∧
    (NodeOK src (rowNode src tagHeader t.header) ∧ ∀ c ∈ t.header, NodeOK src (cellNode src c)) ∧
    ∀ r ∈ t.rows, NodeOK src (rowNode src tagRow r) ∧ ∀ c ∈ r, NodeOK src (cellNode src c) := by
  obtain ⟨⟨pre, hdr, dl, tl, hls, hpara⟩, hcells⟩ := table_facts hv ht
  have hrowN : ∀ (tag : Nat), ∀ r ∈ t.header :: t.rows, NodeOK src (rowNode src tag r) := by
    intro tag r hr
    obtain ⟨l, hl, hin⟩ := hcells r hr
    obtain ⟨_, _, a3, _⟩ := tblLinesB_mem hv hl
    unfold rowNode
    refine ⟨fun x hx => ?_, fun hn => ?_⟩
    · simp only [List.mem_map, List.mem_flatMap] at hx
      obtain ⟨q, ⟨c, hc, hq⟩, rfl⟩ := hx
      have := (hin c hc).2 q hq
      simp only [SegOK, escSeg]
      omega
    · simp only [List.isEmpty_iff] at hn
      simp only [hn, List.map_nil]
  have hcellN : ∀ r ∈ t.header :: t.rows, ∀ c ∈ r, NodeOK src (cellNode src c) := by
    intro r hr c hc
    obtain ⟨l, hl, hin⟩ := hcells r hr
    obtain ⟨_, _, a3, _⟩ := tblLinesB_mem hv hl
    exact nodeOK_cell (hin c hc) (by omega)
  refine ⟨?_, ⟨hrowN _ _ (List.mem_cons_self ..), hcellN _ (List.mem_cons_self ..)⟩,
    fun r hr => ⟨hrowN _ _ (List.mem_cons_of_mem _ hr), hcellN _ (List.mem_cons_of_mem _ hr)⟩⟩
  rw [hpara]
  intro x hx
  obtain ⟨y, hy, rfl⟩ := List.mem_map.1 hx
  -- `y` is a line of `pre`, possibly cut by one byte
  have hmem : ∀ u ∈ pre, 0 ≤ u.start ∧ u.start < u.stop ∧ u.stop ≤ src.length ∧ 0 ≤ u.padding :=
    fun u hu => by
      obtain ⟨a, b, c, d, _⟩ := tblLinesB_mem hv (t := u) (by rw [hls]; simp [hu])
      exact ⟨a, b, c, d⟩
  rcases List.eq_nil_or_concat pre with hp | ⟨init, last, hp⟩
  · subst hp; simp [GM.Table.trimLastNewline] at hy
  · subst hp
    rw [List.concat_eq_append, List.map_append, List.map_cons, List.map_nil, trimLastNewline_snoc] at hy
    simp only [List.mem_append, List.mem_map, List.mem_singleton] at hy
    rcases hy with ⟨u, hu, rfl⟩ | rfl
    · obtain ⟨a, b, c, d⟩ := hmem u (by simp [hu])
      simp only [SegOK, ofSeg, toSeg]
      omega
    · obtain ⟨a, b, c, d⟩ := hmem last (by simp)
      simp only [SegOK, ofSeg, toSeg]
      omega


/-! ### the checked twin -/

/-- `transformPT src` behind the run-time check "the lines are fit" (answering `e`) -/
def tableE (e : Panic) (src : Bytes) : PT := fun node => do
  let n ← getNode node
  if !(tblLinesB src n.lines) then throw e else transformPT src node

theorem tableE_passes (e : Panic) (src : Bytes) (node : Nat) (s : St) (h : tblLinesB src (nd s node).lines = true) :
    tableE e src node s = transformPT src node s := by
  unfold tableE
  simp only [bind, StateT.bind, getNode, pure, Except.pure, Except.bind]
  have : (s.nodes.getD node default).lines = (nd s node).lines := rfl
  rw [this, h]
  rfl

theorem tableE_fails (e : Panic) (src : Bytes) (node : Nat) (s : St) (h : ¬ tblLinesB src (nd s node).lines = true) :
    tableE e src node s = .error e := by
  unfold tableE
  simp only [bind, StateT.bind, getNode, pure, Except.pure, Except.bind]
  have : (s.nodes.getD node default).lines = (nd s node).lines := rfl
  rw [this]
  have : tblLinesB src (nd s node).lines = false := by
    cases hh : tblLinesB src (nd s node).lines
    · rfl
    · exact absurd hh h
  rw [this]
  rfl

/-- **the checked table transformer meets the wide contract** -/
theorem tableE_specX (src : Bytes) (e : Panic) : PTSpecX src e (tableE e src) := by
  intro node s hsrc hlt hk hp hl hn hkids hplt htree
  by_cases hv : tblLinesB src (nd s node).lines = true
  · rw [tableE_passes e src node s hv]
    have hrefl : StepX src node s s false :=
      ⟨TStep.refl hn hl, L.TF.refl s, hplt, htree, fun _ _ _ h => h, fun _ => KeepF.refl node s⟩
    unfold transformPT
    simp only [bind, StateT.bind, getNode, source, pure, StateT.pure, Except.pure, Except.bind]
    rw [hsrc]
    have hv' : ((s.nodes.getD node default).lines.all (validB src)) = true := tblLinesB_valid hv
    rw [if_neg (by rw [hv']; simp)]
    cases htb : (GM.Table.transform src ((s.nodes.getD node default).lines.map toSeg)).table with
    | none => exact .inl ⟨s, false, rfl, hrefl⟩
    | some t =>
      simp only []
      obtain ⟨p, hpp⟩ := Option.isSome_iff_exists.1 hp
      obtain ⟨h1, h2, h3⟩ := tableNodesOK' hv htb
      have hpp' : (s.nodes.getD node default).parent = some p := hpp
      rw [hpp']
      obtain ⟨s', e', hst⟩ := buildTable_stepX (src := src) hlt hk hpp hl hn hkids hplt htree _ t h1
        (nodeOK_noLines src _ rfl) h2 h3
      exact .inl ⟨s', _, e', hst⟩
  · exact .inr (tableE_fails e src node s hv)

/-! ### `transformPT`, a normal end -/

theorem transformPT_post (src : Bytes) {node : Nat} {s s' : St} {a : Unit} (htr : TreeOK s)
    (e : transformPT src node s = .ok (a, s')) :
    ((GM.Table.transform src ((nd s node).lines.map toSeg)).table = none ∧ s' = s) ∨
    ∃ t p, (GM.Table.transform src ((nd s node).lines.map toSeg)).table = some t ∧ (nd s node).parent = some p ∧
      TablePost (RecD src t) node p ((GM.Table.transform src ((nd s node).lines.map toSeg)).para.map ofSeg) s s' := by
  unfold transformPT at e
  obtain ⟨n, s1, h1, k1⟩ := obind_ok e
  obtain ⟨rfl, rfl⟩ := ogetNode_ok h1
  obtain ⟨rsrc, s2, h2, k2⟩ := obind_ok k1
  have : s2 = s1 := by cases h2; rfl
  subst this
  split at k2
  · cases k2
  · have hnd : s2.nodes.getD node default = nd s2 node := rfl
    rw [hnd] at k2
    cases htb : (GM.Table.transform src ((nd s2 node).lines.map toSeg)).table with
    | none =>
      rw [htb] at k2
      exact .inl ⟨rfl, (opure_ok k2).2⟩
    | some t =>
      rw [htb] at k2
      right
      cases hp : (nd s2 node).parent with
      | none =>
        rw [hp] at k2
        unfold buildTable at k2
        obtain ⟨_, _, _, k3⟩ := obind_ok k2
        obtain ⟨_, _, _, k4⟩ := obind_ok k3
        obtain ⟨_, _, _, k5⟩ := obind_ok k4
        obtain ⟨_, _, _, k6⟩ := obind_ok k5
        cases k6
      | some p =>
        rw [hp] at k2
        exact ⟨t, p, rfl, rfl, buildTable_post src htr hp k2⟩

end GM.Blocks.TO
