/-
  GM.Proof.CMFrag13Main — stage 13, the union of the stages: stage-6 / stage-7 documents (also inside a block quote:
  see CMFrag13Quote) whose paragraph lines and heading texts are rich lines (text, code spans, emphasis, strong emphasis),
  paragraph lines optionally ending in a backslash hard break. The phases composed, from the inline facts `U13Inl`.
-/
import GM.Proof.CMFrag13Defs
import GM.Proof.CMFragGen
import GM.Proof.CMFrag8Main

namespace GM.Proof.CMFrag
open GM GM.Text GM.Blocks GM.Spec

/-! ### the lines are good for the block phase -/

theorem eatomSrc_noNl (a : EAtom) (h : EAtomOK a) : ∀ c ∈ eatomSrc a, c ≠ 10 := by
  cases a with
  | txt bs => exact quiet_no_nl bs 0 false (h.2.1 0)
  | code bs =>
    intro c hc
    simp only [eatomSrc, List.mem_append, List.mem_cons, List.not_mem_nil, or_false] at hc
    rcases hc with (rfl | hc) | rfl
    · decide
    · exact alnum_ne_lf8 c (h.2 c hc)
    · decide
  | em bs =>
    intro c hc
    simp only [eatomSrc, List.mem_append, List.mem_cons, List.not_mem_nil, or_false] at hc
    rcases hc with (rfl | hc) | rfl
    · decide
    · exact alnum_ne_lf8 c (h.2 c hc)
    · decide
  | strong bs =>
    intro c hc
    simp only [eatomSrc, List.mem_append, List.mem_cons, List.not_mem_nil, or_false] at hc
    rcases hc with ((rfl | rfl) | hc) | (rfl | rfl)
    · decide
    · decide
    · exact alnum_ne_lf8 c (h.2 c hc)
    · decide
    · decide

theorem elineSrc_append (a b : List EAtom) : elineSrc (a ++ b) = elineSrc a ++ elineSrc b := by
  simp [elineSrc]

theorem erichLine_first {l : List EAtom} (h : ERichLine l) :
    ∃ c t, elineSrc l = c :: t ∧ GM.Spec.CM.isLetter c = true := by
  obtain ⟨bs, rest, e, hf⟩ := h.first
  have hok := h.ok (.txt bs) (by rw [e]; simp)
  cases bs with
  | nil => exact absurd rfl hok.1
  | cons c t => exact ⟨c, t ++ elineSrc rest, by rw [e]; simp [elineSrc, eatomSrc], hf c rfl⟩

theorem erichLine_last {l : List EAtom} (h : ERichLine l) :
    ∀ c, (elineSrc l).getLast? = some c → isSpace c = false ∧ c ≠ 92 := by
  obtain ⟨init, bs, e, hl⟩ := h.last
  have hok := h.ok (.txt bs) (by rw [e]; simp)
  intro c hc
  have e2 : elineSrc l = elineSrc init ++ bs := by rw [e, elineSrc_append]; simp [elineSrc, eatomSrc]
  rw [e2, List.getLast?_append] at hc
  cases hb : bs.getLast? with
  | none => exact absurd (List.getLast?_eq_none_iff.mp hb) hok.1
  | some z =>
    rw [hb] at hc
    have hc' : z = c := by simpa using hc
    subst hc'
    exact hl z hb

theorem erichLine_noNl {l : List EAtom} (h : ERichLine l) : ∀ c ∈ elineSrc l, c ≠ 10 := by
  intro c hc
  simp only [elineSrc, List.mem_flatMap] at hc
  obtain ⟨a, ha, hca⟩ := hc
  exact eatomSrc_noNl a (h.ok a ha) c hca

/-- a rich line is good for the block phase -/
theorem erichLine_blk {l : List EAtom} (h : ERichLine l) : BlkLine (elineSrc l) :=
  ⟨erichLine_first h, fun c hc => (erichLine_last h c hc).1, erichLine_noNl h⟩

/-- … with or without the backslash of a hard break behind it -/
theorem uline_blk (x : ULine) (h : ERichLine x.atoms) : BlkLine (ulineSrc x) := by
  unfold ulineSrc
  cases hx : x.hard
  · simpa using erichLine_blk h
  · simp only [if_true]
    obtain ⟨c, t, e, hc⟩ := erichLine_first h
    refine ⟨⟨c, t ++ [92], by rw [e]; rfl, hc⟩, ?_, ?_⟩
    · intro z hz
      rw [List.getLast?_append] at hz
      have : z = 92 := by simpa using hz.symm
      subst this; decide
    · intro z hz
      rcases List.mem_append.mp hz with hz | hz
      · exact erichLine_noNl h z hz
      · have : z = 92 := by simpa using hz
        subst this; decide

/-! ### the inline facts (proved in CMFrag13Inl) -/

/-- what the inline phase and `inlineTrees` make of the lines of a paragraph / of a heading text -/
def U13Inl : Prop :=
  ∀ (env : GM.Inl.Env), env.escapedSpace = false → ∀ (ls : List ULine), ls ≠ [] → ULinesOK ls →
    ParaDT env (ls.map ulineSrc) (uNodes ls)

/-! ### `docTree` per block -/

/-- `docTree` on a closed non-raw node whose lines are the lines `ls` from byte `p` on, from the inline facts -/
theorem docTree_lines_gen {src : Bytes} (env : GM.Inl.Env) (ls : List Bytes) (p : Nat) (n : Blocks.Node) (K : GM.Kind)
    (hlines : n.lines = paraSegs p ls) (hraw : GM.Convert.isRawKind n.kind = false)
    (hK : GM.Convert.blockKind src n = .ok K)
    (hne : ls ≠ []) (hnel : ∀ l ∈ ls, l ≠ []) (h : LinesAtE src p ls) (kids : List GM.Inl.Node) (ns : List GM.Node)
    (hpb : GM.Inl.parseBlock env src (paraSegs p ls) = .ok kids)
    (hit : GM.Convert.inlineTrees src kids = .ok ns) :
    GM.Convert.docTree true env src (.node n []) = .ok (.mk K none ns) := by
  have hw := wf0B_linesE ls p hne h hnel
  have hle : (paraSegs p ls).isEmpty = false := by
    cases ls with
    | nil => exact absurd rfl hne
    | cons l rest => cases rest <;> simp [paraSegs]
  simp only [GM.Convert.docTree, GM.Convert.docTrees, GM.Convert.inlinePhase, hraw, hlines, hle, hw,
    hpb, GM.Convert.liftErr, hK, bind, Except.bind, pure, Except.pure]
  simp [hit]

/-- an ATX heading whose text has the given inline content -/
theorem blockDT_atx (env : GM.Inl.Env) (level : Nat) (l : Bytes) (hb : BlkLine l) (ns : List GM.Node)
    (hin : ParaDT env [l] ns) :
    BlockDT env (.old (.atx level l)) (.mk (.heading level) none ns) ∧
      BlockDTE env (.old (.atx level l)) (.mk (.heading level) none ns) := by
  obtain ⟨kidsAt, hpb, hit⟩ := hin
  have hlne : l ≠ [] := by obtain ⟨c, t, e, _⟩ := hb.first; rw [e]; simp
  refine ⟨?_, ?_⟩
  · intro src p bk h hp
    obtain ⟨pre0, post, hsrc, hpre0⟩ := paraAt_decomp _ p h hp
    have hno := hb.noNl
    have hsrc' : src = (pre0 ++ List.replicate level 35 ++ [32]) ++ (l ++ 10 :: post) := by
      rw [hsrc]; simp [lines5, lines4, paraBytes]
    have hlen : (pre0 ++ List.replicate level 35 ++ [32]).length = p + level + 1 := by simp [hpre0]; omega
    have hln := Ln.of_append (pre0 ++ List.replicate level 35 ++ [32]) l post hno
    rw [← hsrc', hlen] at hln
    have hle := hln.le
    have hls : LinesAtE src (p + level + 1) [l] :=
      ⟨sub_prefix src (p + level + 1) l.length l 10 rfl hln.sub, by omega⟩
    have hK : GM.Convert.blockKind src (headN level [sg (p + level + 1) (p + level + 1 + l.length)] bk) =
        .ok (.heading level) := by
      simp [GM.Convert.blockKind, headN, pure, Except.pure]
    exact docTree_lines_gen env [l] (p + level + 1) _ (.heading level) (by simp [node5, node4, headN, paraSegs, sg])
      rfl hK (by simp) (by simpa using hlne) hls _ ns (hpb src _ hls) (hit src _ hls)
  · intro src p bk h
    obtain ⟨hln, heof⟩ : Ln src p (p + (List.replicate level 35 ++ 32 :: l).length)
        (List.replicate level 35 ++ 32 :: l) ∧ p + (List.replicate level 35 ++ 32 :: l).length = src.length := by
      simpa [lines5, lines4, ParaAtE] using h
    have hsub : sub src (p + level + 1) (p + (List.replicate level 35 ++ 32 :: l).length) = l := by
      have := sub_drop_prefix src p (p + (List.replicate level 35 ++ 32 :: l).length) (List.replicate level 35 ++ [32]) l
        (by rw [hln.sub]; simp) (by simp)
      simpa [Nat.add_assoc] using this
    have hE : p + (List.replicate level 35 ++ 32 :: l).length = p + level + 1 + l.length := by simp; omega
    rw [hE] at hsub
    have hls : LinesAtE src (p + level + 1) [l] := ⟨hsub, by have := hln.le; omega⟩
    have hK : GM.Convert.blockKind src (headN level [sg (p + level + 1) (p + level + 1 + l.length)] bk) =
        .ok (.heading level) := by
      simp [GM.Convert.blockKind, headN, pure, Except.pure]
    exact docTree_lines_gen env [l] (p + level + 1) _ (.heading level) (by simp [node5, node4, headN, paraSegs, sg])
      rfl hK (by simp) (by simpa using hlne) hls _ ns (hpb src _ hls) (hit src _ hls)

theorem ulines_blk (ls : List ULine) (h : ULinesOK ls) : ∀ l ∈ ls.map ulineSrc, BlkLine l := by
  intro l hl
  obtain ⟨x, hx, rfl⟩ := List.mem_map.mp hl
  exact uline_blk x (h.1 x hx)

theorem blkLine_ne {l : Bytes} (h : BlkLine l) : l ≠ [] := by
  obtain ⟨c, t, e, _⟩ := h.first; rw [e]; simp

theorem good5_uraw (b : UBlock) (h : UGood b) : Good5 (uraw b) := by
  cases b with
  | para ls => exact ⟨by simpa using h.1, ulines_blk ls h.2⟩
  | atx level l => exact ⟨h.1, h.2.1, erichLine_blk h.2.2.1, h.2.2.2⟩
  | hr x => exact good5_of _ h
  | fence fc n info ls => exact good5_of _ h
  | icode ls => exact good5_of _ h

/-- `docTree` reads the closed node of every good block of the union fragment as `uNode`; for an indented code block
    only where its lines end with line feeds (`BlockDTL`: as the last block of a source without final line feed it is
    closed as `node5E`, a case `LastNotIc` excludes) -/
theorem blockDT_u (H : U13Inl) (env : GM.Inl.Env) (henv : env.escapedSpace = false) (b : UBlock) (h : UGood b) :
    BlockDTL env (uraw b) (uNode b) := by
  cases b with
  | para ls =>
    obtain ⟨kidsAt, h1, h2⟩ := H env henv ls h.1 h.2
    have := blockDT_para env (ls.map ulineSrc) (by simpa using h.1)
      (fun l hl => blkLine_ne (ulines_blk ls h.2 l hl)) kidsAt (uNodes ls) h1 h2
    exact ⟨this.1, fun _ => this.2⟩
  | atx level l =>
    have hok : ULinesOK [⟨l, false⟩] := ⟨by simpa using h.2.2.1, by simp⟩
    have hin := H env henv [⟨l, false⟩] (by simp) hok
    have e1 : [(⟨l, false⟩ : ULine)].map ulineSrc = [elineSrc l] := by simp [ulineSrc]
    rw [e1] at hin
    have := blockDT_atx env level (elineSrc l) (erichLine_blk h.2.2.1) _ hin
    exact ⟨this.1, fun _ => this.2⟩
  | hr x =>
    exact ⟨fun src p bk hpa hp => docTree_block5 env henv _ p bk h hpa hp,
      fun _ src p bk hpa => docTree_block7 env henv _ p bk h rfl hpa⟩
  | fence fc n info ls =>
    exact ⟨fun src p bk hpa hp => docTree_block5 env henv _ p bk h hpa hp,
      fun _ src p bk hpa => docTree_block7 env henv _ p bk h rfl hpa⟩
  | icode ls =>
    exact ⟨fun src p bk hpa hp => docTree_block5 env henv _ p bk h hpa hp, fun hn => Bool.noConfusion hn⟩

theorem allBlk_u (H : U13Inl) (env : GM.Inl.Env) (henv : env.escapedSpace = false) :
    ∀ (items : List (Nat × UBlock)), (∀ it ∈ items, UGood it.2) →
    AllBlk (BlockDTL env) (items.map fun it => (it.1, uraw it.2))
      (items.map fun it => uNode it.2)
  | [], _ => trivial
  | it :: rest, h => ⟨blockDT_u H env henv it.2 (h it (by simp)), allBlk_u H env henv rest (fun x hx => h x (by simp [hx]))⟩

theorem uraw_noNl (b : UBlock) (h : UGood b) : ∀ l ∈ lines5 (uraw b), ∀ c ∈ l, c ≠ 10 := by
  cases b with
  | para ls => exact fun l hl => (ulines_blk ls h.2 l (by simpa [uraw, lines5, lines4] using hl)).noNl
  | atx level l =>
    intro x hx c hc
    simp only [uraw, lines5, lines4, List.mem_singleton] at hx
    subst hx
    simp only [List.mem_append, List.mem_replicate, List.mem_cons] at hc
    rcases hc with ⟨_, rfl⟩ | rfl | hc
    · decide
    · decide
    · exact erichLine_noNl h.2.2.1 c hc
  | hr x => exact lines5_no_nl _ h
  | fence fc n info ls => exact lines5_no_nl _ h
  | icode ls => exact lines5_no_nl _ h

theorem uraw_lastNe (b : UBlock) (h : UGood b) : ∀ l, (lines5 (uraw b)).getLast? = some l → l ≠ [] := by
  cases b with
  | para ls => exact fun l hl => blkLine_ne (ulines_blk ls h.2 l (List.mem_of_getLast? (by simpa [uraw, lines5, lines4] using hl)))
  | atx level l =>
    intro x hx
    simp only [uraw, lines5, lines4, List.getLast?_singleton, Option.some.injEq] at hx
    subst hx
    simp
  | hr x => exact lastLine_ne _ h
  | fence fc n info ls => exact lastLine_ne _ h
  | icode ls => exact lastLine_ne _ h

theorem isIcB_uraw (b : UBlock) : isIcB (uraw b) = b.isIc := by cases b <;> rfl

theorem uraw_noic (b : UBlock) (h : b.isIc = false) : isIcB (uraw b) = false := by rw [isIcB_uraw, h]

/-- a document without indented code blocks (what the block-quote theorems ask) -/
theorem uitems_noic (items : List (Nat × UBlock)) (hn : ∀ it ∈ items, it.2.isIc = false) :
    ∀ it ∈ items.map (fun it => (it.1, uraw it.2)), isIcB it.2 = false := by
  intro x hx
  obtain ⟨it, hit, rfl⟩ := List.mem_map.mp hx
  exact uraw_noic it.2 (hn it hit)

/-- the model of `goldmark.Convert` on a document of good blocks of the union fragment -/
theorem convert_raw13 (H : U13Inl) (uc : List (Nat × (Bool × Bool))) (items : List (Nat × UBlock)) (trail : Nat)
    (hgood : ∀ it ∈ items, UGood it.2) (hseps : SepsOK6 none (items.map fun it => (it.1, uraw it.2)))
    (hic : IcOK6 false (items.map fun it => (it.1, uraw it.2))) (html : Bytes)
    (hr : GM.Convert.renderDoc cmOpts (.mk .document none (items.map fun it => uNode it.2)) = .ok html) :
    GM.Convert.convertCore uc cmOpts (rawDoc6 (items.map fun it => (it.1, uraw it.2)) trail) = .ok html := by
  refine convert_raw_gen6 uc _ trail ?_ hseps hic ?_ _ html
    (fun env henv => allBlk_mono (fun _ _ h => h.1) _ _ (allBlk_u H env henv items hgood)) hr
  · intro x hx
    obtain ⟨it, hit, rfl⟩ := List.mem_map.mp hx
    exact good5_uraw it.2 (hgood it hit)
  · intro x hx
    obtain ⟨it, hit, rfl⟩ := List.mem_map.mp hx
    exact uraw_noNl it.2 (hgood it hit)

/-- … and without the final line feed (the last block not an indented code block) -/
theorem convert_raw13E (H : U13Inl) (uc : List (Nat × (Bool × Bool))) (items : List (Nat × UBlock)) (hne : items ≠ [])
    (hgood : ∀ it ∈ items, UGood it.2) (hseps : SepsOK6 none (items.map fun it => (it.1, uraw it.2)))
    (hic : IcOK6 false (items.map fun it => (it.1, uraw it.2)))
    (hlast : LastNotIc (items.map fun it => (it.1, uraw it.2))) (html : Bytes)
    (hr : GM.Convert.renderDoc cmOpts (.mk .document none (items.map fun it => uNode it.2)) = .ok html) :
    GM.Convert.convertCore uc cmOpts (rawDoc6E (items.map fun it => (it.1, uraw it.2))) = .ok html := by
  refine convert_raw_gen7L uc _ (by simpa using hne) ?_ hseps hic hlast ?_ _ html
    (fun env henv => allBlk_u H env henv items hgood) hr
  · intro x hx
    obtain ⟨it, hit, rfl⟩ := List.mem_map.mp hx
    exact good5_uraw it.2 (hgood it hit)
  · intro x hx
    obtain ⟨it, hit, rfl⟩ := List.mem_map.mp hx
    exact ⟨lines5_ne _ (good5_uraw it.2 (hgood it hit)), uraw_lastNe it.2 (hgood it hit), uraw_noNl it.2 (hgood it hit)⟩

end GM.Proof.CMFrag
