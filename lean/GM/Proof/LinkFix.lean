/-
  GM.Proof.LinkFix — the model's link-destination scanners (GM.Inl.destAngle, destPlain / destOpened: parser/link.go
  parseLinkDestination after the repairs 5e850d1, ce3b6c4) compute what the SPECIFICATION-side scanners of
  GM.Spec.CMLink (`pointy`, `bare` with all deviation switches off) compute — for every line. (Package linkfix.)
-/
import GM.Model.InlinesParsers
import GM.Proof.CMLink
import GM.Proof.InlinesTotal

namespace GM.Proof.LinkFix
open GM GM.Inl GM.Spec.CMLink
open GM.Spec.CMEmph (isAsciiPunct)

theorem punct_eq (c : UInt8) : isAsciiPunct c = isPunct c := rfl

/-! ### the `<…>` form -/

theorem pointy_esc_nonpunct (d : UInt8) (t : Bytes) (h : isPunct d = false) :
    pointy Dev.spec true (d :: t) = pointy Dev.spec false (d :: t) := by
  simp only [pointy, punct_eq, h, Bool.and_false, Bool.false_eq_true, if_false, Bool.false_and]

/-- the index the model's scanner reports is `i` + the length of the reference's raw destination -/
theorem destAngle_eq_pointy : ∀ (n : Nat) (l : Bytes), l.length ≤ n → (∀ c ∈ l, c ≠ 10) → ∀ i : Nat,
    destAngle l i = (pointy Dev.spec false l).map (fun p => i + p.1.length) := by
  intro n
  induction n with
  | zero =>
    intro l hl _ i
    cases l with
    | nil => simp [destAngle, pointy]
    | cons a t => simp at hl
  | succ n ih =>
    intro l hl hnl i
    cases l with
    | nil => simp [destAngle, pointy]
    | cons c rest =>
      have hc10 : c ≠ 10 := hnl c (by simp)
      have hrest : ∀ x ∈ rest, x ≠ 10 := fun x hx => hnl x (by simp [hx])
      simp only [List.length_cons] at hl
      rw [destAngle.eq_def]
      simp only
      by_cases h92 : c = 92
      · subst h92
        simp only [beq_self_eq_true, if_true]
        have hp : pointy Dev.spec false (92 :: rest) = consRaw 92 (pointy Dev.spec true rest) := by
          simp [pointy, Dev.spec]
        rw [hp]
        cases rest with
        | nil => simp [pointy, consRaw]
        | cons d rest' =>
          simp only
          have hrest' : ∀ x ∈ rest', x ≠ 10 := fun x hx => hrest x (by simp [hx])
          simp only [List.length_cons] at hl
          by_cases hd : isPunct d = true
          · simp only [hd, if_true]
            have hq : pointy Dev.spec true (d :: rest') = consRaw d (pointy Dev.spec false rest') := by
              simp [pointy, punct_eq, hd]
            rw [hq, ih rest' (by omega) hrest' (i + 2)]
            cases pointy Dev.spec false rest' with
            | none => simp [consRaw]
            | some p => simp [consRaw]; omega
          · have hd' : isPunct d = false := by simpa using hd
            simp only [hd', Bool.false_eq_true, if_false]
            rw [pointy_esc_nonpunct d rest' hd', ih (d :: rest') (by simp only [List.length_cons]; omega) hrest (i + 1)]
            cases pointy Dev.spec false (d :: rest') with
            | none => simp [consRaw]
            | some p => simp [consRaw]; omega
      · have h92' : (c == 92) = false := by simpa using h92
        simp only [h92', Bool.false_eq_true, if_false]
        by_cases h62 : c = 62
        · subst h62; simp [pointy]
        · have h62' : (c == 62) = false := by simpa using h62
          simp only [h62', Bool.false_eq_true, if_false]
          by_cases h60 : c = 60
          · subst h60; simp [pointy, Dev.spec]
          · have h60' : (c == 60) = false := by simpa using h60
            have h10' : (c == 10) = false := by simpa using hc10
            simp only [h60', Bool.false_eq_true, if_false]
            have hp : pointy Dev.spec false (c :: rest) = consRaw c (pointy Dev.spec false rest) := by
              simp [pointy, h62', h60', h10', h92']
            rw [hp, ih rest (by omega) hrest (i + 1)]
            cases pointy Dev.spec false rest with
            | none => simp [consRaw]
            | some p => simp [consRaw]; omega

/-- **the model's `<…>` destination is the reference's**: on a line without line ending inside, `l` = the bytes after the
    `<`: the raw destination `line[1:i]` and the rest behind the `>` that `parseLinkDestination` computes from `destAngle`
    are exactly what `GM.Spec.CMLink.pointy` (the specification, `Dev.spec`) returns; in particular one rejects iff the other does -/
theorem model_pointy_destination_agrees (l : Bytes) (hnl : ∀ c ∈ l, c ≠ 10) :
    (destAngle l 1).map (fun i => (l.take (i - 1), l.drop i)) = pointy Dev.spec false l := by
  rw [destAngle_eq_pointy l.length l (Nat.le_refl _) hnl 1]
  cases hp : pointy Dev.spec false l with
  | none => rfl
  | some p =>
    obtain ⟨raw, rest⟩ := p
    obtain ⟨hs, _⟩ := GM.Proof.CMLink.pointy_sound l false raw rest hp
    simp only [Option.map_some, Option.some.injEq, Prod.mk.injEq]
    have h1 : 1 + raw.length - 1 = raw.length := by omega
    rw [h1]
    constructor
    · rw [hs]; simp
    · rw [hs]
      have : 1 + raw.length = raw.length + 1 := by omega
      rw [this, List.drop_append]
      simp

/-! ### the form without brackets -/

/-- what `parseLinkDestination` makes of the index and the depth (before the `len != 0` test): `none` = rejected -/
def plainResult (l : Bytes) (i : Nat) (o : Int) : Option (Bytes × Bytes) :=
  if destOpened l o > 0 then none
  else some (l.take (destPlain l i o - i), l.drop (destPlain l i o - i))

theorem bare_esc_nonpunct (n : Nat) (d : UInt8) (t : Bytes) (h : isPunct d = false) :
    bare Dev.spec n true (d :: t) = bare Dev.spec n false (d :: t) := by
  simp only [bare, punct_eq, h, Bool.and_false, Bool.false_eq_true, if_false, Bool.false_and]

theorem consRaw_plain (c : UInt8) (t : Bytes) (i k : Nat) (o : Int) (hk : i + 1 ≤ k) :
    consRaw c (if o > 0 then none else some (t.take (k - (i + 1)), t.drop (k - (i + 1)))) =
      (if o > 0 then none else some ((c :: t).take (k - i), (c :: t).drop (k - i))) := by
  have : k - i = (k - (i + 1)) + 1 := by omega
  split
  · rfl
  · rw [this]; rfl

/-- only space and line feed among the white-space and control characters (tab, CR, the other control characters: outside the
    comparison — finding `link-destination-control-char-differs` stays recorded) -/
def Clean (l : Bytes) : Prop := ∀ c ∈ l, isControl c = true → c = 10

theorem destPlain_eq_bare : ∀ (n : Nat) (l : Bytes), l.length ≤ n → Clean l → ∀ (i d : Nat),
    bare Dev.spec d false l = plainResult l i (d : Int) := by
  intro n
  induction n with
  | zero =>
    intro l hl _ i d
    cases l with
    | nil =>
      simp only [bare, plainResult, destOpened, destPlain, Dev.spec, Bool.or_false]
      by_cases hd : d = 0
      · subst hd; simp
      · have : (d : Int) > 0 := by omega
        simp [hd, this]
    | cons a t => simp at hl
  | succ n ih =>
    intro l hl hcl i d
    cases l with
    | nil =>
      simp only [bare, plainResult, destOpened, destPlain, Dev.spec, Bool.or_false]
      by_cases hd : d = 0
      · subst hd; simp
      · have : (d : Int) > 0 := by omega
        simp [hd, this]
    | cons c rest =>
      have hcc := hcl c (by simp)
      have hrest : Clean rest := fun x hx => hcl x (by simp [hx])
      simp only [List.length_cons] at hl
      unfold plainResult
      rw [destPlain.eq_def, destOpened.eq_def]
      simp only
      by_cases h92 : c = 92
      · subst h92
        simp only [beq_self_eq_true, if_true]
        have hp : bare Dev.spec d false (92 :: rest) = consRaw 92 (bare Dev.spec d true rest) := by
          simp [bare, Dev.spec, isControl]
        rw [hp]
        cases rest with
        | nil =>
          simp only [bare, Dev.spec, Bool.or_false]
          by_cases hd : d = 0
          · subst hd; simp [consRaw]
          · have : (d : Int) > 0 := by omega
            simp [hd, this, consRaw]
        | cons e rest' =>
          simp only
          have hrest' : Clean rest' := fun x hx => hrest x (by simp [hx])
          simp only [List.length_cons] at hl
          by_cases he : isPunct e = true
          · simp only [he, if_true]
            have hq : bare Dev.spec d true (e :: rest') = consRaw e (bare Dev.spec d false rest') := by
              simp [bare, punct_eq, he]
            have hb := (GM.Proof.InlinesTotal.destPlain_bound _ rest' (Nat.le_refl _) (i + 2) (d : Int)).1
            rw [hq, ih rest' (by omega) hrest' (i + 2) d]
            unfold plainResult
            rw [consRaw_plain e rest' (i + 1) _ _ (by omega), consRaw_plain 92 (e :: rest') i _ _ (by omega)]
          · have he' : isPunct e = false := by simpa using he
            simp only [he', Bool.false_eq_true, if_false]
            have hb := (GM.Proof.InlinesTotal.destPlain_bound _ (e :: rest') (Nat.le_refl _) (i + 1) (d : Int)).1
            rw [bare_esc_nonpunct d e rest' he', ih (e :: rest') (by simp only [List.length_cons]; omega) hrest (i + 1) d]
            unfold plainResult
            rw [consRaw_plain 92 (e :: rest') i _ _ (by omega)]
      · have h92' : (c == 92) = false := by simpa using h92
        simp only [h92', Bool.false_eq_true, if_false]
        by_cases h40 : c = 40
        · subst h40
          simp only [beq_self_eq_true, if_true]
          have hp : bare Dev.spec d false (40 :: rest) = consRaw 40 (bare Dev.spec (d + 1) false rest) := by
            simp [bare, Dev.spec, isControl]
          have hb := (GM.Proof.InlinesTotal.destPlain_bound _ rest (Nat.le_refl _) (i + 1) ((d : Int) + 1)).1
          rw [hp, ih rest (by omega) hrest (i + 1) (d + 1)]
          unfold plainResult
          have hc : ((d + 1 : Nat) : Int) = (d : Int) + 1 := by push_cast; rfl
          rw [hc, consRaw_plain 40 rest i _ _ (by omega)]
        · have h40' : (c == 40) = false := by simpa using h40
          simp only [h40', Bool.false_eq_true, if_false]
          by_cases h41 : c = 41
          · subst h41
            simp only [beq_self_eq_true, if_true]
            by_cases hd : d = 0
            · subst hd
              have hp : bare Dev.spec 0 false (41 :: rest) = some ([], 41 :: rest) := by
                simp [bare, Dev.spec, isControl]
              rw [hp]
              simp
            · have hlt : ¬ ((d : Int) - 1 < 0) := by omega
              have hp : bare Dev.spec d false (41 :: rest) = consRaw 41 (bare Dev.spec (d - 1) false rest) := by
                simp [bare, Dev.spec, isControl, hd]
              have hb := (GM.Proof.InlinesTotal.destPlain_bound _ rest (Nat.le_refl _) (i + 1) ((d : Int) - 1)).1
              simp only [hlt, if_false]
              rw [hp, ih rest (by omega) hrest (i + 1) (d - 1)]
              unfold plainResult
              have hc : ((d - 1 : Nat) : Int) = (d : Int) - 1 := by omega
              rw [hc, consRaw_plain 41 rest i _ _ (by omega)]
          · have h41' : (c == 41) = false := by simpa using h41
            simp only [h41', Bool.false_eq_true, if_false]
            by_cases hsp : isSpace c = true
            · simp only [hsp, if_true]
              have hc : c = 32 ∨ c = 10 := by
                simp only [isSpace, Bool.or_eq_true, beq_iff_eq] at hsp
                rcases hsp with ((h | h) | h) | h
                · exact .inr (hcc (by subst h; decide))
                · exact .inr h
                · exact .inr (hcc (by subst h; decide))
                · exact .inl h
              have hp : bare Dev.spec d false (c :: rest) = (if d == 0 then some ([], c :: rest) else none) := by
                rcases hc with rfl | rfl <;> simp [bare, Dev.spec]
              rw [hp]
              by_cases hd : d = 0
              · subst hd; simp
              · have : (d : Int) > 0 := by omega
                simp [hd, this]
            · have hsp' : isSpace c = false := by simpa using hsp
              simp only [hsp', Bool.false_eq_true, if_false]
              have h32 : (c == 32) = false := by
                cases h : c == 32 with
                | false => rfl
                | true => simp only [beq_iff_eq] at h; subst h; simp [isSpace] at hsp'
              have h10 : (c == 10) = false := by
                cases h : c == 10 with
                | false => rfl
                | true => simp only [beq_iff_eq] at h; subst h; simp [isSpace] at hsp'
              have hctl : isControl c = false := by
                cases h : isControl c with
                | false => rfl
                | true => have := hcc h; subst this; simp at h10
              have hp : bare Dev.spec d false (c :: rest) = consRaw c (bare Dev.spec d false rest) := by
                simp [bare, Dev.spec, h32, h10, hctl, h40', h41', h92']
              have hb := (GM.Proof.InlinesTotal.destPlain_bound _ rest (Nat.le_refl _) (i + 1) (d : Int)).1
              rw [hp, ih rest (by omega) hrest (i + 1) d]
              unfold plainResult
              rw [consRaw_plain c rest i _ _ (by omega)]

/-- **the model's bracket-free destination is the reference's**: on a line whose only white-space / control characters are
    spaces and line feeds, the scan of `parseLinkDestination` (`destPlain` for the index, `destOpened` for the depth; rejected
    when a parenthesis is left open, repair ce3b6c4) yields exactly the raw destination and the rest that
    `GM.Spec.CMLink.bare` (the specification, `Dev.spec`) yields; one rejects iff the other does -/
theorem model_bare_destination_agrees (l : Bytes) (hcl : Clean l) :
    (if destOpened l 0 > 0 then none else some (l.take (destPlain l 0 0), l.drop (destPlain l 0 0))) =
      bare Dev.spec 0 false l := by
  have := destPlain_eq_bare l.length l (Nat.le_refl _) hcl 0 0
  rw [this]; rfl

end GM.Proof.LinkFix
