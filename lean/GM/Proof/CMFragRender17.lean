/-
  GM.Proof.CMFragRender17 — the renderer half of the conformance proof for stage 17 (images inside the text lines):
  * `renderDoc_imrich17`: the renderer model (XHTML, option Unsafe) on Document[Paragraph[imrich nodes]…] writes every
    paragraph as `<p>` + its lines (`imrichLineHtml`) joined by a line feed + `</p>` and never panics — for lines that
    end with a text atom and whose destinations are letters, digits and `/` (`LineShape17`; both follow from
    `ImRichLine`: `renderDoc_imrichLines17`); an image node writes `<img src="d" alt="t" />`, its children are not
    walked (the alternative text is collected by `altTexts`);
  * the bridge to the spec side: `imatomOfS`, `imrichLineHtml_imatomOfS17` (the prescribed HTML of a line),
    `imlineSrc_imatomOfS17` (the source of a line), `imrichLine_imatomOfS17` (`ImRichLine` from `imglineOKS`),
    `renderDoc_expectedImg17` (the whole prescribed HTML `expectedImg`).
-/
import GM.Proof.CMFrag17Defs
import GM.Proof.CMFragRender16
namespace GM.Proof.CMFrag
open GM GM.Spec.CM GM.Spec.CMFrag

/-! ### the renderer on the nodes of a line -/

structure LineShape17 (l : List ImAtom) : Prop where
  last : ∃ init bs, l = init ++ [.txt bs]
  dest : ∀ t d, ImAtom.img t d ∈ l → ∀ c ∈ d, isDestC16 c = true

theorem handled_img17 (e : Exts) (d : Bytes) (t : Option Bytes) : handled e (.image d t) = true := rfl

theorem renderNode_img17 (rc : RCfg) (hes : rc.core.escSpace = false) (hu : rc.core.unsafe_ = true)
    (hx : rc.core.xhtml = true) (ph : Bool) (next : Option Node) (t d : Bytes)
    (hd : ∀ c ∈ d, isDestC16 c = true) :
    renderNode rc ph next (.mk (.image d none) none [.mk (.text t false false false false) none []]) =
      strBytes "<img src=\"" ++ d ++ strBytes "\" alt=\"" ++ GM.write false t ++ strBytes "\" />" := by
  rw [renderNode]
  have h2 : strBytes "\" />" = [34] ++ strBytes " />" := by decide +kernel
  simp [enter, leave, handled_img17, skipsChildren, renderAttrs, altTexts, altText, hes, hu, hx,
    urlOut_dest16 d hd, h2]

theorem imatomNodes_txt_cons17 (soft : Bool) (b : Bytes) (rest : List ImAtom) (h : rest ≠ []) :
    imatomNodes soft (.txt b :: rest) = .mk (.text b false false false false) none [] :: imatomNodes soft rest := by
  cases rest with
  | nil => exact absurd rfl h
  | cons a rest => rfl

/-- the nodes of one line, followed by any other nodes -/
theorem renderNodes_imatoms17 (rc : RCfg) (hes : rc.core.escSpace = false) (hhw : rc.core.hardWraps = false)
    (hea : rc.core.ea = 0) (hu : rc.core.unsafe_ = true) (hx : rc.core.xhtml = true) (ph soft : Bool) (init : List ImAtom) (bs : Bytes)
    (tail : List Node) (hc : ∀ t d, ImAtom.img t d ∈ init → ∀ c ∈ d, isDestC16 c = true) :
    renderNodes rc ph (imatomNodes soft (init ++ [.txt bs]) ++ tail) =
      imrichLineHtml (init ++ [.txt bs]) ++ (if soft then [10] else []) ++ renderNodes rc ph tail := by
  induction init with
  | nil =>
    simp only [List.nil_append, imatomNodes, List.cons_append, renderNodes, renderNode_text rc hes hhw hea,
      imrichLineHtml, List.flatMap_cons, List.flatMap_nil, imatomHtml, List.append_nil]
  | cons a init ih =>
    have ih' := ih (fun t d hb => hc t d (by simp [hb]))
    cases a with
    | txt b =>
      rw [List.cons_append, imatomNodes_txt_cons17 soft b _ (by simp), List.cons_append, renderNodes,
        renderNode_text rc hes hhw hea, ih']
      simp [imrichLineHtml, imatomHtml]
    | img t d =>
      rw [List.cons_append, imatomNodes, List.cons_append, renderNodes,
        renderNode_img17 rc hes hu hx _ _ t d (hc t d (by simp)), ih']
      simp [imrichLineHtml, imatomHtml]

theorem renderNodes_imrich17 (rc : RCfg) (hes : rc.core.escSpace = false) (hhw : rc.core.hardWraps = false)
    (hea : rc.core.ea = 0) (hu : rc.core.unsafe_ = true) (hx : rc.core.xhtml = true) (ph : Bool) (ls : List (List ImAtom))
    (hl : ∀ l ∈ ls, LineShape17 l) :
    renderNodes rc ph (imrichNodes ls) = GM.Proof.CMFrag.joinNl (ls.map imrichLineHtml) := by
  induction ls with
  | nil => simp [imrichNodes, renderNodes, GM.Proof.CMFrag.joinNl]
  | cons l rest ih =>
    obtain ⟨⟨init, bs, rfl⟩, hc⟩ := hl l (by simp)
    have hc' : ∀ t d, ImAtom.img t d ∈ init → ∀ c ∈ d, isDestC16 c = true := fun t d hb => hc t d (by simp [hb])
    cases rest with
    | nil =>
      have := renderNodes_imatoms17 rc hes hhw hea hu hx ph false init bs [] hc'
      simp only [List.append_nil] at this
      simp [imrichNodes, GM.Proof.CMFrag.joinNl, this, renderNodes]
    | cons l' rest =>
      rw [imrichNodes, renderNodes_imatoms17 rc hes hhw hea hu hx ph true init bs _ hc',
        ih (fun x hx => hl x (by simp [hx]))]
      simp [GM.Proof.CMFrag.joinNl]

/-- a paragraph of rich lines as the renderer reads it -/
def imrichPara17 (ls : List (List ImAtom)) : GM.Node := .mk .paragraph none (imrichNodes ls)

def imrichParaHtml17 (ls : List (List ImAtom)) : Bytes :=
  strBytes "<p>" ++ GM.Proof.CMFrag.joinNl (ls.map imrichLineHtml) ++ strBytes "</p>\n"

theorem renderNode_imrichPara17 (rc : RCfg) (hes : rc.core.escSpace = false) (hhw : rc.core.hardWraps = false)
    (hea : rc.core.ea = 0) (hu : rc.core.unsafe_ = true) (hx : rc.core.xhtml = true) (ph : Bool) (next : Option Node) (ls : List (List ImAtom))
    (hl : ∀ l ∈ ls, LineShape17 l) :
    renderNode rc ph next (imrichPara17 ls) = imrichParaHtml17 ls := by
  rw [imrichPara17, renderNode]
  simp only [enter, leave, handled_para, skipsChildren, openTag, Kind.isTableHeader,
    renderNodes_imrich17 rc hes hhw hea hu hx _ ls hl, imrichParaHtml17]
  have h1 : strBytes "<p>" = [60] ++ strBytes "p" ++ [62] := by decide +kernel
  rw [h1]; simp

theorem renderNodes_imrichParas17 (rc : RCfg) (hes : rc.core.escSpace = false) (hhw : rc.core.hardWraps = false)
    (hea : rc.core.ea = 0) (hu : rc.core.unsafe_ = true) (hx : rc.core.xhtml = true) (ph : Bool) (ps : List (List (List ImAtom)))
    (hl : ∀ ls ∈ ps, ∀ l ∈ ls, LineShape17 l) :
    renderNodes rc ph (ps.map imrichPara17) = ps.flatMap imrichParaHtml17 := by
  induction ps with
  | nil => simp [renderNodes]
  | cons p rest ih =>
    rw [List.map_cons, renderNodes, renderNode_imrichPara17 rc hes hhw hea hu hx _ _ p (hl p (by simp)),
      ih (fun x hx => hl x (by simp [hx]))]
    simp

/-! ### no panic -/

theorem renderPanicsNodes_imatoms17 (rc : RCfg) (soft : Bool) (l : List ImAtom) (tail : List Node)
    (ht : renderPanicsNodes rc tail = none) :
    renderPanicsNodes rc (imatomNodes soft l ++ tail) = none := by
  induction l with
  | nil => simpa [imatomNodes] using ht
  | cons a rest ih =>
    cases a with
    | txt b =>
      cases rest with
      | nil => simp [imatomNodes, renderPanicsNodes, renderPanicsNode, nodePanic, ht]
      | cons a' rest' =>
        rw [imatomNodes_txt_cons17 soft b _ (by simp), List.cons_append, renderPanicsNodes, ih]
        simp [renderPanicsNode, nodePanic, renderPanicsNodes]
    | img t d =>
      rw [imatomNodes, List.cons_append, renderPanicsNodes, ih]
      simp [renderPanicsNode, nodePanic, handled_img17, skipsChildren, renderPanicsNodes]

theorem renderPanicsNodes_imrich17 (rc : RCfg) (ls : List (List ImAtom)) :
    renderPanicsNodes rc (imrichNodes ls) = none := by
  induction ls with
  | nil => simp [imrichNodes, renderPanicsNodes]
  | cons l rest ih =>
    cases rest with
    | nil =>
      have := renderPanicsNodes_imatoms17 rc false l [] (by simp [renderPanicsNodes])
      simpa [imrichNodes] using this
    | cons l' rest =>
      rw [imrichNodes]
      exact renderPanicsNodes_imatoms17 rc true l _ ih

theorem renderPanicsNodes_imrichParas17 (rc : RCfg) (ps : List (List (List ImAtom))) :
    renderPanicsNodes rc (ps.map imrichPara17) = none := by
  induction ps with
  | nil => simp [renderPanicsNodes]
  | cons p rest ih =>
    rw [List.map_cons, renderPanicsNodes, ih]
    simp [imrichPara17, renderPanicsNode, nodePanic, renderPanicsNodes_imrich17]

/-! ### the document -/

theorem rcfg_xhtml17 (o : GM.Convert.ROpts) : o.rcfg.core.xhtml = o.xhtml := by
  cases o with | mk u x h => cases x <;> rfl

theorem renderDoc_imrich17_any (o : GM.Convert.ROpts) (ho : o.hardWraps = false) (hu : o.unsafe_ = true) (hxo : o.xhtml = true)
    (ps : List (List (List ImAtom))) (hl : ∀ ls ∈ ps, ∀ l ∈ ls, LineShape17 l) :
    GM.Convert.renderDoc o (.mk .document none (ps.map fun ls => .mk .paragraph none (imrichNodes ls))) =
      .ok (ps.flatMap fun ls =>
        strBytes "<p>" ++ GM.Proof.CMFrag.joinNl (ls.map imrichLineHtml) ++ strBytes "</p>\n") := by
  have hp : renderPanics o.rcfg (.mk .document none (ps.map imrichPara17)) = none := by
    simp [renderPanics, renderPanicsNode, nodePanic, renderPanicsNodes_imrichParas17]
  have hr : render o.rcfg (.mk .document none (ps.map imrichPara17)) = ps.flatMap imrichParaHtml17 := by
    rw [render, renderNode]
    simp [enter, leave, handled_doc, skipsChildren, Kind.isTableHeader,
      renderNodes_imrichParas17 o.rcfg (rcfg_escSpace o) (by rw [rcfg_hardWraps, ho]) (rcfg_ea o)
        (by rw [rcfg_unsafe16, hu]) (by rw [rcfg_xhtml17, hxo]) _ ps hl]
  have e1 : (ps.map fun ls => GM.Node.mk .paragraph none (imrichNodes ls)) = ps.map imrichPara17 := rfl
  rw [e1, GM.Convert.renderDoc, hp, hr]
  rfl

/-- the renderer on a document of paragraphs of rich lines with images -/
theorem renderDoc_imrich17 (ps : List (List (List ImAtom))) (hl : ∀ ls ∈ ps, ∀ l ∈ ls, LineShape17 l) :
    GM.Convert.renderDoc cmOpts (.mk .document none (ps.map fun ls => .mk .paragraph none (imrichNodes ls))) =
      .ok (ps.flatMap fun ls =>
        strBytes "<p>" ++ GM.Proof.CMFrag.joinNl (ls.map imrichLineHtml) ++ strBytes "</p>\n") :=
  renderDoc_imrich17_any cmOpts rfl rfl rfl ps hl

theorem lineShape_of_imrichLine17 (l : List ImAtom) (h : ImRichLine l) : LineShape17 l := by
  obtain ⟨init, bs, hl, _⟩ := h.last
  exact ⟨⟨init, bs, hl⟩, fun t d hb => (h.ok _ hb).2.2⟩

theorem renderDoc_imrichLines17 (ps : List (List (List ImAtom))) (hl : ∀ ls ∈ ps, ∀ l ∈ ls, ImRichLine l) :
    GM.Convert.renderDoc cmOpts (.mk .document none (ps.map fun ls => .mk .paragraph none (imrichNodes ls))) =
      .ok (ps.flatMap fun ls =>
        strBytes "<p>" ++ GM.Proof.CMFrag.joinNl (ls.map imrichLineHtml) ++ strBytes "</p>\n") :=
  renderDoc_imrich17 ps (fun ls hls l hlm => lineShape_of_imrichLine17 l (hl ls hls l hlm))

/-! ### the bridge to the spec side -/

/-- a spec-side atom as source bytes -/
def imatomOfS : ImgAtomS → ImAtom
  | .txt cs => .txt (escSpell cs)
  | .img t d => .img t d

theorem imatomSrc_imatomOfS17 (a : ImgAtomS) : imatomSrc (imatomOfS a) = spellImgAtom a := by
  cases a <;> rfl

theorem imlineSrc_imatomOfS17 (l : ImgLine) : imlineSrc (l.map imatomOfS) = spellImgLine l := by
  simp only [imlineSrc, spellImgLine, List.flatMap_map]
  congr 1; funext a; exact imatomSrc_imatomOfS17 a

/-- what `imgatomOKS` says, atom kind by atom kind -/
theorem imgatomOKS_txt17 (cs : List TChar) (h : imgatomOKS (.txt cs) = true) : cs ≠ [] ∧ ∀ t ∈ cs, charOK t = true := by
  simp only [imgatomOKS, Bool.and_eq_true, Bool.not_eq_true', List.isEmpty_eq_false_iff, List.all_eq_true] at h
  exact h

theorem imgatomOKS_img17 (t d : Bytes) (h : imgatomOKS (.img t d) = true) :
    (t ≠ [] ∧ ∀ c ∈ t, isAlnumC c = true) ∧ (d ≠ [] ∧ ∀ c ∈ d, isDestC16 c = true) := by
  simp only [imgatomOKS, Bool.and_eq_true, Bool.not_eq_true', List.isEmpty_eq_false_iff, List.all_eq_true] at h
  exact ⟨⟨h.1.1.1, h.1.1.2⟩, ⟨h.1.2, h.2⟩⟩

theorem imatomHtml_imatomOfS17 (a : ImgAtomS) (h : imgatomOKS a = true) : imatomHtml (imatomOfS a) = expImgAtom a := by
  cases a with
  | txt cs =>
    exact write_spelled cs (fun t ht => charOK_printable t ((imgatomOKS_txt17 cs h).2 t ht))
  | img t d =>
    have ht := (imgatomOKS_img17 t d h).1.2
    simp only [imatomOfS, imatomHtml, expImgAtom, write_alnum11 t ht, escHtml_alnum16 t ht]

theorem imrichLineHtml_imatomOfS17 (l : ImgLine) (h : ∀ a ∈ l, imgatomOKS a = true) :
    imrichLineHtml (l.map imatomOfS) = expImgLine l := by
  simp only [imrichLineHtml, expImgLine, List.flatMap_map]
  induction l with
  | nil => rfl
  | cons a rest ih =>
    simp only [List.flatMap_cons]
    rw [imatomHtml_imatomOfS17 a (h a (by simp)), ih (fun x hx => h x (by simp [hx]))]

theorem imatomOK_imatomOfS17 (a : ImgAtomS) (h : imgatomOKS a = true) : ImAtomOK (imatomOfS a) := by
  cases a with
  | txt cs =>
    obtain ⟨hne, hall⟩ := imgatomOKS_txt17 cs h
    exact ⟨escSpell_ne_nil8 cs hne, fun i => quiet_escSpell cs hall i, escAfter_escSpell8 cs⟩
  | img t d => exact imgatomOKS_img17 t d h

theorem isTxt_imatomOfS17 (a : ImgAtomS) : (imatomOfS a).isTxt = a.isTxt := by cases a <;> rfl

theorem imalternating_imatomOfS17 (l : ImgLine) : imalternating (l.map imatomOfS) = imgalternatingS l := by
  induction l with
  | nil => rfl
  | cons a rest ih =>
    cases rest with
    | nil => rfl
    | cons b rest =>
      simp only [List.map_cons, imalternating, imgalternatingS, isTxt_imatomOfS17] at ih ⊢
      rw [ih]

theorem imrichLine_imatomOfS17 (l : ImgLine) (h : imglineOKS l = true) : ImRichLine (l.map imatomOfS) := by
  simp only [imglineOKS, Bool.and_eq_true, List.all_eq_true] at h
  obtain ⟨⟨⟨halt, hfirst⟩, hlast⟩, hok⟩ := h
  refine ⟨by rw [imalternating_imatomOfS17]; exact halt, ?_, ?_, ?_⟩
  · -- first
    unfold imgfirstOKS at hfirst
    split at hfirst
    · rename_i t ts rest
      obtain ⟨tc, te⟩ := t
      obtain ⟨sp, lt⟩ := spell_first tc te hfirst
      refine ⟨escSpell (⟨tc, te⟩ :: ts), rest.map imatomOfS, rfl, ?_⟩
      intro c hc
      simp only [escSpell, List.flatMap_cons, sp, List.cons_append, List.nil_append, List.head?_cons,
        Option.some.injEq] at hc
      subst hc; exact lt
    · cases hfirst
  · -- last
    unfold imglastOKS at hlast
    split at hlast
    · rename_i cs hl
      split at hlast
      · rename_i z hz
        obtain ⟨zc, ze⟩ := z
        obtain ⟨sp, nsp, nbs⟩ := spell_last zc ze hlast
        obtain ⟨init, hinit⟩ := List.getLast?_eq_some_iff.mp hl
        obtain ⟨cinit, hcs⟩ := List.getLast?_eq_some_iff.mp hz
        refine ⟨init.map imatomOfS, escSpell cs, by rw [hinit]; simp [imatomOfS], ?_⟩
        intro c hc
        have e : escSpell cs = escSpell cinit ++ [zc] := by rw [hcs]; simp [escSpell, sp]
        rw [e] at hc
        simp at hc
        subst hc; exact ⟨nsp, nbs⟩
      · cases hlast
    · cases hlast
  · intro a ha
    obtain ⟨r, hr, rfl⟩ := List.mem_map.mp ha
    exact imatomOK_imatomOfS17 r (hok r hr)

/-! #### the prescribed HTML of a whole document -/

theorem imglineOKS_atoms17 (l : ImgLine) (h : imglineOKS l = true) : ∀ a ∈ l, imgatomOKS a = true := by
  simp only [imglineOKS, Bool.and_eq_true, List.all_eq_true] at h
  exact h.2

theorem imgitemOKS_lines17 (it : ImgItem) (h : imgitemOKS it = true) :
    it.lines ≠ [] ∧ ∀ l ∈ it.lines, imglineOKS l = true := by
  simp only [imgitemOKS, Bool.and_eq_true, Bool.not_eq_true', List.isEmpty_eq_false_iff, List.all_eq_true] at h
  exact h

/-- the paragraphs of a stage-17 document as lists of proof-side atoms -/
def atomsOfImg (d : ImgDoc) : List (List (List ImAtom)) := d.items.map fun it => it.lines.map (·.map imatomOfS)

theorem docHtml_imatomOfS17 (d : ImgDoc) (h : ImgFrag d) :
    ((atomsOfImg d).flatMap fun ls =>
      strBytes "<p>" ++ GM.Proof.CMFrag.joinNl (ls.map imrichLineHtml) ++ strBytes "</p>\n") = expectedImg d := by
  simp only [ImgFrag, imgfragB, List.all_eq_true] at h
  simp only [atomsOfImg, expectedImg, List.flatMap_map]
  apply flatMap_congr8
  intro it hit
  have hls := (imgitemOKS_lines17 it (h it hit)).2
  have : (it.lines.map (·.map imatomOfS)).map imrichLineHtml = it.lines.map expImgLine := by
    rw [List.map_map]
    apply List.map_congr_left
    intro l hl
    exact imrichLineHtml_imatomOfS17 l (imglineOKS_atoms17 l (hls l hl))
  rw [this, joinNl_eq, expImgItem]

theorem imrichLines_atomsOfImg17 (d : ImgDoc) (h : ImgFrag d) : ∀ ls ∈ atomsOfImg d, ∀ l ∈ ls, ImRichLine l := by
  simp only [ImgFrag, imgfragB, List.all_eq_true] at h
  intro ls hls l hl
  simp only [atomsOfImg, List.mem_map] at hls
  obtain ⟨it, hit, rfl⟩ := hls
  obtain ⟨r, hr, rfl⟩ := List.mem_map.mp hl
  exact imrichLine_imatomOfS17 r ((imgitemOKS_lines17 it (h it hit)).2 r hr)

/-- the renderer on the nodes of a stage-17 document writes the prescribed HTML -/
theorem renderDoc_expectedImg17 (d : ImgDoc) (h : ImgFrag d) :
    GM.Convert.renderDoc cmOpts
        (.mk .document none ((atomsOfImg d).map fun ls => .mk .paragraph none (imrichNodes ls))) =
      .ok (expectedImg d) := by
  rw [renderDoc_imrichLines17 _ (imrichLines_atomsOfImg17 d h), docHtml_imatomOfS17 d h]

end GM.Proof.CMFrag
