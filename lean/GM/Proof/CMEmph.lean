/-
  GM.Proof.CMEmph — lemmas about the spec-side emphasis reference GM.Spec.CMEmph (delimiter stack).
-/
import GM.Spec.CMEmph
namespace GM.Proof.CMEmph
open GM GM.Spec.CMEmph

/-! ### lists of nodes -/

theorem respellL_append (a b : List Inl) : respellL (a ++ b) = respellL a ++ respellL b := by
  induction a with
  | nil => simp [respellL]
  | cons n ns ih => simp [respellL, ih]

theorem allEmphL_append (p) (a b : List Inl) : allEmphL p (a ++ b) = (allEmphL p a && allEmphL p b) := by
  induction a with
  | nil => simp [allEmphL]
  | cons n ns ih => simp [allEmphL, ih, Bool.and_assoc]

theorem respell_delimText (ch : UInt8) (n : Nat) : respell (delimText ch n) = List.replicate n ch := by
  simp [delimText, respell]

theorem allEmph_delimText (p) (ch : UInt8) (n : Nat) : allEmph p (delimText ch n) = true := by
  simp [delimText, allEmph]

theorem push_flatten (st : Stack) (n : Inl) : (st.push n).flatten = st.flatten ++ [n] := by
  unfold Stack.push Stack.flatten
  split
  · next h => simp [h, flattenEnts]
  · next e es h => simp [h, flattenEnts]

/-! ### findOpener -/

theorem findOpener_spec (c : Run) : ∀ (ents : List Ent) (inner : List Inl) (e : Ent) (below : List Ent) (kids : List Inl),
    findOpener c ents inner = some (e, below, kids) →
      flattenEnts ents ++ inner = flattenEnts below ++ delimText e.d.r.ch e.d.cur :: kids
      ∧ matchesRun e.d.r c = true ∧ e ∈ ents ∧ (∀ x ∈ below, x ∈ ents) := by
  intro ents
  induction ents with
  | nil => intro inner e below kids h; simp [findOpener] at h
  | cons x xs ih =>
    intro inner e below kids h
    unfold findOpener at h
    split at h
    · next hm =>
      simp only [Option.some.injEq, Prod.mk.injEq] at h
      obtain ⟨rfl, rfl, rfl⟩ := h
      refine ⟨by simp [flattenEnts], hm, by simp, ?_⟩
      intro y hy; simp [hy]
    · next hm =>
      obtain ⟨h1, h2, h3, h4⟩ := ih _ e below kids h
      refine ⟨?_, h2, by simp [h3], ?_⟩
      · rw [← h1]; simp [flattenEnts]
      · intro y hy; simp [h4 y hy]

/-! ### the invariant: every stack entry still has characters left -/

def entsPos (ents : List Ent) : Prop := ∀ e ∈ ents, 1 ≤ e.d.cur

theorem replicate_split (ch : UInt8) (cur use : Nat) (h : use ≤ cur) :
    List.replicate (cur - use) ch ++ List.replicate use ch = List.replicate cur ch := by
  rw [List.replicate_append_replicate]; congr 1; omega

theorem applyMatch_respell (bot : List Inl) (e : Ent) (below : List Ent) (kids : List Inl) (use : Nat) (ch : UInt8) (ci : Nat)
    (hu : use = 1 ∨ use = 2) (hle : use ≤ e.d.cur) (hch : e.d.r.ch = ch) :
    respellL (applyMatch bot e below kids use ch ci).flatten
      = respellL (bot ++ flattenEnts below) ++ (List.replicate e.d.cur ch ++ respellL kids ++ List.replicate use ch) := by
  have hs : (if (use == 2) = true then 2 else 1) = use := by
    rcases hu with rfl | rfl <;> simp
  have hs' : (if use = 2 then 2 else 1) = use := by
    rcases hu with rfl | rfl <;> simp
  unfold applyMatch
  split
  · next hc =>
    have : e.d.cur = use := by omega
    rw [push_flatten, respellL_append]
    simp [Stack.flatten, respellL, respell, hs', this]
  · next hc =>
    simp only [Stack.flatten, flattenEnts, respellL_append, respellL, respell, delimText, hs, hch]
    rw [← replicate_split ch e.d.cur use hle]
    simp only [List.append_assoc, List.append_nil]

theorem applyMatch_pos (bot : List Inl) (e : Ent) (below : List Ent) (kids : List Inl) (use : Nat) (ch : UInt8) (ci : Nat)
    (hb : entsPos below) : entsPos (applyMatch bot e below kids use ch ci).ents := by
  unfold applyMatch
  split
  · unfold Stack.push
    split
    · next h => simpa [h] using hb
    · next x xs h =>
      simp only at h
      intro y hy
      simp only [List.mem_cons] at hy
      rcases hy with rfl | hy
      · exact hb x (by simp [h])
      · exact hb y (by simp [h, hy])
  · next hc =>
    intro y hy
    simp only [List.mem_cons] at hy
    rcases hy with rfl | hy
    · simp; omega
    · exact hb y hy

/-- the closer's characters that were used are exactly the ones spelled by the new nodes -/
theorem closeLoop_respell (c : Run) (ci : Nat) : ∀ (cur : Nat) (st : Stack), entsPos st.ents →
    respellL (closeLoop c ci cur st).1.flatten ++ List.replicate (closeLoop c ci cur st).2 c.ch
      = respellL st.flatten ++ List.replicate cur c.ch
    ∧ entsPos (closeLoop c ci cur st).1.ents := by
  intro cur st
  fun_induction closeLoop c ci cur st with
  | case1 st => intro h; exact ⟨rfl, h⟩
  | case2 st hf => intro h; exact ⟨rfl, h⟩
  | case3 st e below kids hf =>
    intro h
    obtain ⟨h1, h2, h3, h4⟩ := findOpener_spec c _ _ _ _ _ hf
    have hm := h2
    simp only [matchesRun, Bool.and_eq_true, beq_iff_eq] at hm
    have hpos := h e h3
    refine ⟨?_, applyMatch_pos _ _ _ _ _ _ _ (fun x hx => h x (h4 x hx))⟩
    rw [applyMatch_respell _ _ _ _ _ _ _ (Or.inl rfl) hpos hm.1.2]
    simp only [List.append_nil] at h1
    simp only [Stack.flatten, h1, respellL_append, respellL, respell_delimText, hm.1.2]
    simp [List.append_assoc]
  | case4 cur st hf => intro h; exact ⟨rfl, h⟩
  | case5 cur st e below kids hf h2le ih =>
    intro h
    obtain ⟨h1, h2, h3, h4⟩ := findOpener_spec c _ _ _ _ _ hf
    have hm := h2
    simp only [matchesRun, Bool.and_eq_true, beq_iff_eq] at hm
    obtain ⟨ih1, ih2⟩ := ih (applyMatch_pos _ _ _ _ _ _ _ (fun x hx => h x (h4 x hx)))
    refine ⟨?_, ih2⟩
    rw [ih1, applyMatch_respell _ _ _ _ _ _ _ (Or.inr rfl) h2le hm.1.2]
    simp only [List.append_nil] at h1
    simp only [Stack.flatten, h1, respellL_append, respellL, respell_delimText, hm.1.2]
    have : List.replicate (cur + 2) c.ch = List.replicate 2 c.ch ++ List.replicate cur c.ch := by
      rw [List.replicate_append_replicate]; congr 1; omega
    rw [this]; simp [List.append_assoc]
  | case6 cur st e below kids hf h2le ih =>
    intro h
    obtain ⟨h1, h2, h3, h4⟩ := findOpener_spec c _ _ _ _ _ hf
    have hm := h2
    simp only [matchesRun, Bool.and_eq_true, beq_iff_eq] at hm
    have hpos := h e h3
    obtain ⟨ih1, ih2⟩ := ih (applyMatch_pos _ _ _ _ _ _ _ (fun x hx => h x (h4 x hx)))
    refine ⟨?_, ih2⟩
    rw [ih1, applyMatch_respell _ _ _ _ _ _ _ (Or.inl rfl) hpos hm.1.2]
    simp only [List.append_nil] at h1
    simp only [Stack.flatten, h1, respellL_append, respellL, respell_delimText, hm.1.2]
    have : List.replicate (cur + 2) c.ch = List.replicate 1 c.ch ++ List.replicate (cur + 1) c.ch := by
      rw [List.replicate_append_replicate]; congr 1; omega
    rw [this]; simp [List.append_assoc]

theorem push_pos (st : Stack) (n : Inl) (h : entsPos st.ents) : entsPos (st.push n).ents := by
  unfold Stack.push
  split
  · next hh => simpa [hh] using h
  · next x xs hh =>
    intro y hy
    simp only [List.mem_cons] at hy
    rcases hy with rfl | hy
    · exact h x (by simp [hh])
    · exact h y (by simp [hh, hy])

theorem step_respell (i : Nat) (t : Tok) (st : Stack) (h : entsPos st.ents) :
    respellL (step i t st).flatten = respellL st.flatten ++ tokChars [t] ∧ entsPos (step i t st).ents := by
  cases t with
  | chr b => simp [step, push_flatten, respellL_append, respellL, respell, tokChars, push_pos _ _ h]
  | soft => simp [step, push_flatten, respellL_append, respellL, respell, tokChars, push_pos _ _ h]
  | hard => simp [step, push_flatten, respellL_append, respellL, respell, tokChars, push_pos _ _ h]
  | code b => simp [step, push_flatten, respellL_append, respellL, respell, tokChars, push_pos _ _ h]
  | run r =>
    have hp : ∀ p : Stack × Nat, p = (if r.canClose then closeLoop r i r.len st else (st, r.len)) →
        respellL p.1.flatten ++ List.replicate p.2 r.ch = respellL st.flatten ++ List.replicate r.len r.ch
        ∧ entsPos p.1.ents := by
      intro p hp
      by_cases hc : r.canClose = true
      · simp only [hc, if_true] at hp; subst hp; exact closeLoop_respell r i r.len st h
      · simp only [hc] at hp; subst hp; exact ⟨rfl, h⟩
    obtain ⟨h1, h2⟩ := hp _ rfl
    simp only [step, tokChars, List.append_nil]
    generalize (if r.canClose then closeLoop r i r.len st else (st, r.len)) = p at h1 h2
    obtain ⟨st', left⟩ := p
    simp only at h1 h2 ⊢
    by_cases hl : left = 0
    · subst hl; simp at h1; simp [h1, h2]
    · by_cases ho : r.canOpen = true
      · simp only [hl, beq_iff_eq, if_false, ho, if_true]
        refine ⟨?_, ?_⟩
        · rw [← h1]; simp [Stack.flatten, flattenEnts, respellL_append, respellL, respell_delimText]
        · intro y hy
          simp only [List.mem_cons] at hy
          rcases hy with rfl | hy
          · simp; omega
          · exact h2 y hy
      · have ho' : r.canOpen = false := by simpa using ho
        simp only [hl, beq_iff_eq, if_false, ho', Bool.false_eq_true]
        refine ⟨?_, push_pos _ _ h2⟩
        rw [push_flatten, respellL_append, ← h1]; simp [respellL, respell_delimText]

theorem parseGo_respell : ∀ (toks : List Tok) (i : Nat) (st : Stack), entsPos st.ents →
    respellL (parseGo i toks st).flatten = respellL st.flatten ++ tokChars toks := by
  intro toks
  induction toks with
  | nil => intro i st _; simp [parseGo, tokChars]
  | cons t ts ih =>
    intro i st h
    obtain ⟨h1, h2⟩ := step_respell i t st h
    rw [parseGo, ih _ _ h2, h1]
    cases t <;> simp [tokChars, List.append_assoc]

theorem parse_respell (toks : List Tok) : respellL (parse toks) = tokChars toks := by
  unfold parse
  rw [parseGo_respell toks 0 ⟨[], []⟩ (by intro e he; simp at he)]
  simp [Stack.flatten, flattenEnts, respellL]

/-! ### soundness: every node comes from an opener that can open and a closer that can close -/

/-- every stack entry is the run at its token index, and that index is before position `i` -/
def entsSound (toks : List Tok) (i : Nat) (ents : List Ent) : Prop :=
  ∀ e ∈ ents, toks[e.d.idx]? = some (.run e.d.r) ∧ e.d.idx < i

theorem allEmphL_flattenEnts_cons (p) (e : Ent) (es : List Ent) :
    allEmphL p (flattenEnts (e :: es)) = (allEmphL p (flattenEnts es) && allEmphL p e.after) := by
  simp [flattenEnts, allEmphL_append, allEmphL, allEmph_delimText]

theorem applyMatch_sound (p) (bot : List Inl) (e : Ent) (below : List Ent) (kids : List Inl) (use : Nat) (ch : UInt8) (ci : Nat)
    (hb : allEmphL p (bot ++ flattenEnts below) = true) (hk : allEmphL p kids = true)
    (hp : p (use == 2) ch e.d.idx ci = true) :
    allEmphL p (applyMatch bot e below kids use ch ci).flatten = true := by
  unfold applyMatch
  split
  · rw [push_flatten, allEmphL_append]
    simp [Stack.flatten, allEmphL, allEmph, hb, hk, hp]
  · simp only [Stack.flatten, allEmphL_append] at hb ⊢
    simp [flattenEnts, allEmphL_append, allEmphL, allEmph, allEmph_delimText, hb, hk, hp]

theorem applyMatch_entsSound (toks : List Tok) (i : Nat) (bot : List Inl) (e : Ent) (below : List Ent) (kids : List Inl)
    (use : Nat) (ch : UInt8) (ci : Nat) (he : toks[e.d.idx]? = some (.run e.d.r) ∧ e.d.idx < i) (hb : entsSound toks i below) :
    entsSound toks i (applyMatch bot e below kids use ch ci).ents := by
  unfold applyMatch
  split
  · unfold Stack.push
    split
    · next h => simpa [h] using hb
    · next x xs h =>
      simp only at h
      intro y hy
      simp only [List.mem_cons] at hy
      rcases hy with rfl | hy
      · exact hb x (by simp [h])
      · exact hb y (by simp [h, hy])
  · intro y hy
    simp only [List.mem_cons] at hy
    rcases hy with rfl | hy
    · exact he
    · exact hb y hy

/-- what one successful search gives: the pieces needed by `applyMatch_sound` / `applyMatch_entsSound` -/
theorem found_sound (toks : List Tok) (c : Run) (ci : Nat) (st : Stack) (e : Ent) (below : List Ent) (kids : List Inl)
    (hc : toks[ci]? = some (.run c)) (hs : entsSound toks ci st.ents) (ha : allEmphL (soundAt toks) st.flatten = true)
    (hf : findOpener c st.ents [] = some (e, below, kids)) (b : Bool) :
    allEmphL (soundAt toks) (st.bot ++ flattenEnts below) = true ∧ allEmphL (soundAt toks) kids = true
    ∧ soundAt toks b c.ch e.d.idx ci = true ∧ (toks[e.d.idx]? = some (.run e.d.r) ∧ e.d.idx < ci) ∧ entsSound toks ci below := by
  obtain ⟨h1, h2, h3, h4⟩ := findOpener_spec c _ _ _ _ _ hf
  simp only [List.append_nil] at h1
  simp only [Stack.flatten, h1, allEmphL_append, allEmphL, allEmph_delimText, Bool.and_eq_true, Bool.true_and] at ha
  obtain ⟨he1, he2⟩ := hs e h3
  refine ⟨?_, ha.2.2, ?_, ⟨he1, he2⟩, fun x hx => hs x (h4 x hx)⟩
  · simp [allEmphL_append, ha.1, ha.2.1]
  · simp [soundAt, he1, hc, h2, he2]

theorem closeLoop_sound (toks : List Tok) (c : Run) (ci : Nat) (hc : toks[ci]? = some (.run c)) :
    ∀ (cur : Nat) (st : Stack), entsSound toks ci st.ents → allEmphL (soundAt toks) st.flatten = true →
      entsSound toks ci (closeLoop c ci cur st).1.ents ∧ allEmphL (soundAt toks) (closeLoop c ci cur st).1.flatten = true := by
  intro cur st
  fun_induction closeLoop c ci cur st with
  | case1 st => intro h1 h2; exact ⟨h1, h2⟩
  | case2 st hf => intro h1 h2; exact ⟨h1, h2⟩
  | case3 st e below kids hf =>
    intro h1 h2
    obtain ⟨a1, a2, a3, a4, a5⟩ := found_sound toks c ci st e below kids hc h1 h2 hf ((1 : Nat) == 2)
    exact ⟨applyMatch_entsSound toks ci _ _ _ _ _ _ _ a4 a5, applyMatch_sound _ _ _ _ _ _ _ _ a1 a2 a3⟩
  | case4 cur st hf => intro h1 h2; exact ⟨h1, h2⟩
  | case5 cur st e below kids hf h2le ih =>
    intro h1 h2
    obtain ⟨a1, a2, a3, a4, a5⟩ := found_sound toks c ci st e below kids hc h1 h2 hf ((2 : Nat) == 2)
    exact ih (applyMatch_entsSound toks ci _ _ _ _ _ _ _ a4 a5) (applyMatch_sound _ _ _ _ _ _ _ _ a1 a2 a3)
  | case6 cur st e below kids hf h2le ih =>
    intro h1 h2
    obtain ⟨a1, a2, a3, a4, a5⟩ := found_sound toks c ci st e below kids hc h1 h2 hf ((1 : Nat) == 2)
    exact ih (applyMatch_entsSound toks ci _ _ _ _ _ _ _ a4 a5) (applyMatch_sound _ _ _ _ _ _ _ _ a1 a2 a3)

theorem push_entsSound (toks : List Tok) (i : Nat) (st : Stack) (n : Inl) (h : entsSound toks i st.ents) :
    entsSound toks i (st.push n).ents := by
  unfold Stack.push
  split
  · next hh => simpa [hh] using h
  · next x xs hh =>
    intro y hy
    simp only [List.mem_cons] at hy
    rcases hy with rfl | hy
    · exact h x (by simp [hh])
    · exact h y (by simp [hh, hy])

theorem entsSound_mono (toks : List Tok) (i : Nat) (ents : List Ent) (h : entsSound toks i ents) : entsSound toks (i + 1) ents :=
  fun e he => ⟨(h e he).1, Nat.lt_succ_of_lt (h e he).2⟩

theorem step_sound (toks : List Tok) (i : Nat) (t : Tok) (st : Stack) (ht : toks[i]? = some t)
    (h1 : entsSound toks i st.ents) (h2 : allEmphL (soundAt toks) st.flatten = true) :
    entsSound toks (i + 1) (step i t st).ents ∧ allEmphL (soundAt toks) (step i t st).flatten = true := by
  cases t with
  | chr b => exact ⟨entsSound_mono _ _ _ (push_entsSound _ _ _ _ h1), by simp [step, push_flatten, allEmphL_append, allEmphL, allEmph, h2]⟩
  | soft => exact ⟨entsSound_mono _ _ _ (push_entsSound _ _ _ _ h1), by simp [step, push_flatten, allEmphL_append, allEmphL, allEmph, h2]⟩
  | hard => exact ⟨entsSound_mono _ _ _ (push_entsSound _ _ _ _ h1), by simp [step, push_flatten, allEmphL_append, allEmphL, allEmph, h2]⟩
  | code b => exact ⟨entsSound_mono _ _ _ (push_entsSound _ _ _ _ h1), by simp [step, push_flatten, allEmphL_append, allEmphL, allEmph, h2]⟩
  | run r =>
    have hp : ∀ p : Stack × Nat, p = (if r.canClose then closeLoop r i r.len st else (st, r.len)) →
        entsSound toks i p.1.ents ∧ allEmphL (soundAt toks) p.1.flatten = true := by
      intro p hp
      by_cases hc : r.canClose = true
      · simp only [hc, if_true] at hp; subst hp; exact closeLoop_sound toks r i ht r.len st h1 h2
      · simp only [hc] at hp; subst hp; exact ⟨h1, h2⟩
    obtain ⟨g1, g2⟩ := hp _ rfl
    simp only [step]
    generalize (if r.canClose then closeLoop r i r.len st else (st, r.len)) = p at g1 g2
    obtain ⟨st', left⟩ := p
    simp only at g1 g2 ⊢
    by_cases hl : left = 0
    · subst hl; exact ⟨entsSound_mono _ _ _ (by simpa using g1), by simpa using g2⟩
    · by_cases ho : r.canOpen = true
      · simp only [hl, beq_iff_eq, if_false, ho, if_true]
        refine ⟨?_, ?_⟩
        · intro y hy
          simp only [List.mem_cons] at hy
          rcases hy with rfl | hy
          · exact ⟨ht, Nat.lt_succ_self _⟩
          · exact entsSound_mono _ _ _ g1 y hy
        · simp only [Stack.flatten, allEmphL_append] at g2 ⊢
          simp [flattenEnts, allEmphL_append, allEmphL, allEmph_delimText]
          simpa using g2
      · have ho' : r.canOpen = false := by simpa using ho
        simp only [hl, beq_iff_eq, if_false, ho', Bool.false_eq_true]
        exact ⟨entsSound_mono _ _ _ (push_entsSound _ _ _ _ g1),
          by rw [push_flatten, allEmphL_append]; simp [g2, allEmphL, allEmph_delimText]⟩

theorem parseGo_sound (toks : List Tok) : ∀ (rest : List Tok) (i : Nat) (st : Stack), toks.drop i = rest →
    entsSound toks i st.ents → allEmphL (soundAt toks) st.flatten = true →
    allEmphL (soundAt toks) (parseGo i rest st).flatten = true := by
  intro rest
  induction rest with
  | nil => intro i st _ _ h; simpa [parseGo] using h
  | cons t ts ih =>
    intro i st hd h1 h2
    have ht : toks[i]? = some t := by
      have := congrArg (fun l => l[0]?) hd
      simpa using this
    have hd' : toks.drop (i + 1) = ts := by
      have := congrArg List.tail hd
      simpa using this
    obtain ⟨g1, g2⟩ := step_sound toks i t st ht h1 h2
    rw [parseGo]
    exact ih (i + 1) _ hd' g1 g2

theorem parse_sound (toks : List Tok) : allEmphL (soundAt toks) (parse toks) = true := by
  unfold parse
  exact parseGo_sound toks toks 0 ⟨[], []⟩ (by simp) (by intro e he; simp at he) (by simp [Stack.flatten, flattenEnts, allEmphL])

/-! ### the HTML: events, tag balance, text content -/

mutual
theorem render_events : ∀ n : Inl, render n = (events n).flatMap Ev.bytes
  | .text b => by simp [render, events, Ev.bytes]
  | .soft => by simp [render, events, Ev.bytes]
  | .hard => by simp [render, events, Ev.bytes]
  | .code b => by simp [render, events, Ev.bytes]
  | .emph s _ _ _ kids => by
    simp only [render, events, List.flatMap_cons, List.flatMap_append, List.flatMap_nil, List.append_nil, Ev.bytes,
      renderL_events kids, List.append_assoc]
theorem renderL_events : ∀ ns : List Inl, renderL ns = (eventsL ns).flatMap Ev.bytes
  | [] => by simp [renderL, eventsL]
  | n :: ns => by simp [renderL, eventsL, render_events n, renderL_events ns]
end

mutual
theorem events_neutral : ∀ (n : Inl) (st : List Bool) (rest : List Ev), balGo st (events n ++ rest) = balGo st rest
  | .text b, st, rest => by simp [events, balGo]
  | .soft, st, rest => by simp [events, balGo]
  | .hard, st, rest => by simp [events, balGo]
  | .code b, st, rest => by simp [events, balGo]
  | .emph s _ _ _ kids, st, rest => by
    simp only [events, List.cons_append, List.append_assoc, balGo, eventsL_neutral kids, List.nil_append, beq_self_eq_true,
      Bool.true_and]
theorem eventsL_neutral : ∀ (ns : List Inl) (st : List Bool) (rest : List Ev), balGo st (eventsL ns ++ rest) = balGo st rest
  | [], st, rest => by simp [eventsL]
  | n :: ns, st, rest => by simp [eventsL, List.append_assoc, events_neutral n, eventsL_neutral ns]
end

theorem eventsL_balanced (ns : List Inl) : balGo [] (eventsL ns) = true := by
  have := eventsL_neutral ns [] []
  simpa [balGo] using this

theorem strip_escByte (c : UInt8) (rest : Bytes) :
    stripTags false (escByte c ++ rest) = escByte c ++ stripTags false rest := by
  unfold escByte
  split
  · simp [stripTags]
  · split
    · simp [stripTags]
    · split
      · simp [stripTags]
      · split
        · simp [stripTags]
        · next h60 _ _ => simp [stripTags, h60]

theorem strip_esc (b rest : Bytes) : stripTags false (esc b ++ rest) = esc b ++ stripTags false rest := by
  induction b with
  | nil => simp [esc]
  | cons c t ih =>
    have : esc (c :: t) = escByte c ++ esc t := by simp [esc]
    rw [this, List.append_assoc, strip_escByte, ih, List.append_assoc]

mutual
theorem strip_render : ∀ (n : Inl) (rest : Bytes),
    stripTags false (render n ++ rest) = esc (textOf n) ++ stripTags false rest
  | .text b, rest => by simp [render, textOf, strip_esc]
  | .soft, rest => by simp [render, textOf, stripTags, esc, escByte]
  | .hard, rest => by simp [render, textOf, stripTags, esc, escByte, tagBr]
  | .code b, rest => by simp [render, textOf, stripTags, tagCoO, tagCoC, List.append_assoc, strip_esc]
  | .emph s _ _ _ kids, rest => by
    cases s <;>
      simp [render, textOf, tagEmO, tagEmC, tagStO, tagStC, stripTags, List.append_assoc, strip_renderL kids]
theorem strip_renderL : ∀ (ns : List Inl) (rest : Bytes),
    stripTags false (renderL ns ++ rest) = esc (textOfL ns) ++ stripTags false rest
  | [], rest => by simp [renderL, textOfL, esc]
  | n :: ns, rest => by
    have : esc (textOf n ++ textOfL ns) = esc (textOf n) ++ esc (textOfL ns) := by simp [esc]
    simp [renderL, textOfL, List.append_assoc, strip_render n, strip_renderL ns, this]
end

end GM.Proof.CMEmph
