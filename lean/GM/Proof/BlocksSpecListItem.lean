/-
  GM.Proof.BlocksSpecListItem — the list item parser (list_item.go): `listItemOpen` and `listItemContinue` raise no
  Go panic, and `listItemOpen` makes PROGRESS (when it answers HasChildren the cursor has passed the marker byte).
  Every helper of this file carries the prefix `li_`.
-/
import GM.Proof.BlocksSpecCode
namespace GM.Blocks
open GM GM.Text GM.Spec GM.Proof.Reader

/-! ### util.TabWidth / util.IndentWidth / util.IndentPosition -/

/-- Go's `4 - p%4` is at least 1 for EVERY int `p` (1..4 for `p ≥ 0`, 4..7 for `p < 0`) -/
theorem li_tabWidthI_pos (p : Int) : 1 ≤ tabWidthI p := by
  unfold tabWidthI
  have := Int.tmod_lt_of_pos p (show (0 : Int) < 4 by decide)
  omega

theorem li_indentWidthGo_ge (cur : Int) : ∀ (bs : Bytes) (w p : Int), w ≤ (indentWidthGo cur bs w p).1 := by
  intro bs
  induction bs with
  | nil => intro w p; simp [indentWidthGo]
  | cons b bs ih =>
    intro w p
    unfold indentWidthGo
    split
    · have := ih (w + 1) (p + 1); omega
    · split
      · have := ih (w + tabWidthI (cur + w)) (p + 1)
        have := li_tabWidthI_pos (cur + w); omega
      · simp

theorem li_indentWidthI_nonneg (bs : Bytes) (cur : Int) : 0 ≤ (indentWidthI bs cur).1 :=
  li_indentWidthGo_ge cur bs 0 0

/-- a line that begins with a space or a tab has indent width ≥ 1, whatever the column -/
theorem li_indentWidthI_pos (b : UInt8) (bs : Bytes) (cur : Int) (hb : b = 32 ∨ b = 9) :
    1 ≤ (indentWidthI (b :: bs) cur).1 := by
  unfold indentWidthI indentWidthGo
  rcases hb with hb | hb
  · subst hb
    simp only [beq_self_eq_true, if_true]
    have := li_indentWidthGo_ge cur bs (0 + 1) (0 + 1); omega
  · subst hb
    have h1 : ((9 : UInt8) == 32) = false := by decide
    simp only [h1, Bool.false_eq_true, if_false, beq_self_eq_true, if_true]
    have := li_indentWidthGo_ge cur bs (0 + tabWidthI (cur + 0)) (0 + 1)
    have := li_tabWidthI_pos (cur + 0); omega

/-- a line whose indent width is not 0 begins with a space or a tab -/
theorem li_indentWidthI_ne_zero (b : UInt8) (bs : Bytes) (cur : Int) (h : (indentWidthI (b :: bs) cur).1 ≠ 0) :
    b = 32 ∨ b = 9 := by
  unfold indentWidthI indentWidthGo at h
  by_cases h1 : (b == 32) = true
  · exact .inl (by simpa using h1)
  · by_cases h2 : (b == 9) = true
    · exact .inr (by simpa using h2)
    · rw [if_neg h1, if_neg h2] at h; simp at h

/-- `IndentPosition`'s loop (no padding) adds up the same widths as `IndentWidth`, and stops as soon as `width` is
    reached: whenever the indent of the line is at least `width`, the loop reaches `width` -/
theorem li_ippLoop_reach (cur width : Int) : ∀ (bs : Bytes) (i p w p0 : Int), p ≤ 0 →
    width ≤ (indentWidthGo cur bs w p0).1 → width ≤ (ippLoop cur width bs i p w).2 := by
  intro bs
  induction bs with
  | nil => intro i p w p0 _ h; simpa [ippLoop, indentWidthGo] using h
  | cons b bs ih =>
    intro i p w p0 hp h
    unfold ippLoop
    unfold indentWidthGo at h
    have hn : ¬ p > 0 := by omega
    rw [if_neg hn]
    by_cases hw : w < width
    · by_cases h9 : (b == 9) = true
      · have e : b = 9 := by simpa using h9
        subst e
        have h1 : ((9 : UInt8) == 32) = false := by decide
        simp only [h1, Bool.false_eq_true, if_false, beq_self_eq_true, if_true] at h
        simp only [beq_self_eq_true, Bool.true_and, decide_eq_true_eq, hw, if_true]
        exact ih _ _ _ _ hp h
      · by_cases h32 : (b == 32) = true
        · have e : b = 32 := by simpa using h32
          subst e
          simp only [beq_self_eq_true, if_true] at h
          have h1 : ((32 : UInt8) == 9) = false := by decide
          simp only [h1, Bool.false_and, Bool.false_eq_true, if_false, beq_self_eq_true, Bool.true_and,
            decide_eq_true_eq, hw, if_true]
          exact ih _ _ _ _ hp h
        · rw [if_neg h32, if_neg h9] at h
          simp only at h; omega
    · have e1 : (b == 9 && decide (w < width)) = false := by simp [hw]
      have e2 : (b == 32 && decide (w < width)) = false := by simp [hw]
      simp only [e1, e2, Bool.false_eq_true, if_false]
      omega

/-- util.IndentPosition(bs, cur, width) answers a position whenever `0 ≤ width ≤` the indent of `bs` (same `cur`) -/
theorem li_indentPosition_ok (bs : Bytes) (cur width : Int) (h0 : 0 ≤ width) (h : width ≤ (indentWidthI bs cur).1) :
    0 ≤ (indentPosition bs cur width).1 ∧ (indentPosition bs cur width).1 ≤ bs.length ∧
    (isBlank bs = false → (indentPosition bs cur width).1 < bs.length) ∧
    (0 < (indentPosition bs cur width).2 → 1 ≤ (indentPosition bs cur width).1) := by
  unfold indentPosition indentPositionPadding
  by_cases hz : (width == 0) = true
  · rw [if_pos hz]
    simp only
    refine ⟨Int.le_refl _, by omega, fun hb => ?_, fun hh => by omega⟩
    cases bs with
    | nil => simp [isBlank] at hb
    | cons b bs => simp
  · rw [if_neg hz]
    have hr := li_ippLoop_reach cur width bs 0 0 0 0 (Int.le_refl _) h
    have hge := ippLoop_ge cur width bs 0 0 0
    simp only
    rw [if_pos hr]
    simp only
    refine ⟨by omega, by omega, fun hb => ?_, fun hp => ?_⟩
    · have := ippLoop_lt cur width bs 0 0 0 (Int.le_refl _) hb; omega
    · rcases Int.lt_or_le 0 (ippLoop cur width bs 0 0 0).1 with h1 | h1
      · omega
      · have := ippLoop_eq cur width bs 0 0 0 (by omega); omega

/-! ### list.go: the recogniser -/

/-- what a successful `parseListItem(line)` says about its match array -/
structure li_ItemOK (line : Bytes) (m : M6) : Prop where
  r1_nonneg : 0 ≤ m.r1
  r1_le : m.r1 ≤ 3
  r2 : m.r2 = m.r1
  r13 : m.r1 < m.r3
  r3_le : m.r3 ≤ line.length
  spaces : ∀ j : Nat, (j : Int) < m.r1 → line[j]? = some 32
  marker : ∃ b, line[(m.r3 - 1).toNat]? = some b ∧ b ≠ 32 ∧ b ≠ 9 ∧ b ≠ 10
  tail : (m.r4 = -1 ∧ m.r5 = -1 ∧ m.r3 = line.length) ∨
    (m.r4 = m.r3 ∧ m.r4 < line.length ∧ m.r4 ≤ m.r5 ∧ m.r5 ≤ line.length ∧
      ∃ b, line[m.r4.toNat]? = some b ∧ (b = 10 ∨ b = 32 ∨ b = 9))

theorem li_countLeading_spaces : ∀ (line : Bytes) (j : Nat), j < countLeading 32 line → line[j]? = some 32 := by
  intro line
  induction line with
  | nil => intro j h; simp [countLeading] at h
  | cons b bs ih =>
    intro j h
    unfold countLeading at h
    rw [List.takeWhile_cons] at h
    by_cases hb : (b == 32) = true
    · rw [if_pos hb] at h
      have e : b = 32 := by simpa using hb
      cases j with
      | zero => simp [e]
      | succ j =>
        simp only [List.length_cons] at h
        have := ih j (by unfold countLeading; omega)
        simpa using this
    · rw [if_neg hb] at h; simp at h

theorem li_pliFinish_ok (line : Bytes) (k i : Nat) (typ : ListTyp) (hk : k ≤ 3) (hki : k < i)
    (hi : i ≤ line.length) (hsp : ∀ j : Nat, j < k → line[j]? = some 32)
    (hm : ∃ b, line[i - 1]? = some b ∧ b ≠ 32 ∧ b ≠ 9 ∧ b ≠ 10)
    (h : (pliFinish line k i typ).2 ≠ .notList) : li_ItemOK line (pliFinish line k i typ).1 := by
  unfold pliFinish at h ⊢
  have hmk : ∃ b, line[(((i : Nat) : Int) - 1).toNat]? = some b ∧ b ≠ 32 ∧ b ≠ 9 ∧ b ≠ 10 := by
    have e : (((i : Nat) : Int) - 1).toNat = i - 1 := by omega
    rw [e]; exact hm
  split
  · rename_i hd
    have hlen : line.length ≤ i := by
      have := congrArg List.length hd
      simp only [List.length_drop, List.length_nil] at this; omega
    exact { r1_nonneg := by simp only; omega, r1_le := by simp only; omega, r2 := rfl,
            r13 := by simp only; omega, r3_le := by simp only; omega,
            spaces := fun j hj => hsp j (by simp only at hj; omega), marker := hmk,
            tail := .inl ⟨rfl, rfl, by simp only; omega⟩ }
  · rename_i c cs hd
    rw [hd] at h
    simp only at h
    have hlen : i < line.length := by
      have := congrArg List.length hd
      simp only [List.length_drop, List.length_cons] at this; omega
    have hc : line[i]? = some c := by
      have := congrArg (fun l => l[0]?) hd
      simpa using this
    by_cases hcond : (c != 10 && (indentWidthI (c :: cs) 0).1 == 0) = true
    · rw [if_pos hcond] at h; exact absurd rfl h
    · rw [if_neg hcond]
      have hc3 : c = 10 ∨ c = 32 ∨ c = 9 := by
        by_cases h10 : c = 10
        · exact .inl h10
        · refine .inr (li_indentWidthI_ne_zero c cs 0 (fun e => hcond ?_))
          simp [h10, e]
      refine { r1_nonneg := by simp only; omega, r1_le := by simp only; omega, r2 := rfl,
               r13 := by simp only; omega, r3_le := by simp only; omega,
               spaces := fun j hj => hsp j (by simp only at hj; omega), marker := hmk,
               tail := .inr ⟨rfl, by simp only; omega, ?_, ?_, c, by simpa using hc, hc3⟩ }
      · simp only; split <;> omega
      · simp only; split <;> omega

/-- parser.parseListItem (list.go:26-85), when it recognises a list item -/
theorem li_parseListItem_bounds (line : Bytes) (h : (parseListItem line).2 ≠ .notList) :
    li_ItemOK line (parseListItem line).1 := by
  unfold parseListItem at h ⊢
  simp only at h ⊢
  have hsp := li_countLeading_spaces line
  have hkl := countLeading_le 32 line
  generalize countLeading 32 line = k at h hsp hkl ⊢
  by_cases hk : k > 3
  · rw [if_pos hk] at h; exact absurd rfl h
  · rw [if_neg hk] at h ⊢
    split
    · rename_i hd; rw [hd] at h; exact absurd rfl h
    · rename_i c cs hd
      rw [hd] at h
      simp only at h
      have hlen : k < line.length := by
        have := congrArg List.length hd
        simp only [List.length_drop, List.length_cons] at this; omega
      have hc : line[k]? = some c := by
        have := congrArg (fun l => l[0]?) hd
        simpa using this
      by_cases hbul : (c == 45 || c == 42 || c == 43) = true
      · rw [if_pos hbul] at h ⊢
        refine li_pliFinish_ok line k (k + 1) .bullet (by omega) (by omega) (by omega) hsp ⟨c, by simpa using hc, ?_⟩ h
        simp only [Bool.or_eq_true, beq_iff_eq] at hbul
        rcases hbul with (e | e) | e <;> subst e <;> decide
      · rw [if_neg hbul] at h ⊢
        generalize hnd : ((c :: cs).takeWhile isNumeric).length = nd at h ⊢
        by_cases hn : (nd == 0 || decide (nd > 9)) = true
        · rw [if_pos hn] at h; exact absurd rfl h
        · rw [if_neg hn] at h ⊢
          split
          · rename_i d ds hd2
            rw [hd2] at h
            simp only at h
            by_cases hdot : (d == 46 || d == 41) = true
            · rw [if_pos hdot] at h ⊢
              have hlen2 : nd < (c :: cs).length := by
                have := congrArg List.length hd2
                simp only [List.length_drop, List.length_cons] at this ⊢; omega
              have hcs : (c :: cs).length = line.length - k := by rw [← hd]; simp
              have hdd : line[k + nd]? = some d := by
                have := congrArg (fun l => l[0]?) hd2
                rw [← hd] at this
                simpa using this
              refine li_pliFinish_ok line k (k + nd + 1) .ordered (by omega) (by omega) (by omega) hsp
                ⟨d, by simpa using hdd, ?_⟩ h
              simp only [Bool.or_eq_true, beq_iff_eq] at hdot
              rcases hdot with e | e <;> subst e <;> decide
            · rw [if_neg hdot] at h; exact absurd rfl h
          · rename_i hd2; rw [hd2] at h; exact absurd rfl h

/-- parser.matchesListItem (list.go:87-93), when it recognises a list item (strict or not) -/
theorem li_matchesListItem_bounds (line : Bytes) (strict : Bool) (h : (matchesListItem line strict).2 ≠ .notList) :
    li_ItemOK line (matchesListItem line strict).1 := by
  unfold matchesListItem at h ⊢
  simp only at h ⊢
  split
  · rename_i hc
    rw [if_pos hc] at h
    exact li_parseListItem_bounds line h
  · rename_i hc
    rw [if_neg hc] at h; exact absurd rfl h

/-- the strict and the non-strict recogniser agree: a recognised item never has 4 or more leading spaces (the test
    `match[1] < 4` of list.go:89 is always true) — `listParser.Continue` uses the non-strict one,
    `listItemParser.Continue` the strict one -/
theorem li_matchesListItem_strict (line : Bytes) : matchesListItem line true = matchesListItem line false := by
  unfold matchesListItem
  simp only
  by_cases h : (parseListItem line).2 = .notList
  · simp [h]
  · have := (li_parseListItem_bounds line h).r1_le
    have h4 : (parseListItem line).1.r1 < 4 := by omega
    simp [h, h4]

/-! ### parser.calcListOffset -/

theorem li_isBlank_take (l : Bytes) (n : Nat) (h : isBlank (l.take n) = false) : isBlank l = false := by
  cases hb : isBlank l with
  | false => rfl
  | true =>
    exfalso
    have : isBlank (l.take n) = true := by
      unfold isBlank at hb ⊢
      rw [List.all_eq_true] at hb ⊢
      exact fun x hx => hb x (List.mem_of_mem_take hx)
    rw [this] at h; cases h

theorem li_slice_ok (l : Bytes) (a b : Int) (h0 : 0 ≤ a) (h1 : a ≤ b) (h2 : b ≤ l.length) :
    slice l a b = .ok ((l.drop a.toNat).take (b.toNat - a.toNat)) := by
  unfold slice sliceB sub; rw [if_pos ⟨h0, h1, h2⟩]

/-- parser.calcListOffset (list.go:91-103) on a recognised item: total, the answer is in 0..4 — it is ≥ 1 unless the
    byte after the marker is a newline that is followed by a non-blank rest (which no line of a reader is) —, and it is
    at most the indent width of the rest of the line after the marker when that rest is not blank. No condition on
    `lo` (the reader's LineOffset, which may be negative): `util.TabWidth` is ≥ 1 for every int. -/
theorem li_calcListOffset_ok (line : Bytes) (m : M6) (lo : Int) (hm : li_ItemOK line m) :
    ∃ off, calcListOffset line m lo = .ok off ∧ 0 ≤ off ∧ off ≤ 4 ∧
      (1 ≤ off ∨ (0 ≤ m.r4 ∧ line[m.r4.toNat]? = some 10 ∧ isBlank (line.drop m.r4.toNat) = false)) ∧
      (0 ≤ m.r4 → isBlank (line.drop m.r4.toNat) = false →
        off ≤ (indentWidthI (line.drop m.r4.toNat) (lo + m.r4)).1) := by
  unfold calcListOffset
  by_cases h4 : m.r4 < 0
  · rw [if_pos h4]; exact ⟨1, rfl, by omega, by omega, .inl (by omega), fun h => by omega⟩
  · rw [if_neg h4]
    rcases hm.tail with ⟨e4, _, _⟩ | ⟨e43, h4lt, h45, h5le, b4, hb4, hb4c⟩
    · omega
    rw [sliceFrom_ok line m.r4 (by omega) (by omega)]
    simp only [bind, Except.bind, pure, Except.pure]
    by_cases hb : isBlank (line.drop m.r4.toNat) = true
    · rw [if_pos hb]
      exact ⟨1, rfl, by omega, by omega, .inl (by omega), fun _ hnb => by rw [hb] at hnb; cases hnb⟩
    · rw [if_neg hb]
      refine ⟨_, rfl, ?_⟩
      have hw0 := li_indentWidthI_nonneg (line.drop m.r4.toNat) (lo + m.r4)
      have hlt : m.r4.toNat < line.length := by omega
      have hdrop := List.drop_eq_getElem_cons hlt
      have hb4' : line[m.r4.toNat] = b4 := by
        rw [List.getElem?_eq_getElem hlt] at hb4; exact Option.some.inj hb4
      have hpos : b4 = 10 ∨ 1 ≤ (indentWidthI (line.drop m.r4.toNat) (lo + m.r4)).1 := by
        rcases hb4c with e | e
        · exact .inl e
        · right; rw [hdrop, hb4']; exact li_indentWidthI_pos b4 _ _ e
      generalize (indentWidthI (line.drop m.r4.toNat) (lo + m.r4)).1 = w at hw0 hpos ⊢
      refine ⟨by split <;> omega, by split <;> omega, ?_, fun _ _ => by split <;> omega⟩
      rcases hpos with e | e
      · refine .inr ⟨by omega, by rw [hb4, e], ?_⟩
        cases hh : isBlank (List.drop m.r4.toNat line) with
        | true => exact absurd hh hb
        | false => rfl
      · exact .inl (by split <;> omega)

/-! ### the view of a reader line -/

/-- a byte of the line that is not a space lies behind the virtual padding -/
theorem li_view_pad_le (src : Bytes) (c : RCur) (hp : c.p < src.length) {line : Bytes}
    (hline : (RCur.view src c).getD [] = line) {i : Nat} {b : UInt8} (h : line[i]? = some b) (hb : b ≠ 32) :
    c.pad ≤ i := by
  rcases Nat.lt_or_ge i c.pad with hlt | hge
  · exfalso
    rw [view_eq src c hp] at hline
    simp only [Option.getD_some] at hline
    subst hline
    rw [spaces_getElem c.pad _ i hlt] at h
    exact hb (Option.some.inj h).symm
  · exact hge

/-- a line of the reader has its newline (if any) at the very end -/
theorem li_view_nl_last (src : Bytes) (c : RCur) (hp : c.p < src.length) {line : Bytes}
    (hline : (RCur.view src c).getD [] = line) {i : Nat} (h : line[i]? = some 10) : i + 1 = line.length := by
  have hpad := li_view_pad_le src c hp hline h (by decide)
  have hvl := view_getD_length_nat src c hp
  rw [hline] at hvl
  have hi : i < line.length := by
    rcases Nat.lt_or_ge i line.length with h' | h'
    · exact h'
    · rw [List.getElem?_eq_none h'] at h; cases h
  obtain ⟨i1, i2, _, i4, _, i6⟩ := advN_within src i c hp (by omega)
  have hv := view_advN_within src i c hp (by omega)
  rw [hline, view_eq src _ i6, i2] at hv
  have e0 : c.pad - i = 0 := by omega
  rw [e0] at hv
  simp only [spaces, List.replicate_zero, List.nil_append, Option.some.injEq] at hv
  have h0 : (sub src (RCur.advN src i c).p (lineEnd src (RCur.advN src i c).p))[0]? = some 10 := by
    rw [hv]; simpa using h
  have hlt2 := lt_lineEnd src i6
  have h10 : src[(RCur.advN src i c).p]? = some 10 := by
    unfold sub at h0
    rw [List.getElem?_take_of_lt (by omega)] at h0
    simpa using h0
  have := lineEnd_nl src h10
  omega

/-- on a line of the reader the answer of `calcListOffset` is in 1..4 -/
theorem li_calcListOffset_view (src : Bytes) (c : RCur) (hp : c.p < src.length) {line : Bytes}
    (hline : (RCur.view src c).getD [] = line) (m : M6) (lo : Int) (hm : li_ItemOK line m) :
    ∃ off, calcListOffset line m lo = .ok off ∧ 1 ≤ off ∧ off ≤ 4 ∧
      (0 ≤ m.r4 → isBlank (line.drop m.r4.toNat) = false →
        off ≤ (indentWidthI (line.drop m.r4.toNat) (lo + m.r4)).1) := by
  obtain ⟨off, h1, _, h3, h4, h5⟩ := li_calcListOffset_ok line m lo hm
  refine ⟨off, h1, ?_, h3, h5⟩
  rcases h4 with h4 | ⟨_, h10, hnb⟩
  · exact h4
  · exfalso
    have hlast := li_view_nl_last src c hp hline h10
    have hlt : m.r4.toNat < line.length := by omega
    rw [List.drop_eq_getElem_cons hlt, List.drop_eq_nil_of_le (by omega)] at hnb
    rw [List.getElem?_eq_getElem hlt] at h10
    rw [Option.some.inj h10] at hnb
    exact absurd hnb (by decide)

/-! ### parser.lastOffset -/

/-- the parent List as listItemParser.Open needs it (`lastOffset(parent)`): if it has a last child, that child is a
    ListItem -/
def li_ListKidsOK (s : St) (parent : Nat) : Prop :=
  ∀ lc, (nd s parent).children.getLast? = some lc → (nd s lc).kind = .listItem

/-- the value of `lastOffset(node)` -/
def li_lastOff (s : St) (node : Nat) : Int :=
  match (nd s node).children.getLast? with
  | none => 0
  | some lc => (nd s lc).offset

theorem li_lastOffset_okl (s : St) (node : Nat) (hk : li_ListKidsOK s node) :
    OKL (fun v s' => v = li_lastOff s node ∧ s' = s) (lastOffset node s) := by
  unfold lastOffset
  refine OKL.bind (m := getNode node) (P := fun n s' => n = nd s node ∧ s = s') (OKL.ok ⟨rfl, rfl⟩)
    (fun n s0 hn => ?_)
  obtain ⟨hn, hs0⟩ := hn
  subst hn hs0
  unfold li_lastOff
  cases hl : (nd s node).children.getLast? with
  | none => exact OKL.ok ⟨rfl, rfl⟩
  | some lc =>
    simp only
    refine OKL.bind (m := getNode lc) (P := fun n s' => n = nd s lc ∧ s = s') (OKL.ok ⟨rfl, rfl⟩)
      (fun n s0 hn => ?_)
    obtain ⟨hn, hs0⟩ := hn
    subst hn hs0
    rw [if_neg (by rw [hk lc hl]; decide)]
    exact OKL.ok ⟨rfl, rfl⟩

/-! ### listItemParser.Open -/

/-- `listItemOpen`: no Go panic, progress, and (beyond what `listItemOpen_okl` states) the new item's offset is ≥ 2
    and the cursor stays inside the source -/
theorem li_listItemOpen_okl (src : Bytes) (parent : Nat) (s : St) (c : RCur) (hctx : LineCtx src s c)
    (hk : li_ListKidsOK s parent) :
    OKL (fun a s' => ∃ c', RI src s'.r c' ∧ PadOK c' ∧ c.p ≤ c'.p ∧ (a.1 = none → c' = c) ∧
        (a.2.hasChildren = true → c.p < c'.p) ∧ c'.p < src.length ∧
        s'.pc.opened = s.pc.opened ∧ s'.pc.blockOffset = s.pc.blockOffset ∧ s'.pc.tmpPara = s.pc.tmpPara ∧
        s'.pc.fence = s.pc.fence ∧
        (a.1 = none → s'.nodes = s.nodes) ∧
        (∀ id, a.1 = some id → id = s.nodes.length ∧ (nd s parent).kind = .list ∧
            ∃ n, s'.nodes = s.nodes ++ [n] ∧ n.kind = .listItem ∧ n.children = [] ∧ n.lines = [] ∧
              n.linesNil = true ∧ n.parent = none ∧ 2 ≤ n.offset))
      (listItemOpen parent s) := by
  obtain ⟨h, hp, hpad, _, _⟩ := hctx
  unfold listItemOpen
  refine OKL.bind (m := getNode parent) (P := fun n s' => n = nd s parent ∧ s = s') (OKL.ok ⟨rfl, rfl⟩)
    (fun n s0 hn => ?_)
  obtain ⟨hn, hs0⟩ := hn
  subst hn hs0
  by_cases hkind : ((nd s parent).kind != Kind.list) = true
  · rw [if_pos hkind]
    exact OKL.ok ⟨c, h, hpad, Nat.le_refl _, fun _ => rfl, (fun hh => by cases hh), hp, rfl, rfl, rfl, rfl,
      fun _ => rfl, fun id hid => by cases hid⟩
  · rw [if_neg hkind]
    have hkl : (nd s parent).kind = Kind.list := by simpa using hkind
    refine OKL.bind (li_lastOffset_okl s parent hk) (fun offset s1 ho => ?_)
    obtain ⟨_, hs1⟩ := ho
    rw [hs1]
    clear hs1 s1
    refine OKL.bind (peekLine_okl h) (fun x s1 hx => ?_)
    obtain ⟨hx, r1, hs1, h1⟩ := hx
    subst hx hs1
    simp only
    have hvl := view_getD_length_nat src c hp
    have hpadle := @li_view_pad_le src c hp
    generalize hline : (RCur.view src c).getD [] = line at hvl hpadle ⊢
    have hmb := li_matchesListItem_bounds line false
    generalize matchesListItem line false = mt at hmb ⊢
    obtain ⟨m, typ⟩ := mt
    simp only at hmb ⊢
    by_cases ht : (typ == ListTyp.notList) = true
    · rw [if_pos ht]
      exact OKL.ok ⟨c, h1, hpad, Nat.le_refl _, fun _ => rfl, (fun hh => by cases hh), hp, rfl, rfl, rfl, rfl,
        fun _ => rfl, fun id hid => by cases hid⟩
    · rw [if_neg ht]
      have hm := hmb (by simpa using ht)
      by_cases h3 : m.r1 - offset > 3
      · rw [if_pos (by simpa using h3)]
        exact OKL.ok ⟨c, h1, hpad, Nat.le_refl _, fun _ => rfl, (fun hh => by cases hh), hp, rfl, rfl, rfl, rfl,
          fun _ => rfl, fun id hid => by cases hid⟩
      · rw [if_neg (by simpa using h3)]
        refine OKL.bind (m := modPc fun pc => { pc with emptyItemBlank := false })
          (P := fun _ s' => s' = { s with r := r1, pc := { s.pc with emptyItemBlank := false } })
          (OKL.ok rfl) (fun _ s2 hs2 => ?_)
        subst hs2
        refine OKL.bind (lineOffset_okl
          (s := { s with r := r1, pc := { s.pc with emptyItemBlank := false } }) h1) (fun lo s3 hlo => ?_)
        obtain ⟨_, r3, hs3, h3'⟩ := hlo
        subst hs3
        simp only
        obtain ⟨off, hoff, hoff1, _, hoffw⟩ := li_calcListOffset_view src c hp hline m lo hm
        have hoff0 : 0 ≤ off := by omega
        refine OKL.bind (liftE_okl (P := fun a s' => a = off ∧
          s' = { s with r := r3, pc := { s.pc with emptyItemBlank := false } }) hoff ⟨rfl, rfl⟩)
          (fun a s4 ha => ?_)
        obtain ⟨ha, hs4⟩ := ha
        subst ha hs4
        refine OKL.bind (m := newNode { kind := Kind.listItem, offset := m.r3 + a })
          (P := fun id s' => id = s.nodes.length ∧
            s' = { r := r3, nodes := s.nodes ++ [({ kind := Kind.listItem, offset := m.r3 + a } : Node)],
                   pc := { s.pc with emptyItemBlank := false } })
          (OKL.ok ⟨rfl, rfl⟩) (fun id s5 hs5 => ?_)
        obtain ⟨hid, hs5⟩ := hs5
        subst hid hs5
        have hr1 := hm.r1_nonneg
        have hr13 := hm.r13
        have hnode : ∀ id, some s.nodes.length = some id → id = s.nodes.length ∧ (nd s parent).kind = .list ∧
            ∃ n, s.nodes ++ [({ kind := Kind.listItem, offset := m.r3 + a } : Node)] = s.nodes ++ [n] ∧
              n.kind = .listItem ∧ n.children = [] ∧ n.lines = [] ∧ n.linesNil = true ∧ n.parent = none ∧
              2 ≤ n.offset := by
          intro id hid
          cases hid
          exact ⟨rfl, hkl, _, rfl, rfl, rfl, rfl, rfl, rfl, by simp only; omega⟩
        by_cases h4 : m.r4 < 0
        · rw [if_pos (by simpa using h4)]
          exact OKL.ok ⟨c, h3', hpad, Nat.le_refl _, fun _ => rfl, (fun hh => by cases hh), hp, rfl, rfl, rfl, rfl,
            (fun hh => by cases hh), hnode⟩
        · rw [if_neg (by simpa using h4)]
          rcases hm.tail with ⟨e4, _, _⟩ | ⟨e43, h4lt, h45, h5le, _⟩
          · omega
          have hsl := li_slice_ok line m.r4 m.r5 (by omega) h45 h5le
          refine OKL.bind (liftE_okl (P := fun v s' => v = (line.drop m.r4.toNat).take (m.r5.toNat - m.r4.toNat) ∧
            s' = { r := r3, nodes := s.nodes ++ [({ kind := Kind.listItem, offset := m.r3 + a } : Node)],
                   pc := { s.pc with emptyItemBlank := false } }) hsl ⟨rfl, rfl⟩) (fun v s6 hv => ?_)
          obtain ⟨hv, hs6⟩ := hv
          subst hv hs6
          by_cases hbl : isBlank ((line.drop m.r4.toNat).take (m.r5.toNat - m.r4.toNat)) = true
          · rw [if_pos hbl]
            exact OKL.ok ⟨c, h3', hpad, Nat.le_refl _, fun _ => rfl, (fun hh => by cases hh), hp, rfl, rfl, rfl, rfl,
              (fun hh => by cases hh), hnode⟩
          · rw [if_neg hbl]
            have hnb : isBlank (line.drop m.r4.toNat) = false :=
              li_isBlank_take _ _ (by cases hh : isBlank _ with
                | true => exact absurd hh hbl
                | false => rfl)
            refine OKL.bind (liftE_okl (P := fun v s' => v = line.drop m.r4.toNat ∧
              s' = { r := r3, nodes := s.nodes ++ [({ kind := Kind.listItem, offset := m.r3 + a } : Node)],
                     pc := { s.pc with emptyItemBlank := false } })
              (sliceFrom_ok line m.r4 (by omega) (by omega)) ⟨rfl, rfl⟩) (fun v s7 hv => ?_)
            obtain ⟨hv, hs7⟩ := hv
            subst hv hs7
            obtain ⟨hq0, hq1, hq2, hq3⟩ :=
              li_indentPosition_ok (line.drop m.r4.toNat) (lo + m.r4) a hoff0 (hoffw (by omega) hnb)
            have hq2' := hq2 hnb
            generalize indentPosition (line.drop m.r4.toNat) (lo + m.r4) a = pp at hq0 hq1 hq2' hq3 ⊢
            obtain ⟨pos, padding⟩ := pp
            simp only [List.length_drop] at hq0 hq1 hq2' hq3 ⊢
            -- the marker byte lies behind the virtual padding
            obtain ⟨mb, hmb1, hmb2, _, _⟩ := hm.marker
            have hpm := hpadle rfl hmb1 hmb2
            have hch0 : 0 ≤ m.r3 + pos := by omega
            have hchlt : (m.r3 + pos).toNat + 1 ≤ c.pad + (lineEnd src c.p - c.p) := by omega
            obtain ⟨hw1, hw2, hw3⟩ := advPadCur_within (src := src) (c := c) hp hpad (pos := m.r3 + pos)
              (padding := padding) hchlt (fun _ => by omega)
            have hprog : c.p < (advPadCur src (m.r3 + pos) padding c).p := by
              have := advN_progress src (m.r3 + pos).toNat c hp (by omega)
              unfold advPadCur
              simp only
              split <;> exact this
            refine OKL.bind (advanceAndSetPadding_okl
              (s := { r := r3, nodes := s.nodes ++ [({ kind := Kind.listItem, offset := m.r3 + a } : Node)],
                      pc := { s.pc with emptyItemBlank := false } }) h3' hch0 padding) (fun _ s8 hs8 => ?_)
            obtain ⟨r8, hs8, h8⟩ := hs8
            subst hs8
            exact OKL.ok ⟨_, h8, hw3, hw2, (fun hh => by cases hh), fun _ => hprog, hw1, rfl, rfl, rfl, rfl,
              (fun hh => by cases hh), hnode⟩

theorem listItemOpen_okl (src : Bytes) (parent : Nat) (s : St) (c : RCur) (h : LineCtx src s c)
    (hk : li_ListKidsOK s parent) :
    OKL (fun a s' => ∃ c', RI src s'.r c' ∧ PadOK c' ∧ c.p ≤ c'.p ∧ (a.1 = none → c' = c) ∧
        (a.2.hasChildren = true → c.p < c'.p) ∧                         -- PROGRESS: the marker byte is consumed
        s'.pc.opened = s.pc.opened ∧ s'.pc.blockOffset = s.pc.blockOffset ∧ s'.pc.tmpPara = s.pc.tmpPara ∧
        s'.pc.fence = s.pc.fence ∧
        (a.1 = none → s'.nodes = s.nodes) ∧
        (∀ id, a.1 = some id → id = s.nodes.length ∧ (nd s parent).kind = .list ∧
            ∃ n, s'.nodes = s.nodes ++ [n] ∧ n.kind = .listItem ∧ n.children = [] ∧ n.lines = [] ∧
              n.linesNil = true ∧ n.parent = none))
      (listItemOpen parent s) := by
  refine (li_listItemOpen_okl src parent s c h hk).mono (fun a s' hq => ?_)
  obtain ⟨c', q1, q2, q3, q4, q5, _, q7, q8, q9, q10, q11, q12⟩ := hq
  refine ⟨c', q1, q2, q3, q4, q5, q7, q8, q9, q10, q11, fun id hid => ?_⟩
  obtain ⟨e1, e2, n, e3, e4, e5, e6, e7, e8, _⟩ := q12 id hid
  exact ⟨e1, e2, n, e3, e4, e5, e6, e7, e8⟩

/-! ### listItemParser.Continue -/

/-- what `listParser.Continue` has established on the same line before `listItemParser.Continue` runs for the last item
    `node` of the list `p`: on a non-blank line it has NOT seen one of the two situations in which it answers Close
    and in which list_item.go:75 would get `IndentPosition = -1` -/
def li_ListContinued (src : Bytes) (s : St) (c : RCur) (node p : Nat) : Prop :=
  let line := (RCur.view src c).getD []
  let indent := (indentWidthI line (loVal src c)).1
  let offset := li_lastOff s p
  let isEmpty := ((nd s node).children.length == 0 && s.pc.emptyItemBlank)
  isBlank line = false →
    ¬ (indent < offset ∧ 4 ≤ indent) ∧
    ¬ (isEmpty = true ∧ indent < offset ∧ indent < 4 ∧ (matchesListItem line true).2 = .notList)

theorem listItemContinue_okl (src : Bytes) (node : Nat) (s : St) (c : RCur) (h : RI src s.r c) (hpad : PadOK c)
    (hlt : c.p < src.length) (p : Nat) (hp : (nd s node).parent = some p) (hk : li_ListKidsOK s p)
    (hoff : 0 ≤ li_lastOff s p) (hlist : li_ListContinued src s c node p) :
    OKL (fun st s' => ∃ c', RI src s'.r c' ∧ PadOK c' ∧ c.p ≤ c'.p ∧ s'.nodes = s.nodes ∧
        s'.pc.opened = s.pc.opened ∧ s'.pc.tmpPara = s.pc.tmpPara ∧ s'.pc.fence = s.pc.fence ∧
        (st.cont = true → st.hasChildren = true))
      (listItemContinue node s) := by
  unfold listItemContinue
  refine OKL.bind (peekLine_okl h) (fun x s1 hx => ?_)
  obtain ⟨hx, r1, hs1, h1⟩ := hx
  subst hx hs1
  simp only
  have hvl := view_getD_length_nat src c hlt
  unfold li_ListContinued at hlist
  simp only at hlist
  generalize hline : (RCur.view src c).getD [] = line at hvl hlist ⊢
  by_cases hbl : isBlank line = true
  · rw [if_pos hbl]
    have hlen : 0 ≤ (line.length : Int) - 1 := by have := lt_lineEnd src hlt; omega
    refine OKL.bind (advance_okl (s := { s with r := r1 }) h1 hlen) (fun _ s2 hs2 => ?_)
    obtain ⟨r2, hs2, h2⟩ := hs2
    subst hs2
    exact OKL.ok ⟨_, h2, hpad.advN h1.inRange _, (advN_mono src _ c h1.inRange).1, rfl, rfl, rfl, rfl, fun _ => rfl⟩
  · rw [if_neg hbl]
    have hnb : isBlank line = false := by
      cases hh : isBlank line with
      | true => exact absurd hh hbl
      | false => rfl
    obtain ⟨hbad1, hbad2⟩ := hlist hnb
    refine OKL.bind (m := getNode node) (P := fun n s' => n = nd s node ∧ s' = { s with r := r1 })
      (OKL.ok ⟨rfl, rfl⟩) (fun n s2 hn => ?_)
    obtain ⟨hn, hs2⟩ := hn
    subst hn hs2
    rw [hp]
    simp only
    refine OKL.bind (li_lastOffset_okl { s with r := r1 } p hk) (fun offset s3 ho => ?_)
    obtain ⟨ho, hs3⟩ := ho
    rw [hs3]
    clear hs3 s3
    have ho' : offset = li_lastOff s p := ho
    subst ho'
    refine OKL.bind (m := getPc) (P := fun pc s' => pc = s.pc ∧ s' = { s with r := r1 })
      (OKL.ok ⟨rfl, rfl⟩) (fun pc s4 hpc => ?_)
    obtain ⟨hpc, hs4⟩ := hpc
    subst hpc hs4
    refine OKL.bind (lineOffset_okl (s := { s with r := r1 }) h1) (fun lo s5 hlo => ?_)
    obtain ⟨hlov, r5, hs5, h5⟩ := hlo
    have hlov' := hlov hlt
    subst hlov' hs5
    simp only
    clear hlov ho
    generalize hind : (indentWidthI line (loVal src c)).1 = indent at hbad1 hbad2 ⊢
    generalize ((nd s node).children.length == 0 && s.pc.emptyItemBlank) = isEmpty at hbad2 ⊢
    -- list_item.go:75-77, reached with `offset ≤ indent`
    have tail : li_lastOff s p ≤ indent →
        OKL (fun st s' => ∃ c', RI src s'.r c' ∧ PadOK c' ∧ c.p ≤ c'.p ∧ s'.nodes = s.nodes ∧
            s'.pc.opened = s.pc.opened ∧ s'.pc.tmpPara = s.pc.tmpPara ∧ s'.pc.fence = s.pc.fence ∧
            (st.cont = true → st.hasChildren = true))
          ((advanceAndSetPadding (indentPosition line (loVal src c) (li_lastOff s p)).1
              (indentPosition line (loVal src c) (li_lastOff s p)).2 >>= fun _ => pure stContinueHasChildren)
            { s with r := r5 }) := by
      intro hle
      obtain ⟨q0, q1, q2, q3⟩ := li_indentPosition_ok line (loVal src c) (li_lastOff s p) hoff (by rw [hind]; exact hle)
      have q2' := q2 hnb
      generalize indentPosition line (loVal src c) (li_lastOff s p) = pp at q0 q1 q2' q3 ⊢
      obtain ⟨pos, padding⟩ := pp
      simp only at q0 q1 q2' q3 ⊢
      obtain ⟨hw1, hw2, hw3⟩ := advPadCur_within (src := src) (c := c) hlt hpad (pos := pos)
        (padding := padding) (by omega) q3
      refine OKL.bind (advanceAndSetPadding_okl (s := { s with r := r5 }) h5 q0 padding) (fun _ s8 hs8 => ?_)
      obtain ⟨r8, hs8, h8⟩ := hs8
      subst hs8
      exact OKL.ok ⟨_, h8, hw3, hw2, rfl, rfl, rfl, rfl, fun _ => rfl⟩
    by_cases hc1 : ((isEmpty || decide (indent < li_lastOff s p)) && decide (indent < 4)) = true
    · rw [if_pos hc1]
      simp only [Bool.and_eq_true, Bool.or_eq_true, decide_eq_true_eq] at hc1
      by_cases hc2 : ((matchesListItem line true).2 != ListTyp.notList) = true
      · rw [if_pos hc2]
        simp only [bind, StateT.bind, modPc, pure, StateT.pure, Except.bind, Except.pure]
        exact OKL.ok ⟨c, h5, hpad, Nat.le_refl _, rfl, rfl, rfl, rfl, fun hh => by cases hh⟩
      · rw [if_neg hc2]
        have hnl : (matchesListItem line true).2 = ListTyp.notList := by simpa using hc2
        by_cases hc3 : (!isEmpty) = true
        · rw [if_pos hc3]
          exact OKL.ok ⟨c, h5, hpad, Nat.le_refl _, rfl, rfl, rfl, rfl, fun hh => by cases hh⟩
        · rw [if_neg hc3]
          have hemp : isEmpty = true := by simpa using hc3
          refine tail ?_
          rcases Int.lt_or_le indent (li_lastOff s p) with hh | hh
          · exact absurd ⟨hemp, hh, hc1.2, hnl⟩ hbad2
          · exact hh
    · rw [if_neg hc1]
      refine tail ?_
      rcases Int.lt_or_le indent (li_lastOff s p) with hh | hh
      · exfalso
        apply hc1
        have : indent < 4 := by
          rcases Int.lt_or_le indent 4 with h4 | h4
          · exact h4
          · exact absurd ⟨hh, h4⟩ hbad1
        simp [hh, this]
      · exact hh

end GM.Blocks
