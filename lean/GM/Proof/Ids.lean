/-
  GM.Proof.Ids — lemmas about the id generator model (GM.Model.Ids) for property C15.
-/
import GM.Model.Ids

namespace GM.Proof.Ids
open GM GM.Ids

/-! ### decimal formatting is injective (it has a left inverse) -/

def digitVal (a : Nat) (d : UInt8) : Nat := a * 10 + (d.toNat - 48)
def parseDec (bs : Bytes) : Nat := bs.foldl digitVal 0

theorem foldl_decAux : ∀ (fuel n : Nat) (acc : Bytes), n < fuel →
    (decAux fuel n acc).foldl digitVal 0 = acc.foldl digitVal n := by
  intro fuel
  induction fuel with
  | zero => intro n acc h; omega
  | succ f ih =>
    intro n acc h
    unfold decAux
    split
    · rename_i h10
      have : (UInt8.ofNat (48 + n)).toNat - 48 = n := by
        simp only [UInt8.toNat_ofNat']; omega
      simp only [List.foldl_cons, digitVal, this]
      congr 1; omega
    · rename_i h10
      rw [ih (n / 10) _ (by omega)]
      have : (UInt8.ofNat (48 + n % 10)).toNat - 48 = n % 10 := by
        simp only [UInt8.toNat_ofNat']; omega
      simp only [List.foldl_cons, digitVal, this]
      congr 1; omega

theorem parseDec_dec (n : Nat) : parseDec (dec n) = n := by
  unfold parseDec dec
  rw [foldl_decAux (n + 1) n [] (by omega)]
  rfl

theorem dec_inj {i j : Nat} (h : dec i = dec j) : i = j := by
  have := congrArg parseDec h
  simpa [parseDec_dec] using this

theorem cand_inj {b : Bytes} {i j : Nat} (h : cand b i = cand b j) : i = j := by
  unfold cand at h
  have h' := List.append_cancel_left h
  injection h' with _ h2
  exact dec_inj h2

theorem cand_ne_nil (b : Bytes) (i : Nat) : cand b i ≠ [] := by
  unfold cand; simp

theorem base_ne_nil (v : Bytes) (h : Bool) : base v h ≠ [] := by
  unfold base
  simp only
  split
  · cases h <;> simp [headingDefault, idDefault]
  · rename_i hne
    intro h0
    simp [h0] at hne

/-! ### pigeonhole -/

theorem pigeon {α : Type} [DecidableEq α] (f : Nat → α) (hinj : ∀ i j, f i = f j → i = j) :
    ∀ (n : Nat) (l : List α), (∀ j, j < n → f j ∈ l) → n ≤ l.length := by
  intro n
  induction n with
  | zero => intro l _; omega
  | succ n ih =>
    intro l h
    have hn : f n ∈ l := h n (by omega)
    have h' : ∀ j, j < n → f j ∈ l.erase (f n) := by
      intro j hj
      have hne : f j ≠ f n := fun e => by have := hinj _ _ e; omega
      exact (List.mem_erase_of_ne hne).2 (h j (by omega))
    have := ih (l.erase (f n)) h'
    rw [List.length_erase_of_mem hn] at this
    have : 0 < l.length := List.length_pos_of_mem hn
    omega

/-! ### the probing loop -/

theorem probe_none {used : Tbl} {b : Bytes} : ∀ (fuel i : Nat), probe used b fuel i = none →
    ∀ j, j < fuel → cand b (i + j) ∈ used := by
  intro fuel
  induction fuel with
  | zero => intro i _ j hj; omega
  | succ f ih =>
    intro i h j hj
    unfold probe at h
    split at h
    · rename_i hc
      cases j with
      | zero => simpa using hc
      | succ j =>
        have := ih (i + 1) h j (by omega)
        have e : i + 1 + j = i + (j + 1) := by omega
        rwa [e] at this
    · cases h

theorem probe_some_spec {used : Tbl} {b : Bytes} : ∀ (fuel i : Nat) (c : Bytes), probe used b fuel i = some c →
    c ∉ used ∧ ∃ j, j < fuel ∧ c = cand b (i + j) := by
  intro fuel
  induction fuel with
  | zero => intro i c h; simp [probe] at h
  | succ f ih =>
    intro i c h
    unfold probe at h
    split at h
    · obtain ⟨h1, j, hj, hc⟩ := ih (i + 1) c h
      exact ⟨h1, j + 1, by omega, by rw [hc]; congr 1; omega⟩
    · rename_i hc
      injection h with h
      subst h
      exact ⟨by simpa using hc, 0, by omega, rfl⟩

/-- the bound given to the probing loop is never reached: among the `|used| + 1` candidates
    `b-1 … b-(|used|+1)` (pairwise different) one is not in the table. -/
theorem probe_isSome (used : Tbl) (b : Bytes) : ∃ c, probe used b (used.length + 1) 1 = some c := by
  cases h : probe used b (used.length + 1) 1 with
  | some c => exact ⟨c, rfl⟩
  | none =>
    have hall := probe_none (used.length + 1) 1 h
    have := pigeon (fun j => cand b (1 + j)) (fun i j e => by have := cand_inj e; omega)
      (used.length + 1) used hall
    omega

/-! ### Generate -/

theorem generate_isSome (used : Tbl) (v : Bytes) (h : Bool) : ∃ id, generate used v h = some (id, id :: used) := by
  unfold generate
  simp only
  split
  · obtain ⟨c, hc⟩ := probe_isSome used (base v h)
    exact ⟨c, by rw [hc]⟩
  · exact ⟨_, rfl⟩

theorem generate_spec {used : Tbl} {v : Bytes} {h : Bool} {id : Bytes} {used' : Tbl}
    (hg : generate used v h = some (id, used')) : id ∉ used ∧ used' = id :: used ∧ id ≠ [] := by
  unfold generate at hg
  simp only at hg
  split at hg
  · split at hg
    · rename_i c hc
      injection hg with hg
      injection hg with h1 h2
      subst h1
      obtain ⟨hf, j, _, hj⟩ := probe_some_spec _ _ _ hc
      exact ⟨hf, h2.symm, by rw [hj]; exact cand_ne_nil _ _⟩
    · cases hg
  · rename_i hc
    injection hg with hg
    injection hg with h1 h2
    subst h1
    exact ⟨by simpa using hc, h2.symm, base_ne_nil _ _⟩

/-- the number of probes: the returned id is the base or `base-i` with `1 ≤ i ≤ |used| + 1`. -/
theorem generate_bound {used : Tbl} {v : Bytes} {h : Bool} {id : Bytes} {used' : Tbl}
    (hg : generate used v h = some (id, used')) :
    id = base v h ∨ ∃ i, 1 ≤ i ∧ i ≤ used.length + 1 ∧ id = cand (base v h) i ∧
      ∀ j, 1 ≤ j → j < i → cand (base v h) j ∈ used := by
  unfold generate at hg
  simp only at hg
  split at hg
  · split at hg
    · rename_i c hc
      injection hg with hg
      injection hg with h1 _
      subst h1
      right
      -- strengthen: first free candidate
      have key : ∀ (fuel i : Nat) (c : Bytes), probe used (base v h) fuel i = some c →
          ∃ j, j < fuel ∧ c = cand (base v h) (i + j) ∧ ∀ k, k < j → cand (base v h) (i + k) ∈ used := by
        intro fuel
        induction fuel with
        | zero => intro i c h; simp [probe] at h
        | succ f ih =>
          intro i c hp
          unfold probe at hp
          split at hp
          · rename_i hin
            obtain ⟨j, hj, hc, hk⟩ := ih (i + 1) c hp
            refine ⟨j + 1, by omega, by rw [hc]; congr 1; omega, ?_⟩
            intro k hk'
            cases k with
            | zero => simpa using hin
            | succ k =>
              have := hk k (by omega)
              have e : i + 1 + k = i + (k + 1) := by omega
              rwa [e] at this
          · injection hp with hp
            exact ⟨0, by omega, by simp [hp.symm], fun k hk => by omega⟩
      obtain ⟨j, hj, hc', hk⟩ := key _ _ _ hc
      refine ⟨1 + j, by omega, by omega, hc', ?_⟩
      intro k hk1 hk2
      have := hk (k - 1) (by omega)
      have e : 1 + (k - 1) = k := by omega
      rwa [e] at this
    · cases hg
  · injection hg with hg
    injection hg with h1 _
    exact Or.inl h1.symm

/-! ### operation sequences -/

theorem run_isSome : ∀ (ops : List Op) (used : Tbl), ∃ ids, run used ops = some ids := by
  intro ops
  induction ops with
  | nil => intro used; exact ⟨[], rfl⟩
  | cons op ops ih =>
    intro used
    cases op with
    | put v => simpa [run] using ih (put used v)
    | gen v h =>
      obtain ⟨id, hid⟩ := generate_isSome used v h
      obtain ⟨ids, hids⟩ := ih (id :: used)
      exact ⟨id :: ids, by simp [run, hid, hids]⟩

/-- the ids returned by the Generate calls of any Generate/Put sequence, started on any table, are pairwise
    different, non-empty, and none of them was in the table at the start. -/
theorem run_fresh : ∀ (ops : List Op) (used : Tbl) (ids : List Bytes), run used ops = some ids →
    ids.Nodup ∧ (∀ id ∈ ids, id ∉ used) ∧ (∀ id ∈ ids, id ≠ []) := by
  intro ops
  induction ops with
  | nil =>
    intro used ids h
    simp [run] at h
    subst h
    simp
  | cons op ops ih =>
    intro used ids h
    cases op with
    | put v =>
      simp only [run] at h
      obtain ⟨h1, h2, h3⟩ := ih _ _ h
      refine ⟨h1, ?_, h3⟩
      intro id hid hin
      exact h2 id hid (by simp [put, hin])
    | gen v hd =>
      simp only [run] at h
      split at h
      · cases h
      · rename_i id used' hg
        obtain ⟨hf, hu, hne⟩ := generate_spec hg
        subst hu
        cases hr : run (id :: used) ops with
        | none => simp [hr] at h
        | some rest =>
          simp [hr] at h
          subst h
          obtain ⟨h1, h2, h3⟩ := ih _ _ hr
          refine ⟨?_, ?_, ?_⟩
          · refine List.nodup_cons.2 ⟨?_, h1⟩
            intro hin
            exact h2 id hin (by simp)
          · intro x hx
            rcases List.mem_cons.1 hx with rfl | hx
            · exact hf
            · intro hin
              exact h2 x hx (by simp [hin])
          · intro x hx
            rcases List.mem_cons.1 hx with rfl | hx
            · exact hne
            · exact h3 x hx

theorem run_length : ∀ (ops : List Op) (used : Tbl) (ids : List Bytes), run used ops = some ids →
    ids.length = (ops.filter fun o => match o with | .gen _ _ => true | .put _ => false).length := by
  intro ops
  induction ops with
  | nil => intro used ids h; simp [run] at h; subst h; rfl
  | cons op ops ih =>
    intro used ids h
    cases op with
    | put v => simp only [run] at h; simpa using ih _ _ h
    | gen v hd =>
      simp only [run] at h
      split at h
      · cases h
      · rename_i id used' hg
        cases hr : run used' ops with
        | none => simp [hr] at h
        | some rest =>
          simp [hr] at h
          subst h
          simp [ih _ _ hr]

end GM.Proof.Ids
