/-
  GM.Proof.BlocksShape — the store-shape facts of the final store of the block phase (`run`, every byte string), in
  the shape the end-to-end proof of C05 (`wfAst`) consumes: lines in range, lines ordered, Document / List nodes
  without lines, and `list_shape`: a child is a ListItem exactly when its parent is a List.

  `list_shape` joins three invariants: `KidsOK` of the no-panic proof (children of a List are ListItems — read off the
  final state through `blocksLoopL`), `TreeOK` of the close discipline (a child's parent pointer points back), and
  `ItemPar` (GM.Proof.BlocksShapeJDrv: a ListItem's parent is a List).
-/
import GM.Proof.BlocksShapeJDrv

namespace GM.Blocks
open GM GM.Text GM.Spec GM.Proof.Reader
open GM.Proof.BlocksWF0 (isRaw)

namespace L

section run
variable {src : Bytes} (lsp : LSp src)
include lsp

/-- the list-aware invariant of the no-panic proof holds of the final store -/
theorem run_stable (s : St) (h : run src = .ok s) : StableL src 0 s := by
  unfold run parseBlocks at h
  have hnd0 : ∀ i, nd ({ (initSt src) with pc := { (initSt src).pc with opened := [] } } : St) i =
      if i = 0 then { kind := .document } else default := by
    intro i
    cases i with
    | zero => rfl
    | succ n => rfl
  have hnodes0 : NodesOK src { (initSt src) with pc := { (initSt src).pc with opened := [] } } := by
    intro n hn
    simp only [initSt, List.mem_singleton] at hn
    subst hn
    exact ⟨by intro t ht; simp at ht, fun _ => rfl⟩
  have hinit : StableL src 0 { (initSt src) with pc := { (initSt src).pc with opened := [] } } := by
    refine ⟨hnodes0, ⟨?_, ?_⟩, ?_, ?_, ⟨⟨?_, ?_, ?_⟩, ?_, ?_, ?_, ?_, ?_⟩, ?_, ?_⟩
    · intro t h; simp [initSt] at h
    · intro f h; simp [initSt] at h
    · intro b hb; simp at hb
    · intro b hb; simp at hb
    · intro i lc hk; rw [hnd0] at hk; split at hk <;> cases hk
    · intro i hk; rw [hnd0] at hk; split at hk <;> cases hk
    · intro i p hp; rw [hnd0] at hp; split at hp <;> cases hp
    · intro i p hp; rw [hnd0] at hp; split at hp <;> cases hp
    · rw [hnd0]; rfl
    · simp [initSt]
    · intro b hb; simp at hb
    · simp
    · trivial
    · show (nd _ (lastNode 0 [])).kind ≠ .list
      rw [lastNode_nil, hnd0]; decide
  simp only [bind, StateT.bind, modPc, source, Except.bind, pure, StateT.pure, Except.pure] at h
  cases hb : blocksLoop 0 (linesFuel (initSt src).r.source) []
      { r := (initSt src).r, nodes := (initSt src).nodes, pc := { (initSt src).pc with opened := [] } } with
  | error e => rw [hb] at h; cases h
  | ok p =>
    rw [hb] at h
    obtain ⟨u, s1⟩ := p
    have hs : s1 = s := by simpa [Except.map] using h
    subst hs
    exact (blocksLoopL lsp 0 rfl (linesFuel (initSt src).r.source) []
      { (initSt src) with pc := { (initSt src).pc with opened := [] } } RCur.init (ri_init src)
      (fun h => absurd rfl h) hinit rfl).of_ok hb

end run

end L

/-- **`list_shape`, for every byte string**: in the final store of the block phase a child is a ListItem exactly when
    its parent is a List. -/
theorem run_list_shape (src : Bytes) (s : St) (h : run src = .ok s) :
    ∀ i, ∀ c ∈ (s.nodes.getD i default).children,
      ((s.nodes.getD c default).kind = .listItem ↔ (s.nodes.getD i default).kind = .list) := by
  have hkids := (L.run_stable (lsp_all src) s h).ls.kids
  have htree := (L.run_closed_aux (lsp_all src) s h).1.tree
  have hip := run_itemPar src s h
  intro i c hc
  constructor
  · intro hk
    exact hip c i hk (htree.kid i c hc)
  · intro hk
    exact (hkids.kids i c hk hc).2

/-- a ListItem's parent is a List; the parent of a node under a List is... a ListItem: both directions on parent
    pointers -/
theorem run_item_parent (src : Bytes) (s : St) (h : run src = .ok s) :
    ∀ i p, (nd s i).parent = some p → ((nd s i).kind = .listItem ↔ (nd s p).kind = .list) := by
  have hkids := (L.run_stable (lsp_all src) s h).ls.kids
  have hip := run_itemPar src s h
  intro i p hp
  exact ⟨fun hk => hip i p hk hp, fun hk => hkids.pk i p hp hk⟩

/-- **the four store facts the end-to-end proof of C05 needs, for the final store of `run`, every byte string**:
    lines in range; lines ordered; Document and List nodes have no lines; a child is a ListItem exactly when its parent
    is a List. (Same shapes as the fields `lines`, `ord`, `noLines`, `listShape` of `GM.E2E.StoreHypsCore`; `OrdFrom` is
    `GM.Blocks.OrdFrom`, the same recursion as `GM.E2E.ordFrom`.) -/
theorem store_hyps_core_run (src : Bytes) (s : St) (h : run src = .ok s) :
    (∀ n ∈ s.nodes, ∀ t ∈ n.lines, 0 ≤ t.start ∧ t.start ≤ t.stop ∧ t.stop ≤ src.length ∧ 0 ≤ t.padding) ∧
    (∀ n ∈ s.nodes, OrdFrom 0 n.lines) ∧
    (∀ n ∈ s.nodes, (n.kind = .document ∨ n.kind = .list) → n.lines = []) ∧
    (∀ i, ∀ c ∈ (s.nodes.getD i default).children,
      ((s.nodes.getD c default).kind = .listItem ↔ (s.nodes.getD i default).kind = .list)) := by
  refine ⟨fun n hn t ht => (nodesOK_of_run h n hn).lines t ht, fun n hn => ?_, fun n hn hk => ?_, run_list_shape src s h⟩
  · cases hr : isRaw n.kind with
    | true => exact run_ordered_raw src s h n hn hr
    | false => exact run_ordered src s h n hn hr
  · refine run_no_lines src s h n hn ?_
    rcases hk with hk | hk <;> rw [hk] <;> rfl

end GM.Blocks
