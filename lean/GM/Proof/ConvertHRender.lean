/-
  GM.Proof.ConvertHRender — the renderer model writes the start tag of every Heading node it visits, with the node's
  attributes: `headingTag level attrs` is a contiguous part of `render rc t` for every `(level, attrs) ∈ rHeadings t`
  (`render_heading_infix`). `rHeadings` follows the renderer's walk (children of a node whose renderer function answers
  WalkSkipChildren — CodeSpan, Image, RawHTML — are not visited). For an attribute list that is exactly `id="v"` the tag is
  `<hN id="escapeHTML v">` (`headingTag_id`): `id` is in html.HeadingAttributeFilter (regenerated table `GM.Gen`).
-/
import GM.Model.ConvertH
import GM.Model.Render

namespace GM.ConvertH
open GM

/-- the Heading node (level, attributes) of a kind -/
def headingOf (k : GM.Kind) (a : Option (List GM.Attr)) : List (Nat × Option (List GM.Attr)) :=
  match k with
  | .heading lv => [(lv, a)]
  | _ => []

mutual
/-- the Heading nodes the renderer's walk visits, in document order: (level, attributes) -/
def rHeadings : GM.Node → List (Nat × Option (List GM.Attr))
  | .mk k a cs => headingOf k a ++ (if skipsChildren k then [] else rHeadingsL cs)
def rHeadingsL : List GM.Node → List (Nat × Option (List GM.Attr))
  | [] => []
  | t :: rest => rHeadings t ++ rHeadingsL rest
end

/-- what renderHeading writes when entering (html.go:314-320) -/
def headingTag (lv : Nat) (a : Option (List GM.Attr)) : Bytes :=
  strBytes "<h" ++ [UInt8.ofNat (48 + lv)] ++ renderAttrs Gen.HeadingAttributeFilter a ++ [62]

theorem enter_heading (rc : RCfg) (pih : Bool) (next : Option GM.Node) (lv : Nat) (a : Option (List GM.Attr))
    (cs : List GM.Node) : enter rc pih next (.heading lv) a cs = headingTag lv a := by
  simp [enter, handled, headingTag]

theorem infix_of_left {l a : Bytes} (b : Bytes) (h : l <:+: a) : l <:+: a ++ b := by
  obtain ⟨s, t, e⟩ := h
  exact ⟨s, t ++ b, by rw [← e]; simp [List.append_assoc]⟩

theorem infix_of_right {l b : Bytes} (a : Bytes) (h : l <:+: b) : l <:+: a ++ b := by
  obtain ⟨s, t, e⟩ := h
  exact ⟨a ++ s, t, by rw [← e]; simp [List.append_assoc]⟩

mutual
theorem renderNode_heading_infix (rc : RCfg) : ∀ (t : GM.Node) (pih : Bool) (next : Option GM.Node)
    (p : Nat × Option (List GM.Attr)), p ∈ rHeadings t → headingTag p.1 p.2 <:+: renderNode rc pih next t
  | .mk k a cs, pih, next, p, hp => by
    unfold rHeadings at hp
    unfold renderNode
    rcases List.mem_append.1 hp with hp | hp
    · -- the node itself
      unfold headingOf at hp
      split at hp
      · rename_i lv
        rw [List.mem_singleton] at hp
        subst hp
        rw [enter_heading]
        exact infix_of_left _ (infix_of_left _ ⟨[], [], by simp⟩)
      · cases hp
    · split at hp
      · cases hp
      · rename_i hs
        have hs' : skipsChildren k = false := by simpa using hs
        simp only [hs', Bool.and_false, Bool.false_eq_true, if_false]
        exact infix_of_left _ (infix_of_right _ (renderNodes_heading_infix rc cs _ p hp))
theorem renderNodes_heading_infix (rc : RCfg) : ∀ (ts : List GM.Node) (pih : Bool)
    (p : Nat × Option (List GM.Attr)), p ∈ rHeadingsL ts → headingTag p.1 p.2 <:+: renderNodes rc pih ts
  | [], _, p, hp => by unfold rHeadingsL at hp; cases hp
  | t :: rest, pih, p, hp => by
    unfold rHeadingsL at hp
    unfold renderNodes
    rcases List.mem_append.1 hp with hp | hp
    · exact infix_of_left _ (renderNode_heading_infix rc t _ _ p hp)
    · exact infix_of_right _ (renderNodes_heading_infix rc rest _ p hp)
end

theorem render_heading_infix (rc : RCfg) (t : GM.Node) (p : Nat × Option (List GM.Attr)) (hp : p ∈ rHeadings t) :
    headingTag p.1 p.2 <:+: render rc t := renderNode_heading_infix rc t false none p hp

/-- the attribute list `id="v"` as the renderer sees it -/
def idAttr (v : Bytes) : Option (List GM.Attr) := some [{ name := Attr.nameId, value := some v }]

/-- `<hN id="v">` (` id="` = 32 105 100 61 34, `">` = 34 62) -/
def idTag (lv : Nat) (v : Bytes) : Bytes :=
  strBytes "<h" ++ [UInt8.ofNat (48 + lv)] ++ [32, 105, 100, 61, 34] ++ escapeHTML v ++ [34, 62]

theorem headingTag_id (lv : Nat) (v : Bytes) : headingTag lv (idAttr v) = idTag lv v := by
  have hm : Attr.nameId ∈ Gen.HeadingAttributeFilter := by decide
  simp [headingTag, idAttr, idTag, renderAttrs, renderAttrList, renderAttr, hm]
  simp [Attr.nameId]

/-! ### visited Headings are Headings -/

mutual
theorem rHeadings_sub : ∀ (t : GM.Node) (p : Nat × Option (List GM.Attr)), p ∈ rHeadings t → p.2 ∈ headingAttrs t
  | .mk k a cs, p, hp => by
    unfold rHeadings at hp
    unfold headingAttrs
    rcases List.mem_append.1 hp with hp | hp
    · unfold headingOf at hp
      split at hp
      · rw [List.mem_singleton] at hp
        subst hp
        simp [isHeadingKind]
      · cases hp
    · split at hp
      · cases hp
      · exact List.mem_append_right _ (rHeadingsL_sub cs p hp)
theorem rHeadingsL_sub : ∀ (ts : List GM.Node) (p : Nat × Option (List GM.Attr)), p ∈ rHeadingsL ts → p.2 ∈ headingAttrsL ts
  | [], p, hp => by unfold rHeadingsL at hp; cases hp
  | t :: rest, p, hp => by
    unfold rHeadingsL at hp
    unfold headingAttrsL
    rcases List.mem_append.1 hp with hp | hp
    · exact List.mem_append_left _ (rHeadings_sub t p hp)
    · exact List.mem_append_right _ (rHeadingsL_sub rest p hp)
end

end GM.ConvertH
