/-
  GM.Proof.ConvertFDisc — THE CLOSE DISCIPLINE of the block driver with the footnote block parser (`MF`, GM.Model.ConvertF):
  invariant `FJ f s` of the two-layer state
    * the store is a well-formed tree (`TreeWF`), the footnote context names existing nodes other than node 0 (`IdsOK`);
    * every `*ast.Footnote` and the FootnoteList are nodes of kind Blockquote (their store kind), and NO node of that kind has
      lines;
    * every child edge to a Footnote comes from the FootnoteList, or the Footnote is still on the open-block stack;
    * a node on the stack exists and has the kind its parser builds.
  Technique: GM.Proof.ConvertHWFDrv (headingids: `J`, `Done`, `closeLoopH_spec`, `closeBlocksH_spec`, `push_spec`), carried over
  to `MF`; the parser-level facts are `BR` (GM.Proof.ConvertFBrPar) and `Wk` (GM.Proof.ConvertFWF).
-/
import GM.Proof.ConvertFWF
import GM.Proof.ConvertFBrPar
import GM.Proof.ConvertHWFDrv

namespace GM.ConvertF
open GM GM.Text GM.Blocks GM.Convert GM.ConvertH

/-! ### a step of the store that leaves Blockquote-kind nodes alone -/

structure StepB (s s' : St) : Prop where
  len : s.nodes.length ≤ s'.nodes.length
  kind : ∀ i, i < s.nodes.length → (ndx s' i).kind = (ndx s i).kind
  opened : s'.pc.opened = s.pc.opened
  wf : TreeWF s → TreeWF s'
  lines : ∀ i, (ndx s' i).kind = .blockquote → (ndx s' i).lines = (ndx s i).lines
  edges : ∀ p c, c ∈ (ndx s' p).children → (ndx s' c).kind = .blockquote → c < s.nodes.length → c ∈ (ndx s p).children

theorem StepB.ks {s s' : St} (h : StepB s s') : KS s s' := ⟨h.len, h.kind⟩

theorem StepB.refl (s : St) : StepB s s := ⟨Nat.le_refl _, fun _ _ => rfl, rfl, id, fun _ _ => rfl, fun _ _ h _ _ => h⟩

/-- from the parser-level facts: the nodes whose lines may be written are not of kind Blockquote -/
theorem StepB.of {W : Nat → Prop} {s s' : St} (w : WStep s s') (b : BR W s s')
    (hW : ∀ i, W i → i < s.nodes.length ∧ (ndx s i).kind ≠ .blockquote) : StepB s s' :=
  ⟨b.len, b.kind, b.opened, w.wf, fun i hk => by
      by_cases hw : W i
      · obtain ⟨hv, hne⟩ := hW i hw
        rw [b.kind i hv] at hk
        exact absurd hk hne
      · exact b.lines i hw hk,
   b.edges⟩

/-! ### the invariant -/

/-- the block exists and its node has the kind its parser builds -/
def PNb (b : Block) (s : St) : Prop := b.node < s.nodes.length ∧ (ndx s b.node).kind = BP.kindOf b.bp

theorem PNb.ks {b : Block} {s s' : St} (p : PNb b s) (k : KS s s') : PNb b s' :=
  ⟨Nat.lt_of_lt_of_le p.1 k.len, by rw [k.kind b.node p.1]; exact p.2⟩

structure FJ (f : FS) (s : St) : Prop where
  wf : TreeWF s
  ids : IdsOK f s
  kfn : ∀ x, f.isFn x = true → (ndx s x).kind = .blockquote
  klist : ∀ l, f.list = some l → (ndx s l).kind = .blockquote
  nl : ∀ i, (ndx s i).kind = .blockquote → (ndx s i).lines = []
  ein : ∀ p c, c ∈ (ndx s p).children → f.isFn c = true → f.list = some p ∨ ∃ b ∈ s.pc.opened, b.node = c
  pn : ∀ b ∈ s.pc.opened, PNb b s

theorem idsOK_ks {f : FS} {s s' : St} (h : IdsOK f s) (k : KS s s') : IdsOK f s' :=
  ⟨fun l hl => ⟨(h.1 l hl).1, Nat.lt_of_lt_of_le (h.1 l hl).2 k.len⟩,
   fun p hp => ⟨(h.2 p hp).1, Nat.lt_of_lt_of_le (h.2 p hp).2 k.len⟩⟩

theorem FJ.step {f : FS} {s s' : St} (j : FJ f s) (st : StepB s s') : FJ f s' := by
  refine ⟨st.wf j.wf, idsOK_ks j.ids st.ks, fun x hx => ?_, fun l hl => ?_, fun i hk => ?_, fun p c hc hfn => ?_,
    fun b hb => ?_⟩
  · rw [st.kind x (isFn_valid j.ids hx).2]; exact j.kfn x hx
  · rw [st.kind l (j.ids.1 l hl).2]; exact j.klist l hl
  · rw [st.lines i hk]
    by_cases hi : i < s.nodes.length
    · exact j.nl i (by rw [← st.kind i hi]; exact hk)
    · exact ndx_default_lines s (Nat.le_of_not_lt hi)
  · have hv := (isFn_valid j.ids hfn).2
    have hk : (ndx s' c).kind = .blockquote := by rw [st.kind c hv]; exact j.kfn c hfn
    rw [st.opened]
    exact j.ein p c (st.edges p c hc hk hv) hfn
  · rw [st.opened] at hb
    exact (j.pn b hb).ks st.ks

/-- the footnote context only grows -/
def FM (f f' : FS) : Prop := (∀ x, f.isFn x = true → f'.isFn x = true) ∧ (∀ l, f.list = some l → f'.list = some l)

theorem FM.refl (f : FS) : FM f f := ⟨fun _ h => h, fun _ h => h⟩
theorem FM.trans {a b c : FS} (h1 : FM a b) (h2 : FM b c) : FM a c :=
  ⟨fun x hx => h2.1 x (h1.1 x hx), fun l hl => h2.2 l (h1.2 l hl)⟩

/-! ### inversion -/

theorem upF_ok' {α} {x : M α} {f : FS} {s : St} {a : α} {f' : FS} {s' : St} (e : (GM.ConvertF.up x) f s = .ok ((a, f'), s')) :
    f = f' ∧ x s = .ok (a, s') := by
  obtain ⟨h1, h2⟩ := upF_ok e
  exact ⟨h2, h1⟩

theorem getF_ok {f : FS} {s : St} {a : FS} {f' : FS} {s' : St} (e : getF f s = .ok ((a, f'), s')) : f = a ∧ f = f' ∧ s = s' := by
  cases e; exact ⟨rfl, rfl, rfl⟩

theorem setF_ok {g f : FS} {s : St} {a : Unit} {f' : FS} {s' : St} (e : setF g f s = .ok ((a, f'), s')) : g = f' ∧ s = s' := by
  cases e; exact ⟨rfl, rfl⟩

theorem getNode_ok' {id : Nat} {s : St} {a : Blocks.Node} {s' : St} (h : getNode id s = .ok (a, s')) :
    ndx s id = a ∧ s = s' := by cases h; exact ⟨rfl, rfl⟩

theorem pureF_ok {α} {x : α} {f : FS} {s : St} {a : α} {f' : FS} {s' : St} (e : (pure x : MF α) f s = .ok ((a, f'), s')) :
    x = a ∧ f = f' ∧ s = s' := by
  cases e; exact ⟨rfl, rfl, rfl⟩

/-! ### the calculus -/

/-- a fact about the store that stays true while the store grows and kinds stay -/
def Stb (P : St → Prop) : Prop := ∀ s s', KS s s' → P s → P s'

structure GJ (P : St → Prop) {α : Type} (Q : α → St → Prop) (m : MF α) : Prop where
  h : ∀ f s a f' s', FJ f s → P s → m f s = .ok ((a, f'), s') → FJ f' s' ∧ FM f f' ∧ KS s s' ∧ Q a s'

abbrev QTj {α : Type} : α → St → Prop := fun _ _ => True

variable {P : St → Prop}

theorem GJ.pure {α} {Q : α → St → Prop} (a : α) (hq : ∀ s, P s → Q a s) : GJ P Q (Pure.pure a : MF α) :=
  ⟨fun f s a' f' s' j hp e => by cases e; exact ⟨j, FM.refl _, KS.refl _, hq _ hp⟩⟩

theorem GJ.throw {α} {Q : α → St → Prop} (e : Panic) : GJ P Q (throw e : MF α) := ⟨fun _ _ _ _ _ _ _ e' => by cases e'⟩

theorem gj_getF : GJ P QTj getF := ⟨fun f s a f' s' j _ e => by cases e; exact ⟨j, FM.refl _, KS.refl _, trivial⟩⟩

/-- an `M` program: tree kept (`Wk`), Blockquote-kind nodes left alone (`Br W`), what it may write is not of that kind -/
theorem GJ.up {α} {W : Nat → Prop} {x : M α} (hx : Wk x) (hb : Br W x)
    (hW : ∀ s, P s → ∀ i, W i → i < s.nodes.length ∧ (ndx s i).kind ≠ .blockquote) : GJ P QTj (GM.ConvertF.up x) := by
  constructor
  intro f s a f' s' j hp e
  obtain ⟨rfl, ex⟩ := upF_ok' e
  have st := StepB.of (hx.h s a s' ex) (hb.h s a s' ex) (hW s hp)
  exact ⟨j.step st, FM.refl _, st.ks, trivial⟩

theorem GJ.up0 {α} {x : M α} (hx : Wk x) (hb : Br (fun _ => False) x) : GJ P QTj (GM.ConvertF.up x) :=
  GJ.up hx hb (fun _ _ _ h => h.elim)

theorem GJ.bind {α β} {Q : α → St → Prop} {Q' : β → St → Prop} {m : MF α} {k : α → MF β} (hP : Stb P)
    (hm : GJ P Q m) (hk : ∀ a, GJ (fun s => P s ∧ Q a s) Q' (k a)) : GJ P Q' (m >>= k) := by
  constructor
  intro f s b f'' s'' j hp e
  obtain ⟨a, f', s', e1, e2⟩ := mf_bind_ok e
  obtain ⟨j1, m1, k1, q1⟩ := hm.h f s a f' s' j hp e1
  obtain ⟨j2, m2, k2, q2⟩ := (hk a).h f' s' b f'' s'' j1 ⟨hP _ _ k1 hp, q1⟩ e2
  exact ⟨j2, m1.trans m2, k1.trans k2, q2⟩

theorem GJ.bind' {α β} {Q' : β → St → Prop} {m : MF α} {k : α → MF β} (hP : Stb P)
    (hm : GJ P QTj m) (hk : ∀ a, GJ P Q' (k a)) : GJ P Q' (m >>= k) := by
  constructor
  intro f s b f'' s'' j hp e
  obtain ⟨a, f', s', e1, e2⟩ := mf_bind_ok e
  obtain ⟨j1, m1, k1, _⟩ := hm.h f s a f' s' j hp e1
  obtain ⟨j2, m2, k2, q2⟩ := (hk a).h f' s' b f'' s'' j1 (hP _ _ k1 hp) e2
  exact ⟨j2, m1.trans m2, k1.trans k2, q2⟩

theorem GJ.ite {α} {Q : α → St → Prop} {c : Prop} [Decidable c] {a b : MF α} (ha : GJ P Q a) (hb : GJ P Q b) :
    GJ P Q (if c then a else b) := by
  split <;> assumption

theorem GJ.weaken {α} {Q Q' : α → St → Prop} {m : MF α} (h : GJ P Q m) (hq : ∀ a s, Q a s → Q' a s) : GJ P Q' m :=
  ⟨fun f s a f' s' j hp e => by
    obtain ⟨a1, a2, a3, a4⟩ := h.h f s a f' s' j hp e
    exact ⟨a1, a2, a3, hq _ _ a4⟩⟩

theorem GJ.pre {P' : St → Prop} {α} {Q : α → St → Prop} {m : MF α} (h : GJ P Q m) (hp : ∀ s, P' s → P s) : GJ P' Q m :=
  ⟨fun f s a f' s' j hp' e => h.h f s a f' s' j (hp s hp') e⟩

theorem stb_and {P P' : St → Prop} (h : Stb P) (h' : Stb P') : Stb (fun s => P s ∧ P' s) :=
  fun s s' k hp => ⟨h s s' k hp.1, h' s s' k hp.2⟩

theorem stb_true : Stb (fun _ => True) := fun _ _ _ _ => trivial

theorem stb_pnb (b : Block) : Stb (PNb b) := fun _ _ k p => p.ks k

theorem stb_all {α} (l : List α) (F : α → St → Prop) (h : ∀ a, Stb (F a)) : Stb (fun s => ∀ a ∈ l, F a s) :=
  fun s s' k hp a ha => h a s s' k (hp a ha)

/-- leaves of the driver that keep the stack and write no lines -/
macro "br0_leaf" : tactic =>
  `(tactic| first
    | exact modPc_br _ (fun _ => rfl)
    | exact modPc_br _ (fun _ => by split <;> rfl)
    | exact lastOpenedBlock_br
    | exact skipBlankLinesR_br
    | exact bpOpen_br _ _
    | br_leaf)

macro "gj_step" : tactic =>
  `(tactic| first
    | (refine GJ.pure _ ?_; intro _ _; trivial)
    | exact GJ.throw _
    | exact gj_getF
    | apply_hyp
    | (refine GJ.up0 ?_ ?_ <;> first | wk_leaf | br0_leaf)
    | (with_reducible apply GJ.bind' (by assumption))
    | with_reducible apply GJ.ite
    | intro _
    | split)

macro "gj" : tactic => `(tactic| repeat' gj_step)

/-! ### the footnote block parser -/

theorem lookup_append_single : ∀ (l : List (Nat × Bytes)) (k : Nat) (v : Bytes) (x : Nat),
    ((l ++ [(k, v)]).lookup x).isSome = ((l.lookup x).isSome || x == k)
  | [], k, v, x => by
    by_cases h : x = k
    · subst h; simp [List.lookup]
    · have : (x == k) = false := by simpa using h
      simp [List.lookup, this]
  | (a, b) :: l, k, v, x => by
    by_cases h : x = a
    · subst h; simp [List.lookup]
    · have : (x == a) = false := by simpa using h
      simp only [List.cons_append, List.lookup, this]
      exact lookup_append_single l k v x

theorem isFn_addRef (f : FS) (item : Nat) (label : Bytes) (x : Nat) :
    ({ f with refs := f.refs ++ [(item, label)] } : FS).isFn x = (f.isFn x || x == item) := by
  unfold FS.isFn; exact lookup_append_single f.refs item label x

def fnBlock (nd : Nat) : Block := { node := nd, bp := .blockquote }

/-- `ast.NewFootnote(label)`: a fresh node of kind Blockquote enters the footnote context -/
theorem GJ.newFn {α} {Q : α → St → Prop} (hP : Stb P) (label : Bytes) (k : Nat → MF α)
    (hk : ∀ item, GJ (fun s => P s ∧ PNb (fnBlock item) s) Q (k item)) :
    GJ P Q (GM.ConvertF.up (newNode { kind := .blockquote }) >>= fun item =>
      getF >>= fun f => setF { f with refs := f.refs ++ [(item, label)] } >>= fun _ => k item) := by
  constructor
  intro f0 s b f'' s'' j hp e
  have ex1 : Blocks.newNode { kind := Blocks.Kind.blockquote } s =
      .ok (s.nodes.length, { s with nodes := s.nodes ++ [{ kind := Blocks.Kind.blockquote }] }) := rfl
  rw [mf_bind_apply, upF_apply, ex1] at e
  simp only at e
  have e' : k s.nodes.length { f0 with refs := f0.refs ++ [(s.nodes.length, label)] }
      { s with nodes := s.nodes ++ [{ kind := Blocks.Kind.blockquote }] } = .ok ((b, f''), s'') := e
  clear e
  have e := e'
  have hlr : LR s { s with nodes := s.nodes ++ [{ kind := Blocks.Kind.blockquote }] } :=
    (GM.ConvertH.newNode_lk _ rfl rfl).h s _ _ ex1
  have hks : KS s { s with nodes := s.nodes ++ [{ kind := Blocks.Kind.blockquote }] } := ⟨hlr.len, hlr.kind⟩
  have hnew : ∀ i, ndx ({ s with nodes := s.nodes ++ [{ kind := Blocks.Kind.blockquote }] } : St) i =
      if i = s.nodes.length then { kind := Blocks.Kind.blockquote } else ndx s i := fun i => ndx_append s _ i s.r s.pc
  have hfn : ∀ x, ({ f0 with refs := f0.refs ++ [(s.nodes.length, label)] } : FS).isFn x = true →
      f0.isFn x = true ∨ x = s.nodes.length := by
    intro x hx
    rw [isFn_addRef] at hx
    simpa using hx
  have j1 : FJ { f0 with refs := f0.refs ++ [(s.nodes.length, label)] }
      { s with nodes := s.nodes ++ [{ kind := Blocks.Kind.blockquote }] } := by
    refine ⟨hlr.wf j.wf, ⟨fun l hl => (idsOK_ks j.ids hks).1 l hl, fun p hp' => ?_⟩, fun x hx => ?_, fun l hl => ?_,
      fun i hk' => ?_, fun p c hc hx => ?_, fun b hb => (j.pn b hb).ks hks⟩
    · simp only [List.mem_append, List.mem_singleton] at hp'
      rcases hp' with hp' | hp'
      · exact (idsOK_ks j.ids hks).2 p hp'
      · subst hp'; exact ⟨j.wf.ne, by simp⟩
    · rcases hfn x hx with h | h
      · rw [hks.kind x (isFn_valid j.ids h).2]; exact j.kfn x h
      · subst h; rw [hnew]; simp
    · rw [hks.kind l (j.ids.1 l hl).2]; exact j.klist l hl
    · rw [hnew] at hk' ⊢
      split
      · rfl
      · rename_i hne; rw [if_neg hne] at hk'; exact j.nl i hk'
    · rw [(hlr.links p).2] at hc
      rcases hfn c hx with h | h
      · exact j.ein p c hc h
      · subst h
        exact absurd (j.wf.edge p _ hc).1 (Nat.lt_irrefl _)
  have m1 : FM f0 { f0 with refs := f0.refs ++ [(s.nodes.length, label)] } :=
    ⟨fun x hx => by rw [isFn_addRef, hx]; rfl, fun l hl => hl⟩
  have pn1 : PNb (fnBlock s.nodes.length) { s with nodes := s.nodes ++ [{ kind := Blocks.Kind.blockquote }] } :=
    ⟨by simp [fnBlock], by simp only [fnBlock]; rw [hnew]; simp [BP.kindOf]⟩
  obtain ⟨j2, m2, k2, q2⟩ := (hk s.nodes.length).h _ _ b f'' s'' j1 ⟨hP _ _ hks hp, pn1⟩ e
  exact ⟨j2, m1.trans m2, hks.trans k2, q2⟩

/-- the node `Open` answers exists and has the kind its parser builds -/
def Qn (bp : BP) (r : Option Nat × PState) (s : St) : Prop := ∀ nd, r.1 = some nd → PNb { node := nd, bp := bp } s

theorem fnOpen_gj (hP : Stb P) (parent : Nat) : GJ P (Qn .blockquote) (fnOpen parent) := by
  unfold fnOpen
  apply GJ.bind' hP (by gj)
  intro x
  apply GJ.bind' hP (by gj)
  intro pc
  apply GJ.bind' hP (by gj)
  intro sc
  split
  · exact GJ.pure _ (fun _ _ nd h => by cases h)
  · apply GJ.bind' hP (by gj)
    intro src
    apply GJ.bind' hP (by gj)
    intro label
    split
    · exact GJ.pure _ (fun _ _ nd h => by cases h)
    · refine GJ.newFn hP label _ (fun item => ?_)
      have hP2 : Stb (fun s => P s ∧ PNb (fnBlock item) s) := stb_and hP (stb_pnb _)
      dsimp only
      split
      · apply GJ.bind' hP2 (by gj)
        intro _
        exact GJ.pure _ (fun s h nd hn => by cases hn; exact h.2)
      · apply GJ.bind' hP2 (by gj)
        intro _
        exact GJ.pure _ (fun s h nd hn => by cases hn; exact h.2)

theorem fnContinue_gj (hP : Stb P) (node : Nat) : GJ P QTj (fnContinue node) := by
  unfold fnContinue; gj

/-! ### (*footnoteBlockParser).Close -/

/-- what `node.Parent().RemoveChild(node); list.AppendChild(list, node)` does to the store -/
theorem fnCloseTail_facts (list node : Nat) (f : FS) (s : St) (a : Unit) (f' : FS) (s' : St) (w : TreeWF s)
    (e : fnCloseTail list node f s = .ok ((a, f'), s')) :
    f' = f ∧ s'.nodes.length = s.nodes.length ∧ s'.pc.opened = s.pc.opened ∧ (∀ i, (ndx s' i).lines = (ndx s i).lines) ∧
    (∀ i, (ndx s' i).kind = (ndx s i).kind) ∧
    (∀ q c, c ∈ (ndx s' q).children → c ∈ (ndx s q).children ∨ (q = list ∧ c = node)) ∧
    (∀ q, node ∈ (ndx s' q).children → q = list) := by
  unfold fnCloseTail at e
  obtain ⟨nd, f8, s8, g5, ee⟩ := mf_bind_ok e
  clear e
  obtain ⟨hf8, hgn⟩ := upF_ok' g5
  obtain ⟨hnd, hs8⟩ := getNode_ok' hgn
  subst hf8 hs8
  dsimp only at ee
  cases hpar : nd.parent with
  | none =>
    rw [hpar] at ee
    obtain ⟨_, f6, s6, g4, e1⟩ := mf_bind_ok ee
    cases g4
  | some p =>
    rw [hpar] at ee
    obtain ⟨_, f7, s7, e2, e⟩ := mf_bind_ok ee
    obtain ⟨hf7, hr⟩ := upF_ok' e2
    subst hf7
    obtain ⟨hrm, hdet, _, _⟩ := removeChild_rm p node _ s7 hr
    have hl1 := (removeChild_ln p node).h _ _ _ hr
    obtain ⟨hf', hap⟩ := upF_ok' e
    have hop := appendChild_op list node s7 s' hap
    have hl2 := (appendChild_ln list node).h _ _ _ hap
    have hpn : (ndx s node).parent = some p := by rw [← hpar, hnd]
    have hnone := hdet hpn
    have w7 := hrm.wf w
    refine ⟨hf'.symm, by rw [hop.len, hrm.len], by rw [hop.pc, hrm.pc], fun i => by rw [hl2, hl1],
      fun i => by rw [hop.kind, hrm.kind], fun q c hc => ?_, fun q hq => ?_⟩
    · rcases hop.edges q c hc with h | h
      · exact Or.inl (hrm.edges q c h)
      · exact Or.inr h
    · rcases hop.edges q node hq with h | h
      · have := (w7.edge q node h).2
        rw [hnone] at this
        cases this
      · exact h.1

/-- `Close` of a Footnote: the invariant, and the Footnote is filed — afterwards every child edge to it comes from the list;
    the only other new edge leads to the (new) list -/
theorem fnClose_spec (node : Nat) (f : FS) (s : St) (a : Unit) (f' : FS) (s' : St) (j : FJ f s) (hfn : f.isFn node = true)
    (e : fnClose node f s = .ok ((a, f'), s')) :
    FJ f' s' ∧ FM f f' ∧ KS s s' ∧ s'.pc.opened = s.pc.opened ∧ f'.refs = f.refs ∧
    (∀ p c, c ∈ (ndx s' p).children → f.isFn c = true → c ∈ (ndx s p).children ∨ f'.list = some p) ∧
    (∀ q, node ∈ (ndx s' q).children → f'.list = some q) := by
  have hn := isFn_valid j.ids hfn
  have hfi := fnClose_inv (P := fun _ => True) (fun _ _ _ _ => trivial) node f s a f' s' ⟨j.wf, j.ids, trivial⟩ hn e
  -- the frame facts
  have key : s.nodes.length ≤ s'.nodes.length ∧ s'.pc.opened = s.pc.opened ∧ f'.refs = f.refs ∧
      (∀ l, f.list = some l → f'.list = some l) ∧
      (∀ i, i < s.nodes.length → (ndx s' i).lines = (ndx s i).lines ∧ (ndx s' i).kind = (ndx s i).kind) ∧
      (∀ l, f'.list = some l → f.list = some l ∨ (s.nodes.length ≤ l ∧ (ndx s' l).kind = .blockquote ∧ (ndx s' l).lines = [])) ∧
      (∀ i, s.nodes.length ≤ i → f'.list = some i ∨ (ndx s' i).kind ≠ .blockquote) ∧
      (∀ p c, c ∈ (ndx s' p).children → c < s.nodes.length → c ∈ (ndx s p).children ∨ (f'.list = some p ∧ c = node)) ∧
      (∀ q, node ∈ (ndx s' q).children → f'.list = some q) := by
    unfold fnClose at e
    obtain ⟨f0, f1, s1, e0, ee⟩ := mf_bind_ok e
    obtain ⟨h0, h1, h2⟩ := getF_ok e0
    subst h0 h1 h2
    clear e e0
    dsimp only at ee
    generalize hl : f.list = o at ee
    cases o with
    | some l =>
      obtain ⟨list, f2, s2, e1, e⟩ := mf_bind_ok ee
      obtain ⟨h3, h4, h5⟩ := pureF_ok e1
      subst h3 h4 h5
      obtain ⟨t1, t2, t3, t4, t5, t6, t7⟩ := fnCloseTail_facts _ node _ _ a f' s' j.wf e
      subst t1
      refine ⟨Nat.le_of_eq t2.symm, t3, rfl, (fun l' h' => by first | exact h' | (rw [hl]; exact h')), fun i _ => ⟨t4 i, t5 i⟩,
        (fun l' hl' => Or.inl (by first | exact hl' | (rw [hl] at hl'; exact hl'))),
        fun i hi => ?_, fun p c hc _ => ?_, fun q hq => by rw [t7 q hq]; exact hl⟩
      · right
        rw [t5, ndx_ge _ hi]
        decide
      · rcases t6 p c hc with h | h
        · exact Or.inl h
        · exact Or.inr ⟨by rw [h.1]; exact hl, h.2⟩
    | none =>
      obtain ⟨l, f3, s3, g1, e1⟩ := mf_bind_ok ee
      obtain ⟨hf3, hnew⟩ := upF_ok' g1
      obtain ⟨hl3, hs3⟩ := newNode_ok hnew
      subst hf3 hl3 hs3
      have hlr : LR s { s with nodes := s.nodes ++ [{ kind := Blocks.Kind.blockquote }] } :=
        (GM.ConvertH.newNode_lk _ rfl rfl).h _ _ _ hnew
      have hnewx : ∀ i, ndx ({ s with nodes := s.nodes ++ [{ kind := Blocks.Kind.blockquote }] } : St) i =
          if i = s.nodes.length then { kind := Blocks.Kind.blockquote } else ndx s i := fun i => ndx_append s _ i s.r s.pc
      obtain ⟨_, f4, s4, g2, e1⟩ := mf_bind_ok e1
      obtain ⟨hf4, hs4⟩ := setF_ok g2
      subst hf4 hs4
      obtain ⟨st, f5, s5, g3, e1⟩ := mf_bind_ok e1
      obtain ⟨hf5, hget⟩ := upF_ok' g3
      have hget' : st = ({ s with nodes := s.nodes ++ [{ kind := Blocks.Kind.blockquote }] } : St) ∧
          s5 = ({ s with nodes := s.nodes ++ [{ kind := Blocks.Kind.blockquote }] } : St) := by cases hget; exact ⟨rfl, rfl⟩
      obtain ⟨hst, hs5⟩ := hget'
      subst hf5 hst hs5
      dsimp only at e1
      generalize anchorLoop f _ _ _ node = r at e1
      cases r with
      | none =>
        obtain ⟨_, f6, s6, g4, e1⟩ := mf_bind_ok e1
        cases g4
      | some anchor =>
        dsimp only at e1
        generalize Blocks.Node.parent _ = q at e1
        cases q with
        | none =>
          obtain ⟨_, f6, s6, g4, e1⟩ := mf_bind_ok e1
          cases g4
        | some ap =>
          obtain ⟨_, f6, s6, g4, e1⟩ := mf_bind_ok e1
          obtain ⟨hf6, hins⟩ := upF_ok' g4
          subst hf6
          have hop := insertBefore_op ap (some anchor) s.nodes.length _ s6 hins
          have hlB := (insertBefore_ln ap (some anchor) s.nodes.length).h _ _ _ hins
          have wA : TreeWF { s with nodes := s.nodes ++ [{ kind := Blocks.Kind.blockquote }] } := hlr.wf j.wf
          have wB : TreeWF s6 := hop.wf wA (by simp) (by have := j.wf.ne; omega)
          obtain ⟨list, f2, s2, e2, e⟩ := mf_bind_ok e1
          obtain ⟨h3, h4, h5⟩ := pureF_ok e2
          subst h3 h4 h5
          obtain ⟨t1, t2, t3, t4, t5, t6, t7⟩ := fnCloseTail_facts _ node _ _ a f' s' wB e
          subst t1
          have hlen6 : s6.nodes.length = s.nodes.length + 1 := by rw [hop.len]; simp
          refine ⟨by omega, by rw [t3, hop.pc], rfl, (fun l' hl' => by first | cases hl' | (rw [hl] at hl'; cases hl')), fun i hi => ?_,
            fun l' hl' => ?_, fun i hi => ?_, fun p c hc hv => ?_, fun q hq => by rw [t7 q hq]⟩
          · have hne : i ≠ s.nodes.length := by omega
            refine ⟨by rw [t4, hlB, hnewx, if_neg hne], by rw [t5, hop.kind, hnewx, if_neg hne]⟩
          · right
            simp only [Option.some.injEq] at hl'
            subst hl'
            refine ⟨Nat.le_refl _, by rw [t5, hop.kind, hnewx]; simp, by rw [t4, hlB, hnewx]; simp⟩
          · by_cases hi' : i = s.nodes.length
            · left; rw [hi']
            · right
              rw [t5, hop.kind, hnewx, if_neg hi', ndx_ge _ hi]
              decide
          · rcases t6 p c hc with h | h
            · rcases hop.edges p c h with h' | h'
              · left
                rw [(hlr.links p).2] at h'
                exact h'
              · omega
            · exact Or.inr ⟨by rw [h.1], h.2⟩
  obtain ⟨k1, k2, k3, k4, k5, k6, k7, k8, k9⟩ := key
  have hisfn : ∀ x, f'.isFn x = f.isFn x := fun x => by unfold FS.isFn; rw [k3]
  have ks : KS s s' := ⟨k1, fun i hi => (k5 i hi).2⟩
  refine ⟨⟨hfi.1, hfi.2.1, fun x hx => ?_, fun l hl => ?_, fun i hk => ?_, fun p c hc hx => ?_, fun b hb => ?_⟩,
    ⟨fun x hx => by rw [hisfn]; exact hx, k4⟩, ks, k2, k3, fun p c hc hx => ?_, k9⟩
  · rw [hisfn] at hx
    rw [(k5 x (isFn_valid j.ids hx).2).2]; exact j.kfn x hx
  · rcases k6 l hl with h | h
    · rw [(k5 l (j.ids.1 l h).2).2]; exact j.klist l h
    · exact h.2.1
  · by_cases hi : i < s.nodes.length
    · rw [(k5 i hi).1]; exact j.nl i (by rw [← (k5 i hi).2]; exact hk)
    · rcases k7 i (Nat.le_of_not_lt hi) with h | h
      · rcases k6 i h with h' | h'
        · exact absurd (j.ids.1 i h').2 hi
        · exact h'.2.2
      · exact absurd hk h
  · rw [hisfn] at hx
    rcases k8 p c hc (isFn_valid j.ids hx).2 with h | h
    · rcases j.ein p c h hx with h' | h'
      · exact Or.inl (k4 p h')
      · rw [k2]; exact Or.inr h'
    · exact Or.inl h.1
  · rw [k2] at hb; exact (j.pn b hb).ks ks
  · rcases k8 p c hc (isFn_valid j.ids hx).2 with h | h
    · exact Or.inl h
    · exact Or.inr h.1

end GM.ConvertF
