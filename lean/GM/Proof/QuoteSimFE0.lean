/-
  GM.Proof.QuoteSimFE0 — the readers of the `HasBlankPreviousLines` flags under the WEAK flag relation `FE`
  (equal flags on every child but the first of every node but the Document; GM.Proof.QuoteSimFEDefs):
    * `flagsOK_of_fe`  : `FlagsOK` (what `listParser.Close` reads, hypothesis of `listClose_sim'`) below every node but
      the Document;
    * `tree_simF` / `root_simF` / `quoteSimPair_eqF` : `tree_simL` / `root_simL` / `quoteSimPair_eqL` with `FE` in the
      place of `FlagsEq`;
    * `fe_step` : `FE` is kept by a pair of calls with the unary facts `BPn` (both runs) and `CHn` (run A);
    * `S2.andR` : add a fact about run B's result to a simulation.
-/
import GM.Proof.QuoteSimFEDefs
import GM.Proof.QuoteSimFlags

namespace GM.Blocks
open GM GM.Text

/-! ### `FlagsOK` from `FE` -/

/-- `FlagsOK` for a suffix `cs` of the children of a node that is not the Document -/
theorem flagsOK_suffix_fe {nA nB : List Node} (hfe : FE nA nB) (hu : UStoreL nA) (node : Nat) (hnode : node ≠ 0) :
    ∀ (cs pre : List Nat) (first : Bool), (nA.getD node default).children = pre ++ cs →
      (first = false → pre ≠ []) → FlagsOK nA nB cs first
  | [], _, _, _, _ => trivial
  | c :: cs, pre, first, hch, hpre => by
    have hcm : c ∈ (nA.getD node default).children := by
      rw [hch]; exact List.mem_append_right _ (List.mem_cons_self ..)
    have hc0 : c ≠ 0 := fun e => ustoreL_kids hu node (e ▸ hcm)
    refine ⟨⟨fun hf => ?_, fun c1 hc1 => hfe c hc0 c1 hc1⟩, ?_⟩
    · refine hfe node hnode c ?_
      rw [hch]
      cases pre with
      | nil => exact absurd rfl (hpre hf)
      | cons p pre' =>
        show c ∈ pre' ++ c :: cs
        exact List.mem_append_right _ (List.mem_cons_self ..)
    · refine flagsOK_suffix_fe hfe hu node hnode cs (pre ++ [c]) false ?_ (fun _ e => ?_)
      · rw [hch, List.append_assoc]; rfl
      · cases pre <;> cases e

/-- what `listClose_sim'` needs, from the weak flag relation and the store invariant -/
theorem flagsOK_of_fe {nA nB : List Node} (hfe : FE nA nB) (hu : UStoreL nA) :
    ∀ node, node ≠ 0 → FlagsOK nA nB (nA.getD node default).children true :=
  fun node hnode => flagsOK_suffix_fe hfe hu node hnode _ [] true rfl (fun h => by cases h)

/-! ### the dump comparison -/

/-- `node_strL`, the flags being equal only where they are kept -/
theorem node_strF {src : Bytes} {a b : Node} (hab : NodeRel src false a b) (hok : QsNodeOKL a) (keep : Bool)
    (hb : keep = true → b.blankPrev = a.blankPrev) {cs ds : List Tree} (hc : Tree.strs cs = Tree.strs ds) :
    (Tree.node (keepN keep (mapN src a)) cs).str = (Tree.node (keepN keep b) ds).str := by
  have hk : b.kind = a.kind := hab.kind
  have hi := infoRel_map hab.info hok.2.1
  have hcl := closRel_map hab.closure hok.2.2.1
  have hl := segsRel_map hab.lines hok.1
  have hbp : (keepN keep (mapN src a)).blankPrev = (keepN keep b).blankPrev := by
    show (keep && a.blankPrev) = (keep && b.blankPrev)
    cases keep with
    | false => rfl
    | true => rw [hb rfl]
  refine str_congr hk.symm hbp ?_ hl hc
  exact nodeFields_congr hk.symm hab.level.symm hab.marker.symm hab.start.symm hab.tight.symm hab.offset.symm hi
    hab.htmlType.symm hcl

/-- children lists: every child compared with its flag erased; with its flag kept only where it is kept -/
theorem strs_simF {ta tb : Nat → Tree} (inList : Bool) : ∀ (ids : List Nat) (first : Bool),
    (∀ i ∈ ids, ((ta i).readBlank false).str = ((tb (i + 1)).readBlank false).str) →
    (inList = true → ∀ i ∈ ids.drop 1, ((ta i).readBlank true).str = ((tb (i + 1)).readBlank true).str) →
    (inList = true → first = false → ∀ i ∈ ids, ((ta i).readBlank true).str = ((tb (i + 1)).readBlank true).str) →
    Tree.strs (Tree.readBlankL inList first (ids.map ta)) =
      Tree.strs (Tree.readBlankL inList first ((ids.map (· + 1)).map tb))
  | [], _, _, _, _ => rfl
  | i :: ids, first, h0, h1, h2 => by
    simp only [List.map_cons, Tree.readBlankL, Tree.strs]
    have hh : ((ta i).readBlank (inList && !first)).str = ((tb (i + 1)).readBlank (inList && !first)).str := by
      cases inList with
      | false => exact h0 i (List.mem_cons_self ..)
      | true =>
        cases first with
        | true => exact h0 i (List.mem_cons_self ..)
        | false => exact h2 rfl rfl i (List.mem_cons_self ..)
    rw [hh, strs_simF inList ids false (fun j hj => h0 j (List.mem_cons_of_mem _ hj))
      (fun hl j hj => h1 hl j (List.mem_of_mem_drop hj)) (fun hl _ j hj => h1 hl j hj)]

theorem tree_simF {src : Bytes} {nA nB : List Node} (hn : StoreRel src nA nB)
    (hok : ∀ i, QsNodeOKL (nA.getD i default)) (hfe : FE nA nB) : ∀ (f i : Nat), i ≠ 0 → ∀ keep : Bool,
    (keep = true → FlagEqAt nA nB i) →
    (((treeOf nA f i).mapSegs (shiftSeg src)).readBlank keep).str = ((treeOf nB f (i + 1)).readBlank keep).str := by
  intro f
  induction f with
  | zero =>
    intro i hi keep hkp
    have hab := hn.node i
    rw [beq_eq_false_iff_ne.mpr hi] at hab
    have e1 : treeOf nA 0 i = .node (nA.getD i default) [] := rfl
    have e2 : treeOf nB 0 (i + 1) = .node (nB.getD (i + 1) default) [] := rfl
    rw [e1, e2, readBlank_mapSegs_nodeL, readBlank_nodeL]
    exact node_strF hab (hok i) keep hkp rfl
  | succ f ih =>
    intro i hi keep hkp
    have hab := hn.node i
    rw [beq_eq_false_iff_ne.mpr hi] at hab
    have hoki := hok i
    have e1 : treeOf nA (f + 1) i =
      .node (nA.getD i default) ((nA.getD i default).children.map (treeOf nA f)) := rfl
    have e2 : treeOf nB (f + 1) (i + 1) =
      .node (nB.getD (i + 1) default) ((nB.getD (i + 1) default).children.map (treeOf nB f)) := rfl
    rw [e1, e2, readBlank_mapSegs_nodeL, readBlank_nodeL]
    refine node_strF hab hoki keep hkp ?_
    have hkb : (nB.getD (i + 1) default).kind = (nA.getD i default).kind := hab.kind
    rw [hkb, mapSegsL_map, hab.children]
    refine strs_simF (ta := fun j => (treeOf nA f j).mapSegs (shiftSeg src)) (tb := treeOf nB f) _ _ true ?_ ?_ ?_
    · intro j hj
      exact ih j (fun e => hoki.2.2.2 (e ▸ hj)) false (fun h => by cases h)
    · intro _ j hj
      exact ih j (fun e => hoki.2.2.2 (e ▸ List.mem_of_mem_drop hj)) true (fun _ => hfe i hi j hj)
    · intro _ h
      cases h

/-- the two roots: A's Document with the new Blockquote put in between, B's Document over its Blockquote -/
theorem root_simF {src : Bytes} {nA nB : List Node} (hn : StoreRel src nA nB)
    (hok : ∀ i, QsNodeOKL (nA.getD i default)) (hfe : FE nA nB) (hd : (nA.getD 0 default).lines = [])
    (m : Nat) :
    ((Tree.node (nA.getD 0 default) [Tree.node { kind := .blockquote }
        (Tree.mapSegsL (shiftSeg src) ((nA.getD 0 default).children.map (treeOf nA m)))]).readBlank false).str =
      ((treeOf nB (m + 2) 0).readBlank false).str := by
  have hab := hn.node 0
  have hk : (nB.getD 1 default).kind = .blockquote ∧ (nA.getD 0 default).kind = .document := hab.kind
  have hok0 := hok 0
  have e2 : treeOf nB (m + 2) 0 =
    .node (nB.getD 0 default) ((nB.getD 0 default).children.map (treeOf nB (m + 1))) := rfl
  have e3 : treeOf nB (m + 1) 1 =
    .node (nB.getD 1 default) ((nB.getD 1 default).children.map (treeOf nB m)) := rfl
  have e4 : ([1] : List Nat).map (treeOf nB (m + 1)) = [treeOf nB (m + 1) 1] := rfl
  rw [e2, hn.doc0, e4, e3, readBlank_node, readBlank_node]
  refine str_congr hk.2 rfl ?_ hd ?_
  · rw [nodeFields_document (n := eraseN _) hk.2, nodeFields_document (n := eraseN _) rfl]
  · have hf' : ((Kind.document == Kind.list || Kind.document == Kind.listItem)) = false := rfl
    rw [hk.2]
    simp only [hf', Tree.readBlankL, Bool.false_and, strs_single]
    congr 1
    rw [readBlank_node, readBlank_node]
    have hbl : (nB.getD 1 default).lines = [] := segsRel_nil (hd ▸ hab.lines)
    refine str_congr hk.1.symm rfl ?_ hbl.symm ?_
    · rw [nodeFields_blockquote (n := eraseN _) rfl, nodeFields_blockquote (n := eraseN _) hk.1]
    · have hc : (nB.getD 1 default).children = (nA.getD 0 default).children.map (· + 1) := hab.children
      have hbq : ((Kind.blockquote == Kind.list || Kind.blockquote == Kind.listItem)) = false := rfl
      rw [hk.1, mapSegsL_map, hc, hbq]
      refine strs_simF (ta := fun j => (treeOf nA m j).mapSegs (shiftSeg src)) (tb := treeOf nB m) false _ true
        ?_ (fun h => by cases h) (fun h => by cases h)
      intro j hj
      exact tree_simF hn hok hfe m j (fun e => hok0.2.2.2 (e ▸ hj)) false (fun h => by cases h)

/-- the conclusion: related final stores with the weak flag relation give equal dumps -/
theorem quoteSimPair_eqF (src : Bytes) (sA sB : St) (hA : run src = .ok sA) (hB : run (quotePrefix src) = .ok sB)
    (hn : StoreRel src sA.nodes sB.nodes) (hw : WellShapedL sA) (hfe : FE sA.nodes sB.nodes) :
    ∀ e g, quoteSimPair src = some (e, g) → e = g := by
  intro e g h
  unfold quoteSimPair at h
  split at h
  · cases h
  · rw [hA] at h
    simp only [hB] at h
    obtain ⟨m, hm⟩ : ∃ m, sA.nodes.length = m + 1 := ⟨sA.nodes.length - 1, by have := hn.pos; omega⟩
    have hmB : sB.nodes.length = m + 2 := by rw [hn.len, hm]
    have e1 : treeOf sA.nodes (m + 1) 0 =
      .node (sA.nodes.getD 0 default) ((sA.nodes.getD 0 default).children.map (treeOf sA.nodes m)) := rfl
    rw [hm, hmB, e1] at h
    simp only [Option.some.injEq, Prod.mk.injEq] at h
    obtain ⟨rfl, rfl⟩ := h
    exact root_simF hn hw.getD hfe hw.1 m

/-! ### `FE` across a pair of calls -/

theorem getD_default_blankPrev (n : List Node) (i : Nat) (h : n.length ≤ i) :
    (n.getD i default).blankPrev = false := by
  rw [List.getD_eq_getElem?_getD, List.getElem?_eq_none h]
  rfl

theorem fe_step {nA nB nA' nB' : List Node} (hfe : FE nA nB) (hA : BPn nA nA') (hB : BPn nB nB')
    (hc : CHn nA nA') (hlen : nB.length = nA.length + 1) : FE nA' nB' := by
  intro q hq c hcm
  show (nB'.getD (c + 1) default).blankPrev = (nA'.getD c default).blankPrev
  by_cases hlt : c < nA.length
  · rw [hA.2.1 c hlt, hB.2.1 (c + 1) (by omega)]
    cases hc.2 q hq c hcm with
    | inl hold => exact hfe q hq c hold
    | inr hnew => omega
  · rw [hA.2.2 c (by omega), hB.2.2 (c + 1) (by omega)]

/-! ### the calculus -/

/-- add a fact about run B's result to a simulation -/
theorem S2.andR {α β} {Q : α → β → St → St → Prop} {G : β → St → Prop} {x : Except Panic (α × St)}
    {y : Except Panic (β × St)} (h : S2 Q x y) (hB : ∀ b sB', y = .ok (b, sB') → G b sB') :
    S2 (fun a b sA' sB' => Q a b sA' sB' ∧ G b sB') x y := by
  intro a sA e
  obtain ⟨b, sB, h1, h2⟩ := h a sA e
  exact ⟨b, sB, h1, h2, hB b sB h1⟩

end GM.Blocks
