/-
  GM.Proof.ConvertHEsc — the ids `ids.Generate` returns consist of `a-z`, `0-9`, `-` only (`generate_idBytes`), so
  util.EscapeHTML leaves them alone (`escapeHTML_generated`): the `id="…"` the renderer writes is the id itself.
-/
import GM.Model.Ids
import GM.Proof.Ids

namespace GM.ConvertH
open GM GM.Ids

/-- the bytes of a generated id -/
def IdByte (c : UInt8) : Bool := (97 ≤ c && c ≤ 122) || (48 ≤ c && c ≤ 57) || c == 45

theorem escByte_idByte : ∀ c : UInt8, IdByte c = true → escByte c = [c] := by
  apply forall_uint8
  decide +kernel

theorem lower_idByte : ∀ v : UInt8, isAlnum v = true → IdByte (if 65 ≤ v && v ≤ 90 then v + 32 else v) = true := by
  apply forall_uint8
  decide +kernel

theorem slugAux_idBytes : ∀ (v : Bytes) (skip : Nat), ∀ c ∈ slugAux skip v, IdByte c = true
  | [], skip, c, h => by cases skip <;> simp [slugAux] at h
  | b :: rest, skip + 1, c, h => by
    simp only [slugAux] at h
    exact slugAux_idBytes rest skip c h
  | b :: rest, 0, c, h => by
    simp only [slugAux] at h
    split at h
    · exact slugAux_idBytes rest _ c h
    · split at h
      · rename_i ha
        rcases List.mem_cons.1 h with rfl | h
        · exact lower_idByte b ha
        · exact slugAux_idBytes rest 0 c h
      · split at h
        · rcases List.mem_cons.1 h with rfl | h
          · rfl
          · exact slugAux_idBytes rest 0 c h
        · exact slugAux_idBytes rest 0 c h

theorem base_idBytes (v : Bytes) (hd : Bool) : ∀ c ∈ base v hd, IdByte c = true := by
  intro c hc
  unfold base at hc
  simp only at hc
  split at hc
  · split at hc
    · revert c; decide
    · revert c; decide
  · exact slugAux_idBytes _ 0 c hc

theorem digit_idByte (k : Nat) (hk : k < 10) : IdByte (UInt8.ofNat (48 + k)) = true := by
  have : ∀ k : Fin 10, IdByte (UInt8.ofNat (48 + k.val)) = true := by decide
  exact this ⟨k, hk⟩

theorem decAux_idBytes : ∀ (fuel n : Nat) (acc : Bytes), (∀ c ∈ acc, IdByte c = true) → ∀ c ∈ decAux fuel n acc, IdByte c = true
  | 0, _, acc, ha, c, h => by simp only [decAux] at h; exact ha c h
  | fuel + 1, n, acc, ha, c, h => by
    simp only [decAux] at h
    split at h
    · rename_i hn
      rcases List.mem_cons.1 h with rfl | h
      · exact digit_idByte n hn
      · exact ha c h
    · refine decAux_idBytes fuel (n / 10) _ ?_ c h
      intro d hd
      rcases List.mem_cons.1 hd with rfl | hd
      · exact digit_idByte (n % 10) (Nat.mod_lt _ (by decide))
      · exact ha d hd

theorem cand_idBytes (b : Bytes) (i : Nat) (hb : ∀ c ∈ b, IdByte c = true) : ∀ c ∈ cand b i, IdByte c = true := by
  intro c hc
  unfold cand at hc
  rcases List.mem_append.1 hc with h | h
  · exact hb c h
  · rcases List.mem_cons.1 h with rfl | h
    · rfl
    · exact decAux_idBytes _ _ [] (fun _ h => by cases h) c h

theorem generate_idBytes {used : Tbl} {v : Bytes} {hd : Bool} {id : Bytes} {used' : Tbl}
    (hg : generate used v hd = some (id, used')) : ∀ c ∈ id, IdByte c = true := by
  rcases GM.Proof.Ids.generate_bound hg with h | ⟨i, _, _, h, _⟩
  · rw [h]; exact base_idBytes v hd
  · rw [h]; exact cand_idBytes _ i (base_idBytes v hd)

theorem escapeHTML_idBytes : ∀ (v : Bytes), (∀ c ∈ v, IdByte c = true) → escapeHTML v = v
  | [], _ => rfl
  | c :: rest, h => by
    have h1 := escByte_idByte c (h c (List.mem_cons_self ..))
    have h2 := escapeHTML_idBytes rest (fun d hd => h d (List.mem_cons_of_mem _ hd))
    unfold escapeHTML at h2 ⊢
    simp only [List.flatMap_cons, h1, h2, List.singleton_append]

/-- util.EscapeHTML is the identity on every id `Generate` returns -/
theorem escapeHTML_generated {used : Tbl} {v : Bytes} {hd : Bool} {id : Bytes} {used' : Tbl}
    (hg : generate used v hd = some (id, used')) : escapeHTML id = id :=
  escapeHTML_idBytes id (generate_idBytes hg)

end GM.ConvertH
