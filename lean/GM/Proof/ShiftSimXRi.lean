/-
  GM.Proof.ShiftSimXRi — the six parsers of `Cov6` keep the reader invariant of run A (`Sh.lb_RIs`): every
  `Advance(n)` they make has `0 ≤ n`, also at the end of the source.
-/
import GM.Proof.ShiftSimXHcl
import GM.Proof.ShiftSimListB

namespace GM.Blocks.Xs
open GM GM.Text GM.Spec GM.Proof.Reader GM.Blocks

/-! ### the calculus -/

theorem xri_advance_keeps (b : Bytes) (n : Int) (hn : 0 ≤ n) : Keeps (Sh.lb_RIs b) (advance n) := by
  intro s a s' ⟨c, hc⟩ h
  obtain ⟨r', h1, h2⟩ := ri_advance hc hn
  unfold GM.Blocks.advance at h
  rw [h1] at h
  cases h
  exact ⟨_, h2⟩

/-- `PeekLine` first: the rest may use that the value is the view of some cursor of the invariant -/
theorem xri_peek_bind (b : Bytes) {β} {f : Option Bytes × Segment → M β}
    (hf : ∀ (c : RCur) (r : Reader), RI b r c → Keeps (Sh.lb_RIs b) (f (RCur.view b c, RCur.seg b c))) :
    Keeps (Sh.lb_RIs b) (peekLine >>= f) := by
  intro s a s' ⟨c, hc⟩ h
  obtain ⟨r', h1, h2⟩ := ri_peekLine hc
  simp only [Bind.bind, StateT.bind] at h
  unfold GM.Blocks.peekLine at h
  rw [h1] at h
  simp only [Except.bind, bind, pure, Except.pure] at h
  exact hf c r' h2 _ a s' ⟨c, h2⟩ h

theorem xri_keeps_of_post {b : Bytes} {α} {m : M α}
    (h : ∀ s c, RI b s.r c → xh_Post (fun _ s' => Sh.lb_RIs b s') (m s)) : Keeps (Sh.lb_RIs b) m :=
  fun s a s' ⟨c, hc⟩ e => h s c hc a s' e

theorem xri_post_of_keeps {b : Bytes} {α} {m : M α} (h : Keeps (Sh.lb_RIs b) m) (s : St) (hs : Sh.lb_RIs b s) :
    xh_Post (fun _ s' => Sh.lb_RIs b s') (m s) := fun a s' e => h s a s' hs e

macro "xri_step" : tactic =>
  `(tactic| first
    | with_reducible apply Keeps.pure
    | with_reducible apply Keeps.bind
    | with_reducible apply Keeps.ite
    | with_reducible apply Keeps.throw
    | with_reducible apply getNode_keeps
    | with_reducible apply getPc_keeps
    | with_reducible apply source_keeps
    | with_reducible apply position_keeps
    | with_reducible apply liftE_keeps
    | with_reducible apply lastOpenedBlock_keeps
    | with_reducible apply Sh.lb_peekLine_keeps
    | with_reducible apply Sh.lb_lineOffset_keeps
    | (with_reducible apply modNode_keeps; exact Sh.lb_noNodes _)
    | (with_reducible apply newNode_keeps; exact Sh.lb_noNodes _)
    | (with_reducible apply appendLine_keeps; exact Sh.lb_noNodes _)
    | (with_reducible apply xri_advance_keeps; assumption)
    | intro_pi
    | split)

macro "xri" : tactic => `(tactic| repeat' xri_step)

/-- a view that is not blank is the view of a line -/
theorem xri_line_of_notBlank {b : Bytes} {c : RCur} (h : ¬ isBlank ((RCur.view b c).getD []) = true) :
    c.p < b.length := by
  rcases Nat.lt_or_ge c.p b.length with hp | hp
  · exact hp
  · exfalso; apply h
    rw [view_none b c (by omega)]; exact isBlank_nil

theorem xri_seg_len_pos {b : Bytes} {c : RCur} (hp : c.p < b.length) : 0 ≤ (RCur.seg b c).len - 1 := by
  have := lt_lineEnd b hp
  simp only [Segment.len, RCur.seg]; omega

/-! ### paragraph -/

theorem xri_paragraphOpen (b : Bytes) (p : Nat) : Keeps (Sh.lb_RIs b) (paragraphOpen p) := by
  unfold paragraphOpen
  refine xri_peek_bind b (fun c r hc => ?_)
  simp only
  refine Keeps.bind (source_keeps) (fun src => ?_)
  refine Keeps.bind_of (liftE_keeps _) (fun sg ⟨s, s', _, e⟩ => ?_)
  have he : (RCur.seg b c).trimLeftSpace src = .ok sg := by
    unfold liftE at e
    cases hh : (RCur.seg b c).trimLeftSpace src with
    | error er => rw [hh] at e; cases e
    | ok v => rw [hh] at e; cases e; rfl
  obtain ⟨f1, f2, f3⟩ := trimLeftSpace_facts he
  by_cases hem : sg.isEmpty = true
  · rw [if_pos hem]; exact Keeps.pure _
  · rw [if_neg hem]
    have h0 : 0 ≤ sg.len - 1 := by
      simp only [Segment.isEmpty, f3] at hem
      simp only [Segment.len, f3]
      simp at hem
      omega
    xri

theorem xri_paragraphContinue (b : Bytes) (n : Nat) : Keeps (Sh.lb_RIs b) (paragraphContinue n) := by
  unfold paragraphContinue
  refine xri_peek_bind b (fun c r hc => ?_)
  simp only
  by_cases hbl : isBlank ((RCur.view b c).getD []) = true
  · rw [if_pos hbl]; exact Keeps.pure _
  · rw [if_neg hbl]
    have h0 := xri_seg_len_pos (xri_line_of_notBlank hbl)
    xri

/-! ### thematic break -/

theorem xri_isThematicBreak_nil (off : Int) : isThematicBreak [] off = false := by
  unfold isThematicBreak
  simp only
  split
  · rfl
  · simp [tbLoop]

theorem xri_thematicOpen (b : Bytes) (p : Nat) : Keeps (Sh.lb_RIs b) (thematicOpen p) := by
  unfold thematicOpen
  refine xri_peek_bind b (fun c r hc => ?_)
  simp only
  refine Keeps.bind (Sh.lb_lineOffset_keeps b) (fun off => ?_)
  by_cases ht : isThematicBreak ((RCur.view b c).getD []) off = true
  · rw [if_pos ht]
    have hp : c.p < b.length := by
      rcases Nat.lt_or_ge c.p b.length with hp | hp
      · exact hp
      · rw [view_none b c (by omega)] at ht
        simp only [Option.getD_none, xri_isThematicBreak_nil] at ht
        cases ht
    have h0 := xri_seg_len_pos hp
    xri
  · rw [if_neg ht]; exact Keeps.pure _

/-! ### ATX heading -/

theorem xri_atxOpen (b : Bytes) (p : Nat) : Keeps (Sh.lb_RIs b) (atxOpen p) := by
  unfold atxOpen; xri

/-! ### block quote -/

theorem xri_blockquoteProcess (b : Bytes) : Keeps (Sh.lb_RIs b) blockquoteProcess := by
  unfold blockquoteProcess
  refine Keeps.bind (Sh.lb_peekLine_keeps b) (fun x => ?_)
  simp only
  refine Keeps.bind (Sh.lb_lineOffset_keeps b) (fun lo => ?_)
  have hpos : 0 ≤ (indentWidthI (x.1.getD []) lo).2 + 1 := by
    have := qh_indentWidthI_pos_nonneg (x.1.getD []) lo; omega
  generalize (indentWidthI (x.1.getD []) lo).2 = pos at hpos
  generalize (indentWidthI (x.1.getD []) lo).1 = w
  have h1 : (0 : Int) ≤ 1 := by omega
  have hap : ∀ pd, Keeps (Sh.lb_RIs b) (advanceAndSetPadding 1 pd) := fun pd => Sh.lb_advPad_keeps b 1 pd h1
  xri
  all_goals first | exact hap _ | skip

theorem xri_blockquoteOpen (b : Bytes) (p : Nat) : Keeps (Sh.lb_RIs b) (blockquoteOpen p) := by
  have := xri_blockquoteProcess b
  unfold blockquoteOpen
  refine Keeps.bind this (fun x => ?_)
  xri

theorem xri_blockquoteContinue (b : Bytes) (n : Nat) : Keeps (Sh.lb_RIs b) (blockquoteContinue n) := by
  have := xri_blockquoteProcess b
  unfold blockquoteContinue
  refine Keeps.bind this (fun x => ?_)
  xri

/-! ### HTML block -/

theorem xri_htmlOpen (b : Bytes) (p : Nat) : Keeps (Sh.lb_RIs b) (htmlOpen p) := by
  unfold htmlOpen
  refine xri_peek_bind b (fun c r hc => ?_)
  have hn := qh_html_adv_nonneg hc
  simp only
  generalize (RCur.view b c).getD [] = line at hn ⊢
  generalize RCur.seg b c = segment at hn ⊢
  xri

theorem xri_htmlContinue (b : Bytes) (n : Nat) : Keeps (Sh.lb_RIs b) (htmlContinue n) := by
  unfold htmlContinue
  refine Keeps.bind (getNode_keeps _) (fun nd => ?_)
  refine xri_peek_bind b (fun c r hc => ?_)
  have hn := qh_html_adv_nonneg hc
  simp only
  generalize (RCur.view b c).getD [] = line at hn ⊢
  generalize RCur.seg b c = segment at hn ⊢
  xri

/-! ### indented code block -/

theorem xri_newNode_post (n : Node) (s : St) : xh_Post (fun _ s' => s'.r = s.r) (newNode n s) := by
  intro a s' h
  unfold newNode at h
  cases h; rfl

/-- the common tail after `indentPosition` on a line that is not blank -/
theorem xri_codeTake (b : Bytes) {s : St} {c : RCur} (hc : RI b s.r c) (node : Nat) (lo : Int)
    (hbl : ¬ isBlank ((RCur.view b c).getD []) = true)
    (hneg : ¬ (indentPosition ((RCur.view b c).getD []) lo 4).1 < 0) :
    xh_Post (fun _ s' => Sh.lb_RIs b s')
      (codeTakeLine node (indentPosition ((RCur.view b c).getD []) lo 4).1
        (indentPosition ((RCur.view b c).getD []) lo 4).2 s) := by
  have hp := xri_line_of_notBlank hbl
  have hvl := view_getD_length_nat b c hp
  generalize (RCur.view b c).getD [] = line at hvl hbl hneg ⊢
  have hbd := indentPosition_bounds line lo
  generalize indentPosition line lo 4 = pp at hbd hneg ⊢
  obtain ⟨pos, pd⟩ := pp
  simp only at hbd hneg ⊢
  have hnb : isBlank line = false := by
    cases hh : isBlank line with
    | true => exact absurd hh hbl
    | false => rfl
  obtain ⟨_, _, hb3, _⟩ := hbd (by omega)
  have hlt := hb3 hnb
  have hok : CodeTakeOK b c pos := ⟨hp, by omega⟩
  refine (xh_codeTakeLine_post hc node (by omega) pd hok).mono ?_
  intro _ s' ⟨c', h', _⟩
  exact ⟨c', h'⟩

theorem xri_codeOpen (b : Bytes) (p : Nat) : Keeps (Sh.lb_RIs b) (codeOpen p) := by
  apply xri_keeps_of_post; intro s c hc
  unfold codeOpen
  refine xh_Post.bind (xh_Post.of_okl (peekLine_okl hc)) (fun x s1 ⟨hx, r1, hs1, h1⟩ => ?_)
  subst hx hs1
  simp only
  refine xh_Post.bind (xh_Post.of_okl (lineOffset_okl (s := { s with r := r1 }) h1)) (fun lo s2 ⟨_, r2, hs2, h2⟩ => ?_)
  subst hs2
  have key := fun (s3 : St) (h3 : RI b s3.r c) (node : Nat) => xri_codeTake b (s := s3) h3 node lo
  generalize (RCur.view b c).getD [] = line at key ⊢
  generalize indentPosition line lo 4 = pp at key ⊢
  obtain ⟨pos, pd⟩ := pp
  simp only at key ⊢
  by_cases hcnd : (decide (pos < 0) || isBlank line) = true
  · rw [if_pos hcnd]; exact xh_Post.pure ⟨c, h2⟩
  · rw [if_neg hcnd]
    have hneg : ¬ pos < 0 := by intro h; apply hcnd; simp [h]
    have hbl : ¬ isBlank line = true := by intro h; apply hcnd; simp [h]
    refine xh_Post.bind (xri_newNode_post _ _) (fun node s3 hs3 => ?_)
    have h3 : RI b s3.r c := by rw [hs3]; exact h2
    refine xh_Post.bind (key s3 h3 node hbl hneg) (fun _ s4 h4 => ?_)
    exact xh_Post.pure h4

theorem xri_codeContinue (b : Bytes) (n : Nat) : Keeps (Sh.lb_RIs b) (codeContinue n) := by
  apply xri_keeps_of_post; intro s c hc
  unfold codeContinue
  refine xh_Post.bind (xh_Post.of_okl (peekLine_okl hc)) (fun x s1 ⟨hx, r1, hs1, h1⟩ => ?_)
  subst hx hs1
  simp only
  by_cases hbl : isBlank ((RCur.view b c).getD []) = true
  · rw [if_pos hbl]
    refine xri_post_of_keeps ?_ _ ⟨c, h1⟩
    xri
  · rw [if_neg hbl]
    refine xh_Post.bind (xh_Post.of_okl (lineOffset_okl (s := { s with r := r1 }) h1)) (fun lo s2 ⟨_, r2, hs2, h2⟩ => ?_)
    subst hs2
    have key := xri_codeTake b (s := { s with r := r2 }) h2 n lo hbl
    generalize (RCur.view b c).getD [] = line at key ⊢
    generalize indentPosition line lo 4 = pp at key ⊢
    obtain ⟨pos, pd⟩ := pp
    simp only at key ⊢
    by_cases hneg : pos < 0
    · rw [if_pos hneg]; exact xh_Post.pure ⟨c, h2⟩
    · rw [if_neg hneg]
      refine xh_Post.bind (key hneg) (fun _ s4 h4 => ?_)
      exact xh_Post.pure h4

/-! ### the six parsers -/

theorem ri_open6 (src : Bytes) : ∀ bp, Cov6 bp → ∀ p, Keeps (Sh.lb_RIs src) (bpOpen bp p) := by
  intro bp h p
  cases bp <;> unfold bpOpen
  · exact absurd rfl h.2.2.1
  · exact xri_thematicOpen src p
  · exact absurd rfl h.1
  · exact absurd rfl h.2.1
  · exact xri_codeOpen src p
  · exact xri_atxOpen src p
  · exact absurd rfl h.2.2.2
  · exact xri_blockquoteOpen src p
  · exact xri_htmlOpen src p
  · exact xri_paragraphOpen src p

theorem ri_continue6 (src : Bytes) : ∀ bp, Cov6 bp → ∀ n, Keeps (Sh.lb_RIs src) (bpContinue bp n) := by
  intro bp h n
  cases bp <;> unfold bpContinue
  · exact Keeps.pure _
  · exact Keeps.pure _
  · exact absurd rfl h.1
  · exact absurd rfl h.2.1
  · exact xri_codeContinue src n
  · exact Keeps.pure _
  · exact absurd rfl h.2.2.2
  · exact xri_blockquoteContinue src n
  · exact xri_htmlContinue src n
  · exact xri_paragraphContinue src n

end GM.Blocks.Xs
