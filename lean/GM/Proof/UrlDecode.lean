/-
  GM.Proof.UrlDecode — URLEscape does not change what a URL means: percent-decoding the output of the
  escaping loop gives the same bytes as percent-decoding its (valid UTF-8) input.
-/
import GM.Proof.UrlEscape

namespace GM.Proof
open GM GM.Spec

theorem pd_cons_ne {c : UInt8} (hc : c ≠ 37) (r : Bytes) : pctDecode (c :: r) = c :: pctDecode r := by
  rcases r with _ | ⟨a, _ | ⟨b, r⟩⟩
  · rfl
  · rfl
  · simp [pctDecode, hc]

theorem pd_triple {a b : UInt8} (ha : isHex a = true) (hb : isHex b = true) (r : Bytes) :
    pctDecode (37 :: a :: b :: r) = (hexValue a * 16 + hexValue b) :: pctDecode r := by
  rw [isHex_eq_spec] at ha hb
  simp [pctDecode, ha, hb]

theorem pd_pct_none {cs : Bytes} (h : pctTriple 37 cs = none) : pctDecode (37 :: cs) = 37 :: pctDecode cs := by
  have h2 := pctTriple_none h
  rcases cs with _ | ⟨a, _ | ⟨b, r⟩⟩
  · rfl
  · rfl
  · simp only [hex2, beq_self_eq_true, Bool.true_and, Bool.and_eq_false_iff] at h2
    rw [isHex_eq_spec, isHex_eq_spec] at h2
    rcases h2 with h2 | h2 <;> simp [pctDecode, h2]

theorem pd_ne_list (x T : Bytes) (h : x.all (fun c => c != 37) = true) : pctDecode (x ++ T) = x ++ pctDecode T := by
  induction x with
  | nil => rfl
  | cons c x ih =>
    simp only [List.all_cons, Bool.and_eq_true, bne_iff_ne, ne_eq] at h
    rw [List.cons_append, pd_cons_ne h.1, ih h.2]; rfl

/-- bytes that QueryEscape writes as %XX, and %XX reads back as the byte -/
theorem qeByte_pct : ∀ c : UInt8, (urlSafe c = false ∧ c ≠ 32) ∨ isCont c = true →
    qeByte c = [37, upperHex (c >>> 4), upperHex (c &&& 15)] ∧
    isHex (upperHex (c >>> 4)) = true ∧ isHex (upperHex (c &&& 15)) = true ∧
    hexValue (upperHex (c >>> 4)) * 16 + hexValue (upperHex (c &&& 15)) = c := by
  apply forall_uint8; decide +kernel

theorem pd_qe (x T : Bytes) (h : ∀ c ∈ x, (urlSafe c = false ∧ c ≠ 32) ∨ isCont c = true) :
    pctDecode (queryEscape x ++ T) = x ++ pctDecode T := by
  induction x with
  | nil => rfl
  | cons c x ih =>
    obtain ⟨e, h1, h2, h3⟩ := qeByte_pct c (h c List.mem_cons_self)
    have : queryEscape (c :: x) ++ T = qeByte c ++ (queryEscape x ++ T) := by simp [queryEscape]
    rw [this, e]
    simp only [List.cons_append, List.nil_append]
    rw [pd_triple h1 h2, h3, ih (fun c' hc' => h c' (List.mem_cons_of_mem _ hc'))]

theorem cont_ne_pct : ∀ c : UInt8, isCont c = true → (c != 37) = true := by
  apply forall_uint8; decide +kernel

theorem urlSafe_ne_pct : ∀ c : UInt8, urlSafe c = true → c ≠ 37 := by
  apply forall_uint8; decide +kernel

theorem loop_decode_of_valid (total : Nat) (l : Bytes) (hv : u8run .s0 l = .s0) (hlen : l.length ≤ total) :
    pctDecode (urlEscapeLoop total l) = pctDecode l := by
  fun_induction urlEscapeLoop total l with
  | case1 => rfl
  | case2 c cs h ih =>
    have hc := urlSafe_ascii c h
    rw [u8run_ascii_cons hc] at hv
    simp only [List.length_cons] at hlen
    rw [pd_cons_ne (urlSafe_ne_pct c h), pd_cons_ne (urlSafe_ne_pct c h), ih hv (by omega)]
  | case3 c cs h a b rest ht ih =>
    obtain ⟨hc, hcs, ha, hb⟩ := pctTriple_some ht
    subst hc hcs
    rw [u8run_ascii_cons (by decide), u8run_ascii_cons (hex_ascii a ha), u8run_ascii_cons (hex_ascii b hb)] at hv
    simp only [List.length_cons] at hlen
    rw [pd_triple ha hb, pd_triple ha hb, ih hv (by omega)]
  | case4 c cs h ht h99 ih => exact absurd (by simpa using h99) (valid_cons hv).1
  | case5 c cs h ht h99 hsp ih =>
    have hc : c = 32 := by simpa using hsp
    subst hc
    rw [u8run_ascii_cons (by decide)] at hv
    simp only [List.length_cons] at hlen
    rw [pd_triple (by decide) (by decide), pd_cons_ne (by decide), ih hv (by omega)]
    rfl
  | case6 c cs h ht h99 hsp h0 ih =>
    obtain ⟨_, conts, rest, hcs, hl, _, _⟩ := valid_cons hv
    have := utf8len_ge_one c
    simp only [List.length_cons, hcs, List.length_append] at hlen
    rw [dif_neg (by omega)] at h0
    simp at h0; omega
  | case7 c cs h ht h99 hsp h0 hgt ih =>
    obtain ⟨_, conts, rest, hcs, hl, _, _⟩ := valid_cons hv
    have := utf8len_ge_one c
    simp only [List.length_cons, hcs, List.length_append] at hlen
    rw [dif_neg (by omega)] at hgt
    simp only [hcs, List.length_append] at hgt; omega
  | case8 c cs h ht h99 hsp h0 hgt ih =>
    obtain ⟨_, conts, rest, hcs, hl, hall, hr⟩ := valid_cons hv
    have := utf8len_ge_one c
    have hle : ¬ utf8len c > total := by
      simp only [List.length_cons, hcs, List.length_append] at hlen; omega
    simp only [dif_neg hle, if_neg hle] at ih ⊢
    obtain ⟨hk, hd⟩ := seq_len hcs hl hall
    rw [hk, hd] at ih
    rw [hk, hd]
    have hr' : rest.length ≤ total := by
      simp only [List.length_cons, hcs, List.length_append] at hlen; omega
    have htake : cs.take (utf8len c - 1) = conts := by rw [hcs, ← hl, List.take_left]
    rw [htake]
    have hns : urlSafe c = false := by simpa using h
    have hsp' : c ≠ 32 := by simpa using hsp
    have hq : ∀ c' ∈ c :: conts, (urlSafe c' = false ∧ c' ≠ 32) ∨ isCont c' = true := by
      intro c' hc'
      rcases List.mem_cons.mp hc' with e | e
      · subst e; exact Or.inl ⟨hns, hsp'⟩
      · exact Or.inr (List.all_eq_true.mp hall c' e)
    rw [pd_qe _ _ hq, ih hr hr', hcs]
    by_cases hc37 : c = 37
    · subst hc37
      have : conts = [] := by
        have : utf8len 37 = 1 := by decide
        rw [this] at hl; exact List.length_eq_zero_iff.mp hl
      subst this
      rw [List.nil_append] at hcs
      subst hcs
      simp only [List.nil_append, List.cons_append]
      rw [pd_pct_none ht]
    · have hall' : conts.all (fun c => c != 37) = true := by
        rw [List.all_eq_true] at hall ⊢
        intro x hx; exact cont_ne_pct x (hall x hx)
      rw [pd_cons_ne hc37, pd_ne_list _ _ hall']; rfl

/-- percent-decoding the result of URLEscape (no reference resolution) gives the same bytes as
    percent-decoding the input, for every valid UTF-8 input -/
theorem urlEscapeRaw_decode (v : Bytes) (hv : validUtf8 v = true) : pctDecode (urlEscapeRaw v) = pctDecode v := by
  have hv' : u8run .s0 v = .s0 := by simpa [validUtf8] using hv
  unfold urlEscapeRaw
  split
  · exact loop_decode_of_valid _ _ hv' (Nat.le_refl _)
  · rfl

end GM.Proof
