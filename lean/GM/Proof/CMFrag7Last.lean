/-
  GM.Proof.CMFrag7Last — stage 7: the LAST block of a source without final line feed, from the line before its first
  line (at a block boundary, or directly behind the open previous block) to the end of parseBlocks.
-/
import GM.Proof.CMFrag7Para

namespace GM.Proof.CMFrag
open GM GM.Text GM.Blocks GM.Spec

section last
variable {src : Bytes}

/-- at the end of the source with nothing open the outer loop returns -/
theorem blocksLoop_eof (k : Int) (e : Nat) (nodes : List Blocks.Node) (pc : Ctx) (bl : List LineStat) (f : Nat)
    (pk : Option Bytes) (lo : Int) (h : Nat) :
    ∃ r', blocksLoopT pts 0 (f + 1) bl ⟨rdr src k h src.length e pk lo, nodes, pc⟩ = .ok ((), ⟨r', nodes, pc⟩) := by
  have hsk : ∀ fuel lines, skipBlankLines readerOps (fuel + 1) lines (rdr src k h src.length e pk lo) =
      .ok ((sg src.length e, lines, false), rdr src k h src.length e pk lo) := by
    intro fuel lines
    rw [skipBlankLines]
    simp only [ops_peek, rpeek_eof (Nat.le_refl _), bind, Except.bind]
    simp [pure, Except.pure]
  refine ⟨rdr src k h src.length e pk lo, ?_⟩
  rw [blocksLoopT]
  have : loopFuel src = (loopFuel src - 1) + 1 := by unfold loopFuel; omega
  simp only [bind_apply, skipBlankLinesR, rdr_source]
  rw [this, hsk]
  simp [bind, Except.bind, pure, Except.pure]
  rfl

theorem paraAt_drop : ∀ (done more : List Bytes) (P : Nat), ParaAt src P (done ++ more) →
    ParaAt src (P + (paraBytes done).length) more
  | [], more, P, h => by simpa [paraBytes] using h
  | a :: t, more, P, h => by
    have e : P + (paraBytes (a :: t)).length = P + a.length + 1 + (paraBytes t).length := by simp [paraBytes]; omega
    rw [e]
    exact paraAt_drop t more (P + a.length + 1) h.2

/-- the per-line loop over the remaining lines `more` (with line feeds) and the last line `l` (without) of the last
    paragraph, which is then closed by the end of the source -/
theorem para_run_last (d : Blocks.Node) (rest : List Blocks.Node) (b : Bool) (P : Nat) (done more : List Bytes) (l : Bytes)
    (hdne : done ≠ []) (hpa : ParaAt src P (done ++ more)) (hbx : ∀ x ∈ done ++ more, BlkLine x)
    (hl : LastLn src (P + (paraBytes (done ++ more)).length) l) (hb : BlkLine l)
    (k : Int) (fl : Nat) (bl : List LineStat) (pc : Ctx)
    (hop : pc.opened = [{ node := rest.length + 1, bp := .paragraph }]) (hfl : more.length + 2 ≤ fl) :
    ∃ bl' s', linesLoopT pts 0 fl bl
        ⟨rdr src k (P + (paraBytes done).length) (P + (paraBytes done).length)
          (lineEnd src (P + (paraBytes done).length)) none (-1), d :: (rest ++ [paraN (openSegs P done) b]), pc⟩ =
        .ok ((true, bl'), s') ∧
      s'.nodes = d :: (rest ++ [paraN (lastSegs P (done ++ more) l) b]) ∧ s'.pc.refs = pc.refs := by
  obtain ⟨fl', rfl⟩ : ∃ fl', fl = (fl' + 2) + more.length := ⟨fl - more.length - 2, by omega⟩
  have hm : ParaAt src (P + (paraBytes done).length) more := paraAt_drop done more P hpa
  obtain ⟨bl1, k1, pc1, ho1, hr1, hbody⟩ :=
    para_body (src := src) d rest b P more done k (fl' + 2) bl pc hm (fun x hx => hbx x (by simp [hx])) hop
  obtain ⟨c, t, hlc, hc⟩ := hb.first
  have hln := hl.ln
  have e1 : (((1 : Nat) : Int) - 1) = 0 := by decide
  have e0 : ((1 : Nat) == 0) = false := rfl
  have hop1 : pc1.opened = [{ node := rest.length + 1, bp := .paragraph }] := by rw [ho1]; exact hop
  have hpa' : ParaAt src P (done ++ more) := hpa
  refine ⟨bl1 ++ [{ lineNum := k1, level := 0, isBlank := isBlank l }],
    ⟨rdr src (k1 + 1 + 1) (lineEnd src src.length) (lineEnd src src.length) (lineEnd src (lineEnd src src.length)) none (-1),
      d :: (rest ++ [paraN (lastSegs P (done ++ more) l) b]),
      { ({ pc1 with blockOffset := 0, blockIndent := 0 } : Ctx) with opened := [] }⟩, ?_, rfl, ?_⟩
  · rw [hbody, linesLoopT]
    simp only [bind_apply, getPc_run, hop1, List.length_singleton, e1, e0, Bool.false_eq_true, if_false]
    rw [hln.lineEnd]
    rw [lineLoop_cont hln (c := c) (t := t) hlc hc k1 d rest (openSegs P (done ++ more)) b pc1 hop1 bl1]
    simp only [advanceLine_run, bind_apply]
    rw [hl.eof]
    have hnode : paraN (openSegs P (done ++ more) ++ [sg (P + (paraBytes (done ++ more)).length) src.length]) b =
        paraN (lastSegs P (done ++ more) l) b := by
      simp only [lastSegs, hl.eof]
    rw [hnode]
    rw [linesLoop_last_eof hpa' hbx hl hb (k1 + 1) _ d rest b { pc1 with blockOffset := 0, blockIndent := 0 } hop1]
  · simp only; rw [hr1]

/-- what the document looks like from a block boundary `q` on when only the last block `b` (without final line
    feed) is left: `s` blank lines, the lines of `b` -/
def LastDoc (src : Bytes) (q s : Nat) (b : Raw5) : Prop := BlanksAt src q s ∧ ParaAtE src (q + s) (lines5 b)

theorem lastSegs_nil (p : Nat) (l : Bytes) : lastSegs p [] l = [sg p (p + l.length)] := by
  simp [lastSegs, openSegs, paraBytes]

/-- the last block is a paragraph: from a block boundary -/
theorem lastB_para (ls : List Bytes) (hne : ls ≠ []) (hbk : ∀ l ∈ ls, BlkLine l) {q s : Nat}
    (hd : LastDoc src q s (.old (.para ls))) (k : Int) (f : Nat) (bl : List LineStat) (d : Blocks.Node)
    (cs : List Blocks.Node) (pc : Ctx) (hop : pc.opened = []) (hf : ls.length + 1 ≤ f) :
    ∃ s' bk, blocksLoopT pts 0 (f + 1) bl ⟨rdr src k q q (lineEnd src q) none (-1), d :: cs, pc⟩ = .ok ((), s') ∧
      s'.nodes = { d with children := d.children ++ [cs.length + 1] } :: (cs ++ [paraN (paraSegs (q + s) ls) bk]) ∧
      s'.pc.refs = pc.refs := by
  obtain ⟨hbl, hE⟩ := hd
  simp only [lines5, lines4] at hE
  obtain ⟨xs, l, rfl⟩ : ∃ xs l, ls = xs ++ [l] := ⟨ls.dropLast, ls.getLast hne, (List.dropLast_concat_getLast hne).symm⟩
  obtain ⟨hpa, hl⟩ := (paraAtE_snoc xs l (q + s)).mp hE
  have hbx : ∀ x ∈ xs, BlkLine x := fun x hx => hbk x (by simp [hx])
  have hb : BlkLine l := hbk l (by simp)
  rw [paraSegs_snoc]
  cases xs with
  | nil =>
    obtain ⟨c, t, hlc, hc⟩ := hb.first
    obtain ⟨_, _, _, hsp, _, _⟩ := letter_facts c hc
    have hln := hl.ln
    simp only [paraBytes, List.flatMap_nil, List.length_nil, Nat.add_zero] at hln
    have hnb : isBlank l = false := by rw [hlc]; simp [isBlank, hsp]
    obtain ⟨f', rfl⟩ : ∃ f', f = f' + 1 := ⟨f - 1, by simp at hf; omega⟩
    have heof := hl.eof
    simp only [paraBytes, List.flatMap_nil, List.length_nil, Nat.add_zero] at heof
    refine ⟨⟨rdr src (k + s + 1 + 1) (lineEnd src src.length) (lineEnd src src.length)
        (lineEnd src (lineEnd src src.length)) none (-1),
        { d with children := d.children ++ [cs.length + 1] } ::
          (cs ++ [paraN (lastSegs (q + s) [] l)
            (isBlankLine (k + (s : Int) - 1) 0 (if ((s : Int) != 0) = true then [] else bl))]),
        { pc with blockOffset := 0, blockIndent := 0, opened := [] }⟩,
      isBlankLine (k + (s : Int) - 1) 0 (if ((s : Int) != 0) = true then [] else bl), ?_,
      by simp [lastSegs, openSegs, paraBytes], rfl⟩
    rw [blocksLoopT]
    simp only [bind_apply, skipR_text k hbl hln hnb, Bool.not_true, Bool.false_eq_true, if_false, position_run,
      getPc_run, hop, List.length_nil, rdr_line, blankStats,
      openBlocks_line hln hlc hc pts _ d cs pc hop _ (some l) (Or.inr rfl)]
    simp only [bne_self_eq_false, Bool.false_eq_true, if_false, bind_apply, advanceLine_run]
    rw [heof]
    have hn : ∀ bk, paraN [sg (q + s) src.length] bk = paraN (lastSegs (q + s) [] l) bk := by
      intro bk; rw [lastSegs_nil, heof]
    rw [hn, linesLoop_last_eof (xs := []) trivial (by simp) hl hb _ _ _ cs _ _ rfl]
    simp [openSegs, paraBytes, lastSegs, pure_apply]
  | cons x0 mid =>
    have hl0 : Ln src (q + s) (q + s + x0.length + 1) (firstLine (.old (.para (x0 :: (mid ++ [l]))))) := by
      simpa [firstLine, lines5, lines4] using hpa.1
    have hg : Good5 (.old (.para (x0 :: (mid ++ [l])))) := ⟨by simp, hbk⟩
    obtain ⟨BL, bk, eopen⟩ := open_any hbl _ hg hl0 k d cs pc hop bl f
    have e0 : q + s + (paraBytes [x0]).length = q + s + x0.length + 1 := by simp [paraBytes]; omega
    obtain ⟨bl', s', h1, h2, h3⟩ :=
      para_run_last (src := src) { d with children := d.children ++ [cs.length + 1] } cs bk (q + s) [x0] mid l
        (by simp) hpa hbx hl hb (k + s + 1) f BL (pcAF (.old (.para (x0 :: (mid ++ [l])))) cs.length pc) rfl
        (by simp at hf ⊢; omega)
    rw [e0] at h1
    refine ⟨s', bk, ?_, h2, by rw [h3]; rfl⟩
    rw [eopen, tailT_of_lines (by simpa [AF, first5, openSegs] using h1)]
    simp [pure_apply]

/-- the last block is a paragraph directly behind the open previous (leaf) block -/
theorem lastO_para (ls : List Bytes) (hne : ls ≠ []) (hbk : ∀ l ∈ ls, BlkLine l) {q : Nat} {x xc : Blocks.Node} {pbp : BP}
    (hprev : OpenPrev src q x xc pbp) (hkf : (x.kind == .paragraph) = false)
    (hE : ParaAtE src q ls) (k : Int) (fl fb : Nat) (bl : List LineStat) (d : Blocks.Node)
    (rest0 : List Blocks.Node) (pc : Ctx) (hop : pc.opened = [{ node := rest0.length + 1, bp := pbp }])
    (hf : ls.length + 2 ≤ fl) :
    ∃ s' bk, tailT fl fb bl ⟨rdr src k q q (lineEnd src q) none (-1), d :: (rest0 ++ [x]), pc⟩ = .ok ((), s') ∧
      s'.nodes = { d with children := d.children ++ [(rest0 ++ [xc]).length + 1] } ::
        ((rest0 ++ [xc]) ++ [paraN (paraSegs q ls) bk]) ∧
      s'.pc.refs = pc.refs := by
  obtain ⟨xs, l, rfl⟩ : ∃ xs l, ls = xs ++ [l] := ⟨ls.dropLast, ls.getLast hne, (List.dropLast_concat_getLast hne).symm⟩
  obtain ⟨hpa, hl⟩ := (paraAtE_snoc xs l q).mp hE
  have hbx : ∀ x ∈ xs, BlkLine x := fun x hx => hbk x (by simp [hx])
  have hb : BlkLine l := hbk l (by simp)
  obtain ⟨fl', rfl⟩ : ∃ fl', fl = fl' + 1 := ⟨fl - 1, by omega⟩
  rw [paraSegs_snoc]
  have hlenx : (rest0 ++ [x]).length = (rest0 ++ [xc]).length := by simp
  cases xs with
  | nil =>
    obtain ⟨c, t, hlc, hc⟩ := hb.first
    obtain ⟨h32, h9, h10, hsp, htr, _⟩ := letter_facts c hc
    have hln := hl.ln
    have heof := hl.eof
    simp only [paraBytes, List.flatMap_nil, List.length_nil, Nat.add_zero] at hln heof
    have hiw : indentWidthI l 0 = (0, 0) := by
      rw [hlc]; unfold GM.Blocks.indentWidthI GM.Blocks.indentWidthGo; simp [h32, h9]
    have hidx : idx l 0 = .ok c := by rw [hlc]; rfl
    have htl : (triggered c).getD freeParsers = [.code, .paragraph] := by rw [htr]; rfl
    obtain ⟨bk, hp⟩ := abut_generic hprev hln c hidx h10 hsp hiw k d rest0 pc hop bl
      (rdr src k q (q + l.length - 1) (q + l.length) none (-1)) rfl (fun bk => paraN [sg q (q + l.length)] bk) .paragraph
      { pc with blockOffset := 0, blockIndent := 0,
                opened := [{ node := rest0.length + 1, bp := pbp }, { node := (rest0 ++ [x]).length + 1, bp := .paragraph }] }
      rfl (fun bk => by
        rw [hkf, htl]
        exact try6_line hln hlc hc pts k d (rest0 ++ [x]) (rest0.length + 1) x (getD_pen d rest0 x) hprev.parent pbp
          { pc with blockOffset := 0, blockIndent := 0 } hop bk)
    obtain ⟨fl'', rfl⟩ : ∃ f2, fl' = f2 + 1 := ⟨fl' - 1, by simp at hf; omega⟩
    have hpass := pass_next hln k _ _ pc _ _ hop bl _ _ _ (fl'' + 1) hp
    have hn : paraN [sg q (q + l.length)] bk = paraN (lastSegs q [] l) bk := by rw [lastSegs_nil]
    rw [hn, heof] at hpass
    have hfin := linesLoop_last_eof (src := src) (p := q) (xs := []) (l := l) trivial (by simp) hl hb (k + 1)
      (lineEnd src src.length) { d with children := d.children ++ [(rest0 ++ [x]).length + 1] } (rest0 ++ [xc]) bk
      { pc with blockOffset := 0, blockIndent := 0, opened := [{ node := (rest0 ++ [x]).length + 1, bp := .paragraph }] }
      (by rw [hlenx]) (bl ++ [{ lineNum := k, level := 0, isBlank := isBlank l }]) fl''
    have ht := tailT_of_lines (fb := fb) (hpass.trans hfin)
    simp only [if_true, pure_apply] at ht
    exact ⟨_, bk, ht, by simp [lastSegs, openSegs, paraBytes, hlenx], rfl⟩
  | cons x0 mid =>
    have hl0 : Ln src q (q + x0.length + 1) (firstLine (.old (.para (x0 :: (mid ++ [l]))))) := by
      simpa [firstLine, lines5, lines4] using hpa.1
    have hg : Good5 (.old (.para (x0 :: (mid ++ [l])))) := ⟨by simp, hbk⟩
    obtain ⟨BL, bk, eab⟩ := abut_any hprev _ hg hl0 hkf (fun _ => rfl) k d rest0 pc hop bl fl'
    have e0 : q + (paraBytes [x0]).length = q + x0.length + 1 := by simp [paraBytes]; omega
    obtain ⟨bl', s', h1, h2, h3⟩ :=
      para_run_last (src := src) { d with children := d.children ++ [(rest0 ++ [xc]).length + 1] } (rest0 ++ [xc]) bk q [x0] mid l
        (by simp) hpa hbx hl hb (k + 1) fl' BL (pcAF (.old (.para (x0 :: (mid ++ [l])))) (rest0 ++ [xc]).length pc) rfl
        (by simp at hf ⊢; omega)
    rw [e0] at h1
    refine ⟨s', bk, ?_, h2, by rw [h3]; rfl⟩
    rw [tailT_congr eab, tailT_of_lines (by simpa [AF, first5, openSegs] using h1)]
    simp [pure_apply]

/-- the statement of `lineLoop_fence_closeE` (proved in CMFrag7Leaf): the per-line loop on a closing fence that has no
    line feed and ends the source -/
def FenceCloseE : Prop :=
  ∀ {src : Bytes} {p e : Nat} {v : Bytes} (_ : Ln src p e v) (_ : e = src.length)
    (fc : UInt8) (_ : fc = 96 ∨ fc = 126) (n : Nat) (_ : v = List.replicate (n + 3) fc) (k : Int) (d : Blocks.Node)
    (rest : List Blocks.Node) (x : Blocks.Node) (_ : x.kind = .fencedCodeBlock) (_ : x.parent = some 0) (pc : Ctx)
    (_ : pc.fence = some (fdOf fc n (rest.length + 1)))
    (_ : pc.opened = [{ node := rest.length + 1, bp := .fenced }]) (bl : List LineStat),
    ∃ lo' : Int,
    lineLoopT pts 0 [{ node := rest.length + 1, bp := .fenced }] 0 [{ node := rest.length + 1, bp := .fenced }] 0 bl
        ⟨rdr src k p p e none (-1), d :: (rest ++ [x]), pc⟩ =
      .ok ((.next, bl ++ [{ lineNum := k, level := 0, isBlank := isBlank v }]),
        ⟨rdr src k p e e none lo', d :: (rest ++ [x]),
          { pc with blockOffset := -1, blockIndent := -1, opened := [], fence := none }⟩)

/-- the per-line loop over the content lines `more` and the closing fence (without line feed, ending the source) -/
theorem linesLoop_fenceE (HX : FenceCloseE) (fc : UInt8) (hfc : fc = 96 ∨ fc = 126) (n : Nat) (d : Blocks.Node)
    (rest : List Blocks.Node) (info : Option Segment) (b : Bool) (P : Nat) :
    ∀ (more done : List Bytes) (k : Int) (fuel : Nat) (bl : List LineStat) (pc : Ctx),
      ParaAt src (P + (paraBytes done).length) more →
      LastLn src (P + (paraBytes (done ++ more)).length) (List.replicate (n + 3) fc) →
      (∀ l ∈ more, CodeLine fc l) → more.length + 2 ≤ fuel →
      pc.opened = [{ node := rest.length + 1, bp := .fenced }] → pc.fence = some (fdOf fc n (rest.length + 1)) →
      ∃ bl' s',
        linesLoopT pts 0 fuel bl
            ⟨rdr src k (P + (paraBytes done).length) (P + (paraBytes done).length)
              (lineEnd src (P + (paraBytes done).length)) none (-1),
              d :: (rest ++ [fenceN info (csegs P done) b]), pc⟩ = .ok ((false, bl'), s') ∧
          s'.nodes = d :: (rest ++ [fenceN info (csegs P (done ++ more)) b]) ∧ s'.pc.opened = [] ∧
          s'.pc.refs = pc.refs ∧
          ∃ k', s'.r = rdr src k' src.length src.length (lineEnd src src.length) none (-1) := by
  intro more
  induction more with
  | nil =>
    intro done k fuel bl pc _ hl _ hf hop hfd
    obtain ⟨f, rfl⟩ : ∃ f, fuel = f + 1 := ⟨fuel - 1, by simp at hf; omega⟩
    obtain ⟨f', rfl⟩ : ∃ f', f = f' + 1 := ⟨f - 1, by simp at hf; omega⟩
    have e1 : (((1 : Nat) : Int) - 1) = 0 := by decide
    have e0 : ((1 : Nat) == 0) = false := rfl
    simp only [List.append_nil] at hl ⊢
    have hln := hl.ln
    have heof := hl.eof
    simp only [List.length_replicate] at hln heof
    obtain ⟨lo', hcl⟩ := HX hln heof fc hfc n rfl k d rest (fenceN info (csegs P done) b) rfl rfl pc hfd hop bl
    refine ⟨bl ++ [{ lineNum := k, level := 0, isBlank := isBlank (List.replicate (n + 3) fc) }],
      ⟨rdr src (k + 1) src.length src.length (lineEnd src src.length) none (-1),
        d :: (rest ++ [fenceN info (csegs P done) b]),
        { pc with blockOffset := -1, blockIndent := -1, opened := [], fence := none }⟩, ?_, rfl, rfl, rfl, k + 1, rfl⟩
    rw [linesLoopT]
    simp only [bind_apply, getPc_run, hop, List.length_singleton, e1, e0, Bool.false_eq_true, if_false]
    rw [hln.lineEnd]
    simp only [hcl, bind_apply, advanceLine_run]
    rw [heof, linesLoopT]
    simp [bind_apply, getPc_run, pure_apply]
  | cons l more ih =>
    intro done k fuel bl pc hpa hl hcode hf hop hfd
    obtain ⟨f, rfl⟩ : ∃ f, fuel = f + 1 := ⟨fuel - 1, by simp at hf; omega⟩
    have e1 : (((1 : Nat) : Int) - 1) = 0 := by decide
    have e0 : ((1 : Nat) == 0) = false := rfl
    obtain ⟨hln, hm'⟩ := hpa
    have hcl := hcode l (by simp)
    have eq1 : P + (paraBytes (done ++ [l])).length = P + (paraBytes done).length + l.length + 1 := by
      rw [paraBytes_snoc_len]; omega
    have eapp : done ++ l :: more = (done ++ [l]) ++ more := by simp
    obtain ⟨c0, t, hvt⟩ : ∃ c0 t, l ++ [10] = c0 :: t := by
      cases l with
      | nil => exact ⟨10, [], rfl⟩
      | cons a r => exact ⟨a, r ++ [10], rfl⟩
    obtain ⟨h32, h9, hne⟩ := hcl c0 t hvt
    obtain ⟨bl', s', h1, h2, h3, h4, h5⟩ :=
      ih (done ++ [l]) (k + 1) f (bl ++ [{ lineNum := k, level := 0, isBlank := isBlank (l ++ [10]) }]) pc
        (by rw [eq1]; exact hm') (by rw [← eapp]; exact hl) (fun x hx => hcode x (by simp [hx])) (by simp at hf ⊢; omega) hop hfd
    refine ⟨bl', s', ?_, by rw [eapp]; exact h2, h3, h4, h5⟩
    rw [linesLoopT]
    simp only [bind_apply, getPc_run, hop, List.length_singleton, e1, e0, Bool.false_eq_true, if_false]
    rw [hln.lineEnd]
    rw [lineLoop_fence_cont hln fc n c0 t hvt h32 h9 hne k d rest info (csegs P done) b pc hfd hop bl]
    simp only [advanceLine_run, bind_apply]
    rw [csegs_append, eq1] at h1
    simp only [← h1]

/-- the last block is a fenced code block: from behind its opening fence to the end -/
theorem fence_tail_last (HX : FenceCloseE) (fc : UInt8) (n : Nat) (info : Bytes) (ls : List Bytes)
    (hg : Good5 (.fence fc n info ls)) (p e : Nat) (hl : Ln src p e (firstLine (.fence fc n info ls)))
    (hE : ParaAtE src p (lines5 (.fence fc n info ls))) (k : Int) (fl fb : Nat) (BL : List LineStat) (d : Blocks.Node)
    (cs : List Blocks.Node) (bk : Bool) (pc : Ctx) (hfl : ls.length + 2 ≤ fl) (hfb : 1 ≤ fb) :
    ∃ s', tailT fl fb BL (AF src k e d cs (.fence fc n info ls) p bk pc) = .ok ((), s') ∧
      s'.nodes = { d with children := d.children ++ [cs.length + 1] } :: (cs ++ [node5 p (.fence fc n info ls) bk]) ∧
      s'.pc.refs = pc.refs := by
  obtain ⟨hfc, hinfo, hcode⟩ := hg
  have hlen := hl.len
  have hlt := hl.lt
  have he : e = p + (n + 3 + info.length) + 1 := by simp [firstLine, lines5] at hlen; omega
  subst he
  have hE' : ParaAtE src p (((List.replicate (n + 3) fc ++ info) :: ls) ++ [List.replicate (n + 3) fc]) := by
    simpa [lines5] using hE
  obtain ⟨hpa, hlast⟩ := (paraAtE_snoc _ _ p).mp hE'
  have e0 : p + (paraBytes ((List.replicate (n + 3) fc ++ info) :: ls)).length =
      p + (n + 3 + info.length) + 1 + (paraBytes ([] ++ ls)).length := by simp [paraBytes]; omega
  rw [e0] at hlast
  obtain ⟨bl', s1, h1, h2, h3, h4, k', h5⟩ :=
    linesLoop_fenceE (src := src) HX fc hfc n { d with children := d.children ++ [cs.length + 1] } cs
      (if info.isEmpty then none else some (sg (p + n + 3) (p + (n + 3 + info.length) + 1 - 1))) bk
      (p + (n + 3 + info.length) + 1) ls [] k fl BL (pcAF (.fence fc n info ls) cs.length pc)
      (by have := hpa.2; simpa [paraBytes] using this) hlast hcode hfl rfl rfl
  obtain ⟨fb', rfl⟩ : ∃ fb', fb = fb' + 1 := ⟨fb - 1, by omega⟩
  have es1 : s1 = ⟨rdr src k' src.length src.length (lineEnd src src.length) none (-1), s1.nodes, s1.pc⟩ := by
    cases s1; simp only at h5 ⊢; rw [h5]
  obtain ⟨r', hb⟩ := blocksLoop_eof (src := src) k' (lineEnd src src.length) s1.nodes s1.pc bl' fb' none (-1) src.length
  have en : node5 p (.fence fc n info ls) bk =
      fenceN (if info.isEmpty then none else some (sg (p + n + 3) (p + (n + 3 + info.length) + 1 - 1)))
        (csegs (p + (n + 3 + info.length) + 1) ([] ++ ls)) bk := by
    simp only [node5, List.nil_append]
    have a1 : p + n + 3 + info.length = p + (n + 3 + info.length) + 1 - 1 := by omega
    have a2 : p + (n + 3 + info.length) + 1 - 1 + 1 = p + (n + 3 + info.length) + 1 := by omega
    rw [a1, a2]
  have h1' : linesLoopT pts 0 fl BL (AF src k (p + (n + 3 + info.length) + 1) d cs (.fence fc n info ls) p bk pc) =
      .ok ((false, bl'), s1) := by
    simp only [paraBytes, List.flatMap_nil, List.length_nil, Nat.add_zero, csegs] at h1
    simpa [AF, first5] using h1
  refine ⟨⟨r', s1.nodes, s1.pc⟩, ?_, by simp only; rw [h2, ← en], by simp only; rw [h4]; rfl⟩
  rw [tailT_of_lines h1']
  simp only [Bool.false_eq_true, if_false]
  rw [es1]; exact hb

/-! ### single-line last blocks: ATX heading, thematic break -/

/-- from the parser loop to `openBlocks`, with nothing open -/
theorem openBlocks0_of_try {p e : Nat} {v : Bytes} (hl : Ln src p e v) (c0 : UInt8) (hidx : idx v 0 = .ok c0)
    (h10 : (c0 == 10) = false) (hiw : indentWidthI v 0 = (0, 0)) (k : Int) (nodes : List Blocks.Node) (pc : Ctx)
    (hop : pc.opened = []) (blank : Bool) (pk : Option Bytes) (hpk : pk = none ∨ pk = some v) (S' : St)
    (htry : tryParsersT pts 0 blank false 0 ((triggered c0).getD freeParsers) .noBlocksOpened none
        ⟨rdr src k p p e (some v) 0, nodes, { pc with blockOffset := 0, blockIndent := 0 }⟩ =
      .ok ((.done, .newBlocksOpened, none), S')) :
    openBlocksT pts 0 blank ⟨rdr src k p p e pk (-1), nodes, pc⟩ = .ok (.newBlocksOpened, S') := by
  have hp : p < src.length := by have := hl.le; have := hl.lt; omega
  have hpeek : ∀ nodes pc', peekLine ⟨rdr src k p p e pk (-1), nodes, pc'⟩ =
      .ok ((some v, sg p e), ⟨rdr src k p p e (some v) (-1), nodes, pc'⟩) := by
    intro nodes pc'
    rcases hpk with h | h
    · subst h; exact peekLine_fresh hl.sub hp (Nat.le_of_lt hl.lt) hl.le ..
    · subst h; exact peekLine_cached hp ..
  have hlen : ¬ ((0 : Int) ≥ (v.length : Int)) := by have := hl.len; have := hl.lt; omega
  have hlen' : (0 : Int) < (v.length : Int) := by omega
  unfold openBlocksT
  simp only [bind_apply, lastOpenedBlock_run, hop, List.getLast?_nil, pure_apply, source_run, retryFuel]
  rw [openBlocksLoopT]
  simp only [bind_apply, hpeek, Option.getD_some, lineOffset_fresh, hiw]
  simp only [modPc_run, hlen, if_false, Option.isNone_some, Bool.false_eq_true, bind_apply, hidx, liftE_ok, h10, hlen',
    if_true, pure_apply]
  unfold retryStepT
  simp only [bind_apply, get_run, htry]
  simp [toContinuable, pure_apply]

/-- the statements of the two leaf `Open` lemmas for a line without line feed (proved in CMFrag7Leaf) -/
def AtxOpenE : Prop :=
  ∀ {src : Bytes} {p e : Nat} {v : Bytes} (_ : Ln src p e v) (level : Nat) (l : Bytes)
    (_ : v = List.replicate level 35 ++ 32 :: l) (_ : 1 ≤ level) (_ : level ≤ 6)
    (_ : BlkLine l) (_ : ∀ c, l.getLast? = some c → c ≠ 35) (k : Int) (nodes : List Blocks.Node) (pc : Ctx)
    (_ : pc.blockOffset = 0) (parent : Nat),
    atxOpen parent ⟨rdr src k p p e (some v) 0, nodes, pc⟩ =
      .ok ((some nodes.length, stNoChildren),
        ⟨rdr src k p p e (some v) 0,
          nodes ++ [{ kind := .heading, level := (level : Int), lines := [sg (p + level + 1) e], linesNil := false }], pc⟩)

def HrOpenE : Prop :=
  ∀ {src : Bytes} {p e : Nat} {v : Bytes} (_ : Ln src p e v) (ch : UInt8) (_ : hrChar ch) (n : Nat)
    (_ : v = List.replicate (n + 3) ch) (k : Int) (nodes : List Blocks.Node) (pc : Ctx) (parent : Nat),
    thematicOpen parent ⟨rdr src k p p e (some v) 0, nodes, pc⟩ =
      .ok ((some nodes.length, stNoChildren),
        ⟨rdr src k p (e - 1) e none (-1), nodes ++ [{ kind := .thematicBreak }], pc⟩)

/-- the parser loop on a last-line ATX heading, with nothing open (`prev = none`) or one block open -/
theorem tryE_atx (HA : AtxOpenE) {p e : Nat} {v : Bytes} (hl : Ln src p e v) (level : Nat) (l : Bytes)
    (hv : v = List.replicate level 35 ++ 32 :: l) (h1 : 1 ≤ level) (h6 : level ≤ 6)
    (hb : BlkLine l) (hlast : ∀ c, l.getLast? = some c → c ≠ 35) (cont : Bool)
    (k : Int) (d : Blocks.Node) (rest' : List Blocks.Node) (prev : Option Block)
    (hx : ∀ blk, prev = some blk → ∀ d' tail, ((d' :: (rest' ++ tail)).getD blk.node default).parent = some 0)
    (pc' : Ctx) (hop : pc'.opened = prev.toList) (hoff : pc'.blockOffset = 0) (blank : Bool) :
    tryParsersT pts 0 blank cont 0 [.atx, .code, .paragraph] .noBlocksOpened prev
        ⟨rdr src k p p e (some v) 0, d :: rest', pc'⟩ =
      .ok ((.done, .newBlocksOpened, prev),
        ⟨rdr src k p p e (some v) 0,
          { d with children := d.children ++ [rest'.length + 1] } :: (rest' ++ [headN level [sg (p + level + 1) e] blank]),
          { pc' with opened := prev.toList ++ [{ node := rest'.length + 1, bp := .atx }] }⟩) := by
  cases prev with
  | none =>
    simp only [Option.toList] at hop
    rw [tryParsersT]
    simp [bind_apply, lastOpenedBlock_run, hop, bpOpen, HA hl level l hv h1 h6 hb hlast k (d :: rest') pc' hoff,
      BP.canAcceptIndentedLine, BP.canInterruptParagraph, pure_apply, stNoChildren, modNode_run, appendChild,
      ensureIsolated, getNode_run, headN]
    simp [map_apply, modPc_run, hop]
  | some blk =>
    simp only [Option.toList] at hop
    have hx' : ∀ d' tail, ((d' :: (rest' ++ tail))[blk.node]?.getD default).parent = some 0 := by
      intro d' tail; rw [← List.getD_eq_getElem?_getD]; exact hx blk rfl d' tail
    rw [tryParsersT]
    simp [bind_apply, lastOpenedBlock_run, hop, bpOpen, HA hl level l hv h1 h6 hb hlast k (d :: rest') pc' hoff,
      BP.canAcceptIndentedLine, BP.canInterruptParagraph, pure_apply, stNoChildren, modNode_run, appendChild,
      ensureIsolated, getNode_run, headN]
    simp [hx', bind_apply, getNode_run, modNode_run, map_apply, modPc_run, pure_apply, hop]

/-- the parser loop on a last-line thematic break -/
theorem tryE_hr (HH : HrOpenE) {p e : Nat} {v : Bytes} (hl : Ln src p e v) (ch : UInt8) (hch : hrChar ch) (n : Nat)
    (hv : v = List.replicate (n + 3) ch) (cont : Bool)
    (k : Int) (d : Blocks.Node) (rest' : List Blocks.Node) (prev : Option Block)
    (hx : ∀ blk, prev = some blk → ∀ d' tail, ((d' :: (rest' ++ tail)).getD blk.node default).parent = some 0)
    (hk : ∀ blk, prev = some blk → ch = 45 → (((d :: rest').getD blk.node default).kind == .paragraph) = false)
    (pc' : Ctx) (hop : pc'.opened = prev.toList) (blank : Bool) :
    tryParsersT pts 0 blank cont 0 ((triggered ch).getD freeParsers) .noBlocksOpened prev
        ⟨rdr src k p p e (some v) 0, d :: rest', pc'⟩ =
      .ok ((.done, .newBlocksOpened, prev),
        ⟨rdr src k p (e - 1) e none (-1),
          { d with children := d.children ++ [rest'.length + 1] } :: (rest' ++ [hrN blank]),
          { pc' with opened := prev.toList ++ [{ node := rest'.length + 1, bp := .thematic }] }⟩) := by
  have hto := HH hl ch hch n hv k
  have fin : ∀ bps, tryParsersT pts 0 blank cont 0 (.thematic :: bps) .noBlocksOpened prev
        ⟨rdr src k p p e (some v) 0, d :: rest', pc'⟩ =
      .ok ((.done, .newBlocksOpened, prev),
        ⟨rdr src k p (e - 1) e none (-1),
          { d with children := d.children ++ [rest'.length + 1] } :: (rest' ++ [hrN blank]),
          { pc' with opened := prev.toList ++ [{ node := rest'.length + 1, bp := .thematic }] }⟩) := by
    intro bps
    cases prev with
    | none =>
      simp only [Option.toList] at hop
      rw [tryParsersT]
      simp [bind_apply, lastOpenedBlock_run, hop, bpOpen, hto, BP.canAcceptIndentedLine, BP.canInterruptParagraph,
        pure_apply, stNoChildren, modNode_run, appendChild, ensureIsolated, getNode_run, hrN]
      simp [map_apply, modPc_run, hop]
    | some blk =>
      simp only [Option.toList] at hop
      have hx' : ∀ d' tail, ((d' :: (rest' ++ tail))[blk.node]?.getD default).parent = some 0 := by
        intro d' tail; rw [← List.getD_eq_getElem?_getD]; exact hx blk rfl d' tail
      rw [tryParsersT]
      simp [bind_apply, lastOpenedBlock_run, hop, bpOpen, hto, BP.canAcceptIndentedLine, BP.canInterruptParagraph,
        pure_apply, stNoChildren, modNode_run, appendChild, ensureIsolated, getNode_run, hrN]
      simp [hx', bind_apply, getNode_run, modNode_run, map_apply, modPc_run, pure_apply, hop]
  rcases hch with h | h | h <;> subst h
  · have ht : (triggered 42).getD freeParsers = [.thematic, .list, .listItem, .code, .paragraph] := by decide
    rw [ht]; exact fin _
  · have ht : (triggered 45).getD freeParsers = [.setext, .thematic, .list, .listItem, .code, .paragraph] := by decide
    rw [ht, tryParsersT]
    cases prev with
    | none =>
      simp only [Option.toList] at hop
      simp [bind_apply, lastOpenedBlock_run, hop, bpOpen, setextOpen, BP.canAcceptIndentedLine, BP.canInterruptParagraph,
        pure_apply]
      exact fin _
    | some blk =>
      simp only [Option.toList] at hop
      have hkk := hk blk rfl rfl
      have hkk' : ((d :: rest')[blk.node]?.getD default).kind ≠ .paragraph := by
        rw [← List.getD_eq_getElem?_getD]; simpa using hkk
      simp [bind_apply, lastOpenedBlock_run, hop, bpOpen, setextOpen, BP.canAcceptIndentedLine, BP.canInterruptParagraph,
        pure_apply, getNode_run, hkk']
      exact fin _
  · have ht : (triggered 95).getD freeParsers = [.thematic, .code, .paragraph] := by decide
    rw [ht]; exact fin _

/-- a last-line leaf block (ATX heading or thematic break): what `lines5` and the good-ness give -/
def leafB : Raw5 → Prop
  | .old (.atx _ _) => True
  | .old (.hr _) => True
  | _ => False

/-- the last block is an ATX heading / a thematic break: from a block boundary -/
theorem lastB_leaf (HA : AtxOpenE) (HH : HrOpenE) (b : Raw5) (hlf : leafB b) (hg : Good5 b) {q s : Nat}
    (hd : LastDoc src q s b) (k : Int) (f : Nat) (bl : List LineStat) (d : Blocks.Node)
    (cs : List Blocks.Node) (pc : Ctx) (hop : pc.opened = []) (hf : 2 ≤ f) :
    ∃ s' bk, blocksLoopT pts 0 (f + 1) bl ⟨rdr src k q q (lineEnd src q) none (-1), d :: cs, pc⟩ = .ok ((), s') ∧
      s'.nodes = { d with children := d.children ++ [cs.length + 1] } :: (cs ++ [node5 (q + s) b bk]) ∧
      s'.pc.refs = pc.refs := by
  obtain ⟨hbl, hE⟩ := hd
  cases b with
  | fence fc n info ls => exact absurd hlf (by simp [leafB])
  | icode ls => exact absurd hlf (by simp [leafB])
  | old b' =>
    cases b' with
    | para ls => exact absurd hlf (by simp [leafB])
    | atx level l =>
      obtain ⟨h1l, h6l, hbl', hlast⟩ := hg
      obtain ⟨hln, heof⟩ : Ln src (q + s) (q + s + (List.replicate level 35 ++ 32 :: l).length)
          (List.replicate level 35 ++ 32 :: l) ∧ q + s + (List.replicate level 35 ++ 32 :: l).length = src.length := by
        simpa [lines5, lines4, ParaAtE] using hE
      obtain ⟨m, rfl⟩ : ∃ m, level = m + 1 := ⟨level - 1, by omega⟩
      have hnb : isBlank (List.replicate (m + 1) 35 ++ 32 :: l) = false := by
        have : isSpace 35 = false := by decide
        simp [List.replicate_succ, isBlank, this]
      have hiw : indentWidthI (List.replicate (m + 1) 35 ++ 32 :: l) 0 = (0, 0) := by
        rw [List.replicate_succ]; unfold GM.Blocks.indentWidthI GM.Blocks.indentWidthGo; simp
      have hidx : idx (List.replicate (m + 1) 35 ++ 32 :: l) 0 = .ok 35 := by rw [List.replicate_succ]; rfl
      have htl : (triggered 35).getD freeParsers = [.atx, .code, .paragraph] := by decide
      have hob := fun blank => openBlocks0_of_try (src := src) hln 35 hidx (by decide) hiw (k + s) (d :: cs) pc hop blank
        (some _) (Or.inr rfl) _ (by
          rw [htl]
          exact tryE_atx HA hln (m + 1) l rfl h1l h6l hbl' hlast false (k + s) d cs none (fun _ h => by cases h)
            { pc with blockOffset := 0, blockIndent := 0 } hop rfl blank)
      rw [blocksLoopT]
      simp only [bind_apply, skipR_text k hbl hln hnb, Bool.not_true, Bool.false_eq_true, if_false, position_run,
        getPc_run, hop, List.length_nil, rdr_line, blankStats, hob]
      generalize (if ((s : Int) != 0) = true then [] else bl) = BL
      generalize isBlankLine (k + (s : Int) - 1) 0 BL = bk
      simp only [bne_self_eq_false, Bool.false_eq_true, if_false, bind_apply, advanceLine_run]
      rw [heof]
      obtain ⟨ret, bl', s1, h1, h2, h3, h4, h5⟩ :=
        linesLoop_leaf (src := src) .atx (Or.inl rfl) { d with children := d.children ++ [cs.length + 1] } cs
          (headN (m + 1) [sg (q + s + (m + 1) + 1) src.length] bk) (by simp [headN]) rfl src.length (k + s + 1) f BL
          { pc with blockOffset := 0, blockIndent := 0, opened := [{ node := cs.length + 1, bp := .atx }] }
          (Or.inl rfl) hf rfl
      have hret : ret = true := by
        rcases h5 with h | h
        · exact h.1
        · have := h.2.1.le; omega
      subst hret
      refine ⟨s1, bk, ?_, ?_, h4⟩
      · simp only [Option.toList, List.nil_append, h1]; simp [pure_apply]
      · rw [h2]
        have : q + s + (m + 1) + 1 + l.length = src.length := by simp at heof; omega
        simp [node5, node4, this]
    | hr h =>
      obtain ⟨ch, n, hch, hh⟩ := hg
      obtain ⟨hln, heof⟩ : Ln src (q + s) (q + s + h.length) h ∧ q + s + h.length = src.length := by
        simpa [lines5, lines4, ParaAtE] using hE
      have hfacts : (ch == 32) = false ∧ (ch == 9) = false ∧ (ch == 10) = false ∧ isSpace ch = false := by
        rcases hch with h' | h' | h' <;> subst h' <;> decide
      have hnb : isBlank h = false := by rw [hh]; simp [List.replicate_succ, isBlank, hfacts.2.2.2]
      have hiw : indentWidthI h 0 = (0, 0) := by
        rw [hh, List.replicate_succ]; unfold GM.Blocks.indentWidthI GM.Blocks.indentWidthGo; simp [hfacts.1, hfacts.2.1]
      have hidx : idx h 0 = .ok ch := by rw [hh, List.replicate_succ]; rfl
      have hob := fun blank => openBlocks0_of_try (src := src) hln ch hidx hfacts.2.2.1 hiw (k + s) (d :: cs) pc hop blank
        (some _) (Or.inr rfl) _
          (tryE_hr HH hln ch hch n hh false (k + s) d cs none (fun _ h => by cases h) (fun _ h => by cases h)
            { pc with blockOffset := 0, blockIndent := 0 } hop blank)
      rw [blocksLoopT]
      simp only [bind_apply, skipR_text k hbl hln hnb, Bool.not_true, Bool.false_eq_true, if_false, position_run,
        getPc_run, hop, List.length_nil, rdr_line, blankStats, hob]
      generalize (if ((s : Int) != 0) = true then [] else bl) = BL
      generalize isBlankLine (k + (s : Int) - 1) 0 BL = bk
      simp only [bne_self_eq_false, Bool.false_eq_true, if_false, bind_apply, advanceLine_run]
      rw [heof]
      obtain ⟨ret, bl', s1, h1, h2, h3, h4, h5⟩ :=
        linesLoop_leaf (src := src) .thematic (Or.inr rfl) { d with children := d.children ++ [cs.length + 1] } cs
          (hrN bk) (by simp [hrN]) rfl src.length (k + s + 1) f BL
          { pc with blockOffset := 0, blockIndent := 0, opened := [{ node := cs.length + 1, bp := .thematic }] }
          (Or.inl rfl) hf rfl
      have hret : ret = true := by
        rcases h5 with h | h
        · exact h.1
        · have := h.2.1.le; omega
      subst hret
      refine ⟨s1, bk, ?_, ?_, h4⟩
      · simp only [Option.toList, List.nil_append, h1]; simp [pure_apply]
      · rw [h2]; simp [node5, node4]

/-- the last block is an ATX heading / a thematic break directly behind the open previous block -/
theorem lastO_leaf (HA : AtxOpenE) (HH : HrOpenE) (b : Raw5) (hlf : leafB b) (hg : Good5 b) {q : Nat}
    {x xc : Blocks.Node} {pbp : BP} (hprev : OpenPrev src q x xc pbp) (hab : AbutOK5 (x.kind == .paragraph) b)
    (hE : ParaAtE src q (lines5 b)) (k : Int) (fl fb : Nat) (bl : List LineStat) (d : Blocks.Node)
    (rest0 : List Blocks.Node) (pc : Ctx) (hop : pc.opened = [{ node := rest0.length + 1, bp := pbp }])
    (hf : 3 ≤ fl) :
    ∃ s' bk, tailT fl fb bl ⟨rdr src k q q (lineEnd src q) none (-1), d :: (rest0 ++ [x]), pc⟩ = .ok ((), s') ∧
      s'.nodes = { d with children := d.children ++ [(rest0 ++ [xc]).length + 1] } ::
        ((rest0 ++ [xc]) ++ [node5 q b bk]) ∧
      s'.pc.refs = pc.refs := by
  obtain ⟨fl', rfl⟩ : ∃ fl', fl = fl' + 1 := ⟨fl - 1, by omega⟩
  have hlenx : (rest0 ++ [x]).length = (rest0 ++ [xc]).length := by simp
  have hxp := hprev.parent
  have hgx := getD_pen d rest0 x
  have hxpar : ∀ blk, some ({ node := rest0.length + 1, bp := pbp } : Block) = some blk → ∀ d' tail,
      ((d' :: ((rest0 ++ [x]) ++ tail)).getD blk.node default).parent = some 0 := by
    intro blk h d' tail
    cases h
    rw [hgx d' tail]; exact hxp
  cases b with
  | fence fc n info ls => exact absurd hlf (by simp [leafB])
  | icode ls => exact absurd hlf (by simp [leafB])
  | old b' =>
    cases b' with
    | para ls => exact absurd hlf (by simp [leafB])
    | atx level l =>
      obtain ⟨h1l, h6l, hbl', hlast⟩ := hg
      obtain ⟨hln, heof⟩ : Ln src q (q + (List.replicate level 35 ++ 32 :: l).length)
          (List.replicate level 35 ++ 32 :: l) ∧ q + (List.replicate level 35 ++ 32 :: l).length = src.length := by
        simpa [lines5, lines4, ParaAtE] using hE
      obtain ⟨m, rfl⟩ : ∃ m, level = m + 1 := ⟨level - 1, by omega⟩
      have hiw : indentWidthI (List.replicate (m + 1) 35 ++ 32 :: l) 0 = (0, 0) := by
        rw [List.replicate_succ]; unfold GM.Blocks.indentWidthI GM.Blocks.indentWidthGo; simp
      have hidx : idx (List.replicate (m + 1) 35 ++ 32 :: l) 0 = .ok 35 := by rw [List.replicate_succ]; rfl
      have htl : (triggered 35).getD freeParsers = [.atx, .code, .paragraph] := by decide
      obtain ⟨bk, hp⟩ := abut_generic hprev hln 35 hidx (by decide) (by decide) hiw k d rest0 pc hop bl
        (rdr src k q q (q + (List.replicate (m + 1) 35 ++ 32 :: l).length) (some (List.replicate (m + 1) 35 ++ 32 :: l)) 0) rfl
        (fun bk => headN (m + 1) [sg (q + (m + 1) + 1) (q + (List.replicate (m + 1) 35 ++ 32 :: l).length)] bk) .atx
        { pc with blockOffset := 0, blockIndent := 0,
                  opened := [{ node := rest0.length + 1, bp := pbp }, { node := (rest0 ++ [x]).length + 1, bp := .atx }] }
        rfl (fun bk => by
          rw [htl]
          have := tryE_atx HA hln (m + 1) l rfl h1l h6l hbl' hlast (x.kind == .paragraph) k d (rest0 ++ [x])
            (some { node := rest0.length + 1, bp := pbp }) hxpar { pc with blockOffset := 0, blockIndent := 0 } hop rfl bk
          simpa [Option.toList] using this)
      have hpass := pass_next hln k _ _ pc _ _ hop bl _ _ _ fl' hp
      rw [heof] at hpass
      obtain ⟨ret, bl', s1, h1, h2, h3, h4, h5⟩ :=
        linesLoop_leaf (src := src) .atx (Or.inl rfl) { d with children := d.children ++ [(rest0 ++ [x]).length + 1] }
          (rest0 ++ [xc]) (headN (m + 1) [sg (q + (m + 1) + 1) src.length] bk) (by simp [headN]) rfl src.length (k + 1) fl'
          (bl ++ [{ lineNum := k, level := 0, isBlank := isBlank (List.replicate (m + 1) 35 ++ 32 :: l) }])
          { pc with blockOffset := 0, blockIndent := 0, opened := [{ node := (rest0 ++ [x]).length + 1, bp := .atx }] }
          (Or.inl rfl) (by omega) (by rw [hlenx])
      have hret : ret = true := by
        rcases h5 with h | h
        · exact h.1
        · have := h.2.1.le; omega
      subst hret
      have ht := tailT_of_lines (fb := fb) (hpass.trans h1)
      simp only [if_true, pure_apply] at ht
      refine ⟨s1, bk, ht, ?_, h4⟩
      rw [h2]
      have : q + (m + 1) + 1 + l.length = src.length := by simp at heof; omega
      simp [node5, node4, this, hlenx]
    | hr h =>
      obtain ⟨ch, n, hch, hh⟩ := hg
      obtain ⟨hln, heof⟩ : Ln src q (q + h.length) h ∧ q + h.length = src.length := by
        simpa [lines5, lines4, ParaAtE] using hE
      have hfacts : (ch == 32) = false ∧ (ch == 9) = false ∧ (ch == 10) = false ∧ isSpace ch = false := by
        rcases hch with h' | h' | h' <;> subst h' <;> decide
      have hiw : indentWidthI h 0 = (0, 0) := by
        rw [hh, List.replicate_succ]; unfold GM.Blocks.indentWidthI GM.Blocks.indentWidthGo; simp [hfacts.1, hfacts.2.1]
      have hidx : idx h 0 = .ok ch := by rw [hh, List.replicate_succ]; rfl
      have hset : ∀ blk, some ({ node := rest0.length + 1, bp := pbp } : Block) = some blk → ch = 45 →
          (((d :: (rest0 ++ [x])).getD blk.node default).kind == .paragraph) = false := by
        intro blk hb h45
        cases hb
        have hx0 : (d :: (rest0 ++ [x])).getD (rest0.length + 1) default = x := getD_last d rest0 x
        rw [hx0]
        cases hk : (x.kind == .paragraph) with
        | false => rfl
        | true =>
          have := hab hk
          rw [hh, List.replicate_succ] at this
          simp [h45] at this
      obtain ⟨bk, hp⟩ := abut_generic hprev hln ch hidx hfacts.2.2.1 hfacts.2.2.2 hiw k d rest0 pc hop bl
        (rdr src k q (q + h.length - 1) (q + h.length) none (-1)) rfl (fun bk => hrN bk) .thematic
        { pc with blockOffset := 0, blockIndent := 0,
                  opened := [{ node := rest0.length + 1, bp := pbp }, { node := (rest0 ++ [x]).length + 1, bp := .thematic }] }
        rfl (fun bk => by
          have := tryE_hr HH hln ch hch n hh (x.kind == .paragraph) k d (rest0 ++ [x])
            (some { node := rest0.length + 1, bp := pbp }) hxpar hset { pc with blockOffset := 0, blockIndent := 0 } hop bk
          simpa [Option.toList] using this)
      have hpass := pass_next hln k _ _ pc _ _ hop bl _ _ _ fl' hp
      rw [heof] at hpass
      obtain ⟨ret, bl', s1, h1, h2, h3, h4, h5⟩ :=
        linesLoop_leaf (src := src) .thematic (Or.inr rfl) { d with children := d.children ++ [(rest0 ++ [x]).length + 1] }
          (rest0 ++ [xc]) (hrN bk) (by simp [hrN]) rfl src.length (k + 1) fl'
          (bl ++ [{ lineNum := k, level := 0, isBlank := isBlank h }])
          { pc with blockOffset := 0, blockIndent := 0, opened := [{ node := (rest0 ++ [x]).length + 1, bp := .thematic }] }
          (Or.inl rfl) (by omega) (by rw [hlenx])
      have hret : ret = true := by
        rcases h5 with h' | h'
        · exact h'.1
        · have := h'.2.1.le; omega
      subst hret
      have ht := tailT_of_lines (fb := fb) (hpass.trans h1)
      simp only [if_true, pure_apply] at ht
      refine ⟨s1, bk, ht, ?_, h4⟩
      rw [h2]; simp [node5, node4, hlenx]
end last

end GM.Proof.CMFrag
