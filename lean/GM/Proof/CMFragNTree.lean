/-
  GM.Proof.CMFragNTree — the stage-10 tree, iterated: the node store of the run on `quotePrefix^k S` is the Document,
  `k` nested Blockquotes and then the `n` leaves (`QShapeN`); one more `StoreRel` step keeps the shape
  (`qshape_stepN`), its block tree is the nest (`treeOf_qshapeN`) and `docTree` reads it as the nest of renderer
  nodes (`docTree_nestN`).
-/
import GM.Proof.CMFragQTree

namespace GM.Proof.CMFrag
open GM GM.Text GM.Blocks GM.Spec

/-- the node store of a document of `n` leaf blocks inside `k` nested block quotes -/
structure QShapeN (k n : Nat) (nodes leaves : List Blocks.Node) : Prop where
  eq : nodes.length = k + 1 + n
  leavesEq : leaves = nodes.drop (k + 1)
  root : (nodes.getD 0 default).kind = .document ∧ (nodes.getD 0 default).lines = [] ∧
         (nodes.getD 0 default).children = (if k = 0 then List.range' 1 n else [1])
  quote : ∀ i, 1 ≤ i → i ≤ k → (nodes.getD i default).kind = .blockquote ∧ (nodes.getD i default).lines = [] ∧
         (nodes.getD i default).children = (if i = k then List.range' (k + 1) n else [i + 1])
  leaf : ∀ m ∈ leaves, m.children = []

/-! ### list facts -/

theorem getD_dropN {α : Type} [Inhabited α] (l : List α) (s j : Nat) :
    (l.drop s).getD j default = l.getD (s + j) default := by
  simp only [List.getD_eq_getElem?_getD, List.getElem?_drop]

theorem map_getD_rangeN {α : Type} [Inhabited α] (l : List α) (s n : Nat) (h : l.length = s + n) :
    (List.range' s n).map (fun j => l.getD j default) = l.drop s := by
  apply List.ext_getElem?
  intro j
  rw [List.getElem?_map, List.getElem?_drop]
  by_cases hj : j < n
  · have hlt : s + j < l.length := by omega
    rw [List.getElem?_range' hj, List.getElem?_eq_getElem hlt]
    simp [List.getD_eq_getElem?_getD, List.getElem?_eq_getElem hlt]
  · rw [List.getElem?_eq_none (by simp; omega), List.getElem?_eq_none (by omega)]
    rfl

theorem map_succ_rangeN (s n : Nat) : (List.range' s n).map (· + 1) = List.range' (s + 1) n := by
  apply List.ext_getElem?
  intro j
  rw [List.getElem?_map]
  by_cases hj : j < n
  · rw [List.getElem?_range' hj, List.getElem?_range' hj]
    simp only [Option.map_some]
    congr 1; omega
  · rw [List.getElem?_eq_none (by simp; omega), List.getElem?_eq_none (by simp; omega)]
    rfl

theorem segsRel_nilN {S : Bytes} {L : List Segment} (h : SegsRel S [] L) : L = [] := by
  cases L with
  | nil => rfl
  | cons a t => exact h.elim

/-! ### the shape -/

theorem qshape_baseN (d : Blocks.Node) (ms : List Blocks.Node) (hk : d.kind = .document) (hl : d.lines = [])
    (hc : d.children = List.range' 1 ms.length) (hch : ∀ m ∈ ms, m.children = []) :
    QShapeN 0 ms.length (d :: ms) ms := by
  refine ⟨by simp; omega, rfl, ⟨hk, hl, ?_⟩, fun i h1 h2 => by omega, hch⟩
  simpa using hc

theorem qshape_stepN {S : Bytes} {k n : Nat} {nA nB leavesA : List Blocks.Node} (h : QShapeN k n nA leavesA)
    (hr : StoreRel S nA nB) : ∃ leavesB, QShapeN (k + 1) n nB leavesB ∧ RelL (NodeRel S false) leavesA leavesB := by
  have hlen : nB.length = k + 1 + 1 + n := by rw [hr.len, h.eq]; omega
  have hleaf : ∀ j, (nA.getD (k + 1 + j) default).children = [] := by
    intro j
    by_cases hj : j < n
    · apply h.leaf
      rw [h.leavesEq, ← getD_dropN]
      exact getD_mem _ _ (by simp [h.eq] <;> omega)
    · rw [getD_out nA _ (by rw [h.eq]; omega)]; rfl
  refine ⟨nB.drop (k + 1 + 1), ⟨hlen, rfl, ?_, ?_, ?_⟩, ?_⟩
  · rw [hr.doc0]
    exact ⟨rfl, rfl, by simp⟩
  · intro i h1 h2
    obtain ⟨j, rfl⟩ : ∃ j, i = j + 1 := ⟨i - 1, by omega⟩
    have hn := hr.node j
    by_cases hj : j = 0
    · subst hj
      have hk0 := hn.kind
      simp only [beq_self_eq_true, if_true] at hk0
      have hl0 := hn.lines
      rw [h.root.2.1] at hl0
      refine ⟨hk0.1, segsRel_nilN hl0, ?_⟩
      rw [hn.children, h.root.2.2]
      by_cases hk : k = 0
      · subst hk; simp [map_succ_rangeN]
      · rw [if_neg hk, if_neg (by omega)]; rfl
    · have e : ((j == 0) : Bool) = false := beq_eq_false_iff_ne.mpr hj
      rw [e] at hn
      have hk0 := hn.kind
      simp only [Bool.false_eq_true, if_false] at hk0
      have hq := h.quote j (by omega) (by omega)
      have hl0 := hn.lines
      rw [hq.2.1] at hl0
      refine ⟨by rw [hk0, hq.1], segsRel_nilN hl0, ?_⟩
      rw [hn.children, hq.2.2]
      by_cases hk : j = k
      · subst hk; simp [map_succ_rangeN]
      · rw [if_neg hk, if_neg (by omega)]; rfl
  · intro m hm
    obtain ⟨j, hj, rfl⟩ := List.getElem_of_mem hm
    rw [List.getElem_drop]
    have hn := (hr.node (k + 1 + j)).children
    rw [hleaf j] at hn
    have e : nB.getD (k + 1 + j + 1) default = nB[k + 1 + 1 + j]'(by simp at hj; omega) := by
      rw [List.getD_eq_getElem?_getD, List.getElem?_eq_getElem (by simp at hj; omega)]
      simp only [Option.getD_some]
      congr 1; omega
    rw [← e, hn]; rfl
  · rw [h.leavesEq]
    apply relL_of_index
    · simp [hlen, h.eq]
    · intro j _
      rw [getD_dropN, getD_dropN]
      have hn := hr.node (k + 1 + j)
      have e : ((k + 1 + j == 0) : Bool) = false := beq_eq_false_iff_ne.mpr (by omega)
      rw [e] at hn
      have e2 : k + 1 + 1 + j = k + 1 + j + 1 := by omega
      rw [e2]
      exact hn

/-! ### the tree -/

/-- `nestKidsN [q1, …, qk] kids = [.node q1 [… [.node qk kids]]]` (`kids` itself for `[]`) -/
def nestKidsN : List Blocks.Node → List Tree → List Tree
  | [], kids => kids
  | q :: rest, kids => [.node q (nestKidsN rest kids)]

/-- the tree: `k` nested quotes around the leaves -/
def nestTreeN : List Blocks.Node → List Tree → Tree
  | [], kids => .node default kids
  | d :: rest, kids => .node d (nestKidsN rest kids)

theorem drop_consN {α : Type} [Inhabited α] (l : List α) (i : Nat) (h : i < l.length) :
    l.drop i = l.getD i default :: l.drop (i + 1) := by
  rw [List.drop_eq_getElem_cons h, List.getD_eq_getElem?_getD, List.getElem?_eq_getElem h]
  rfl

theorem getD_takeN {α : Type} [Inhabited α] (l : List α) (i m : Nat) (h : i < m) :
    (l.take m).getD i default = l.getD i default := by
  simp only [List.getD_eq_getElem?_getD, List.getElem?_take, if_pos h]

theorem treeOf_leavesN {k n : Nat} {nodes leaves : List Blocks.Node} (h : QShapeN k n nodes leaves) (f : Nat) :
    (List.range' (k + 1) n).map (treeOf nodes f) = leaves.map fun m => Tree.node m [] := by
  rw [h.leavesEq, ← map_getD_rangeN nodes (k + 1) n h.eq, List.map_map]
  apply List.map_congr_left
  intro j hj
  simp only [List.mem_range'_1] at hj
  simp only [Function.comp]
  apply treeOf_leaf
  apply h.leaf
  rw [h.leavesEq]
  obtain ⟨t, rfl⟩ : ∃ t, j = k + 1 + t := ⟨j - (k + 1), by omega⟩
  rw [← getD_dropN]
  exact getD_mem _ _ (by simp [h.eq] <;> omega)

theorem children_ofN {k n : Nat} {nodes leaves : List Blocks.Node} (h : QShapeN k n nodes leaves) (i : Nat)
    (hi : i ≤ k) : (nodes.getD i default).children = (if i = k then List.range' (k + 1) n else [i + 1]) := by
  by_cases h0 : i = 0
  · subst h0
    rw [h.root.2.2]
    by_cases hk : k = 0
    · subst hk; rfl
    · rw [if_neg hk, if_neg (by omega)]
  · exact (h.quote i (by omega) hi).2.2

theorem treeOf_nestN {k n : Nat} {nodes leaves : List Blocks.Node} (h : QShapeN k n nodes leaves) :
    ∀ (d i f : Nat), i + d = k → d + 1 ≤ f →
      treeOf nodes f i = .node (nodes.getD i default)
        (nestKidsN ((nodes.take (k + 1)).drop (i + 1)) (leaves.map fun m => Tree.node m []))
  | 0, i, f, hd, hf => by
    obtain ⟨f, rfl⟩ : ∃ g, f = g + 1 := ⟨f - 1, by omega⟩
    have hi : i = k := by omega
    subst hi
    rw [treeOf]
    rw [children_ofN h i (Nat.le_refl _), if_pos rfl, treeOf_leavesN h f]
    have : (nodes.take (i + 1)).drop (i + 1) = [] := by
      apply List.drop_eq_nil_of_le; simp; omega
    rw [this]; rfl
  | d + 1, i, f, hd, hf => by
    obtain ⟨f, rfl⟩ : ∃ g, f = g + 1 := ⟨f - 1, by omega⟩
    rw [treeOf]
    rw [children_ofN h i (by omega), if_neg (by omega)]
    simp only [List.map_cons, List.map_nil]
    rw [treeOf_nestN h d (i + 1) f (by omega) (by omega)]
    have hlt : i + 1 < (nodes.take (k + 1)).length := by simp [h.eq] <;> omega
    rw [drop_consN (nodes.take (k + 1)) (i + 1) hlt, getD_takeN _ _ _ (by omega)]
    rfl

theorem treeOf_qshapeN {k n : Nat} {nodes leaves : List Blocks.Node} (h : QShapeN k n nodes leaves) :
    treeOf nodes nodes.length 0 = nestTreeN (nodes.take (k + 1)) (leaves.map fun m => Tree.node m []) := by
  rw [treeOf_nestN h k 0 nodes.length (by omega) (by rw [h.eq]; omega)]
  have hlt : 0 < (nodes.take (k + 1)).length := by simp [h.eq] <;> omega
  conv => rhs; rw [← List.drop_zero (l := nodes.take (k + 1)), drop_consN _ 0 hlt, getD_takeN _ _ _ (by omega)]
  rfl

/-! ### `docTree` on the nest -/

/-- `k` nested Blockquote nodes around `ns` (`ns` itself for `k = 0`) -/
def nestQuotesN : Nat → List GM.Node → List GM.Node
  | 0, ns => ns
  | k + 1, ns => [.mk .blockquote none (nestQuotesN k ns)]

/-- `docTree` on it: the Document around `k` nested Blockquote nodes around the children -/
def nestNodeN (k : Nat) (ns : List GM.Node) : GM.Node := .mk .document none (nestQuotesN k ns)

theorem nestNode_zeroN (ns : List GM.Node) : nestNodeN 0 ns = .mk .document none ns := rfl

theorem nestNode_oneN (ns : List GM.Node) : nestNodeN 1 ns = .mk .document none [.mk .blockquote none ns] := rfl

/-- a Document / Blockquote node without lines: its block children and nothing else -/
theorem docTree_containerN (env : GM.Inl.Env) (src : Bytes) (d : Blocks.Node) (cs : List Tree) (bs : List GM.Node)
    (K : GM.Kind) (hK : (d.kind = .document ∧ K = .document) ∨ (d.kind = .blockquote ∧ K = .blockquote))
    (hl : d.lines = []) (hcs : GM.Convert.docTrees true env src cs = .ok bs) :
    GM.Convert.docTree true env src (.node d cs) = .ok (.mk K none bs) := by
  rw [GM.Convert.docTree, hcs]
  rcases hK with ⟨hk, rfl⟩ | ⟨hk, rfl⟩ <;>
    simp [GM.Convert.inlinePhase, GM.Convert.isRawKind, GM.Convert.blockKind, hk, hl,
      GM.Convert.liftErr, GM.Convert.inlineTrees, bind, Except.bind, pure, Except.pure]

theorem docTrees_nestKidsN (env : GM.Inl.Env) (src : Bytes) (kids : List Tree) (ns : List GM.Node)
    (hk : GM.Convert.docTrees true env src kids = .ok ns) :
    ∀ (qs : List Blocks.Node), (∀ q ∈ qs, q.kind = .blockquote ∧ q.lines = []) →
      GM.Convert.docTrees true env src (nestKidsN qs kids) = .ok (nestQuotesN qs.length ns)
  | [], _ => hk
  | q :: rest, hq => by
    have ih := docTrees_nestKidsN env src kids ns hk rest (fun x hx => hq x (by simp [hx]))
    have hqk := (hq q (by simp)).1
    have hql := (hq q (by simp)).2
    simp only [nestKidsN, List.length_cons, nestQuotesN]
    rw [GM.Convert.docTrees, docTree_containerN env src q _ _ .blockquote (.inr ⟨hqk, rfl⟩) hql ih]
    rfl

theorem docTree_nestN {k n : Nat} {nodes leaves : List Blocks.Node} (h : QShapeN k n nodes leaves) (env : GM.Inl.Env)
    (src : Bytes) (ns : List GM.Node)
    (hk : GM.Convert.docTrees true env src (leaves.map fun m => Tree.node m []) = .ok ns) :
    GM.Convert.docTree true env src (treeOf nodes nodes.length 0) = .ok (nestNodeN k ns) := by
  rw [treeOf_nestN h k 0 nodes.length (by omega) (by rw [h.eq]; omega)]
  have hq : ∀ q ∈ (nodes.take (k + 1)).drop (0 + 1), q.kind = .blockquote ∧ q.lines = [] := by
    intro q hq
    obtain ⟨j, hj, rfl⟩ := List.getElem_of_mem hq
    have hj' : j < k := by simp [h.eq] at hj; omega
    have := h.quote (j + 1) (by omega) (by omega)
    have e : nodes.getD (j + 1) default = ((nodes.take (k + 1)).drop (0 + 1))[j] := by
      rw [List.getElem_drop, List.getElem_take, List.getD_eq_getElem?_getD,
        List.getElem?_eq_getElem (by rw [h.eq]; omega)]
      simp only [Option.getD_some]
      congr 1; omega
    rw [← e]
    exact ⟨this.1, this.2.1⟩
  have hlen : ((nodes.take (k + 1)).drop (0 + 1)).length = k := by simp [h.eq] <;> omega
  have ih := docTrees_nestKidsN env src _ ns hk _ hq
  rw [hlen] at ih
  exact docTree_containerN env src _ _ _ .document (.inl ⟨h.root.1, rfl⟩) h.root.2.1 ih

end GM.Proof.CMFrag
