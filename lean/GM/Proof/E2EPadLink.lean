/-
  GM.Proof.E2EPadLink — the padding relation `P0` through the link parser (link.go: `[` / `![` openers, `]` with inline,
  full / collapsed / shortcut reference forms, every failure path) and through the line loop of parseBlock; the result
  `inlineSegsUnpadded`.
-/
import GM.Proof.E2EPadParsers

namespace GM.E2E.Pad
open GM GM.Text GM.Inl GM.Proof.InlinesTotal GM.Proof.Inlines

theorem popBottom_p0 {st : St} (h : P0.p st) : P0.p (popBottom st).2 := by
  unfold popBottom
  split
  · exact h
  · exact ⟨h.1, h.2⟩

theorem pushBottom_p0 {st : St} (h : P0.p st) : P0.p (pushBottom st) := ⟨h.1, h.2⟩

theorem labelOpen_p0 {st : St} (h : P0.p st) (pos : Int) (isImage : Bool) : OKP (labelOpen st pos isImage) := by
  unfold labelOpen
  dsimp only
  refine OKP.bind (advance_p0 1 h.1) (fun rd hr => ?_)
  exact OKP.pure ⟨(p0_some _).mpr ((p0_label _ _ _).mpr rfl), hr, h.2⟩

theorem processLinkLabel_p0 {st : St} (h : P0.p st) : OKP (processLinkLabel st) := by
  unfold processLinkLabel
  dsimp only
  have hpop := popBottom_p0 h
  split
  · exact OKP.error _
  · split
    · exact OKP.error _
    · split
      · exact OKP.error _
      · rename_i kids hk
        have hkids : P0.p kids := processDelimiters_p0 _ hpop.2 kids hk
        split
        · exact OKP.error _
        · rename_i pre lid lseg im post hs
          have e := splitLastLabel_eq hs
          rw [e] at hkids
          have h1 := (p0_append _ _).mp hkids
          have h2 := (p0_cons _ _).mp h1.2
          split
          · exact OKP.error _
          · exact OKP.ok ⟨h2.2, hpop.1, (p0_append _ _).mpr ⟨h1.1, (p0_cons _ _).mpr ⟨h2.1, p0_nil⟩⟩⟩

theorem parseLinkDestination_p0 {rd : BlockReader} (hr : P0.p rd) : OKP (parseLinkDestination rd) := by
  unfold parseLinkDestination
  refine OKP.bind (skipSpaces_p0 _ 0 hr) (fun a ha => ?_)
  obtain ⟨x, rd1⟩ := a
  dsimp only
  refine OKP.bind (peekLine_p0 ha.2) (fun b hb => ?_)
  obtain ⟨⟨line, seg⟩, rd2⟩ := b
  dsimp only
  refine OKP.bind' (fun c => ?_)
  refine OKP.ite ?_ ?_
  · split
    · refine OKP.bind (advance_p0 _ hb.2) (fun rd3 hr3 => ?_)
      exact OKP.pure ⟨p0_obytes _, hr3⟩
    · exact OKP.pure ⟨p0_obytes _, hb.2⟩
  · refine OKP.ite (OKP.pure ⟨p0_obytes _, hb.2⟩) ?_   -- an open parenthesis is left (repair ce3b6c4)
    refine OKP.bind (advance_p0 _ hb.2) (fun rd3 hr3 => ?_)
    exact OKP.pure ⟨p0_obytes _, hr3⟩

instance : P0 (Option (Option Bytes)) := ⟨fun _ => True⟩

theorem parseLinkTitle_p0 {rd : BlockReader} (hr : P0.p rd) : OKP (parseLinkTitle rd) := by
  unfold parseLinkTitle
  refine OKP.bind (skipSpaces_p0 _ 0 hr) (fun a ha => ?_)
  obtain ⟨x, rd1⟩ := a
  dsimp only
  refine OKP.bind' (fun opener => ?_)
  refine OKP.ite (OKP.pure ⟨trivial, ha.2⟩) ?_
  refine OKP.bind (advance_p0 1 ha.2) (fun rd2 hr2 => ?_)
  refine OKP.bind (findClosure_p0 _ _ _ _ hr2) (fun b hb => ?_)
  obtain ⟨⟨segs, found⟩, rd3⟩ := b
  dsimp only
  refine OKP.ite ?_ (OKP.pure ⟨trivial, hb.2⟩)
  refine OKP.bind' (fun v => ?_)
  exact OKP.ite (OKP.pure ⟨trivial, hb.2⟩) (OKP.pure ⟨trivial, hb.2⟩)

theorem parseLinkInline_p0 {st : St} (h : P0.p st) : OKP (parseLinkInline st) := by
  unfold parseLinkInline
  refine OKP.bind (advance_p0 1 h.1) (fun rd hr => ?_)
  refine OKP.bind (skipSpaces_p0 _ 0 hr) (fun a ha => ?_)
  obtain ⟨x, rd1⟩ := a
  dsimp only
  have finish : ∀ (rd : BlockReader) (dest : Bytes) (title : Option Bytes), P0.p rd →
      OKP (do
        let (kids, st') ← processLinkLabel { st with rd := rd }
        (Pure.pure (some ({ dest := dest, title := title, kids := kids } : LinkInfo), st') :
          Except Panic (Option LinkInfo × St))) := by
    intro rd dest title hrd
    refine OKP.bind (processLinkLabel_p0 (st := { st with rd := rd }) ⟨hrd, h.2⟩) (fun y hy => ?_)
    obtain ⟨kids, st'⟩ := y
    exact OKP.pure ⟨(p0_some _).mpr hy.1, hy.2⟩
  refine OKP.bind' (fun c => ?_)
  refine OKP.ite ?_ ?_
  · refine OKP.bind (advance_p0 1 ha.2) (fun rd2 hr2 => ?_)
    exact finish rd2 [] none hr2
  · refine OKP.bind (parseLinkDestination_p0 ha.2) (fun b hb => ?_)
    obtain ⟨dest, rd2⟩ := b
    dsimp only
    split
    · exact OKP.pure ⟨p0_none, hb.2, h.2⟩
    · refine OKP.bind (skipSpaces_p0 _ 0 hb.2) (fun a2 ha2 => ?_)
      obtain ⟨⟨x2, spaces2, ok2⟩, rd3⟩ := a2
      dsimp only
      refine OKP.bind' (fun c2 => ?_)
      refine OKP.ite ?_ ?_
      · refine OKP.bind (advance_p0 1 ha2.2) (fun rd4 hr4 => ?_)
        exact finish rd4 _ none hr4
      · refine OKP.ite (OKP.pure ⟨p0_none, ha2.2, h.2⟩) ?_   -- no white space in front of a title (repair 8c83fd9)
        refine OKP.bind (parseLinkTitle_p0 ha2.2) (fun t ht => ?_)
        obtain ⟨title, rd4⟩ := t
        dsimp only
        split
        · exact OKP.pure ⟨p0_none, ht.2, h.2⟩
        · refine OKP.bind (skipSpaces_p0 _ 0 ht.2) (fun a3 ha3 => ?_)
          obtain ⟨x3, rd5⟩ := a3
          dsimp only
          refine OKP.bind' (fun c3 => ?_)
          refine OKP.ite ?_ (OKP.pure ⟨p0_none, ha3.2, h.2⟩)
          refine OKP.bind (advance_p0 1 ha3.2) (fun rd6 hr6 => ?_)
          exact finish rd6 _ _ hr6

theorem parseReferenceLink_p0 (env : Env) {st : St} (h : P0.p st) (lseg : Segment) :
    OKP (parseReferenceLink env st lseg) := by
  unfold parseReferenceLink
  dsimp only
  refine OKP.bind (advance_p0 1 h.1) (fun rd hr => ?_)
  refine OKP.bind (findClosure_p0 _ _ _ _ hr) (fun b hb => ?_)
  obtain ⟨⟨segs, found⟩, rd1⟩ := b
  dsimp only
  have hst : P0.p ({ st with rd := rd1 } : St) := ⟨hb.2, h.2⟩
  refine OKP.ite (OKP.pure ⟨⟨p0_none, trivial⟩, hst⟩) ?_
  refine OKP.bind' (β := (Option LinkInfo × Bool) × St) (fun mr => ?_)
  have tail : ∀ maybeReference : Bytes, OKP (α := (Option LinkInfo × Bool) × St)
      (if List.length maybeReference > 999 then
          Pure.pure ((none, true), ({ st with rd := rd1 } : St))
        else
          match lookupRef env maybeReference with
          | none => Pure.pure ((none, true), ({ st with rd := rd1 } : St))
          | some (dest, title) => do
            let __x ← processLinkLabel ({ st with rd := rd1 } : St)
            Pure.pure ((some { dest := dest, title := title, kids := __x.fst }, true), __x.snd)) := by
    intro maybeReference
    refine OKP.ite (OKP.pure ⟨⟨p0_none, trivial⟩, hst⟩) ?_
    split
    · exact OKP.pure ⟨⟨p0_none, trivial⟩, hst⟩
    · refine OKP.bind (processLinkLabel_p0 hst) (fun y hy => ?_)
      exact OKP.pure ⟨⟨(p0_some _).mpr hy.1, trivial⟩, hy.2⟩
  refine OKP.ite (OKP.pure ⟨⟨p0_none, trivial⟩, hst⟩) ?_   -- brackets with only white space (repair fb85ad2)
  refine OKP.ite ?_ ?_
  · refine OKP.bind' (β := (Option LinkInfo × Bool) × St) (fun mr2 => ?_)
    exact tail mr2
  · refine OKP.bind' (β := (Option LinkInfo × Bool) × St) (fun mr2 => ?_)
    exact tail mr2

theorem linkFail_p0 {pre post : List Node} {lseg : Segment} {st : St} (hp : P0.p pre) (hl : lseg.padding = 0)
    (hq : P0.p post) (hs : P0.p st) : OKP (linkFail pre lseg post st) := by
  unfold linkFail
  exact OKP.ok ⟨p0_none, (popBottom_p0 hs).1, (p0_append _ _).mpr ⟨mergeOrAppend_p0 hp hl, hq⟩⟩

theorem linkDone_p0 (isImage : Bool) {info : LinkInfo} {st : St} (hi : P0.p info) (hs : P0.p st) :
    OKP (linkDone isImage info st) := by
  unfold linkDone
  exact OKP.ok ⟨(p0_some _).mpr ((p0_link _ _ _ _).mpr hi), hs.1, p0_dropLast hs.2⟩

theorem linkShortcut_p0 (env : Env) {st : St} (hs : P0.p st) {lseg : Segment} (hl : lseg.padding = 0)
    (segment : Segment) (l : Int) {pos : Segment} (hpos : pos.padding = 0) (isImage : Bool) {pre post : List Node}
    (hp : P0.p pre) (hq : P0.p post) : OKP (linkShortcut env st lseg segment l pos isImage pre post) := by
  unfold linkShortcut
  refine OKP.bind (setPosition_p0 l pos (.inr hpos) hs.1) (fun rd hr => ?_)
  dsimp only
  have hst : P0.p ({ st with rd := rd } : St) := ⟨hr, hs.2⟩
  refine OKP.bind' (fun mr => ?_)
  refine OKP.ite (linkFail_p0 hp hl hq hst) ?_
  split
  · exact linkFail_p0 hp hl hq hst
  · refine OKP.bind (processLinkLabel_p0 hst) (fun y hy => ?_)
    obtain ⟨kids, st'⟩ := y
    exact linkDone_p0 isImage (info := { dest := _, title := _, kids := kids }) hy.1 hy.2

theorem linkTry_p0 (env : Env) {st : St} (hs : P0.p st) (lseg : Segment) (c : UInt8) : OKP (linkTry env st lseg c) := by
  unfold linkTry
  refine OKP.ite ?_ (OKP.ite ?_ (OKP.ok ⟨p0_none, trivial, hs⟩))
  · split
    · rename_i link st' he
      have := parseLinkInline_p0 hs _ he
      exact OKP.ok ⟨this.1, trivial, this.2⟩
    · exact OKP.error _
  · split
    · rename_i link hv st' he
      have := parseReferenceLink_p0 env hs lseg _ he
      exact OKP.ok ⟨this.1.1, trivial, this.2⟩
    · exact OKP.error _

theorem parseLinkClose_p0 (env : Env) {st : St} (hs : P0.p st) (segment : Segment) :
    OKP (parseLinkClose env st segment) := by
  unfold parseLinkClose
  split
  · exact OKP.ok ⟨p0_none, hs⟩
  · rename_i pre lid lseg isImage post hsp
    have e := splitLastLabel_eq hsp
    have hk := hs.2
    rw [e] at hk
    have h1 := (p0_append _ _).mp hk
    have h2 := (p0_cons _ _).mp h1.2
    have hl : lseg.padding = 0 := (p0_label _ _ _).mp h2.1
    refine OKP.bind (advance_p0 1 hs.1) (fun rd hr => ?_)
    dsimp only
    have hst : P0.p ({ st with rd := rd } : St) := ⟨hr, hs.2⟩
    refine OKP.ite (linkFail_p0 h1.1 hl h2.2 hst) ?_
    refine OKP.ite (linkFail_p0 h1.1 hl h2.2 hst) ?_
    refine OKP.bind' (fun c => ?_)
    refine OKP.bind (linkTry_p0 env hst lseg c) (fun y hy => ?_)
    obtain ⟨link, hasValue, st'⟩ := y
    dsimp only
    split
    · rename_i info
      exact linkDone_p0 isImage (hy.1 info rfl) hy.2.2
    · refine OKP.ite (linkFail_p0 h1.1 hl h2.2 hy.2.2) ?_
      exact linkShortcut_p0 env hy.2.2 hl segment _ (position_p0 hr) isImage h1.1 h2.2

theorem parseLink_p0 (env : Env) {st : St} (hs : P0.p st) : OKP (parseLink env st) := by
  unfold parseLink
  refine OKP.bind (peekLine_p0 hs.1) (fun a ha => ?_)
  obtain ⟨⟨line, segment⟩, rd⟩ := a
  dsimp only
  have hst : P0.p ({ st with rd := rd } : St) := ⟨ha.2, hs.2⟩
  split
  · exact OKP.throw _
  · refine OKP.ite ?_ (OKP.ite ?_ ?_)
    · split
      · refine OKP.bind (advance_p0 1 ha.2) (fun rd2 hr2 => ?_)
        exact labelOpen_p0 (pushBottom_p0 (st := { st with rd := rd2 }) ⟨hr2, hs.2⟩) _ _
      · exact OKP.pure ⟨p0_none, hst⟩
    · exact labelOpen_p0 (pushBottom_p0 hst) _ _
    · exact parseLinkClose_p0 env hst segment

/-! ### the line loop -/

theorem liftR_p0 {st : St} (hs : P0.p st) {r : RRes} (hr : OKP r) : OKP (liftR st r) := by
  unfold liftR
  split
  · rename_i n rd
    have := hr _ rfl
    exact OKP.ok ⟨this.1, this.2, hs.2⟩
  · exact OKP.error _

theorem ipParse_p0 (env : Env) (ip : Ip) {st : St} (hs : P0.p st) : OKP (ip.parse env st) := by
  cases ip <;> unfold Ip.parse
  · exact liftR_p0 hs (parseCodeSpan_p0 hs.1)
  · exact parseLink_p0 env hs
  · exact liftR_p0 hs (parseAutoLink_p0 hs.1)
  · exact liftR_p0 hs (parseRawHTML_p0 hs.1)
  · exact liftR_p0 (st := { st with nextId := st.nextId + 1 }) ⟨hs.1, hs.2⟩ (parseEmphasis_p0 env _ hs.1)

theorem tryParsers_p0 (env : Env) (savedLine : Int) {savedPosition : Segment} (hp : savedPosition.padding = 0) :
    ∀ (ips : List Ip) {st : St}, P0.p st → OKP (tryParsers env savedLine savedPosition ips st)
  | [], st, hs => by unfold tryParsers; exact OKP.pure ⟨p0_none, hs⟩
  | ip :: ips, st, hs => by
    unfold tryParsers
    refine OKP.bind (ipParse_p0 env ip hs) (fun a ha => ?_)
    obtain ⟨node, st1⟩ := a
    dsimp only
    split
    · rename_i n
      exact OKP.pure ⟨(p0_some _).mpr (ha.1 n rfl), ha.2⟩
    · refine OKP.bind (setPosition_p0 _ _ (.inr hp) ha.2.1) (fun rd hr => ?_)
      exact tryParsers_p0 env savedLine hp ips (st := { st1 with rd := rd }) ⟨hr, ha.2.2⟩

/-- the relation on the scan state of one line -/
instance : P0 Inl.Scan := ⟨fun s => P0.p s.st ∧ s.sp.padding = 0⟩

theorem bump_p0 (c : UInt8) {s : Inl.Scan} (h : P0.p s) : P0.p (bump c s) := by
  unfold bump
  split
  · exact ⟨h.1, h.2⟩
  · split
    · exact ⟨h.1, h.2⟩
    · exact ⟨h.1, h.2⟩

theorem between_p0 {a b : Segment} (ha : a.padding = 0) (hb : b.padding = 0) : OKP (a.between b) := by
  unfold Segment.between
  split
  · exact OKP.error _
  · refine OKP.ok ?_
    show a.padding - b.padding = 0
    omega

theorem trigger_p0 (env : Env) (ips : List Ip) (i : Nat) {s : Inl.Scan} (h : P0.p s) : OKP (trigger env ips i s) := by
  unfold trigger
  refine OKP.bind (advance_p0 _ h.1.1) (fun rd hr => ?_)
  dsimp only
  have hks : OKP (if i != 0 then (s.sp.between rd.position.2).map (fun seg => (mergeOrAppend s.st.kids seg, rd.position.2))
      else Pure.pure (s.st.kids, s.sp)) := by
    split
    · intro x hx
      cases hb : s.sp.between rd.position.2 with
      | error e => rw [hb] at hx; cases hx
      | ok seg =>
        rw [hb] at hx
        cases hx
        exact ⟨mergeOrAppend_p0 h.1.2 (between_p0 h.2 (position_p0 hr) seg hb), position_p0 hr⟩
    · exact OKP.pure ⟨h.1.2, h.2⟩
  refine OKP.bind hks (fun ks hk => ?_)
  refine OKP.bind (tryParsers_p0 env _ (position_p0 hr) ips (st := { s.st with rd := rd, kids := ks.1 }) ⟨hr, hk.1⟩)
    (fun r hrr => ?_)
  split
  · rename_i nd hnd
    exact OKP.pure (show P0.p ({ r.2 with kids := r.2.kids ++ [nd] } : St) from
      ⟨hrr.2.1, (p0_append _ _).mpr ⟨hrr.2.2, (p0_cons _ _).mpr ⟨hrr.1 nd hnd, p0_nil⟩⟩⟩)
  · exact OKP.pure (show P0.p ({ s with st := r.2, n := 0, sp := ks.2 } : Inl.Scan) from ⟨hrr.2, hk.2⟩)

/-- the relation on the outcome of the byte loop -/
instance : P0 ScanRes := ⟨fun r => match r with | .hit st _ => P0.p st | .eol s => P0.p s⟩

theorem scan_p0 (env : Env) : ∀ (l : Bytes) (i : Nat) {s : Inl.Scan}, P0.p s → OKP (scan env l i s)
  | [], _, s, h => by unfold scan; exact OKP.pure h
  | c :: cs, i, s, h => by
    unfold scan
    refine OKP.ite (OKP.pure h) (OKP.ite ?_ (scan_p0 env cs (i + 1) (bump_p0 c h)))
    split
    · rename_i st he
      exact OKP.pure (show P0.p st from trigger_p0 env _ i h _ he)
    · rename_i s' he
      exact scan_p0 env cs (i + 1) (bump_p0 c (show P0.p s' from trigger_p0 env _ i h _ he))
    · exact OKP.error _

theorem trimRightSpace_p0 {t : Segment} (ht : t.padding = 0) (buf : Bytes) : OKP (t.trimRightSpace buf) := by
  unfold Segment.trimRightSpace
  refine OKP.bind' (fun v => ?_)
  exact OKP.ite (OKP.pure rfl) (OKP.pure ht)

theorem eolText_p0 (src : Bytes) (flags : Nat) {diff : Segment} (hd : diff.padding = 0) {kids : List Node}
    (hk : P0.p kids) : OKP (eolText src flags diff kids) := by
  unfold eolText
  refine OKP.ite (OKP.pure ⟨hd, hk⟩) ?_
  refine OKP.bind (trimRightSpace_p0 hd src) (fun seg hseg => ?_)
  refine OKP.ite ?_ (OKP.pure ⟨hseg, hk⟩)
  split
  · rename_i tseg hl
    have ht : tseg.padding = 0 := (p0_text _ _ _ _).mp (p0_getLast hk hl)
    refine OKP.ite ?_ (OKP.pure ⟨hseg, hk⟩)
    refine OKP.bind (trimRightSpace_p0 ht src) (fun tseg' ht' => ?_)
    exact OKP.pure ⟨hseg, (p0_append _ _).mpr ⟨p0_dropLast hk, (p0_cons _ _).mpr ⟨(p0_text _ _ _ _).mpr ht', p0_nil⟩⟩⟩
  · exact OKP.pure ⟨hseg, hk⟩

theorem endOfLine_p0 (flags : Nat) (l : Int) {s : Inl.Scan} (h : P0.p s) : OKP (endOfLine flags l s) := by
  unfold endOfLine
  have hadv : OKP (if s.n != 0 then s.st.rd.advance s.n else Pure.pure s.st.rd) :=
    OKP.ite (advance_p0 _ h.1.1) (OKP.pure h.1.1)
  refine OKP.bind hadv (fun rd hr => ?_)
  dsimp only
  refine OKP.ite (OKP.pure (show P0.p ({ s.st with rd := rd } : St) from ⟨hr, h.1.2⟩)) ?_
  refine OKP.bind (between_p0 h.2 (position_p0 hr)) (fun diff hd => ?_)
  refine OKP.bind (eolText_p0 _ flags hd h.1.2) (fun tk htk => ?_)
  refine OKP.bind (advanceLine_p0 hr) (fun rd2 hr2 => ?_)
  exact OKP.pure (show P0.p ({ s.st with rd := rd2, kids := tk.2 ++ [Node.text tk.1 _ _ false] } : St) from
    ⟨hr2, (p0_append _ _).mpr ⟨htk.2, (p0_cons _ _).mpr ⟨(p0_text _ _ _ _).mpr htk.1, p0_nil⟩⟩⟩)

theorem lineLoop_p0 (env : Env) : ∀ (fuel : Nat) (escaped : Bool) {st : St}, P0.p st → OKP (lineLoop env fuel escaped st)
  | 0, _, _, _ => by unfold lineLoop; exact OKP.error _
  | fuel + 1, escaped, st, hs => by
    unfold lineLoop
    refine OKP.bind (peekLine_p0 hs.1) (fun pl hpl => ?_)
    dsimp only
    have hst : P0.p ({ st with rd := pl.2 } : St) := ⟨hpl.2, hs.2⟩
    split
    · exact OKP.pure hst
    · refine OKP.ite (OKP.throw _) ?_
      refine OKP.bind (scan_p0 env _ 0 ?_) (fun r hr => ?_)
      · exact ⟨hst, position_p0 hpl.2⟩
      split
      · rename_i st' esc
        exact lineLoop_p0 env fuel esc (show P0.p st' from hr)
      · rename_i s'
        refine OKP.bind (endOfLine_p0 _ _ (show P0.p s' from hr)) (fun st2 hst2 => ?_)
        exact lineLoop_p0 env fuel _ hst2

/-! ### the whole inline phase of a block -/

theorem new_p0 (src : Bytes) {segs : List Segment} (hz : ∀ s ∈ segs, s.padding = 0) : OKP (BlockReader.new src segs) := by
  unfold BlockReader.new BlockReader.resetPosition
  dsimp only
  refine OKP.ite ?_ ?_
  · refine OKP.bind' (fun l => ?_)
    refine OKP.bind (OKP.pure ?_) (fun r hr => advanceLine_p0 hr)
    exact ⟨rfl, hz⟩
  · refine OKP.bind (OKP.pure ?_) (fun r hr => advanceLine_p0 hr)
    exact ⟨rfl, hz⟩

/-- **the segments of the tree `parseBlock` answers on padding-free lines are padding-free** — for every source,
    every reference map, every assignment of Unicode classes -/
theorem parseBlock_p0 (env : Env) (src : Bytes) {segs : List Segment} (hz : ∀ s ∈ segs, s.padding = 0) :
    OKP (parseBlock env src segs) := by
  unfold parseBlock
  refine OKP.bind (new_p0 src hz) (fun rd hr => ?_)
  refine OKP.bind (lineLoop_p0 env _ false (st := { rd := rd }) ⟨hr, p0_nil⟩) (fun st hst => ?_)
  refine OKP.bind (processDelimiters_p0 _ hst.2) (fun kids hk => ?_)
  exact OKP.pure (closeLabelsL_p0 kids hk)

theorem parseBlock_unpadded (env : Env) (src : Bytes) (segs : List Segment) (hz : ∀ s ∈ segs, s.padding = 0)
    (kids : List Node) (h : parseBlock env src segs = .ok kids) : ∀ s ∈ segsOfL kids, s.padding = 0 :=
  (p0_nodes_iff kids).mp (parseBlock_p0 env src hz kids h)

end GM.E2E.Pad
