/-
  GM.Proof.CMFrag6Main — stage 6: the source of a document whose blocks may follow each other directly, the block
  phase on it (`runT`), and the phases composed.
-/
import GM.Proof.CMFrag6Run
import GM.Proof.CMFrag5Main
import GM.Proof.CMFragSpec6

namespace GM.Proof.CMFrag
open GM GM.Text GM.Blocks GM.Spec

/-- the source: `sep` blank lines, the lines of the block, …, `trail` blank lines -/
def rawDoc6 : List (Nat × Raw5) → Nat → Bytes
  | [], trail => blanks trail
  | (s, b) :: rest, trail => blanks s ++ (paraBytes (lines5 b) ++ rawDoc6 rest trail)

theorem docAt6_raw : ∀ (items : List (Nat × Raw5)) (trail : Nat) (pre : Bytes),
    (∀ it ∈ items, ∀ l ∈ lines5 it.2, ∀ c ∈ l, c ≠ 10) →
    DocAt6 (pre ++ rawDoc6 items trail) pre.length items trail
  | [], trail, pre, _ => by
    have h := blanksAt_append trail pre []
    simp only [List.append_nil] at h
    exact ⟨h, by simp [rawDoc6, blanks]⟩
  | (s, b) :: rest, trail, pre, hno => by
    have hb := blanksAt_append s pre (paraBytes (lines5 b) ++ rawDoc6 rest trail)
    have e1 : pre ++ rawDoc6 ((s, b) :: rest) trail = (pre ++ blanks s) ++ (paraBytes (lines5 b) ++ rawDoc6 rest trail) := by
      simp [rawDoc6]
    have l1 : (pre ++ blanks s).length = pre.length + s := by simp [blanks]
    have hp := paraAt_src (lines5 b) (pre ++ blanks s) (rawDoc6 rest trail) (hno (s, b) (by simp))
    rw [l1] at hp
    have e2 : pre ++ rawDoc6 ((s, b) :: rest) trail = (pre ++ blanks s ++ paraBytes (lines5 b)) ++ rawDoc6 rest trail := by
      simp [rawDoc6]
    have l2 : (pre ++ blanks s ++ paraBytes (lines5 b)).length = pre.length + s + (paraBytes (lines5 b)).length := by
      simp [blanks]; omega
    have ih := docAt6_raw rest trail (pre ++ blanks s ++ paraBytes (lines5 b)) (fun it hit => hno it (by simp [hit]))
    rw [l2] at ih
    exact ⟨by rw [show rawDoc6 ((s, b) :: rest) trail = blanks s ++ (paraBytes (lines5 b) ++ rawDoc6 rest trail) from rfl]; exact hb,
      by rw [e1]; exact hp, by rw [e2]; exact ih⟩

theorem left6_nl : ∀ (items : List (Nat × Raw5)) (trail : Nat),
    (∀ it ∈ items, ∀ l ∈ lines5 it.2, ∀ c ∈ l, c ≠ 10) → left6 items trail = nl (rawDoc6 items trail)
  | [], trail, _ => by simp [left6, rawDoc6, nl_blanks]
  | (s, b) :: rest, trail, hno => by
    have ih := left6_nl rest trail (fun it hit => hno it (by simp [hit]))
    have hp := nl_para (lines5 b) (hno (s, b) (by simp))
    simp only [left6, rawDoc6, nl_append, nl_blanks, hp, ih]
    omega

/-- the block phase on a stage-6 document -/
theorem runT_doc6 (items : List (Nat × Raw5)) (trail : Nat) (hgood : ∀ it ∈ items, Good5 it.2)
    (hseps : SepsOK6 none items) (hic : IcOK6 false items)
    (hno : ∀ it ∈ items, ∀ l ∈ lines5 it.2, ∀ c ∈ l, c ≠ 10) :
    ∃ s' bs, runT pts (rawDoc6 items trail) = .ok s' ∧ bs.length = items.length ∧
      s'.nodes = addKids { kind := .document } 0 items.length ::
        mkNodes5 (closedOf6 0 items) (items.map (·.2)) bs ∧ s'.pc.refs = [] := by
  have hd := docAt6_raw items trail [] hno
  simp only [List.nil_append, List.length_nil] at hd
  have hl := left6_nl items trail hno
  have hf : left6 items trail + 2 ≤ linesFuel (rawDoc6 items trail) := by
    simp only [linesFuel, lineCount]
    have : nl (rawDoc6 items trail) = (List.filter (fun x => x == 10) (rawDoc6 items trail)).length := rfl
    omega
  obtain ⟨s', bs, h1, h2, h3, h4⟩ :=
    (claim6_all (src := rawDoc6 items trail) items).1 trail 0 0 (linesFuel (rawDoc6 items trail)) []
      { kind := .document } [] ({ } : Ctx) hd hgood hseps hic hf rfl
  rw [mkNodes5L_node5] at h3
  refine ⟨s', bs, ?_, h2, by simpa using h3, h4⟩
  unfold runT parseBlocksT
  simp only [bind_apply, modPc_run, source_run, initSt, reader_new, rdr_source]
  simp only [h1]
  rfl

/-! ### composition -/

/-- every block lies in the source at its position and is good for all three phases -/
def AllAt (src : Bytes) : List (Nat × List Bytes) → List Raw5 → Prop
  | (p, ls) :: cl, b :: blks => ls = lines5 b ∧ ParaAt src p ls ∧ p ≤ src.length ∧ Good5' b ∧ AllAt src cl blks
  | [], [] => True
  | _, _ => False

theorem docTrees_nodes6 {src : Bytes} (env : GM.Inl.Env) (henv : env.escapedSpace = false) :
    ∀ (cl : List (Nat × List Bytes)) (blks : List Raw5) (bs : List Bool), AllAt src cl blks → bs.length = cl.length →
      GM.Convert.docTrees true env src ((mkNodes5 cl blks bs).map (fun n => Tree.node n [])) = .ok (blks.map rawNode5)
  | [], [], _, _, _ => by simp [mkNodes5, GM.Convert.docTrees, pure, Except.pure]
  | [], _ :: _, _, h, _ => by simp [AllAt] at h
  | _ :: _, [], _, h, _ => by simp [AllAt] at h
  | _ :: _, _ :: _, [], _, h => by simp at h
  | (p, ls) :: cl, b :: blks, bk :: bs, h, hl => by
    obtain ⟨rfl, hpa, hp, hg, hrest⟩ := h
    have ih := docTrees_nodes6 env henv cl blks bs hrest (by simpa using hl)
    simp only [mkNodes5, List.map_cons, GM.Convert.docTrees, docTree_block5 env henv b p bk hg hpa hp, ih, bind,
      Except.bind, pure, Except.pure]

theorem docAt6_le {src : Bytes} : ∀ (items : List (Nat × Raw5)) (trail q : Nat), DocAt6 src q items trail →
    q ≤ src.length
  | [], trail, q, h => by have := h.2; omega
  | (s, b) :: rest, trail, q, h => by
    have := docAt6_le rest trail _ h.2.2; omega

theorem allAt_closed {src : Bytes} : ∀ (items : List (Nat × Raw5)) (trail q : Nat), DocAt6 src q items trail →
    (∀ it ∈ items, Good5' it.2) → AllAt src (closedOf6 q items) (items.map (·.2))
  | [], _, _, _, _ => trivial
  | (s, b) :: rest, trail, q, h, hg => by
    obtain ⟨_, hpa, hdr⟩ := h
    have hle := docAt6_le rest trail _ hdr
    exact ⟨rfl, hpa, by omega, hg (s, b) (by simp),
      allAt_closed rest trail _ hdr (fun it hit => hg it (by simp [hit]))⟩

theorem closedOf6_length : ∀ (items : List (Nat × Raw5)) (q : Nat), (closedOf6 q items).length = items.length
  | [], _ => rfl
  | (s, b) :: rest, q => by simp [closedOf6, closedOf6_length rest]

/-- the model of `goldmark.Convert` on the source of a stage-6 document of good blocks -/
theorem convert_raw6_any (o : GM.Convert.ROpts) (ho : o.hardWraps = false) (hxo : o.xhtml = true)
    (uc : List (Nat × (Bool × Bool))) (items : List (Nat × Raw5)) (trail : Nat)
    (hgood : ∀ it ∈ items, Good5' it.2) (hseps : SepsOK6 none items) (hic : IcOK6 false items) :
    GM.Convert.convertCore uc o (rawDoc6 items trail) = .ok (hdocHtml (items.map (·.2))) := by
  have hno : ∀ it ∈ items, ∀ l ∈ lines5 it.2, ∀ c ∈ l, c ≠ 10 := fun it hit => lines5_no_nl it.2 (hgood it hit)
  obtain ⟨s', bs, h1, h2, h3, h4⟩ := runT_doc6 items trail (fun it hit => good5_of it.2 (hgood it hit)) hseps hic hno
  have hd := docAt6_raw items trail [] hno
  simp only [List.nil_append, List.length_nil] at hd
  have hall := allAt_closed items trail 0 hd hgood
  have hlen : (closedOf6 0 items).length = items.length := closedOf6_length items 0
  have hml := mkNodes5_length (closedOf6 0 items) (items.map (·.2)) bs (by simp [hlen]) (by rw [hlen]; exact h2)
  have htree : treeOf s'.nodes s'.nodes.length 0 =
      .node (addKids { kind := .document } 0 items.length)
        ((mkNodes5 (closedOf6 0 items) (items.map (·.2)) bs).map fun n => Tree.node n []) := by
    rw [h3]
    have hk := treeOf_kids (mkNodes5 (closedOf6 0 items) (items.map (·.2)) bs).length
      (mkNodes5 (closedOf6 0 items) (items.map (·.2)) bs)
      [addKids { kind := .document } 0 items.length] (mkNodes5_children _ _ _)
    simp only [List.length_cons, treeOf]
    have e1 : ((addKids { kind := .document } 0 items.length ::
        mkNodes5 (closedOf6 0 items) (items.map (·.2)) bs).getD 0 default) =
        addKids { kind := .document } 0 items.length := rfl
    rw [e1]
    have e2 : (addKids { kind := .document } 0 items.length).children =
        List.range' 1 (mkNodes5 (closedOf6 0 items) (items.map (·.2)) bs).length := by
      rw [hml, hlen]; simp [addKids]
    rw [e2]
    congr 1
  have hdt := docTrees_nodes6 (src := rawDoc6 items trail) { refs := s'.pc.refs, uc := uc } rfl
    (closedOf6 0 items) (items.map (·.2)) bs hall (by rw [hlen]; exact h2)
  have hlev : ∀ b ∈ items.map (·.2), ∀ level l, b = Raw5.old (RawBlock.atx level l) → level ≤ 6 := by
    intro b hb level l he
    obtain ⟨it, hit, rfl⟩ := List.mem_map.mp hb
    have := hgood it hit
    rw [he] at this
    exact this.2.1
  unfold GM.Convert.convertCore GM.Convert.convertWith GM.Convert.parseDoc GM.Convert.blockPhase
  have hrun : runT (GM.Convert.paragraphTransformers true) (rawDoc6 items trail) = .ok s' := h1
  simp only [hrun, GM.Convert.liftErr, bind, Except.bind, htree, GM.Convert.docTree, hdt, GM.Convert.inlinePhase,
    addKids, GM.Convert.isRawKind, GM.Convert.blockKind, pure, Except.pure]
  have hit0 : GM.Convert.inlineTrees (rawDoc6 items trail) [] = .ok [] := rfl
  have := renderDoc_hdoc_any o ho hxo (items.map (·.2)) hlev
  simp only [hdocNode] at this
  simpa [hit0] using this

theorem convert_raw6 (uc : List (Nat × (Bool × Bool))) (items : List (Nat × Raw5)) (trail : Nat)
    (hgood : ∀ it ∈ items, Good5' it.2) (hseps : SepsOK6 none items) (hic : IcOK6 false items) :
    GM.Convert.convertCore uc cmOpts (rawDoc6 items trail) = .ok (hdocHtml (items.map (·.2))) :=
  convert_raw6_any cmOpts rfl rfl uc items trail hgood hseps hic

/-- **stage 12**: the model of `goldmark.Convert` on the source of a document of paragraphs, ATX headings, thematic
    breaks, fenced code blocks and INDENTED CODE BLOCKS (`Raw5.icode`), blocks abutting where CommonMark allows (an
    indented code block needs a blank line behind a paragraph: `AbutOK5`) and no indented code block behind an indented
    code block (`IcOK6`): exactly the prescribed HTML `hdocHtml` -/
theorem convert_raw12 (uc : List (Nat × (Bool × Bool))) (items : List (Nat × Raw5)) (trail : Nat)
    (hgood : ∀ it ∈ items, Good5' it.2) (hseps : SepsOK6 none items) (hic : IcOK6 false items) :
    GM.Convert.convertCore uc cmOpts (rawDoc6 items trail) = .ok (hdocHtml (items.map (·.2))) :=
  convert_raw6 uc items trail hgood hseps hic

/-! ### stage-6 fragment documents -/

open GM.Spec.CM GM.Spec.CMFrag

def convK (it : KItem) : Nat × Raw5 := (it.sep, rawOfH it.block)

theorem spellK_raw (d : KDoc) : spellK d = rawDoc6 (d.items.map convK) d.trail := by
  obtain ⟨items, trail⟩ := d
  simp only [spellK]
  induction items with
  | nil => rfl
  | cons it rest ih =>
    simp only [List.flatMap_cons, List.map_cons, convK, rawDoc6, paraBytes_rawOfH, blanks_eq] at ih ⊢
    rw [← ih]
    simp

theorem isParaB_rawOfH (a : HBlock) : isParaB (rawOfH a) = (match a with | .base (.para _) => true | _ => false) := by
  cases a with
  | base b => cases b <;> rfl
  | fcode tilde n info lines => rfl

theorem abutOK_of (a b : HBlock) (h : kabutOK a b = true) : AbutOK5 (isParaB (rawOfH a)) (rawOfH b) := by
  cases b with
  | base b' =>
    cases b' with
    | para lines =>
      cases a with
      | base a' => cases a' <;> simp [kabutOK] at h <;> simp [rawOfH, rawOfG, AbutOK5, isParaB]
      | fcode tilde n info ls => simp [rawOfH, rawOfG, AbutOK5, isParaB]
    | heading level text => simp [rawOfH, rawOfG, AbutOK5]
    | thematic c n =>
      simp only [rawOfH, rawOfG, AbutOK5]
      intro hp
      cases a with
      | base a' =>
        cases a' with
        | para lines =>
          simp only [kabutOK, bne_iff_ne, ne_eq] at h
          simp only [thematicLine, Bool.false_eq_true, if_false, List.replicate_succ, List.head?_cons]
          intro he
          simp only [Option.some.injEq] at he
          split at he
          · cases he
          · rename_i h0
            split at he
            · rename_i h1; simp at h1; exact h h1
            · cases he
        | heading _ _ => simp [rawOfH, rawOfG, isParaB] at hp
        | thematic _ _ => simp [rawOfH, rawOfG, isParaB] at hp
      | fcode tilde n' info ls => simp [rawOfH, isParaB] at hp
  | fcode tilde n info lines => simp [rawOfH, AbutOK5]

theorem sepsOK_of : ∀ (prev : Option HBlock) (items : List KItem), ksepsOK prev items = true →
    SepsOK6 (prev.map fun a => isParaB (rawOfH a)) (items.map convK)
  | _, [], _ => by cases ‹Option HBlock› <;> trivial
  | none, it :: rest, h => by
    simp only [ksepsOK] at h
    exact sepsOK_of (some it.block) rest h
  | some a, it :: rest, h => by
    simp only [ksepsOK, Bool.and_eq_true, Bool.or_eq_true, bne_iff_ne, ne_eq] at h
    refine ⟨?_, sepsOK_of (some it.block) rest h.2⟩
    intro hs
    rcases h.1 with h1 | h1
    · exact absurd hs h1
    · exact abutOK_of a it.block h1

/-- **the conformance theorem of the stage-6 fragment**, for any renderer options with XHTML and without HardWraps -/
theorem fragment6_conforms_any (o : GM.Convert.ROpts) (ho : o.hardWraps = false) (hxo : o.xhtml = true)
    (d : KDoc) (h : KFrag d) (uc : List (Nat × (Bool × Bool))) :
    GM.Convert.convertCore uc o (spellK d) = .ok (expectedK d) := by
  unfold KFrag kfragB at h
  simp only [Bool.and_eq_true, List.all_eq_true] at h
  obtain ⟨hok, hseps⟩ := h
  have hgood : ∀ it ∈ d.items.map convK, Good5' it.2 := by
    intro x hx
    obtain ⟨it, hit, rfl⟩ := List.mem_map.mp hx
    exact good5_rawOfH it.block (hok it hit)
  have hnoic : ∀ it ∈ d.items.map convK, isIcB it.2 = false := by
    intro x hx
    obtain ⟨it, hit, rfl⟩ := List.mem_map.mp hx
    exact isIcB_rawOfH it.block
  have hc := convert_raw6_any o ho hxo uc (d.items.map convK) d.trail hgood (sepsOK_of none d.items hseps)
    (icOK6_of_none _ false hnoic)
  rw [spellK_raw, hc]
  have he : expectedK d = hdocHtml ((d.items.map (·.block)).map rawOfH) := by
    rw [hdocHtml_spelled _ (by
      intro b hb
      obtain ⟨it, hit, rfl⟩ := List.mem_map.mp hb
      exact hok it hit)]
    simp [expectedK, List.flatMap_map]
  rw [he]
  simp [convK, List.map_map, Function.comp_def]

/-- **the conformance theorem of the stage-6 fragment** -/
theorem fragment6_conforms (d : KDoc) (h : KFrag d) (uc : List (Nat × (Bool × Bool))) :
    GM.Convert.convertCore uc cmOpts (spellK d) = .ok (expectedK d) :=
  fragment6_conforms_any cmOpts rfl rfl d h uc

end GM.Proof.CMFrag
